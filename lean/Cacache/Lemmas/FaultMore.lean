/-
**C13 for the remaining operations, under EVERY fault plan.**

`Prog.runFault env plan p fs i` runs `p` with the calls selected by `plan` failing (any positions,
any number of them, any error kind; a failing `remove_dir_all` may have removed any subset of the
files below its directory — `execFail`).  This file covers what `Props/C13.lean`, `Props/C13x.lean`
and `Lemmas/FaultStrict.lean` leave open.  Every theorem quantifies over every plan, every start
index, every environment; the T1–T3a theorems also over EVERY filesystem state (no invariant assumed).

* **T1 extraction** (`extractHash`, `extract true`; copy / hard link / reflink; the model has ONE program
  for the sync and async entry points).  `extractHash_fault`, `extract_fault`:
  an `.ok n` answer ⇒ the content file holds `n` bytes `b`, `b` passes `Sri.check` of the integrity, and
  the destination holds exactly `b` (`DestHolds`; `extractHash_ok_delivers` for a destination that is
  not a symbolic link, `extractHash_ok_read_back` for every destination: reading it never yields other
  bytes); an `.error` answer ⇒ the whole filesystem is as before; whatever the answer only
  `destTargets how fs dest` can change, so the cache is untouched when those lie outside it
  (`extractHash_cache_untouched`, `destTargets_outside`).  NO success with wrong destination bytes is
  possible in the model.  Model limits, stated where they matter: `execFail` gives a failing
  `copyFile` / `hardLink` / `reflink` NO partial effect (a real `fs::copy` that fails may leave a
  created / truncated / partly written destination: the error answer and the cache frame are what
  carries over, not "destination untouched"); a copy onto a symbolic link writes through the link
  (`copyTo`), which is why the frame needs `destTargets`, not just "`dest` outside the cache".
* **T2 listing** (`ls`).  `ls_fault_readonly` (read-only under every plan), `ls_fault_sublist` (the
  entries listed are a SUBLIST of the healthy listing's entries: per bucket the healthy block, nothing,
  or one error item — nothing invented, nothing spliced, nothing duplicated), `ls_fault_genuine` (healthy,
  tidy cache: every listed entry is what the index maps its key to, keys pairwise distinct),
  `ls_silent`.
* **T3 full removal** (`removeFully`).  `removeFully_fault_shape` (every run: ok + bucket gone, or error;
  only the key's bucket file and the found entry's content file can disappear, nothing is created or
  altered), `removeFully_ok_absent` (ok ⇒ every later lookup of the key answers `.ok none`, under faults
  never "found"), `removeFully_error_index_untouched` (error ⇒ the whole index area is untouched),
  `removeFully_fault_healthy` (healthy cache stays healthy; other buckets' keys look up as before; on
  error EVERY key looks up as before).  OBSERVED (not a violation of C13): an injected `NotFound` on the
  content `unlink` or on the lookup's bucket read is taken for "already gone" / "no entry": the answer is
  ok, the key is gone, the content file is LEFT BEHIND (examples below).
* **T4 `clear` for every child order**: `clearIn σ` = `clear` with the children reordered by any
  permutation `σ`; `removeEach_fault_sub`, `run_removeEach_perm`, `removeEach_perm_ok_truthful`,
  `removeEach_perm_fault_healthy`, `clearIn_fault`.
* **T5**: `pairPlan a b f g` (exactly two faults) instances.
-/
import Cacache.Lemmas.FaultStrict
import Cacache.Props.C18

namespace Cacache
namespace FaultMore
open Prog FaultStrict

variable {α β : Type}

/-! ### generic facts about `runFault` -/

/-- Running a sequential composition under a fault plan: the second part starts at the call index
the first part ended at. -/
theorem runFault_bind (env : Env) (plan : Nat → Option Fault) (p : Prog α) (f : α → Prog β)
    (fs : FS) (i : Nat) :
    runFault env plan (Prog.bind p f) fs i =
      ((runFault env plan (f (runFault env plan p fs i).1) (runFault env plan p fs i).2.1
          (i + (runFault env plan p fs i).2.2.length)).1,
       (runFault env plan (f (runFault env plan p fs i).1) (runFault env plan p fs i).2.1
          (i + (runFault env plan p fs i).2.2.length)).2.1,
       (runFault env plan p fs i).2.2 ++
         (runFault env plan (f (runFault env plan p fs i).1) (runFault env plan p fs i).2.1
          (i + (runFault env plan p fs i).2.2.length)).2.2) := by
  induction p generalizing fs i with
  | done a => simp [runFault]
  | sys c k ih =>
    simp only [bind_sys, runFault]
    split
    · rw [ih]
      simp only [List.length_cons, List.cons_append, Nat.add_assoc, Nat.add_comm 1]
    · rw [ih]
      simp only [List.length_cons, List.cons_append, Nat.add_assoc, Nat.add_comm 1]

/-- A failing read-only call leaves nothing behind. -/
theorem execFail_readOnly (env : Env) (c : Call) (h : ReadOnly c) (fs : FS) (short : Nat) :
    execFail env fs short c = fs := by
  cases c <;> simp [ReadOnly, Call.mutating] at h <;> rfl

/-- **A read-only program is read-only under every fault plan.** -/
theorem fault_readOnly {Ok : α → Prop} {p : Prog α} (hp : AllCallsR ReadOnly Ok p) (env : Env)
    (plan : Nat → Option Fault) (fs : FS) (i : Nat) : (runFault env plan p fs i).2.1 = fs := by
  induction p generalizing fs i with
  | done a => rfl
  | sys c k ih =>
    simp only [runFault]
    split
    · rw [ih _ (hp.2 _ (answer_err _ _)), execFail_readOnly env c hp.1]
    · rw [ih _ (hp.2 _ (answer_exec env fs c)), exec_readOnly env c hp.1]

/-- The plan fires nowhere from index `i` on. -/
def Silent (plan : Nat → Option Fault) (i : Nat) : Prop := ∀ j, i ≤ j → plan j = none

/-- If no fault fires the run is the healthy one. -/
theorem runFault_silent (env : Env) (plan : Nat → Option Fault) (p : Prog α) (fs : FS) (i : Nat)
    (h : Silent plan i) : runFault env plan p fs i = run env p fs := by
  induction p generalizing fs i with
  | done a => rfl
  | sys c k ih =>
    simp only [runFault, run, h i (Nat.le_refl _)]
    rw [ih _ _ _ (fun j hj => h j (by omega))]

/-! ### T2 — listing under every fault plan -/

section Listing
open ListRefine CacheRefine Refine
variable (cfg : Cfg)

/-- The entries among the items of a listing. -/
def entriesOf (items : List LsItem) : List Meta :=
  items.filterMap (fun | .entry m => some m | .err _ => none)

theorem entriesOf_append (a b : List LsItem) : entriesOf (a ++ b) = entriesOf a ++ entriesOf b :=
  List.filterMap_append

theorem mem_entriesOf {items : List LsItem} {m : Meta} : m ∈ entriesOf items ↔ LsItem.entry m ∈ items := by
  unfold entriesOf
  rw [List.mem_filterMap]
  constructor
  · rintro ⟨x, hx, hm⟩
    cases x with
    | entry m' => simp only [Option.some.injEq] at hm; subst hm; exact hx
    | err e => cases hm
  · intro h; exact ⟨_, h, rfl⟩

/-- The items `lsBuckets` makes of the answer of one bucket read. -/
def bucketItems (here : Res (List Rec)) : List LsItem :=
  match here with
  | .ok rs => ((codec cfg).lsOf rs).filterMap (fun | .live m => some (.entry m) | _ => none)
  | .error e => [.err e]

theorem lsBuckets_cons_file (p : Path) (rest : List (Path × Bool)) :
    lsBuckets cfg ((p, false) :: rest) =
      Prog.bind (bucketEntries cfg p) (fun here =>
        Prog.bind (lsBuckets cfg rest) (fun more => .done (bucketItems cfg here ++ more))) := by
  rw [lsBuckets]
  rfl

/-- One bucket read under a fault plan: the filesystem is untouched, one call is issued, and the
answer is the healthy one, an error, or "no records" (an injected `NotFound`). -/
theorem bucketEntries_fault (p : Path) (env : Env) (plan : Nat → Option Fault) (fs : FS) (i : Nat) :
    (runFault env plan (bucketEntries cfg p) fs i).2.1 = fs ∧
    (runFault env plan (bucketEntries cfg p) fs i).2.2.length = 1 ∧
    ((runFault env plan (bucketEntries cfg p) fs i).1 = (run env (bucketEntries cfg p) fs).1 ∨
      (∃ e, (runFault env plan (bucketEntries cfg p) fs i).1 = .error e) ∨
      (runFault env plan (bucketEntries cfg p) fs i).1 = .ok []) := by
  refine ⟨fault_readOnly (bucketEntries_ro cfg p) env plan fs i, ?_, ?_⟩
  · unfold bucketEntries
    simp only [bind_eq, pure_eq, call, bind_sys, bind_done, runFault]
    split <;> (split <;> rfl)
  · unfold bucketEntries
    simp only [bind_eq, pure_eq, call, bind_sys, bind_done, runFault, run]
    cases plan i with
    | none =>
      left
      simp only
      generalize exec env fs (.readFile p) = x
      obtain ⟨fs1, r⟩ := x
      cases r <;> (try rename_i e; cases e) <;> rfl
    | some f =>
      right
      simp only
      cases f.e with
      | notFound => exact Or.inr rfl
      | «exists» => exact Or.inl ⟨_, rfl⟩
      | other => exact Or.inl ⟨_, rfl⟩

theorem entriesOf_bucketItems_nil : entriesOf (bucketItems cfg (.ok [])) = [] := rfl

theorem entriesOf_bucketItems_error (e : Err) : entriesOf (bucketItems cfg (.error e)) = [] := rfl

theorem lsBuckets_fault_step (p : Path) (rest : List (Path × Bool)) (env : Env)
    (plan : Nat → Option Fault) (fs : FS) (i : Nat) :
    (runFault env plan (lsBuckets cfg ((p, false) :: rest)) fs i).1 =
      bucketItems cfg (runFault env plan (bucketEntries cfg p) fs i).1 ++
        (runFault env plan (lsBuckets cfg rest) fs (i + 1)).1 := by
  obtain ⟨h1, h2, _⟩ := bucketEntries_fault cfg p env plan fs i
  rw [lsBuckets_cons_file, runFault_bind, runFault_bind]
  simp only [h1, h2, runFault]

/-- **Per bucket**: under every fault plan, the entries listed are a sublist of those of the healthy
listing (same order, nothing duplicated, nothing invented): each bucket contributes its healthy block
of items, or nothing, or one error item. -/
theorem lsBuckets_fault_sublist (es : List (Path × Bool)) (env : Env) (plan : Nat → Option Fault)
    (fs : FS) (i : Nat) :
    (entriesOf (runFault env plan (lsBuckets cfg es) fs i).1).Sublist
      (entriesOf (run env (lsBuckets cfg es) fs).1) := by
  induction es generalizing i with
  | nil => exact List.Sublist.refl _
  | cons e es ih =>
    obtain ⟨p, d⟩ := e
    cases d with
    | true => rw [lsBuckets]; exact ih i
    | false =>
      have hh := lsBuckets_fault_step cfg p es env (fun _ => none) fs i
      simp only [runFault_none] at hh
      rw [lsBuckets_fault_step, hh, entriesOf_append, entriesOf_append]
      refine List.Sublist.append ?_ (ih (i + 1))
      rcases (bucketEntries_fault cfg p env plan fs i).2.2 with h | ⟨e, h⟩ | h
      · rw [h]; exact List.Sublist.refl _
      · rw [h, entriesOf_bucketItems_error]; exact List.nil_sublist _
      · rw [h, entriesOf_bucketItems_nil]; exact List.nil_sublist _

variable (cache : Path)

/-- **T2a. `ls` is read-only under every fault plan.** -/
theorem ls_fault_readonly (env : Env) (plan : Nat → Option Fault) (fs : FS) (i : Nat) :
    (runFault env plan (ls cfg cache) fs i).2.1 = fs :=
  fault_readOnly (ls_ro cfg cache) env plan fs i

/-- **T2b. Nothing is invented, nothing is spliced**: under every fault plan the entries `ls` yields
form a sublist of the entries of the healthy listing of the same filesystem. -/
theorem ls_fault_sublist (env : Env) (plan : Nat → Option Fault) (fs : FS) (i : Nat) :
    (entriesOf (runFault env plan (ls cfg cache) fs i).1).Sublist
      (entriesOf (run env (ls cfg cache) fs).1) := by
  unfold ls
  simp only [bind_eq, pure_eq, call, bind_sys, bind_done, runFault, run]
  have hro : (exec env fs (.walk (cache ++ [dIndex]))).1 = fs :=
    exec_readOnly env _ (show ReadOnly (.walk _) from rfl) fs
  cases plan i with
  | some f => exact List.nil_sublist _
  | none =>
    simp only [hro]
    generalize (exec env fs (.walk (cache ++ [dIndex]))).2 = r
    cases r <;> first
      | exact List.Sublist.refl _
      | exact lsBuckets_fault_sublist cfg _ env plan fs (i + 1)

/-- … in terms of membership. -/
theorem ls_fault_sound (env : Env) (plan : Nat → Option Fault) (fs : FS) (i : Nat) (m : Meta)
    (h : LsItem.entry m ∈ (runFault env plan (ls cfg cache) fs i).1) :
    LsItem.entry m ∈ (run env (ls cfg cache) fs).1 :=
  mem_entriesOf.mp ((ls_fault_sublist cfg cache env plan fs i).subset (mem_entriesOf.mpr h))

/-- **T2c. Every listed entry is a genuine live entry of the index** (healthy, tidy cache): it is
exactly what the index maps its key to (= what `find` answers for that key, `Refine.run_find`), and
the listed keys are pairwise distinct. -/
theorem ls_fault_genuine (env : Env) (plan : Nat → Option Fault) (fs : FS) (i : Nat)
    (hH : Healthy cfg cache fs) (hT : Tidy cfg cache fs) :
    (∀ m, LsItem.entry m ∈ (runFault env plan (ls cfg cache) fs i).1 →
      absIndex cfg cache fs m.key = some m ∧ (run env (find cfg cache m.key) fs).1 = .ok (some m)) ∧
    ((entriesOf (runFault env plan (ls cfg cache) fs i).1).map (fun m => m.key)).Nodup := by
  have hsub := ls_fault_sublist cfg cache env plan fs i
  have hl := (run_ls cfg cache env fs hH hT).2
  by_cases hd : fs.isDir (cache ++ [dIndex]) = true
  · rw [if_pos hd] at hl
    obtain ⟨ms, hms, hnd, hiff⟩ := hl
    have hent : entriesOf (run env (ls cfg cache) fs).1 = ms := by
      rw [hms]
      unfold entriesOf
      rw [List.filterMap_map]
      have : ((fun x => match x with | LsItem.entry m => some m | LsItem.err _ => none) ∘ LsItem.entry) =
          (some : Meta → Option Meta) := rfl
      rw [this, List.filterMap_some]
    rw [hent] at hsub
    refine ⟨?_, (hsub.map _).nodup hnd⟩
    intro m hm
    have hx := (hiff m).mp (hsub.subset (mem_entriesOf.mpr hm))
    exact ⟨hx, by rw [(run_find cfg cache env m.key fs hH.index).1, hx]⟩
  · rw [if_neg hd] at hl
    have hent : entriesOf (run env (ls cfg cache) fs).1 = [] := by rw [hl]; rfl
    rw [hent] at hsub
    have := List.eq_nil_of_sublist_nil hsub
    refine ⟨?_, by rw [this]; exact List.nodup_nil⟩
    intro m hm
    have := mem_entriesOf.mpr hm
    rw [List.eq_nil_of_sublist_nil hsub] at this
    cases this

/-- **T2d.** If no fault fires, the answer (and the trace) is the healthy one. -/
theorem ls_silent (env : Env) (plan : Nat → Option Fault) (fs : FS) (i : Nat) (h : Silent plan i) :
    runFault env plan (ls cfg cache) fs i = run env (ls cfg cache) fs :=
  runFault_silent env plan _ fs i h

end Listing

/-! ### T1 — checked extraction under every fault plan -/

section Extraction
variable (cfg : Cfg)

/-- The one mutating call of an extraction. -/
def extractCall (how : Extract) (cpath dest : Path) : Call :=
  match how with
  | .copy => .copyFile cpath dest
  | .hardLink => .hardLink cpath dest
  | .reflink => .reflink cpath dest

/-- The only paths an extraction to `dest` can create or change in the state `fs`: `dest` itself —
or, for a copy onto a symbolic link, the file the link leads to (`open(O_TRUNC)` follows it). -/
def destTargets (how : Extract) (fs : FS) (dest : Path) : List Path :=
  match how with
  | .copy => Call.fileTargets fs (.copyFile [] dest)
  | _ => [dest]

theorem destTargets_plain (how : Extract) (fs : FS) (dest : Path)
    (hl : ∀ t, fs.get dest ≠ some (.link t)) : destTargets how fs dest = [dest] := by
  cases how
  · simp only [destTargets, Call.fileTargets]
  · rfl
  · rfl

/-- **What "the destination holds `b`" means in the model**: `dest` is a regular file with exactly the
bytes `b` and nothing else changed; or (copy only) `dest` was a symbolic link, the file `q` it leads
to holds exactly `b` and nothing else changed. -/
def DestHolds (fs fs' : FS) (dest : Path) (b : Bytes) : Prop :=
  (fs'.get dest = some (.file b) ∧ ∀ q, q ≠ dest → fs'.get q = fs.get q) ∨
  (∃ t q, fs.get dest = some (.link t) ∧
    FS.resolve fs FS.resolveFuel (FS.targetPath dest t) = some q ∧
    fs'.get q = some (.file b) ∧ ∀ q', q' ≠ q → fs'.get q' = fs.get q')

theorem DestHolds.plain {fs fs' : FS} {dest : Path} {b : Bytes} (h : DestHolds fs fs' dest b)
    (hl : ∀ t, fs.get dest ≠ some (.link t)) :
    fs'.get dest = some (.file b) ∧ ∀ q, q ≠ dest → fs'.get q = fs.get q := by
  rcases h with h | ⟨t, q, ht, _⟩
  · exact h
  · exact absurd ht (hl t)

/-! `FS.resolve` follows symbolic links with a fuel of 8; the next lemmas say that it is deterministic
in the fuel and stable under rewriting the file it ends at. -/

theorem resolve_end_not_link {fs : FS} {n : Nat} {p q : Path} (h : FS.resolve fs n p = some q) :
    ∀ t, fs.get q ≠ some (.link t) := by
  induction n generalizing p with
  | zero => cases h
  | succ n ih =>
    simp only [FS.resolve] at h
    split at h
    · exact ih h
    · rename_i hnl
      cases h
      exact fun t ht => hnl t ht

theorem resolve_det {fs : FS} {n m : Nat} {p q q' : Path} (h : FS.resolve fs n p = some q)
    (h' : FS.resolve fs m p = some q') : q = q' := by
  induction n generalizing p m with
  | zero => cases h
  | succ n ih =>
    cases m with
    | zero => cases h'
    | succ m =>
      simp only [FS.resolve] at h h'
      split at h
      · rename_i t ht
        simp only [ht] at h'
        exact ih h h'
      · rename_i hnl
        split at h'
        · rename_i t ht; exact absurd ht (hnl t)
        · cases h; cases h'; rfl

theorem resolve_put_end {fs : FS} {n : Nat} {p q : Path} (b : Bytes) (h : FS.resolve fs n p = some q) :
    FS.resolve (fs.put q (.file b)) n p = some q := by
  induction n generalizing p with
  | zero => cases h
  | succ n ih =>
    have hq := resolve_end_not_link h
    simp only [FS.resolve] at h ⊢
    split at h
    · rename_i t ht
      have hne : p ≠ q := fun e => hq t (e ▸ ht)
      rw [FS.get_put_ne _ _ hne, ht]
      exact ih h
    · cases h
      rw [FS.get_put_same]

/-- **Reading the destination afterwards never yields other bytes than `b`**: it yields `b`, or — only
when the destination is a symbolic link whose chain uses up the model's link budget, or the root — the
error `other`. -/
theorem DestHolds.read {fs fs' : FS} {dest : Path} {b : Bytes} (h : DestHolds fs fs' dest b) :
    fs'.readFile dest = .ok b ∨ fs'.readFile dest = .error .other := by
  rcases h with ⟨h1, _⟩ | ⟨t, q, ht, hq, hb, hfr⟩
  · cases dest with
    | nil => right; simp [FS.readFile, FS.resolveFuel, FS.resolve, h1]
    | cons x xs => left; exact readFile_of_file (by simp) h1
  · have hne : dest ≠ q := fun e => resolve_end_not_link hq t (e ▸ ht)
    have hd' : fs'.get dest = some (.link t) := by rw [hfr dest hne]; exact ht
    -- `fs'` and `fs.put q (.file b)` agree on every node
    have hget : ∀ x, fs'.get x = (fs.put q (.file b)).get x := by
      intro x
      by_cases e : x = q
      · rw [e, hb, FS.get_put_same]
      · rw [hfr x e, FS.get_put_ne _ _ e]
    have hres : ∀ n p, FS.resolve fs' n p = FS.resolve (fs.put q (.file b)) n p := by
      intro n
      induction n with
      | zero => intro p; rfl
      | succ n ih => intro p; simp only [FS.resolve, hget, ih]
    have hfull := resolve_put_end b hq
    unfold FS.readFile
    cases hr : FS.resolve fs' FS.resolveFuel dest with
    | none => right; rfl
    | some q' =>
      have hstep : FS.resolve fs' (FS.resolveFuel + 1) dest = some q := by
        simp only [FS.resolve, hd']
        rw [hres]; exact hfull
      have : q' = q := by
        rw [hres] at hr
        rw [hres] at hstep
        exact (resolve_det hstep hr).symm
      subst this
      simp only [hb]
      cases q' with
      | nil => right; rfl
      | cons x xs => left; rfl

theorem exec_extractCall_err (env : Env) (fs : FS) (how : Extract) (s d : Path) (e : EK)
    (h : (exec env fs (extractCall how s d)).2 = .err e) : (exec env fs (extractCall how s d)).1 = fs := by
  cases how <;> simp only [extractCall, exec, copyTo] at h ⊢
  all_goals (repeat' split) <;> first | rfl | (simp_all; done)

theorem exec_extractCall_frame (env : Env) (fs : FS) (how : Extract) (s d q : Path)
    (hq : q ∉ destTargets how fs d) : (exec env fs (extractCall how s d)).1.get q = fs.get q := by
  apply step_frame env fs _ _ _ .ok q
  cases how <;> simp only [extractCall, Call.touches, destTargets, Call.fileTargets] at hq ⊢
  · exact hq
  · simpa using hq
  · simpa using hq

theorem exec_extractCall_ok (env : Env) (fs : FS) (how : Extract) (s d : Path) (b : Bytes)
    (hs : s ≠ []) (hr : fs.readFile s = .ok b) (hok : ∀ e, (exec env fs (extractCall how s d)).2 ≠ .err e) :
    DestHolds fs (exec env fs (extractCall how s d)).1 d b := by
  have putOK : ∀ p : Path, (fs.put p (.file b)).get p = some (.file b) ∧
      ∀ q, q ≠ p → (fs.put p (.file b)).get q = fs.get q :=
    fun p => ⟨FS.get_put_same _ _ _, fun q hq => FS.get_put_ne _ _ hq⟩
  cases how
  · -- copy
    simp only [extractCall, exec, hr, copyTo] at hok ⊢
    cases hpar : fs.isDir (FS.parent d) with
    | false => simp [hpar] at hok
    | true =>
      simp only [hpar, Bool.not_true, Bool.false_eq_true, if_false] at hok ⊢
      cases hg : fs.get d with
      | none => exact Or.inl (putOK d)
      | some n =>
        cases n with
        | file b' => exact Or.inl (putOK d)
        | dir => simp [hg] at hok
        | link t =>
          simp only [hg] at hok ⊢
          cases hq : FS.resolve fs FS.resolveFuel (FS.targetPath d t) with
          | none => simp [hq] at hok
          | some q =>
            exact Or.inr ⟨t, q, hg, hq, (putOK q).1, (putOK q).2⟩
  · -- hard link
    left
    simp only [extractCall, exec] at hok ⊢
    cases hg : fs.get s with
    | none => simp [hg] at hok
    | some n =>
      cases n with
      | dir => simp [hg] at hok
      | file b' =>
        have hb : b' = b := by
          have := readFile_of_file hs hg
          rw [hr] at this; cases this; rfl
        subst hb
        simp only [hg] at hok ⊢
        cases h1 : (fs.get d).isSome with
        | true => simp [h1] at hok
        | false =>
          cases h2 : fs.isDir (FS.parent d) with
          | false => simp [h1, h2] at hok
          | true => simp only [Bool.not_true, Bool.false_eq_true, if_false]; exact putOK d
      | link t =>
        simp only [hg, hr] at hok ⊢
        cases h1 : (fs.get d).isSome with
        | true => simp [h1] at hok
        | false =>
          cases h2 : fs.isDir (FS.parent d) with
          | false => simp [h1, h2] at hok
          | true => simp only [Bool.not_true, Bool.false_eq_true, if_false]; exact putOK d
  · -- reflink
    left
    simp only [extractCall, exec, hr] at hok ⊢
    cases h1 : (fs.get d).isSome with
    | true => simp [h1] at hok
    | false =>
      cases h2 : fs.isDir (FS.parent d) with
      | false => simp [h1, h2] at hok
      | true =>
        cases h3 : env.reflinkOK with
        | false => simp [h1, h2, h3] at hok
        | true => simp only [Bool.not_true, Bool.false_eq_true, if_false]; exact putOK d

/-- The verification pass under a fault plan: the filesystem is untouched; an ok answer `n` means the
read was not faulted and the content file holds `n` bytes that pass the check of `sri`. -/
theorem verify_fault (cache : Path) (sri : Integrity) (env : Env) (plan : Nat → Option Fault)
    (fs : FS) (i : Nat) :
    (runFault env plan (verify cfg cache sri) fs i).2.1 = fs ∧
    ∀ n, (runFault env plan (verify cfg cache sri) fs i).1 = .ok n →
      ∃ cpath b, contentPath cache sri = some cpath ∧ fs.readFile cpath = .ok b ∧ b.length = n ∧
        C01.Passes cfg sri b := by
  refine ⟨fault_readOnly (verify_ro cfg cache sri) env plan fs i, ?_⟩
  intro n h
  unfold verify ropenHash at h
  cases hc : contentPath cache sri with
  | none => simp [hc, runFault] at h
  | some cpath =>
    simp only [hc, bind_eq, pure_eq, call, bind_sys, bind_done, runFault] at h
    cases hp : plan i with
    | some f => simp [hp] at h
    | none =>
      simp only [hp, exec] at h
      cases hr : fs.readFile cpath with
      | error e => simp [hr, runFault] at h
      | ok b =>
        refine ⟨cpath, b, rfl, hr, ?_⟩
        simp only [hr] at h
        by_cases he : sri.isEmpty = true
        · simp [he, runFault] at h
        · simp only [he, Bool.false_eq_true, if_false, bind_done, Reader.check, List.take_length] at h
          cases hk : Sri.check cfg.H sri b with
          | none => simp [hk, runFault] at h
          | some a =>
            simp only [hk, runFault, Except.ok.injEq] at h
            exact ⟨h, by unfold C01.Passes; rw [hk]; rfl⟩

theorem execFail_extractCall (env : Env) (fs : FS) (short : Nat) (how : Extract) (s d : Path) :
    execFail env fs short (extractCall how s d) = fs := by
  cases how <;> rfl

/-- What the extraction step does, as a postcondition relating the final to the initial state. -/
abbrev UncheckedPost (env : Env) (how : Extract) (cache : Path) (sri : Integrity) (dest : Path) (fs : FS)
    (a : Res Nat) (fs' : FS) : Prop :=
  (∀ e, a = .error e → fs' = fs) ∧
  (∀ k, a = .ok k → ∃ cpath, contentPath cache sri = some cpath ∧
    fs' = (exec env fs (extractCall how cpath dest)).1 ∧
    ∀ e, (exec env fs (extractCall how cpath dest)).2 ≠ .err e)

/-- The extraction step, for every outcome of every call (demonic calculus): an error answer means
nothing at all changed; an ok answer means the un-faulted extraction call succeeded. -/
theorem extractUnchecked_wp (how : Extract) (cache : Path) (sri : Integrity) (dest : Path)
    (env : Env) (fs : FS) :
    wpD env (fun _ => True) (UncheckedPost env how cache sri dest fs)
      (extractUnchecked how cache sri dest) fs := by
  unfold extractUnchecked
  cases hc : contentPath cache sri with
  | none => exact ⟨trivial, fun e _ => rfl, fun k hk => by cases hk⟩
  | some cpath =>
    have hact : wpD env (fun _ => True) (UncheckedPost env how cache sri dest fs)
        (.sys (extractCall how cpath dest) (fun r => match r with
          | .err e => (.done (.error (.io e)) : Prog (Res Nat))
          | .nat n => .done (.ok n)
          | _ => .done (.ok 0))) fs := by
      refine ⟨trivial, fun _ => trivial, ?_⟩
      intro fs' r hs
      cases hs with
      | fail e short =>
        rw [execFail_extractCall]
        exact ⟨trivial, fun e _ => rfl, fun k hk => by cases hk⟩
      | ok =>
        cases hr : (exec env fs (extractCall how cpath dest)).2 with
        | err e =>
          exact ⟨trivial, fun _ _ => exec_extractCall_err env fs how cpath dest e hr,
            fun k hk => by cases hk⟩
        | _ =>
          exact ⟨trivial, fun e he => (by cases he),
            fun k _ => ⟨cpath, hc, rfl, fun e he => (by rw [hr] at he; cases he)⟩⟩
    cases how
    · simp only [bind_eq, pure_eq, call, bind_sys, bind_done]
      exact hact
    · simp only [bind_eq, pure_eq, call, bind_sys, bind_done]
      refine ⟨trivial, fun _ => trivial, ?_⟩
      intro fs' r hs
      have hfs : fs' = fs := by
        cases hs with
        | fail e short => rfl
        | ok => exact exec_readOnly env _ (show ReadOnly (.sizeOf cpath) from rfl) fs
      subst hfs
      cases r with
      | err e => exact ⟨trivial, fun e _ => rfl, fun k hk => by cases hk⟩
      | _ => exact hact
    · simp only [bind_eq, pure_eq, call, bind_sys, bind_done]
      exact hact

/-- What a checked extraction by address does, relating the final state `fs'` to the initial `fs`. -/
def ExtractPost (how : Extract) (cache : Path) (sri : Integrity) (dest : Path) (fs : FS)
    (a : Res Nat) (fs' : FS) : Prop :=
  (∀ e, a = .error e → fs' = fs) ∧
  (∀ n, a = .ok n → ∃ cpath b, contentPath cache sri = some cpath ∧ fs.readFile cpath = .ok b ∧
    b.length = n ∧ C01.Passes cfg sri b ∧ DestHolds fs fs' dest b) ∧
  (∀ q, q ∉ destTargets how fs dest → fs'.get q = fs.get q)

theorem contentPath_ne_nil {cache : Path} {sri : Integrity} {p : Path}
    (h : contentPath cache sri = some p) : p ≠ [] := by
  obtain ⟨a, hex, rfl⟩ := contentPath_shape h
  simp

/-- **T1 by address.**  Checked `copy_hash` / `hard_link_hash` / `reflink_hash` (both flavours: the
model has one program), under EVERY fault plan, from every filesystem state:
* an `.error` answer: the filesystem is exactly as before (in the model a failing `copyFile` /
  `hardLink` / `reflink` has no partial effect — `execFail`);
* an `.ok n` answer: the content file holds `n` bytes `b` that pass the check of `sri`, and the
  destination holds exactly `b` (`DestHolds`);
* whatever the answer: only `destTargets how fs dest` can have changed. -/
theorem extractHash_fault (how : Extract) (cache : Path) (sri : Integrity) (dest : Path) (env : Env)
    (plan : Nat → Option Fault) (fs : FS) (i : Nat) :
    ExtractPost cfg how cache sri dest fs
      (runFault env plan (extractHash cfg how cache sri dest) fs i).1
      (runFault env plan (extractHash cfg how cache sri dest) fs i).2.1 := by
  obtain ⟨v1, v2⟩ := verify_fault cfg cache sri env plan fs i
  unfold extractHash ExtractPost
  simp only [bind_eq, pure_eq]
  rw [runFault_bind]
  simp only [v1]
  cases hv : (runFault env plan (verify cfg cache sri) fs i).1 with
  | error e => exact ⟨fun _ _ => rfl, fun n hn => (by cases hn), fun _ _ => rfl⟩
  | ok n =>
    obtain ⟨cpath, b, hc, hr, hlen, hpass⟩ := v2 n hv
    simp only
    rw [runFault_bind]
    obtain ⟨-, u1, u2⟩ := wpD_fault (extractUnchecked_wp how cache sri dest env fs) plan
      (i + (runFault env plan (verify cfg cache sri) fs i).2.2.length)
    generalize runFault env plan (extractUnchecked how cache sri dest) fs
      (i + (runFault env plan (verify cfg cache sri) fs i).2.2.length) = R at u1 u2
    obtain ⟨ru, fs2, tr⟩ := R
    cases ru with
    | error e =>
      have := u1 e rfl
      simp only at this
      subst this
      exact ⟨fun _ _ => rfl, fun n hn => (by cases hn), fun _ _ => rfl⟩
    | ok k =>
      obtain ⟨cpath', hc', hfs, hok⟩ := u2 k rfl
      simp only at hfs
      rw [hc] at hc'; cases hc'
      subst hfs
      refine ⟨fun e he => (by cases he), fun n' hn' => ?_, fun q hq => ?_⟩
      · cases hn'
        exact ⟨cpath, b, hc, hr, hlen, hpass,
          exec_extractCall_ok env fs how cpath dest b (contentPath_ne_nil hc) hr hok⟩
      · exact exec_extractCall_frame env fs how cpath dest q hq

/-- `find` is strict for the answer "found": any failing call rules out `.ok (some _)` (an injected
`NotFound` is taken for "no bucket", which answers `.ok none`). -/
theorem find_strict_some (cache : Path) (key : Bytes) :
    Strict (fun r => ∃ m, r = .ok (some m)) (find cfg cache key) := by
  unfold find bucketEntries
  simp only [bind_eq, pure_eq, call, bind_sys, bind_done]
  refine ⟨fun _ e => ?_, fun r => ?_⟩
  · cases e <;> (rintro ⟨m, hm⟩; simp [Codec.findIn] at hm)
  · cases r <;> (try rename_i e; cases e) <;> trivial

/-- A lookup under a fault plan: read-only; and the answer "found `m`" is the healthy answer. -/
theorem find_fault (cache : Path) (key : Bytes) (env : Env) (plan : Nat → Option Fault) (fs : FS)
    (i : Nat) :
    (runFault env plan (find cfg cache key) fs i).2.1 = fs ∧
    ∀ m, (runFault env plan (find cfg cache key) fs i).1 = .ok (some m) →
      (run env (find cfg cache key) fs).1 = .ok (some m) := by
  refine ⟨fault_readOnly (find_ro cfg cache key) env plan fs i, fun m h => ?_⟩
  rw [← fault_ok_is_healthy (find_strict_some cfg cache key) env plan fs i ⟨m, h⟩]
  exact h

/-- **T1 by key.**  Checked `copy` / `hard_link` / `reflink` under EVERY fault plan: as
`extractHash_fault`, for the integrity `m.sri` of the entry the (healthy) lookup of `key` finds. -/
theorem extract_fault (how : Extract) (cache : Path) (key : Bytes) (dest : Path) (env : Env)
    (plan : Nat → Option Fault) (fs : FS) (i : Nat) :
    (∀ e, (runFault env plan (extract cfg true how cache key dest) fs i).1 = .error e →
      (runFault env plan (extract cfg true how cache key dest) fs i).2.1 = fs) ∧
    (∀ n, (runFault env plan (extract cfg true how cache key dest) fs i).1 = .ok n →
      ∃ m cpath b, (run env (find cfg cache key) fs).1 = .ok (some m) ∧
        contentPath cache m.sri = some cpath ∧ fs.readFile cpath = .ok b ∧ b.length = n ∧
        C01.Passes cfg m.sri b ∧
        DestHolds fs (runFault env plan (extract cfg true how cache key dest) fs i).2.1 dest b) ∧
    (∀ q, q ∉ destTargets how fs dest →
      (runFault env plan (extract cfg true how cache key dest) fs i).2.1.get q = fs.get q) := by
  obtain ⟨f1, f2⟩ := find_fault cfg cache key env plan fs i
  unfold extract
  simp only [bind_eq, pure_eq]
  rw [runFault_bind]
  simp only [f1]
  cases hf : (runFault env plan (find cfg cache key) fs i).1 with
  | error e => exact ⟨fun _ _ => rfl, fun n hn => (by cases hn), fun _ _ => rfl⟩
  | ok mo =>
    cases mo with
    | none => exact ⟨fun _ _ => rfl, fun n hn => (by cases hn), fun _ _ => rfl⟩
    | some m =>
      simp only [if_true]
      obtain ⟨h1, h2, h3⟩ := extractHash_fault cfg how cache m.sri dest env plan fs
        (i + (runFault env plan (find cfg cache key) fs i).2.2.length)
      refine ⟨h1, fun n hn => ?_, h3⟩
      obtain ⟨cpath, b, x1, x2, x3, x4, x5⟩ := h2 n hn
      exact ⟨m, cpath, b, f2 m hf, x1, x2, x3, x4, x5⟩

/-! #### T1, spelled out for the usual destination (not a symbolic link, outside the cache) -/

/-- **An ok answer never leaves unverified bytes at the destination**: if `dest` is not a symbolic
link, then after an `.ok n` answer — under any fault plan — `dest` is a regular file holding exactly
the `n` bytes `b` of the content file, `b` passes the check of `sri`, and no other path changed. -/
theorem extractHash_ok_delivers (how : Extract) (cache : Path) (sri : Integrity) (dest : Path)
    (env : Env) (plan : Nat → Option Fault) (fs : FS) (i : Nat) (n : Nat)
    (hl : ∀ t, fs.get dest ≠ some (.link t))
    (h : (runFault env plan (extractHash cfg how cache sri dest) fs i).1 = .ok n) :
    ∃ b, b.length = n ∧ C01.Passes cfg sri b ∧
      (runFault env plan (extractHash cfg how cache sri dest) fs i).2.1.get dest = some (.file b) ∧
      (dest ≠ [] → (runFault env plan (extractHash cfg how cache sri dest) fs i).2.1.readFile dest = .ok b) ∧
      ∀ q, q ≠ dest → (runFault env plan (extractHash cfg how cache sri dest) fs i).2.1.get q = fs.get q := by
  obtain ⟨cpath, b, _, _, hlen, hp, hd⟩ := (extractHash_fault cfg how cache sri dest env plan fs i).2.1 n h
  obtain ⟨g1, g2⟩ := hd.plain hl
  exact ⟨b, hlen, hp, g1, fun hne => readFile_of_file hne g1, g2⟩

/-- **… for EVERY destination (a symbolic link included): after an ok answer, reading the destination
never yields bytes other than the verified `b`** — it yields `b` (or, for a link chain that uses up the
model's link budget of 8, the error `other`; never wrong bytes). -/
theorem extractHash_ok_read_back (how : Extract) (cache : Path) (sri : Integrity) (dest : Path)
    (env : Env) (plan : Nat → Option Fault) (fs : FS) (i : Nat) (n : Nat)
    (h : (runFault env plan (extractHash cfg how cache sri dest) fs i).1 = .ok n) :
    ∃ b, b.length = n ∧ C01.Passes cfg sri b ∧
      ((runFault env plan (extractHash cfg how cache sri dest) fs i).2.1.readFile dest = .ok b ∨
       (runFault env plan (extractHash cfg how cache sri dest) fs i).2.1.readFile dest = .error .other) := by
  obtain ⟨cpath, b, _, _, hlen, hp, hd⟩ := (extractHash_fault cfg how cache sri dest env plan fs i).2.1 n h
  exact ⟨b, hlen, hp, hd.read⟩

theorem extract_ok_read_back (how : Extract) (cache : Path) (key : Bytes) (dest : Path)
    (env : Env) (plan : Nat → Option Fault) (fs : FS) (i : Nat) (n : Nat)
    (h : (runFault env plan (extract cfg true how cache key dest) fs i).1 = .ok n) :
    ∃ m b, (run env (find cfg cache key) fs).1 = .ok (some m) ∧ b.length = n ∧ C01.Passes cfg m.sri b ∧
      ((runFault env plan (extract cfg true how cache key dest) fs i).2.1.readFile dest = .ok b ∨
       (runFault env plan (extract cfg true how cache key dest) fs i).2.1.readFile dest = .error .other) := by
  obtain ⟨m, cpath, b, hf, _, _, hlen, hp, hd⟩ := (extract_fault cfg how cache key dest env plan fs i).2.1 n h
  exact ⟨m, b, hf, hlen, hp, hd.read⟩

/-- **The cache is untouched by extraction, whatever the plan and whatever the answer**: if no
destination target lies at or below the cache directory, every path at or below `cache` keeps its
node — content area, index area, temp area. -/
theorem extractHash_cache_untouched (how : Extract) (cache : Path) (sri : Integrity) (dest : Path)
    (env : Env) (plan : Nat → Option Fault) (fs : FS) (i : Nat)
    (hout : ∀ q ∈ destTargets how fs dest, ¬ cache <+: q) (q : Path) (hq : cache <+: q) :
    (runFault env plan (extractHash cfg how cache sri dest) fs i).2.1.get q = fs.get q :=
  (extractHash_fault cfg how cache sri dest env plan fs i).2.2 q (fun hm => hout q hm hq)

theorem extract_cache_untouched (how : Extract) (cache : Path) (key : Bytes) (dest : Path)
    (env : Env) (plan : Nat → Option Fault) (fs : FS) (i : Nat)
    (hout : ∀ q ∈ destTargets how fs dest, ¬ cache <+: q) (q : Path) (hq : cache <+: q) :
    (runFault env plan (extract cfg true how cache key dest) fs i).2.1.get q = fs.get q :=
  (extract_fault cfg how cache key dest env plan fs i).2.2 q (fun hm => hout q hm hq)

/-- The usual sufficient condition: `dest` is not a symbolic link and does not lie below `cache`. -/
theorem destTargets_outside (how : Extract) (fs : FS) (cache dest : Path)
    (hl : ∀ t, fs.get dest ≠ some (.link t)) (hd : ¬ cache <+: dest) :
    ∀ q ∈ destTargets how fs dest, ¬ cache <+: q := by
  intro q hq
  rw [destTargets_plain how fs dest hl, List.mem_singleton] at hq
  rw [hq]; exact hd

/-- **An error answer leaves the whole filesystem as it was** (model: `execFail` of `copyFile`,
`hardLink`, `reflink` has no partial effect). -/
theorem extractHash_error_unchanged (how : Extract) (cache : Path) (sri : Integrity) (dest : Path)
    (env : Env) (plan : Nat → Option Fault) (fs : FS) (i : Nat) (e : Err)
    (h : (runFault env plan (extractHash cfg how cache sri dest) fs i).1 = .error e) :
    (runFault env plan (extractHash cfg how cache sri dest) fs i).2.1 = fs :=
  (extractHash_fault cfg how cache sri dest env plan fs i).1 e h

end Extraction

/-! ### sub-filesystems: every surviving path keeps its node, nothing is created -/

section Sub
open ListRefine CacheRefine Refine

/-- `fs'` is a sub-filesystem of `fs`: every path holds in `fs'` what it held in `fs`, or nothing. -/
def SubFS (fs fs' : FS) : Prop := ∀ q, fs'.get q = fs.get q ∨ fs'.get q = none

theorem SubFS.refl (fs : FS) : SubFS fs fs := fun _ => Or.inl rfl

theorem SubFS.trans {a b c : FS} (h1 : SubFS a b) (h2 : SubFS b c) : SubFS a c := by
  intro q
  rcases h2 q with h | h
  · rw [h]; exact h1 q
  · exact Or.inr h

theorem SubFS.del (fs : FS) (p : Path) : SubFS fs (fs.del p) := by
  intro q; rw [FS.get_del]; split
  · exact Or.inr rfl
  · exact Or.inl rfl

theorem SubFS.delAll (fs : FS) (ps : List Path) : SubFS fs (fs.delAll ps) := by
  intro q
  rcases FS.delAll_get fs ps q with h | h
  · exact Or.inr h
  · exact Or.inl h

theorem SubFS.noneOrDir {fs fs' : FS} (h : SubFS fs fs') {q : Path} (hn : NoneOrDir fs q) :
    NoneOrDir fs' q := by
  unfold NoneOrDir at hn ⊢
  rcases h q with g | g
  · rw [g]; exact hn
  · exact Or.inl g

variable {cfg : Cfg} {cache : Path}

/-- **A sub-filesystem of a healthy cache is a healthy cache**: every bucket file that is left is the
whole-record (`Settled`) file it was, every content file that is left holds the data of its address
(`ContentValid`), the directories on the way are absent or directories. -/
theorem healthy_sub {fs fs' : FS} (h : Healthy cfg cache fs) (hs : SubFS fs fs') :
    Healthy cfg cache fs' := by
  refine ⟨⟨?_, ?_⟩, ⟨?_, ?_, ?_, ?_⟩⟩
  · intro key q hq hp; exact hs.noneOrDir (h.index.dirs key q hq hp)
  · intro key
    rcases hs (bucketPath cfg cache key) with g | g
    · rw [g]; exact h.index.buckets key
    · exact Or.inl g
  · intro a hexd b hl hg
    rcases hs (addrPath cache a hexd) with g | g
    · rw [g] at hg; exact h.store.valid a hexd b hl hg
    · rw [g] at hg; cases hg
  · intro q hq hp; exact hs.noneOrDir (h.store.tmpDirs q hq hp)
  · intro a hexd q hl hq hp; exact hs.noneOrDir (h.store.dirs a hexd q hl hq hp)
  · intro a hexd hl
    rcases hs (addrPath cache a hexd) with g | g
    · rw [g]; exact h.store.files a hexd hl
    · exact Or.inl g

/-- A sub-filesystem in which a key's bucket file is untouched answers lookups of that key as before. -/
theorem absIndex_sub_same {fs fs' : FS} (key : Bytes)
    (hb : fs'.get (bucketPath cfg cache key) = fs.get (bucketPath cfg cache key)) :
    absIndex cfg cache fs' key = absIndex cfg cache fs key := by
  unfold absIndex; rw [hb]

end Sub

/-! ### T3 — full removal under every fault plan -/

section RemoveFully
open ListRefine CacheRefine Refine
variable (cfg : Cfg) (cache : Path)

/-- One `unlink` whose error is propagated, under a fault plan: ok means the path is gone and
nothing else changed; an error means nothing changed. -/
theorem dropBucket_fault (key : Bytes) (env : Env) (plan : Nat → Option Fault) (fs : FS) (j : Nat) :
    ((runFault env plan (dropBucket cfg cache key) fs j).1 = .ok () ∧
      (runFault env plan (dropBucket cfg cache key) fs j).2.1 = fs.del (bucketPath cfg cache key)) ∨
    (∃ e, (runFault env plan (dropBucket cfg cache key) fs j).1 = .error e ∧
      (runFault env plan (dropBucket cfg cache key) fs j).2.1 = fs) := by
  unfold dropBucket
  simp only [call, bind_sys, bind_done, runFault]
  cases plan j with
  | some f => exact Or.inr ⟨_, rfl, rfl⟩
  | none =>
    simp only [exec]
    cases fs.get (bucketPath cfg cache key) with
    | none => exact Or.inr ⟨_, rfl, rfl⟩
    | some n => cases n <;> first | exact Or.inl ⟨rfl, rfl⟩ | exact Or.inr ⟨_, rfl, rfl⟩

/-- The content step under a fault plan: ok means the entry's content path is gone (or there was no
entry) and nothing else changed; an error means nothing changed. -/
theorem contentProg_fault (mo : Option Meta) (env : Env) (plan : Nat → Option Fault) (fs : FS) (j : Nat) :
    ((runFault env plan (contentProg cache mo) fs j).1 = .ok () ∧
      ((mo = none ∧ (runFault env plan (contentProg cache mo) fs j).2.1 = fs) ∨
       ∃ m cpath, mo = some m ∧ contentPath cache m.sri = some cpath ∧
        (runFault env plan (contentProg cache mo) fs j).2.1 = fs.del cpath)) ∨
    (∃ e, (runFault env plan (contentProg cache mo) fs j).1 = .error e ∧
      (runFault env plan (contentProg cache mo) fs j).2.1 = fs) := by
  cases mo with
  | none => exact Or.inl ⟨rfl, Or.inl ⟨rfl, rfl⟩⟩
  | some m =>
    simp only [contentProg]
    unfold removeHash
    cases hc : contentPath cache m.sri with
    | none => exact Or.inr ⟨_, rfl, rfl⟩
    | some cpath =>
      simp only [bind_eq, pure_eq, call, bind_sys, bind_done, runFault]
      cases plan j with
      | some f => exact Or.inr ⟨_, rfl, rfl⟩
      | none =>
        simp only [exec]
        cases fs.get cpath with
        | none => exact Or.inr ⟨_, rfl, rfl⟩
        | some n =>
          cases n <;> first
            | exact Or.inl ⟨rfl, Or.inr ⟨m, cpath, rfl, hc, rfl⟩⟩
            | exact Or.inr ⟨_, rfl, rfl⟩

/-- The paths `fs` lost on the way to `fs'` all lie in `ps`; everything else is as it was. -/
def Removed (fs fs' : FS) (ps : List Path) : Prop :=
  ∀ q, fs'.get q = fs.get q ∨ (q ∈ ps ∧ fs'.get q = none)

theorem Removed.sub {fs fs' : FS} {ps : List Path} (h : Removed fs fs' ps) : SubFS fs fs' :=
  fun q => (h q).imp id (fun x => x.2)

theorem Removed.mono {fs fs' : FS} {ps ps' : List Path} (h : Removed fs fs' ps)
    (hp : ∀ q ∈ ps, q ∈ ps') : Removed fs fs' ps' :=
  fun q => (h q).imp id (fun x => ⟨hp q x.1, x.2⟩)

theorem removed_refl (fs : FS) (ps : List Path) : Removed fs fs ps := fun _ => Or.inl rfl

theorem removed_del (fs : FS) (p : Path) (ps : List Path) (hp : p ∈ ps) : Removed fs (fs.del p) ps := by
  intro q; rw [FS.get_del]; split
  · rename_i e; exact Or.inr ⟨e ▸ hp, rfl⟩
  · exact Or.inl rfl

theorem removed_del_del (fs : FS) (p p' : Path) (ps : List Path) (hp : p ∈ ps) (hp' : p' ∈ ps) :
    Removed fs ((fs.del p).del p') ps := by
  intro q; rw [FS.get_del, FS.get_del]; split
  · rename_i e; exact Or.inr ⟨e ▸ hp', rfl⟩
  · split
    · rename_i e; exact Or.inr ⟨e ▸ hp, rfl⟩
    · exact Or.inl rfl

/-- The content paths a full removal of `key` may unlink in `fs`: that of the entry the (healthy)
lookup of `key` finds. -/
def entryContent (env : Env) (key : Bytes) (fs : FS) (cps : List Path) : Prop :=
  cps = [] ∨ ∃ m cpath, (run env (find cfg cache key) fs).1 = .ok (some m) ∧
    contentPath cache m.sri = some cpath ∧ cps = [cpath]

/-- **T3, the shape of every run of `remove_fully key` under every fault plan.**  Either the answer is
`.ok ()`, the bucket file of `key` is gone and at most the entry's content file is gone besides; or the
answer is an error and at most the entry's content file is gone.  Nothing is ever created or altered. -/
theorem removeFully_fault_shape (key : Bytes) (env : Env) (plan : Nat → Option Fault) (fs : FS)
    (i : Nat) :
    ∃ cps, entryContent cfg cache env key fs cps ∧
      (((runFault env plan (removeFully cfg cache key) fs i).1 = .ok () ∧
          (runFault env plan (removeFully cfg cache key) fs i).2.1.get (bucketPath cfg cache key) = none ∧
          Removed fs (runFault env plan (removeFully cfg cache key) fs i).2.1
            (bucketPath cfg cache key :: cps)) ∨
       (∃ e, (runFault env plan (removeFully cfg cache key) fs i).1 = .error e ∧
          Removed fs (runFault env plan (removeFully cfg cache key) fs i).2.1 cps)) := by
  obtain ⟨f1, f2⟩ := find_fault cfg cache key env plan fs i
  rw [removeFully_eq, runFault_bind]
  simp only [f1]
  cases hf : (runFault env plan (find cfg cache key) fs i).1 with
  | error e => exact ⟨[], Or.inl rfl, Or.inr ⟨e, rfl, removed_refl _ _⟩⟩
  | ok mo =>
    simp only
    rw [runFault_bind]
    generalize (i + (runFault env plan (find cfg cache key) fs i).2.2.length) = j
    rcases contentProg_fault cache mo env plan fs j with ⟨c1, c2⟩ | ⟨e, c1, c2⟩
    · -- the content step answered ok
      simp only [c1]
      generalize (j + (runFault env plan (contentProg cache mo) fs j).2.2.length) = j2
      rcases c2 with ⟨_, c2⟩ | ⟨m, cpath, hm, hc, c2⟩
      · rw [c2]
        rcases dropBucket_fault cfg cache key env plan fs j2 with ⟨d1, d2⟩ | ⟨e, d1, d2⟩
        · refine ⟨[], Or.inl rfl, Or.inl ⟨d1, ?_, ?_⟩⟩
          · rw [d2]; exact FS.get_del_same _ _
          · rw [d2]; exact removed_del _ _ _ List.mem_cons_self
        · exact ⟨[], Or.inl rfl, Or.inr ⟨e, d1, by rw [d2]; exact removed_refl _ _⟩⟩
      · rw [c2]
        have hent : entryContent cfg cache env key fs [cpath] :=
          Or.inr ⟨m, cpath, f2 m (by rw [hf, hm]), hc, rfl⟩
        rcases dropBucket_fault cfg cache key env plan (fs.del cpath) j2 with ⟨d1, d2⟩ | ⟨e, d1, d2⟩
        · refine ⟨[cpath], hent, Or.inl ⟨d1, ?_, ?_⟩⟩
          · rw [d2]; exact FS.get_del_same _ _
          · rw [d2]
            exact removed_del_del _ _ _ _ (List.mem_cons_of_mem _ List.mem_cons_self) List.mem_cons_self
        · exact ⟨[cpath], hent, Or.inr ⟨e, d1, by rw [d2]; exact removed_del _ _ _ List.mem_cons_self⟩⟩
    · -- the content step answered an error: nothing changed so far
      simp only [c1, c2]
      generalize (j + (runFault env plan (contentProg cache mo) fs j).2.2.length) = j2
      by_cases hgo : goesOn (.error e) = true
      · rw [removeTail_eq, if_pos hgo]
        rcases dropBucket_fault cfg cache key env plan fs j2 with ⟨d1, d2⟩ | ⟨e', d1, d2⟩
        · refine ⟨[], Or.inl rfl, Or.inl ⟨d1, ?_, ?_⟩⟩
          · rw [d2]; exact FS.get_del_same _ _
          · rw [d2]; exact removed_del _ _ _ List.mem_cons_self
        · exact ⟨[], Or.inl rfl, Or.inr ⟨e', d1, by rw [d2]; exact removed_refl _ _⟩⟩
      · rw [removeTail_eq, if_neg hgo]
        exact ⟨[], Or.inl rfl, Or.inr ⟨e, rfl, removed_refl _ _⟩⟩

/-- A lookup of a key whose bucket file is absent answers "no entry" — healthy, and under every
fault plan it never answers "found". -/
theorem find_absent (key : Bytes) (fs : FS) (hn : fs.get (bucketPath cfg cache key) = none) :
    (∀ env, (run env (find cfg cache key) fs).1 = .ok none) ∧
    (∀ env plan j m, (runFault env plan (find cfg cache key) fs j).1 ≠ .ok (some m)) := by
  have h1 : ∀ env, (run env (find cfg cache key) fs).1 = .ok none := by
    intro env
    unfold find bucketEntries
    simp only [bind_eq, pure_eq, call, bind_sys, bind_done, run, exec]
    rw [readFile_absent (bucket_ne_nil cfg cache key) hn]
    rfl
  refine ⟨h1, fun env plan j m h => ?_⟩
  have := (find_fault cfg cache key env plan fs j).2 m h
  rw [h1 env] at this
  cases this

theorem entryContent_not_index {env : Env} {key : Bytes} {fs : FS} {cps : List Path}
    (h : entryContent cfg cache env key fs cps) : ∀ q ∈ cps, InArea cache dContent q := by
  intro q hq
  rcases h with rfl | ⟨m, cpath, _, hc, rfl⟩
  · cases hq
  · rw [List.mem_singleton] at hq; rw [hq]; exact inArea_contentPath hc

/-- **T3a. A success is truthful**: if `remove_fully key` answers `.ok ()` under ANY fault plan, the
key's bucket file is gone, every later (healthy) lookup of `key` answers `.ok none`, and no lookup of
`key` under any fault plan whatsoever answers "found". -/
theorem removeFully_ok_absent (key : Bytes) (env : Env) (plan : Nat → Option Fault) (fs : FS) (i : Nat)
    (h : (runFault env plan (removeFully cfg cache key) fs i).1 = .ok ()) :
    (runFault env plan (removeFully cfg cache key) fs i).2.1.get (bucketPath cfg cache key) = none ∧
    (∀ env', (run env' (find cfg cache key) (runFault env plan (removeFully cfg cache key) fs i).2.1).1 =
      .ok none) ∧
    (∀ env' plan' j m, (runFault env' plan' (find cfg cache key)
      (runFault env plan (removeFully cfg cache key) fs i).2.1 j).1 ≠ .ok (some m)) := by
  obtain ⟨cps, _, hx⟩ := removeFully_fault_shape cfg cache key env plan fs i
  rcases hx with ⟨_, hn, _⟩ | ⟨e, he, _⟩
  · exact ⟨hn, find_absent cfg cache key _ hn⟩
  · rw [h] at he; cases he

/-- **T3b. Whatever the answer**, the run only removes: the result is a sub-filesystem, and the only
paths that can be gone are the key's bucket file and the content file of the entry the lookup found.
In particular every other bucket file (other keys) and every other content file is exactly as before. -/
theorem removeFully_fault_removes (key : Bytes) (env : Env) (plan : Nat → Option Fault) (fs : FS)
    (i : Nat) :
    SubFS fs (runFault env plan (removeFully cfg cache key) fs i).2.1 ∧
    (∀ q, ¬ InArea cache dContent q → q ≠ bucketPath cfg cache key →
      (runFault env plan (removeFully cfg cache key) fs i).2.1.get q = fs.get q) ∧
    (∀ k, bucketPath cfg cache k ≠ bucketPath cfg cache key →
      (runFault env plan (removeFully cfg cache key) fs i).2.1.get (bucketPath cfg cache k) =
        fs.get (bucketPath cfg cache k)) ∧
    (∀ q, (∀ m cpath, (run env (find cfg cache key) fs).1 = .ok (some m) →
        contentPath cache m.sri = some cpath → q ≠ cpath) → q ≠ bucketPath cfg cache key →
      (runFault env plan (removeFully cfg cache key) fs i).2.1.get q = fs.get q) := by
  obtain ⟨cps, hc, hx⟩ := removeFully_fault_shape cfg cache key env plan fs i
  have hR : Removed fs (runFault env plan (removeFully cfg cache key) fs i).2.1
      (bucketPath cfg cache key :: cps) := by
    rcases hx with ⟨_, _, hr⟩ | ⟨e, _, hr⟩
    · exact hr
    · exact hr.mono (fun q hq => List.mem_cons_of_mem _ hq)
  have hgen : ∀ q, ¬ InArea cache dContent q → q ≠ bucketPath cfg cache key →
      (runFault env plan (removeFully cfg cache key) fs i).2.1.get q = fs.get q := by
    intro q hq hne
    rcases hR q with g | ⟨hm, _⟩
    · exact g
    · rcases List.mem_cons.mp hm with e | hm
      · exact absurd e hne
      · exact absurd (entryContent_not_index cfg cache hc q hm) hq
  refine ⟨hR.sub, hgen, ?_, ?_⟩
  · intro k hk
    apply hgen _ _ hk
    intro hin
    exact dIndex_ne_dContent (inArea_disjoint (bucket_inIndex cfg cache k) hin)
  · intro q hq hne
    rcases hR q with g | ⟨hm, _⟩
    · exact g
    · rcases List.mem_cons.mp hm with e | hm
      · exact absurd e hne
      · rcases hc with rfl | ⟨m, cpath, h1, h2, rfl⟩
        · cases hm
        · rw [List.mem_singleton] at hm; exact absurd hm (hq m cpath h1 h2)

/-- **T3c. An error answer leaves the whole index area untouched** — every bucket file, the key's own
included, and every directory of `index-v5`: at most the content file of the key's entry is gone. -/
theorem removeFully_error_index_untouched (key : Bytes) (env : Env) (plan : Nat → Option Fault)
    (fs : FS) (i : Nat) (e : Err)
    (h : (runFault env plan (removeFully cfg cache key) fs i).1 = .error e) :
    ∀ q, ¬ InArea cache dContent q →
      (runFault env plan (removeFully cfg cache key) fs i).2.1.get q = fs.get q := by
  obtain ⟨cps, hc, hx⟩ := removeFully_fault_shape cfg cache key env plan fs i
  rcases hx with ⟨ho, _, _⟩ | ⟨e', _, hr⟩
  · rw [h] at ho; cases ho
  · intro q hq
    rcases hr q with g | ⟨hm, _⟩
    · exact g
    · exact absurd (entryContent_not_index cfg cache hc q hm) hq

/-- **T3d. On a healthy cache** (`Healthy`: every bucket file is a whole-record file, every content
file holds the data of its address), under EVERY fault plan and whatever the answer:
the cache is healthy again (bucket files whole, content files valid — nothing altered, only removed);
every key in another bucket looks up as before; on an error answer EVERY key looks up as before; on
an ok answer the key (and every key sharing its bucket file) has no entry. -/
theorem removeFully_fault_healthy (key : Bytes) (env : Env) (plan : Nat → Option Fault) (fs : FS)
    (i : Nat) (hH : Healthy cfg cache fs) :
    Healthy cfg cache (runFault env plan (removeFully cfg cache key) fs i).2.1 ∧
    (∀ k, ¬ SameBucket cfg k key → ∀ env',
      (run env' (find cfg cache k) (runFault env plan (removeFully cfg cache key) fs i).2.1).1 =
        (run env' (find cfg cache k) fs).1) ∧
    (∀ e, (runFault env plan (removeFully cfg cache key) fs i).1 = .error e → ∀ k env',
      (run env' (find cfg cache k) (runFault env plan (removeFully cfg cache key) fs i).2.1).1 =
        (run env' (find cfg cache k) fs).1) ∧
    ((runFault env plan (removeFully cfg cache key) fs i).1 = .ok () → ∀ k, SameBucket cfg k key →
      ∀ env', (run env' (find cfg cache k) (runFault env plan (removeFully cfg cache key) fs i).2.1).1 =
        .ok none) := by
  obtain ⟨hsub, _, hother, _⟩ := removeFully_fault_removes cfg cache key env plan fs i
  have hH' := healthy_sub hH hsub
  have look : ∀ k, (runFault env plan (removeFully cfg cache key) fs i).2.1.get (bucketPath cfg cache k) =
      fs.get (bucketPath cfg cache k) → ∀ env',
      (run env' (find cfg cache k) (runFault env plan (removeFully cfg cache key) fs i).2.1).1 =
        (run env' (find cfg cache k) fs).1 := by
    intro k hk env'
    rw [(run_find cfg cache env' k _ hH'.index).1, (run_find cfg cache env' k fs hH.index).1,
      absIndex_sub_same k hk]
  refine ⟨hH', ?_, ?_, ?_⟩
  · intro k hk
    exact look k (hother k (fun e => hk ((bucketPath_eq_iff cfg cache k key).mp e)))
  · intro e he k
    apply look k
    apply removeFully_error_index_untouched cfg cache key env plan fs i e he
    intro hin
    exact dIndex_ne_dContent (inArea_disjoint (bucket_inIndex cfg cache k) hin)
  · intro ho k hk env'
    have hn := (removeFully_ok_absent cfg cache key env plan fs i ho).1
    rw [← (bucketPath_eq_iff cfg cache k key).mpr hk] at hn
    exact (find_absent cfg cache k _ hn).1 env'

end RemoveFully

/-! ### T4 — `clear` for every order of the children -/

section Clear
open ListRefine CacheRefine Refine
variable (cfg : Cfg) (cache : Path)

/-- `clear`, with the children reordered by `σ` before they are removed: `read_dir` hands the children
out in an arbitrary order, the model's `readDir` in the order of `FS.children`.  `clearIn id = clear`. -/
def clearIn (σ : List (Path × Bool) → List (Path × Bool)) (cache : Path) : Prog (Res Unit) :=
  .sys (.readDir cache) (fun r => match r with
    | .entries es => removeEach (σ es)
    | .err e => .done (.error (.io e))
    | _ => .done (.error (.io .other)))

theorem clearIn_id : clearIn id cache = clear cache := rfl

theorem clearIn_strict (σ : List (Path × Bool) → List (Path × Bool)) :
    Strict (fun r => r = .ok ()) (clearIn σ cache) := by
  unfold clearIn
  refine ⟨fun _ e => nofun, fun r => ?_⟩
  cases r <;> first | exact removeEach_strict _ | trivial

/-- One `remove_dir_all`, succeeding or failing half-way (any subset of the files below gone): what is
left is a sub-filesystem, and nothing outside the tree changed. -/
theorem step_removeTree (env : Env) (fs fs' : FS) (p : Path) (r : Ret)
    (h : Step env fs (.removeTree p) fs' r) :
    SubFS fs fs' ∧ ∀ q, ¬ p <+: q → fs'.get q = fs.get q := by
  refine ⟨?_, fun q hq => step_frame env fs fs' _ r h q hq⟩
  cases h with
  | fail e short =>
    simp only [execFail]
    split
    · exact SubFS.delAll _ _
    · exact SubFS.refl _
  | ok =>
    simp only [exec]
    split
    · exact SubFS.delAll _ _
    · exact SubFS.del _ _
    · exact SubFS.refl _
    · exact SubFS.refl _

/-- **T4a. Whatever the order, whatever the plan, whatever the answer**: removing a list of trees
leaves a sub-filesystem (every surviving path keeps its node, nothing is created), and nothing outside
those trees changes. -/
theorem removeEach_fault_sub (es : List (Path × Bool)) (env : Env) (plan : Nat → Option Fault)
    (fs : FS) (i : Nat) :
    SubFS fs (runFault env plan (removeEach es) fs i).2.1 ∧
    ∀ q, (∀ e ∈ es, ¬ e.1 <+: q) → (runFault env plan (removeEach es) fs i).2.1.get q = fs.get q := by
  induction es generalizing fs i with
  | nil => exact ⟨SubFS.refl _, fun _ _ => rfl⟩
  | cons e es ih =>
    obtain ⟨p, d⟩ := e
    unfold removeEach
    simp only [bind_eq, pure_eq, call, bind_sys, bind_done, runFault]
    cases plan i with
    | some f =>
      obtain ⟨s1, s2⟩ := step_removeTree env fs _ p _ (.fail f.e f.short)
      exact ⟨s1, fun q hq => s2 q (hq (p, d) List.mem_cons_self)⟩
    | none =>
      obtain ⟨s1, s2⟩ := step_removeTree env fs _ p _ .ok
      simp only
      generalize exec env fs (.removeTree p) = x at s1 s2
      obtain ⟨fs1, r⟩ := x
      have hrest : SubFS fs (runFault env plan (removeEach es) fs1 (i + 1)).2.1 ∧
          ∀ q, (∀ e ∈ (p, d) :: es, ¬ e.1 <+: q) →
            (runFault env plan (removeEach es) fs1 (i + 1)).2.1.get q = fs.get q := by
        obtain ⟨i1, i2⟩ := ih fs1 (i + 1)
        refine ⟨s1.trans i1, fun q hq => ?_⟩
        rw [i2 q (fun e he => hq e (List.mem_cons_of_mem _ he))]
        exact s2 q (hq (p, d) List.mem_cons_self)
      cases r <;> first
        | exact hrest
        | exact ⟨s1, fun q hq => s2 q (hq (p, d) List.mem_cons_self)⟩

/-- The entries the model's `readDir cache` answers. -/
def dirEntries (fs : FS) (cache : Path) : List (Path × Bool) :=
  (fs.children cache).map (fun q => (q, fs.get q == some .dir))

theorem dirEntries_child {fs : FS} {e : Path × Bool} (h : e ∈ dirEntries fs cache) :
    cache <+: e.1 ∧ e.1.length = cache.length + 1 := by
  obtain ⟨q, hq, rfl⟩ := List.mem_map.mp h
  exact ⟨(mem_children hq).1, (mem_children hq).2.1⟩

theorem child_not_prefix {e : Path} (h1 : cache <+: e) (h2 : e.length = cache.length + 1) (q : Path)
    (hq : ¬ cache <+: q ∨ q = cache) : ¬ e <+: q := by
  intro hp
  rcases hq with hq | hq
  · exact hq (h1.trans hp)
  · subst hq; have := hp.length_le; omega

/-- **T4b. The healthy run, for every order**: on a tidy cache, removing the children of the cache
directory in ANY order `es'` (a permutation of what `readDir` answers) answers ok, leaves nothing below
the cache directory and touches nothing else. -/
theorem run_removeEach_perm (env : Env) (fs : FS) (hT : Tidy cfg cache fs) (es' : List (Path × Bool))
    (hperm : es'.Perm (dirEntries fs cache)) :
    (run env (removeEach es') fs).1 = .ok () ∧
    (∀ q, cache <+: q → q ≠ cache → (run env (removeEach es') fs).2.1.get q = none) ∧
    (∀ q, (¬ cache <+: q ∨ q = cache) → (run env (removeEach es') fs).2.1.get q = fs.get q) := by
  have hmem : ∀ e, e ∈ es' ↔ e ∈ dirEntries fs cache := fun e => hperm.mem_iff
  have hdirs : ∀ e ∈ es', fs.get e.1 = some .dir := by
    intro e he
    obtain ⟨q, hq, rfl⟩ := List.mem_map.mp ((hmem e).mp he)
    obtain ⟨h1, h2, h3⟩ := mem_children hq
    have hne : q ≠ cache := by intro e; rw [e] at h2; omega
    have hs : fs.get q ≠ none := by intro e; rw [e] at h3; cases h3
    exact (hT.shape q h1 hne hs).2.1 h2
  have hnd : (es'.map Prod.fst).Nodup := by
    have h0 : ((dirEntries fs cache).map Prod.fst).Nodup := by
      unfold dirEntries
      rw [List.map_map]
      have : (Prod.fst ∘ fun q => (q, fs.get q == some Node.dir)) = id := rfl
      rw [this, List.map_id]
      exact children_nodup fs cache
    exact (hperm.map Prod.fst).nodup_iff.mpr h0
  have hpw : es'.Pairwise (fun a b => ¬ a.1 <+: b.1) := by
    have h1 : es'.Pairwise (fun a b => a.1 ≠ b.1) := List.pairwise_map.mp hnd
    refine List.Pairwise.imp_of_mem ?_ h1
    intro a b ha hb hab hpre
    have la := (dirEntries_child cache ((hmem a).mp ha)).2
    have lb := (dirEntries_child cache ((hmem b).mp hb)).2
    exact hab (hpre.eq_of_length (by omega))
  obtain ⟨r, fr, un⟩ := run_removeEach env es' fs hdirs hpw
  refine ⟨r, ?_, ?_⟩
  · intro q hc hne
    cases hg : fs.get q with
    | none => exact removeEach_none env _ hg
    | some n =>
      have hs : fs.get q ≠ none := by rw [hg]; intro e; cases e
      obtain ⟨c, hcm, hcq, _⟩ := top_of_below cfg cache hT hc hne hs
      have hce : (c, fs.get c == some .dir) ∈ es' :=
        (hmem _).mpr (List.mem_map.mpr ⟨c, hcm, rfl⟩)
      exact un q ⟨_, hce, hcq⟩ (hT.supp q hc hne)
  · intro q hq
    apply fr
    intro e he
    obtain ⟨h1, h2⟩ := dirEntries_child cache ((hmem e).mp he)
    exact child_not_prefix cache h1 h2 q hq

/-- What follows once everything below the cache directory is gone and nothing else changed (the
second half of `ListRefine.clear_empties`). -/
theorem emptied {fs fs' : FS} (hH : Healthy cfg cache fs) (hd : fs.isDir cache = true)
    (gone : ∀ q, cache <+: q → q ≠ cache → fs'.get q = none)
    (keep : ∀ q, (¬ cache <+: q ∨ q = cache) → fs'.get q = fs.get q) :
    (∀ q, q ≠ [] → q <+: cache → NoneOrDir fs' q) ∧ fs'.isDir cache = true ∧
    Healthy cfg cache fs' ∧ Tidy cfg cache fs' ∧ absCache cfg cache fs' = AbsCache.empty := by
  have hanc : ∀ q, q ≠ [] → q <+: cache → NoneOrDir fs' q := by
    intro q hq hp
    have : ¬ cache <+: q ∨ q = cache := by
      by_cases e : q = cache
      · exact Or.inr e
      · left; intro hc; exact e (hp.eq_of_length (Nat.le_antisymm hp.length_le hc.length_le))
    unfold NoneOrDir
    rw [keep q this]
    exact hH.store.tmpDirs q hq (hp.trans (List.prefix_append _ _))
  have hdir : fs'.isDir cache = true := by
    by_cases e : cache = []
    · rw [e]; rfl
    · rw [isDir_iff e] at hd ⊢
      rw [keep cache (Or.inr rfl)]; exact hd
  exact ⟨hanc, hdir, healthy_of_empty_cache cfg cache _ hanc gone,
    tidy_of_empty_cache cfg cache _ hanc gone, absCache_of_empty_cache cfg cache _ gone⟩

/-- **T4c. `removeEach es'` for every permutation `es'` of the children, under every fault plan**:
an `.ok ()` answer implies no child of the cache directory is left, nothing else changed, the cache is
healthy, tidy and EMPTY — what `FaultStrict.clear_ok_truthful` states for the model's order. -/
theorem removeEach_perm_ok_truthful (env : Env) (plan : Nat → Option Fault) (fs : FS) (i : Nat)
    (hH : Healthy cfg cache fs) (hT : Tidy cfg cache fs) (hd : fs.isDir cache = true)
    (es' : List (Path × Bool)) (hperm : es'.Perm (dirEntries fs cache))
    (h : (runFault env plan (removeEach es') fs i).1 = .ok ()) :
    runFault env plan (removeEach es') fs i = run env (removeEach es') fs ∧
    (∀ q, cache <+: q → q ≠ cache → (runFault env plan (removeEach es') fs i).2.1.get q = none) ∧
    (∀ q, (¬ cache <+: q ∨ q = cache) → (runFault env plan (removeEach es') fs i).2.1.get q = fs.get q) ∧
    (∀ q, (runFault env plan (removeEach es') fs i).2.1.get q = (run env (clear cache) fs).2.1.get q) ∧
    (runFault env plan (removeEach es') fs i).2.1.isDir cache = true ∧
    Healthy cfg cache (runFault env plan (removeEach es') fs i).2.1 ∧
    Tidy cfg cache (runFault env plan (removeEach es') fs i).2.1 ∧
    absCache cfg cache (runFault env plan (removeEach es') fs i).2.1 = AbsCache.empty := by
  have e := fault_ok_is_healthy (removeEach_strict es') env plan fs i h
  obtain ⟨_, gone, keep⟩ := run_removeEach_perm cfg cache env fs hT es' hperm
  obtain ⟨_, gone0, keep0⟩ := run_clear cfg cache env fs hT hd
  rw [e]
  obtain ⟨_, x2, x3, x4, x5⟩ := emptied cfg cache hH hd gone keep
  refine ⟨rfl, gone, keep, ?_, x2, x3, x4, x5⟩
  intro q
  by_cases hq : cache <+: q ∧ q ≠ cache
  · rw [gone q hq.1 hq.2, gone0 q hq.1 hq.2]
  · have : ¬ cache <+: q ∨ q = cache := by
      by_cases hc : cache <+: q
      · right; exact Classical.byContradiction (fun hne => hq ⟨hc, hne⟩)
      · left; exact hc
    rw [keep q this, keep0 q this]

/-- **T4d. … and whatever the answer**: what remains is a sub-filesystem in which nothing outside the
children's trees changed (in particular the cache directory itself and everything outside it), so the
cache is still healthy: the content and index areas contain only complete valid files. -/
theorem removeEach_perm_fault_healthy (env : Env) (plan : Nat → Option Fault) (fs : FS) (i : Nat)
    (hH : Healthy cfg cache fs) (es' : List (Path × Bool)) (hperm : es'.Perm (dirEntries fs cache)) :
    SubFS fs (runFault env plan (removeEach es') fs i).2.1 ∧
    (∀ q, (¬ cache <+: q ∨ q = cache) → (runFault env plan (removeEach es') fs i).2.1.get q = fs.get q) ∧
    Healthy cfg cache (runFault env plan (removeEach es') fs i).2.1 := by
  obtain ⟨s1, s2⟩ := removeEach_fault_sub es' env plan fs i
  refine ⟨s1, fun q hq => s2 q (fun e he => ?_), healthy_sub hH s1⟩
  obtain ⟨h1, h2⟩ := dirEntries_child cache (hperm.mem_iff.mp he)
  exact child_not_prefix cache h1 h2 q hq

/-- **T4, as one program**: `clear` with the children reordered by ANY `σ` that permutes them, under
EVERY fault plan (the plan also covers the `read_dir` call).  Whatever the answer the result is a
sub-filesystem, untouched outside the cache directory, and healthy; an `.ok ()` answer means the cache
directory existed and is now empty — the same filesystem (path by path) as the model's `clear`. -/
theorem clearIn_fault (σ : List (Path × Bool) → List (Path × Bool)) (hσ : ∀ es, (σ es).Perm es)
    (env : Env) (plan : Nat → Option Fault) (fs : FS) (i : Nat) (hH : Healthy cfg cache fs) :
    SubFS fs (runFault env plan (clearIn σ cache) fs i).2.1 ∧
    (∀ q, (¬ cache <+: q ∨ q = cache) → (runFault env plan (clearIn σ cache) fs i).2.1.get q = fs.get q) ∧
    Healthy cfg cache (runFault env plan (clearIn σ cache) fs i).2.1 ∧
    (Tidy cfg cache fs → (runFault env plan (clearIn σ cache) fs i).1 = .ok () →
      fs.isDir cache = true ∧
      (∀ q, cache <+: q → q ≠ cache → (runFault env plan (clearIn σ cache) fs i).2.1.get q = none) ∧
      (∀ q, (runFault env plan (clearIn σ cache) fs i).2.1.get q = (run env (clear cache) fs).2.1.get q) ∧
      (runFault env plan (clearIn σ cache) fs i).2.1.isDir cache = true ∧
      Tidy cfg cache (runFault env plan (clearIn σ cache) fs i).2.1 ∧
      absCache cfg cache (runFault env plan (clearIn σ cache) fs i).2.1 = AbsCache.empty) := by
  unfold clearIn
  simp only [runFault]
  cases plan i with
  | some f =>
    exact ⟨SubFS.refl _, fun _ _ => rfl, hH, fun _ h => by cases h⟩
  | none =>
    simp only [exec]
    cases hd : fs.isDir cache with
    | false => exact ⟨SubFS.refl _, fun _ _ => rfl, hH, fun _ h => by cases h⟩
    | true =>
      simp only [if_true]
      have hperm : (σ (dirEntries fs cache)).Perm (dirEntries fs cache) := hσ _
      obtain ⟨a1, a2, a3⟩ := removeEach_perm_fault_healthy cfg cache env plan fs (i + 1) hH _ hperm
      refine ⟨a1, a2, a3, fun hT h => ?_⟩
      obtain ⟨_, b2, _, b4, b5, _, b7, b8⟩ :=
        removeEach_perm_ok_truthful cfg cache env plan fs (i + 1) hH hT hd _ hperm h
      exact ⟨trivial, b2, b4, b5, b7, b8⟩

end Clear

/-! ### T5 — "in pairs", literally -/

section Pairs
open ListRefine CacheRefine Refine
variable (cfg : Cfg) (cache : Path)

/-- The plan with exactly two faults: `f` at call index `a`, `g` at call index `b`. -/
def pairPlan (a b : Nat) (f g : Fault) : Nat → Option Fault :=
  fun j => if j = a then some f else if j = b then some g else none

theorem pairPlan_two (a b : Nat) (f g : Fault) (hab : a ≠ b) :
    pairPlan a b f g a = some f ∧ pairPlan a b f g b = some g ∧
    ∀ j, j ≠ a → j ≠ b → pairPlan a b f g j = none := by
  refine ⟨by simp [pairPlan], by simp [pairPlan, hab.symm], fun j h1 h2 => by simp [pairPlan, h1, h2]⟩

/-- **T5, write side (full removal), every pair of faults**: any two calls failing with any errors. -/
theorem removeFully_pairs (key : Bytes) (env : Env) (fs : FS) (hH : Healthy cfg cache fs)
    (a b : Nat) (f g : Fault) :
    Healthy cfg cache (runFault env (pairPlan a b f g) (removeFully cfg cache key) fs 0).2.1 ∧
    ((runFault env (pairPlan a b f g) (removeFully cfg cache key) fs 0).1 = .ok () → ∀ env',
      (run env' (find cfg cache key) (runFault env (pairPlan a b f g) (removeFully cfg cache key) fs 0).2.1).1 =
        .ok none) ∧
    (∀ e, (runFault env (pairPlan a b f g) (removeFully cfg cache key) fs 0).1 = .error e → ∀ k env',
      (run env' (find cfg cache k) (runFault env (pairPlan a b f g) (removeFully cfg cache key) fs 0).2.1).1 =
        (run env' (find cfg cache k) fs).1) :=
  ⟨(removeFully_fault_healthy cfg cache key env _ fs 0 hH).1,
   fun h => (removeFully_ok_absent cfg cache key env _ fs 0 h).2.1,
   (removeFully_fault_healthy cfg cache key env _ fs 0 hH).2.2.1⟩

/-- **T5, write side (extraction writes the destination), every pair of faults.** -/
theorem extractHash_pairs (how : Extract) (sri : Integrity) (dest : Path) (env : Env) (fs : FS)
    (a b : Nat) (f g : Fault) :
    ExtractPost cfg how cache sri dest fs
      (runFault env (pairPlan a b f g) (extractHash cfg how cache sri dest) fs 0).1
      (runFault env (pairPlan a b f g) (extractHash cfg how cache sri dest) fs 0).2.1 :=
  extractHash_fault cfg how cache sri dest env _ fs 0

/-- **T5, read side (listing), every pair of faults.** -/
theorem ls_pairs (env : Env) (fs : FS) (a b : Nat) (f g : Fault) :
    (runFault env (pairPlan a b f g) (ls cfg cache) fs 0).2.1 = fs ∧
    (entriesOf (runFault env (pairPlan a b f g) (ls cfg cache) fs 0).1).Sublist
      (entriesOf (run env (ls cfg cache) fs).1) :=
  ⟨ls_fault_readonly cfg cache env _ fs 0, ls_fault_sublist cfg cache env _ fs 0⟩

/-- **T5, `clear` in any order, every pair of faults.** -/
theorem clearIn_pairs (σ : List (Path × Bool) → List (Path × Bool)) (hσ : ∀ es, (σ es).Perm es)
    (env : Env) (fs : FS) (hH : Healthy cfg cache fs) (a b : Nat) (f g : Fault) :
    SubFS fs (runFault env (pairPlan a b f g) (clearIn σ cache) fs 0).2.1 ∧
    Healthy cfg cache (runFault env (pairPlan a b f g) (clearIn σ cache) fs 0).2.1 :=
  ⟨(clearIn_fault cfg cache σ hσ env _ fs 0 hH).1, (clearIn_fault cfg cache σ hσ env _ fs 0 hH).2.2.1⟩

end Pairs

/-! ### non-vacuity -/

section NonVacuity
open ListRefine CacheRefine Refine

/-- A digest function that tells lengths apart (hex form: four digits). -/
def cfg1 : Cfg := { H := fun _ d => [0, UInt8.ofNat d.length] }

theorem hexLen1 : HexLen cfg1 := by
  intro a d; simp [cfg1, Bytes.hex]

/-- The cache `/c` after `write("k", [1,2,3])`, and after a second write under another key — computed
by the model's own programs from the empty filesystem, hence healthy and tidy. -/
def env0 : Env := {}
def opsW : List (Env × XOp) := [(env0, .cop (COp.write .sync [107] .sha256 [1, 2, 3]))]
def opsW2 : List (Env × XOp) := opsW ++ [(env0, .cop (COp.write .sync [108, 108] .sha256 [1, 2, 3, 4]))]
def fsW : FS := (xRunOps cfg1 [[99]] opsW FS.empty).2
def fsW2 : FS := (xRunOps cfg1 [[99]] opsW2 FS.empty).2

theorem reachable_xhealthy (cfg : Cfg) (cache : Path) (hl : HexLen cfg) (ops : List (Env × XOp))
    (hops : ∀ x ∈ ops, x.2.WF cfg) : XHealthy cfg cache (xRunOps cfg cache ops FS.empty).2 :=
  (cache_refines_map_ext cfg cache ops FS.empty
    (xhealthy_of_empty_cache cfg cache FS.empty (fun _ _ _ => Or.inl rfl) (fun _ _ _ => rfl)) hl hops).2.2

theorem fsW_xhealthy : XHealthy cfg1 [[99]] fsW := by
  apply reachable_xhealthy cfg1 [[99]] hexLen1
  intro x hx
  simp only [opsW, List.mem_singleton] at hx
  subst hx
  exact write_wf cfg1 .sync [107] .sha256 [1, 2, 3] (by decide) (by simp [Rec.u64Max])

theorem fsW2_xhealthy : XHealthy cfg1 [[99]] fsW2 := by
  apply reachable_xhealthy cfg1 [[99]] hexLen1
  intro x hx
  simp only [opsW2, opsW, List.cons_append, List.nil_append, List.mem_cons, List.not_mem_nil, or_false] at hx
  rcases hx with rfl | rfl
  · exact write_wf cfg1 .sync [107] .sha256 [1, 2, 3] (by decide) (by simp [Rec.u64Max])
  · exact write_wf cfg1 .sync [108, 108] .sha256 [1, 2, 3, 4] (by decide) (by simp [Rec.u64Max])

def sri3 : Integrity := Sri.compute cfg1.H .sha256 [1, 2, 3]
def cp3 : Path := addrPath [[99]] .sha256 (Bytes.hex (cfg1.H .sha256 [1, 2, 3]))
def m107 : Meta := { key := [107], sri := sri3, time := 0, size := 3, metadata := .null, raw := none }
def m108 : Meta :=
  { key := [108, 108], sri := Sri.compute cfg1.H .sha256 [1, 2, 3, 4], time := 0, size := 4,
    metadata := .null, raw := none }
/-- A fault with the error kind `NotFound`. -/
def nfAt (n : Nat) : Nat → Option Fault := fun i => if i = n then some { e := .notFound } else none

/-! T1: `/c` holds `[1,2,3]` under key `k`; the destination `/d` does not exist. -/

example : contentPath [[99]] sri3 = some cp3 := by decide
example : fsW.get cp3 = some (.file [1, 2, 3]) := by rfl
-- every hypothesis of `extractHash_ok_delivers` is met, with a plan that has faults (never reached)
example : ∃ b, b.length = 3 ∧ C01.Passes cfg1 sri3 b ∧
    (runFault {} (pairPlan 5 6 { e := .other } { e := .other }) (extractHash cfg1 .copy [[99]] sri3 [[100]]) fsW 0).2.1.get
      [[100]] = some (.file b) := by
  obtain ⟨b, h1, h2, h3, _⟩ := extractHash_ok_delivers cfg1 .copy [[99]] sri3 [[100]] {}
    (pairPlan 5 6 { e := .other } { e := .other }) fsW 0 3
    (by intro t h; have h0 : fsW.get [[100]] = none := by rfl
        rw [h0] at h; cases h) (by rfl)
  exact ⟨b, h1, h2, h3⟩
example : (runFault {} (failAt 5) (extractHash cfg1 .copy [[99]] sri3 [[100]]) fsW 0).2.1.get [[100]] =
    some (.file [1, 2, 3]) := by rfl
example : (runFault {} (failAt 5) (extract cfg1 true .hardLink [[99]] [107] [[100]]) fsW 0).1 = .ok 3 := by rfl
example : (runFault {} (failAt 5) (extract cfg1 true .hardLink [[99]] [107] [[100]]) fsW 0).2.1.get [[100]] =
    some (.file [1, 2, 3]) := by rfl
-- a fault that fires: the copy itself fails (call 1), the answer is an error, `/d` is not created
example : (runFault {} (failAt 1) (extractHash cfg1 .copy [[99]] sri3 [[100]]) fsW 0).1 = .error (.io .other) := by rfl
example : (runFault {} (failAt 1) (extractHash cfg1 .copy [[99]] sri3 [[100]]) fsW 0).2.1.get [[100]] = none := by rfl
-- the verification read fails (call 0), then the plan's second fault is never reached
example : (runFault {} (pairPlan 0 1 { e := .other } { e := .notFound })
    (extractHash cfg1 .copy [[99]] sri3 [[100]]) fsW 0).1 = .error (.io .other) := by rfl
-- by key: lookup (call 0), verification (1), `metadata` (2), `hard_link` (3) — each failing in turn
example : (runFault {} (nfAt 0) (extract cfg1 true .hardLink [[99]] [107] [[100]]) fsW 0).1 = .error .notFound := by rfl
example : (runFault {} (failAt 2) (extract cfg1 true .hardLink [[99]] [107] [[100]]) fsW 0).1 = .error (.io .other) := by rfl
example : (runFault {} (failAt 3) (extract cfg1 true .hardLink [[99]] [107] [[100]]) fsW 0).2.1.get [[100]] = none := by rfl
-- damaged content is refused with or without faults, and nothing is left at the destination
example : (runFault {} (failAt 5) (extractHash cfg1 .copy [[99]] sri3 [[100]])
    (fsW.put cp3 (.file [1, 2, 3, 4])) 0).1 = .error .integrity := by rfl
-- a destination that is a symbolic link INTO the cache: `destTargets` is the link's target, and the
-- frame hypothesis `hout` of `extractHash_cache_untouched` fails — rightly: the copy overwrites it
example : destTargets .copy (fsW.put [[100]] (.link (.abs cp3))) [[100]] = [cp3] := by rfl

/-! T2: two keys in two buckets; the walk is call 0, the bucket reads are calls 1 and 2. -/

set_option maxRecDepth 100000 in
example : (run {} (ls cfg1 [[99]]) fsW2).1 = [.entry m108, .entry m107] := by rfl
set_option maxRecDepth 100000 in
example : (runFault {} (failAt 1) (ls cfg1 [[99]]) fsW2 0).1 = [.err (.io .other), .entry m107] := by rfl
set_option maxRecDepth 100000 in
example : (runFault {} (nfAt 2) (ls cfg1 [[99]]) fsW2 0).1 = [.entry m108] := by rfl
set_option maxRecDepth 100000 in
example : (runFault {} (pairPlan 1 2 { e := .other } { e := .notFound }) (ls cfg1 [[99]]) fsW2 0).1 =
    [.err (.io .other)] := by rfl
example : (runFault {} (failAt 0) (ls cfg1 [[99]]) fsW2 0).1 = [.err (.io .other)] := by rfl
-- the hypotheses of `ls_fault_genuine` are met (and its conclusion is not empty: see above)
example (plan : Nat → Option Fault) (i : Nat) :=
  ls_fault_genuine cfg1 [[99]] {} plan fsW2 i fsW2_xhealthy.healthy fsW2_xhealthy.tidy

/-! T3: lookup = call 0, content `unlink` = call 1, bucket `unlink` = call 2. -/

example : (run {} (removeFully cfg1 [[99]] [107]) fsW).1 = .ok () := by rfl
-- the content unlink fails: an error, nothing changed
example : (runFault {} (failAt 1) (removeFully cfg1 [[99]] [107]) fsW 0).1 = .error (.io .other) := by rfl
example : (runFault {} (failAt 1) (removeFully cfg1 [[99]] [107]) fsW 0).2.1.get cp3 = some (.file [1, 2, 3]) := by rfl
-- the bucket unlink fails: an error; the content is gone, the index is untouched (T3c)
example : (runFault {} (failAt 2) (removeFully cfg1 [[99]] [107]) fsW 0).1 = .error (.io .other) := by rfl
example : (runFault {} (failAt 2) (removeFully cfg1 [[99]] [107]) fsW 0).2.1.get cp3 = none := by rfl
example : (run {} (find cfg1 [[99]] [107])
    (runFault {} (failAt 2) (removeFully cfg1 [[99]] [107]) fsW 0).2.1).1 = .ok (some m107) := by rfl
-- OBSERVATION: an injected `NotFound` on the content unlink (call 1), or on the lookup's bucket read
-- (call 0), is taken for "already gone" / "no entry": the answer is ok, the key is gone (T3a holds), but
-- the content file is left behind — a leak, not a false success about the key
example : (runFault {} (nfAt 1) (removeFully cfg1 [[99]] [107]) fsW 0).1 = .ok () := by rfl
example : (runFault {} (nfAt 1) (removeFully cfg1 [[99]] [107]) fsW 0).2.1.get cp3 = some (.file [1, 2, 3]) := by rfl
example : (runFault {} (nfAt 0) (removeFully cfg1 [[99]] [107]) fsW 0).1 = .ok () := by rfl
example : (runFault {} (nfAt 0) (removeFully cfg1 [[99]] [107]) fsW 0).2.1.get cp3 = some (.file [1, 2, 3]) := by rfl
example : (run {} (find cfg1 [[99]] [107])
    (runFault {} (nfAt 1) (removeFully cfg1 [[99]] [107]) fsW 0).2.1).1 = .ok none := by rfl
-- the hypotheses of `removeFully_fault_healthy` are met on `fsW2`; the other key is untouched
example (plan : Nat → Option Fault) (i : Nat) :=
  removeFully_fault_healthy cfg1 [[99]] [107] {} plan fsW2 i fsW2_xhealthy.healthy
set_option maxRecDepth 100000 in
example : (run {} (find cfg1 [[99]] [108, 108])
    (runFault {} (pairPlan 1 2 { e := .notFound } { e := .other }) (removeFully cfg1 [[99]] [107]) fsW2 0).2.1).1 =
    .ok (some m108) := by rfl
-- … and on every state reachable from the empty filesystem, for every digest function
example (cfg : Cfg) (cache : Path) (hl : HexLen cfg) (ops : List (Env × XOp)) (hops : ∀ x ∈ ops, x.2.WF cfg)
    (key : Bytes) (env : Env) (plan : Nat → Option Fault) (i : Nat) :
    Healthy cfg cache (runFault env plan (removeFully cfg cache key) (xRunOps cfg cache ops FS.empty).2 i).2.1 :=
  (removeFully_fault_healthy cfg cache key env plan _ i (reachable_xhealthy cfg cache hl ops hops).healthy).1

/-! T4: the children of `/c` are `index-v5`, `content-v2`, `tmp`; `read_dir` = call 0. -/

example : (dirEntries fsW [[99]]).map Prod.fst = [[[99], dIndex], [[99], dContent], [[99], dTmp]] := by rfl
theorem reverse_perm' (es : List (Path × Bool)) : es.reverse.Perm es := List.reverse_perm es
-- reversed order, no fault reached: ok and empty
example : (runFault {} (failAt 9) (clearIn List.reverse [[99]]) fsW 0).1 = .ok () := by rfl
example : (runFault {} (failAt 9) (clearIn List.reverse [[99]]) fsW 0).2.1.get cp3 = none := by rfl
-- reversed order, the second `remove_dir_all` (of `content-v2`, call 2) fails half-way having removed a
-- subset of the files below it (mask 1): an error; `tmp` is gone, the index is intact
example : (runFault {} (fun i => if i = 2 then some { e := .other, short := 1 } else none)
    (clearIn List.reverse [[99]]) fsW 0).1 = .error (.io .other) := by rfl
example : (runFault {} (fun i => if i = 2 then some { e := .other, short := 1 } else none)
    (clearIn List.reverse [[99]]) fsW 0).2.1.get cp3 = none := by rfl
example : (run {} (find cfg1 [[99]] [107])
    (runFault {} (fun i => if i = 2 then some { e := .other, short := 1 } else none)
      (clearIn List.reverse [[99]]) fsW 0).2.1).1 = .ok (some m107) := by rfl
-- model order, same fault index: now it is `content-v2` … no: `index-v5` first, `content-v2` second
example : (runFault {} (failAt 1) (clearIn id [[99]]) fsW 0).2.1.get cp3 = some (.file [1, 2, 3]) := by rfl
-- the hypotheses of `clearIn_fault` (all of them) are met
example (plan : Nat → Option Fault) (i : Nat) :=
  clearIn_fault cfg1 [[99]] List.reverse reverse_perm' {} plan fsW i fsW_xhealthy.healthy
example : Tidy cfg1 [[99]] fsW := fsW_xhealthy.tidy

end NonVacuity

end FaultMore
end Cacache

namespace AxiomCheckFaultMore
open Cacache.FaultMore
#print axioms runFault_bind
#print axioms fault_readOnly
#print axioms extractHash_fault
#print axioms extract_fault
#print axioms extractHash_ok_delivers
#print axioms extractHash_ok_read_back
#print axioms extract_ok_read_back
#print axioms extractHash_cache_untouched
#print axioms extract_cache_untouched
#print axioms extractHash_error_unchanged
#print axioms ls_fault_readonly
#print axioms ls_fault_sublist
#print axioms ls_fault_sound
#print axioms ls_fault_genuine
#print axioms ls_silent
#print axioms removeFully_fault_shape
#print axioms removeFully_ok_absent
#print axioms removeFully_fault_removes
#print axioms removeFully_error_index_untouched
#print axioms removeFully_fault_healthy
#print axioms healthy_sub
#print axioms removeEach_fault_sub
#print axioms run_removeEach_perm
#print axioms removeEach_perm_ok_truthful
#print axioms removeEach_perm_fault_healthy
#print axioms clearIn_fault
#print axioms removeFully_pairs
#print axioms extractHash_pairs
#print axioms ls_pairs
#print axioms clearIn_pairs
end AxiomCheckFaultMore
