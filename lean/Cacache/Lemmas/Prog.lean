/-
Reasoning principles for programs over filesystem calls.

* `AllCalls P p` — every call `p` can ever issue, whatever the answers, satisfies `P`
  (syntactic: independent of the filesystem semantics).  Used for confinement, read-only purity,
  "no bucket call on a rejected commit".
* `wpD Q Post p fs` — a demonic weakest precondition with a crash condition: starting in `fs`,
  `Q` holds at every point where the process can be killed (between calls and in the middle of a
  torn call) and `Post` holds of the result, for *every* combination of calls succeeding or
  failing with any error after any partial effect.  One proof of `wpD` yields the healthy run,
  every crash cut and every fault plan (`wpD_run`, `wpD_crash`, `wpD_fault`).
-/
import Cacache.Prog

namespace Cacache
namespace Prog

variable {α β : Type}

@[simp] theorem bind_done (a : α) (f : α → Prog β) : Prog.bind (.done a) f = f a := rfl
@[simp] theorem bind_sys (c : Call) (k : Ret → Prog α) (f : α → Prog β) :
    Prog.bind (.sys c k) f = .sys c (fun r => Prog.bind (k r) f) := rfl
@[simp] theorem pure_eq (a : α) : (pure a : Prog α) = .done a := rfl
@[simp] theorem bind_eq (p : Prog α) (f : α → Prog β) : (p >>= f) = Prog.bind p f := rfl

/-! ### AllCalls -/

/-- What a call can answer, as far as the shape of later calls depends on it: a temp file is
created *inside* the directory asked for; the clock answers a `u128`.  Everything else is
unconstrained. -/
def Answer : Call → Ret → Prop
  | .mkTemp dir, .path p => ∃ n, p = dir ++ [n]
  | .mkTempLink dir _, .path p => ∃ n, p = dir ++ [n]
  | .readDir dir, .entries es => ∀ e ∈ es, dir <+: e.1
  | .now, .nat t => t ≤ timeMax
  | _, _ => True

theorem FS.below_prefix (fs : FS) (p q : Path) (h : q ∈ fs.below p) : p <+: q := by
  unfold FS.below at h
  have h1 := List.mem_eraseDups.mp h
  have h2 := (List.mem_filter.mp h1).2
  simp only [Bool.and_eq_true, beq_iff_eq] at h2
  rw [← h2.1.2]
  exact List.take_prefix _ _

theorem answer_exec (env : Env) (fs : FS) (c : Call) : Answer c (exec env fs c).2 := by
  cases c with
  | mkTemp dir =>
    simp only [exec]
    split
    · exact ⟨_, rfl⟩
    · trivial
  | mkTempLink dir t =>
    simp only [exec]
    split
    · exact ⟨_, rfl⟩
    · trivial
  | readDir dir =>
    simp only [exec]
    split
    · intro e he
      obtain ⟨q, hq, rfl⟩ := List.mem_map.mp he
      exact FS.below_prefix fs dir q (List.mem_filter.mp hq).1
    · trivial
  | now =>
    simp only [exec, Answer]
    exact Nat.le_of_lt_succ (Nat.mod_lt _ (Nat.succ_pos _))
  | _ => simp only [Answer]

theorem now_answer {t : Nat} (h : Answer Call.now (Ret.nat t)) : t ≤ timeMax := h

theorem answer_err (c : Call) (e : EK) : Answer c (.err e) := by
  cases c <;> trivial

/-- Every call the program can issue satisfies `P`, and every result it can return satisfies
`Ok` — whatever the (admissible) answers of the calls. -/
def AllCallsR (P : Call → Prop) (Ok : α → Prop) : Prog α → Prop
  | .done a => Ok a
  | .sys c k => P c ∧ ∀ r, Answer c r → AllCallsR P Ok (k r)

abbrev AllCalls (P : Call → Prop) (p : Prog α) : Prop := AllCallsR P (fun _ => True) p

@[simp] theorem allCallsR_done (P : Call → Prop) (Ok : α → Prop) (a : α) :
    AllCallsR P Ok (.done a : Prog α) = Ok a := rfl
@[simp] theorem allCallsR_sys (P : Call → Prop) (Ok : α → Prop) (c : Call) (k : Ret → Prog α) :
    AllCallsR P Ok (.sys c k) = (P c ∧ ∀ r, Answer c r → AllCallsR P Ok (k r)) := rfl

theorem AllCallsR.bind {P : Call → Prop} {Ok : α → Prop} {Ok' : β → Prop} {p : Prog α}
    {f : α → Prog β} (hp : AllCallsR P Ok p) (hf : ∀ a, Ok a → AllCallsR P Ok' (f a)) :
    AllCallsR P Ok' (Prog.bind p f) := by
  induction p with
  | done a => exact hf a hp
  | sys c k ih => exact ⟨hp.1, fun r hr => ih r (hp.2 r hr)⟩

theorem AllCalls.bind {P : Call → Prop} {Ok' : β → Prop} {p : Prog α} {f : α → Prog β}
    (hp : AllCalls P p) (hf : ∀ a, AllCallsR P Ok' (f a)) : AllCallsR P Ok' (Prog.bind p f) :=
  AllCallsR.bind hp (fun a _ => hf a)

theorem AllCallsR.mono {P P' : Call → Prop} {Ok Ok' : α → Prop} {p : Prog α}
    (h : ∀ c, P c → P' c) (ho : ∀ a, Ok a → Ok' a) (hp : AllCallsR P Ok p) :
    AllCallsR P' Ok' p := by
  induction p with
  | done a => exact ho a hp
  | sys c k ih => exact ⟨h c hp.1, fun r hr => ih r (hp.2 r hr)⟩

theorem AllCallsR.weaken {P : Call → Prop} {Ok : α → Prop} {p : Prog α}
    (hp : AllCallsR P Ok p) : AllCalls P p :=
  hp.mono (fun _ h => h) (fun _ _ => trivial)

theorem AllCalls.call {P : Call → Prop} {c : Call} (h : P c) : AllCalls P (Prog.call c) :=
  ⟨h, fun _ _ => trivial⟩

/-- What holds of all possible calls holds of the calls of every healthy run. -/
theorem AllCalls.trace {P : Call → Prop} {Ok : α → Prop} {p : Prog α} (hp : AllCallsR P Ok p) (env : Env) (fs : FS) :
    ∀ c ∈ (run env p fs).2.2, P c := by
  induction p generalizing fs with
  | done a => intro c hc; cases hc
  | sys c k ih =>
    intro c' hc'
    simp only [run] at hc'
    rcases List.mem_cons.mp hc' with rfl | h
    · exact hp.1
    · exact ih _ (hp.2 _ (answer_exec env fs _)) _ c' h

/-- … and of the calls of every run under a fault plan. -/
theorem AllCalls.traceFault {P : Call → Prop} {Ok : α → Prop} {p : Prog α} (hp : AllCallsR P Ok p) (env : Env)
    (plan : Nat → Option Fault) (fs : FS) (i : Nat) :
    ∀ c ∈ (runFault env plan p fs i).2.2, P c := by
  induction p generalizing fs i with
  | done a => intro c hc; cases hc
  | sys c k ih =>
    intro c' hc'
    simp only [runFault] at hc'
    split at hc'
    · rcases List.mem_cons.mp hc' with rfl | h
      · exact hp.1
      · exact ih _ (hp.2 _ (answer_err _ _)) _ _ c' h
    · rcases List.mem_cons.mp hc' with rfl | h
      · exact hp.1
      · exact ih _ (hp.2 _ (answer_exec env fs _)) _ _ c' h

/-- A program all of whose possible calls leave the filesystem alone leaves it alone. -/
theorem AllCalls.after_eq {Ok : α → Prop} {p : Prog α} (env : Env)
    (hp : AllCallsR (fun c => ∀ fs, (exec env fs c).1 = fs) Ok p) (fs : FS) :
    (run env p fs).2.1 = fs := by
  induction p generalizing fs with
  | done a => rfl
  | sys c k ih =>
    simp only [run]
    have h1 := hp.1 fs
    have := ih (exec env fs c).2 (hp.2 _ (answer_exec env fs c)) (exec env fs c).1
    rw [this, h1]

/-- Every result of every healthy run satisfies what `AllCallsR` promises of all results. -/
theorem AllCallsR.result {P : Call → Prop} {Ok : α → Prop} {p : Prog α} (hp : AllCallsR P Ok p)
    (env : Env) (fs : FS) : Ok (run env p fs).1 := by
  induction p generalizing fs with
  | done a => exact hp
  | sys c k ih =>
    simp only [run]
    exact ih _ (hp.2 _ (answer_exec env fs c)) _

/-- … and of every run under a fault plan. -/
theorem AllCallsR.resultFault {P : Call → Prop} {Ok : α → Prop} {p : Prog α}
    (hp : AllCallsR P Ok p) (env : Env) (plan : Nat → Option Fault) (fs : FS) (i : Nat) :
    Ok (runFault env plan p fs i).1 := by
  induction p generalizing fs i with
  | done a => exact hp
  | sys c k ih =>
    simp only [runFault]
    split
    · exact ih _ (hp.2 _ (answer_err _ _)) _ _
    · exact ih _ (hp.2 _ (answer_exec env fs c)) _ _

/-- Running a sequential composition. -/
theorem run_bind (env : Env) (p : Prog α) (f : α → Prog β) (fs : FS) :
    run env (Prog.bind p f) fs =
      ((run env (f (run env p fs).1) (run env p fs).2.1).1,
       (run env (f (run env p fs).1) (run env p fs).2.1).2.1,
       (run env p fs).2.2 ++ (run env (f (run env p fs).1) (run env p fs).2.1).2.2) := by
  induction p generalizing fs with
  | done a => simp [run]
  | sys c k ih =>
    simp only [bind_sys, run]
    rw [ih]
    simp

/-- The empty fault plan is the healthy run. -/
theorem runFault_none (env : Env) (p : Prog α) (fs : FS) (i : Nat) :
    runFault env (fun _ => none) p fs i = run env p fs := by
  induction p generalizing fs i with
  | done a => rfl
  | sys c k ih => simp only [runFault, run, ih]

/-! ### the demonic weakest precondition -/

/-- The outcomes one call can have: it succeeds (healthy semantics), or it fails with any error
kind after any partial effect. -/
inductive Step (env : Env) (fs : FS) (c : Call) : FS → Ret → Prop where
  | ok : Step env fs c (exec env fs c).1 (exec env fs c).2
  | fail (e : EK) (short : Nat) : Step env fs c (execFail env fs short c) (.err e)

def wpD (env : Env) (Q : FS → Prop) (Post : α → FS → Prop) : Prog α → FS → Prop
  | .done a, fs => Q fs ∧ Post a fs
  | .sys c k, fs =>
    Q fs ∧ (∀ t, Q (execTorn env fs t c)) ∧ ∀ fs' r, Step env fs c fs' r → wpD env Q Post (k r) fs'

theorem wpD_Q {env : Env} {Q : FS → Prop} {Post : α → FS → Prop} {p : Prog α} {fs : FS}
    (h : wpD env Q Post p fs) : Q fs := by
  cases p with
  | done a => exact h.1
  | sys c k => exact h.1

theorem wpD_mono {env : Env} {Q : FS → Prop} {P1 P2 : α → FS → Prop} {p : Prog α} {fs : FS}
    (hm : ∀ a fs, P1 a fs → P2 a fs) (h : wpD env Q P1 p fs) : wpD env Q P2 p fs := by
  induction p generalizing fs with
  | done a => exact ⟨h.1, hm _ _ h.2⟩
  | sys c k ih => exact ⟨h.1, h.2.1, fun fs' r hs => ih r (h.2.2 fs' r hs)⟩

/-- The crash condition holds in particular at the end, so it may be assumed in the postcondition. -/
theorem wpD_withQ {env : Env} {Q : FS → Prop} {Post : α → FS → Prop} {p : Prog α} {fs : FS}
    (h : wpD env Q Post p fs) : wpD env Q (fun a fs' => Q fs' ∧ Post a fs') p fs := by
  induction p generalizing fs with
  | done a => exact ⟨h.1, h.1, h.2⟩
  | sys c k ih => exact ⟨h.1, h.2.1, fun fs' r hs => ih r (h.2.2 fs' r hs)⟩

/-- Two weakest preconditions combine. -/
theorem wpD_and {env : Env} {Q1 Q2 : FS → Prop} {P1 P2 : α → FS → Prop} {p : Prog α} {fs : FS}
    (h1 : wpD env Q1 P1 p fs) (h2 : wpD env Q2 P2 p fs) :
    wpD env (fun s => Q1 s ∧ Q2 s) (fun a s => P1 a s ∧ P2 a s) p fs := by
  induction p generalizing fs with
  | done a => exact ⟨⟨h1.1, h2.1⟩, h1.2, h2.2⟩
  | sys c k ih =>
    exact ⟨⟨h1.1, h2.1⟩, fun t => ⟨h1.2.1 t, h2.2.1 t⟩,
      fun fs' r hs => ih r (h1.2.2 fs' r hs) (h2.2.2 fs' r hs)⟩

theorem wpD_weakenQ {env : Env} {Q Q' : FS → Prop} {Post : α → FS → Prop} {p : Prog α} {fs : FS}
    (hq : ∀ s, Q s → Q' s) (h : wpD env Q Post p fs) : wpD env Q' Post p fs := by
  induction p generalizing fs with
  | done a => exact ⟨hq _ h.1, h.2⟩
  | sys c k ih => exact ⟨hq _ h.1, fun t => hq _ (h.2.1 t), fun fs' r hs => ih r (h.2.2 fs' r hs)⟩

theorem wpD_bind {env : Env} {Q : FS → Prop} {Post : β → FS → Prop} {p : Prog α}
    {f : α → Prog β} {fs : FS}
    (h : wpD env Q (fun a fs' => wpD env Q Post (f a) fs') p fs) :
    wpD env Q Post (Prog.bind p f) fs := by
  induction p generalizing fs with
  | done a => exact h.2
  | sys c k ih => exact ⟨h.1, h.2.1, fun fs' r hs => ih r (h.2.2 fs' r hs)⟩

/-- The healthy run satisfies the postcondition and ends in a `Q` state. -/
theorem wpD_run {env : Env} {Q : FS → Prop} {Post : α → FS → Prop} {p : Prog α} {fs : FS}
    (h : wpD env Q Post p fs) : Q (run env p fs).2.1 ∧ Post (run env p fs).1 (run env p fs).2.1 := by
  induction p generalizing fs with
  | done a => exact h
  | sys c k ih =>
    simp only [run]
    exact ih _ (h.2.2 _ _ .ok)

/-- `Q` holds after a kill at any call, torn at any length. -/
theorem wpD_crash {env : Env} {Q : FS → Prop} {Post : α → FS → Prop} {p : Prog α} {fs : FS}
    (h : wpD env Q Post p fs) (n t : Nat) : Q (crash env p fs n t) := by
  induction p generalizing fs n with
  | done a => exact h.1
  | sys c k ih =>
    cases n with
    | zero => exact h.2.1 t
    | succ n =>
      simp only [crash]
      exact ih _ (h.2.2 _ _ .ok) n

/-- Under every fault plan the run satisfies the postcondition and ends in a `Q` state. -/
theorem wpD_fault {env : Env} {Q : FS → Prop} {Post : α → FS → Prop} {p : Prog α} {fs : FS}
    (h : wpD env Q Post p fs) (plan : Nat → Option Fault) (i : Nat) :
    Q (runFault env plan p fs i).2.1 ∧
      Post (runFault env plan p fs i).1 (runFault env plan p fs i).2.1 := by
  induction p generalizing fs i with
  | done a => exact h
  | sys c k ih =>
    simp only [runFault]
    split
    · rename_i f _
      exact ih _ (h.2.2 _ _ (.fail f.e f.short)) _
    · exact ih _ (h.2.2 _ _ .ok) _

/-- Introduction rule for one call followed by a continuation. -/
theorem wpD_call {env : Env} {Q : FS → Prop} {Post : α → FS → Prop} {c : Call}
    {k : Ret → Prog α} {fs : FS}
    (hq : Q fs) (ht : ∀ t, Q (execTorn env fs t c))
    (hk : ∀ fs' r, Step env fs c fs' r → wpD env Q Post (k r) fs') :
    wpD env Q Post (.sys c k) fs := ⟨hq, ht, hk⟩

end Prog
end Cacache
