/-
Which parts of the cache directory each phase of an operation can change: the writer phases
(open / write / close / drop) never touch the index area, index insertion never touches the
content or temp areas.
-/
import Cacache.Lemmas.Bucket

namespace Cacache
open Prog

/-- `q` lies in the area `<cache>/<top>/…`. -/
def InArea (cache : Path) (top : Bytes) (q : Path) : Prop := (cache ++ [top]) <+: q

theorem not_inArea_of_head {cache : Path} {top x : Bytes} {rest : Path} (hx : x ≠ top) :
    ¬ InArea cache top (cache ++ x :: rest) := by
  intro h
  unfold InArea at h
  have := List.prefix_append_right_inj cache |>.mp h
  simp [List.cons_prefix_cons] at this
  exact hx this.symm

theorem not_inArea_prefix {cache : Path} {top : Bytes} {p q : Path} (hq : InArea cache top q)
    (hp : ¬ InArea cache top p) : ¬ q <+: p :=
  fun h => hp (List.IsPrefix.trans hq h)

theorem dTmp_ne_dIndex : dTmp ≠ dIndex := by decide
theorem dContent_ne_dIndex : dContent ≠ dIndex := by decide
theorem dIndex_ne_dContent : dIndex ≠ dContent := by decide
theorem dIndex_ne_dTmp : dIndex ≠ dTmp := by decide
theorem dTmp_ne_dContent : dTmp ≠ dContent := by decide

theorem tmpDir_not_index (cache : Path) : ¬ InArea cache dIndex (cache ++ [dTmp]) :=
  not_inArea_of_head dTmp_ne_dIndex

theorem tmp_not_index (cache : Path) (n : Bytes) : ¬ InArea cache dIndex ((cache ++ [dTmp]) ++ [n]) := by
  rw [List.append_assoc]; exact not_inArea_of_head dTmp_ne_dIndex

theorem addr_not_index (cache : Path) (a : Algo) (h : Bytes) : ¬ InArea cache dIndex (addrPath cache a h) :=
  not_inArea_of_head dContent_ne_dIndex

theorem parent_addr_not_index (cache : Path) (a : Algo) (h : Bytes) :
    ¬ InArea cache dIndex (FS.parent (addrPath cache a h)) := by
  unfold addrPath FS.parent
  rw [List.dropLast_append_of_ne_nil (by simp)]
  exact not_inArea_of_head dContent_ne_dIndex

theorem bucket_inIndex (cfg : Cfg) (cache : Path) (key : Bytes) :
    InArea cache dIndex (bucketPath cfg cache key) := by
  unfold InArea bucketPath
  exact (List.prefix_append_right_inj cache).mpr (by simp)

theorem inArea_ext {cache : Path} {top : Bytes} {p q : Path} (hp : InArea cache top p) (h : p <+: q) :
    InArea cache top q := List.IsPrefix.trans hp h

theorem inArea_disjoint {cache : Path} {top top' : Bytes} {q : Path} (h : InArea cache top q)
    (h' : InArea cache top' q) : top = top' := by
  unfold InArea at h h'
  obtain ⟨r, rfl⟩ := h
  rw [List.append_assoc] at h'
  have := (List.prefix_append_right_inj cache).mp h'
  simp only [List.cons_append, List.nil_append, List.cons_prefix_cons, List.nil_prefix, and_true] at this
  exact this.symm

/-- Whatever a call (other than a copy, which writes through a symlinked destination) touches is
comparable with one of its syntactic targets. -/
theorem touches_comparable (c : Call) (hc : ∀ s d, c ≠ .copyFile s d) (fs : FS) (q : Path)
    (h : c.touches fs q) : ∃ p ∈ c.targets, q <+: p ∨ p <+: q := by
  cases c <;> simp only [Call.touches] at h <;> simp only [Call.targets, List.mem_cons, List.mem_singleton,
    List.not_mem_nil, or_false, exists_eq_left]
  case mkdirP p => exact Or.inl h
  case mkTemp dir => subst h; exact Or.inr (List.prefix_append _ _)
  case mkTempLink dir t => subst h; exact Or.inr (List.prefix_append _ _)
  case fallocate p n => subst h; exact Or.inl (List.prefix_refl _)
  case writeAt p o d => subst h; exact Or.inl (List.prefix_refl _)
  case truncate p n => subst h; exact Or.inl (List.prefix_refl _)
  case openAppend p => subst h; exact Or.inl (List.prefix_refl _)
  case appendWrite p d => subst h; exact Or.inl (List.prefix_refl _)
  case unlink p => subst h; exact Or.inl (List.prefix_refl _)
  case removeTree p => exact Or.inr h
  case rename s d =>
    rcases h with rfl | rfl
    · exact ⟨_, Or.inl rfl, Or.inl (List.prefix_refl _)⟩
    · exact ⟨_, Or.inr rfl, Or.inl (List.prefix_refl _)⟩
  case renameLink s d =>
    rcases h with rfl | rfl
    · exact ⟨_, Or.inl rfl, Or.inl (List.prefix_refl _)⟩
    · exact ⟨_, Or.inr rfl, Or.inl (List.prefix_refl _)⟩
  case hardLink s d => subst h; exact Or.inl (List.prefix_refl _)
  case symlink t d => subst h; exact Or.inl (List.prefix_refl _)
  case reflink s d => subst h; exact Or.inl (List.prefix_refl _)
  case copyFile s d => exact absurd rfl (hc s d)

/-- A call all of whose targets lie in areas other than `top` cannot touch a path in area `top`. -/
theorem avoids_of_area {cache : Path} {top : Bytes} {q : Path} (hq : InArea cache top q) (c : Call)
    (hc : ∀ s d, c ≠ .copyFile s d)
    (h : ∀ p ∈ c.targets, ∃ top', top' ≠ top ∧ InArea cache top' p) : c.avoids q := by
  intro fs ht
  obtain ⟨p, hp, hcmp⟩ := touches_comparable c hc fs q ht
  obtain ⟨top', hne, hp'⟩ := h p hp
  rcases hcmp with h1 | h1
  · exact hne (inArea_disjoint (inArea_ext hq h1) hp').symm
  · exact hne (inArea_disjoint hq (inArea_ext hp' h1)).symm

theorem inArea_tmpDir (cache : Path) : InArea cache dTmp (cache ++ [dTmp]) := List.prefix_refl _
theorem inArea_tmp (cache : Path) (n : Bytes) : InArea cache dTmp ((cache ++ [dTmp]) ++ [n]) :=
  List.prefix_append _ _
theorem inArea_addr (cache : Path) (a : Algo) (h : Bytes) : InArea cache dContent (addrPath cache a h) := by
  unfold InArea addrPath
  exact (List.prefix_append_right_inj cache).mpr (by simp)
theorem inArea_parent_addr (cache : Path) (a : Algo) (h : Bytes) :
    InArea cache dContent (FS.parent (addrPath cache a h)) := by
  unfold InArea addrPath FS.parent
  rw [List.dropLast_append_of_ne_nil (by simp)]
  exact (List.prefix_append_right_inj cache).mpr (by simp)
theorem inArea_parent_bucket (cfg : Cfg) (cache : Path) (key : Bytes) :
    InArea cache dIndex (FS.parent (bucketPath cfg cache key)) := by
  unfold InArea bucketPath FS.parent
  rw [List.dropLast_append_of_ne_nil (by simp)]
  exact (List.prefix_append_right_inj cache).mpr (by simp)

theorem inArea_contentPath {cache : Path} {sri : Integrity} {p : Path}
    (h : contentPath cache sri = some p) : InArea cache dContent p := by
  obtain ⟨a, hex, rfl⟩ := contentPath_shape h
  exact (List.prefix_append_right_inj cache).mpr (by simp)

theorem inArea_parent_contentPath {cache : Path} {sri : Integrity} {p : Path}
    (h : contentPath cache sri = some p) : InArea cache dContent (FS.parent p) := by
  obtain ⟨a, hex, rfl⟩ := contentPath_shape h
  unfold InArea FS.parent
  rw [List.dropLast_append_of_ne_nil (by simp)]
  exact (List.prefix_append_right_inj cache).mpr (by simp)

/-- All targets of the call lie in one of the areas `tops` of the cache (and it is not a copy). -/
structure Call.inAreas (cache : Path) (tops : List Bytes) (c : Call) : Prop where
  notCopy : ∀ s d, c ≠ .copyFile s d
  mem : ∀ p ∈ c.targets, ∃ top ∈ tops, InArea cache top p

theorem Call.inAreas.avoids {cache : Path} {tops : List Bytes} {c : Call} (h : c.inAreas cache tops)
    {top : Bytes} {q : Path} (hq : InArea cache top q) (hnot : top ∉ tops) : c.avoids q :=
  avoids_of_area hq c h.1 (fun p hp => by
    obtain ⟨t, ht, hin⟩ := h.2 p hp
    exact ⟨t, fun e => hnot (e ▸ ht), hin⟩)

theorem area0 {cache : Path} {tops : List Bytes} (c : Call) (hc : c.targets = [])
    (hn : ∀ s d, c ≠ .copyFile s d) : c.inAreas cache tops :=
  ⟨hn, fun p hp => by rw [hc] at hp; cases hp⟩

theorem area1 {cache : Path} {tops : List Bytes} {top : Bytes} {p : Path} (ht : top ∈ tops)
    (hp : InArea cache top p) (c : Call) (hc : c.targets = [p]) (hn : ∀ s d, c ≠ .copyFile s d) :
    c.inAreas cache tops :=
  ⟨hn, fun q hq => by rw [hc] at hq; simp at hq; subst hq; exact ⟨top, ht, hp⟩⟩

theorem area2 {cache : Path} {tops : List Bytes} {t1 t2 : Bytes} {p q : Path} (h1 : t1 ∈ tops)
    (hp : InArea cache t1 p) (h2 : t2 ∈ tops) (hq : InArea cache t2 q) (c : Call)
    (hc : c.targets = [p, q]) (hn : ∀ s d, c ≠ .copyFile s d) : c.inAreas cache tops :=
  ⟨hn, fun x hx => by
    rw [hc] at hx; simp at hx
    rcases hx with rfl | rfl
    · exact ⟨t1, h1, hp⟩
    · exact ⟨t2, h2, hq⟩⟩

/-- Area membership of the usual suspects. -/
syntax "ar_mem" : tactic
macro_rules
  | `(tactic| ar_mem) => `(tactic| first
      | assumption
      | exact inArea_tmpDir _
      | exact inArea_tmp _ _
      | exact inArea_addr _ _ _
      | exact inArea_parent_addr _ _ _
      | exact inArea_contentPath (by assumption)
      | exact inArea_parent_contentPath (by assumption)
      | exact bucket_inIndex _ _ _
      | exact inArea_parent_bucket _ _ _
      | (obtain ⟨n, hn⟩ := tmp_of_answer (by assumption); rw [hn]; exact inArea_tmp _ _))

/-- `top ∈ tops` for the short literal lists used here. -/
syntax "ar_top" : tactic
macro_rules
  | `(tactic| ar_top) => `(tactic| first
      | exact List.mem_cons_self
      | exact List.mem_cons_of_mem _ List.mem_cons_self
      | exact List.mem_cons_of_mem _ (List.mem_cons_of_mem _ List.mem_cons_self))

syntax "ar_nc" : tactic
macro_rules
  | `(tactic| ar_nc) => `(tactic| (intro s d h; cases h))

syntax "ar_leaf" : tactic
macro_rules
  | `(tactic| ar_leaf) => `(tactic| first
      | exact trivial
      | (apply area0 _ rfl; ar_nc)
      | (apply area1 (top := dTmp) ?_ ?_ _ rfl ?_ <;> first | ar_top | ar_nc | ar_mem)
      | (apply area2 (t1 := dTmp) (t2 := dTmp) ?_ ?_ ?_ ?_ _ rfl ?_ <;> first | ar_top | ar_nc | ar_mem)
      | (apply area1 (top := dContent) ?_ ?_ _ rfl ?_ <;> first | ar_top | ar_nc | ar_mem)
      | (apply area1 (top := dIndex) ?_ ?_ _ rfl ?_ <;> first | ar_top | ar_nc | ar_mem)
      | (apply area2 (t1 := dTmp) (t2 := dContent) ?_ ?_ ?_ ?_ _ rfl ?_ <;> first | ar_top | ar_nc | ar_mem))

theorem Writer.Ok.inArea {w : Writer} (h : w.Ok) : InArea w.cache dTmp w.tmp := by
  obtain ⟨n, hn⟩ := h; rw [hn]; exact inArea_tmp _ _

variable (cfg : Cfg)

theorem Call.inAreas.mono {cache : Path} {tops tops' : List Bytes} {c : Call}
    (h : c.inAreas cache tops) (hs : ∀ t ∈ tops, t ∈ tops') : c.inAreas cache tops' :=
  ⟨h.notCopy, fun p hp => by obtain ⟨t, ht, hin⟩ := h.mem p hp; exact ⟨t, hs t ht, hin⟩⟩

/-- Opening, feeding and dropping a writer only ever aim at the temp area. -/
theorem wopen_areas (fl : Flavour) (cache : Path) (key : Option Bytes) (o : WriteOpts) :
    AllCalls (Call.inAreas cache [dTmp]) (wopen cfg fl cache key o) := by
  unfold wopen dropTmp
  repeat' ac_step
  all_goals ar_leaf

theorem wwrite_areas (w : Writer) (d : Bytes) (hw : w.Ok) :
    AllCalls (Call.inAreas w.cache [dTmp]) (wwrite w d) := by
  have := hw.inArea
  unfold wwrite plainWrite
  repeat' ac_step
  all_goals ar_leaf

theorem dropTmp_areas (cache tmp : Path) (h : InArea cache dTmp tmp) :
    AllCalls (Call.inAreas cache [dTmp]) (dropTmp tmp) := by
  unfold dropTmp
  repeat' ac_step
  all_goals ar_leaf

theorem wwriteAll_areas (w : Writer) (ds : List Bytes) (hw : w.Ok) :
    AllCallsR (Call.inAreas w.cache [dTmp]) (fun r => ∀ w', r = .ok w' → w.Same w')
      (wwriteAll w ds) := by
  induction ds generalizing w with
  | nil => unfold wwriteAll; intro w' h; cases h; exact ⟨rfl, rfl, rfl⟩
  | cons d ds ih =>
    unfold wwriteAll
    split
    · exact ih w hw
    · simp only [bind_eq, pure_eq]
      have h1 : AllCallsR (Call.inAreas w.cache [dTmp]) (fun r => ∀ w' n, r = .ok (w', n) → w.Same w')
          (wwrite w d) := by
        have := hw.inArea
        unfold wwrite plainWrite
        repeat' ac_step
        all_goals first
          | ar_leaf
          | (intro w' n h; cases h; exact ⟨rfl, rfl, rfl⟩)
          | (intro w' n h; cases h)
      apply AllCallsR.bind h1
      intro r hr
      split
      · intro w' h; cases h
      · rename_i w1 n
        have hs := hr w1 n rfl
        have := ih w1 (hs.ok hw)
        rw [hs.1] at this
        refine this.mono (fun _ h => h) ?_
        intro a ha w' hw'
        have := ha w' hw'
        exact ⟨this.1.trans hs.1, this.2.1.trans hs.2.1, this.2.2.trans hs.2.2⟩

theorem wclose_areas (w : Writer) (hw : w.Ok) :
    AllCalls (Call.inAreas w.cache [dTmp, dContent]) (wclose cfg w) := by
  have := hw.inArea
  unfold wclose dropTmp
  repeat' ac_step
  all_goals ar_leaf

theorem wcommitCheck_areas (w : Writer) (hw : w.Ok) :
    AllCalls (Call.inAreas w.cache [dTmp, dContent]) (wcommitCheck cfg w) := by
  unfold wcommitCheck
  simp only [bind_eq, pure_eq]
  apply AllCallsR.bind (wclose_areas cfg w hw)
  intro r _
  split
  · trivial
  · split <;> trivial

theorem insert_areas (cache : Path) (key : Bytes) (o : WriteOpts) :
    AllCalls (Call.inAreas cache [dIndex]) (insert cfg cache key o) := by
  unfold insert getTime appendRec
  repeat' ac_step
  all_goals ar_leaf

end Cacache
