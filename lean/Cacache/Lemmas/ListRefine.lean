/-
Program-level refinement, part 3: **listing, full removal and clear** — the operations that
`Refine.index_refines_map` / `CacheRefine.cache_refines_map` do not cover.

What is proved (total correctness in the healthy semantics `Prog.run`, real model programs of
`Ops.lean`):

* `cache_refines_map_ext` — the PACKAGED extension: `XOp := COp ⊕ {list, removeFully key, clear}`,
  `xRunOps`, `xSpecRun`, invariant `XHealthy = Healthy ∧ Tidy`, abstract state `XAbs` = the abstract
  cache of `CacheRefine` plus three existence flags (`cacheDir`, `indexDir`, `bucket key`) on which
  the ANSWERS of the new operations depend in the degenerate cases:
  `clear` of a missing cache directory answers `Err(NotFound)`, `ls` of a missing `index-v5` yields
  the single item `Err(NotFound)`, `remove_fully` of a key without bucket file answers
  `Err(NotFound)`.  Every answer is pinned down exactly, except that a listing is specified up to
  the order of its items (`ListsIndex`: the items are entries, their keys are pairwise distinct, an
  entry is listed iff the abstract index maps its key to it).  `xSpecStep` therefore returns the
  next abstract state and the PREDICATE of admissible answers (`Answers`).
* `run_ls`, `ls_after_ops`, `ls_from_empty` (+ `listsIndex_perm`, `listsIndex_keys`) — (1), C10 at
  program level; `ls_from_empty` is the `written : List Bytes` formulation: from the empty cache the
  items are a PERMUTATION of the final index's entries for the keys ever written.
* `removeFully_refines`, `removeFullySpec` (+ `removeFullySpec_of_entry`, `_absent`,
  `_other_key`) — (2), C09.
* `run_clear`, `run_clear_absent`, `clear_empties`, `ops_after_clear`, `cops_after_clear` — (3), C09
  "clearing leaves an empty, still usable cache".

`Healthy` alone is NOT enough for `ls` and `clear`: a foreign regular file that is a child of the
cache directory makes `remove_dir_all` fail, a foreign file in the index area is listed, a node
whose area directory is missing survives `clear`, and a path outside `FS.dom` is invisible to the
walk.  None of this can arise from the cache operations; `Tidy` is the invariant that says so, it
holds of every empty cache (`tidy_of_empty_cache`, same hypotheses as `healthy_of_empty_cache`) and
is preserved by every operation (`cRunOp_ext`, `removeFully_refines`, `clear_empties`).

**Bucket collisions** (two keys with the same SHA-1) are MODELLED, not excluded: a listing reads
each bucket file once and lists every live key in it (`RecsOK` keeps track that a record lies in the
bucket of its key); `remove_fully key` unlinks the bucket FILE, so the spec unindexes every key `k`
with `SameBucket cfg k key`.  `NoBucketCollision` is only used for a convenience corollary.
**Walk order**: the model's `walk` enumerates `FS.below`, an order that means nothing; listings are
specified up to permutation.
-/
import Cacache.Lemmas.CacheRefine
import Cacache.Props.C10
import Cacache.Props.C09

namespace Cacache.ListRefine
open Prog Json Refine CacheRefine

theorem nodup_eraseDups {α : Type} [BEq α] [LawfulBEq α] (l : List α) : l.eraseDups.Nodup := by
  generalize hn : l.length = n
  induction n using Nat.strongRecOn generalizing l with
  | _ n ih =>
    cases l with
    | nil => simp
    | cons a as =>
      rw [List.eraseDups_cons, List.nodup_cons]
      refine ⟨?_, ih _ ?_ _ rfl⟩
      · intro hm
        have := List.mem_eraseDups.mp hm
        simp at this
      · subst hn
        exact Nat.lt_succ_of_le (List.length_filter_le _ _)

/-! ### the enumerable support -/

def SuppAt (fs : FS) (q : Path) : Prop := (fs.get q).isSome = true → q ∈ fs.dom

theorem suppAt_put {fs : FS} {q : Path} (h : SuppAt fs q) (p : Path) (n : Node) :
    SuppAt (fs.put p n) q := by
  intro hs
  simp only [FS.put] at hs ⊢
  by_cases e : q = p
  · subst e; exact List.mem_cons_self
  · rw [if_neg e] at hs; exact List.mem_cons_of_mem _ (h hs)

theorem suppAt_del {fs : FS} {q : Path} (h : SuppAt fs q) (p : Path) : SuppAt (fs.del p) q := by
  intro hs
  simp only [FS.del] at hs ⊢
  by_cases e : q = p
  · simp [e] at hs
  · rw [if_neg e] at hs; exact h hs

theorem suppAt_delAll {fs : FS} {q : Path} (h : SuppAt fs q) (ps : List Path) :
    SuppAt (fs.delAll ps) q := by
  unfold FS.delAll
  induction ps generalizing fs with
  | nil => exact h
  | cons p ps ih => exact ih (suppAt_del h p)

theorem suppAt_congr {fs fs' : FS} {q : Path} (h : SuppAt fs q) (hg : fs'.get = fs.get)
    (hd : fs'.dom = fs.dom) : SuppAt fs' q := by
  unfold SuppAt at *; rw [hg, hd]; exact h

theorem suppAt_mkdirLevels {fs fs' : FS} {q : Path} (h : SuppAt fs q) (ps : List Path) (n : Nat)
    (hm : FS.mkdirLevels fs ps n = .ok fs') : SuppAt fs' q := by
  induction ps generalizing fs n with
  | nil => simp [FS.mkdirLevels] at hm; subst hm; exact h
  | cons p ps ih =>
    cases n with
    | zero => simp [FS.mkdirLevels] at hm; subst hm; exact h
    | succ n =>
      simp only [FS.mkdirLevels] at hm
      split at hm
      · exact ih (suppAt_put h _ _) _ hm
      · exact ih h _ hm
      · exact ih h _ hm
      · cases hm

theorem suppAt_copyTo {fs : FS} {q : Path} (h : SuppAt fs q) (dst : Path) (b : Bytes) :
    SuppAt (copyTo fs dst b).1 q := by
  unfold copyTo
  repeat' split
  all_goals first | exact h | exact suppAt_put h _ _

theorem exec_suppAt (env : Env) (fs : FS) (c : Call) (q : Path) (h : SuppAt fs q) :
    SuppAt (exec env fs c).1 q := by
  cases c <;> simp only [exec]
  all_goals repeat' split
  all_goals first
    | exact h
    | exact suppAt_put h _ _
    | exact suppAt_del h _
    | exact suppAt_delAll h _
    | exact suppAt_copyTo h _ _
    | exact suppAt_put (suppAt_del h _) _ _
    | exact suppAt_mkdirLevels h _ _ (by assumption)
    | exact suppAt_congr (suppAt_put h _ _) rfl rfl

theorem run_suppAt {α : Type} (env : Env) (p : Prog α) (fs : FS) (q : Path) (h : SuppAt fs q) :
    SuppAt (run env p fs).2.1 q := by
  induction p generalizing fs with
  | done a => exact h
  | sys c k ih => exact ih _ _ (exec_suppAt env fs c q h)

/-! ### rooted -/

def RootedAt (d : Path) (fs : FS) : Prop :=
  fs.isDir d = true ∨
    ((fs.get d = none ∨ ∃ b, fs.get d = some (.file b)) ∧ ∀ q, d <+: q → q ≠ d → fs.get q = none)

theorem isDir_iff {fs : FS} {p : Path} (hp : p ≠ []) : fs.isDir p = true ↔ fs.get p = some .dir := by
  cases p with
  | nil => exact absurd rfl hp
  | cons x xs => simp [FS.isDir]

theorem isDir_nil (fs : FS) : fs.isDir [] = true := rfl

theorem prefix_dropLast {d p : Path} (h : d <+: p) (hne : p ≠ d) : d <+: p.dropLast := by
  obtain ⟨t, rfl⟩ := h
  have ht : t ≠ [] := by intro e; subst e; simp at hne
  rw [List.dropLast_append_of_ne_nil ht]
  exact List.prefix_append _ _

theorem rootedAt_nil (fs : FS) : RootedAt [] fs := Or.inl rfl

/-- Writing a regular file. -/
theorem rootedAt_put {d : Path} {fs : FS} (h : RootedAt d fs) (p : Path) (b : Bytes)
    (hd : p = d → fs.get p ≠ some .dir)
    (hp : fs.isDir (FS.parent p) = true ∨ (fs.get p).isSome = true) :
    RootedAt d (fs.put p (.file b)) := by
  by_cases hd0 : d = []
  · subst hd0; exact rootedAt_nil _
  by_cases hdir : fs.isDir d = true
  · left
    rw [isDir_iff hd0] at hdir ⊢
    have : d ≠ p := fun e => hd e.symm (e ▸ hdir)
    rw [FS.get_put_ne _ _ this]; exact hdir
  · rcases h with h | ⟨h1, h2⟩
    · exact absurd h hdir
    · right
      by_cases hpd : p = d
      · subst hpd
        refine ⟨Or.inr ⟨b, FS.get_put_same _ _ _⟩, ?_⟩
        intro q hq hne
        rw [FS.get_put_ne _ _ hne]; exact h2 q hq hne
      · have hnb : ¬ d <+: p := by
          intro hpre
          have hnone := h2 p hpre hpd
          rcases hp with hp | hp
          · have h3 : d <+: FS.parent p := prefix_dropLast hpre hpd
            have hne : FS.parent p ≠ [] := by
              intro e; rw [e] at h3
              exact hd0 (List.prefix_nil.mp h3)
            rw [isDir_iff hne] at hp
            by_cases e : FS.parent p = d
            · rw [e] at hp; exact hdir ((isDir_iff hd0).mpr hp)
            · rw [h2 _ h3 e] at hp; cases hp
          · rw [hnone] at hp; cases hp
        refine ⟨?_, ?_⟩
        · rw [FS.get_put_ne _ _ (fun e => hpd e.symm)]; exact h1
        · intro q hq hne
          have : q ≠ p := fun e => hnb (e ▸ hq)
          rw [FS.get_put_ne _ _ this]; exact h2 q hq hne

/-- Removing something that is not a directory. -/
theorem rootedAt_del {d : Path} {fs : FS} (h : RootedAt d fs) (p : Path)
    (hp : fs.get p ≠ some .dir) : RootedAt d (fs.del p) := by
  by_cases hd0 : d = []
  · subst hd0; exact rootedAt_nil _
  rcases h with h | ⟨h1, h2⟩
  · left
    rw [isDir_iff hd0] at h ⊢
    have : d ≠ p := fun e => hp (e ▸ h)
    rw [FS.get_del_ne _ this]; exact h
  · right
    refine ⟨?_, ?_⟩
    · rw [FS.get_del]; split
      · exact Or.inl rfl
      · exact h1
    · intro q hq hne
      rw [FS.get_del]; split
      · rfl
      · exact h2 q hq hne

theorem rootedAt_congr {d : Path} {fs fs' : FS} (h : RootedAt d fs) (hg : fs'.get = fs.get) :
    RootedAt d fs' := by
  unfold RootedAt FS.isDir at *
  rw [hg]; exact h

/-- After a complete `create_dir_all`, no level is absent or a regular file. -/
theorem mkdirLevels_levels (fs fs' : FS) (ps : List Path) (n : Nat) (hn : ps.length ≤ n)
    (hm : FS.mkdirLevels fs ps n = .ok fs') :
    ∀ q ∈ ps, fs'.get q = some .dir ∨ ∃ t, fs'.get q = some (.link t) := by
  induction ps generalizing fs n with
  | nil => intro q hq; cases hq
  | cons p ps ih =>
    cases n with
    | zero => simp at hn
    | succ n =>
      simp only [FS.mkdirLevels] at hm
      have hn' : ps.length ≤ n := by simpa using hn
      intro q hq
      split at hm
      · rcases List.mem_cons.mp hq with rfl | hq'
        · rcases FS.mkdirLevels_get _ _ _ _ hm q with h1 | ⟨h1, _⟩
          · left; rw [h1]; simp
          · simp at h1
        · exact ih _ _ hn' hm q hq'
      · rename_i hdir
        rcases List.mem_cons.mp hq with rfl | hq'
        · rcases FS.mkdirLevels_get _ _ _ _ hm q with h1 | ⟨h1, _⟩
          · left; rw [h1]; exact hdir
          · rw [hdir] at h1; cases h1
        · exact ih _ _ (by omega) hm q hq'
      · rename_i t hl
        rcases List.mem_cons.mp hq with rfl | hq'
        · rcases FS.mkdirLevels_get _ _ _ _ hm q with h1 | ⟨h1, _⟩
          · right; exact ⟨t, by rw [h1]; exact hl⟩
          · rw [hl] at h1; cases h1
        · exact ih _ _ (by omega) hm q hq'
      · cases hm

theorem mem_prefixes_of_prefix {p q : Path} (hq : q ≠ []) (h : q <+: p) : q ∈ FS.prefixes p := by
  unfold FS.prefixes
  have hl : 0 < q.length := List.length_pos_iff.mpr hq
  have hle := h.length_le
  refine List.mem_map.mpr ⟨q.length - 1, List.mem_range.mpr (by omega), ?_⟩
  have : q.length - 1 + 1 = q.length := by omega
  rw [this]
  exact (List.prefix_iff_eq_take.mp h).symm

theorem rootedAt_mkdirP {d : Path} {fs fs' : FS} (h : RootedAt d fs) (p : Path)
    (hm : fs.mkdirP p = .ok fs') : RootedAt d fs' := by
  by_cases hd0 : d = []
  · subst hd0; exact rootedAt_nil _
  unfold FS.mkdirP at hm
  have hget := FS.mkdirLevels_get _ _ _ _ hm
  rcases h with h | ⟨h1, h2⟩
  · left
    rw [isDir_iff hd0] at h ⊢
    rcases hget d with g | ⟨g, _⟩
    · rw [g]; exact h
    · rw [h] at g; cases g
  · by_cases hex : ∃ q, d <+: q ∧ q ≠ d ∧ fs'.get q ≠ none
    · obtain ⟨q, hq, hne, hs⟩ := hex
      have hqp : q <+: p := by
        apply Classical.byContradiction
        intro hn
        have := FS.mkdirLevels_frame _ _ _ _ hm q (fun m => hn (FS.mem_prefixes m))
        rw [this, h2 q hq hne] at hs
        exact hs rfl
      have hdp : d ∈ FS.prefixes p := mem_prefixes_of_prefix hd0 (hq.trans hqp)
      have hlev := mkdirLevels_levels _ _ _ _ (by rw [length_prefixes]; exact Nat.le_refl _) hm d hdp
      left
      rw [isDir_iff hd0]
      rcases hget d with g | ⟨_, g⟩
      · rcases h1 with h1 | ⟨b, h1⟩
        · rw [g, h1] at hlev
          rcases hlev with x | ⟨t, x⟩ <;> cases x
        · rw [g, h1] at hlev
          rcases hlev with x | ⟨t, x⟩ <;> cases x
      · exact g
    · rcases hget d with g | ⟨_, g⟩
      · right
        refine ⟨by rw [g]; exact h1, ?_⟩
        intro q hq hne
        apply Classical.byContradiction
        intro hn
        exact hex ⟨q, hq, hne, hn⟩
      · left; exact (isDir_iff hd0).mpr g

/-- The kinds of call the cache operations issue, apart from `remove_dir_all`. -/
def Call.plain : Call → Bool
  | .mkdirP _ | .mkTemp _ | .fallocate _ _ | .writeAt _ _ _ | .truncate _ _ | .rename _ _
  | .openAppend _ | .appendWrite _ _ | .readFile _ | .existsF _ | .sizeOf _ | .unlink _
  | .walk _ | .readDir _ | .now | .isLink _ | .sameFile _ _ => true
  | _ => false

theorem exec_rootedAt (env : Env) (fs : FS) (c : Call) (d : Path) (hc : Call.plain c = true)
    (ht : ∀ dir, c = .mkTemp dir → dir ++ [tmpName fs.next] ≠ d) (h : RootedAt d fs) :
    RootedAt d (exec env fs c).1 := by
  cases c
  all_goals first | (simp [Call.plain] at hc; done) | skip
  all_goals simp only [exec]
  case mkdirP p =>
    split
    · rename_i fs' hm; exact rootedAt_mkdirP h p hm
    · exact h
  case mkTemp dir =>
    split
    · rename_i hdir
      refine rootedAt_congr (rootedAt_put h _ [] (fun e => absurd e (ht dir rfl)) (Or.inl ?_)) rfl
      unfold FS.parent; rw [List.dropLast_concat]; exact hdir
    · exact h
  case fallocate p n =>
    split
    · rename_i b hf
      repeat' split
      all_goals first
        | exact h
        | exact rootedAt_put h _ _ (fun _ => by rw [hf]; intro e; cases e) (Or.inr (by rw [hf]; rfl))
    · exact h
  case writeAt p off dd =>
    split
    · rename_i b hf
      exact rootedAt_put h _ _ (fun _ => by rw [hf]; intro e; cases e) (Or.inr (by rw [hf]; rfl))
    · exact h
  case truncate p n =>
    split
    · rename_i b hf
      exact rootedAt_put h _ _ (fun _ => by rw [hf]; intro e; cases e) (Or.inr (by rw [hf]; rfl))
    · exact h
  case appendWrite p dd =>
    split
    · rename_i b hf
      exact rootedAt_put h _ _ (fun _ => by rw [hf]; intro e; cases e) (Or.inr (by rw [hf]; rfl))
    · exact h
  case openAppend p =>
    split
    · exact h
    · exact h
    · exact h
    · rename_i hn
      split
      · rename_i hdir
        exact rootedAt_put h _ _ (fun _ => by rw [hn]; intro e; cases e) (Or.inl hdir)
      · exact h
  case unlink p =>
    split
    · rename_i b hf; exact rootedAt_del h p (by rw [hf]; intro e; cases e)
    · rename_i b hf; exact rootedAt_del h p (by rw [hf]; intro e; cases e)
    · exact h
    · exact h
  case rename src dst =>
    split
    · rename_i b hf
      split
      · exact h
      · rename_i hpar
        split
        · exact h
        · rename_i hdst
          have hpar' : fs.isDir (FS.parent dst) = true := by simpa using hpar
          have hdst' : fs.get dst ≠ some .dir := by simpa using hdst
          refine rootedAt_put (rootedAt_del h src (by rw [hf]; intro e; cases e)) dst b ?_ (Or.inl ?_)
          · intro _
            rw [FS.get_del]; split
            · intro e; cases e
            · exact hdst'
          · by_cases e0 : FS.parent dst = []
            · rw [e0]; rfl
            · rw [isDir_iff e0] at hpar' ⊢
              have : FS.parent dst ≠ src := by intro e; rw [e, hf] at hpar'; cases hpar'
              rw [FS.get_del_ne _ this]; exact hpar'
    · exact h
  all_goals first
    | exact h
    | (repeat' split) <;> exact h


/-! ### the calls of the cache operations are plain -/

/-- A plain call; a temp file is only ever asked for at or below the cache directory. -/
structure SafeCall (cache : Path) (c : Call) : Prop where
  plain : Call.plain c = true
  tmp : ∀ dir, c = .mkTemp dir → cache <+: dir

theorem run_rootedAt {α : Type} {Ok : α → Prop} {cache : Path} (env : Env) (p : Prog α)
    (hp : AllCallsR (SafeCall cache) Ok p) (d : Path)
    (hd : ∀ dir n, cache <+: dir → dir ++ [tmpName n] ≠ d) (fs : FS) (h : RootedAt d fs) :
    RootedAt d (run env p fs).2.1 := by
  induction p generalizing fs with
  | done a => exact h
  | sys c k ih =>
    exact ih _ (hp.2 _ (answer_exec env fs c)) _
      (exec_rootedAt env fs c d hp.1.1 (fun dir e => hd dir _ (hp.1.2 dir e)) h)

/-- The three areas of a cache directory. -/
def Top3 (t : Bytes) : Prop := t = dIndex ∨ t = dContent ∨ t = dTmp

theorem tmpName_ne_top {n : Nat} {t : Bytes} (ht : Top3 t) : tmpName n ≠ t := by
  intro e
  rcases ht with rfl | rfl | rfl <;> simp [tmpName, dIndex, dContent, dTmp] at e

theorem tmp_clear_cache (cache : Path) : ∀ dir n, cache <+: dir → dir ++ [tmpName n] ≠ cache := by
  intro dir n h e
  have h1 := h.length_le
  have h2 := congrArg List.length e
  simp at h2
  omega

theorem tmp_clear_top (cache : Path) {t : Bytes} (ht : Top3 t) :
    ∀ dir n, cache <+: dir → dir ++ [tmpName n] ≠ cache ++ [t] := by
  intro dir n _ e
  have := (List.append_inj' e rfl).2
  simp at this
  exact tmpName_ne_top ht this

syntax "sf_leaf" : tactic
macro_rules
  | `(tactic| sf_leaf) => `(tactic| first
      | exact trivial
      | (refine SafeCall.mk rfl (fun _ h => ?_); cases h; try exact List.prefix_append _ _))

theorem safe_of_readOnly (cache : Path) (c : Call) (h : ReadOnly c) : SafeCall cache c := by
  cases c <;> simp [ReadOnly, Call.mutating] at h <;> exact ⟨rfl, fun _ e => by cases e⟩

variable (cfg : Cfg) (cache : Path)

theorem find_safe (key : Bytes) : AllCalls (SafeCall cache) (find cfg cache key) :=
  (find_ro cfg cache key).mono (safe_of_readOnly cache) (fun _ h => h)

theorem read_safe (key : Bytes) : AllCalls (SafeCall cache) (read cfg cache key) :=
  (read_ro cfg cache key).mono (safe_of_readOnly cache) (fun _ h => h)

theorem readHash_safe (sri : Integrity) : AllCalls (SafeCall cache) (readHash cfg cache sri) :=
  (readHash_ro cfg cache sri).mono (safe_of_readOnly cache) (fun _ h => h)

theorem existsHash_safe (sri : Integrity) : AllCalls (SafeCall cache) (existsHash cache sri) :=
  (existsHash_ro cache sri).mono (safe_of_readOnly cache) (fun _ h => h)

theorem ls_safe : AllCalls (SafeCall cache) (ls cfg cache) :=
  (ls_ro cfg cache).mono (safe_of_readOnly cache) (fun _ h => h)

theorem insert_safe (cache' : Path) (key : Bytes) (o : WriteOpts) :
    AllCalls (SafeCall cache) (insert cfg cache' key o) := by
  unfold insert getTime appendRec
  repeat' ac_step
  all_goals sf_leaf

theorem delete_safe (key : Bytes) : AllCalls (SafeCall cache) (delete cfg cache key) := by
  unfold delete
  simp only [bind_eq, pure_eq]
  apply AllCalls.bind (insert_safe cfg cache cache key {})
  intro r
  split <;> trivial

theorem removeHash_safe (sri : Integrity) : AllCalls (SafeCall cache) (removeHash cache sri) := by
  unfold removeHash
  repeat' ac_step
  all_goals sf_leaf

theorem dropTmp_safe (tmp : Path) : AllCalls (SafeCall cache) (dropTmp tmp) := by
  unfold dropTmp
  repeat' ac_step
  all_goals sf_leaf

theorem wopen_safe (fl : Flavour) (key : Option Bytes) (o : WriteOpts) :
    AllCalls (SafeCall cache) (wopen cfg fl cache key o) := by
  unfold wopen dropTmp
  repeat' ac_step
  all_goals sf_leaf

theorem wwrite_safe (w : Writer) (d : Bytes) : AllCalls (SafeCall cache) (wwrite w d) := by
  unfold wwrite plainWrite
  repeat' ac_step
  all_goals sf_leaf

theorem wwriteAll_safe (w : Writer) (ds : List Bytes) : AllCalls (SafeCall cache) (wwriteAll w ds) := by
  induction ds generalizing w with
  | nil => unfold wwriteAll; trivial
  | cons d ds ih =>
    unfold wwriteAll
    split
    · exact ih w
    · simp only [bind_eq, pure_eq]
      apply AllCalls.bind (wwrite_safe cache w d)
      intro r
      split
      · trivial
      · exact ih _

theorem wclose_safe (w : Writer) : AllCalls (SafeCall cache) (wclose cfg w) := by
  unfold wclose dropTmp
  repeat' ac_step
  all_goals sf_leaf

theorem wcommit_safe (w : Writer) : AllCalls (SafeCall cache) (wcommit cfg w) := by
  unfold wcommit wcommitCheck
  simp only [bind_eq, pure_eq]
  apply AllCalls.bind
  · apply AllCalls.bind (wclose_safe cfg cache w)
    intro r
    split
    · trivial
    · split <;> trivial
  · intro r
    split
    · trivial
    · unfold wcommitIndex
      split
      · exact insert_safe cfg cache _ _ _
      · trivial

theorem writeStream_safe (fl : Flavour) (key : Option Bytes) (o : WriteOpts) (chunks : List Bytes) :
    AllCalls (SafeCall cache) (writeStream cfg cache fl key o chunks) := by
  unfold writeStream
  simp only [bind_eq, pure_eq]
  apply AllCalls.bind (wopen_safe cfg cache fl key o)
  intro r
  split
  · trivial
  · apply AllCalls.bind (wwriteAll_safe cache _ chunks)
    intro r2
    split
    · apply AllCalls.bind (dropTmp_safe cache _)
      intro _; trivial
    · exact wcommit_safe cfg cache _

theorem removeFully_safe (key : Bytes) : AllCalls (SafeCall cache) (removeFully cfg cache key) := by
  unfold removeFully
  simp only [bind_eq, pure_eq]
  apply AllCalls.bind (find_safe cfg cache key)
  intro r
  split
  · trivial
  · rename_i mo
    have hdrop : AllCalls (SafeCall cache) (Prog.bind (call (.unlink (bucketPath cfg cache key)))
        (fun x => match x with
          | .err e => (.done (.error (.io e)) : Prog (Res Unit))
          | _ => .done (.ok ()))) := by
      repeat' ac_step
      all_goals sf_leaf
    apply AllCalls.bind (p := match mo with | some m => removeHash cache m.sri | none => .done (.ok ()))
    · split
      · exact removeHash_safe cache _
      · trivial
    · intro r2
      split
      · exact hdrop
      · trivial
      · exact hdrop


/-! ### what lies below the cache directory -/

theorem rooted_dir_of_below {d q : Path} {fs : FS} (h : RootedAt d fs) (hq : d <+: q) (hne : q ≠ d)
    (hs : fs.get q ≠ none) : fs.isDir d = true := by
  rcases h with h | ⟨_, h2⟩
  · exact h
  · exact absurd (h2 q hq hne) hs

theorem inArea_of_prefix {cache : Path} {top : Bytes} {D q : Path} (hD : InArea cache top D)
    (hq : q <+: D) (hc : cache <+: q) (hne : q ≠ cache) : InArea cache top q := by
  unfold InArea at *
  rcases List.prefix_or_prefix_of_prefix hD hq with h | h
  · exact h
  · have h1 := h.length_le
    have h2 := hc.length_le
    have h3 : q.length ≠ cache.length := fun e => hne (hc.eq_of_length e.symm).symm
    have h4 : q.length = (cache ++ [top]).length := by simp at h1 ⊢; omega
    rw [h.eq_of_length h4]
    exact List.prefix_refl _

theorem top3_index : Top3 dIndex := Or.inl rfl
theorem top3_content : Top3 dContent := Or.inr (Or.inl rfl)
theorem top3_tmp : Top3 dTmp := Or.inr (Or.inr rfl)

/-- Everything that exists strictly below the cache directory lies in one of the three areas; the
direct children of the cache directory are directories; and in the index area there are only
directories and bucket paths. -/
def Shape (fs : FS) : Prop :=
  ∀ q, cache <+: q → q ≠ cache → fs.get q ≠ none →
    (∃ top, Top3 top ∧ InArea cache top q) ∧
    (q.length = cache.length + 1 → fs.get q = some .dir) ∧
    (InArea cache dIndex q → fs.get q = some .dir ∨ ∃ key, q = bucketPath cfg cache key)

/-- How the cache operations change nodes: not at all, by removing them, by creating directories
on the way into one of the three areas, or by writing a bucket file or a content file. -/
def Moves (fs fs' : FS) : Prop :=
  ∀ q, fs'.get q = fs.get q ∨ fs'.get q = none ∨
    (fs'.get q = some .dir ∧ ∃ D top, Top3 top ∧ InArea cache top D ∧ q <+: D) ∨
    (∃ key b, q = bucketPath cfg cache key ∧ fs'.get q = some (.file b)) ∨
    (∃ a h b, q = addrPath cache a h ∧ fs'.get q = some (.file b))

theorem moves_refl (fs : FS) : Moves cfg cache fs fs := fun _ => Or.inl rfl

theorem shape_moves {fs fs' : FS} (h : Shape cfg cache fs) (hm : Moves cfg cache fs fs') :
    Shape cfg cache fs' := by
  intro q hc hne hs
  rcases hm q with g | g | ⟨g, D, top, ht, hD, hq⟩ | ⟨key, b, rfl, g⟩ | ⟨a, hx, b, rfl, g⟩
  · rw [g] at hs ⊢; exact h q hc hne hs
  · exact absurd g hs
  · exact ⟨⟨top, ht, inArea_of_prefix hD hq hc hne⟩, fun _ => g, fun _ => Or.inl g⟩
  · refine ⟨⟨dIndex, top3_index, bucket_inIndex cfg cache key⟩, ?_, fun _ => Or.inr ⟨key, rfl⟩⟩
    intro hl; rw [bucket_length] at hl; omega
  · refine ⟨⟨dContent, top3_content, inArea_addr cache a hx⟩, ?_, ?_⟩
    · intro hl; rw [addrPath_length] at hl; omega
    · intro hi; exact absurd (inArea_disjoint hi (inArea_addr cache a hx)) dIndex_ne_dContent

/-- Every record of every bucket file belongs to that bucket (its key hashes to the bucket's
path) and its integrity is absent or parses. -/
def RecsOK (fs : FS) : Prop :=
  ∀ key b, fs.get (bucketPath cfg cache key) = some (.file b) → ∀ r ∈ (codec cfg).entries b,
    bucketPath cfg cache ((codec cfg).key r) = bucketPath cfg cache key ∧
    ∀ acc, ((codec cfg).cls r).apply acc = ((codec cfg).cls r).apply none

theorem recsOK_of_buckets {fs fs' : FS} (h : RecsOK cfg cache fs)
    (hb : ∀ key, fs'.get (bucketPath cfg cache key) = fs.get (bucketPath cfg cache key) ∨
      fs'.get (bucketPath cfg cache key) = none) : RecsOK cfg cache fs' := by
  intro key b hg
  rcases hb key with g | g
  · rw [g] at hg; exact h key b hg
  · rw [g] at hg; cases hg

theorem cls_mkRec_good (key : Bytes) (o : WriteOpts) (tm : Nat) (hs : SriOK cfg o) (acc : Option Meta) :
    ((codec cfg).cls (mkRec key o tm)).apply acc = ((codec cfg).cls (mkRec key o tm)).apply none := by
  rcases hs with hn | ⟨a, data, hc⟩
  · have : (codec cfg).cls (mkRec key o tm) = .tomb := by
      simp [codec, Rec.codec, Rec.cls, mkRec, hn]
    rw [this]; rfl
  · have : ∃ m, (codec cfg).cls (mkRec key o tm) = .live m := by
      simp [codec, Rec.codec, Rec.cls, mkRec, hc, Sri.parse_print_compute]
    obtain ⟨m, hm⟩ := this
    rw [hm]; rfl

theorem entries_bytesAt_ok {fs : FS} (h : RecsOK cfg cache fs) (key : Bytes) :
    ∀ r ∈ (codec cfg).entries (bytesAt fs (bucketPath cfg cache key)),
      bucketPath cfg cache ((codec cfg).key r) = bucketPath cfg cache key ∧
      ∀ acc, ((codec cfg).cls r).apply acc = ((codec cfg).cls r).apply none := by
  unfold bytesAt
  split
  · rename_i b hb; exact h key b hb
  · intro r hr; rw [entries_nil] at hr; cases hr

/-- An insertion keeps the buckets well-formed. -/
theorem recsOK_insert (env : Env) (key : Bytes) (o : WriteOpts) (fs : FS)
    (hI : HealthyIndex cfg cache fs) (h : RecsOK cfg cache fs) (hw : OptsWF key o) (hs : SriOK cfg o) :
    RecsOK cfg cache (run env (insert cfg cache key o) fs).2.1 := by
  obtain ⟨-, hbk, hoth⟩ := run_insert cfg cache env key o fs hI
  have hwf : (mkRec key o (stamp env o)).WF := mkRec_wf key o _ hw (stamp_le env o hw.time)
  intro k b hg
  by_cases e : bucketPath cfg cache k = bucketPath cfg cache key
  · rw [e, hbk] at hg
    cases hg
    intro r hr
    have hset : (codec cfg).entries (bytesAt fs (bucketPath cfg cache key)) =
        (codec cfg).entriesT (bytesAt fs (bucketPath cfg cache key)) := hI.settled key
    rw [(codec_laws cfg).entries_append_frame _ _ hwf, ← hset] at hr
    rcases List.mem_append.mp hr with hr | hr
    · rw [e]; exact entries_bytesAt_ok cfg cache h key r hr
    · simp at hr; subst hr
      exact ⟨by rw [e]; rfl, cls_mkRec_good cfg key o _ hs⟩
  · rcases hoth _ e with g | ⟨_, _, g⟩
    · rw [g] at hg; exact h k b hg
    · exact absurd g (Refine.bucket_not_prefix_parent cfg cache key k)


/-! ### the extra invariant of a cache that started empty -/

/-- What holds, beyond `Healthy`, of every state reached from an empty cache by the cache
operations: the paths below the cache directory are enumerable (`SuppAt`: listing and clearing see
them), the cache directory and its three areas are rooted (`RootedAt`: nothing exists inside an
area whose top directory does not), and `Shape` / `RecsOK`. -/
structure Tidy (fs : FS) : Prop where
  supp : ∀ q, cache <+: q → q ≠ cache → SuppAt fs q
  rootC : RootedAt cache fs
  rootT : ∀ top, Top3 top → RootedAt (cache ++ [top]) fs
  shape : Shape cfg cache fs
  recs : RecsOK cfg cache fs

theorem tidy_run {α : Type} {Ok : α → Prop} (env : Env) (p : Prog α)
    (hp : AllCallsR (SafeCall cache) Ok p) (fs : FS) (h : Tidy cfg cache fs)
    (hs : Shape cfg cache (run env p fs).2.1) (hr : RecsOK cfg cache (run env p fs).2.1) :
    Tidy cfg cache (run env p fs).2.1 :=
  ⟨fun q hq hne => run_suppAt env p fs q (h.supp q hq hne),
   run_rootedAt env p hp cache (tmp_clear_cache cache) fs h.rootC,
   fun top ht => run_rootedAt env p hp _ (tmp_clear_top cache ht) fs (h.rootT top ht), hs, hr⟩

/-- **The empty cache is tidy.** -/
theorem tidy_of_empty_cache (fs : FS)
    (hanc : ∀ q, q ≠ [] → q <+: cache → NoneOrDir fs q)
    (hbelow : ∀ q, cache <+: q → q ≠ cache → fs.get q = none) : Tidy cfg cache fs := by
  refine ⟨?_, ?_, ?_, ?_, ?_⟩
  · intro q hq e hs
    rw [hbelow q hq e] at hs; cases hs
  · by_cases e : cache = []
    · rw [e]; exact rootedAt_nil _
    · rcases hanc cache e (List.prefix_refl _) with h | h
      · exact Or.inr ⟨Or.inl h, hbelow⟩
      · exact Or.inl ((isDir_iff e).mpr h)
  · intro top _
    right
    have h0 : fs.get (cache ++ [top]) = none := hbelow _ (List.prefix_append _ _) (by simp)
    refine ⟨Or.inl h0, ?_⟩
    intro q hq _
    apply hbelow q ((List.prefix_append _ _).trans hq)
    intro e
    have := hq.length_le
    rw [e] at this; simp at this; omega
  · intro q hc hne hs; exact absurd (hbelow q hc hne) hs
  · intro key b hg
    rw [hbelow _ (prefix_bucketPath cfg cache key) (by
      intro e; have := congrArg List.length e; rw [bucket_length] at this; omega)] at hg
    cases hg


/-! ### `clear` -/

theorem delAll_none {fs : FS} {q : Path} (h : fs.get q = none) (ps : List Path) :
    (fs.delAll ps).get q = none := by
  rcases FS.delAll_get fs ps q with g | g
  · exact g
  · rw [g]; exact h

theorem exec_removeTree_none (env : Env) {fs : FS} {q : Path} (h : fs.get q = none) (p : Path) :
    (exec env fs (.removeTree p)).1.get q = none := by
  simp only [exec]
  split
  · exact delAll_none h _
  · rw [FS.get_del]; split
    · rfl
    · exact h
  · exact h
  · exact h

theorem removeEach_none (env : Env) (es : List (Path × Bool)) {fs : FS} {q : Path}
    (h : fs.get q = none) : (run env (removeEach es) fs).2.1.get q = none := by
  induction es generalizing fs with
  | nil => exact h
  | cons e es ih =>
    obtain ⟨p, f⟩ := e
    unfold removeEach
    simp only [bind_eq, pure_eq, call, bind_sys, bind_done, run_sys_fs]
    split
    · exact exec_removeTree_none env h p
    · exact ih (exec_removeTree_none env h p)

theorem mem_below {fs : FS} {p q : Path} (hp : p <+: q) (hne : q ≠ p) (hs : (fs.get q).isSome = true)
    (hd : q ∈ fs.dom) : q ∈ fs.below p := by
  unfold FS.below
  apply List.mem_eraseDups.mpr
  apply List.mem_filter.mpr
  refine ⟨hd, ?_⟩
  have h1 : p.length < q.length := by
    have := hp.length_le
    have : q.length ≠ p.length := fun e => hne (hp.eq_of_length e.symm).symm
    omega
  simp only [Bool.and_eq_true, decide_eq_true_eq, beq_iff_eq]
  exact ⟨⟨h1, (List.prefix_iff_eq_take.mp hp).symm⟩, hs⟩

/-- `remove_dir_all` of a directory: the directory and everything enumerable below it is gone,
everything else is as before. -/
theorem exec_removeTree_dir (env : Env) {fs : FS} {p : Path} (hd : fs.get p = some .dir) :
    (exec env fs (.removeTree p)).2 = .unit ∧
    (∀ q, ¬ p <+: q → (exec env fs (.removeTree p)).1.get q = fs.get q) ∧
    (∀ q, p <+: q → SuppAt fs q → (exec env fs (.removeTree p)).1.get q = none) := by
  simp only [exec, hd]
  refine ⟨trivial, ?_, ?_⟩
  · intro q hq
    apply FS.delAll_frame
    intro hm
    rcases List.mem_cons.mp hm with rfl | hm
    · exact hq (List.prefix_refl _)
    · exact hq (FS.below_prefix fs p q hm)
  · intro q hq hs
    by_cases e : q = p
    · exact C09.delAll_removes _ _ _ (by rw [e]; exact List.mem_cons_self)
    · cases hg : fs.get q with
      | none => exact delAll_none hg _
      | some n =>
        have hsome : (fs.get q).isSome = true := by rw [hg]; rfl
        exact C09.delAll_removes _ _ _ (List.mem_cons_of_mem _ (mem_below hq e hsome (hs hsome)))

/-- Removing a list of directories none of which lies inside an earlier one. -/
theorem run_removeEach (env : Env) (es : List (Path × Bool)) (fs : FS)
    (hd : ∀ e ∈ es, fs.get e.1 = some .dir)
    (hp : es.Pairwise (fun a b => ¬ a.1 <+: b.1)) :
    (run env (removeEach es) fs).1 = .ok () ∧
    (∀ q, (∀ e ∈ es, ¬ e.1 <+: q) → (run env (removeEach es) fs).2.1.get q = fs.get q) ∧
    (∀ q, (∃ e ∈ es, e.1 <+: q) → SuppAt fs q → (run env (removeEach es) fs).2.1.get q = none) := by
  induction es generalizing fs with
  | nil =>
    refine ⟨rfl, fun _ _ => rfl, ?_⟩
    rintro q ⟨e, he, _⟩; cases he
  | cons e es ih =>
    obtain ⟨p, f⟩ := e
    have hpd : fs.get p = some .dir := hd (p, f) List.mem_cons_self
    obtain ⟨r1, fr1, un1⟩ := exec_removeTree_dir env hpd
    have hp' := List.pairwise_cons.mp hp
    have hd1 : ∀ e ∈ es, (exec env fs (.removeTree p)).1.get e.1 = some .dir := by
      intro e he
      rw [fr1 _ (hp'.1 e he)]
      exact hd e (List.mem_cons_of_mem _ he)
    obtain ⟨r2, fr2, un2⟩ := ih _ hd1 hp'.2
    unfold removeEach
    simp only [bind_eq, pure_eq, call, bind_sys, bind_done, run_sys_fs, run_sys_res, r1]
    refine ⟨r2, ?_, ?_⟩
    · intro q hq
      rw [fr2 q (fun e he => hq e (List.mem_cons_of_mem _ he))]
      exact fr1 q (hq (p, f) List.mem_cons_self)
    · rintro q ⟨e, he, hq⟩ hs
      by_cases hex : ∃ e ∈ es, e.1 <+: q
      · exact un2 q hex (exec_suppAt env fs _ q hs)
      · rcases List.mem_cons.mp he with rfl | he'
        · exact removeEach_none env es (un1 q hq hs)
        · exact absurd ⟨e, he', hq⟩ hex


theorem mem_children {fs : FS} {p q : Path} (h : q ∈ fs.children p) :
    p <+: q ∧ q.length = p.length + 1 ∧ (fs.get q).isSome = true := by
  unfold FS.children at h
  obtain ⟨h1, h2⟩ := List.mem_filter.mp h
  have h3 := FS.below_prefix fs p q h1
  unfold FS.below at h1
  have h4 := (List.mem_filter.mp (List.mem_eraseDups.mp h1)).2
  simp only [Bool.and_eq_true, beq_iff_eq] at h4 h2
  exact ⟨h3, h2, h4.2⟩

theorem children_nodup (fs : FS) (p : Path) : (fs.children p).Nodup := by
  unfold FS.children FS.below
  exact List.Pairwise.filter _ (nodup_eraseDups _)

/-- In a tidy cache the top-level ancestor of whatever exists below the cache directory is one of
its children and a directory. -/
theorem top_of_below {fs : FS} (hT : Tidy cfg cache fs) {q : Path} (hc : cache <+: q)
    (hne : q ≠ cache) (hs : fs.get q ≠ none) :
    ∃ c ∈ fs.children cache, c <+: q ∧ fs.get c = some .dir := by
  obtain ⟨⟨top, ht, hin⟩, hlen, _⟩ := hT.shape q hc hne hs
  have hcd : fs.get (cache ++ [top]) = some .dir := by
    by_cases e : q = cache ++ [top]
    · rw [← e]; exact hlen (by rw [e]; simp)
    · have := rooted_dir_of_below (hT.rootT top ht) hin e hs
      exact (isDir_iff (by simp)).mp this
  refine ⟨cache ++ [top], ?_, hin, hcd⟩
  unfold FS.children
  apply List.mem_filter.mpr
  refine ⟨mem_below (List.prefix_append _ _) (by simp) (by rw [hcd]; rfl) ?_, by simp⟩
  exact hT.supp _ (List.prefix_append _ _) (by simp) (by rw [hcd]; rfl)

/-- **`clear` on an existing, tidy cache directory** answers ok, removes everything below the
cache directory, keeps the directory itself and touches nothing outside it. -/
theorem run_clear (env : Env) (fs : FS) (hT : Tidy cfg cache fs) (hd : fs.isDir cache = true) :
    (run env (clear cache) fs).1 = .ok () ∧
    (∀ q, cache <+: q → q ≠ cache → (run env (clear cache) fs).2.1.get q = none) ∧
    (∀ q, (¬ cache <+: q ∨ q = cache) → (run env (clear cache) fs).2.1.get q = fs.get q) := by
  have hdirs : ∀ e ∈ (fs.children cache).map (fun q => (q, fs.get q == some .dir)),
      fs.get e.1 = some .dir := by
    intro e he
    obtain ⟨q, hq, rfl⟩ := List.mem_map.mp he
    obtain ⟨h1, h2, h3⟩ := mem_children hq
    have hne : q ≠ cache := by intro e; rw [e] at h2; omega
    have hs : fs.get q ≠ none := by intro e; rw [e] at h3; cases h3
    exact (hT.shape q h1 hne hs).2.1 h2
  have hpw : ((fs.children cache).map (fun q => (q, fs.get q == some .dir))).Pairwise
      (fun a b => ¬ a.1 <+: b.1) := by
    rw [List.pairwise_map]
    refine List.Pairwise.imp_of_mem ?_ (children_nodup fs cache)
    intro a b ha hb hab hpre
    have hpre : a <+: b := hpre
    have := (mem_children ha).2.1
    have := (mem_children hb).2.1
    exact hab (hpre.eq_of_length (by omega))
  obtain ⟨r, fr, un⟩ := run_removeEach env _ fs hdirs hpw
  unfold clear
  simp only [bind_eq, pure_eq, call, bind_sys, bind_done, run_sys_fs, run_sys_res, exec, hd, if_true]
  refine ⟨r, ?_, ?_⟩
  · intro q hc hne
    cases hg : fs.get q with
    | none => exact removeEach_none env _ hg
    | some n =>
      have hs : fs.get q ≠ none := by rw [hg]; intro e; cases e
      obtain ⟨c, hcm, hcq, _⟩ := top_of_below cfg cache hT hc hne hs
      exact un q ⟨(c, fs.get c == some .dir), List.mem_map.mpr ⟨c, hcm, rfl⟩, hcq⟩ (hT.supp q hc hne)
  · intro q hq
    apply fr
    intro e he hpre
    obtain ⟨c, hcm, rfl⟩ := List.mem_map.mp he
    obtain ⟨h1, h2, _⟩ := mem_children hcm
    have hpre : c <+: q := hpre
    rcases hq with hq | hq
    · exact hq (h1.trans hpre)
    · subst hq
      have := hpre.length_le
      omega

/-- `clear` on a cache directory that does not exist: `read_dir` fails with NotFound. -/
theorem run_clear_absent (env : Env) (fs : FS) (hd : fs.isDir cache = false) :
    (run env (clear cache) fs).1 = .error (.io .notFound) ∧ (run env (clear cache) fs).2.1 = fs := by
  unfold clear
  simp only [bind_eq, pure_eq, call, bind_sys, bind_done, run_sys_fs, run_sys_res, exec, hd]
  exact ⟨rfl, rfl⟩

/-- The empty abstract cache. -/
def AbsCache.empty : AbsCache := { index := fun _ => none, store := fun _ _ => none }

theorem absCache_of_empty_cache (fs : FS) (hbelow : ∀ q, cache <+: q → q ≠ cache → fs.get q = none) :
    absCache cfg cache fs = AbsCache.empty := by
  unfold absCache AbsCache.empty
  rw [absStore_of_empty_cache cache fs hbelow]
  congr 1
  funext key
  unfold absIndex
  rw [hbelow _ (prefix_bucketPath cfg cache key) (by
    intro e; have := congrArg List.length e; rw [bucket_length] at this; omega)]

/-- **Clearing leaves an empty, still usable cache** (C09): after `clear` on a healthy, tidy cache
whose directory exists, the hypotheses of `healthy_of_empty_cache` hold again — so the cache is
`Healthy` and `Tidy`, abstracts to the empty cache, and every refinement theorem applies as from a
fresh cache. -/
theorem clear_empties (env : Env) (fs : FS) (hH : Healthy cfg cache fs) (hT : Tidy cfg cache fs)
    (hd : fs.isDir cache = true) :
    (run env (clear cache) fs).1 = .ok () ∧
    (∀ q, q ≠ [] → q <+: cache → NoneOrDir (run env (clear cache) fs).2.1 q) ∧
    (∀ q, cache <+: q → q ≠ cache → (run env (clear cache) fs).2.1.get q = none) ∧
    (run env (clear cache) fs).2.1.isDir cache = true ∧
    Healthy cfg cache (run env (clear cache) fs).2.1 ∧ Tidy cfg cache (run env (clear cache) fs).2.1 ∧
    absCache cfg cache (run env (clear cache) fs).2.1 = AbsCache.empty := by
  obtain ⟨r, gone, keep⟩ := run_clear cfg cache env fs hT hd
  have hanc : ∀ q, q ≠ [] → q <+: cache → NoneOrDir (run env (clear cache) fs).2.1 q := by
    intro q hq hp
    have : ¬ cache <+: q ∨ q = cache := by
      by_cases e : q = cache
      · exact Or.inr e
      · left; intro hc; exact e (hp.eq_of_length (Nat.le_antisymm hp.length_le hc.length_le))
    unfold NoneOrDir
    rw [keep q this]
    exact hH.store.tmpDirs q hq (hp.trans (List.prefix_append _ _))
  have hdir : (run env (clear cache) fs).2.1.isDir cache = true := by
    by_cases e : cache = []
    · rw [e]; rfl
    · rw [isDir_iff e] at hd ⊢
      rw [keep cache (Or.inr rfl)]; exact hd
  exact ⟨r, hanc, gone, hdir, healthy_of_empty_cache cfg cache _ hanc gone,
    tidy_of_empty_cache cfg cache _ hanc gone, absCache_of_empty_cache cfg cache _ gone⟩


/-! ### the basic transitions: an insertion, a content publication, a content removal -/

theorem moves_insert (env : Env) (key : Bytes) (o : WriteOpts) (fs : FS)
    (hI : HealthyIndex cfg cache fs) :
    Moves cfg cache fs (run env (insert cfg cache key o) fs).2.1 := by
  obtain ⟨-, hbk, hoth⟩ := run_insert cfg cache env key o fs hI
  intro q
  by_cases e : q = bucketPath cfg cache key
  · right; right; right; left
    exact ⟨key, _, e, by rw [e]; exact hbk⟩
  · rcases hoth q e with g | ⟨_, g2, g3⟩
    · exact Or.inl g
    · right; right; left
      exact ⟨g2, _, dIndex, top3_index, inArea_parent_bucket cfg cache key, g3⟩

theorem moves_putFrame {fs fs' : FS} {a : Algo} {data : Bytes}
    (hp : PutFrame cfg cache fs fs' a data) : Moves cfg cache fs fs' := by
  obtain ⟨hput, htmp, hfr⟩ := hp
  intro q
  by_cases e1 : q = (cache ++ [dTmp]) ++ [tmpName fs.next]
  · right; left; rw [e1]; exact htmp
  by_cases e2 : q = addrPath cache a (Bytes.hex (cfg.H a data))
  · right; right; right; right
    exact ⟨a, _, data, e2, by rw [e2]; exact hput⟩
  rcases hfr q e1 e2 with g | ⟨_, g2, g3 | g3⟩
  · exact Or.inl g
  · right; right; left
    exact ⟨g2, _, dTmp, top3_tmp, inArea_tmpDir cache, g3⟩
  · right; right; left
    exact ⟨g2, _, dContent, top3_content, inArea_parent_addr cache _ _, g3⟩

theorem moves_drop {fs fs' : FS} {p : Path} (hg : ∀ q, fs'.get q = if q = p then none else fs.get q) :
    Moves cfg cache fs fs' := by
  intro q
  rw [hg]
  split
  · exact Or.inr (Or.inl rfl)
  · exact Or.inl rfl

theorem putFrame_buckets {fs fs' : FS} {a : Algo} {data : Bytes}
    (hp : PutFrame cfg cache fs fs' a data) (key : Bytes) :
    fs'.get (bucketPath cfg cache key) = fs.get (bucketPath cfg cache key) := by
  obtain ⟨_, _, hfr⟩ := hp
  rcases hfr _ (bucket_ne_tmp cfg cache key _) (bucket_ne_addr cfg cache key _ _) with g | ⟨_, _, g | g⟩
  · exact g
  · exact absurd g (bucket_not_prefix_tmpDir cfg cache key)
  · exact absurd g (bucket_not_prefix_parent_addr cfg cache key _ _)

theorem putFrame_indexDir {fs fs' : FS} {a : Algo} {data : Bytes}
    (hp : PutFrame cfg cache fs fs' a data) :
    fs'.get (cache ++ [dIndex]) = fs.get (cache ++ [dIndex]) := by
  obtain ⟨_, _, hfr⟩ := hp
  have hi : InArea cache dIndex (cache ++ [dIndex]) := List.prefix_refl _
  have h1 : cache ++ [dIndex] ≠ (cache ++ [dTmp]) ++ [tmpName fs.next] := by
    intro e; have := congrArg List.length e; simp at this
  have h2 : cache ++ [dIndex] ≠ addrPath cache a (Bytes.hex (cfg.H a data)) := by
    intro e; have := congrArg List.length e; rw [addrPath_length] at this; simp at this
  rcases hfr _ h1 h2 with g | ⟨_, _, g | g⟩
  · exact g
  · exact absurd g (area_sep dIndex_ne_dTmp hi (inArea_tmpDir cache))
  · exact absurd g (area_sep dIndex_ne_dContent hi (inArea_parent_addr cache _ _))

theorem putFrame_cacheDir {fs fs' : FS} {a : Algo} {data : Bytes}
    (hp : PutFrame cfg cache fs fs' a data) (hr : RootedAt cache fs') : fs'.isDir cache = true :=
  rooted_dir_of_below hr (cache_prefix_addr cache a _) (addr_ne_cache cache a _)
    (by rw [hp.1]; intro e; cases e)

theorem isDir_congr {fs fs' : FS} {p : Path} (h : fs'.get p = fs.get p) : fs'.isDir p = fs.isDir p := by
  cases p with
  | nil => rfl
  | cons x xs => simp [FS.isDir, h]

/-- Two keys share a bucket file: their SHA-1 digests print alike. -/
abbrev SameBucket (k key : Bytes) : Prop := keyHex cfg k = keyHex cfg key

theorem bucketPath_eq_iff (k key : Bytes) :
    bucketPath cfg cache k = bucketPath cfg cache key ↔ SameBucket cfg k key := by
  constructor
  · intro e
    have e' := List.append_cancel_left e
    simp only [List.cons.injEq, and_true, true_and] at e'
    obtain ⟨h1, h2, h3⟩ := e'
    have := recombine (keyHex cfg k)
    rw [h1, h2, h3, recombine] at this
    exact this.symm
  · intro e; unfold bucketPath; simp only []; rw [e]

theorem sameBucket_iff_sha1 (k key : Bytes) :
    SameBucket cfg k key ↔ cfg.H .sha1 k = cfg.H .sha1 key :=
  ⟨fun e => Bytes.hex_injective e, fun e => by unfold SameBucket keyHex; rw [e]⟩

/-- Buckets after an insertion. -/
theorem insert_buckets (env : Env) (key : Bytes) (o : WriteOpts) (fs : FS)
    (hI : HealthyIndex cfg cache fs) (k : Bytes) :
    ((run env (insert cfg cache key o) fs).2.1.get (bucketPath cfg cache k)).isSome =
      if SameBucket cfg k key then true else (fs.get (bucketPath cfg cache k)).isSome := by
  obtain ⟨-, hbk, hoth⟩ := run_insert cfg cache env key o fs hI
  by_cases e : bucketPath cfg cache k = bucketPath cfg cache key
  · rw [if_pos ((bucketPath_eq_iff cfg cache k key).mp e), e, hbk]; rfl
  · rw [if_neg (fun x => e ((bucketPath_eq_iff cfg cache k key).mpr x))]
    rcases hoth _ e with g | ⟨_, _, g⟩
    · rw [g]
    · exact absurd g (Refine.bucket_not_prefix_parent cfg cache key k)

/-- After an insertion into a tidy cache the index directory and the cache directory exist. -/
theorem insert_dirs (env : Env) (key : Bytes) (o : WriteOpts) (fs : FS)
    (hI : HealthyIndex cfg cache fs)
    (hT : Tidy cfg cache (run env (insert cfg cache key o) fs).2.1) :
    (run env (insert cfg cache key o) fs).2.1.isDir (cache ++ [dIndex]) = true ∧
    (run env (insert cfg cache key o) fs).2.1.isDir cache = true := by
  obtain ⟨-, hbk, -⟩ := run_insert cfg cache env key o fs hI
  have hs : (run env (insert cfg cache key o) fs).2.1.get (bucketPath cfg cache key) ≠ none := by
    rw [hbk]; intro e; cases e
  have hne : bucketPath cfg cache key ≠ cache ++ [dIndex] := by
    intro e; have := congrArg List.length e; rw [bucket_length] at this; simp at this
  have hne2 : bucketPath cfg cache key ≠ cache := by
    intro e; have := congrArg List.length e; rw [bucket_length] at this; omega
  exact ⟨rooted_dir_of_below (hT.rootT dIndex top3_index) (bucket_inIndex cfg cache key) hne hs,
    rooted_dir_of_below hT.rootC (prefix_bucketPath cfg cache key) hne2 hs⟩


/-! ### the extended abstract state -/

/-- The abstract state of the extended refinement: the abstract cache, plus the three facts about
directories and files that the answers of `clear`, `ls` and `remove_fully` depend on — does the
cache directory exist (`clear` of a missing directory fails with NotFound), does `index-v5` exist
(`ls` of a missing index directory yields one NotFound item), does the key's bucket file exist
(`remove_fully` of a key without bucket file fails with NotFound). -/
structure XAbs where
  cache : AbsCache
  cacheDir : Bool
  indexDir : Bool
  bucket : Bytes → Bool

def absX (fs : FS) : XAbs :=
  { cache := absCache cfg cache fs, cacheDir := fs.isDir cache, indexDir := fs.isDir (cache ++ [dIndex]), bucket := fun k => (fs.get (bucketPath cfg cache k)).isSome }

/-- Content was written: the cache directory exists now. -/
def XAbs.wrote (m : XAbs) (c : AbsCache) : XAbs :=
  { cache := c, cacheDir := true, indexDir := m.indexDir, bucket := m.bucket }

/-- A record was appended for `key`: the cache and index directories and the bucket file of
`key` (shared with every key of the same SHA-1) exist now. -/
def XAbs.indexed (m : XAbs) (c : AbsCache) (key : Bytes) : XAbs :=
  { cache := c, cacheDir := true, indexDir := true, bucket := fun k => if SameBucket cfg k key then true else m.bucket k }

def XAbs.kept (m : XAbs) (c : AbsCache) : XAbs :=
  { cache := c, cacheDir := m.cacheDir, indexDir := m.indexDir, bucket := m.bucket }

theorem absX_kept {fs fs' : FS}
    (hb : ∀ k, fs'.get (bucketPath cfg cache k) = fs.get (bucketPath cfg cache k))
    (hi : fs'.get (cache ++ [dIndex]) = fs.get (cache ++ [dIndex]))
    (hc : fs'.isDir cache = fs.isDir cache) :
    absX cfg cache fs' = (absX cfg cache fs).kept (absCache cfg cache fs') := by
  unfold absX XAbs.kept
  simp only [hc, isDir_congr hi, hb]

theorem absX_wrote {fs fs' : FS}
    (hb : ∀ k, fs'.get (bucketPath cfg cache k) = fs.get (bucketPath cfg cache k))
    (hi : fs'.get (cache ++ [dIndex]) = fs.get (cache ++ [dIndex]))
    (hc : fs'.isDir cache = true) :
    absX cfg cache fs' = (absX cfg cache fs).wrote (absCache cfg cache fs') := by
  unfold absX XAbs.wrote
  simp only [hc, isDir_congr hi, hb]

theorem absX_indexed {fs fs' : FS} {key : Bytes}
    (hb : ∀ k, (fs'.get (bucketPath cfg cache k)).isSome =
      if SameBucket cfg k key then true else (fs.get (bucketPath cfg cache k)).isSome)
    (hi : fs'.isDir (cache ++ [dIndex]) = true) (hc : fs'.isDir cache = true) :
    absX cfg cache fs' = (absX cfg cache fs).indexed cfg (absCache cfg cache fs') key := by
  unfold absX XAbs.indexed
  simp only [hc, hi, hb]

theorem absX_same (fs : FS) : absX cfg cache fs = (absX cfg cache fs).kept (absCache cfg cache fs) := rfl

/-- The flags after an operation of `COp`. -/
def copFlags (m : XAbs) (c : AbsCache) : COp → XAbs
  | .put _ key o chunks =>
    match declCheck o chunks.flatten.length (Sri.compute cfg.H (o.algo.getD .sha256) chunks.flatten) with
    | .error _ => m.wrote c
    | .ok _ => m.indexed cfg c key
  | .get _ => m.kept c
  | .index (.ins key _) => m.indexed cfg c key
  | .index (.del key) => m.indexed cfg c key
  | .index (.look _) => m.kept c
  | .addr (.put _ _ _) => m.wrote c
  | .addr _ => m.kept c

/-- A keyed write is a content publication followed — if the declarations hold — by an
insertion of well-formed options. -/
theorem putKeyed_decomp (env : Env) (fl : Flavour) (key : Bytes) (o : WriteOpts) (chunks : List Bytes)
    (fs : FS) (h : Healthy cfg cache fs) (hl : HexLen cfg) (hw : PutWF key o chunks) :
    ∃ fs3, PutFrame cfg cache fs fs3 (o.algo.getD .sha256) chunks.flatten ∧
      match declCheck o chunks.flatten.length (Sri.compute cfg.H (o.algo.getD .sha256) chunks.flatten) with
      | .error _ => (run env (writeStream cfg cache fl (some key) o chunks) fs).2.1 = fs3
      | .ok recorded =>
        (run env (writeStream cfg cache fl (some key) o chunks) fs).2.1 =
          (run env (insert cfg cache key { o with sri := some recorded, size := some (o.size.getD chunks.flatten.length) }) fs3).2.1 ∧
        OptsWF key { o with sri := some recorded, size := some (o.size.getD chunks.flatten.length) } ∧
        SriOK cfg { o with sri := some recorded, size := some (o.size.getD chunks.flatten.length) } := by
  obtain ⟨w, fs3, _, e2, hc, hk, ho, hwr, hp⟩ :=
    run_writeStream_phase cfg cache env fl (some key) o chunks fs h.store hl
  refine ⟨fs3, hp, ?_⟩
  rw [e2]
  unfold commitTail
  rw [commitChecks_eq, ho, hwr]
  cases hck : declCheck o chunks.flatten.length (Sri.compute cfg.H (o.algo.getD .sha256) chunks.flatten) with
  | error e => rfl
  | ok recorded =>
    have hrec : recorded = Sri.compute cfg.H (o.algo.getD .sha256) chunks.flatten :=
      declCheck_ok_none hw.nosri hck
    have hsz : o.size.getD chunks.flatten.length ≤ Rec.u64Max := by
      cases hs : o.size with
      | none => exact hw.len
      | some n => exact hw.opts.size n hs
    simp only [wcommitIndex, hk, hc, ho, hwr]
    refine ⟨trivial, ?_, Or.inr ⟨_, _, by rw [hrec]⟩⟩
    rw [hrec]
    exact (hw.opts.with_computed cfg.H _ _).with_size _ hsz


/-! ### every operation of `COp` keeps the cache tidy and moves the flags as `copFlags` says -/

theorem insert_ext (env : Env) (key : Bytes) (o : WriteOpts) (fs : FS)
    (hI : HealthyIndex cfg cache fs) (hT : Tidy cfg cache fs) (hw : OptsWF key o) (hs : SriOK cfg o) :
    Tidy cfg cache (run env (insert cfg cache key o) fs).2.1 ∧
    absX cfg cache (run env (insert cfg cache key o) fs).2.1 =
      (absX cfg cache fs).indexed cfg (absCache cfg cache (run env (insert cfg cache key o) fs).2.1) key := by
  have hT' : Tidy cfg cache (run env (insert cfg cache key o) fs).2.1 :=
    tidy_run cfg cache env _ (insert_safe cfg cache cache key o) fs hT
      (shape_moves cfg cache hT.shape (moves_insert cfg cache env key o fs hI))
      (recsOK_insert cfg cache env key o fs hI hT.recs hw hs)
  obtain ⟨d1, d2⟩ := insert_dirs cfg cache env key o fs hI hT'
  exact ⟨hT', absX_indexed cfg cache (insert_buckets cfg cache env key o fs hI) d1 d2⟩

theorem putFrame_ext {α : Type} (env : Env) (p : Prog α) (hp : AllCalls (SafeCall cache) p) (fs : FS)
    (hT : Tidy cfg cache fs) {a : Algo} {data : Bytes}
    (hF : PutFrame cfg cache fs (run env p fs).2.1 a data) :
    Tidy cfg cache (run env p fs).2.1 ∧
    absX cfg cache (run env p fs).2.1 = (absX cfg cache fs).wrote (absCache cfg cache (run env p fs).2.1) := by
  have hT' : Tidy cfg cache (run env p fs).2.1 :=
    tidy_run cfg cache env p hp fs hT (shape_moves cfg cache hT.shape (moves_putFrame cfg cache hF))
      (recsOK_of_buckets cfg cache hT.recs (fun k => Or.inl (putFrame_buckets cfg cache hF k)))
  exact ⟨hT', absX_wrote cfg cache (putFrame_buckets cfg cache hF) (putFrame_indexDir cfg cache hF)
    (putFrame_cacheDir cfg cache hF hT'.rootC)⟩

theorem putKeyed_ext (env : Env) (fl : Flavour) (key : Bytes) (o : WriteOpts) (chunks : List Bytes)
    (fs : FS) (h : Healthy cfg cache fs) (hl : HexLen cfg) (hw : PutWF key o chunks)
    (hT : Tidy cfg cache fs) :
    Tidy cfg cache (run env (writeStream cfg cache fl (some key) o chunks) fs).2.1 ∧
    absX cfg cache (run env (writeStream cfg cache fl (some key) o chunks) fs).2.1 =
      copFlags cfg (absX cfg cache fs)
        (absCache cfg cache (run env (writeStream cfg cache fl (some key) o chunks) fs).2.1)
        (.put fl key o chunks) := by
  obtain ⟨fs3, hp, hdec⟩ := putKeyed_decomp cfg cache env fl key o chunks fs h hl hw
  have hsafe := writeStream_safe cfg cache fl (some key) o chunks
  unfold copFlags
  cases hck : declCheck o chunks.flatten.length (Sri.compute cfg.H (o.algo.getD .sha256) chunks.flatten) with
  | error e =>
    simp only [hck] at hdec ⊢
    rw [← hdec] at hp
    exact putFrame_ext cfg cache env _ hsafe fs hT hp
  | ok recorded =>
    simp only [hck] at hdec ⊢
    obtain ⟨hfs, hwf, hsri⟩ := hdec
    obtain ⟨hI3, _⟩ := putFrame_index cfg cache h.index hp
    have hS3 : Shape cfg cache fs3 := shape_moves cfg cache hT.shape (moves_putFrame cfg cache hp)
    have hR3 : RecsOK cfg cache fs3 :=
      recsOK_of_buckets cfg cache hT.recs (fun k => Or.inl (putFrame_buckets cfg cache hp k))
    have hT' : Tidy cfg cache (run env (writeStream cfg cache fl (some key) o chunks) fs).2.1 := by
      apply tidy_run cfg cache env _ hsafe fs hT
      · rw [hfs]; exact shape_moves cfg cache hS3 (moves_insert cfg cache env key _ fs3 hI3)
      · rw [hfs]; exact recsOK_insert cfg cache env key _ fs3 hI3 hR3 hwf hsri
    refine ⟨hT', ?_⟩
    have hT'' := hT'
    rw [hfs] at hT'' ⊢
    obtain ⟨d1, d2⟩ := insert_dirs cfg cache env key _ fs3 hI3 hT''
    apply absX_indexed cfg cache _ d1 d2
    intro k
    rw [insert_buckets cfg cache env key _ fs3 hI3 k, putFrame_buckets cfg cache hp k]

theorem drop_ext {α : Type} (env : Env) (p : Prog α) (hp : AllCalls (SafeCall cache) p) (fs : FS)
    (hT : Tidy cfg cache fs) {a : Algo} {hx : Bytes}
    (hg : ∀ q, (run env p fs).2.1.get q = if q = addrPath cache a hx then none else fs.get q) :
    Tidy cfg cache (run env p fs).2.1 ∧
    absX cfg cache (run env p fs).2.1 = (absX cfg cache fs).kept (absCache cfg cache (run env p fs).2.1) := by
  have hb : ∀ k, (run env p fs).2.1.get (bucketPath cfg cache k) = fs.get (bucketPath cfg cache k) := by
    intro k; rw [hg, if_neg (bucket_ne_addr cfg cache k a hx)]
  refine ⟨tidy_run cfg cache env p hp fs hT (shape_moves cfg cache hT.shape (moves_drop cfg cache hg))
    (recsOK_of_buckets cfg cache hT.recs (fun k => Or.inl (hb k))), absX_kept cfg cache hb ?_ ?_⟩
  · rw [hg, if_neg]
    intro e; have := congrArg List.length e; rw [addrPath_length] at this; simp at this
  · apply isDir_congr
    rw [hg, if_neg (addr_ne_cache cache a hx).symm]

theorem cRunOp_ext (env : Env) (op : COp) (fs : FS) (h : Healthy cfg cache fs) (hl : HexLen cfg)
    (hop : op.WF cfg) (hT : Tidy cfg cache fs) :
    Tidy cfg cache (cRunOp cfg cache env op fs).2 ∧
    absX cfg cache (cRunOp cfg cache env op fs).2 =
      copFlags cfg (absX cfg cache fs) (absCache cfg cache (cRunOp cfg cache env op fs).2) op := by
  cases op with
  | put fl key o chunks => exact putKeyed_ext cfg cache env fl key o chunks fs h hl hop hT
  | get key =>
    simp only [cRunOp, (run_read cfg cache env key fs h).2, copFlags]
    exact ⟨hT, rfl⟩
  | index iop =>
    cases iop with
    | ins key o => exact insert_ext cfg cache env key o fs h.index hT hop.1 hop.2
    | del key =>
      simp only [cRunOp, runOp, (run_delete cfg cache env key fs).1, copFlags]
      exact insert_ext cfg cache env key {} fs h.index hT (optsWF_default hop) (sriOK_default cfg)
    | look key =>
      simp only [cRunOp, runOp, (run_find cfg cache env key fs h.index).2, copFlags]
      exact ⟨hT, rfl⟩
  | addr sop =>
    cases sop with
    | put fl o chunks =>
      exact putFrame_ext cfg cache env _ (writeStream_safe cfg cache fl none o chunks) fs hT
        (run_putStream cfg cache env fl o chunks fs h.store hl).2
    | get sri =>
      simp only [cRunOp, sRunOp, (run_readHash cfg cache env sri fs h.store).2, copFlags]
      exact ⟨hT, rfl⟩
    | has sri =>
      simp only [cRunOp, sRunOp, (run_existsHash cfg cache env sri fs h.store).2, copFlags]
      exact ⟨hT, rfl⟩
    | drop sri =>
      have h2 := (run_removeHash cfg cache env sri fs h.store).2
      simp only [cRunOp, sRunOp, copFlags]
      cases e : addrOf sri with
      | none =>
        rw [e] at h2
        simp only at h2
        rw [h2]
        exact ⟨hT, rfl⟩
      | some x =>
        obtain ⟨a, hx⟩ := x
        rw [e] at h2
        exact drop_ext cfg cache env _ (removeHash_safe cache sri) fs hT h2


/-! ### `remove_fully` -/

/-- The content step of a full removal: unlink the content of the key's current entry, if any. -/
def contentProg (mo : Option Meta) : Prog (Res Unit) :=
  match mo with
  | some m => removeHash cache m.sri
  | none => .done (.ok ())

/-- … and what it does to the abstract store and answers. -/
def contentSpec (st : AbsStore) (mo : Option Meta) : AbsStore × Res Unit :=
  match mo with
  | some m => dropSpec st m.sri
  | none => (st, .ok ())

/-- The bucket step of a full removal: unlink the key's bucket file. -/
def dropBucket (key : Bytes) : Prog (Res Unit) :=
  Prog.bind (call (.unlink (bucketPath cfg cache key))) (fun x =>
    match x with
    | .err e => (.done (.error (.io e)) : Prog (Res Unit))
    | _ => .done (.ok ()))

theorem removeFully_eq (key : Bytes) :
    removeFully cfg cache key =
      Prog.bind (find cfg cache key) (fun r =>
        match r with
        | .error e => .done (.error e)
        | .ok mo => Prog.bind (contentProg cache mo) (fun c =>
            match c with
            | .error (.io .notFound) => dropBucket cfg cache key
            | .error e => .done (.error e)
            | .ok () => dropBucket cfg cache key)) := by
  unfold removeFully dropBucket contentProg
  rfl

theorem contentProg_step (env : Env) (fs : FS) (h : Healthy cfg cache fs) (hl : HexLen cfg)
    (mo : Option Meta) :
    (run env (contentProg cache mo) fs).1 = (contentSpec (absStore cache fs) mo).2 ∧
    absStore cache (run env (contentProg cache mo) fs).2.1 = (contentSpec (absStore cache fs) mo).1 ∧
    Healthy cfg cache (run env (contentProg cache mo) fs).2.1 ∧
    absIndex cfg cache (run env (contentProg cache mo) fs).2.1 = absIndex cfg cache fs ∧
    (∀ k, (run env (contentProg cache mo) fs).2.1.get (bucketPath cfg cache k) = fs.get (bucketPath cfg cache k)) ∧
    (run env (contentProg cache mo) fs).2.1.get (cache ++ [dIndex]) = fs.get (cache ++ [dIndex]) ∧
    (run env (contentProg cache mo) fs).2.1.isDir cache = fs.isDir cache ∧
    (∀ q, (run env (contentProg cache mo) fs).2.1.get q = fs.get q ∨
      (run env (contentProg cache mo) fs).2.1.get q = none) := by
  cases mo with
  | none => exact ⟨rfl, rfl, h, rfl, fun _ => rfl, rfl, rfl, fun _ => Or.inl rfl⟩
  | some m =>
    obtain ⟨s1, s2, s3⟩ := sRunOp_refines cfg cache env (.drop m.sri) fs h.store hl
    obtain ⟨i1, i2⟩ := addrOp_index cfg cache env (.drop m.sri) fs h hl
    have h2 := (run_removeHash cfg cache env m.sri fs h.store).2
    simp only [sRunOp, sSpecStep, SOut.dropped.injEq] at s1 s2 s3 i1 i2
    refine ⟨s1, s2, ⟨i1, s3⟩, i2, ?_⟩
    simp only [contentProg]
    cases e : addrOf m.sri with
    | none =>
      rw [e] at h2
      simp only at h2
      rw [h2]
      exact ⟨fun _ => rfl, rfl, rfl, fun _ => Or.inl rfl⟩
    | some x =>
      obtain ⟨a, hx⟩ := x
      rw [e] at h2
      simp only at h2
      refine ⟨?_, ?_, ?_, ?_⟩
      · intro k; rw [h2, if_neg (bucket_ne_addr cfg cache k a hx)]
      · rw [h2, if_neg]
        intro e; have := congrArg List.length e; rw [addrPath_length] at this; simp at this
      · apply isDir_congr; rw [h2, if_neg (addr_ne_cache cache a hx).symm]
      · intro q; rw [h2]; split
        · exact Or.inr rfl
        · exact Or.inl rfl

theorem dropBucket_step (env : Env) (key : Bytes) (fs : FS) (hI : HealthyIndex cfg cache fs) :
    (run env (dropBucket cfg cache key) fs).1 =
      (if (fs.get (bucketPath cfg cache key)).isSome then .ok () else .error (.io .notFound)) ∧
    ∀ q, (run env (dropBucket cfg cache key) fs).2.1.get q =
      if q = bucketPath cfg cache key then none else fs.get q := by
  unfold dropBucket
  simp only [call, bind_sys, bind_done, run_sys_res, run_sys_fs, exec]
  rcases hI.buckets key with hn | ⟨b, hb, _⟩
  · rw [hn]
    refine ⟨rfl, ?_⟩
    intro q
    show fs.get q = _
    split
    · rename_i e; rw [e, hn]
    · rfl
  · rw [hb]
    exact ⟨rfl, fun q => FS.get_del _ _ _⟩

/-- What the removal of a bucket file does to a healthy cache. -/
theorem bucketGone_facts {fs fs' : FS} {key : Bytes} (h : Healthy cfg cache fs)
    (hg : ∀ q, fs'.get q = if q = bucketPath cfg cache key then none else fs.get q) :
    Healthy cfg cache fs' ∧
    absIndex cfg cache fs' = (fun k => if SameBucket cfg k key then none else absIndex cfg cache fs k) ∧
    absStore cache fs' = absStore cache fs ∧
    (∀ k, (fs'.get (bucketPath cfg cache k)).isSome =
      if SameBucket cfg k key then false else (fs.get (bucketPath cfg cache k)).isSome) ∧
    fs'.get (cache ++ [dIndex]) = fs.get (cache ++ [dIndex]) ∧ fs'.isDir cache = fs.isDir cache := by
  have hb : ∀ k, fs'.get (bucketPath cfg cache k) =
      if SameBucket cfg k key then none else fs.get (bucketPath cfg cache k) := by
    intro k
    rw [hg]
    by_cases e : bucketPath cfg cache k = bucketPath cfg cache key
    · rw [if_pos e, if_pos ((bucketPath_eq_iff cfg cache k key).mp e)]
    · rw [if_neg e, if_neg (fun x => e ((bucketPath_eq_iff cfg cache k key).mpr x))]
  have haddr : ∀ a hx, fs'.get (addrPath cache a hx) = fs.get (addrPath cache a hx) := by
    intro a hx; rw [hg, if_neg (bucket_ne_addr cfg cache key a hx).symm]
  refine ⟨⟨⟨?_, ?_⟩, ?_⟩, ?_, ?_, ?_, ?_, ?_⟩
  · intro k q hq hp
    unfold NoneOrDir
    rw [hg, if_neg]
    · exact h.index.dirs k q hq hp
    · intro e; subst e; exact Refine.bucket_not_prefix_parent cfg cache k key hp
  · intro k
    rw [hb]
    split
    · exact Or.inl rfl
    · exact h.index.buckets k
  · apply h.store.step
    · intro a hx _; exact Or.inl (haddr a hx)
    · intro q hq
      left
      rw [hg, if_neg]
      intro e; subst e
      rcases hq with hq | ⟨a, hx, hq⟩
      · exact bucket_not_prefix_tmpDir cfg cache key hq
      · exact bucket_not_prefix_parent_addr cfg cache key _ _ hq
  · funext k
    unfold absIndex
    rw [hb]
    by_cases e : SameBucket cfg k key
    · rw [if_pos e, if_pos e]
    · rw [if_neg e, if_neg e]
  · funext a hx
    unfold absStore
    rw [haddr]
  · intro k; rw [hb]; split <;> rfl
  · rw [hg, if_neg]
    intro e; have := congrArg List.length e; rw [bucket_length] at this; simp at this
  · apply isDir_congr
    rw [hg, if_neg]
    intro e; have := congrArg List.length e; rw [bucket_length] at this; omega


/-- Does the full removal go on to the bucket after the content step answered `r`?  Yes after
success and after NotFound ("content already gone: the entry still has to go"); any other error
ends the operation. -/
def goesOn : Res Unit → Bool
  | .error (.io .notFound) => true
  | .error _ => false
  | .ok () => true

theorem removeTail_eq (key : Bytes) (c : Res Unit) :
    (match c with
      | .error (.io .notFound) => dropBucket cfg cache key
      | .error e => .done (.error e)
      | .ok () => dropBucket cfg cache key) =
    if goesOn c then dropBucket cfg cache key else .done c := by
  rcases c with (e | ⟨⟩)
  · cases e with
    | io k => cases k <;> rfl
    | _ => rfl
  · rfl

def XAbs.withStore (m : XAbs) (st : AbsStore) : XAbs :=
  { cache := { index := m.cache.index, store := st }, cacheDir := m.cacheDir, indexDir := m.indexDir, bucket := m.bucket }

/-- The bucket step of a full removal, abstractly: if the key's bucket file exists it is unlinked —
the key **and every key sharing its bucket (same SHA-1)** is no longer indexed; otherwise the
`unlink` fails with NotFound and nothing changes. -/
def bucketSpec (m : XAbs) (key : Bytes) : XAbs × Res Unit :=
  if m.bucket key then
    ({ cache := { index := fun k => if SameBucket cfg k key then none else m.cache.index k, store := m.cache.store }, cacheDir := m.cacheDir, indexDir := m.indexDir, bucket := fun k => if SameBucket cfg k key then false else m.bucket k }, .ok ())
  else (m, .error (.io .notFound))

/-- **`remove_fully key`, abstractly**: drop the address of the key's current entry from the store
(`CacheRefine.dropSpec`: nothing to do if the key has no entry; NotFound if the content is already
gone; a panic if the recorded integrity has no usable address), then — unless that failed with
something other than NotFound — the bucket step. -/
def removeFullySpec (m : XAbs) (key : Bytes) : XAbs × Res Unit :=
  if goesOn (contentSpec m.cache.store (m.cache.index key)).2 then
    bucketSpec cfg (m.withStore (contentSpec m.cache.store (m.cache.index key)).1) key
  else (m.withStore (contentSpec m.cache.store (m.cache.index key)).1,
        (contentSpec m.cache.store (m.cache.index key)).2)

theorem dropBucket_absent (env : Env) (key : Bytes) (fs : FS)
    (hn : fs.get (bucketPath cfg cache key) = none) :
    (run env (dropBucket cfg cache key) fs).2.1 = fs := by
  unfold dropBucket
  simp only [call, bind_sys, bind_done, run_sys_fs, exec, hn]
  rfl

/-- **Total correctness of `remove_fully` on a healthy, tidy cache**, and refinement of
`removeFullySpec`. -/
theorem removeFully_refines (env : Env) (key : Bytes) (fs : FS) (h : Healthy cfg cache fs)
    (hl : HexLen cfg) (hT : Tidy cfg cache fs) :
    (run env (removeFully cfg cache key) fs).1 = (removeFullySpec cfg (absX cfg cache fs) key).2 ∧
    absX cfg cache (run env (removeFully cfg cache key) fs).2.1 =
      (removeFullySpec cfg (absX cfg cache fs) key).1 ∧
    Healthy cfg cache (run env (removeFully cfg cache key) fs).2.1 ∧
    Tidy cfg cache (run env (removeFully cfg cache key) fs).2.1 := by
  obtain ⟨f1, f2⟩ := run_find cfg cache env key fs h.index
  obtain ⟨c1, c2, c3, c4, c5, c6, c7, c8⟩ :=
    contentProg_step cfg cache env fs h hl (absIndex cfg cache fs key)
  have hres : (run env (removeFully cfg cache key) fs).1 =
      (run env (if goesOn (contentSpec (absStore cache fs) (absIndex cfg cache fs key)).2
          then dropBucket cfg cache key
          else .done (contentSpec (absStore cache fs) (absIndex cfg cache fs key)).2)
        (run env (contentProg cache (absIndex cfg cache fs key)) fs).2.1).1 := by
    rw [removeFully_eq]
    simp only [run_bind_res, f1, f2, removeTail_eq, c1]
  have hfs : (run env (removeFully cfg cache key) fs).2.1 =
      (run env (if goesOn (contentSpec (absStore cache fs) (absIndex cfg cache fs key)).2
          then dropBucket cfg cache key
          else .done (contentSpec (absStore cache fs) (absIndex cfg cache fs key)).2)
        (run env (contentProg cache (absIndex cfg cache fs key)) fs).2.1).2.1 := by
    rw [removeFully_eq]
    simp only [run_bind_fs, f1, f2, removeTail_eq, c1]
  -- the state after the content step, abstractly
  have hX1 : absX cfg cache (run env (contentProg cache (absIndex cfg cache fs key)) fs).2.1 =
      (absX cfg cache fs).withStore (contentSpec (absStore cache fs) (absIndex cfg cache fs key)).1 := by
    rw [absX_kept cfg cache c5 c6 c7]
    simp only [XAbs.kept, XAbs.withStore, absCache, c4, c2, absX]
  have tidyOf : ∀ fs2, fs2 = (run env (removeFully cfg cache key) fs).2.1 →
      (∀ q, fs2.get q = fs.get q ∨ fs2.get q = none) → Tidy cfg cache fs2 := by
    intro fs2 e hm
    subst e
    apply tidy_run cfg cache env _ (removeFully_safe cfg cache key) fs hT
    · apply shape_moves cfg cache hT.shape
      intro q
      rcases hm q with g | g
      · exact Or.inl g
      · exact Or.inr (Or.inl g)
    · exact recsOK_of_buckets cfg cache hT.recs (fun k => hm _)
  have hspec : removeFullySpec cfg (absX cfg cache fs) key =
      if goesOn (contentSpec (absStore cache fs) (absIndex cfg cache fs key)).2 then
        bucketSpec cfg ((absX cfg cache fs).withStore (contentSpec (absStore cache fs) (absIndex cfg cache fs key)).1) key
      else ((absX cfg cache fs).withStore (contentSpec (absStore cache fs) (absIndex cfg cache fs key)).1,
            (contentSpec (absStore cache fs) (absIndex cfg cache fs key)).2) := rfl
  rw [hspec, ← hX1]
  by_cases hgo : goesOn (contentSpec (absStore cache fs) (absIndex cfg cache fs key)).2 = true
  · rw [if_pos hgo] at hres hfs ⊢
    obtain ⟨d1, d2⟩ := dropBucket_step cfg cache env key _ c3.index
    unfold bucketSpec
    have hbk : (absX cfg cache (run env (contentProg cache (absIndex cfg cache fs key)) fs).2.1).bucket key =
        ((run env (contentProg cache (absIndex cfg cache fs key)) fs).2.1.get (bucketPath cfg cache key)).isSome := rfl
    rw [hbk]
    cases hb : ((run env (contentProg cache (absIndex cfg cache fs key)) fs).2.1.get
        (bucketPath cfg cache key)).isSome with
    | false =>
      have hn : (run env (contentProg cache (absIndex cfg cache fs key)) fs).2.1.get
          (bucketPath cfg cache key) = none := by
        cases hx : (run env (contentProg cache (absIndex cfg cache fs key)) fs).2.1.get
          (bucketPath cfg cache key) with
        | none => rfl
        | some n => rw [hx] at hb; cases hb
      have hsame := dropBucket_absent cfg cache env key _ hn
      rw [hb] at d1
      simp only [Bool.false_eq_true, if_false] at d1 ⊢
      rw [hres, hfs, hsame, d1]
      exact ⟨rfl, rfl, c3, tidyOf _ (by rw [hfs, hsame]) c8⟩
    | true =>
      rw [hb] at d1
      obtain ⟨g1, g2, g3, g4, g5, g6⟩ := bucketGone_facts cfg cache c3 d2
      simp only [if_true] at d1 ⊢
      rw [hres, hfs, d1]
      refine ⟨rfl, ?_, g1, ?_⟩
      · unfold absX absCache
        simp only [g2, g3, g6, isDir_congr g5]
        congr 1
        funext k
        exact g4 k
      · apply tidyOf _ (by rw [hfs])
        intro q
        rw [d2 q]
        split
        · exact Or.inr rfl
        · exact c8 q
  · rw [if_neg hgo] at hres hfs ⊢
    rw [hres, hfs]
    exact ⟨rfl, rfl, c3, tidyOf _ (by rw [hfs]) c8⟩


/-! ### `ls` -/

theorem run_bucketEntries_file (env : Env) {fs : FS} {p : Path} {b : Bytes} (hp : p ≠ [])
    (h : fs.get p = some (.file b)) :
    (run env (bucketEntries cfg p) fs).1 = .ok ((codec cfg).entries b) ∧
    (run env (bucketEntries cfg p) fs).2.1 = fs := by
  unfold bucketEntries
  simp only [bind_eq, pure_eq, call, bind_sys, bind_done, run_sys_res, run_sys_fs, exec]
  rw [readFile_of_file hp h]
  exact ⟨rfl, rfl⟩

/-- The items `ls` yields for the bucket file at `p`. -/
def itemsAt (fs : FS) (p : Path) : List LsItem :=
  ((codec cfg).lsOf ((codec cfg).entries (bytesAt fs p))).filterMap
    (fun | .live m => some (.entry m) | _ => none)

theorem itemsAt_eq (fs : FS) (p : Path) :
    itemsAt cfg fs p = (C10.listed (codec cfg) ((codec cfg).entries (bytesAt fs p))).map LsItem.entry := by
  unfold itemsAt C10.listed
  rw [List.map_filterMap]
  congr 1
  funext x
  cases x <;> rfl

theorem run_lsBuckets (env : Env) (fs : FS) (es : List (Path × Bool))
    (h : ∀ e ∈ es, e.2 = false → e.1 ≠ [] ∧ ∃ b, fs.get e.1 = some (.file b)) :
    (run env (lsBuckets cfg es) fs).1 =
      (es.filter (fun e => !e.2)).flatMap (fun e => itemsAt cfg fs e.1) ∧
    (run env (lsBuckets cfg es) fs).2.1 = fs := by
  induction es with
  | nil => exact ⟨rfl, rfl⟩
  | cons e es ih =>
    obtain ⟨p, f⟩ := e
    obtain ⟨i1, i2⟩ := ih (fun e he => h e (List.mem_cons_of_mem _ he))
    cases f with
    | true =>
      unfold lsBuckets
      exact ⟨by rw [i1]; rfl, i2⟩
    | false =>
      obtain ⟨hp, b, hb⟩ := h (p, false) List.mem_cons_self rfl
      have hp : p ≠ [] := hp
      have hb : fs.get p = some (.file b) := hb
      obtain ⟨b1, b2⟩ := run_bucketEntries_file cfg env hp hb
      unfold lsBuckets
      simp only [bind_eq, pure_eq, run_bind_res, run_bind_fs, b1, b2, i1, i2, run_done_res, run_done_fs]
      refine ⟨?_, trivial⟩
      simp only [List.filter_cons, Bool.not_false, if_true, List.flatMap_cons]
      congr 1
      unfold itemsAt bytesAt
      rw [hb]
      rfl

theorem cls_live_key {r : Rec} {m : Meta} (h : (codec cfg).cls r = .live m) : m.key = (codec cfg).key r := by
  simp only [codec, Rec.codec, Rec.cls] at h ⊢
  split at h
  · cases h
  · split at h
    · cases h; rfl
    · cases h

theorem foldl_findStep_key (k : Bytes) (rs : List Rec) (acc : Option Meta)
    (ha : ∀ m, acc = some m → m.key = k) (m : Meta)
    (hm : rs.foldl ((codec cfg).findStep k) acc = some m) : m.key = k := by
  induction rs generalizing acc with
  | nil => exact ha m hm
  | cons r rs ih =>
    simp only [List.foldl_cons] at hm
    refine ih _ ?_ hm
    intro m' hm'
    unfold Codec.findStep at hm'
    split at hm'
    · rename_i hk
      split at hm'
      · rename_i m'' hc
        cases hm'
        rw [cls_live_key cfg hc, hk]
      · cases hm'
      · exact ha m' hm'
    · exact ha m' hm'

/-- A lookup only ever returns an entry of the key that was asked for. -/
theorem findIn_key (k : Bytes) (rs : List Rec) (m : Meta) (h : (codec cfg).findIn k rs = some m) :
    m.key = k :=
  foldl_findStep_key cfg k rs none (fun m hm => by cases hm) m h

theorem absIndex_key {fs : FS} {k : Bytes} {m : Meta} (h : absIndex cfg cache fs k = some m) : m.key = k := by
  unfold absIndex at h
  split at h
  · exact findIn_key cfg k _ m h
  · cases h

/-- Keys of listed entries are distinct. -/
theorem listed_keys_nodup (rs : List Rec) :
    ((C10.listed (codec cfg) rs).map (fun m => m.key)).Nodup := by
  unfold C10.listed Codec.lsOf
  have hn := C10.ls_keys_nodup (codec cfg) rs
  generalize dedupKey (codec cfg).key ((codec cfg).listable rs).reverse = D at hn
  induction D with
  | nil => simp
  | cons r D ih =>
    simp only [List.map_cons, List.nodup_cons] at hn
    have ih' := ih hn.2
    simp only [List.map_cons, List.filterMap_cons]
    cases hc : (codec cfg).cls r with
    | tomb => simpa using ih'
    | bad => simpa using ih'
    | live m =>
      simp only [List.map_cons, List.nodup_cons]
      refine ⟨?_, ih'⟩
      intro hm
      obtain ⟨m', hm', hk⟩ := List.mem_map.mp hm
      obtain ⟨cl, hcl, hl⟩ := List.mem_filterMap.mp hm'
      obtain ⟨r', hr', rfl⟩ := List.mem_map.mp hcl
      have hc' : (codec cfg).cls r' = .live m' := by
        cases hx : (codec cfg).cls r' <;> simp [hx] at hl
        subst hl; rfl
      apply hn.1
      apply List.mem_map.mpr
      refine ⟨r', hr', ?_⟩
      rw [← cls_live_key cfg hc', ← cls_live_key cfg hc]
      exact hk

theorem nodup_flatMap_keys {α β γ : Type} (F : List α) (f : α → List β) (K : β → γ) (B : γ → α)
    (hF : F.Nodup) (h1 : ∀ q ∈ F, ((f q).map K).Nodup) (h2 : ∀ q ∈ F, ∀ m ∈ f q, B (K m) = q) :
    ((F.flatMap f).map K).Nodup := by
  induction F with
  | nil => simp
  | cons q F ih =>
    rw [List.nodup_cons] at hF
    simp only [List.flatMap_cons, List.map_append]
    rw [List.nodup_append]
    refine ⟨h1 q List.mem_cons_self,
      ih hF.2 (fun x hx => h1 x (List.mem_cons_of_mem _ hx)) (fun x hx => h2 x (List.mem_cons_of_mem _ hx)), ?_⟩
    intro a ha b hb e
    obtain ⟨m, hm, rfl⟩ := List.mem_map.mp ha
    obtain ⟨m', hm', rfl⟩ := List.mem_map.mp hb
    obtain ⟨q', hq', hm''⟩ := List.mem_flatMap.mp hm'
    have e1 := h2 q List.mem_cons_self m hm
    have e2 := h2 q' (List.mem_cons_of_mem _ hq') m' hm''
    rw [e, e2] at e1
    exact hF.1 (e1 ▸ hq')


theorem mem_below_elim {fs : FS} {p q : Path} (h : q ∈ fs.below p) :
    p <+: q ∧ q ≠ p ∧ (fs.get q).isSome = true := by
  have h3 := FS.below_prefix fs p q h
  unfold FS.below at h
  have h4 := (List.mem_filter.mp (List.mem_eraseDups.mp h)).2
  simp only [Bool.and_eq_true, decide_eq_true_eq, beq_iff_eq] at h4
  refine ⟨h3, ?_, h4.2⟩
  intro e; rw [e] at h4; omega

/-- `items` lists exactly the live entries of the abstract index `idx`, once each: the items are
entries (no error item), their keys are pairwise distinct, and an entry is listed iff it is what
the index maps its key to — so there is one entry per live key, none for a removed or
never-written key, and each is identical to what `find` returns for its key. -/
def ListsIndex (idx : AbsIndex) (items : List LsItem) : Prop :=
  ∃ ms : List Meta, items = ms.map LsItem.entry ∧ (ms.map (fun m => m.key)).Nodup ∧
    ∀ m, m ∈ ms ↔ idx m.key = some m

/-- The bucket files the walk meets in the index area. -/
def bucketFiles (fs : FS) : List Path :=
  (fs.below (cache ++ [dIndex])).filter (fun q => !(fs.get q == some .dir))

theorem mem_bucketFiles {fs : FS} (h : Healthy cfg cache fs) (hT : Tidy cfg cache fs) {q : Path}
    (hq : q ∈ bucketFiles cache fs) :
    ∃ key b, q = bucketPath cfg cache key ∧ fs.get q = some (.file b) := by
  unfold bucketFiles at hq
  obtain ⟨h1, h2⟩ := List.mem_filter.mp hq
  obtain ⟨hp, hne, hs⟩ := mem_below_elim h1
  have hnd : fs.get q ≠ some .dir := by
    intro e; rw [e] at h2; simp at h2
  have hs' : fs.get q ≠ none := by intro e; rw [e] at hs; cases hs
  have hc : cache <+: q := (List.prefix_append _ _).trans hp
  have hne' : q ≠ cache := by
    intro e; have := hp.length_le; rw [e] at this; simp at this; omega
  rcases (hT.shape q hc hne' hs').2.2 hp with g | ⟨key, rfl⟩
  · exact absurd g hnd
  · rcases h.index.buckets key with g | ⟨b, g, _⟩
    · exact absurd g hs'
    · exact ⟨key, b, rfl, g⟩

theorem bucketFiles_nodup (fs : FS) : (bucketFiles cache fs).Nodup := by
  unfold bucketFiles FS.below
  exact List.Pairwise.filter _ (nodup_eraseDups _)

theorem bucket_mem_bucketFiles {fs : FS} (hT : Tidy cfg cache fs) {key : Bytes} {b : Bytes}
    (hb : fs.get (bucketPath cfg cache key) = some (.file b)) :
    bucketPath cfg cache key ∈ bucketFiles cache fs := by
  unfold bucketFiles
  apply List.mem_filter.mpr
  have hne : bucketPath cfg cache key ≠ cache := by
    intro e; have := congrArg List.length e; rw [bucket_length] at this; omega
  have hne2 : bucketPath cfg cache key ≠ cache ++ [dIndex] := by
    intro e; have := congrArg List.length e; rw [bucket_length] at this; simp at this
  refine ⟨mem_below (bucket_inIndex cfg cache key) hne2 (by rw [hb]; rfl)
    (hT.supp _ (prefix_bucketPath cfg cache key) hne (by rw [hb]; rfl)), ?_⟩
  rw [hb]; rfl

/-- What the listing collects, as entries. -/
def listedAll (fs : FS) : List Meta :=
  (bucketFiles cache fs).flatMap (fun q => C10.listed (codec cfg) ((codec cfg).entries (bytesAt fs q)))

theorem mem_listedAll {fs : FS} (h : Healthy cfg cache fs) (hT : Tidy cfg cache fs) (m : Meta) :
    m ∈ listedAll cfg cache fs ↔ absIndex cfg cache fs m.key = some m := by
  unfold listedAll
  rw [List.mem_flatMap]
  constructor
  · rintro ⟨q, hq, hm⟩
    obtain ⟨key, b, rfl, hb⟩ := mem_bucketFiles cfg cache h hT hq
    have hby : bytesAt fs (bucketPath cfg cache key) = b := by unfold bytesAt; rw [hb]
    rw [hby] at hm
    obtain ⟨r, hr, hcls, hf⟩ := C10.listed_sound (codec cfg) _ m hm
    have hk := cls_live_key cfg hcls
    have hbp := (hT.recs key b hb r hr).1
    unfold absIndex
    rw [hk, hbp, hb]
    exact hf
  · intro hf
    unfold absIndex at hf
    split at hf
    · rename_i b hb
      refine ⟨_, bucket_mem_bucketFiles cfg cache hT hb, ?_⟩
      have hby : bytesAt fs (bucketPath cfg cache m.key) = b := by unfold bytesAt; rw [hb]
      rw [hby]
      exact C10.listed_complete (codec cfg) _ m.key m hf
    · cases hf

theorem listedAll_nodup {fs : FS} (h : Healthy cfg cache fs) (hT : Tidy cfg cache fs) :
    ((listedAll cfg cache fs).map (fun m => m.key)).Nodup := by
  unfold listedAll
  apply nodup_flatMap_keys _ _ _ (bucketPath cfg cache) (bucketFiles_nodup cache fs)
  · intro q _; exact listed_keys_nodup cfg _
  · intro q hq m hm
    obtain ⟨key, b, rfl, hb⟩ := mem_bucketFiles cfg cache h hT hq
    have hby : bytesAt fs (bucketPath cfg cache key) = b := by unfold bytesAt; rw [hb]
    rw [hby] at hm
    obtain ⟨r, hr, hcls, _⟩ := C10.listed_sound (codec cfg) _ m hm
    rw [cls_live_key cfg hcls]
    exact (hT.recs key b hb r hr).1

/-- **Total correctness of `ls` on a healthy, tidy cache** (C10 at program level).  If the index
directory exists the listing consists of exactly the live entries of the abstract index, once
each; if it does not (nothing was ever inserted, or the cache was cleared) the walk fails and the
listing is the single item `Err(NotFound)` — as `WalkDir` does on a missing root.  Nothing changes. -/
theorem run_ls (env : Env) (fs : FS) (h : Healthy cfg cache fs) (hT : Tidy cfg cache fs) :
    (run env (ls cfg cache) fs).2.1 = fs ∧
    (if fs.isDir (cache ++ [dIndex]) = true then
        ListsIndex (absIndex cfg cache fs) (run env (ls cfg cache) fs).1
      else (run env (ls cfg cache) fs).1 = [.err (.io .notFound)]) := by
  have hne0 : cache ++ [dIndex] ≠ [] := by simp
  by_cases hd : fs.isDir (cache ++ [dIndex]) = true
  · rw [if_pos hd]
    have hg := (isDir_iff hne0).mp hd
    have hfiles : ∀ e ∈ ((cache ++ [dIndex], true) ::
        (fs.below (cache ++ [dIndex])).map (fun q => (q, fs.get q == some .dir))),
        e.2 = false → e.1 ≠ [] ∧ ∃ b, fs.get e.1 = some (.file b) := by
      intro e he hf
      rcases List.mem_cons.mp he with rfl | he
      · cases hf
      · obtain ⟨q, hq, rfl⟩ := List.mem_map.mp he
        have hq' : q ∈ bucketFiles cache fs := by
          unfold bucketFiles
          exact List.mem_filter.mpr ⟨hq, by simpa using hf⟩
        obtain ⟨key, b, rfl, hb⟩ := mem_bucketFiles cfg cache h hT hq'
        exact ⟨bucket_ne_nil cfg cache key, b, hb⟩
    obtain ⟨l1, l2⟩ := run_lsBuckets cfg env fs _ hfiles
    unfold ls
    simp only [bind_eq, pure_eq, call, bind_sys, bind_done, run_sys_res, run_sys_fs, exec, hg, l1, l2]
    refine ⟨trivial, listedAll cfg cache fs, ?_, listedAll_nodup cfg cache h hT, mem_listedAll cfg cache h hT⟩
    unfold listedAll bucketFiles
    simp only [List.filter_cons, Bool.not_true, Bool.false_eq_true, if_false, List.filter_map,
      List.flatMap_map, List.map_flatMap, itemsAt_eq]
    rfl
  · rw [if_neg hd]
    have hn : fs.get (cache ++ [dIndex]) = none := by
      apply Classical.byContradiction
      intro hs
      have := (hT.shape _ (List.prefix_append _ _) (by simp) hs).2.1 (by simp)
      exact hd ((isDir_iff hne0).mpr this)
    unfold ls
    simp only [bind_eq, pure_eq, call, bind_sys, bind_done, run_sys_res, run_sys_fs, exec, hn, hne0,
      if_false]
    exact ⟨rfl, rfl⟩


/-! ### the extended refinement -/

/-- Healthy and tidy: the invariant of the extended refinement. -/
structure XHealthy (fs : FS) : Prop where
  healthy : Healthy cfg cache fs
  tidy : Tidy cfg cache fs

/-- **The empty cache is healthy and tidy** (same hypotheses as `healthy_of_empty_cache`). -/
theorem xhealthy_of_empty_cache (fs : FS)
    (hanc : ∀ q, q ≠ [] → q <+: cache → NoneOrDir fs q)
    (hbelow : ∀ q, cache <+: q → q ≠ cache → fs.get q = none) : XHealthy cfg cache fs :=
  ⟨healthy_of_empty_cache cfg cache fs hanc hbelow, tidy_of_empty_cache cfg cache fs hanc hbelow⟩

example : XHealthy cfg cache FS.empty :=
  xhealthy_of_empty_cache cfg cache FS.empty (fun _ _ _ => Or.inl rfl) (fun _ _ _ => rfl)

/-- One operation of the extended refinement: an operation of `COp` (keyed put / get, index
insert / delete / find, by-address put / get / has / drop), a listing, a full removal, a clear. -/
inductive XOp where
  | cop (op : COp)
  | list
  | removeFully (key : Bytes)
  | clear

inductive XOut where
  | cop (o : COut)
  | listed (items : List LsItem)
  | removedFully (r : Res Unit)
  | cleared (r : Res Unit)

def XOp.WF : XOp → Prop
  | .cop op => op.WF cfg
  | _ => True

/-- The empty abstract state of an existing cache directory. -/
def XAbs.cleared : XAbs :=
  { cache := AbsCache.empty, cacheDir := true, indexDir := false, bucket := fun _ => false }

/-- **`clear`, abstractly**: on an existing cache directory it answers ok and leaves the empty
cache (directory still there, no index directory, no bucket, no content); on a missing one
`read_dir` fails with NotFound and nothing changes. -/
def clearSpec (m : XAbs) : XAbs × Res Unit :=
  if m.cacheDir then (XAbs.cleared, .ok ()) else (m, .error (.io .notFound))

/-- What a listing may answer in abstract state `m`. -/
def listSpec (m : XAbs) (items : List LsItem) : Prop :=
  if m.indexDir then ListsIndex m.cache.index items else items = [.err (.io .notFound)]

/-- One step of the extended abstract machine: the next state, and the admissible answers (a
listing is specified up to the order of its items, every other operation exactly). -/
def xSpecStep (env : Env) (m : XAbs) : XOp → XAbs × (XOut → Prop)
  | .cop op => (copFlags cfg m (cSpecStep cfg env m.cache op).1 op, fun out => out = .cop (cSpecStep cfg env m.cache op).2)
  | .list => (m, fun out => ∃ items, out = .listed items ∧ listSpec m items)
  | .removeFully key => ((removeFullySpec cfg m key).1, fun out => out = .removedFully (removeFullySpec cfg m key).2)
  | .clear => ((clearSpec m).1, fun out => out = .cleared (clearSpec m).2)

def xSpecRun : List (Env × XOp) → XAbs → List (XOut → Prop) × XAbs
  | [], m => ([], m)
  | (env, op) :: ops, m =>
    ((xSpecStep cfg env m op).2 :: (xSpecRun ops (xSpecStep cfg env m op).1).1,
     (xSpecRun ops (xSpecStep cfg env m op).1).2)

/-- One operation as the real model program, run to completion. -/
def xRunOp (env : Env) : XOp → FS → XOut × FS
  | .cop op, fs => (.cop (cRunOp cfg cache env op fs).1, (cRunOp cfg cache env op fs).2)
  | .list, fs => (.listed (run env (ls cfg cache) fs).1, (run env (ls cfg cache) fs).2.1)
  | .removeFully key, fs =>
    (.removedFully (run env (removeFully cfg cache key) fs).1, (run env (removeFully cfg cache key) fs).2.1)
  | .clear, fs => (.cleared (run env (clear cache) fs).1, (run env (clear cache) fs).2.1)

def xRunOps : List (Env × XOp) → FS → List XOut × FS
  | [], fs => ([], fs)
  | (env, op) :: ops, fs =>
    ((xRunOp cfg cache env op fs).1 :: (xRunOps ops (xRunOp cfg cache env op fs).2).1,
     (xRunOps ops (xRunOp cfg cache env op fs).2).2)

/-- Every answer is admissible. -/
def Answers : List XOut → List (XOut → Prop) → Prop
  | [], [] => True
  | o :: os, P :: Ps => P o ∧ Answers os Ps
  | _, _ => False

theorem absX_cleared {fs : FS} (hbelow : ∀ q, cache <+: q → q ≠ cache → fs.get q = none)
    (hd : fs.isDir cache = true) : absX cfg cache fs = XAbs.cleared := by
  unfold absX XAbs.cleared
  rw [absCache_of_empty_cache cfg cache fs hbelow, hd]
  have h1 : fs.get (cache ++ [dIndex]) = none := hbelow _ (List.prefix_append _ _) (by simp)
  have h2 : fs.isDir (cache ++ [dIndex]) = false := by
    cases hx : fs.isDir (cache ++ [dIndex]) with
    | false => rfl
    | true => rw [isDir_iff (by simp), h1] at hx; cases hx
  rw [h2]
  congr 1
  funext k
  rw [hbelow _ (prefix_bucketPath cfg cache k) (by
    intro e; have := congrArg List.length e; rw [bucket_length] at this; omega)]
  rfl

/-- **One extended operation refines one abstract step.** -/
theorem xRunOp_refines (env : Env) (op : XOp) (fs : FS) (h : XHealthy cfg cache fs) (hl : HexLen cfg)
    (hop : op.WF cfg) :
    (xSpecStep cfg env (absX cfg cache fs) op).2 (xRunOp cfg cache env op fs).1 ∧
    absX cfg cache (xRunOp cfg cache env op fs).2 = (xSpecStep cfg env (absX cfg cache fs) op).1 ∧
    XHealthy cfg cache (xRunOp cfg cache env op fs).2 := by
  cases op with
  | cop cop =>
    obtain ⟨r1, r2, r3⟩ := cRunOp_refines cfg cache env cop fs h.healthy hl hop
    obtain ⟨t1, t2⟩ := cRunOp_ext cfg cache env cop fs h.healthy hl hop h.tidy
    refine ⟨?_, ?_, ⟨r3, t1⟩⟩
    · show XOut.cop _ = XOut.cop _
      rw [r1]; rfl
    · show absX cfg cache (cRunOp cfg cache env cop fs).2 = _
      rw [t2, r2]; rfl
  | list =>
    obtain ⟨l1, l2⟩ := run_ls cfg cache env fs h.healthy h.tidy
    refine ⟨⟨_, rfl, ?_⟩, ?_, ?_⟩
    · exact l2
    · show absX cfg cache (run env (ls cfg cache) fs).2.1 = _
      rw [l1]; rfl
    · show XHealthy cfg cache (run env (ls cfg cache) fs).2.1
      rw [l1]; exact h
  | removeFully key =>
    obtain ⟨r1, r2, r3, r4⟩ := removeFully_refines cfg cache env key fs h.healthy hl h.tidy
    refine ⟨?_, r2, ⟨r3, r4⟩⟩
    show XOut.removedFully _ = XOut.removedFully _
    rw [r1]
  | clear =>
    show (XOut.cleared (run env (clear cache) fs).1 = XOut.cleared (clearSpec (absX cfg cache fs)).2) ∧
      absX cfg cache (run env (clear cache) fs).2.1 = (clearSpec (absX cfg cache fs)).1 ∧
      XHealthy cfg cache (run env (clear cache) fs).2.1
    unfold clearSpec
    have hcd : (absX cfg cache fs).cacheDir = fs.isDir cache := rfl
    rw [hcd]
    cases hd : fs.isDir cache with
    | true =>
      obtain ⟨c1, _, c3, c4, c5, c6, _⟩ := clear_empties cfg cache env fs h.healthy h.tidy hd
      simp only [if_true]
      exact ⟨by rw [c1], absX_cleared cfg cache c3 c4, ⟨c5, c6⟩⟩
    | false =>
      obtain ⟨c1, c2⟩ := run_clear_absent cache env fs hd
      simp only [Bool.false_eq_true, if_false]
      rw [c1, c2]
      exact ⟨rfl, rfl, h⟩

/-- **The extended refinement**: any sequence of `COp` operations, listings, full removals and
clears, each run as the real model program in its own environment, started from a healthy and
tidy cache (e.g. an empty one): every answer is admissible for the abstract machine started from
the abstraction of the initial state (exactly the abstract answer, for a listing the abstract
entries up to order), the final state abstracts to the final abstract state, and the cache is
healthy and tidy again. -/
theorem cache_refines_map_ext (ops : List (Env × XOp)) (fs : FS) (h : XHealthy cfg cache fs)
    (hl : HexLen cfg) (hops : ∀ x ∈ ops, x.2.WF cfg) :
    Answers (xRunOps cfg cache ops fs).1 (xSpecRun cfg ops (absX cfg cache fs)).1 ∧
    absX cfg cache (xRunOps cfg cache ops fs).2 = (xSpecRun cfg ops (absX cfg cache fs)).2 ∧
    XHealthy cfg cache (xRunOps cfg cache ops fs).2 := by
  induction ops generalizing fs with
  | nil => exact ⟨trivial, rfl, h⟩
  | cons x ops ih =>
    obtain ⟨env, op⟩ := x
    obtain ⟨h1, h2, h3⟩ := xRunOp_refines cfg cache env op fs h hl (hops (env, op) (by simp))
    obtain ⟨i1, i2, i3⟩ := ih _ h3 (fun y hy => hops y (List.mem_cons_of_mem _ hy))
    simp only [xRunOps, xSpecRun]
    rw [← h2]
    exact ⟨⟨h1, i1⟩, i2, i3⟩


/-! ### corollaries -/

/-- **After `clear`, any operation sequence behaves as from a fresh cache** (C09): on a healthy,
tidy cache whose directory exists `clear` answers ok, and every sequence of extended operations
run afterwards refines the abstract machine started from `XAbs.cleared` — which is the abstraction
of EVERY empty cache whose directory exists (`absX_cleared`), e.g. a freshly created one. -/
theorem ops_after_clear (env : Env) (fs : FS) (h : XHealthy cfg cache fs) (hd : fs.isDir cache = true)
    (ops : List (Env × XOp)) (hl : HexLen cfg) (hops : ∀ x ∈ ops, x.2.WF cfg) :
    (run env (clear cache) fs).1 = .ok () ∧
    Answers (xRunOps cfg cache ops (run env (clear cache) fs).2.1).1 (xSpecRun cfg ops XAbs.cleared).1 ∧
    absX cfg cache (xRunOps cfg cache ops (run env (clear cache) fs).2.1).2 =
      (xSpecRun cfg ops XAbs.cleared).2 ∧
    XHealthy cfg cache (xRunOps cfg cache ops (run env (clear cache) fs).2.1).2 := by
  obtain ⟨c1, _, c3, c4, c5, c6, _⟩ := clear_empties cfg cache env fs h.healthy h.tidy hd
  have := cache_refines_map_ext cfg cache ops _ ⟨c5, c6⟩ hl hops
  rw [absX_cleared cfg cache c3 c4] at this
  exact ⟨c1, this⟩

/-- … in particular the `COp` sequences of `cache_refines_map` answer as from the empty abstract
cache. -/
theorem cops_after_clear (env : Env) (fs : FS) (h : XHealthy cfg cache fs) (hd : fs.isDir cache = true)
    (ops : List (Env × COp)) (hl : HexLen cfg) (hops : ∀ x ∈ ops, x.2.WF cfg) :
    (cRunOps cfg cache ops (run env (clear cache) fs).2.1).1 = (cSpecRun cfg ops AbsCache.empty).1 ∧
    absCache cfg cache (cRunOps cfg cache ops (run env (clear cache) fs).2.1).2 =
      (cSpecRun cfg ops AbsCache.empty).2 ∧
    Healthy cfg cache (cRunOps cfg cache ops (run env (clear cache) fs).2.1).2 := by
  obtain ⟨_, _, _, _, c5, _, c7⟩ := clear_empties cfg cache env fs h.healthy h.tidy hd
  have := cache_refines_map cfg cache ops _ c5 hl hops
  rw [c7] at this
  exact this

/-- A listing determines its entries up to order: given any duplicate-free list of keys that
contains every live key, the listed entries are a permutation of what the index holds for them. -/
theorem listsIndex_perm {idx : AbsIndex} {items : List LsItem} (h : ListsIndex idx items)
    (hkey : ∀ k m, idx k = some m → m.key = k) (keys : List Bytes) (hn : keys.Nodup)
    (hcov : ∀ k, idx k ≠ none → k ∈ keys) :
    items.Perm ((keys.filterMap idx).map LsItem.entry) := by
  obtain ⟨ms, rfl, hnd, hmem⟩ := h
  apply List.Perm.map
  apply (List.perm_ext_iff_of_nodup ?_ ?_).mpr
  · intro m
    rw [hmem m, List.mem_filterMap]
    constructor
    · intro hm
      exact ⟨m.key, hcov _ (by rw [hm]; intro e; cases e), hm⟩
    · rintro ⟨k, _, hk⟩
      rw [hkey k m hk]; exact hk
  · rw [List.Nodup, List.pairwise_map] at hnd
    exact hnd.imp (fun hab e => hab (by rw [e]))
  · rw [List.Nodup, List.pairwise_filterMap]
    refine hn.imp ?_
    intro a b hab m hm m' hm' e
    apply hab
    rw [← hkey a m hm, ← hkey b m' hm', e]

/-- Every key is listed iff it is live; a listed entry is what a lookup of its key returns. -/
theorem listsIndex_keys {idx : AbsIndex} {items : List LsItem} (h : ListsIndex idx items)
    (hkey : ∀ k m, idx k = some m → m.key = k) (k : Bytes) :
    (∃ m, LsItem.entry m ∈ items ∧ m.key = k) ↔ idx k ≠ none := by
  obtain ⟨ms, rfl, _, hmem⟩ := h
  constructor
  · rintro ⟨m, hm, rfl⟩
    obtain ⟨m', hm', e⟩ := List.mem_map.mp hm
    have e' : m' = m := LsItem.entry.inj e
    rw [e'] at hm'
    rw [(hmem m).mp hm']; intro e; cases e
  · intro hk
    cases hx : idx k with
    | none => exact absurd hx hk
    | some m =>
      have hmk := hkey k m hx
      refine ⟨m, List.mem_map.mpr ⟨m, (hmem m).mpr (by rw [hmk]; exact hx), rfl⟩, hmk⟩

/-- **Listing after any sequence of operations** (C10 at program level): the `ls` program, run on
the state reached from a healthy, tidy cache by any sequence of extended operations, yields exactly
the live entries of the final abstract index, once each — and each listed entry is what the `find`
program returns for its key in that state, while a key without listed entry is not found. -/
theorem ls_after_ops (ops : List (Env × XOp)) (fs : FS) (h : XHealthy cfg cache fs) (hl : HexLen cfg)
    (hops : ∀ x ∈ ops, x.2.WF cfg) (env' : Env) :
    listSpec (xSpecRun cfg ops (absX cfg cache fs)).2
      (run env' (ls cfg cache) (xRunOps cfg cache ops fs).2).1 ∧
    (∀ key env'', (run env'' (find cfg cache key) (xRunOps cfg cache ops fs).2).1 =
      .ok ((xSpecRun cfg ops (absX cfg cache fs)).2.cache.index key)) ∧
    (∀ k m, (xSpecRun cfg ops (absX cfg cache fs)).2.cache.index k = some m → m.key = k) := by
  obtain ⟨_, h2, h3⟩ := cache_refines_map_ext cfg cache ops fs h hl hops
  obtain ⟨_, l2⟩ := run_ls cfg cache env' _ h3.healthy h3.tidy
  rw [← h2]
  refine ⟨l2, ?_, ?_⟩
  · intro key env''
    exact (run_find cfg cache env'' key _ h3.healthy.index).1
  · intro k m hm
    exact absIndex_key cfg cache hm


/-! ### the keys ever written, and the listing from an empty cache -/

/-- The key an operation inserts or removes an index record for. -/
def XOp.keys : XOp → List Bytes
  | .cop (.put _ key _ _) => [key]
  | .cop (.index (.ins key _)) => [key]
  | .cop (.index (.del key)) => [key]
  | _ => []

/-- The keys ever written by a sequence of operations (`written`). -/
def writtenKeys (ops : List (Env × XOp)) : List Bytes := ops.flatMap (fun x => x.2.keys)

theorem copFlags_cache (m : XAbs) (c : AbsCache) (op : COp) : (copFlags cfg m c op).cache = c := by
  cases op with
  | put fl key o chunks =>
    simp only [copFlags]
    split <;> rfl
  | get key => rfl
  | index iop => cases iop <;> rfl
  | addr sop => cases sop <;> rfl

theorem removeFullySpec_index (m : XAbs) (key k : Bytes) :
    (removeFullySpec cfg m key).1.cache.index k = m.cache.index k ∨
    (SameBucket cfg k key ∧ (removeFullySpec cfg m key).1.cache.index k = none) := by
  unfold removeFullySpec
  split
  · unfold bucketSpec
    split
    · by_cases e : SameBucket cfg k key
      · right; exact ⟨e, by simp only [if_pos e]⟩
      · left; simp only [if_neg e]; rfl
    · left; rfl
  · left; rfl

/-- A key that no operation writes, absent before, is absent after. -/
theorem xSpecRun_index_none (ops : List (Env × XOp)) (m : XAbs) (k : Bytes)
    (hm : m.cache.index k = none) (hk : k ∉ writtenKeys ops) :
    (xSpecRun cfg ops m).2.cache.index k = none := by
  induction ops generalizing m with
  | nil => exact hm
  | cons x ops ih =>
    obtain ⟨env, op⟩ := x
    have hk1 : k ∉ op.keys := fun e => hk (by simp [writtenKeys]; exact Or.inl e)
    have hk2 : k ∉ writtenKeys ops := fun e => hk (by
      simp only [writtenKeys, List.flatMap_cons, List.mem_append]; exact Or.inr e)
    simp only [xSpecRun]
    apply ih _ _ hk2
    cases op with
    | cop cop =>
      simp only [xSpecStep, copFlags_cache]
      rw [cSpecStep_index_untouched cfg env m.cache cop k]
      · exact hm
      · intro hw
        apply hk1
        cases cop with
        | put fl key o chunks => simp only [COp.writesKey] at hw; simp [XOp.keys, hw]
        | get key => exact absurd hw (by simp [COp.writesKey])
        | index iop =>
          cases iop with
          | ins key o => simp only [COp.writesKey, IOp.writes] at hw; simp [XOp.keys, hw]
          | del key => simp only [COp.writesKey, IOp.writes] at hw; simp [XOp.keys, hw]
          | look key => exact absurd hw (by simp [COp.writesKey, IOp.writes])
        | addr sop => exact absurd hw (by simp [COp.writesKey])
    | list => exact hm
    | removeFully key =>
      simp only [xSpecStep]
      rcases removeFullySpec_index cfg m key k with g | ⟨_, g⟩
      · rw [g]; exact hm
      · exact g
    | clear =>
      simp only [xSpecStep, clearSpec]
      split
      · rfl
      · exact hm

/-- **Listing from the empty cache, with the list of written keys** (C10 at program level, the
`written` formulation).  Start from an empty cache (the hypotheses of `healthy_of_empty_cache`),
run any sequence of well-formed extended operations, then run `ls`.  If a record was ever appended
since the last `clear` (`indexDir`), the items are — up to order — the entries the final abstract
index holds for the keys ever written, each key taken once: one entry per live key, none for
removed keys; keys never written cannot be live.  Otherwise the listing is the single item
`Err(NotFound)`. -/
theorem ls_from_empty (ops : List (Env × XOp)) (fs : FS)
    (hanc : ∀ q, q ≠ [] → q <+: cache → NoneOrDir fs q)
    (hbelow : ∀ q, cache <+: q → q ≠ cache → fs.get q = none)
    (hl : HexLen cfg) (hops : ∀ x ∈ ops, x.2.WF cfg) (env' : Env) :
    (if (xSpecRun cfg ops (absX cfg cache fs)).2.indexDir = true then
      ((run env' (ls cfg cache) (xRunOps cfg cache ops fs).2).1).Perm
        (((writtenKeys ops).eraseDups.filterMap (xSpecRun cfg ops (absX cfg cache fs)).2.cache.index).map
          LsItem.entry)
    else (run env' (ls cfg cache) (xRunOps cfg cache ops fs).2).1 = [.err (.io .notFound)]) ∧
    (∀ k, k ∉ writtenKeys ops → (xSpecRun cfg ops (absX cfg cache fs)).2.cache.index k = none) := by
  have h := xhealthy_of_empty_cache cfg cache fs hanc hbelow
  obtain ⟨l1, _, l3⟩ := ls_after_ops cfg cache ops fs h hl hops env'
  have hnone : ∀ k, k ∉ writtenKeys ops →
      (xSpecRun cfg ops (absX cfg cache fs)).2.cache.index k = none := by
    intro k hk
    apply xSpecRun_index_none cfg ops _ k _ hk
    show absIndex cfg cache fs k = none
    have := absCache_of_empty_cache cfg cache fs hbelow
    unfold absCache AbsCache.empty at this
    have h2 := congrArg AbsCache.index this
    exact congrFun h2 k
  refine ⟨?_, hnone⟩
  unfold listSpec at l1
  split
  · rename_i hi
    rw [if_pos hi] at l1
    apply listsIndex_perm l1 l3 _ (nodup_eraseDups _)
    intro k hk
    apply List.mem_eraseDups.mpr
    apply Classical.byContradiction
    intro hn
    exact hk (hnone k hn)
  · rename_i hi
    rw [if_neg hi] at l1
    exact l1

/-! ### reading `removeFullySpec` -/

theorem absX_bucket_of_index (fs : FS) {key : Bytes} {e : Meta}
    (h : (absX cfg cache fs).cache.index key = some e) : (absX cfg cache fs).bucket key = true := by
  have h' : absIndex cfg cache fs key = some e := h
  show (fs.get (bucketPath cfg cache key)).isSome = true
  unfold absIndex at h'
  split at h'
  · rename_i b hb; rw [hb]; rfl
  · cases h'

theorem set_none_of_none (st : AbsStore) (a : Algo) (hx : Bytes) (h : st a hx = none) :
    st.set a hx none = st := by
  funext a' h'
  unfold AbsStore.set
  split
  · rename_i e; obtain ⟨rfl, rfl⟩ := e; exact h.symm
  · rfl

/-- **Full removal of a key whose entry carries a computed integrity** — the case of every entry
the library writes: the answer is ok, the store drops the entry's address **also when the content
was already gone**, the key and the keys sharing its bucket are unindexed, every other key keeps
its entry (which, if it recorded the same address, now points at missing content), every other
address keeps its content. -/
theorem removeFullySpec_of_entry (hl : HexLen cfg) (m : XAbs) (key : Bytes) (e : Meta) (a : Algo)
    (d : Bytes) (hi : m.cache.index key = some e) (hs : e.sri = Sri.compute cfg.H a d)
    (hb : m.bucket key = true) :
    (removeFullySpec cfg m key).2 = .ok () ∧
    (removeFullySpec cfg m key).1.cache.store = m.cache.store.set a (Bytes.hex (cfg.H a d)) none ∧
    (removeFullySpec cfg m key).1.cache.index =
      (fun k => if SameBucket cfg k key then none else m.cache.index k) ∧
    (removeFullySpec cfg m key).1.bucket = (fun k => if SameBucket cfg k key then false else m.bucket k) ∧
    (removeFullySpec cfg m key).1.cacheDir = m.cacheDir ∧
    (removeFullySpec cfg m key).1.indexDir = m.indexDir := by
  have hcs : (contentSpec m.cache.store (m.cache.index key)).1 =
        m.cache.store.set a (Bytes.hex (cfg.H a d)) none ∧
      goesOn (contentSpec m.cache.store (m.cache.index key)).2 = true := by
    rw [hi]
    simp only [contentSpec, dropSpec, hs, addrOf_compute cfg hl]
    cases hst : m.cache.store a (Bytes.hex (cfg.H a d)) with
    | none => exact ⟨(set_none_of_none _ _ _ hst).symm, rfl⟩
    | some b => exact ⟨rfl, rfl⟩
  unfold removeFullySpec
  rw [if_pos hcs.2, hcs.1]
  unfold bucketSpec
  have hb' : (m.withStore (m.cache.store.set a (Bytes.hex (cfg.H a d)) none)).bucket key = true := hb
  rw [if_pos hb']
  exact ⟨rfl, rfl, rfl, rfl, rfl, rfl⟩

/-- A key that has neither entry nor bucket file: `remove_fully` fails with NotFound (the `unlink`
of the bucket), nothing changes. -/
theorem removeFullySpec_absent (m : XAbs) (key : Bytes) (hi : m.cache.index key = none)
    (hb : m.bucket key = false) : removeFullySpec cfg m key = (m, .error (.io .notFound)) := by
  unfold removeFullySpec
  rw [hi]
  simp only [contentSpec, goesOn, if_true]
  unfold bucketSpec
  have hb' : (m.withStore m.cache.store).bucket key = false := hb
  rw [hb']
  rfl

/-- A key that shares no bucket with the removed one keeps its index entry. -/
theorem removeFullySpec_other_key (m : XAbs) (key k : Bytes) (hk : ¬ SameBucket cfg k key) :
    (removeFullySpec cfg m key).1.cache.index k = m.cache.index k := by
  rcases removeFullySpec_index cfg m key k with g | ⟨g, _⟩
  · exact g
  · exact absurd g hk

/-- No two distinct keys of `keys` share a bucket (no SHA-1 collision among them).  NOT needed by
any theorem above — collisions are modelled — but under it a full removal touches the index entry
of no other key of `keys`. -/
def NoBucketCollision (keys : List Bytes) : Prop :=
  ∀ k ∈ keys, ∀ k' ∈ keys, SameBucket cfg k k' → k = k'

theorem removeFullySpec_other_key_of_noCollision (m : XAbs) (keys : List Bytes)
    (hnc : NoBucketCollision cfg keys) (key k : Bytes) (hkey : key ∈ keys) (hk : k ∈ keys) (hne : k ≠ key) :
    (removeFullySpec cfg m key).1.cache.index k = m.cache.index k :=
  removeFullySpec_other_key cfg m key k (fun e => hne (hnc k hk key hkey e))


/-! ### non-vacuity: concrete runs from the empty filesystem -/

/-- On the empty filesystem: insert one entry, then list — exactly that entry; fully remove the key,
then list — nothing (the index directory is still there); clear, then list — the single item
`Err(NotFound)` (the index directory is gone), and a second `clear` still answers ok. -/
example (env : Env) (data : Bytes) (hl : HexLen cfg) :
    let o : WriteOpts := { sri := some (Sri.compute cfg.H .sha256 data), size := some 3 }
    let e : Meta := { key := [107], sri := Sri.compute cfg.H .sha256 data, time := env.clock % (timeMax + 1), size := 3, metadata := .null, raw := none }
    (run env (ls cfg cache) (xRunOps cfg cache [(env, .cop (.index (.ins [107] o)))] FS.empty).2).1 = [.entry e] ∧
    (run env (ls cfg cache)
      (xRunOps cfg cache [(env, .cop (.index (.ins [107] o))), (env, .removeFully [107])] FS.empty).2).1 = [] ∧
    (run env (ls cfg cache)
      (xRunOps cfg cache [(env, .cop (.index (.ins [107] o))), (env, .clear)] FS.empty).2).1 = [.err (.io .notFound)] ∧
    (run env (clear cache)
      (xRunOps cfg cache [(env, .cop (.index (.ins [107] o))), (env, .clear)] FS.empty).2).1 = .ok () := by
  intro o e
  have hanc : ∀ q, q ≠ [] → q <+: cache → NoneOrDir FS.empty q := fun _ _ _ => Or.inl rfl
  have hbelow : ∀ q, cache <+: q → q ≠ cache → FS.empty.get q = none := fun _ _ _ => rfl
  have k1 : utf8Valid [107] = true := by decide
  have w1 : OpWF cfg (IOp.ins [107] o) :=
    ⟨⟨k1, by simp [o], by intro n hn; simp [o] at hn; subst hn; simp [Rec.u64Max],
      by intro s hs; simp [o] at hs; subst hs; exact Sri.compute_wf _ _ _, by simp [o]⟩,
     Or.inr ⟨_, _, rfl⟩⟩
  have hidx0 : (absX cfg cache FS.empty).cache.index = fun _ => none := rfl
  -- the abstract state after the insertion
  have hm1 : (xSpecRun cfg [(env, XOp.cop (.index (.ins [107] o)))] (absX cfg cache FS.empty)).2 =
      (absX cfg cache FS.empty).indexed cfg { index := fun k => if k = [107] then some e else none, store := (absX cfg cache FS.empty).cache.store } [107] := by
    simp only [xSpecRun, xSpecStep, copFlags, cSpecStep, specStep, hidx0]
    congr 2
  refine ⟨?_, ?_, ?_, ?_⟩
  · have h := (ls_from_empty cfg cache [(env, XOp.cop (.index (.ins [107] o)))] FS.empty hanc hbelow hl
      (by intro x hx; simp at hx; subst hx; exact w1) env).1
    rw [hm1] at h
    simp only [XAbs.indexed, if_true, writtenKeys, XOp.keys, List.flatMap_cons, List.flatMap_nil,
      List.append_nil] at h
    have h' : ([[107]] : List Bytes).eraseDups = [[107]] := by decide
    rw [h'] at h
    simp only [List.filterMap_cons, List.filterMap_nil, if_true, List.map_cons, List.map_nil] at h
    exact List.perm_singleton.mp h
  · have h := (ls_from_empty cfg cache
      [(env, XOp.cop (.index (.ins [107] o))), (env, XOp.removeFully [107])] FS.empty hanc hbelow hl
      (by intro x hx; simp at hx; rcases hx with rfl | rfl; exact w1; trivial) env).1
    have hm2 : (xSpecRun cfg [(env, XOp.cop (.index (.ins [107] o))), (env, XOp.removeFully [107])]
        (absX cfg cache FS.empty)).2 =
        (removeFullySpec cfg (xSpecRun cfg [(env, XOp.cop (.index (.ins [107] o)))] (absX cfg cache FS.empty)).2 [107]).1 := rfl
    rw [hm2, hm1] at h
    obtain ⟨_, _, g3, _, _, g6⟩ := removeFullySpec_of_entry cfg hl
      ((absX cfg cache FS.empty).indexed cfg { index := fun k => if k = [107] then some e else none, store := (absX cfg cache FS.empty).cache.store } [107])
      [107] e .sha256 data (by simp [XAbs.indexed]) rfl (by simp [XAbs.indexed])
    rw [g6, g3] at h
    simp only [XAbs.indexed, if_true, writtenKeys, XOp.keys, List.flatMap_cons, List.flatMap_nil,
      List.append_nil] at h
    have h' : ([[107]] : List Bytes).eraseDups = [[107]] := by decide
    rw [h'] at h
    simp only [List.filterMap_cons, List.filterMap_nil, if_true, List.map_nil] at h
    exact List.perm_nil.mp h
  · have h := (ls_from_empty cfg cache
      [(env, XOp.cop (.index (.ins [107] o))), (env, XOp.clear)] FS.empty hanc hbelow hl
      (by intro x hx; simp at hx; rcases hx with rfl | rfl; exact w1; trivial) env).1
    have hm2 : (xSpecRun cfg [(env, XOp.cop (.index (.ins [107] o))), (env, XOp.clear)]
        (absX cfg cache FS.empty)).2 =
        (clearSpec (xSpecRun cfg [(env, XOp.cop (.index (.ins [107] o)))] (absX cfg cache FS.empty)).2).1 := rfl
    rw [hm2, hm1] at h
    simpa [clearSpec, XAbs.indexed, XAbs.cleared] using h
  · obtain ⟨_, h2, h3⟩ := cache_refines_map_ext cfg cache
      [(env, XOp.cop (.index (.ins [107] o))), (env, XOp.clear)] FS.empty
      (xhealthy_of_empty_cache cfg cache FS.empty hanc hbelow) hl
      (by intro x hx; simp at hx; rcases hx with rfl | rfl; exact w1; trivial)
    have hm2 : (xSpecRun cfg [(env, XOp.cop (.index (.ins [107] o))), (env, XOp.clear)]
        (absX cfg cache FS.empty)).2 =
        (clearSpec (xSpecRun cfg [(env, XOp.cop (.index (.ins [107] o)))] (absX cfg cache FS.empty)).2).1 := rfl
    rw [hm2, hm1] at h2
    have hd : (xRunOps cfg cache [(env, XOp.cop (.index (.ins [107] o))), (env, XOp.clear)] FS.empty).2.isDir cache = true := by
      have := congrArg XAbs.cacheDir h2
      simpa [clearSpec, XAbs.indexed, XAbs.cleared, absX] using this
    exact (clear_empties cfg cache env _ h3.healthy h3.tidy hd).1

end Cacache.ListRefine

section AxiomCheck
open Cacache.ListRefine
#print axioms cache_refines_map_ext
#print axioms xRunOp_refines
#print axioms run_ls
#print axioms ls_after_ops
#print axioms ls_from_empty
#print axioms listsIndex_perm
#print axioms removeFully_refines
#print axioms removeFullySpec_of_entry
#print axioms run_clear
#print axioms clear_empties
#print axioms ops_after_clear
#print axioms cops_after_clear
#print axioms xhealthy_of_empty_cache
#print axioms cRunOp_ext
end AxiomCheck
