/-
Linearizability of the RESULTS of the two-step read, and of the by-address observers.

`Lemmas/Linearize` proves that the results of any number of concurrent `insert` / `delete` / `find`
are those of one serial order; its observers make ONE call.  `read cfg cache key` makes TWO:
one `readFile` of the key's bucket (`find`), then one verified `readFile` of the content file the
entry names (`readHash`).  Between the two the index may change (the key re-pointed, removed) and
the content may be removed (`removeHash`) or published (a writer's `rename`).  This file proves,
for EVERY schedule `sched : List Nat` of `Prog.interleave` (calls are the atomic steps):

generic
* `Along` / `Pairs` — predicates over all states / all ordered pairs of states of a solo run;
  `two_step_observer`, `reader_linearizable`, `reader_before_or_after` — a process `W` next to a
  two-call read-only observer `R` (`TwoShot`): if for every pair of states `a ≤ b` of `W`'s solo run
  the observer that makes its first call in `a` and its second in `b` answers as alone before or
  alone after `W`, then so does the concurrent observer under every schedule, and `W` answers and
  leaves the filesystem as alone.  Two criteria for the hypothesis: `pairs_of_first_last` (first
  view changes with `W`'s last call only, second view never — index mutators, writers of other
  content), `pairs_of_first_const` (first view never changes — content mutators).
* `writeStream_walk` — the walk through a whole writer (open, feed, commit / clean up) for an
  observation of one node outside `<cache>/tmp`, for `Along` and for `UntilDone`; by-products
  `writeStream_bucket_untilDone` (a whole keyed writer changes any bucket with its LAST call only),
  `writeStream_content_along` (… and no content file but the one at the address of its bytes),
  `writeStream_unkeyed_untilDone` / `wclose_untilDone` (a by-address writer changes any content
  file with its last call only: the `rename`).

the library's operations (two processes; `r = (run env R fs).1 ∨ r = (run env R (run env W fs).2.1).1`)
* (T1) `readHash_removeHash_linearizable`, `existsHash_removeHash_linearizable` (no hypothesis at
  all), `readHash_writeStream_linearizable`, `readHash_writeHash_linearizable`,
  `existsHash_writeStream_linearizable` (hypothesis: the observed content path is not a symlink),
  and the generic `oneShot_removeHash_linearizable`, `oneShot_writeStream_linearizable`.
* (T2) `read_insert_linearizable`, `read_delete_linearizable` (any keys; hypotheses: the reader's
  bucket is a regular file or absent — `BucketIs`, as in `Linearize` — and the content file of the
  entry the key has initially is not a symlink — `PlainFor`; nothing about its bytes).
* (T3) `read_removeHash_linearizable` (any address; hypothesis `BucketIs` only).
* (T4) `read_writeStream_linearizable`, `read_write_linearizable` (whole keyed writer, any keys —
  in particular the same key —, flavour, options, chunking; hypotheses `BucketIs`, `PlainFor` and
  `hother`: the content path of the entry the key has initially is not the address of the bytes
  being written — "other bytes").
  `read_writeStream_linearizable'`, `read_write_linearizable'`: `hother` weakened to "another
  address, OR the same address and it already holds exactly these bytes" (the `rename` then
  replaces the file by an identical one; `wclose_same_along`), from a valid store (`ContentValid`).
* `*_sum` — the readings with `Sum.inl` / `Sum.inr` as `Linearize.lookup_linearizable_insert_sum`.

three processes
* (T5) `three_core` (generic), `read_insert_removeHash_linearizable`,
  `read_delete_removeHash_linearizable`: the index mutator and the remover answer as alone, the
  reader as `read` alone in one of the four states initial / after the insertion / after the
  removal / after both; `read_insert_removeHash_serial`: when all three have finished, one of four
  explicit serial orders of the three programs, run from the initial filesystem (`serialRun`),
  returns exactly the three answers.  (Hypotheses: `BucketIs`, `NoLinkedContent`.)  The scenario
  "entry found, key re-pointed, old content removed, content read fails" is the serial order
  remove – read – insert.

Non-vacuity at the end: `read_finishes` (schedule `[1, 1]`, every state, next to any process),
`read_straddles_removeHash` (schedule `[1, 0, 1]`: lookup, removal, content read), `exFS` (a
filesystem with arbitrary bucket bytes and an arbitrary regular file, meeting all hypotheses) and
`example`s applying the theorems.

NOT covered / why the hypotheses:
* Symlinked content (`link_to`): `FS.readFile` follows a symlink at the content path, so what the
  second call sees is then not a function of the node at the content path; with a link pointing
  INTO the index area (e.g. at a bucket directory that the insertion's `create_dir_all` creates)
  the statement of (T2) is false in the model (old entry, new state of the link target: neither
  serial answer).  Hence `PlainFor` / `PlainAt` / `NoLinkedContent`.  Not formalised; no such
  link can be produced by the library's own operations from a cache without links.
* (T4) with the SAME address and a file there that is NOT the bytes being written (absent, corrupt,
  a directory): the writer's `rename` repairs the file the old entry names, and the reader between
  its two calls already sees the repaired content — which is the "after" answer provided the
  lookup after the write returns an entry of the same address (needs the bucket to be settled and
  the options well-formed).  Not proved here.
* (T6) any number of processes: only `read_snapshot` (any number of INDEX mutators next to one
  `read`: the answer is the second half of the read, on the initial content, of a lookup in a
  consistent snapshot of whole records).  The general statement is not done.  `Linearize.linearizable_of_pending` needs ONE
  linearization point per process; `read` has two.  With a PUBLISHER among the processes the
  n-process sentence is false for large n (not formalised: k ↦ A, k2 ↦ B, A valid, B corrupt;
  reader R looks k up (A); I: k ↦ B; X1 = read k: integrity error; M1 = write_hash of B's bytes;
  X2 = read k2: ok b; M2: k2 ↦ A; X3 = read k2: ok a; U = remove_hash A; R reads A: not found.
  The answers force U < R < I < X1 < M1 < X2 < M2 < X3 < U).  That needs 8 processes; for 2 – 3
  operations no such cycle exists (T1 – T5).
-/
import Cacache.Lemmas.Linearize
import Cacache.Lemmas.Concurrent
import Cacache.Lemmas.Stream

namespace Cacache
namespace LinearizeRead
open Prog Linearize

variable {α β : Type}

/-! ### generic: predicates over the states of a solo run -/

/-- `obs` holds at EVERY state of the solo run of the program from `s`, the final one included
(`Linearize.UntilDone` leaves the final state out). -/
def Along (env : Env) (obs : FS → Prop) : Prog α → FS → Prop
  | .done _, s => obs s
  | .sys c k, s => obs s ∧ Along env obs (k (exec env s c).2) (exec env s c).1

@[simp] theorem along_done (env : Env) (obs : FS → Prop) (a : α) (s : FS) :
    Along env obs (.done a) s = obs s := rfl
@[simp] theorem along_sys (env : Env) (obs : FS → Prop) (c : Call) (k : Ret → Prog α) (s : FS) :
    Along env obs (.sys c k) s = (obs s ∧ Along env obs (k (exec env s c).2) (exec env s c).1) := rfl

theorem Along.head {env : Env} {obs : FS → Prop} {p : Prog α} {s : FS} (h : Along env obs p s) :
    obs s := by
  cases p with
  | done a => exact h
  | sys c k => exact h.1

theorem Along.step {env : Env} {obs : FS → Prop} {p : Prog α} {s : FS} (h : Along env obs p s) :
    Along env obs (step env p s).1 (step env p s).2 := by
  cases p with
  | done a => exact h
  | sys c k => exact h.2

theorem Along.final {env : Env} {obs : FS → Prop} {p : Prog α} {s : FS} (h : Along env obs p s) :
    obs (run env p s).2.1 := by
  induction p generalizing s with
  | done a => exact h
  | sys c k ih => exact ih _ h.2

theorem Along.mono {env : Env} {obs obs' : FS → Prop} (hm : ∀ s, obs s → obs' s) {p : Prog α}
    {s : FS} (h : Along env obs p s) : Along env obs' p s := by
  induction p generalizing s with
  | done a => exact hm _ h
  | sys c k ih => exact ⟨hm _ h.1, ih _ h.2⟩

theorem Along.and {env : Env} {obs obs' : FS → Prop} {p : Prog α} {s : FS}
    (h : Along env obs p s) (h' : Along env obs' p s) : Along env (fun x => obs x ∧ obs' x) p s := by
  induction p generalizing s with
  | done a => exact ⟨h, h'⟩
  | sys c k ih => exact ⟨⟨h.1, h'.1⟩, ih _ h.2 h'.2⟩

theorem Along.untilDone {env : Env} {obs : FS → Prop} {p : Prog α} {s : FS}
    (h : Along env obs p s) : UntilDone env obs p s := by
  induction p generalizing s with
  | done a => trivial
  | sys c k ih => exact ⟨h.1, ih _ h.2⟩

theorem Along.mapRes {env : Env} {obs : FS → Prop} (f : α → β) {p : Prog α} {s : FS}
    (h : Along env obs p s) : Along env obs (p.mapRes f) s := by
  induction p generalizing s with
  | done a => exact h
  | sys c k ih => exact ⟨h.1, ih _ h.2⟩

/-- Sequential composition: all states of the first part, then all states of the second. -/
theorem Along.bind {env : Env} {obs : FS → Prop} {p : Prog α} {f : α → Prog β} {s : FS}
    (h : Along env obs p s) (hf : Along env obs (f (run env p s).1) (run env p s).2.1) :
    Along env obs (Prog.bind p f) s := by
  induction p generalizing s with
  | done a => exact hf
  | sys c k ih => exact ⟨h.1, ih _ h.2 hf⟩

/-- … and the version for `UntilDone`: the first part may not disturb `obs` at all, the second
only with its last call. -/
theorem untilDone_bind {env : Env} {obs : FS → Prop} {p : Prog α} {f : α → Prog β} {s : FS}
    (h : Along env obs p s) (hf : UntilDone env obs (f (run env p s).1) (run env p s).2.1) :
    UntilDone env obs (Prog.bind p f) s := by
  induction p generalizing s with
  | done a => exact hf
  | sys c k ih => exact ⟨h.1, ih _ h.2 hf⟩

/-- A program none of whose possible calls touches `q` leaves the node at `q` what it is, at every
state of its run. -/
theorem along_frame {Ok : α → Prop} {p : Prog α} {q : Path}
    (hp : AllCallsR (Call.avoids q) Ok p) (env : Env) (s : FS) (x : Option Node) (hx : s.get q = x) :
    Along env (fun s' => s'.get q = x) p s := by
  induction p generalizing s with
  | done a => exact hx
  | sys c k ih =>
    exact ⟨hx, ih _ (hp.2 _ (answer_exec env s c)) _
      ((step_frame env s _ c _ .ok q (hp.1 s)).trans hx)⟩

/-- `Q a b` holds for every pair of states `a`, `b` of the solo run with `a` not later than `b`. -/
def Pairs (env : Env) (Q : FS → FS → Prop) : Prog α → FS → Prop
  | .done _, s => Q s s
  | .sys c k, s => Along env (Q s) (.sys c k) s ∧ Pairs env Q (k (exec env s c).2) (exec env s c).1

theorem Pairs.head {env : Env} {Q : FS → FS → Prop} {p : Prog α} {s : FS}
    (h : Pairs env Q p s) : Along env (Q s) p s := by
  cases p with
  | done a => exact h
  | sys c k => exact h.1

theorem Pairs.step {env : Env} {Q : FS → FS → Prop} {p : Prog α} {s : FS}
    (h : Pairs env Q p s) : Pairs env Q (step env p s).1 (step env p s).2 := by
  cases p with
  | done a => exact h
  | sys c k => exact h.2

theorem Pairs.mapRes {env : Env} {Q : FS → FS → Prop} (f : α → β) {p : Prog α} {s : FS}
    (h : Pairs env Q p s) : Pairs env Q (p.mapRes f) s := by
  induction p generalizing s with
  | done a => exact h
  | sys c k ih => exact ⟨Along.mapRes f (p := .sys c k) h.1, ih _ h.2⟩

/-- Pairs from two one-state predicates: `P1` at every state, `P2` at every state. -/
theorem Pairs.of_along {env : Env} {Q : FS → FS → Prop} {P1 P2 : FS → Prop}
    (hQ : ∀ a b, P1 a → P2 b → Q a b) {p : Prog α} {s : FS}
    (h1 : Along env P1 p s) (h2 : Along env P2 p s) : Pairs env Q p s := by
  induction p generalizing s with
  | done a => exact hQ _ _ h1 h2
  | sys c k ih => exact ⟨Along.mono (fun b hb => hQ _ _ h1.1 hb) h2, ih _ h1.2 h2.2⟩

/-- Pairs from `P1` at every state BUT THE LAST and `P2` at every state; the last state is paired
with itself only. -/
theorem Pairs.of_untilDone {env : Env} {Q : FS → FS → Prop} {P1 P2 : FS → Prop}
    (hQ : ∀ a b, P1 a → P2 b → Q a b) {p : Prog α} {s : FS}
    (hfin : Q (run env p s).2.1 (run env p s).2.1)
    (h1 : UntilDone env P1 p s) (h2 : Along env P2 p s) : Pairs env Q p s := by
  induction p generalizing s with
  | done a => exact hfin
  | sys c k ih => exact ⟨Along.mono (fun b hb => hQ _ _ h1.1 hb) h2, ih _ hfin h1.2 h2.2⟩

/-! ### generic: one process next to a TWO-call read-only observer -/

/-- A two-call observer: its first call leaves the filesystem alone, and what remains is a
one-call observer (`Linearize.OneShot`; a finished program is one). -/
def TwoShot (env : Env) (R : Prog α) : Prop :=
  ∀ s, (step env R s).2 = s ∧ OneShot env (step env R s).1

theorem oneShot_done (env : Env) (a : α) : OneShot env (.done a : Prog α) := fun _ => rfl

theorem OneShot.twoShot {env : Env} {R : Prog α} (h : OneShot env R) : TwoShot env R := by
  intro s
  rw [h s]
  exact ⟨rfl, oneShot_done env _⟩

theorem TwoShot.mapRes {env : Env} {R : Prog α} (h : TwoShot env R) (g : α → β) :
    TwoShot env (R.mapRes g) := by
  intro s
  rw [step_mapRes]
  exact ⟨(h s).1, (h s).2.mapRes g⟩

/-- A two-call observer leaves the filesystem alone. -/
theorem TwoShot.after {env : Env} {R : Prog α} (h : TwoShot env R) (s : FS) :
    (run env R s).2.1 = s := by
  have h1 := (run_step env R s).2
  rw [← h1, (h s).1, (h s).2.after]

/-- **Two processes, generic, two-call observer.**  `W` is any program, `R` a two-call read-only
observer.  If for every pair of states `a`, `b` of `W`'s solo run, `a` not later than `b`, the
answer of an observer that makes its first call in `a` and its second in `b` is `good`, then under
EVERY schedule
* when `W` has finished, its result and the filesystem are those of `W` run alone;
* when `R` has finished, its result is `good`. -/
theorem two_step_observer (env : Env) (W R : Prog α) (fs : FS) (good : α → Prop)
    (hR : TwoShot env R)
    (hW : Pairs env (fun a b => good (run env (step env R a).1 b).1) W fs) (sched : List Nat) :
    (∀ a, (interleave env [W, R] fs sched).1[0]? = some (.done a) →
      a = (run env W fs).1 ∧ (interleave env [W, R] fs sched).2 = (run env W fs).2.1) ∧
    (∀ b, (interleave env [W, R] fs sched).1[1]? = some (.done b) → good b) := by
  let I : List (Prog α) → FS → Prop := fun ps s =>
    ∃ p x, ps = [p, x] ∧ (run env p s).1 = (run env W fs).1 ∧
      (run env p s).2.1 = (run env W fs).2.1 ∧
      ((x = R ∧ Pairs env (fun a b => good (run env (step env R a).1 b).1) p s) ∨
       (OneShot env x ∧ Along env (fun b => good (run env x b).1) p s))
  have hI : I (interleave env [W, R] fs sched).1 (interleave env [W, R] fs sched).2 := by
    apply interleave_config_invariant env I
    · rintro ps s i q hget ⟨p, x, rfl, h1, h2, h3⟩
      match i, hget with
      | 0, hget =>
        simp only [List.getElem?_cons_zero, Option.some.injEq] at hget
        subst hget
        refine ⟨_, x, rfl, (run_step env p s).1.trans h1, (run_step env p s).2.trans h2, ?_⟩
        rcases h3 with ⟨hx, hP⟩ | ⟨hx, hA⟩
        · exact Or.inl ⟨hx, hP.step⟩
        · exact Or.inr ⟨hx, hA.step⟩
      | 1, hget =>
        simp only [List.getElem?_cons_succ, List.getElem?_cons_zero, Option.some.injEq] at hget
        subst hget
        rcases h3 with ⟨rfl, hP⟩ | ⟨hx, hA⟩
        · have hs : (step env x s).2 = s := (hR s).1
          rw [hs]
          exact ⟨p, _, rfl, h1, h2, Or.inr ⟨(hR s).2, hP.head⟩⟩
        · rw [hx s]
          refine ⟨p, _, rfl, h1, h2, Or.inr ⟨oneShot_done env _, ?_⟩⟩
          exact Along.mono (fun b _ => hA.head) hA
      | i + 2, hget => simp at hget
    · exact ⟨W, R, rfl, rfl, rfl, Or.inl ⟨rfl, hW⟩⟩
  obtain ⟨p, x, hps, h1, h2, h3⟩ := hI
  rw [hps]
  constructor
  · intro a ha
    simp only [List.getElem?_cons_zero, Option.some.injEq] at ha
    subst ha
    exact ⟨h1, h2⟩
  · intro b hb
    simp only [List.getElem?_cons_succ, List.getElem?_cons_zero, Option.some.injEq] at hb
    subst hb
    rcases h3 with ⟨hx, hP⟩ | ⟨_, hA⟩
    · have := hP.head.head
      rw [← hx] at this
      exact this
    · exact hA.head

theorem Pairs.mono {env : Env} {Q Q' : FS → FS → Prop} (hm : ∀ a b, Q a b → Q' a b) {p : Prog α}
    {s : FS} (h : Pairs env Q p s) : Pairs env Q' p s := by
  induction p generalizing s with
  | done a => exact hm _ _ h
  | sys c k ih => exact ⟨Along.mono (fun b hb => hm _ _ hb) h.1, ih _ h.2⟩

/-- `two_step_observer` for a process and an observer of different result types, embedded into a
common type `γ` by `f` and `g`. -/
theorem reader_linearizable {γ δ ε : Type} (env : Env) (W : Prog δ) (R : Prog ε) (f : δ → γ)
    (g : ε → γ) (fs : FS) (good : ε → Prop) (hR : TwoShot env R)
    (hW : Pairs env (fun a b => good (run env (step env R a).1 b).1) W fs) (sched : List Nat) :
    (∀ c, FinishedWith env [W.mapRes f, R.mapRes g] fs sched 0 c →
      c = f (run env W fs).1 ∧
      (interleave env [W.mapRes f, R.mapRes g] fs sched).2 = (run env W fs).2.1) ∧
    (∀ c, FinishedWith env [W.mapRes f, R.mapRes g] fs sched 1 c → ∃ r, c = g r ∧ good r) := by
  have h := two_step_observer env (W.mapRes f) (R.mapRes g) fs (fun c => ∃ r, c = g r ∧ good r)
    (hR.mapRes g) (Pairs.mapRes f (Pairs.mono (fun a b hab => by
      show ∃ r, (run env (step env (R.mapRes g) a).1 b).1 = g r ∧ good r
      rw [step_mapRes]
      exact ⟨_, (run_mapRes env g _ b).1, hab⟩) hW)) sched
  simp only [(run_mapRes env f W fs).1, (run_mapRes env f W fs).2] at h
  exact h

/-- The "before or after" reading: the observer's answer is its answer run alone before `W` or
alone after `W`. -/
theorem reader_before_or_after {γ δ ε : Type} (env : Env) (W : Prog δ) (R : Prog ε) (f : δ → γ)
    (g : ε → γ) (fs : FS) (hR : TwoShot env R)
    (hW : Pairs env (fun a b => (run env (step env R a).1 b).1 = (run env R fs).1 ∨
      (run env (step env R a).1 b).1 = (run env R (run env W fs).2.1).1) W fs) (sched : List Nat) :
    (∀ c, FinishedWith env [W.mapRes f, R.mapRes g] fs sched 1 c →
      c = g (run env R fs).1 ∨ c = g (run env R (run env W fs).2.1).1) ∧
    (∀ c, FinishedWith env [W.mapRes f, R.mapRes g] fs sched 0 c →
      c = f (run env W fs).1 ∧
      (interleave env [W.mapRes f, R.mapRes g] fs sched).2 = (run env W fs).2.1) := by
  obtain ⟨h0, h1⟩ := reader_linearizable env W R f g fs
    (fun r => r = (run env R fs).1 ∨ r = (run env R (run env W fs).2.1).1) hR hW sched
  refine ⟨fun c hc => ?_, h0⟩
  obtain ⟨r, rfl, hr⟩ := h1 c hc
  rcases hr with e | e
  · exact Or.inl (by rw [e])
  · exact Or.inr (by rw [e])

/-- The answer of a two-call observer run alone: first call, then the rest, in the same state. -/
theorem TwoShot.run_eq {env : Env} {R : Prog α} (h : TwoShot env R) (s : FS) :
    (run env (step env R s).1 s).1 = (run env R s).1 := by
  have := (run_step env R s).1
  rw [(h s).1] at this
  exact this

/-- Criterion 1 (the observer's FIRST view changes with the last call of `W` only, its second view
— for what it saw first initially — never): index mutators, writers of other content. -/
theorem pairs_of_first_last {env : Env} {W : Prog α} {R : Prog β} {fs : FS} (hR : TwoShot env R)
    (h1 : UntilDone env (fun a => (step env R a).1 = (step env R fs).1) W fs)
    (h2 : Along env (fun b => (run env (step env R fs).1 b).1 = (run env (step env R fs).1 fs).1) W fs) :
    Pairs env (fun a b => (run env (step env R a).1 b).1 = (run env R fs).1 ∨
      (run env (step env R a).1 b).1 = (run env R (run env W fs).2.1).1) W fs := by
  refine Pairs.of_untilDone (fun a b ha hb => ?_) ?_ h1 h2
  · left
    rw [ha, hb, hR.run_eq]
  · right
    rw [hR.run_eq]

/-- Criterion 2 (the observer's first view never changes): content mutators.  What is left to
show is that the second view, for what the observer saw first, is the initial or the final one
at every state. -/
theorem pairs_of_first_const {env : Env} {W : Prog α} {R : Prog β} {fs : FS}
    (h1 : Along env (fun a => (step env R a).1 = (step env R fs).1) W fs)
    (h2 : Along env (fun b => (run env (step env R fs).1 b).1 = (run env R fs).1 ∨
      (run env (step env R fs).1 b).1 = (run env R (run env W fs).2.1).1) W fs) :
    Pairs env (fun a b => (run env (step env R a).1 b).1 = (run env R fs).1 ∨
      (run env (step env R a).1 b).1 = (run env R (run env W fs).2.1).1) W fs :=
  Pairs.of_along (fun a b ha hb => by rw [ha]; exact hb) h1 h2

/-! ### the library's readers -/

variable (cfg : Cfg) (env : Env) (cache : Path)

/-- The second half of `read`: what is done with the answer of the index lookup. -/
def readK (x : Res (Option Meta)) : Prog (Res Bytes) :=
  match x with
  | .error e => .done (.error e)
  | .ok none => .done (.error .notFound)
  | .ok (some m) => readHash cfg cache m.sri

theorem read_eq (key : Bytes) :
    read cfg cache key = Prog.bind (find cfg cache key) (readK cfg cache) := rfl

theorem readHash_oneShot (sri : Integrity) : OneShot env (readHash cfg cache sri) := by
  intro s
  unfold readHash
  cases contentPath cache sri with
  | none => rfl
  | some cp =>
    simp only [bind_eq, pure_eq, call, bind_sys, bind_done, step, run, exec]
    cases s.readFile cp with
    | ok b => simp only; split <;> rfl
    | error e => rfl

theorem existsHash_oneShot (sri : Integrity) : OneShot env (existsHash cache sri) := by
  intro s
  unfold existsHash
  cases contentPath cache sri with
  | none => rfl
  | some cp => rfl

theorem readK_oneShot (x : Res (Option Meta)) : OneShot env (readK cfg cache x) := by
  unfold readK
  split
  · exact oneShot_done env _
  · exact oneShot_done env _
  · exact readHash_oneShot cfg env cache _

/-- The first call of `read` is the index lookup; what remains is `readK` of its answer. -/
theorem read_step (key : Bytes) (s : FS) :
    step env (read cfg cache key) s = (readK cfg cache (run env (find cfg cache key) s).1, s) := by
  rw [read_eq]
  unfold find bucketEntries
  simp only [bind_eq, pure_eq, call, bind_sys, bind_done, step, run, exec]
  cases s.readFile (bucketPath cfg cache key) with
  | ok b => rfl
  | error e => cases e <;> rfl

theorem read_twoShot (key : Bytes) : TwoShot env (read cfg cache key) := by
  intro s
  rw [read_step]
  exact ⟨rfl, readK_oneShot cfg env cache _⟩


/-! ### what the content read sees -/

theorem Along.of_all {env : Env} {obs : FS → Prop} (h : ∀ s, obs s) (p : Prog α) (s : FS) :
    Along env obs p s := by
  induction p generalizing s with
  | done a => exact h s
  | sys c k ih => exact ⟨h s, ih _ _⟩

/-- Reading a path that is not a symbolic link depends on the node at that path only. -/
theorem readFile_congr {s s' : FS} {p : Path} (h : s'.get p = s.get p)
    (hl : ∀ t, s.get p ≠ some (.link t)) : s'.readFile p = s.readFile p := by
  have hr : ∀ x : FS, x.get p = s.get p → FS.resolve x FS.resolveFuel p = some p := by
    intro x hx
    simp only [FS.resolveFuel, FS.resolve]
    rw [hx]
    split
    · rename_i t ht
      exact absurd ht (hl t)
    · rfl
  unfold FS.readFile
  rw [hr s rfl, hr s' h]
  simp only [h]

theorem existsFollow_congr {s s' : FS} {p : Path} (h : s'.get p = s.get p)
    (hl : ∀ t, s.get p ≠ some (.link t)) : s'.existsFollow p = s.existsFollow p := by
  have hr : ∀ x : FS, x.get p = s.get p → FS.resolve x FS.resolveFuel p = some p := by
    intro x hx
    simp only [FS.resolveFuel, FS.resolve]
    rw [hx]
    split
    · rename_i t ht
      exact absurd ht (hl t)
    · rfl
  unfold FS.existsFollow
  rw [hr s rfl, hr s' h]
  simp only [h]

/-- The content file of `sri` is not a symbolic link (no `link_to` content at that address). -/
def PlainAt (fs : FS) (sri : Integrity) : Prop :=
  ∀ cp t, contentPath cache sri = some cp → fs.get cp ≠ some (.link t)

/-- A verified read by address depends on the node at the content path only. -/
theorem readHash_congr (sri : Integrity) (cp : Path) (hcp : contentPath cache sri = some cp)
    {s s' : FS} (h : s'.get cp = s.get cp) (hl : ∀ t, s.get cp ≠ some (.link t)) :
    (run env (readHash cfg cache sri) s').1 = (run env (readHash cfg cache sri) s).1 := by
  unfold readHash
  rw [hcp]
  simp only [bind_eq, pure_eq, call, bind_sys, bind_done, run, exec, readFile_congr h hl]
  cases s.readFile cp with
  | ok b => simp only; split <;> rfl
  | error e => rfl

theorem existsHash_congr (sri : Integrity) (cp : Path) (hcp : contentPath cache sri = some cp)
    {s s' : FS} (h : s'.get cp = s.get cp) (hl : ∀ t, s.get cp ≠ some (.link t)) :
    (run env (existsHash cache sri) s').1 = (run env (existsHash cache sri) s).1 := by
  unfold existsHash
  rw [hcp]
  simp only [bind_eq, pure_eq, call, bind_sys, bind_done, run, exec, existsFollow_congr h hl]

/-- The content files the entry found by a lookup names are not symbolic links. -/
def PlainFor (fs : FS) (x : Res (Option Meta)) : Prop :=
  ∀ m, x = .ok (some m) → PlainAt cache fs m.sri

/-- A program whose run leaves alone the node at the content path the lookup's answer `x` names
leaves the second half of the read what it is, at every state of that run. -/
theorem readK_stable' {p : Prog α} (x : Res (Option Meta)) (fs : FS)
    (hpl : PlainFor cache fs x)
    (hal : ∀ m cp, x = .ok (some m) → contentPath cache m.sri = some cp →
      Along env (fun s => s.get cp = fs.get cp) p fs) :
    Along env (fun b => (run env (readK cfg cache x) b).1 = (run env (readK cfg cache x) fs).1)
      p fs := by
  match x, hpl, hal with
  | .error e, _, _ => exact Along.of_all (fun _ => rfl) _ _
  | .ok none, _, _ => exact Along.of_all (fun _ => rfl) _ _
  | .ok (some m), hpl, hal =>
    show Along env (fun b => (run env (readHash cfg cache m.sri) b).1 =
      (run env (readHash cfg cache m.sri) fs).1) p fs
    cases hcp : contentPath cache m.sri with
    | none =>
      refine Along.of_all (fun s => ?_) _ _
      unfold readHash
      rw [hcp]
      rfl
    | some cp =>
      exact (hal m cp rfl hcp).mono
        (fun b hb => readHash_congr cfg env cache m.sri cp hcp hb (fun t => hpl m rfl cp t hcp))

/-- … in particular a program none of whose possible calls touches that path. -/
theorem readK_stable {Ok : α → Prop} {p : Prog α} (x : Res (Option Meta)) (fs : FS)
    (hpl : PlainFor cache fs x)
    (hav : ∀ m cp, x = .ok (some m) → contentPath cache m.sri = some cp →
      AllCallsR (Call.avoids cp) Ok p) :
    Along env (fun b => (run env (readK cfg cache x) b).1 = (run env (readK cfg cache x) fs).1)
      p fs :=
  readK_stable' cfg env cache x fs hpl (fun m cp hx hcp => along_frame (hav m cp hx hcp) env fs _ rfl)

/-! ### T1: by-address observers next to `removeHash` -/

/-- `removeHash` makes at most one call: whatever is observed changes with its last call. -/
theorem removeHash_untilDone (obs : FS → Prop) (sri : Integrity) (fs : FS) (h : obs fs) :
    UntilDone env obs (removeHash cache sri) fs := by
  unfold removeHash
  cases contentPath cache sri with
  | none => trivial
  | some cp =>
    simp only [bind_eq, pure_eq, call, bind_sys, bind_done, untilDone_sys]
    refine ⟨h, ?_⟩
    split <;> trivial

/-- **Any one-call observer next to `removeHash`** (every schedule): the observer answers as alone
before or alone after the removal; the removal answers, and leaves the filesystem, as alone. -/
theorem oneShot_removeHash_linearizable {γ ε : Type} (R : Prog ε) (hR : OneShot env R)
    (f : Res Unit → γ) (g : ε → γ) (sri' : Integrity) (fs : FS) (sched : List Nat) :
    (∀ c, FinishedWith env [(removeHash cache sri').mapRes f, R.mapRes g] fs sched 1 c →
      c = g (run env R fs).1 ∨ c = g (run env R (run env (removeHash cache sri') fs).2.1).1) ∧
    (∀ c, FinishedWith env [(removeHash cache sri').mapRes f, R.mapRes g] fs sched 0 c →
      c = f (run env (removeHash cache sri') fs).1 ∧
      (interleave env [(removeHash cache sri').mapRes f, R.mapRes g] fs sched).2 =
        (run env (removeHash cache sri') fs).2.1) :=
  (observer_linearizable env _ _ f g fs hR (removeHash_untilDone env cache _ sri' fs rfl) sched).symm

/-- **(T1) `readHash ∥ removeHash`**, any two addresses, any filesystem, every schedule. -/
theorem readHash_removeHash_linearizable {γ : Type} (f : Res Unit → γ) (g : Res Bytes → γ)
    (sri sri' : Integrity) (fs : FS) (sched : List Nat) :
    (∀ c, FinishedWith env [(removeHash cache sri').mapRes f, (readHash cfg cache sri).mapRes g] fs sched 1 c →
      c = g (run env (readHash cfg cache sri) fs).1 ∨
      c = g (run env (readHash cfg cache sri) (run env (removeHash cache sri') fs).2.1).1) ∧
    (∀ c, FinishedWith env [(removeHash cache sri').mapRes f, (readHash cfg cache sri).mapRes g] fs sched 0 c →
      c = f (run env (removeHash cache sri') fs).1 ∧
      (interleave env [(removeHash cache sri').mapRes f, (readHash cfg cache sri).mapRes g] fs sched).2 =
        (run env (removeHash cache sri') fs).2.1) :=
  oneShot_removeHash_linearizable env cache _ (readHash_oneShot cfg env cache sri) f g sri' fs sched

/-- The sum-type reading: `r` is the reader's own result. -/
theorem readHash_removeHash_sum (sri sri' : Integrity) (fs : FS) (sched : List Nat) (r : Res Bytes)
    (hfin : FinishedWith env [(removeHash cache sri').mapRes Sum.inl,
      (readHash cfg cache sri).mapRes (Sum.inr : _ → Res Unit ⊕ Res Bytes)] fs sched 1 (.inr r)) :
    r = (run env (readHash cfg cache sri) fs).1 ∨
    r = (run env (readHash cfg cache sri) (run env (removeHash cache sri') fs).2.1).1 := by
  rcases (readHash_removeHash_linearizable cfg env cache Sum.inl Sum.inr sri sri' fs sched).1 _ hfin
    with h | h
  · exact Or.inl (Sum.inr.inj h)
  · exact Or.inr (Sum.inr.inj h)

/-- **(T1) `existsHash ∥ removeHash`.** -/
theorem existsHash_removeHash_linearizable {γ : Type} (f : Res Unit → γ) (g : Res Bool → γ)
    (sri sri' : Integrity) (fs : FS) (sched : List Nat) :
    (∀ c, FinishedWith env [(removeHash cache sri').mapRes f, (existsHash cache sri).mapRes g] fs sched 1 c →
      c = g (run env (existsHash cache sri) fs).1 ∨
      c = g (run env (existsHash cache sri) (run env (removeHash cache sri') fs).2.1).1) ∧
    (∀ c, FinishedWith env [(removeHash cache sri').mapRes f, (existsHash cache sri).mapRes g] fs sched 0 c →
      c = f (run env (removeHash cache sri') fs).1 ∧
      (interleave env [(removeHash cache sri').mapRes f, (existsHash cache sri).mapRes g] fs sched).2 =
        (run env (removeHash cache sri') fs).2.1) :=
  oneShot_removeHash_linearizable env cache _ (existsHash_oneShot env cache sri) f g sri' fs sched


/-! ### T2: `read` next to an index mutator -/

/-- The first call of `read` sees the bucket's bytes. -/
theorem read_step_of_bucketIs (key : Bytes) (s : FS) (b : Bytes)
    (h : BucketIs s (bucketPath cfg cache key) b) :
    (step env (read cfg cache key) s).1 =
      readK cfg cache (.ok ((codec cfg).findIn key ((codec cfg).entries b))) := by
  rw [read_step, find_of_bucketIs cfg env cache key s b h]

theorem bucket_ne_contentPath (key : Bytes) {sri : Integrity} {cp : Path}
    (hcp : contentPath cache sri = some cp) : bucketPath cfg cache key ≠ cp := by
  intro e
  have h1 := bucket_inIndex cfg cache key
  rw [e] at h1
  exact dIndex_ne_dContent (inArea_disjoint h1 (inArea_contentPath hcp))

/-- Index insertion never touches a content path. -/
theorem insert_avoids_content (key : Bytes) (o : WriteOpts) {sri : Integrity} {cp : Path}
    (hcp : contentPath cache sri = some cp) :
    AllCalls (Call.avoids cp) (insert cfg cache key o) :=
  (insert_areas cfg cache key o).mono
    (fun _ hc => hc.avoids (inArea_contentPath hcp) (by decide)) (fun _ h => h)

theorem delete_avoids_content (key : Bytes) {sri : Integrity} {cp : Path}
    (hcp : contentPath cache sri = some cp) :
    AllCalls (Call.avoids cp) (delete cfg cache key) := by
  unfold delete
  simp only [bind_eq, pure_eq]
  apply AllCallsR.bind (insert_avoids_content cfg cache key {} hcp)
  intro r _
  split <;> trivial

/-- **`read` next to any index-only mutator `W`** — a program that changes the reader's bucket with
its last call only and touches no content path.  Hypotheses on the state: the reader's bucket is a
regular file or absent (`BucketIs`, as for `Linearize.lookup_linearizable_insert`), and the content
file of the entry the key has INITIALLY is not a symbolic link (`PlainFor`; nothing is asked of
its bytes: present, absent, corrupt, a directory — all allowed). -/
theorem read_indexMutator_linearizable {γ δ : Type} (W : Prog δ) (f : δ → γ) (g : Res Bytes → γ)
    (key' : Bytes) (b : Bytes) (fs : FS)
    (hb : BucketIs fs (bucketPath cfg cache key') b)
    (hpl : PlainFor cache fs (.ok ((codec cfg).findIn key' ((codec cfg).entries b))))
    (hW1 : UntilDone env (fun s => BucketIs s (bucketPath cfg cache key') b) W fs)
    (hW2 : ∀ sri cp, contentPath cache sri = some cp → AllCalls (Call.avoids cp) W)
    (sched : List Nat) :
    (∀ c, FinishedWith env [W.mapRes f, (read cfg cache key').mapRes g] fs sched 1 c →
      c = g (run env (read cfg cache key') fs).1 ∨
      c = g (run env (read cfg cache key') (run env W fs).2.1).1) ∧
    (∀ c, FinishedWith env [W.mapRes f, (read cfg cache key').mapRes g] fs sched 0 c →
      c = f (run env W fs).1 ∧
      (interleave env [W.mapRes f, (read cfg cache key').mapRes g] fs sched).2 = (run env W fs).2.1) := by
  refine reader_before_or_after env W _ f g fs (read_twoShot cfg env cache key')
    (pairs_of_first_last (read_twoShot cfg env cache key') ?_ ?_) sched
  · exact hW1.mono (fun a ha => by
      rw [read_step_of_bucketIs cfg env cache key' a b ha,
        read_step_of_bucketIs cfg env cache key' fs b hb])
  · rw [read_step_of_bucketIs cfg env cache key' fs b hb]
    exact readK_stable cfg env cache _ fs hpl (fun m cp _ hcp => hW2 m.sri cp hcp)

/-- **(T2) `read key' ∥ insert key o`**, any keys (same key, same bucket, different buckets), any
options, every schedule: the finished reader answers as `read` alone before or alone after the
insertion; the finished insertion answers, and leaves the filesystem, as alone. -/
theorem read_insert_linearizable {γ : Type} (f : Res Integrity → γ) (g : Res Bytes → γ)
    (key key' : Bytes) (o : WriteOpts) (b : Bytes) (fs : FS)
    (hb : BucketIs fs (bucketPath cfg cache key') b)
    (hpl : PlainFor cache fs (.ok ((codec cfg).findIn key' ((codec cfg).entries b))))
    (sched : List Nat) :
    (∀ c, FinishedWith env [(insert cfg cache key o).mapRes f, (read cfg cache key').mapRes g] fs sched 1 c →
      c = g (run env (read cfg cache key') fs).1 ∨
      c = g (run env (read cfg cache key') (run env (insert cfg cache key o) fs).2.1).1) ∧
    (∀ c, FinishedWith env [(insert cfg cache key o).mapRes f, (read cfg cache key').mapRes g] fs sched 0 c →
      c = f (run env (insert cfg cache key o) fs).1 ∧
      (interleave env [(insert cfg cache key o).mapRes f, (read cfg cache key').mapRes g] fs sched).2 =
        (run env (insert cfg cache key o) fs).2.1) :=
  read_indexMutator_linearizable cfg env cache _ f g key' b fs hb hpl
    (insert_untilDone cfg env cache key key' o b fs hb)
    (fun _ _ hcp => insert_avoids_content cfg cache key o hcp) sched

/-- **(T2) `read key' ∥ delete key`.** -/
theorem read_delete_linearizable {γ : Type} (f : Res Unit → γ) (g : Res Bytes → γ)
    (key key' : Bytes) (b : Bytes) (fs : FS)
    (hb : BucketIs fs (bucketPath cfg cache key') b)
    (hpl : PlainFor cache fs (.ok ((codec cfg).findIn key' ((codec cfg).entries b))))
    (sched : List Nat) :
    (∀ c, FinishedWith env [(delete cfg cache key).mapRes f, (read cfg cache key').mapRes g] fs sched 1 c →
      c = g (run env (read cfg cache key') fs).1 ∨
      c = g (run env (read cfg cache key') (run env (delete cfg cache key) fs).2.1).1) ∧
    (∀ c, FinishedWith env [(delete cfg cache key).mapRes f, (read cfg cache key').mapRes g] fs sched 0 c →
      c = f (run env (delete cfg cache key) fs).1 ∧
      (interleave env [(delete cfg cache key).mapRes f, (read cfg cache key').mapRes g] fs sched).2 =
        (run env (delete cfg cache key) fs).2.1) :=
  read_indexMutator_linearizable cfg env cache _ f g key' b fs hb hpl
    (delete_untilDone cfg env cache key key' b fs hb)
    (fun _ _ hcp => delete_avoids_content cfg cache key hcp) sched

/-- The sum-type reading: `r` is the reader's own result. -/
theorem read_insert_sum (key key' : Bytes) (o : WriteOpts) (b : Bytes) (fs : FS)
    (hb : BucketIs fs (bucketPath cfg cache key') b)
    (hpl : PlainFor cache fs (.ok ((codec cfg).findIn key' ((codec cfg).entries b))))
    (sched : List Nat) (r : Res Bytes)
    (hfin : FinishedWith env [(insert cfg cache key o).mapRes Sum.inl,
      (read cfg cache key').mapRes (Sum.inr : _ → Res Integrity ⊕ Res Bytes)] fs sched 1 (.inr r)) :
    r = (run env (read cfg cache key') fs).1 ∨
    r = (run env (read cfg cache key') (run env (insert cfg cache key o) fs).2.1).1 := by
  rcases (read_insert_linearizable cfg env cache Sum.inl Sum.inr key key' o b fs hb hpl sched).1 _ hfin
    with h | h
  · exact Or.inl (Sum.inr.inj h)
  · exact Or.inr (Sum.inr.inj h)

theorem read_delete_sum (key key' : Bytes) (b : Bytes) (fs : FS)
    (hb : BucketIs fs (bucketPath cfg cache key') b)
    (hpl : PlainFor cache fs (.ok ((codec cfg).findIn key' ((codec cfg).entries b))))
    (sched : List Nat) (r : Res Bytes)
    (hfin : FinishedWith env [(delete cfg cache key).mapRes Sum.inl,
      (read cfg cache key').mapRes (Sum.inr : _ → Res Unit ⊕ Res Bytes)] fs sched 1 (.inr r)) :
    r = (run env (read cfg cache key') fs).1 ∨
    r = (run env (read cfg cache key') (run env (delete cfg cache key) fs).2.1).1 := by
  rcases (read_delete_linearizable cfg env cache Sum.inl Sum.inr key key' b fs hb hpl sched).1 _ hfin
    with h | h
  · exact Or.inl (Sum.inr.inj h)
  · exact Or.inr (Sum.inr.inj h)

/-! ### T3: `read` next to `removeHash` -/

/-- At most one call. -/
def AtMostOne : Prog α → Prop
  | .done _ => True
  | .sys _ k => ∀ r, ∃ a, k r = .done a

theorem along_of_first_last {env : Env} {obs : FS → Prop} {p : Prog α} (hp : AtMostOne p) {s : FS}
    (h0 : obs s) (h1 : obs (run env p s).2.1) : Along env obs p s := by
  cases p with
  | done a => exact h0
  | sys c k =>
    obtain ⟨a, ha⟩ := hp (exec env s c).2
    refine ⟨h0, ?_⟩
    simp only [run] at h1
    rw [ha] at h1 ⊢
    exact h1

theorem removeHash_atMostOne (sri : Integrity) : AtMostOne (removeHash cache sri) := by
  unfold removeHash
  cases contentPath cache sri with
  | none => trivial
  | some cp =>
    intro r
    simp only [pure_eq, bind_done]
    split <;> exact ⟨_, rfl⟩

/-- `removeHash` touches nothing but content paths. -/
theorem removeHash_avoids (sri : Integrity) {q : Path}
    (hq : ∀ sri' cp, contentPath cache sri' = some cp → q ≠ cp) :
    AllCalls (Call.avoids q) (removeHash cache sri) := by
  unfold removeHash
  cases hcp : contentPath cache sri with
  | none => trivial
  | some cp =>
    simp only [bind_eq, pure_eq, call, bind_sys, bind_done, allCallsR_sys]
    refine ⟨fun s ht => hq sri cp hcp (by simpa [Call.touches] using ht), fun r _ => ?_⟩
    split <;> trivial

/-- **(T3) `read key' ∥ removeHash sri`**, any `sri` — in particular the address the key's entry
names —, every schedule: the finished reader answers as `read` alone before or alone after the
removal ("after" is the I/O not-found error of the content read when the file was there and is the
one removed; the interleaving in which the file disappears BETWEEN the reader's two calls gives
exactly that answer).  Only hypothesis: the reader's bucket is a regular file or absent; nothing
is asked of the content store. -/
theorem read_removeHash_linearizable {γ : Type} (f : Res Unit → γ) (g : Res Bytes → γ)
    (key' : Bytes) (sri : Integrity) (b : Bytes) (fs : FS)
    (hb : BucketIs fs (bucketPath cfg cache key') b) (sched : List Nat) :
    (∀ c, FinishedWith env [(removeHash cache sri).mapRes f, (read cfg cache key').mapRes g] fs sched 1 c →
      c = g (run env (read cfg cache key') fs).1 ∨
      c = g (run env (read cfg cache key') (run env (removeHash cache sri) fs).2.1).1) ∧
    (∀ c, FinishedWith env [(removeHash cache sri).mapRes f, (read cfg cache key').mapRes g] fs sched 0 c →
      c = f (run env (removeHash cache sri) fs).1 ∧
      (interleave env [(removeHash cache sri).mapRes f, (read cfg cache key').mapRes g] fs sched).2 =
        (run env (removeHash cache sri) fs).2.1) := by
  have hR := read_twoShot cfg env cache key'
  have h1 : Along env (fun a => (step env (read cfg cache key') a).1 = (step env (read cfg cache key') fs).1)
      (removeHash cache sri) fs :=
    (along_frame (removeHash_avoids cache sri
      (fun _ _ hcp => bucket_ne_contentPath cfg cache key' hcp)) env fs _ rfl).mono (fun a ha => by
        rw [read_step_of_bucketIs cfg env cache key' a b (hb.frame ha),
          read_step_of_bucketIs cfg env cache key' fs b hb])
  refine reader_before_or_after env _ _ f g fs hR (pairs_of_first_const h1 ?_) sched
  refine along_of_first_last (removeHash_atMostOne cache sri) (Or.inl (hR.run_eq fs)) (Or.inr ?_)
  rw [← h1.final, hR.run_eq]

theorem read_removeHash_sum (key' : Bytes) (sri : Integrity) (b : Bytes) (fs : FS)
    (hb : BucketIs fs (bucketPath cfg cache key') b) (sched : List Nat) (r : Res Bytes)
    (hfin : FinishedWith env [(removeHash cache sri).mapRes Sum.inl,
      (read cfg cache key').mapRes (Sum.inr : _ → Res Unit ⊕ Res Bytes)] fs sched 1 (.inr r)) :
    r = (run env (read cfg cache key') fs).1 ∨
    r = (run env (read cfg cache key') (run env (removeHash cache sri) fs).2.1).1 := by
  rcases (read_removeHash_linearizable cfg env cache Sum.inl Sum.inr key' sri b fs hb sched).1 _ hfin
    with h | h
  · exact Or.inl (Sum.inr.inj h)
  · exact Or.inr (Sum.inr.inj h)


/-! ### walking through a whole writer -/

/-- An observation that depends on the node at `q` only holds at every state of the run of a
program confined to areas other than the one `q` lies in. -/
theorem along_of_areas {Ok : α → Prop} {obs : FS → Prop} {q : Path} {top : Bytes}
    (hdep : ∀ s s' : FS, s'.get q = s.get q → obs s → obs s') (hq : InArea cache top q)
    {tops : List Bytes} (hnot : top ∉ tops) {p : Prog α}
    (hp : AllCallsR (Call.inAreas cache tops) Ok p) (s : FS) (h : obs s) : Along env obs p s := by
  induction p generalizing s with
  | done a => exact h
  | sys c k ih =>
    exact ⟨h, ih _ (hp.2 _ (answer_exec env s c)) _
      (hdep _ _ (step_frame env s _ c _ .ok q (hp.1.avoids hq hnot s)) h)⟩

/-- What is known of the writer `wopen` hands out, whatever the calls answer. -/
theorem wopen_props (fl : Flavour) (key : Option Bytes) (o : WriteOpts) :
    AllCallsR (Call.inAreas cache [dTmp])
      (fun r => ∀ w, r = .ok w → w.cache = cache ∧ w.Ok ∧ w.key = key ∧ w.hashed = [] ∧
        w.algo = o.algo.getD .sha256)
      (wopen cfg fl cache key o) := by
  unfold wopen dropTmp
  repeat' ac_step
  all_goals first
    | (intro w hw; cases hw; exact ⟨rfl, tmp_of_answer (by assumption), rfl, rfl, rfl⟩)
    | (intro w hw; cases hw)
    | ar_leaf


theorem run_sys_res (env : Env) (c : Call) (k : Ret → Prog α) (fs : FS) :
    (run env (.sys c k) fs).1 = (run env (k (exec env fs c).2) (exec env fs c).1).1 := rfl

theorem run_bind_res (env : Env) (p : Prog α) (f : α → Prog β) (fs : FS) :
    (run env (Prog.bind p f) fs).1 = (run env (f (run env p fs).1) (run env p fs).2.1).1 := by
  rw [run_bind]

theorem run_bind_fs (env : Env) (p : Prog α) (f : α → Prog β) (fs : FS) :
    (run env (Prog.bind p f) fs).2.1 = (run env (f (run env p fs).1) (run env p fs).2.1).2.1 := by
  rw [run_bind]

theorem exec_writeAt_ret (env : Env) (s : FS) (p : Path) (off : Nat) (d : Bytes) :
    (exec env s (.writeAt p off d)).2 = .nat d.length ∨
    (exec env s (.writeAt p off d)).2 = .err .notFound := by
  simp only [exec]
  split
  · exact Or.inl rfl
  · exact Or.inr rfl

/-- A successful plain write has hashed all of the chunk (healthy semantics: `write` is never
short). -/
theorem plainWrite_hashed (w : Writer) (d : Bytes) (s : FS) (w1 : Writer) (n : Nat)
    (h : (run env (plainWrite w d) s).1 = .ok (w1, n)) :
    w1.hashed = w.hashed ++ d ∧ w1.algo = w.algo := by
  unfold plainWrite at h
  simp only [bind_eq, pure_eq, call, bind_sys, bind_done, run_sys_res] at h
  rcases exec_writeAt_ret env s w.tmp w.pos d with e | e
  · rw [e] at h
    simp only [run] at h
    cases h
    exact ⟨by simp, rfl⟩
  · rw [e] at h
    simp only [run] at h
    cases h

theorem wwrite_hashed (w : Writer) (d : Bytes) (s : FS) (w1 : Writer) (n : Nat)
    (h : (run env (wwrite w d) s).1 = .ok (w1, n)) :
    w1.hashed = w.hashed ++ d ∧ w1.algo = w.algo := by
  unfold wwrite at h
  split at h
  · split at h
    · simp only [bind_eq, pure_eq, call, bind_sys, bind_done, run_sys_res] at h
      split at h
      · simp only [run] at h; cases h
      · simp only [run] at h; cases h; exact ⟨rfl, rfl⟩
    · simp only [bind_eq, pure_eq, call, bind_sys, bind_done, run_sys_res] at h
      split at h
      · simp only [run] at h; cases h
      · exact plainWrite_hashed env { w with mmap := none } d _ w1 n h
  · exact plainWrite_hashed env w d s w1 n h

/-- A successful `write_all` of a list of chunks has hashed their concatenation. -/
theorem wwriteAll_hashed (w : Writer) (ds : List Bytes) (s : FS) (w' : Writer)
    (h : (run env (wwriteAll w ds) s).1 = .ok w') :
    w'.hashed = w.hashed ++ ds.flatten ∧ w'.algo = w.algo := by
  induction ds generalizing w s with
  | nil =>
    unfold wwriteAll at h
    cases h
    exact ⟨by simp, rfl⟩
  | cons d ds ih =>
    unfold wwriteAll at h
    split at h
    · rename_i hemp
      have hd : d = [] := by simpa using hemp
      obtain ⟨h1, h2⟩ := ih w s h
      exact ⟨by simp [h1, hd], h2⟩
    · simp only [bind_eq, pure_eq, run_bind_res] at h
      cases hr : (run env (wwrite w d) s).1 with
      | error e => rw [hr] at h; simp only [run] at h; cases h
      | ok x =>
        obtain ⟨w1, n⟩ := x
        rw [hr] at h
        obtain ⟨g1, g2⟩ := wwrite_hashed env w d s w1 n hr
        obtain ⟨h1, h2⟩ := ih w1 _ h
        exact ⟨by rw [h1, g1]; simp, h2.trans g2⟩


/-- What `Along` and `UntilDone` have in common, as far as the walk through a writer needs it. -/
structure Walk (env : Env) (obs : FS → Prop) (X : Prog (Res Integrity) → FS → Prop) : Prop where
  bind : ∀ {β : Type} (p : Prog β) (f : β → Prog (Res Integrity)) (s : FS),
    Along env obs p s → X (f (run env p s).1) (run env p s).2.1 → X (Prog.bind p f) s
  done : ∀ a s, obs s → X (.done a) s

theorem walk_along (obs : FS → Prop) : Walk env obs (Along env obs) :=
  ⟨fun _ _ _ h hf => h.bind hf, fun _ _ h => h⟩

theorem walk_untilDone (obs : FS → Prop) : Walk env obs (UntilDone env obs) :=
  ⟨fun _ _ _ h hf => untilDone_bind h hf, fun _ _ _ => trivial⟩

/-- **The walk through a whole writer** for an observation `obs` that depends only on the node at
a path `q` outside `<cache>/tmp`: opening, feeding and dropping the temp file leave `obs` alone;
what is left to show is the commit, for a writer that has hashed exactly the chunks fed. -/
theorem writeStream_walk {obs : FS → Prop} {X : Prog (Res Integrity) → FS → Prop}
    (hX : Walk env obs X) {q : Path} {top : Bytes}
    (hdep : ∀ s s' : FS, s'.get q = s.get q → obs s → obs s') (hq : InArea cache top q)
    (hne : top ≠ dTmp) (fl : Flavour) (key : Option Bytes) (o : WriteOpts) (chunks : List Bytes)
    (fs : FS) (h0 : obs fs)
    (hcommit : ∀ w s, w.cache = cache → w.Ok → w.key = key → w.hashed = chunks.flatten →
      w.algo = o.algo.getD .sha256 → obs s → X (wcommit cfg w) s) :
    X (writeStream cfg cache fl key o chunks) fs := by
  have hnot : top ∉ [dTmp] := by simpa using hne
  have ho := wopen_props cfg cache fl key o
  have ha1 := along_of_areas env cache hdep hq hnot ho fs h0
  unfold writeStream
  simp only [bind_eq, pure_eq]
  apply hX.bind _ _ _ ha1
  have hs1 := ha1.final
  have hr1 := ho.result env fs
  cases hres : (run env (wopen cfg fl cache key o) fs).1 with
  | error e => exact hX.done _ _ hs1
  | ok w =>
    obtain ⟨hc, hok, hk, hh, ha⟩ := hr1 w hres
    simp only
    have hwa := wwriteAll_areas w chunks hok
    rw [hc] at hwa
    have ha2 := along_of_areas env cache hdep hq hnot hwa _ hs1
    apply hX.bind _ _ _ ha2
    have hs2 := ha2.final
    have hr2 := hwa.result env (run env (wopen cfg fl cache key o) fs).2.1
    cases hres2 : (run env (wwriteAll w chunks) (run env (wopen cfg fl cache key o) fs).2.1).1 with
    | error e =>
      simp only
      have hda := dropTmp_areas w.cache w.tmp hok.inArea
      rw [hc] at hda
      have ha3 := along_of_areas env cache hdep hq hnot hda _ hs2
      apply hX.bind _ _ _ ha3
      exact hX.done _ _ ha3.final
    | ok w' =>
      simp only
      have hsame := hr2 w' hres2
      obtain ⟨g1, g2⟩ := wwriteAll_hashed env w chunks _ w' hres2
      exact hcommit w' _ (hsame.1.trans hc) (hsame.ok hok) (hsame.2.2.trans hk)
        (by rw [g1, hh]; rfl) (g2.trans ha) hs2


theorem contentPath_length {sri : Integrity} {cp : Path} (h : contentPath cache sri = some cp) :
    cp.length = cache.length + 5 := by
  obtain ⟨a, hex, rfl⟩ := contentPath_shape h
  simp

theorem tmp_ne_contentPath {w : Writer} (hw : w.Ok) (hc : w.cache = cache) {sri : Integrity}
    {cp : Path} (h : contentPath cache sri = some cp) : cp ≠ w.tmp := by
  intro e
  have h1 := inArea_contentPath h
  have h2 := hw.inArea
  rw [hc, ← e] at h2
  exact dTmp_ne_dContent (inArea_disjoint h2 h1)

/-- Publishing under one address touches no other content path. -/
theorem wclose_avoids (w : Writer) (hw : w.Ok) (hc : w.cache = cache) {sri : Integrity} {cp : Path}
    (hcp : contentPath cache sri = some cp)
    (hne : contentPath cache (Sri.compute cfg.H w.algo w.hashed) ≠ some cp) :
    AllCalls (Call.avoids cp) (wclose cfg w) := by
  have ht := tmp_ne_contentPath cache hw hc hcp
  have hl := contentPath_length cache hcp
  rw [← hc] at hne hl
  unfold wclose dropTmp
  dsimp only
  cases hcpw : contentPath w.cache (Sri.compute cfg.H w.algo w.hashed) with
  | none =>
    repeat' ac_step
    intro s h; simp only [Call.touches] at h; exact ht h
  | some cpath =>
    have hne' : cp ≠ cpath := fun e => hne (by rw [hcpw, e])
    have hl' := contentPath_length _ hcpw
    repeat' ac_step
    all_goals first
      | exact trivial
      | (intro s h; simp only [Call.touches] at h; done)
      | (intro s h; simp only [Call.touches] at h; exact ht h)
      | (intro s h; simp only [Call.touches] at h
         rcases h with h | h
         · exact ht h
         · exact hne' h)
      | (intro s h; simp only [Call.touches] at h
         have h1 := h.length_le
         simp only [FS.parent, List.length_dropLast] at h1
         omega)

/-- The commit: check phase, then index phase. -/
theorem wcommit_walk {obs : FS → Prop} {X : Prog (Res Integrity) → FS → Prop}
    (hX : Walk env obs X) (w : Writer) (s : FS)
    (hcheck : Along env obs (wcommitCheck cfg w) s)
    (hindex : ∀ wsri recorded s', obs s' → X (wcommitIndex cfg w wsri recorded) s') :
    X (wcommit cfg w) s := by
  unfold wcommit
  simp only [bind_eq, pure_eq]
  apply hX.bind _ _ _ hcheck
  cases (run env (wcommitCheck cfg w) s).1 with
  | error e => exact hX.done _ _ hcheck.final
  | ok x =>
    obtain ⟨a, b⟩ := x
    exact hindex a b _ hcheck.final

theorem wcommitCheck_avoids (w : Writer) (hw : w.Ok) (hc : w.cache = cache) {sri : Integrity}
    {cp : Path} (hcp : contentPath cache sri = some cp)
    (hne : contentPath cache (Sri.compute cfg.H w.algo w.hashed) ≠ some cp) :
    AllCalls (Call.avoids cp) (wcommitCheck cfg w) := by
  unfold wcommitCheck
  simp only [bind_eq, pure_eq]
  apply AllCallsR.bind (wclose_avoids cfg cache w hw hc hcp hne)
  intro r _
  split
  · trivial
  · split <;> trivial

/-- **A whole keyed writer changes any bucket with its last call only** (the one `write` of its
index insertion), seen from the bucket of ANY key `key'`. -/
theorem writeStream_bucket_untilDone (fl : Flavour) (key key' : Bytes) (o : WriteOpts)
    (chunks : List Bytes) (b : Bytes) (fs : FS) (hb : BucketIs fs (bucketPath cfg cache key') b) :
    UntilDone env (fun s => BucketIs s (bucketPath cfg cache key') b)
      (writeStream cfg cache fl (some key) o chunks) fs := by
  have hdep : ∀ s s' : FS, s'.get (bucketPath cfg cache key') = s.get (bucketPath cfg cache key') →
      BucketIs s (bucketPath cfg cache key') b → BucketIs s' (bucketPath cfg cache key') b :=
    fun s s' he h => h.frame he
  refine writeStream_walk cfg env cache (walk_untilDone env _) hdep (bucket_inIndex cfg cache key')
    dIndex_ne_dTmp fl (some key) o chunks fs hb ?_
  intro w s hc hok hk _ _ hs
  have hca := wcommitCheck_areas cfg w hok
  rw [hc] at hca
  refine wcommit_walk cfg env (walk_untilDone env _) w s
    (along_of_areas env cache hdep (bucket_inIndex cfg cache key') (by decide) hca s hs) ?_
  intro wsri recorded s' hs'
  unfold wcommitIndex
  rw [hk, hc]
  exact insert_untilDone cfg env cache key key' _ b s' hs'

/-- **A whole writer leaves every content file but the one at the address of its bytes alone**, at
every state of its run. -/
theorem writeStream_content_along (fl : Flavour) (key : Option Bytes) (o : WriteOpts)
    (chunks : List Bytes) (fs : FS) {sri : Integrity} {cp : Path}
    (hcp : contentPath cache sri = some cp)
    (hne : contentPath cache (Sri.compute cfg.H (o.algo.getD .sha256) chunks.flatten) ≠ some cp) :
    Along env (fun s => s.get cp = fs.get cp) (writeStream cfg cache fl key o chunks) fs := by
  have hdep : ∀ s s' : FS, s'.get cp = s.get cp → s.get cp = fs.get cp → s'.get cp = fs.get cp :=
    fun s s' he h => he.trans h
  refine writeStream_walk cfg env cache (walk_along env _) hdep (inArea_contentPath hcp)
    dTmp_ne_dContent.symm fl key o chunks fs rfl ?_
  intro w s hc hok _ hh ha hs
  refine wcommit_walk cfg env (walk_along env _) w s
    (along_frame (wcommitCheck_avoids cfg cache w hok hc hcp (by rw [hh, ha]; exact hne)) env s _ hs) ?_
  intro wsri recorded s' hs'
  unfold wcommitIndex
  split
  · rw [hc]
    exact along_frame (insert_avoids_content cfg cache _ _ hcp) env s' _ hs'
  · exact hs'

/-! ### T4: `read` next to a whole keyed writer of other bytes -/

/-- **(T4) `read key' ∥ writeStream (some key) o chunks`** — a whole keyed writer: open, feed any
chunks, commit (publish the content by `rename`, append the index record) or clean up; any keys,
in particular the same key; any flavour, options, chunking; every schedule.  The finished reader
answers as `read` alone before or alone after the WHOLE write; the finished writer answers, and
leaves the filesystem, as alone.

Hypotheses: the reader's bucket is a regular file or absent; the content file of the entry the
key has INITIALLY is not a symbolic link; and (`hother`, "other bytes") that entry's content path
is not the address of the bytes being written.  Nothing is asked of the initial content files
(valid, corrupt, absent), of the directories, of the writer's success. -/
theorem read_writeStream_linearizable {γ : Type} (f : Res Integrity → γ) (g : Res Bytes → γ)
    (fl : Flavour) (key key' : Bytes) (o : WriteOpts) (chunks : List Bytes) (b : Bytes) (fs : FS)
    (hb : BucketIs fs (bucketPath cfg cache key') b)
    (hpl : PlainFor cache fs (.ok ((codec cfg).findIn key' ((codec cfg).entries b))))
    (hother : ∀ m cp, (codec cfg).findIn key' ((codec cfg).entries b) = some m →
      contentPath cache m.sri = some cp →
      contentPath cache (Sri.compute cfg.H (o.algo.getD .sha256) chunks.flatten) ≠ some cp)
    (sched : List Nat) :
    (∀ c, FinishedWith env [(writeStream cfg cache fl (some key) o chunks).mapRes f,
        (read cfg cache key').mapRes g] fs sched 1 c →
      c = g (run env (read cfg cache key') fs).1 ∨
      c = g (run env (read cfg cache key')
        (run env (writeStream cfg cache fl (some key) o chunks) fs).2.1).1) ∧
    (∀ c, FinishedWith env [(writeStream cfg cache fl (some key) o chunks).mapRes f,
        (read cfg cache key').mapRes g] fs sched 0 c →
      c = f (run env (writeStream cfg cache fl (some key) o chunks) fs).1 ∧
      (interleave env [(writeStream cfg cache fl (some key) o chunks).mapRes f,
        (read cfg cache key').mapRes g] fs sched).2 =
        (run env (writeStream cfg cache fl (some key) o chunks) fs).2.1) := by
  refine reader_before_or_after env _ _ f g fs (read_twoShot cfg env cache key')
    (pairs_of_first_last (read_twoShot cfg env cache key') ?_ ?_) sched
  · exact (writeStream_bucket_untilDone cfg env cache fl key key' o chunks b fs hb).mono
      (fun a ha => by
        rw [read_step_of_bucketIs cfg env cache key' a b ha,
          read_step_of_bucketIs cfg env cache key' fs b hb])
  · rw [read_step_of_bucketIs cfg env cache key' fs b hb]
    refine readK_stable' cfg env cache _ fs hpl (fun m cp hx hcp => ?_)
    exact writeStream_content_along cfg env cache fl (some key) o chunks fs hcp
      (hother m cp (Except.ok.inj hx) hcp)

/-- **(T4) for the one-shot `write`** (`cacache::write` / `write_sync`, any algorithm). -/
theorem read_write_linearizable {γ : Type} (f : Res Integrity → γ) (g : Res Bytes → γ)
    (fl : Flavour) (algo : Algo) (key key' data : Bytes) (b : Bytes) (fs : FS)
    (hb : BucketIs fs (bucketPath cfg cache key') b)
    (hpl : PlainFor cache fs (.ok ((codec cfg).findIn key' ((codec cfg).entries b))))
    (hother : ∀ m cp, (codec cfg).findIn key' ((codec cfg).entries b) = some m →
      contentPath cache m.sri = some cp →
      contentPath cache (Sri.compute cfg.H algo data) ≠ some cp)
    (sched : List Nat) :
    (∀ c, FinishedWith env [(write cfg fl cache algo key data).mapRes f,
        (read cfg cache key').mapRes g] fs sched 1 c →
      c = g (run env (read cfg cache key') fs).1 ∨
      c = g (run env (read cfg cache key') (run env (write cfg fl cache algo key data) fs).2.1).1) ∧
    (∀ c, FinishedWith env [(write cfg fl cache algo key data).mapRes f,
        (read cfg cache key').mapRes g] fs sched 0 c →
      c = f (run env (write cfg fl cache algo key data) fs).1 ∧
      (interleave env [(write cfg fl cache algo key data).mapRes f,
        (read cfg cache key').mapRes g] fs sched).2 =
        (run env (write cfg fl cache algo key data) fs).2.1) := by
  rw [write_eq_stream]
  apply read_writeStream_linearizable cfg env cache f g fl key key' _ [data] b fs hb hpl ?_ sched
  intro m cp hm hcp
  have := hother m cp hm hcp
  cases fl <;> simpa using this

theorem read_write_sum (fl : Flavour) (algo : Algo) (key key' data : Bytes) (b : Bytes) (fs : FS)
    (hb : BucketIs fs (bucketPath cfg cache key') b)
    (hpl : PlainFor cache fs (.ok ((codec cfg).findIn key' ((codec cfg).entries b))))
    (hother : ∀ m cp, (codec cfg).findIn key' ((codec cfg).entries b) = some m →
      contentPath cache m.sri = some cp →
      contentPath cache (Sri.compute cfg.H algo data) ≠ some cp)
    (sched : List Nat) (r : Res Bytes)
    (hfin : FinishedWith env [(write cfg fl cache algo key data).mapRes Sum.inl,
      (read cfg cache key').mapRes (Sum.inr : _ → Res Integrity ⊕ Res Bytes)] fs sched 1 (.inr r)) :
    r = (run env (read cfg cache key') fs).1 ∨
    r = (run env (read cfg cache key') (run env (write cfg fl cache algo key data) fs).2.1).1 := by
  rcases (read_write_linearizable cfg env cache Sum.inl Sum.inr fl algo key key' data b fs hb hpl
    hother sched).1 _ hfin with h | h
  · exact Or.inl (Sum.inr.inj h)
  · exact Or.inr (Sum.inr.inj h)


/-! ### T1, second half: by-address observers next to a whole by-address writer -/

/-- A `rename` fails without any effect or succeeds. -/
theorem exec_rename_cases (s : FS) (a b : Path) :
    (∃ e, exec env s (.rename a b) = (s, .err e)) ∨ (exec env s (.rename a b)).2 = .unit := by
  simp only [exec]
  split
  · split
    · exact Or.inl ⟨_, rfl⟩
    · split
      · exact Or.inl ⟨_, rfl⟩
      · exact Or.inr rfl
  · exact Or.inl ⟨_, rfl⟩

/-- **Closing a writer changes any content file with its last call only** (the `rename`; when
that fails nothing changes at all). -/
theorem wclose_untilDone (w : Writer) (hw : w.Ok) (hc : w.cache = cache) {sri : Integrity}
    {cp : Path} (hcp : contentPath cache sri = some cp) (x : Option Node) (s : FS)
    (hs : s.get cp = x) : UntilDone env (fun s => s.get cp = x) (wclose cfg w) s := by
  have ht := tmp_ne_contentPath cache hw hc hcp
  have hl := contentPath_length cache hcp
  rw [← hc] at hl
  have hunlink : ∀ s' : FS, s'.get cp = x → (exec env s' (.unlink w.tmp)).1.get cp = x := fun s' h =>
    (step_frame env s' _ (.unlink w.tmp) _ .ok cp (by simpa [Call.touches] using ht)).trans h
  unfold wclose dropTmp
  dsimp only
  cases hcpw : contentPath w.cache (Sri.compute cfg.H w.algo w.hashed) with
  | none =>
    simp only [bind_eq, pure_eq, call, bind_sys, bind_done, untilDone_sys]
    exact ⟨hs, trivial⟩
  | some cpath =>
    have hl' := contentPath_length _ hcpw
    simp only [bind_eq, pure_eq]
    have hcut : AllCalls (Call.avoids cp)
        (match w.mmap with
          | some n => if w.pos < n then
              Prog.bind (call (.truncate w.tmp w.pos)) (fun r => match r with
                | .err e => (.done (.error e) : Prog (Except EK Unit))
                | _ => .done (.ok ()))
            else .done (.ok ())
          | none => .done (.ok ())) := by
      repeat' ac_step
      intro s' h; simp only [Call.touches] at h; exact ht h
    have ha := along_frame hcut env s x hs
    refine untilDone_bind ha ?_
    have hs1 := ha.final
    generalize (run env _ s).2.1 = s1 at hs1 ⊢
    generalize (run env _ s).1 = r1
    cases r1 with
    | error e =>
      simp only [call, bind_sys, bind_done, untilDone_sys]
      exact ⟨hs1, trivial⟩
    | ok u =>
      simp only [call, bind_sys, bind_done, untilDone_sys]
      refine ⟨hs1, ?_⟩
      have hs2 : (exec env s1 (.mkdirP (FS.parent cpath))).1.get cp = x :=
        (step_frame env s1 _ (.mkdirP (FS.parent cpath)) _ .ok cp (by
          simp only [Call.touches]
          intro h
          have h1 := h.length_le
          simp only [FS.parent, List.length_dropLast] at h1
          omega)).trans hs1
      generalize (exec env s1 (.mkdirP (FS.parent cpath))).1 = s2 at hs2 ⊢
      generalize (exec env s1 (.mkdirP (FS.parent cpath))).2 = r2
      split
      · simp only [untilDone_sys]
        exact ⟨hs2, trivial⟩
      · simp only [untilDone_sys]
        refine ⟨hs2, ?_⟩
        rcases exec_rename_cases env s2 w.tmp cpath with ⟨e, he⟩ | he
        · rw [he]
          simp only [untilDone_sys]
          refine ⟨hs2, hunlink s2 hs2, ?_⟩
          split <;> trivial
        · rw [he]
          trivial


/-- **A whole by-address writer changes any content file with its last call only.** -/
theorem writeStream_unkeyed_untilDone (fl : Flavour) (o : WriteOpts) (chunks : List Bytes) (fs : FS)
    {sri : Integrity} {cp : Path} (hcp : contentPath cache sri = some cp) :
    UntilDone env (fun s => s.get cp = fs.get cp) (writeStream cfg cache fl none o chunks) fs := by
  have hdep : ∀ s s' : FS, s'.get cp = s.get cp → s.get cp = fs.get cp → s'.get cp = fs.get cp :=
    fun s s' he h => he.trans h
  refine writeStream_walk cfg env cache (walk_untilDone env _) hdep (inArea_contentPath hcp)
    dTmp_ne_dContent.symm fl none o chunks fs rfl ?_
  intro w s hc hok hk _ _ hs
  unfold wcommit wcommitCheck
  simp only [bind_eq, pure_eq]
  refine ((wclose_untilDone cfg env cache w hok hc hcp _ s hs).bind ?_).bind ?_
  · intro a
    split
    · exact ⟨_, rfl⟩
    · split <;> exact ⟨_, rfl⟩
  · intro a
    split
    · exact ⟨_, rfl⟩
    · unfold wcommitIndex
      rw [hk]
      exact ⟨_, rfl⟩

/-- **Any one-call observer of ONE content path next to a whole by-address writer** (every
schedule): if the observer's answer depends on the node at the content path of `sri` only, it
answers as alone before or alone after the whole write. -/
theorem oneShot_writeStream_linearizable {γ ε : Type} (R : Prog ε) (hR : OneShot env R)
    (sri : Integrity) (fs : FS)
    (hdep : ∀ cp, contentPath cache sri = some cp → ∀ s : FS, s.get cp = fs.get cp →
      (run env R s).1 = (run env R fs).1)
    (hnone : contentPath cache sri = none → ∀ s : FS, (run env R s).1 = (run env R fs).1)
    (f : Res Integrity → γ) (g : ε → γ) (fl : Flavour) (o : WriteOpts) (chunks : List Bytes)
    (sched : List Nat) :
    (∀ c, FinishedWith env [(writeStream cfg cache fl none o chunks).mapRes f, R.mapRes g] fs sched 1 c →
      c = g (run env R fs).1 ∨
      c = g (run env R (run env (writeStream cfg cache fl none o chunks) fs).2.1).1) ∧
    (∀ c, FinishedWith env [(writeStream cfg cache fl none o chunks).mapRes f, R.mapRes g] fs sched 0 c →
      c = f (run env (writeStream cfg cache fl none o chunks) fs).1 ∧
      (interleave env [(writeStream cfg cache fl none o chunks).mapRes f, R.mapRes g] fs sched).2 =
        (run env (writeStream cfg cache fl none o chunks) fs).2.1) := by
  refine (observer_linearizable env _ _ f g fs hR ?_ sched).symm
  cases hcp : contentPath cache sri with
  | none => exact (Along.of_all (fun s => hnone hcp s) _ _).untilDone
  | some cp =>
    exact (writeStream_unkeyed_untilDone cfg env cache fl o chunks fs hcp).mono
      (fun s hs => hdep cp hcp s hs)

/-- **(T1) `readHash sri ∥ writeStream none o chunks`** — a whole by-address writer of any bytes,
in particular the bytes `sri` addresses (the reader then sees the old state of the address —
absent, corrupt, valid — or the complete new file: the content file is published by one
`rename`); every schedule.  Hypothesis: the content path of `sri` is not a symbolic link. -/
theorem readHash_writeStream_linearizable {γ : Type} (f : Res Integrity → γ) (g : Res Bytes → γ)
    (fl : Flavour) (o : WriteOpts) (chunks : List Bytes) (sri : Integrity) (fs : FS)
    (hpl : PlainAt cache fs sri) (sched : List Nat) :
    (∀ c, FinishedWith env [(writeStream cfg cache fl none o chunks).mapRes f,
        (readHash cfg cache sri).mapRes g] fs sched 1 c →
      c = g (run env (readHash cfg cache sri) fs).1 ∨
      c = g (run env (readHash cfg cache sri)
        (run env (writeStream cfg cache fl none o chunks) fs).2.1).1) ∧
    (∀ c, FinishedWith env [(writeStream cfg cache fl none o chunks).mapRes f,
        (readHash cfg cache sri).mapRes g] fs sched 0 c →
      c = f (run env (writeStream cfg cache fl none o chunks) fs).1 ∧
      (interleave env [(writeStream cfg cache fl none o chunks).mapRes f,
        (readHash cfg cache sri).mapRes g] fs sched).2 =
        (run env (writeStream cfg cache fl none o chunks) fs).2.1) := by
  refine oneShot_writeStream_linearizable cfg env cache _ (readHash_oneShot cfg env cache sri) sri fs
    (fun cp hcp s hs => readHash_congr cfg env cache sri cp hcp hs (fun t => hpl cp t hcp))
    (fun hcp s => ?_) f g fl o chunks sched
  unfold readHash
  rw [hcp]
  rfl

/-- **(T1) for `write_hash`** (`cacache::write_hash` / `write_hash_sync`, any algorithm). -/
theorem readHash_writeHash_linearizable {γ : Type} (f : Res Integrity → γ) (g : Res Bytes → γ)
    (fl : Flavour) (algo : Algo) (data : Bytes) (sri : Integrity) (fs : FS)
    (hpl : PlainAt cache fs sri) (sched : List Nat) :
    (∀ c, FinishedWith env [(writeHash cfg fl cache algo data).mapRes f,
        (readHash cfg cache sri).mapRes g] fs sched 1 c →
      c = g (run env (readHash cfg cache sri) fs).1 ∨
      c = g (run env (readHash cfg cache sri) (run env (writeHash cfg fl cache algo data) fs).2.1).1) ∧
    (∀ c, FinishedWith env [(writeHash cfg fl cache algo data).mapRes f,
        (readHash cfg cache sri).mapRes g] fs sched 0 c →
      c = f (run env (writeHash cfg fl cache algo data) fs).1 ∧
      (interleave env [(writeHash cfg fl cache algo data).mapRes f,
        (readHash cfg cache sri).mapRes g] fs sched).2 =
        (run env (writeHash cfg fl cache algo data) fs).2.1) := by
  rw [writeHash_eq_stream]
  exact readHash_writeStream_linearizable cfg env cache f g fl _ [data] sri fs hpl sched

theorem readHash_writeHash_sum (fl : Flavour) (algo : Algo) (data : Bytes) (sri : Integrity) (fs : FS)
    (hpl : PlainAt cache fs sri) (sched : List Nat) (r : Res Bytes)
    (hfin : FinishedWith env [(writeHash cfg fl cache algo data).mapRes Sum.inl,
      (readHash cfg cache sri).mapRes (Sum.inr : _ → Res Integrity ⊕ Res Bytes)] fs sched 1 (.inr r)) :
    r = (run env (readHash cfg cache sri) fs).1 ∨
    r = (run env (readHash cfg cache sri) (run env (writeHash cfg fl cache algo data) fs).2.1).1 := by
  rcases (readHash_writeHash_linearizable cfg env cache Sum.inl Sum.inr fl algo data sri fs hpl
    sched).1 _ hfin with h | h
  · exact Or.inl (Sum.inr.inj h)
  · exact Or.inr (Sum.inr.inj h)

/-- **(T1) `existsHash sri ∥ writeStream none o chunks`.** -/
theorem existsHash_writeStream_linearizable {γ : Type} (f : Res Integrity → γ) (g : Res Bool → γ)
    (fl : Flavour) (o : WriteOpts) (chunks : List Bytes) (sri : Integrity) (fs : FS)
    (hpl : PlainAt cache fs sri) (sched : List Nat) :
    (∀ c, FinishedWith env [(writeStream cfg cache fl none o chunks).mapRes f,
        (existsHash cache sri).mapRes g] fs sched 1 c →
      c = g (run env (existsHash cache sri) fs).1 ∨
      c = g (run env (existsHash cache sri)
        (run env (writeStream cfg cache fl none o chunks) fs).2.1).1) ∧
    (∀ c, FinishedWith env [(writeStream cfg cache fl none o chunks).mapRes f,
        (existsHash cache sri).mapRes g] fs sched 0 c →
      c = f (run env (writeStream cfg cache fl none o chunks) fs).1 ∧
      (interleave env [(writeStream cfg cache fl none o chunks).mapRes f,
        (existsHash cache sri).mapRes g] fs sched).2 =
        (run env (writeStream cfg cache fl none o chunks) fs).2.1) := by
  refine oneShot_writeStream_linearizable cfg env cache _ (existsHash_oneShot env cache sri) sri fs
    (fun cp hcp s hs => existsHash_congr env cache sri cp hcp hs (fun t => hpl cp t hcp))
    (fun hcp s => ?_) f g fl o chunks sched
  unfold existsHash
  rw [hcp]
  rfl


/-! ### T4, the same address: republishing bytes that are already there -/

/-- **Closing a writer over an address that already holds exactly its bytes changes nothing there**:
the `rename` replaces the file by an identical one (or fails). -/
theorem wclose_same_along (w : Writer) (s : FS) (hi : WInv w s) (hc : w.cache = cache) {cp : Path}
    (hcp : contentPath cache (Sri.compute cfg.H w.algo w.hashed) = some cp)
    (hs : s.get cp = some (.file w.hashed)) :
    Along env (fun s => s.get cp = some (.file w.hashed)) (wclose cfg w) s := by
  obtain ⟨f, hf, htake, hlen0, hlenS⟩ := hi.file
  have ht := tmp_ne_contentPath cache hi.ok hc hcp
  have hl := contentPath_length cache hcp
  rw [← hc] at hl
  have hunlink : ∀ s' : FS, s'.get cp = some (.file w.hashed) →
      (exec env s' (.unlink w.tmp)).1.get cp = some (.file w.hashed) := fun s' h =>
    (step_frame env s' _ (.unlink w.tmp) _ .ok cp (by simpa [Call.touches] using ht)).trans h
  -- after the cut the temp file holds exactly what was hashed
  have publish : ∀ sx : FS, sx.get cp = some (.file w.hashed) → sx.get w.tmp = some (.file w.hashed) →
      Along env (fun s => s.get cp = some (.file w.hashed))
        (.sys (.mkdirP (FS.parent cp)) (fun r => match r with
          | .err e => Prog.bind (.sys (.unlink w.tmp) (fun _ => .done ()))
              (fun _ => (.done (Except.error (Err.io e)) : Prog (Res Integrity)))
          | _ => .sys (.rename w.tmp cp) (fun r => match r with
            | .err e => Prog.bind (.sys (.unlink w.tmp) (fun _ => .done ()))
                (fun _ => .sys (.existsF cp) (fun r => match r with
                  | .bool true => .done (Except.ok (Sri.compute cfg.H w.algo w.hashed))
                  | _ => .done (Except.error (Err.io e))))
            | _ => .done (Except.ok (Sri.compute cfg.H w.algo w.hashed))))) sx := by
    intro sx hx htmp
    simp only [along_sys]
    refine ⟨hx, ?_⟩
    have hx2 := step_mkdirP_keeps (p := FS.parent cp) hx (Prog.Step.ok (env := env))
    have htmp2 := step_mkdirP_keeps (p := FS.parent cp) htmp (Prog.Step.ok (env := env))
    generalize (exec env sx (.mkdirP (FS.parent cp))).1 = s2 at hx2 htmp2 ⊢
    generalize (exec env sx (.mkdirP (FS.parent cp))).2 = r2
    split
    · simp only [bind_sys, bind_done, along_sys, along_done]
      exact ⟨hx2, hunlink s2 hx2⟩
    · simp only [along_sys]
      refine ⟨hx2, ?_⟩
      have hnd : (s2.get cp == some Node.dir) = false := by rw [hx2]; rfl
      cases hd : s2.isDir (FS.parent cp) with
      | false =>
        have he : exec env s2 (.rename w.tmp cp) = (s2, .err .notFound) := by
          simp [exec, htmp2, hd]
        rw [he]
        simp only [bind_sys, bind_done, along_sys]
        refine ⟨hx2, hunlink s2 hx2, ?_⟩
        split <;> exact hunlink s2 hx2
      | true =>
        have he : exec env s2 (.rename w.tmp cp) = ((s2.del w.tmp).put cp (.file w.hashed), .unit) := by
          simp [exec, htmp2, hd, hnd]
        rw [he]
        exact FS.get_put_same _ _ _
  unfold wclose dropTmp
  dsimp only
  rw [show contentPath w.cache (Sri.compute cfg.H w.algo w.hashed) = some cp from by rw [hc]; exact hcp]
  simp only [bind_eq, pure_eq, call, bind_sys, bind_done]
  split
  · rename_i n hm
    obtain ⟨hfl, hpn⟩ := hlenS n hm
    split
    · simp only [bind_sys, along_sys]
      refine ⟨hs, ?_⟩
      have he : exec env s (.truncate w.tmp w.pos) = (s.put w.tmp (.file (f.take w.pos)), .unit) := by
        simp [exec, hf]
      rw [he, htake]
      simp only [bind_done]
      exact publish _ ((FS.get_put_ne _ _ ht).trans hs) (FS.get_put_same _ _ _)
    · simp only [bind_done]
      have : f = w.hashed := by
        have hp : w.pos = n := by omega
        rw [← htake, hp, ← hfl, List.take_length]
      rw [this] at hf
      exact publish s hs hf
  · rename_i hm
    simp only [bind_done]
    have : f = w.hashed := by rw [← htake, ← hlen0 hm, List.take_length]
    rw [this] at hf
    exact publish s hs hf

/-- `writeStream_walk` from a VALID content store: the commit may in addition assume the writer's
private invariant `WInv` (its temp file holds what was hashed). -/
theorem writeStream_walk' {obs : FS → Prop} {X : Prog (Res Integrity) → FS → Prop}
    (hX : Walk env obs X) {q : Path} {top : Bytes}
    (hdep : ∀ s s' : FS, s'.get q = s.get q → obs s → obs s') (hq : InArea cache top q)
    (hne : top ≠ dTmp) (fl : Flavour) (key : Option Bytes) (o : WriteOpts) (chunks : List Bytes)
    (fs : FS) (hv : ContentValid cfg cache fs) (h0 : obs fs)
    (hcommit : ∀ w s, w.cache = cache → WInv w s → w.key = key → w.hashed = chunks.flatten →
      w.algo = o.algo.getD .sha256 → obs s → X (wcommit cfg w) s) :
    X (writeStream cfg cache fl key o chunks) fs := by
  have hnot : top ∉ [dTmp] := by simpa using hne
  have ho := wopen_props cfg cache fl key o
  have ha1 := along_of_areas env cache hdep hq hnot ho fs h0
  have hw1 := wpD_run (wopen_wp cfg env cache fl key o hv)
  unfold writeStream
  simp only [bind_eq, pure_eq]
  apply hX.bind _ _ _ ha1
  have hs1 := ha1.final
  have hr1 := ho.result env fs
  cases hres : (run env (wopen cfg fl cache key o) fs).1 with
  | error e => exact hX.done _ _ hs1
  | ok w =>
    obtain ⟨hc, hok, hk, hh, ha⟩ := hr1 w hres
    have hi : WInv w (run env (wopen cfg fl cache key o) fs).2.1 := (hw1.2 w hres).2.2.2.2.2.2
    simp only
    have hwa := wwriteAll_areas w chunks hok
    rw [hc] at hwa
    have ha2 := along_of_areas env cache hdep hq hnot hwa _ hs1
    have hw2 := wpD_run (wwriteAll_wp cfg env cache w chunks hc hw1.1 hi)
    apply hX.bind _ _ _ ha2
    have hs2 := ha2.final
    have hr2 := hwa.result env (run env (wopen cfg fl cache key o) fs).2.1
    cases hres2 : (run env (wwriteAll w chunks) (run env (wopen cfg fl cache key o) fs).2.1).1 with
    | error e =>
      simp only
      have hda := dropTmp_areas w.cache w.tmp hok.inArea
      rw [hc] at hda
      have ha3 := along_of_areas env cache hdep hq hnot hda _ hs2
      apply hX.bind _ _ _ ha3
      exact hX.done _ _ ha3.final
    | ok w' =>
      simp only
      have hsame := hr2 w' hres2
      obtain ⟨g1, g2⟩ := wwriteAll_hashed env w chunks _ w' hres2
      exact hcommit w' _ (hsame.1.trans hc) (hw2.2 w' hres2).2.1 (hsame.2.2.trans hk)
        (by rw [g1, hh]; rfl) (g2.trans ha) hs2

/-- **A whole writer of bytes that are already at their address leaves that content file what it
is**, at every state of its run (valid store). -/
theorem writeStream_content_along_same (fl : Flavour) (key : Option Bytes) (o : WriteOpts)
    (chunks : List Bytes) (fs : FS) (hv : ContentValid cfg cache fs) {cp : Path}
    (hcp : contentPath cache (Sri.compute cfg.H (o.algo.getD .sha256) chunks.flatten) = some cp)
    (hfile : fs.get cp = some (.file chunks.flatten)) :
    Along env (fun s => s.get cp = fs.get cp) (writeStream cfg cache fl key o chunks) fs := by
  rw [hfile]
  have hdep : ∀ s s' : FS, s'.get cp = s.get cp → s.get cp = some (.file chunks.flatten) →
      s'.get cp = some (.file chunks.flatten) := fun s s' he h => he.trans h
  refine writeStream_walk' cfg env cache (walk_along env _) hdep (inArea_contentPath hcp)
    dTmp_ne_dContent.symm fl key o chunks fs hv hfile ?_
  intro w s hc hi _ hh ha hs
  have hcheck : Along env (fun s => s.get cp = some (.file chunks.flatten)) (wcommitCheck cfg w) s := by
    unfold wcommitCheck
    simp only [bind_eq, pure_eq]
    have h1 := wclose_same_along cfg env cache w s hi hc (by rw [hh, ha]; exact hcp) (by rw [hh]; exact hs)
    rw [hh] at h1
    refine h1.bind ?_
    have hf := h1.final
    split
    · exact hf
    · split <;> exact hf
  refine wcommit_walk cfg env (walk_along env _) w s hcheck ?_
  intro wsri recorded s' hs'
  unfold wcommitIndex
  split
  · rw [hc]
    exact along_frame (insert_avoids_content cfg cache _ _ hcp) env s' _ hs'
  · exact hs'

/-- **(T4), other bytes OR the same bytes republished**: as `read_writeStream_linearizable`, with
`hother` weakened to: the content path of the entry the key has initially is not the address of
the bytes being written, OR it is and already holds exactly these bytes (the writer's `rename`
then replaces the file by an identical one).  The second case needs the content store to be valid
initially (`ContentValid`: used to know, from the sequential writer lemmas, that the writer's temp
file holds what it hashed). -/
theorem read_writeStream_linearizable' {γ : Type} (f : Res Integrity → γ) (g : Res Bytes → γ)
    (fl : Flavour) (key key' : Bytes) (o : WriteOpts) (chunks : List Bytes) (b : Bytes) (fs : FS)
    (hv : ContentValid cfg cache fs)
    (hb : BucketIs fs (bucketPath cfg cache key') b)
    (hpl : PlainFor cache fs (.ok ((codec cfg).findIn key' ((codec cfg).entries b))))
    (hother : ∀ m cp, (codec cfg).findIn key' ((codec cfg).entries b) = some m →
      contentPath cache m.sri = some cp →
      contentPath cache (Sri.compute cfg.H (o.algo.getD .sha256) chunks.flatten) ≠ some cp ∨
      fs.get cp = some (.file chunks.flatten))
    (sched : List Nat) :
    (∀ c, FinishedWith env [(writeStream cfg cache fl (some key) o chunks).mapRes f,
        (read cfg cache key').mapRes g] fs sched 1 c →
      c = g (run env (read cfg cache key') fs).1 ∨
      c = g (run env (read cfg cache key')
        (run env (writeStream cfg cache fl (some key) o chunks) fs).2.1).1) ∧
    (∀ c, FinishedWith env [(writeStream cfg cache fl (some key) o chunks).mapRes f,
        (read cfg cache key').mapRes g] fs sched 0 c →
      c = f (run env (writeStream cfg cache fl (some key) o chunks) fs).1 ∧
      (interleave env [(writeStream cfg cache fl (some key) o chunks).mapRes f,
        (read cfg cache key').mapRes g] fs sched).2 =
        (run env (writeStream cfg cache fl (some key) o chunks) fs).2.1) := by
  refine reader_before_or_after env _ _ f g fs (read_twoShot cfg env cache key')
    (pairs_of_first_last (read_twoShot cfg env cache key') ?_ ?_) sched
  · exact (writeStream_bucket_untilDone cfg env cache fl key key' o chunks b fs hb).mono
      (fun a ha => by
        rw [read_step_of_bucketIs cfg env cache key' a b ha,
          read_step_of_bucketIs cfg env cache key' fs b hb])
  · rw [read_step_of_bucketIs cfg env cache key' fs b hb]
    refine readK_stable' cfg env cache _ fs hpl (fun m cp hx hcp => ?_)
    by_cases hne : contentPath cache (Sri.compute cfg.H (o.algo.getD .sha256) chunks.flatten) = some cp
    · rcases hother m cp (Except.ok.inj hx) hcp with h | h
      · exact absurd hne h
      · exact writeStream_content_along_same cfg env cache fl (some key) o chunks fs hv hne h
    · exact writeStream_content_along cfg env cache fl (some key) o chunks fs hcp hne

/-- … for the one-shot `write`. -/
theorem read_write_linearizable' {γ : Type} (f : Res Integrity → γ) (g : Res Bytes → γ)
    (fl : Flavour) (algo : Algo) (key key' data : Bytes) (b : Bytes) (fs : FS)
    (hv : ContentValid cfg cache fs)
    (hb : BucketIs fs (bucketPath cfg cache key') b)
    (hpl : PlainFor cache fs (.ok ((codec cfg).findIn key' ((codec cfg).entries b))))
    (hother : ∀ m cp, (codec cfg).findIn key' ((codec cfg).entries b) = some m →
      contentPath cache m.sri = some cp →
      contentPath cache (Sri.compute cfg.H algo data) ≠ some cp ∨ fs.get cp = some (.file data))
    (sched : List Nat) :
    (∀ c, FinishedWith env [(write cfg fl cache algo key data).mapRes f,
        (read cfg cache key').mapRes g] fs sched 1 c →
      c = g (run env (read cfg cache key') fs).1 ∨
      c = g (run env (read cfg cache key') (run env (write cfg fl cache algo key data) fs).2.1).1) ∧
    (∀ c, FinishedWith env [(write cfg fl cache algo key data).mapRes f,
        (read cfg cache key').mapRes g] fs sched 0 c →
      c = f (run env (write cfg fl cache algo key data) fs).1 ∧
      (interleave env [(write cfg fl cache algo key data).mapRes f,
        (read cfg cache key').mapRes g] fs sched).2 =
        (run env (write cfg fl cache algo key data) fs).2.1) := by
  rw [write_eq_stream]
  apply read_writeStream_linearizable' cfg env cache f g fl key key' _ [data] b fs hv hb hpl ?_ sched
  intro m cp hm hcp
  have := hother m cp hm hcp
  cases fl <;> simpa using this

/-! ### T5: three processes — `read`, an index mutator, a content remover -/

/-- The two filesystems agree on every node but the one at `u`. -/
def Agree (u : Path) (s s' : FS) : Prop := ∀ q, q ≠ u → s.get q = s'.get q

theorem Agree.refl (u : Path) (s : FS) : Agree u s s := fun _ _ => rfl

theorem Agree.put {u : Path} {s s' : FS} (h : Agree u s s') (p : Path) (n : Node) :
    Agree u (s.put p n) (s'.put p n) := by
  intro q hq
  rw [FS.get_put, FS.get_put, h q hq]

theorem isDir_agree {u : Path} {s s' : FS} (h : Agree u s s') {p : Path} (hp : p ≠ u) :
    s.isDir p = s'.isDir p := by
  unfold FS.isDir
  cases p with
  | nil => rfl
  | cons x xs => simp only [h _ hp]

/-- `create_dir_all` of levels none of which is `u` does not look at the node at `u`. -/
theorem mkdirLevels_agree {u : Path} (qs : List Path) (hq : ∀ q ∈ qs, q ≠ u) (n : Nat) (s s' : FS)
    (h : Agree u s s') :
    (∃ t t', FS.mkdirLevels s qs n = .ok t ∧ FS.mkdirLevels s' qs n = .ok t' ∧ Agree u t t') ∨
    (∃ e, FS.mkdirLevels s qs n = .error e ∧ FS.mkdirLevels s' qs n = .error e) := by
  induction qs generalizing s s' n with
  | nil => exact Or.inl ⟨s, s', by simp [FS.mkdirLevels], by simp [FS.mkdirLevels], h⟩
  | cons q qs ih =>
    cases n with
    | zero => exact Or.inl ⟨s, s', by simp [FS.mkdirLevels], by simp [FS.mkdirLevels], h⟩
    | succ n =>
      have hqu : q ≠ u := hq q (by simp)
      have hqs : ∀ q' ∈ qs, q' ≠ u := fun q' hq' => hq q' (by simp [hq'])
      have hg := h q hqu
      simp only [FS.mkdirLevels]
      rw [← hg]
      cases hx : s.get q with
      | none => exact ih hqs n _ _ (h.put q .dir)
      | some nd =>
        cases nd with
        | dir => exact ih hqs (n + 1) s s' h
        | link t => exact ih hqs (n + 1) s s' h
        | file b => exact Or.inr ⟨.other, rfl, rfl⟩

/-- The calls of the index operations. -/
inductive IdxCall (cfg : Cfg) (cache : Path) : Call → Prop
  | mkdir (key : Bytes) : IdxCall cfg cache (.mkdirP (FS.parent (bucketPath cfg cache key)))
  | now : IdxCall cfg cache .now
  | openA (key : Bytes) : IdxCall cfg cache (.openAppend (bucketPath cfg cache key))
  | append (key : Bytes) (d : Bytes) : IdxCall cfg cache (.appendWrite (bucketPath cfg cache key) d)

theorem insert_idxCalls (key : Bytes) (o : WriteOpts) :
    AllCalls (IdxCall cfg cache) (insert cfg cache key o) := by
  unfold insert getTime appendRec
  repeat' ac_step
  all_goals first
    | exact trivial
    | exact .mkdir _
    | exact .now
    | exact .openA _
    | exact .append _ _

theorem delete_idxCalls (key : Bytes) : AllCalls (IdxCall cfg cache) (delete cfg cache key) := by
  unfold delete
  simp only [bind_eq, pure_eq]
  apply AllCallsR.bind (insert_idxCalls cfg cache key {})
  intro r _
  split <;> trivial

theorem bucket_ne_of_content (key : Bytes) {u : Path} (hu : InArea cache dContent u) :
    bucketPath cfg cache key ≠ u := by
  intro e
  have h1 := bucket_inIndex cfg cache key
  rw [e] at h1
  exact dIndex_ne_dContent (inArea_disjoint h1 hu)

theorem not_prefix_parent_bucket (key : Bytes) {u : Path} (hu : InArea cache dContent u) :
    ¬ u <+: FS.parent (bucketPath cfg cache key) := fun h =>
  dIndex_ne_dContent (inArea_disjoint (inArea_parent_bucket cfg cache key) (inArea_ext hu h))

/-- An index call touches nothing in the content area … -/
theorem idxCall_avoids {c : Call} (hc : IdxCall cfg cache c) {u : Path}
    (hu : InArea cache dContent u) : c.avoids u := by
  intro s ht
  cases hc with
  | mkdir key => exact not_prefix_parent_bucket cfg cache key hu ht
  | now => exact ht
  | openA key => exact bucket_ne_of_content cfg cache key hu ht.symm
  | append key d => exact bucket_ne_of_content cfg cache key hu ht.symm

/-- … and does not look at it either: in two filesystems that agree off `u` it answers the same
and leaves filesystems that agree off `u`. -/
theorem idxCall_agree {c : Call} (hc : IdxCall cfg cache c) {u : Path}
    (hu : InArea cache dContent u) {s s' : FS} (h : Agree u s s') :
    (exec env s c).2 = (exec env s' c).2 ∧ Agree u (exec env s c).1 (exec env s' c).1 := by
  cases hc with
  | mkdir key =>
    simp only [exec, FS.mkdirP]
    rcases mkdirLevels_agree (FS.prefixes (FS.parent (bucketPath cfg cache key)))
      (fun q hq e => not_prefix_parent_bucket cfg cache key hu (by rw [← e]; exact FS.mem_prefixes hq))
      (FS.parent (bucketPath cfg cache key)).length s s' h with ⟨t, t', e1, e2, ha⟩ | ⟨e, e1, e2⟩
    · rw [e1, e2]; exact ⟨rfl, ha⟩
    · rw [e1, e2]; exact ⟨rfl, h⟩
  | now => exact ⟨rfl, h⟩
  | openA key =>
    have hg := h _ (bucket_ne_of_content cfg cache key hu)
    have hd : s.isDir (FS.parent (bucketPath cfg cache key)) = s'.isDir (FS.parent (bucketPath cfg cache key)) :=
      isDir_agree h (fun e => not_prefix_parent_bucket cfg cache key hu (by rw [← e]; exact List.prefix_refl _))
    simp only [exec]
    rw [← hg, ← hd]
    cases s.get (bucketPath cfg cache key) with
    | none =>
      simp only
      split
      · exact ⟨rfl, h.put _ _⟩
      · exact ⟨rfl, h⟩
    | some nd => cases nd <;> exact ⟨rfl, h⟩
  | append key d =>
    have hg := h _ (bucket_ne_of_content cfg cache key hu)
    simp only [exec]
    rw [← hg]
    cases s.get (bucketPath cfg cache key) with
    | none => exact ⟨rfl, h⟩
    | some nd =>
      cases nd with
      | file b => exact ⟨rfl, h.put _ _⟩
      | dir => exact ⟨rfl, h⟩
      | link t => exact ⟨rfl, h⟩

/-- One step of a program made of index calls, in two filesystems that agree off `u`. -/
theorem step_agree {p : Prog α} (hp : AllCalls (IdxCall cfg cache) p) {u : Path}
    (hu : InArea cache dContent u) {s s' : FS} (h : Agree u s s') :
    (step env p s).1 = (step env p s').1 ∧ Agree u (step env p s).2 (step env p s').2 := by
  cases p with
  | done a => exact ⟨rfl, h⟩
  | sys c k =>
    obtain ⟨h1, h2⟩ := idxCall_agree cfg env cache hp.1 hu h
    simp only [step]
    exact ⟨by rw [h1], h2⟩

theorem step_idx_content {p : Prog α} (hp : AllCalls (IdxCall cfg cache) p) {u : Path}
    (hu : InArea cache dContent u) (s : FS) : (step env p s).2.get u = s.get u := by
  cases p with
  | done a => rfl
  | sys c k => exact step_frame env s _ c _ .ok u (idxCall_avoids cfg cache hp.1 hu s)

/-- A whole program made of index calls: same answer, final filesystems agree off `u`, … -/
theorem run_agree {p : Prog α} (hp : AllCalls (IdxCall cfg cache) p) {u : Path}
    (hu : InArea cache dContent u) {s s' : FS} (h : Agree u s s') :
    (run env p s).1 = (run env p s').1 ∧ Agree u (run env p s).2.1 (run env p s').2.1 := by
  induction p generalizing s s' with
  | done a => exact ⟨rfl, h⟩
  | sys c k ih =>
    obtain ⟨h1, h2⟩ := idxCall_agree cfg env cache hp.1 hu h
    simp only [run]
    rw [h1]
    exact ih _ (hp.2 _ (answer_exec env s' c)) h2

/-- … and the content area is left alone. -/
theorem run_idx_content {p : Prog α} (hp : AllCalls (IdxCall cfg cache) p) {u : Path}
    (hu : InArea cache dContent u) (s : FS) : (run env p s).2.1.get u = s.get u :=
  AllCalls.frame_run (hp.mono (fun _ hc => idxCall_avoids cfg cache hc hu) (fun _ h => h)) env s


/-- No content path is a symbolic link (no `link_to` content in the store). -/
def NoLinkedContent (fs : FS) : Prop :=
  ∀ sri cp t, contentPath cache sri = some cp → fs.get cp ≠ some (.link t)

/-- The second half of the read depends on the content paths only. -/
theorem readK_content_congr (x : Res (Option Meta)) {s Z : FS}
    (hc : ∀ sri cp, contentPath cache sri = some cp → s.get cp = Z.get cp)
    (hnl : NoLinkedContent cache Z) :
    (run env (readK cfg cache x) s).1 = (run env (readK cfg cache x) Z).1 := by
  match x with
  | .error e => rfl
  | .ok none => rfl
  | .ok (some m) =>
    show (run env (readHash cfg cache m.sri) s).1 = (run env (readHash cfg cache m.sri) Z).1
    cases hcp : contentPath cache m.sri with
    | none => unfold readHash; rw [hcp]; rfl
    | some cp =>
      exact readHash_congr cfg env cache m.sri cp hcp (hc _ cp hcp) (fun t => hnl _ cp t hcp)

theorem read_step_fst (key : Bytes) (s : FS) :
    (step env (read cfg cache key) s).1 = readK cfg cache (run env (find cfg cache key) s).1 := by
  rw [read_step]

theorem read_run_eq (key : Bytes) (s : FS) :
    (run env (read cfg cache key) s).1 =
      (run env (readK cfg cache (run env (find cfg cache key) s).1) s).1 := by
  rw [← read_step_fst, (read_twoShot cfg env cache key).run_eq]

theorem read_mapRes_not_done {γ : Type} (g : Res Bytes → γ) (key : Bytes) (c : γ) :
    (read cfg cache key).mapRes g ≠ .done c := by
  intro h
  unfold read find bucketEntries at h
  simp [Prog.mapRes, call] at h

theorem mapRes_eq_done {γ : Type} {g : α → γ} {p : Prog α} {c : γ} (h : p.mapRes g = .done c) :
    ∃ a, p = .done a ∧ c = g a := by
  cases p with
  | done a => exact ⟨a, rfl, by simp only [mapRes_done] at h; injection h with h; exact h.symm⟩
  | sys c' k => simp only [mapRes_sys] at h; cases h

/-- **Three processes, generic**: `read key'`, a program `I` made of index calls that changes the
reader's bucket with its last call only, and a program `U` whose first step finishes it and
touches the one node `u` of the content area only, depending on that node only.  After EVERY
schedule: `I` and `U`, when finished, answer as alone from the initial state; the reader, when
finished, answers as `read` alone in one of the four states: initial, after `I`, after `U`, after
both. -/
theorem three_core {γ δI δU : Type} (I : Prog δI) (U : Prog δU) (gR : Res Bytes → γ) (gI : δI → γ)
    (gU : δU → γ) (key' : Bytes) (b : Bytes) (fs : FS) (u : Path)
    (hb : BucketIs fs (bucketPath cfg cache key') b) (hnl : NoLinkedContent cache fs)
    (hu : InArea cache dContent u)
    (hI1 : AllCalls (IdxCall cfg cache) I)
    (hI2 : UntilDone env (fun s => BucketIs s (bucketPath cfg cache key') b) I fs)
    (hI3 : ∃ b', BucketIs (run env I fs).2.1 (bucketPath cfg cache key') b')
    (hU1 : ∀ s q, q ≠ u → (step env U s).2.get q = s.get q)
    (hU2 : ∀ s, s.get u = fs.get u → (step env U s).1 = .done (run env U fs).1 ∧
      (step env U s).2.get u = (run env U fs).2.1.get u)
    (hU3 : ∀ sri t, contentPath cache sri = some u → (run env U fs).2.1.get u ≠ some (.link t))
    (sched : List Nat) :
    (∀ c, FinishedWith env [(read cfg cache key').mapRes gR, I.mapRes gI, U.mapRes gU] fs sched 1 c →
      c = gI (run env I fs).1) ∧
    (∀ c, FinishedWith env [(read cfg cache key').mapRes gR, I.mapRes gI, U.mapRes gU] fs sched 2 c →
      c = gU (run env U fs).1) ∧
    (∀ c, FinishedWith env [(read cfg cache key').mapRes gR, I.mapRes gI, U.mapRes gU] fs sched 0 c →
      c = gR (run env (read cfg cache key') fs).1 ∨
      c = gR (run env (read cfg cache key') (run env I fs).2.1).1 ∨
      c = gR (run env (read cfg cache key') (run env U fs).2.1).1 ∨
      c = gR (run env (read cfg cache key') (run env U (run env I fs).2.1).2.1).1) := by
  obtain ⟨b', hbI⟩ := hI3
  have hbu : bucketPath cfg cache key' ≠ u := bucket_ne_of_content cfg cache key' hu
  -- the state after `U` alone, after `I` alone, after both
  have hstepU : ∀ s, s.get u = fs.get u → (run env U s).1 = (run env U fs).1 ∧
      (run env U s).2.1 = (step env U s).2 := by
    intro s hs
    have h1 := run_step env U s
    rw [(hU2 s hs).1] at h1
    exact ⟨h1.1.symm, h1.2.symm⟩
  have hfsU := (hstepU fs rfl).2
  have hIu : (run env I fs).2.1.get u = fs.get u := run_idx_content cfg env cache hI1 hu fs
  have hfsIU := hstepU _ hIu
  -- content views
  have cU : ∀ sri cp, contentPath cache sri = some cp → cp ≠ u →
      (run env U fs).2.1.get cp = fs.get cp := by
    intro sri cp _ hne
    rw [hfsU]; exact hU1 fs cp hne
  have cI : ∀ sri cp, contentPath cache sri = some cp → (run env I fs).2.1.get cp = fs.get cp :=
    fun sri cp hcp => run_idx_content cfg env cache hI1 (inArea_contentPath hcp) fs
  have cIU : ∀ sri cp, contentPath cache sri = some cp →
      (run env U (run env I fs).2.1).2.1.get cp = (run env U fs).2.1.get cp := by
    intro sri cp hcp
    rw [hfsIU.2]
    by_cases hne : cp = u
    · rw [hne]; exact (hU2 _ hIu).2
    · rw [hU1 _ cp hne, cI sri cp hcp, cU sri cp hcp hne]
  have hnlU : NoLinkedContent cache (run env U fs).2.1 := by
    intro sri cp t hcp
    by_cases hne : cp = u
    · subst hne; exact hU3 sri t hcp
    · rw [cU sri cp hcp hne]; exact hnl sri cp t hcp
  -- bucket views
  have hbU : BucketIs (run env U fs).2.1 (bucketPath cfg cache key') b :=
    hb.frame (by rw [hfsU]; exact hU1 fs _ hbu)
  have hbIU : BucketIs (run env U (run env I fs).2.1).2.1 (bucketPath cfg cache key') b' :=
    hbI.frame (by rw [hfsIU.2]; exact hU1 _ _ hbu)
  -- the four answers, through the two possible answers of the lookup
  have fU : (run env (find cfg cache key') (run env U fs).2.1).1 = (run env (find cfg cache key') fs).1 :=
    find_obs_of_bucketIs cfg env cache key' b fs hb _ hbU
  have fIU : (run env (find cfg cache key') (run env U (run env I fs).2.1).2.1).1 =
      (run env (find cfg cache key') (run env I fs).2.1).1 :=
    find_obs_of_bucketIs cfg env cache key' b' _ hbI _ hbIU
  have four : ∀ xf s,
      (xf = (run env (find cfg cache key') fs).1 ∨ xf = (run env (find cfg cache key') (run env I fs).2.1).1) →
      ((∀ sri cp, contentPath cache sri = some cp → s.get cp = fs.get cp) ∨
       (∀ sri cp, contentPath cache sri = some cp → s.get cp = (run env U fs).2.1.get cp)) →
      (run env (readK cfg cache xf) s).1 = (run env (read cfg cache key') fs).1 ∨
      (run env (readK cfg cache xf) s).1 = (run env (read cfg cache key') (run env I fs).2.1).1 ∨
      (run env (readK cfg cache xf) s).1 = (run env (read cfg cache key') (run env U fs).2.1).1 ∨
      (run env (readK cfg cache xf) s).1 =
        (run env (read cfg cache key') (run env U (run env I fs).2.1).2.1).1 := by
    intro xf s hxf hs
    rcases hxf with rfl | rfl <;> rcases hs with hs | hs
    · left
      rw [readK_content_congr cfg env cache _ hs hnl, read_run_eq]
    · right; right; left
      rw [readK_content_congr cfg env cache _ hs hnlU, read_run_eq, fU]
    · right; left
      rw [readK_content_congr cfg env cache _ hs hnl, read_run_eq,
        readK_content_congr cfg env cache _ cI hnl]
    · right; right; right
      rw [readK_content_congr cfg env cache _ hs hnlU, read_run_eq, fIU,
        readK_content_congr cfg env cache _ cIU hnlU]
  -- the invariant
  let Inv : List (Prog γ) → FS → Prop := fun qs s =>
    ∃ (x : Prog γ) (pI : Prog δI) (pU : Prog γ) (sI : FS),
      qs = [x, pI.mapRes gI, pU] ∧
      AllCalls (IdxCall cfg cache) pI ∧ Agree u s sI ∧
      (run env pI sI).1 = (run env I fs).1 ∧ (run env pI sI).2.1 = (run env I fs).2.1 ∧
      UntilDone env (fun s => BucketIs s (bucketPath cfg cache key') b) pI sI ∧
      ((pU = U.mapRes gU ∧ s.get u = fs.get u ∧
          ∀ sri cp, contentPath cache sri = some cp → s.get cp = fs.get cp) ∨
       (pU = .done (gU (run env U fs).1) ∧
          ∀ sri cp, contentPath cache sri = some cp → s.get cp = (run env U fs).2.1.get cp)) ∧
      (x = (read cfg cache key').mapRes gR ∨
       (∃ xf, x = (readK cfg cache xf).mapRes gR ∧
          (xf = (run env (find cfg cache key') fs).1 ∨
           xf = (run env (find cfg cache key') (run env I fs).2.1).1)) ∨
       (∃ r, x = .done (gR r) ∧
          (r = (run env (read cfg cache key') fs).1 ∨
           r = (run env (read cfg cache key') (run env I fs).2.1).1 ∨
           r = (run env (read cfg cache key') (run env U fs).2.1).1 ∨
           r = (run env (read cfg cache key') (run env U (run env I fs).2.1).2.1).1)))
  have hInv : Inv (interleave env [(read cfg cache key').mapRes gR, I.mapRes gI, U.mapRes gU] fs sched).1
      (interleave env [(read cfg cache key').mapRes gR, I.mapRes gI, U.mapRes gU] fs sched).2 := by
    apply interleave_config_invariant env Inv
    · rintro qs s i q hget ⟨x, pI, pU, sI, rfl, hA, hag, hr1, hr2, hud, hUp, hRp⟩
      have hUview : (∀ sri cp, contentPath cache sri = some cp → s.get cp = fs.get cp) ∨
          (∀ sri cp, contentPath cache sri = some cp → s.get cp = (run env U fs).2.1.get cp) := by
        rcases hUp with ⟨_, _, h⟩ | ⟨_, h⟩
        · exact Or.inl h
        · exact Or.inr h
      match i, hget with
      | 0, hget =>
        -- the reader moves: the filesystem stays
        simp only [List.getElem?_cons_zero, Option.some.injEq] at hget
        subst hget
        rcases hRp with rfl | ⟨xf, rfl, hxf⟩ | ⟨r, rfl, hr⟩
        · rw [step_mapRes, read_step]
          refine ⟨_, pI, pU, sI, rfl, hA, hag, hr1, hr2, hud, hUp, Or.inr (Or.inl ⟨_, rfl, ?_⟩)⟩
          have hgb : s.get (bucketPath cfg cache key') = sI.get (bucketPath cfg cache key') := hag _ hbu
          cases pI with
          | sys c k =>
            left
            exact find_obs_of_bucketIs cfg env cache key' b fs hb s (hud.1.frame hgb)
          | done a =>
            right
            have hsI : sI = (run env I fs).2.1 := hr2
            rw [← hsI] at hbI ⊢
            exact find_obs_of_bucketIs cfg env cache key' b' sI hbI s (hbI.frame hgb)
        · rw [(readK_oneShot cfg env cache xf).mapRes gR s, (run_mapRes env gR _ s).1]
          exact ⟨_, pI, pU, sI, rfl, hA, hag, hr1, hr2, hud, hUp,
            Or.inr (Or.inr ⟨_, rfl, four xf s hxf hUview⟩)⟩
        · exact ⟨_, pI, pU, sI, rfl, hA, hag, hr1, hr2, hud, hUp, Or.inr (Or.inr ⟨r, rfl, hr⟩)⟩
      | 1, hget =>
        -- the index mutator moves, in step with its solo run
        simp only [List.getElem?_cons_succ, List.getElem?_cons_zero, Option.some.injEq] at hget
        subst hget
        rw [step_mapRes]
        obtain ⟨e1, e2⟩ := step_agree cfg env cache hA hu hag
        have hcont : ∀ sri cp, contentPath cache sri = some cp →
            (step env pI s).2.get cp = s.get cp :=
          fun sri cp hcp => step_idx_content cfg env cache hA (inArea_contentPath hcp) s
        refine ⟨x, (step env pI sI).1, pU, (step env pI sI).2, by rw [e1]; rfl, hA.step env sI, e2,
          (run_step env pI sI).1.trans hr1, (run_step env pI sI).2.trans hr2, hud.step, ?_, hRp⟩
        rcases hUp with ⟨h1, h2, h3⟩ | ⟨h1, h3⟩
        · exact Or.inl ⟨h1, (step_idx_content cfg env cache hA hu s).trans h2,
            fun sri cp hcp => (hcont sri cp hcp).trans (h3 sri cp hcp)⟩
        · exact Or.inr ⟨h1, fun sri cp hcp => (hcont sri cp hcp).trans (h3 sri cp hcp)⟩
      | 2, hget =>
        -- the content mutator moves
        simp only [List.getElem?_cons_succ, List.getElem?_cons_zero, Option.some.injEq] at hget
        subst hget
        rcases hUp with ⟨rfl, h2, h3⟩ | ⟨rfl, h3⟩
        · rw [step_mapRes, (hU2 s h2).1]
          refine ⟨x, pI, _, sI, rfl, hA, fun q hq => (hU1 s q hq).trans (hag q hq), hr1, hr2, hud,
            Or.inr ⟨rfl, fun sri cp hcp => ?_⟩, hRp⟩
          by_cases hne : cp = u
          · rw [hne]; exact (hU2 s h2).2
          · rw [hU1 s cp hne, h3 sri cp hcp, cU sri cp hcp hne]
        · exact ⟨x, pI, _, sI, rfl, hA, hag, hr1, hr2, hud, Or.inr ⟨rfl, h3⟩, hRp⟩
      | i + 3, hget => simp at hget
    · exact ⟨_, I, _, fs, rfl, hI1, Agree.refl u fs, rfl, rfl, hI2,
        Or.inl ⟨rfl, rfl, fun _ _ _ => rfl⟩, Or.inl rfl⟩
  obtain ⟨x, pI, pU, sI, hqs, hA, hag, hr1, hr2, hud, hUp, hRp⟩ := hInv
  unfold FinishedWith
  rw [hqs]
  refine ⟨fun c hc => ?_, fun c hc => ?_, fun c hc => ?_⟩
  · simp only [List.getElem?_cons_succ, List.getElem?_cons_zero, Option.some.injEq] at hc
    obtain ⟨a, rfl, rfl⟩ := mapRes_eq_done hc
    rw [← hr1]; rfl
  · simp only [List.getElem?_cons_succ, List.getElem?_cons_zero, Option.some.injEq] at hc
    rcases hUp with ⟨rfl, _, _⟩ | ⟨rfl, _⟩
    · obtain ⟨a, ha, rfl⟩ := mapRes_eq_done hc
      rw [ha]; rfl
    · injection hc with hc
      exact hc.symm
  · simp only [List.getElem?_cons_zero, Option.some.injEq] at hc
    have hUview : (∀ sri cp, contentPath cache sri = some cp →
          (interleave env [(read cfg cache key').mapRes gR, I.mapRes gI, U.mapRes gU] fs sched).2.get cp = fs.get cp) ∨
        (∀ sri cp, contentPath cache sri = some cp →
          (interleave env [(read cfg cache key').mapRes gR, I.mapRes gI, U.mapRes gU] fs sched).2.get cp =
            (run env U fs).2.1.get cp) := by
      rcases hUp with ⟨_, _, h⟩ | ⟨_, h⟩
      · exact Or.inl h
      · exact Or.inr h
    rcases hRp with rfl | ⟨xf, rfl, hxf⟩ | ⟨r, rfl, hr⟩
    · exact absurd hc (read_mapRes_not_done cfg cache gR key' c)
    · obtain ⟨a, ha, rfl⟩ := mapRes_eq_done hc
      have := four xf _ hxf hUview
      rw [ha] at this
      rcases this with h | h | h | h
      · exact Or.inl (congrArg gR h)
      · exact Or.inr (Or.inl (congrArg gR h))
      · exact Or.inr (Or.inr (Or.inl (congrArg gR h)))
      · exact Or.inr (Or.inr (Or.inr (congrArg gR h)))
    · injection hc with hc
      subst hc
      rcases hr with h | h | h | h
      · exact Or.inl (congrArg gR h)
      · exact Or.inr (Or.inl (congrArg gR h))
      · exact Or.inr (Or.inr (Or.inl (congrArg gR h)))
      · exact Or.inr (Or.inr (Or.inr (congrArg gR h)))


/-- A program of at most one call: one step finishes it. -/
theorem atMostOne_step {p : Prog α} (hp : AtMostOne p) (s : FS) :
    (step env p s).1 = .done (run env p s).1 ∧ (run env p s).2.1 = (step env p s).2 := by
  cases p with
  | done a => exact ⟨rfl, rfl⟩
  | sys c k =>
    obtain ⟨a, ha⟩ := hp (exec env s c).2
    simp only [step, run]
    rw [ha]
    exact ⟨rfl, rfl⟩

/-- `unlink u` looks at the node at `u` only. -/
theorem unlink_local (u : Path) {s s' : FS} (h : s.get u = s'.get u) :
    (exec env s (.unlink u)).2 = (exec env s' (.unlink u)).2 ∧
    (exec env s (.unlink u)).1.get u = (exec env s' (.unlink u)).1.get u := by
  simp only [exec]
  rw [h]
  cases hx : s'.get u with
  | none => exact ⟨rfl, by rw [h, hx]⟩
  | some nd =>
    cases nd with
    | file b => exact ⟨rfl, by simp⟩
    | link t => exact ⟨rfl, by simp⟩
    | dir => exact ⟨rfl, by rw [h, hx]⟩

theorem unlink_not_link (u : Path) (s : FS) (t : Target) :
    (exec env s (.unlink u)).1.get u ≠ some (.link t) := by
  simp only [exec]
  cases hx : s.get u with
  | none => simp [hx]
  | some nd =>
    cases nd with
    | file b => simp
    | link t' => simp
    | dir => simp [hx]

/-- `removeHash` of an address with content path `u`: answer and the node left at `u` depend on
the node at `u` only. -/
theorem removeHash_local (sri : Integrity) (u : Path) (hcp : contentPath cache sri = some u)
    {s s' : FS} (h : s.get u = s'.get u) :
    (run env (removeHash cache sri) s).1 = (run env (removeHash cache sri) s').1 ∧
    (run env (removeHash cache sri) s).2.1.get u = (run env (removeHash cache sri) s').2.1.get u := by
  obtain ⟨h1, h2⟩ := unlink_local env u h
  unfold removeHash
  rw [hcp]
  simp only [bind_eq, pure_eq, call, bind_sys, bind_done, run]
  rw [h1]
  generalize (exec env s' (.unlink u)).2 = r
  cases r <;> exact ⟨rfl, h2⟩

/-- The facts `three_core` asks of the content remover, for `removeHash`. -/
theorem removeHash_three (sri : Integrity) (fs : FS) :
    ∃ u, InArea cache dContent u ∧
      (∀ s q, q ≠ u → (step env (removeHash cache sri) s).2.get q = s.get q) ∧
      (∀ s, s.get u = fs.get u →
        (step env (removeHash cache sri) s).1 = .done (run env (removeHash cache sri) fs).1 ∧
        (step env (removeHash cache sri) s).2.get u = (run env (removeHash cache sri) fs).2.1.get u) ∧
      (∀ sri' t, contentPath cache sri' = some u →
        (run env (removeHash cache sri) fs).2.1.get u ≠ some (.link t)) ∧
      (∀ s, s.get u = fs.get u →
        (run env (removeHash cache sri) s).1 = (run env (removeHash cache sri) fs).1) := by
  have h1 := removeHash_atMostOne cache sri
  cases hcp : contentPath cache sri with
  | none =>
    have hd : removeHash cache sri = .done (.error .panic) := by
      unfold removeHash; rw [hcp]; rfl
    refine ⟨cache ++ [dContent], List.prefix_refl _, ?_, ?_, ?_, ?_⟩
    · intro s q _; rw [hd]; rfl
    · intro s hs; rw [hd]; exact ⟨rfl, hs⟩
    · intro sri' t h
      have := contentPath_length cache h
      simp at this
    · intro s _; rw [hd]; rfl
  | some u =>
    refine ⟨u, inArea_contentPath hcp, ?_, ?_, ?_, ?_⟩
    · intro s q hq
      have : step env (removeHash cache sri) s =
          ((step env (removeHash cache sri) s).1, (exec env s (.unlink u)).1) := by
        unfold removeHash; rw [hcp]; rfl
      rw [this]
      exact step_frame env s _ (.unlink u) _ .ok q (by simpa [Call.touches] using hq)
    · intro s hs
      obtain ⟨e1, e2⟩ := atMostOne_step env h1 s
      obtain ⟨g1, g2⟩ := removeHash_local env cache sri u hcp hs
      rw [e1, g1, ← e2, g2]
      exact ⟨rfl, rfl⟩
    · intro sri' t _
      have : (run env (removeHash cache sri) fs).2.1 = (exec env fs (.unlink u)).1 := by
        rw [(atMostOne_step env h1 fs).2]
        unfold removeHash; rw [hcp]; rfl
      rw [this]
      exact unlink_not_link env u fs t
    · intro s hs
      exact (removeHash_local env cache sri u hcp hs).1

/-- Where an insertion leaves a bucket that was a regular file or absent: a regular file or
absent. -/
theorem insert_final_bucketIs (key key' : Bytes) (o : WriteOpts) (b : Bytes) (fs : FS)
    (hb : BucketIs fs (bucketPath cfg cache key') b) :
    ∃ b', BucketIs (run env (insert cfg cache key o) fs).2.1 (bucketPath cfg cache key') b' := by
  by_cases hsame : bucketPath cfg cache key' = bucketPath cfg cache key
  · rw [hsame] at hb ⊢
    obtain ⟨tm, k, h⟩ := (wpD_run (insert_bucket_wp cfg env cache key o b hb)).1.bucket
    exact ⟨_, h⟩
  · exact ⟨b, hb.frame (AllCalls.frame_run (insert_avoids cfg cache key key' o hsame) env fs)⟩

/-- **(T5) `read key' ∥ insert key o ∥ removeHash sri`** — three processes, any keys, any
address, every schedule.  The finished insertion and the finished removal answer as alone (from
the initial state, which is how they answer at every position of every serial order: they touch
and look at different parts of the cache); the finished reader answers as `read` alone in one of
the four states a serial order can put it in: initial, after the insertion, after the removal,
after both.  Hypotheses: the reader's bucket is a regular file or absent; no content path is a
symbolic link. -/
theorem read_insert_removeHash_linearizable {γ : Type} (gR : Res Bytes → γ) (gI : Res Integrity → γ)
    (gU : Res Unit → γ) (key key' : Bytes) (o : WriteOpts) (sri : Integrity) (b : Bytes) (fs : FS)
    (hb : BucketIs fs (bucketPath cfg cache key') b) (hnl : NoLinkedContent cache fs)
    (sched : List Nat) :
    (∀ c, FinishedWith env [(read cfg cache key').mapRes gR, (insert cfg cache key o).mapRes gI,
        (removeHash cache sri).mapRes gU] fs sched 1 c →
      c = gI (run env (insert cfg cache key o) fs).1) ∧
    (∀ c, FinishedWith env [(read cfg cache key').mapRes gR, (insert cfg cache key o).mapRes gI,
        (removeHash cache sri).mapRes gU] fs sched 2 c →
      c = gU (run env (removeHash cache sri) fs).1) ∧
    (∀ c, FinishedWith env [(read cfg cache key').mapRes gR, (insert cfg cache key o).mapRes gI,
        (removeHash cache sri).mapRes gU] fs sched 0 c →
      c = gR (run env (read cfg cache key') fs).1 ∨
      c = gR (run env (read cfg cache key') (run env (insert cfg cache key o) fs).2.1).1 ∨
      c = gR (run env (read cfg cache key') (run env (removeHash cache sri) fs).2.1).1 ∨
      c = gR (run env (read cfg cache key')
        (run env (removeHash cache sri) (run env (insert cfg cache key o) fs).2.1).2.1).1) := by
  obtain ⟨u, hu, h1, h2, h3, _⟩ := removeHash_three env cache sri fs
  exact three_core cfg env cache _ _ gR gI gU key' b fs u hb hnl hu (insert_idxCalls cfg cache key o)
    (insert_untilDone cfg env cache key key' o b fs hb)
    (insert_final_bucketIs cfg env cache key key' o b fs hb) h1 h2 h3 sched

/-- Running the processes `order` names one after the other: the list of their answers. -/
def serialRun {γ : Type} (env : Env) (ps : List (Prog γ)) : List Nat → FS → List γ
  | [], _ => []
  | i :: rest, s =>
    match ps[i]? with
    | some p => (run env p s).1 :: serialRun env ps rest (run env p s).2.1
    | none => serialRun env ps rest s

/-- **(T5) a serial order explains all three answers.**  When all three processes have finished,
with answers `c0` (reader), `c1` (insertion), `c2` (removal), one of the orders
reader-insert-remove, insert-reader-remove, remove-reader-insert, insert-remove-reader of the
three programs, run one after the other from the initial filesystem, returns exactly these
answers. -/
theorem read_insert_removeHash_serial {γ : Type} (gR : Res Bytes → γ) (gI : Res Integrity → γ)
    (gU : Res Unit → γ) (key key' : Bytes) (o : WriteOpts) (sri : Integrity) (b : Bytes) (fs : FS)
    (hb : BucketIs fs (bucketPath cfg cache key') b) (hnl : NoLinkedContent cache fs)
    (sched : List Nat) (c0 c1 c2 : γ)
    (h0 : FinishedWith env [(read cfg cache key').mapRes gR, (insert cfg cache key o).mapRes gI,
        (removeHash cache sri).mapRes gU] fs sched 0 c0)
    (h1 : FinishedWith env [(read cfg cache key').mapRes gR, (insert cfg cache key o).mapRes gI,
        (removeHash cache sri).mapRes gU] fs sched 1 c1)
    (h2 : FinishedWith env [(read cfg cache key').mapRes gR, (insert cfg cache key o).mapRes gI,
        (removeHash cache sri).mapRes gU] fs sched 2 c2) :
    ∃ order ∈ [[0, 1, 2], [1, 0, 2], [2, 0, 1], [1, 2, 0]],
      serialRun env [(read cfg cache key').mapRes gR, (insert cfg cache key o).mapRes gI,
        (removeHash cache sri).mapRes gU] order fs =
      order.map (fun i => match i with | 0 => c0 | 1 => c1 | _ => c2) := by
  obtain ⟨hI, hU, hR⟩ := read_insert_removeHash_linearizable cfg env cache gR gI gU key key' o sri b
    fs hb hnl sched
  have e1 := hI c1 h1
  have e2 := hU c2 h2
  obtain ⟨u, hu, k1, k2, k3, k4⟩ := removeHash_three env cache sri fs
  have hA := insert_idxCalls cfg cache key o
  -- the removal answers the same after the insertion, the insertion the same after the removal
  have hUI : (run env (removeHash cache sri) (run env (insert cfg cache key o) fs).2.1).1 =
      (run env (removeHash cache sri) fs).1 := k4 _ (run_idx_content cfg env cache hA hu fs)
  have hIU : (run env (insert cfg cache key o) (run env (removeHash cache sri) fs).2.1).1 =
      (run env (insert cfg cache key o) fs).1 := by
    refine (run_agree cfg env cache hA hu ?_).1
    intro q hq
    rw [(atMostOne_step env (removeHash_atMostOne cache sri) fs).2]
    exact k1 fs q hq
  have hRs : ∀ s, (run env ((read cfg cache key').mapRes gR) s).2.1 = s := fun s =>
    ((read_twoShot cfg env cache key').mapRes gR).after s
  rcases hR c0 h0 with e0 | e0 | e0 | e0
  · refine ⟨[0, 1, 2], by simp, ?_⟩
    simp only [serialRun, List.getElem?_cons_zero, List.getElem?_cons_succ, List.map_cons,
      List.map_nil, hRs, (run_mapRes env gR _ _).1, (run_mapRes env gI _ _).1,
      (run_mapRes env gI _ _).2, (run_mapRes env gU _ _).1, hUI, e0, e1, e2]
  · refine ⟨[1, 0, 2], by simp, ?_⟩
    simp only [serialRun, List.getElem?_cons_zero, List.getElem?_cons_succ, List.map_cons,
      List.map_nil, hRs, (run_mapRes env gR _ _).1, (run_mapRes env gI _ _).1,
      (run_mapRes env gI _ _).2, (run_mapRes env gU _ _).1, hUI, e0, e1, e2]
  · refine ⟨[2, 0, 1], by simp, ?_⟩
    simp only [serialRun, List.getElem?_cons_zero, List.getElem?_cons_succ, List.map_cons,
      List.map_nil, hRs, (run_mapRes env gR _ _).1, (run_mapRes env gI _ _).1,
      (run_mapRes env gU _ _).2, (run_mapRes env gU _ _).1, hIU, e0, e1, e2]
  · refine ⟨[1, 2, 0], by simp, ?_⟩
    simp only [serialRun, List.getElem?_cons_zero, List.getElem?_cons_succ, List.map_cons,
      List.map_nil, (run_mapRes env gR _ _).1, (run_mapRes env gI _ _).1,
      (run_mapRes env gI _ _).2, (run_mapRes env gU _ _).1, (run_mapRes env gU _ _).2, hUI, e0, e1, e2]


/-- **(T5) with a removal from the index in place of the insertion**:
`read key' ∥ delete key ∥ removeHash sri`. -/
theorem read_delete_removeHash_linearizable {γ : Type} (gR : Res Bytes → γ) (gI : Res Unit → γ)
    (gU : Res Unit → γ) (key key' : Bytes) (sri : Integrity) (b : Bytes) (fs : FS)
    (hb : BucketIs fs (bucketPath cfg cache key') b) (hnl : NoLinkedContent cache fs)
    (sched : List Nat) :
    (∀ c, FinishedWith env [(read cfg cache key').mapRes gR, (delete cfg cache key).mapRes gI,
        (removeHash cache sri).mapRes gU] fs sched 1 c →
      c = gI (run env (delete cfg cache key) fs).1) ∧
    (∀ c, FinishedWith env [(read cfg cache key').mapRes gR, (delete cfg cache key).mapRes gI,
        (removeHash cache sri).mapRes gU] fs sched 2 c →
      c = gU (run env (removeHash cache sri) fs).1) ∧
    (∀ c, FinishedWith env [(read cfg cache key').mapRes gR, (delete cfg cache key).mapRes gI,
        (removeHash cache sri).mapRes gU] fs sched 0 c →
      c = gR (run env (read cfg cache key') fs).1 ∨
      c = gR (run env (read cfg cache key') (run env (delete cfg cache key) fs).2.1).1 ∨
      c = gR (run env (read cfg cache key') (run env (removeHash cache sri) fs).2.1).1 ∨
      c = gR (run env (read cfg cache key')
        (run env (removeHash cache sri) (run env (delete cfg cache key) fs).2.1).2.1).1) := by
  obtain ⟨u, hu, h1, h2, h3, _⟩ := removeHash_three env cache sri fs
  refine three_core cfg env cache _ _ gR gI gU key' b fs u hb hnl hu (delete_idxCalls cfg cache key)
    (delete_untilDone cfg env cache key key' b fs hb) ?_ h1 h2 h3 sched
  rw [(Refine.run_delete cfg cache env key fs).1]
  exact insert_final_bucketIs cfg env cache key key' {} b fs hb

/-! ### any number of index mutators: the read answers from a snapshot (towards T6) -/

/-- **`read` among any number of concurrent index mutators answers from a consistent snapshot.**

`ps` is ANY list of processes; process `i` is `read cfg cache key'`, every other process is a
program all of whose calls are whole-record for the reader's bucket and touch no content path
(index insertions and removals of any keys with well-formed options, lookups, listings, other
reads).  The bucket initially holds settled bytes `b0`; no content path is a symlink.  Then for
EVERY schedule after which the reader has finished with `c` there are lists `rs`, `rs'` of whole
well-formed records such that `c` is the second half of the read (`readK`), run on the INITIAL
content, of the lookup of `key'` in `entries b0 ++ rs` — the records there initially followed by
exactly the whole records appended up to the moment of the reader's first call —, and the bucket
now holds `b0` followed by the frames of `rs ++ rs'`.  (With `Linearize.index_ops_linearizable`:
the first call is a linearizable lookup, and the second reads content nobody changes.) -/
theorem read_snapshot {γ : Type} (g : Res Bytes → γ) (key' : Bytes) (b0 : Bytes)
    (hs : (codec cfg).Settled b0) (ps : List (Prog γ)) (i : Nat)
    (hi : ps[i]? = some ((read cfg cache key').mapRes g))
    (hp : ∀ j p, j ≠ i → ps[j]? = some p →
      AllCalls (fun c => Call.wholeRecords (codec cfg) Rec.WF (bucketPath cfg cache key') c ∧
        ∀ sri cp, contentPath cache sri = some cp → c.avoids cp) p)
    (fs : FS) (h0 : BucketIs fs (bucketPath cfg cache key') b0) (hnl : NoLinkedContent cache fs)
    (sched : List Nat) (c : γ) (hfin : FinishedWith env ps fs sched i c) :
    ∃ rs rs', (∀ r ∈ rs ++ rs', r.WF) ∧
      c = g (run env (readK cfg cache
        (.ok ((codec cfg).findIn key' ((codec cfg).entries b0 ++ rs)))) fs).1 ∧
      BucketIs (interleave env ps fs sched).2 (bucketPath cfg cache key')
        ((codec cfg).appendAll b0 (rs ++ rs')) := by
  let I : List (Prog γ) → FS → Prop := fun qs s =>
    (∀ j p, j ≠ i → qs[j]? = some p →
      AllCalls (fun c => Call.wholeRecords (codec cfg) Rec.WF (bucketPath cfg cache key') c ∧
        ∀ sri cp, contentPath cache sri = some cp → c.avoids cp) p) ∧
    (∀ sri cp, contentPath cache sri = some cp → s.get cp = fs.get cp) ∧
    ∃ rs, (∀ r ∈ rs, r.WF) ∧
      BucketIs s (bucketPath cfg cache key') ((codec cfg).appendAll b0 rs) ∧
      (qs[i]? = some ((read cfg cache key').mapRes g) ∨
        ∃ rs1 rs2, rs = rs1 ++ rs2 ∧
          (qs[i]? = some ((readK cfg cache
              (.ok ((codec cfg).findIn key' ((codec cfg).entries b0 ++ rs1)))).mapRes g) ∨
           qs[i]? = some (.done (g (run env (readK cfg cache
              (.ok ((codec cfg).findIn key' ((codec cfg).entries b0 ++ rs1)))) fs).1))))
  have hI : I (interleave env ps fs sched).1 (interleave env ps fs sched).2 := by
    apply interleave_config_invariant env I
    · rintro qs s j p hget ⟨hall, hcont, rs, hW, hb, hrd⟩
      have hjlt : j < qs.length := by
        rcases Nat.lt_or_ge j qs.length with h | h
        · exact h
        · rw [List.getElem?_eq_none h] at hget; cases hget
      by_cases hji : j = i
      · -- the reader moves: the filesystem stays
        subst hji
        rcases hrd with hrd | ⟨rs1, rs2, e, hrd | hrd⟩
        · rw [hrd] at hget
          cases hget
          rw [step_mapRes, read_step]
          refine ⟨fun j' p' hne hg => hall j' p' hne (by rwa [List.getElem?_set_ne (Ne.symm hne)] at hg),
            hcont, rs, hW, hb, Or.inr ⟨rs, [], by simp, Or.inl ?_⟩⟩
          rw [List.getElem?_set_self hjlt, find_of_bucketIs cfg env cache key' s _ hb,
            entries_appendAll_settled cfg b0 hs rs hW]
        · rw [hrd] at hget
          cases hget
          rw [(readK_oneShot cfg env cache _).mapRes g s, (run_mapRes env g _ s).1,
            readK_content_congr cfg env cache _ hcont hnl]
          refine ⟨fun j' p' hne hg => hall j' p' hne (by rwa [List.getElem?_set_ne (Ne.symm hne)] at hg),
            hcont, rs, hW, hb, Or.inr ⟨rs1, rs2, e, Or.inr ?_⟩⟩
          rw [List.getElem?_set_self hjlt]
        · rw [hrd] at hget
          cases hget
          refine ⟨fun j' p' hne hg => hall j' p' hne (by rwa [List.getElem?_set_ne (Ne.symm hne)] at hg),
            hcont, rs, hW, hb, Or.inr ⟨rs1, rs2, e, Or.inr ?_⟩⟩
          rw [List.getElem?_set_self hjlt]
          rfl
      · -- another process moves
        have hap := hall j p hji hget
        refine ⟨?_, ?_, ?_⟩
        · intro j' p' hne hg
          by_cases hjj : j = j'
          · subst hjj
            rw [List.getElem?_set_self hjlt] at hg
            cases hg
            exact hap.step env s
          · rw [List.getElem?_set_ne hjj] at hg
            exact hall j' p' hne hg
        · intro sri cp hcp
          cases p with
          | done a => exact hcont sri cp hcp
          | sys cl k =>
            exact (step_frame env s _ cl _ .ok cp (hap.1.2 sri cp hcp s)).trans (hcont sri cp hcp)
        · rw [List.getElem?_set_ne hji]
          cases p with
          | done a => exact ⟨rs, hW, hb, hrd⟩
          | sys cl k =>
            obtain ⟨ext, hWe, hbe⟩ := wholeRecords_step_ext (codec cfg) Rec.WF env
              (bucketPath cfg cache key') b0 cl s hap.1.1 rs hb
            refine ⟨rs ++ ext, ?_, hbe, ?_⟩
            · intro r hr
              rcases List.mem_append.mp hr with h | h
              · exact hW r h
              · exact hWe r h
            · rcases hrd with hrd | ⟨rs1, rs2, e, hrd⟩
              · exact Or.inl hrd
              · exact Or.inr ⟨rs1, rs2 ++ ext, by rw [e, List.append_assoc], hrd⟩
    · exact ⟨hp, fun _ _ _ => rfl, [], by simp, by simpa [Codec.appendAll] using h0, Or.inl hi⟩
  obtain ⟨-, -, rs, hW, hb, hrd⟩ := hI
  unfold FinishedWith at hfin
  rcases hrd with hrd | ⟨rs1, rs2, e, hrd | hrd⟩
  · rw [hrd] at hfin
    injection hfin with hfin
    exact absurd hfin (read_mapRes_not_done cfg cache g key' c)
  · rw [hrd] at hfin
    injection hfin with hfin
    obtain ⟨a, ha, rfl⟩ := mapRes_eq_done hfin
    refine ⟨rs1, rs2, by rw [← e]; exact hW, ?_, by rw [← e]; exact hb⟩
    rw [ha]
    rfl
  · rw [hrd] at hfin
    injection hfin with hfin
    injection hfin with hfin
    exact ⟨rs1, rs2, by rw [← e]; exact hW, hfin.symm, by rw [← e]; exact hb⟩

/-! ### non-vacuity -/

theorem allCalls_and {P Q : Call → Prop} {p : Prog α} (h1 : AllCalls P p) (h2 : AllCalls Q p) :
    AllCalls (fun c => P c ∧ Q c) p := by
  induction p with
  | done a => trivial
  | sys c k ih => exact ⟨⟨h1.1, h2.1⟩, fun r hr => ih r (h1.2 r hr) (h2.2 r hr)⟩

/-- Index insertions with well-formed options are processes in the sense of `read_snapshot`. -/
theorem insert_snapshot_proc (key key' : Bytes) (o : WriteOpts) (ho : OptsWF key o) :
    AllCalls (fun c => Call.wholeRecords (codec cfg) Rec.WF (bucketPath cfg cache key') c ∧
      ∀ sri cp, contentPath cache sri = some cp → c.avoids cp) (insert cfg cache key o) :=
  allCalls_and
    (C07.insert_wholeRecords cfg cache Rec.WF key o (C07.optsOk_of_wf key o ho) _
      (C07.bucket_isBucket cfg cache key'))
    ((insert_areas cfg cache key o).mono
      (fun _ hc _ _ hcp => hc.avoids (inArea_contentPath hcp) (by decide)) (fun _ h => h))

/-- `read_snapshot`: two inserters of any keys next to the reader, from the empty filesystem. -/
example (k1 k2 key' : Bytes) (o1 o2 : WriteOpts) (h1 : OptsWF k1 o1) (h2 : OptsWF k2 o2)
    (sched : List Nat) (c : Res Integrity ⊕ Res Bytes)
    (hfin : FinishedWith env [(insert cfg cache k1 o1).mapRes Sum.inl,
      (insert cfg cache k2 o2).mapRes Sum.inl, (read cfg cache key').mapRes Sum.inr] FS.empty sched 2 c) :
    ∃ rs rs', (∀ r ∈ rs ++ rs', r.WF) ∧
      c = .inr (run env (readK cfg cache
        (.ok ((codec cfg).findIn key' ((codec cfg).entries [] ++ rs)))) FS.empty).1 ∧
      BucketIs (interleave env [(insert cfg cache k1 o1).mapRes Sum.inl,
        (insert cfg cache k2 o2).mapRes Sum.inl, (read cfg cache key').mapRes Sum.inr] FS.empty sched).2
        (bucketPath cfg cache key') ((codec cfg).appendAll [] (rs ++ rs')) := by
  refine read_snapshot cfg env cache _ key' [] (codec_laws cfg).settled_nil _ 2 rfl ?_ FS.empty
    (Or.inr ⟨rfl, rfl⟩) (fun _ _ _ _ h => by cases h) sched c hfin
  intro j p hj hget
  match j, hj, hget with
  | 0, _, hget => cases hget; exact allCalls_mapRes _ (insert_snapshot_proc cfg cache k1 key' o1 h1)
  | 1, _, hget => cases hget; exact allCalls_mapRes _ (insert_snapshot_proc cfg cache k2 key' o2 h2)
  | 2, hj, _ => exact absurd rfl hj
  | j + 3, _, hget => simp at hget


/-- `FinishedWith … (reader)` is satisfiable from EVERY state, next to ANY other process: after the
schedule `[1, 1]` the reader has finished, with its answer run alone. -/
theorem read_finishes {γ δ : Type} (W : Prog δ) (f : δ → γ) (g : Res Bytes → γ) (key' : Bytes)
    (fs : FS) :
    FinishedWith env [W.mapRes f, (read cfg cache key').mapRes g] fs [1, 1] 1
      (g (run env (read cfg cache key') fs).1) := by
  unfold FinishedWith
  simp only [interleave, List.getElem?_cons_succ, List.getElem?_cons_zero, List.set_cons_succ,
    List.set_cons_zero]
  rw [step_mapRes, read_step]
  simp only [(readK_oneShot cfg env cache _).mapRes g fs, (run_mapRes env g _ fs).1,
    ← read_run_eq]

/-- The interleaving the two-step read is about — lookup, THEN the removal of the content, THEN the
content read (schedule `[1, 0, 1]`) — from every state: the reader finishes with the entry found
before the removal read in the state after it. -/
theorem read_straddles_removeHash {γ : Type} (f : Res Unit → γ) (g : Res Bytes → γ) (key' : Bytes)
    (sri : Integrity) (fs : FS) :
    FinishedWith env [(removeHash cache sri).mapRes f, (read cfg cache key').mapRes g] fs [1, 0, 1] 1
      (g (run env (readK cfg cache (run env (find cfg cache key') fs).1)
        (run env (removeHash cache sri) fs).2.1).1) := by
  unfold FinishedWith
  simp only [interleave, List.getElem?_cons_succ, List.getElem?_cons_zero, List.set_cons_succ,
    List.set_cons_zero]
  have hU : (step env ((removeHash cache sri).mapRes f) fs).2 =
      (run env (removeHash cache sri) fs).2.1 := by
    rw [step_mapRes]
    exact (atMostOne_step env (removeHash_atMostOne cache sri) fs).2.symm
  rw [step_mapRes, read_step]
  simp only [hU]
  rw [(readK_oneShot cfg env cache _).mapRes g _, (run_mapRes env g _ _).1]

/-- … and by `read_removeHash_linearizable` that in-between answer is `read` alone before or alone
after the removal. -/
example (key' : Bytes) (sri : Integrity) (b : Bytes) (fs : FS)
    (hb : BucketIs fs (bucketPath cfg cache key') b) :
    (run env (readK cfg cache (run env (find cfg cache key') fs).1)
      (run env (removeHash cache sri) fs).2.1).1 = (run env (read cfg cache key') fs).1 ∨
    (run env (readK cfg cache (run env (find cfg cache key') fs).1)
      (run env (removeHash cache sri) fs).2.1).1 =
      (run env (read cfg cache key') (run env (removeHash cache sri) fs).2.1).1 :=
  read_removeHash_sum cfg env cache key' sri b fs hb [1, 0, 1] _
    (read_straddles_removeHash cfg env cache Sum.inl Sum.inr key' sri fs)

/-- No symbolic links anywhere. -/
def NoLinks (fs : FS) : Prop := ∀ q t, fs.get q ≠ some (.link t)

theorem noLinks_empty : NoLinks FS.empty := fun _ _ h => by cases h

theorem NoLinks.put_file {fs : FS} (h : NoLinks fs) (p : Path) (x : Bytes) :
    NoLinks (fs.put p (.file x)) := by
  intro q t
  rw [FS.get_put]
  split
  · intro e; cases e
  · exact h q t

theorem NoLinks.plainFor {fs : FS} (h : NoLinks fs) (x : Res (Option Meta)) : PlainFor cache fs x :=
  fun _ _ cp t _ => h cp t

theorem NoLinks.noLinkedContent {fs : FS} (h : NoLinks fs) : NoLinkedContent cache fs :=
  fun _ cp t _ => h cp t

/-- A small concrete filesystem meeting the hypotheses of T2–T5: ANY bytes `b` as the reader's
bucket file (so: any index entries for the key) and ANY bytes `data` as a regular file at ANY
path `cp` (so: the entry's content present, absent — put it elsewhere —, valid or corrupt). -/
def exFS (key' : Bytes) (b : Bytes) (cp : Path) (data : Bytes) : FS :=
  (FS.empty.put cp (.file data)).put (bucketPath cfg cache key') (.file b)

theorem exFS_bucketIs (key' : Bytes) (b : Bytes) (cp : Path) (data : Bytes) :
    BucketIs (exFS cfg cache key' b cp data) (bucketPath cfg cache key') b :=
  Or.inl (FS.get_put_same _ _ _)

theorem exFS_noLinks (key' : Bytes) (b : Bytes) (cp : Path) (data : Bytes) :
    NoLinks (exFS cfg cache key' b cp data) :=
  (noLinks_empty.put_file cp data).put_file _ b

/-- (T2) applies, and its hypothesis `FinishedWith` is met by the schedule `[1, 1]`. -/
example (key key' : Bytes) (o : WriteOpts) (b data : Bytes) (cp : Path) :
    let fs := exFS cfg cache key' b cp data
    ∃ sched r, FinishedWith env [(insert cfg cache key o).mapRes Sum.inl,
        (read cfg cache key').mapRes (Sum.inr : _ → Res Integrity ⊕ Res Bytes)] fs sched 1 (.inr r) ∧
      (r = (run env (read cfg cache key') fs).1 ∨
       r = (run env (read cfg cache key') (run env (insert cfg cache key o) fs).2.1).1) := by
  intro fs
  have h := read_finishes cfg env cache (insert cfg cache key o) Sum.inl
    (Sum.inr : _ → Res Integrity ⊕ Res Bytes) key' fs
  exact ⟨[1, 1], _, h, read_insert_sum cfg env cache key key' o b fs (exFS_bucketIs cfg cache key' b cp data)
    ((exFS_noLinks cfg cache key' b cp data).plainFor cache _) [1, 1] _ h⟩

/-- (T3) likewise. -/
example (key' : Bytes) (sri : Integrity) (b data : Bytes) (cp : Path) :
    let fs := exFS cfg cache key' b cp data
    ∃ sched r, FinishedWith env [(removeHash cache sri).mapRes Sum.inl,
        (read cfg cache key').mapRes (Sum.inr : _ → Res Unit ⊕ Res Bytes)] fs sched 1 (.inr r) ∧
      (r = (run env (read cfg cache key') fs).1 ∨
       r = (run env (read cfg cache key') (run env (removeHash cache sri) fs).2.1).1) := by
  intro fs
  have h := read_straddles_removeHash cfg env cache Sum.inl
    (Sum.inr : _ → Res Unit ⊕ Res Bytes) key' sri fs
  exact ⟨[1, 0, 1], _, h, read_removeHash_sum cfg env cache key' sri b fs
    (exFS_bucketIs cfg cache key' b cp data) [1, 0, 1] _ h⟩

/-- (T4) likewise; `hother` is the "other bytes" condition on the entry the bucket bytes `b` hold
for the key (vacuous when they hold none, e.g. `b = []` on a fresh cache). -/
example (fl : Flavour) (algo : Algo) (key key' wdata : Bytes) (b data : Bytes) (cp : Path)
    (hother : ∀ m cp', (codec cfg).findIn key' ((codec cfg).entries b) = some m →
      contentPath cache m.sri = some cp' →
      contentPath cache (Sri.compute cfg.H algo wdata) ≠ some cp') :
    let fs := exFS cfg cache key' b cp data
    ∃ sched r, FinishedWith env [(write cfg fl cache algo key wdata).mapRes Sum.inl,
        (read cfg cache key').mapRes (Sum.inr : _ → Res Integrity ⊕ Res Bytes)] fs sched 1 (.inr r) ∧
      (r = (run env (read cfg cache key') fs).1 ∨
       r = (run env (read cfg cache key') (run env (write cfg fl cache algo key wdata) fs).2.1).1) := by
  intro fs
  have h := read_finishes cfg env cache (write cfg fl cache algo key wdata) Sum.inl
    (Sum.inr : _ → Res Integrity ⊕ Res Bytes) key' fs
  exact ⟨[1, 1], _, h, read_write_sum cfg env cache fl algo key key' wdata b fs
    (exFS_bucketIs cfg cache key' b cp data)
    ((exFS_noLinks cfg cache key' b cp data).plainFor cache _) hother [1, 1] _ h⟩

/-- (T1) `readHash` finishes with its one call (schedule `[1]`), next to any process. -/
theorem readHash_finishes {γ δ : Type} (W : Prog δ) (f : δ → γ) (g : Res Bytes → γ)
    (sri : Integrity) (fs : FS) :
    FinishedWith env [W.mapRes f, (readHash cfg cache sri).mapRes g] fs [1] 1
      (g (run env (readHash cfg cache sri) fs).1) := by
  unfold FinishedWith
  simp only [interleave, List.getElem?_cons_succ, List.getElem?_cons_zero,
    (readHash_oneShot cfg env cache sri).mapRes g fs, (run_mapRes env g _ fs).1]
  rfl

example (fl : Flavour) (algo : Algo) (wdata : Bytes) (sri : Integrity) (key' : Bytes) (b data : Bytes)
    (cp : Path) :
    let fs := exFS cfg cache key' b cp data
    ∃ sched r, FinishedWith env [(writeHash cfg fl cache algo wdata).mapRes Sum.inl,
        (readHash cfg cache sri).mapRes (Sum.inr : _ → Res Integrity ⊕ Res Bytes)] fs sched 1 (.inr r) ∧
      (r = (run env (readHash cfg cache sri) fs).1 ∨
       r = (run env (readHash cfg cache sri) (run env (writeHash cfg fl cache algo wdata) fs).2.1).1) := by
  intro fs
  have h := readHash_finishes cfg env cache (writeHash cfg fl cache algo wdata) Sum.inl
    (Sum.inr : _ → Res Integrity ⊕ Res Bytes) sri fs
  exact ⟨[1], _, h, readHash_writeHash_sum cfg env cache fl algo wdata sri fs
    (fun cp' t _ => exFS_noLinks cfg cache key' b cp data cp' t) [1] _ h⟩

/-- (T5) three processes: after the schedule `[0, 2, 0]` (lookup, removal, content read) the
reader and the removal have finished, and the theorem applies. -/
example (gR : Res Bytes → Nat) (gI : Res Integrity → Nat) (gU : Res Unit → Nat) (key key' : Bytes)
    (o : WriteOpts) (sri : Integrity) (b data : Bytes) (cp : Path) :
    let fs := exFS cfg cache key' b cp data
    ∃ c, FinishedWith env [(read cfg cache key').mapRes gR, (insert cfg cache key o).mapRes gI,
        (removeHash cache sri).mapRes gU] fs [0, 2, 0] 0 c ∧
      (c = gR (run env (read cfg cache key') fs).1 ∨
       c = gR (run env (read cfg cache key') (run env (insert cfg cache key o) fs).2.1).1 ∨
       c = gR (run env (read cfg cache key') (run env (removeHash cache sri) fs).2.1).1 ∨
       c = gR (run env (read cfg cache key')
        (run env (removeHash cache sri) (run env (insert cfg cache key o) fs).2.1).2.1).1) := by
  intro fs
  have h : FinishedWith env [(read cfg cache key').mapRes gR, (insert cfg cache key o).mapRes gI,
      (removeHash cache sri).mapRes gU] fs [0, 2, 0] 0
      (gR (run env (readK cfg cache (run env (find cfg cache key') fs).1)
        (run env (removeHash cache sri) fs).2.1).1) := by
    unfold FinishedWith
    simp only [interleave, List.getElem?_cons_succ, List.getElem?_cons_zero, List.set_cons_succ,
      List.set_cons_zero]
    have hU : (step env ((removeHash cache sri).mapRes gU) fs).2 =
        (run env (removeHash cache sri) fs).2.1 := by
      rw [step_mapRes]
      exact (atMostOne_step env (removeHash_atMostOne cache sri) fs).2.symm
    rw [step_mapRes, read_step]
    simp only [hU]
    rw [(readK_oneShot cfg env cache _).mapRes gR _, (run_mapRes env gR _ _).1]
  exact ⟨_, h, (read_insert_removeHash_linearizable cfg env cache gR gI gU key key' o sri b fs
    (exFS_bucketIs cfg cache key' b cp data)
    ((exFS_noLinks cfg cache key' b cp data).noLinkedContent cache) [0, 2, 0]).2.2 _ h⟩


end LinearizeRead
end Cacache

#print axioms Cacache.LinearizeRead.two_step_observer
#print axioms Cacache.LinearizeRead.reader_before_or_after
#print axioms Cacache.LinearizeRead.readHash_removeHash_linearizable
#print axioms Cacache.LinearizeRead.existsHash_removeHash_linearizable
#print axioms Cacache.LinearizeRead.readHash_writeStream_linearizable
#print axioms Cacache.LinearizeRead.readHash_writeHash_linearizable
#print axioms Cacache.LinearizeRead.existsHash_writeStream_linearizable
#print axioms Cacache.LinearizeRead.read_insert_linearizable
#print axioms Cacache.LinearizeRead.read_delete_linearizable
#print axioms Cacache.LinearizeRead.read_removeHash_linearizable
#print axioms Cacache.LinearizeRead.writeStream_bucket_untilDone
#print axioms Cacache.LinearizeRead.writeStream_content_along
#print axioms Cacache.LinearizeRead.read_writeStream_linearizable
#print axioms Cacache.LinearizeRead.read_write_linearizable
#print axioms Cacache.LinearizeRead.read_writeStream_linearizable'
#print axioms Cacache.LinearizeRead.read_write_linearizable'
#print axioms Cacache.LinearizeRead.three_core
#print axioms Cacache.LinearizeRead.read_insert_removeHash_linearizable
#print axioms Cacache.LinearizeRead.read_delete_removeHash_linearizable
#print axioms Cacache.LinearizeRead.read_insert_removeHash_serial
#print axioms Cacache.LinearizeRead.read_snapshot
#print axioms Cacache.LinearizeRead.read_finishes
#print axioms Cacache.LinearizeRead.read_straddles_removeHash
