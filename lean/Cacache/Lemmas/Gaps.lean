/-
Sentences of the informal properties that no theorem stated yet (audit list G1–G9).

* G1 (C01)  `ropenHash_run_ok`, `ropen_run_ok`, `read_stream_sound_from_openHash`,
            `read_stream_sound_from_open` — a reader is what `open` says; streaming from it in any chunking.
* G2 (C01/C13) `read_fault_sound` — keyed read under every fault plan.
* G3 (C06)  `fused_line_undecodable`, `fused_line_skipped`, `destroyed_newline_loses_both`,
            `destroyed_newline_exact` — a destroyed newline loses exactly the two records around it.
* G4 (C07)  `writeStream_content_oldOrNew`, `oneShot_anyWriter_linearizable`,
            `existsHash_anyWriter_linearizable`, `existsHash_write_linearizable`,
            `existsHash_writeHash_linearizable`, `readHash_anyWriter_linearizable`
            (`existsHash ∥ removeHash` and `∥` a by-address `writeStream` are in `LinearizeRead`).
* G5 (C07)  `writeHash_writeHash_serializable` (+ `_same_`), `writeHash_sim`.
* G6 (C08)  `putHash_wrong_size_total`.
* G7 (C13)  `tidy_of_fault_sub`, `removeFully_fault_xhealthy`, `removeFully_fault_error_state`,
            `removeFully_fault_retry`.
* G8 (C14)  `wopen_any`, `abandon_leaves_no_tmp`.
* G9 (C18)  `extractHash_missing_content`, `extractUnchecked_missing_content`, `extract_missing_content`,
            `extract_missing_key_total`, `extractUnchecked_copy_overwrites`,
            `extractUnchecked_hardLink_exists`, `extract_unchecked_existing_dest`.
Each section ends with non-vacuity `example`s (G1/G2: at the end of the file).
-/
import Cacache.Props.C01
import Cacache.Lemmas.CacheRefine
import Cacache.Lemmas.FaultMore
import Cacache.Lemmas.LinearizeRead
import Cacache.Lemmas.TwoWriters
import Cacache.Lemmas.DeclRefine
import Cacache.Lemmas.CrashMore
import Cacache.Props.C14
import Cacache.Props.C18
import Cacache.Lemmas.ReadBack
import Cacache.Props.C06
import Cacache.Lemmas.CodecLaws

namespace Cacache.Gaps
open Prog

/-! ## G1 (C01): readers are what `open` says -/

section G1
variable (cfg : Cfg)

/-- **`ropenHash` hands out the content file**: a successful open by address answers a reader for
exactly the requested integrity, positioned at 0, over exactly the bytes `readFile` finds at the
content path of that integrity — and the filesystem is as before. -/
theorem ropenHash_run_ok (env : Env) (fs : FS) (cache : Path) (sri : Integrity) (r : Reader)
    (h : (run env (ropenHash cache sri) fs).1 = .ok r) :
    r.sri = sri ∧ r.pos = 0 ∧
      ∃ cpath, contentPath cache sri = some cpath ∧ fs.readFile cpath = .ok r.data := by
  unfold ropenHash at h
  cases hc : contentPath cache sri with
  | none => rw [hc] at h; simp [run] at h
  | some cpath =>
    rw [hc] at h
    simp only [bind_eq, pure_eq, call, bind_sys, bind_done, run, exec] at h
    cases hr : fs.readFile cpath with
    | error e => rw [hr] at h; simp [run] at h
    | ok b =>
      rw [hr] at h
      by_cases he : sri.isEmpty
      · simp [he, run] at h
      · simp [he, run] at h
        subst h
        exact ⟨rfl, rfl, cpath, rfl, hr⟩

theorem find_run_fs (env : Env) (fs : FS) (cache : Path) (key : Bytes) :
    (run env (find cfg cache key) fs).2.1 = fs :=
  AllCalls.after_eq env ((find_ro cfg cache key).mono (fun c hc => exec_readOnly env c hc)
    (fun _ h => h)) fs

/-- **`ropen` hands out the content file of the entry found**: a successful open by key answers a
reader for the integrity of the entry `find` returns for the key, positioned at 0, over exactly the
bytes of the content file of that integrity. -/
theorem ropen_run_ok (env : Env) (fs : FS) (cache : Path) (key : Bytes) (r : Reader)
    (h : (run env (ropen cfg cache key) fs).1 = .ok r) :
    ∃ m, (run env (find cfg cache key) fs).1 = .ok (some m) ∧ r.sri = m.sri ∧ r.pos = 0 ∧
      ∃ cpath, contentPath cache m.sri = some cpath ∧ fs.readFile cpath = .ok r.data := by
  unfold ropen at h
  simp only [bind_eq, pure_eq] at h
  rw [CacheRefine.run_bind_res, find_run_fs] at h
  cases hf : (run env (find cfg cache key) fs).1 with
  | error e => rw [hf] at h; simp [run] at h
  | ok mo =>
    rw [hf] at h
    cases mo with
    | none => simp [run] at h
    | some m =>
      obtain ⟨h1, h2, h3⟩ := ropenHash_run_ok env fs cache m.sri r h
      exact ⟨m, rfl, h1, h2, h3⟩

/-- **Streaming from an opened reader (by address)**: the only hypothesis is that the open
succeeded.  Read with ANY list of buffer sizes; the pieces handed out concatenate to a prefix of
the content file; if the final `check` answers ok, they pass `Sri.check` for the requested
integrity; and if the reads reached the end they are the whole content file. -/
theorem read_stream_sound_from_openHash (env : Env) (fs : FS) (cache : Path) (sri : Integrity)
    (r : Reader) (ns : List Nat) (h : (run env (ropenHash cache sri) fs).1 = .ok r) :
    ∃ cpath file, contentPath cache sri = some cpath ∧ fs.readFile cpath = .ok file ∧
      (C01.readMany r ns).2 = file.take (C01.readMany r ns).1.pos ∧
      ((C01.readMany r ns).1.pos = file.length → (C01.readMany r ns).2 = file) ∧
      ∀ a, (C01.readMany r ns).1.check cfg = .ok a → C01.Passes cfg sri (C01.readMany r ns).2 := by
  obtain ⟨hs, hp, cpath, hc, hr⟩ := ropenHash_run_ok env fs cache sri r h
  have hch := C01.stream_chunks r ns (by omega)
  have hpre : (C01.readMany r ns).2 = r.data.take (C01.readMany r ns).1.pos := by
    rw [hch.2.2.2, hp]; simp
  refine ⟨cpath, r.data, hc, hr, hpre, ?_, ?_⟩
  · intro he; rw [hpre, he]; simp
  · intro a ha
    have := C01.stream_sound_all cfg r ns a hp ha
    rwa [hs] at this

/-- **Streaming from an opened reader (by key)**: as above, for the integrity of the entry the
lookup found. -/
theorem read_stream_sound_from_open (env : Env) (fs : FS) (cache : Path) (key : Bytes)
    (r : Reader) (ns : List Nat) (h : (run env (ropen cfg cache key) fs).1 = .ok r) :
    ∃ m cpath file, (run env (find cfg cache key) fs).1 = .ok (some m) ∧
      contentPath cache m.sri = some cpath ∧ fs.readFile cpath = .ok file ∧
      (C01.readMany r ns).2 = file.take (C01.readMany r ns).1.pos ∧
      ((C01.readMany r ns).1.pos = file.length → (C01.readMany r ns).2 = file) ∧
      ∀ a, (C01.readMany r ns).1.check cfg = .ok a → C01.Passes cfg m.sri (C01.readMany r ns).2 := by
  obtain ⟨m, hf, hs, hp, cpath, hc, hr⟩ := ropen_run_ok cfg env fs cache key r h
  have hch := C01.stream_chunks r ns (by omega)
  have hpre : (C01.readMany r ns).2 = r.data.take (C01.readMany r ns).1.pos := by
    rw [hch.2.2.2, hp]; simp
  refine ⟨m, cpath, r.data, hf, hc, hr, hpre, ?_, ?_⟩
  · intro he; rw [hpre, he]; simp
  · intro a ha
    have := C01.stream_sound_all cfg r ns a hp ha
    rwa [hs] at this

end G1

/-! ## G2 (C01/C13): keyed read under faults -/

section G2
variable (cfg : Cfg)

/-- **Keyed read under every fault plan**: if `read` answers `.ok b` under a fault plan, then the
lookup's bucket read (call `i`) was not faulted, the bucket file really holds bytes in which `key`
decodes to an entry `m` — the very entry `find` returns in the healthy run — and `b` passes the
integrity check of `m`.  The filesystem is untouched. -/
theorem read_fault_sound (env : Env) (plan : Nat → Option Fault) (fs : FS) (i : Nat) (cache : Path)
    (key : Bytes) (b : Bytes) (h : (runFault env plan (read cfg cache key) fs i).1 = .ok b) :
    plan i = none ∧ (runFault env plan (read cfg cache key) fs i).2.1 = fs ∧
    ∃ m bytes, fs.readFile (bucketPath cfg cache key) = .ok bytes ∧
      (codec cfg).findIn key ((codec cfg).entries bytes) = some m ∧
      (run env (find cfg cache key) fs).1 = .ok (some m) ∧ C01.Passes cfg m.sri b := by
  refine ⟨?_, FaultMore.fault_readOnly (read_ro cfg cache key) env plan fs i, ?_⟩
  · cases hp : plan i with
    | none => rfl
    | some f =>
      exfalso
      unfold read find bucketEntries at h
      simp only [bind_eq, pure_eq, call, bind_sys, bind_done, runFault, hp] at h
      cases hf : f.e <;> simp [hf, runFault, Codec.findIn] at h
  · have hp : plan i = none := by
      cases hp : plan i with
      | none => rfl
      | some f =>
        exfalso
        unfold read find bucketEntries at h
        simp only [bind_eq, pure_eq, call, bind_sys, bind_done, runFault, hp] at h
        cases hf : f.e <;> simp [hf, runFault, Codec.findIn] at h
    unfold read find bucketEntries at h
    simp only [bind_eq, pure_eq, call, bind_sys, bind_done, runFault, hp, exec] at h
    unfold find bucketEntries
    simp only [bind_eq, pure_eq, call, bind_sys, bind_done, run, exec]
    cases hr : fs.readFile (bucketPath cfg cache key) with
    | error e =>
      rw [hr] at h
      cases e <;> simp [runFault, Codec.findIn] at h
    | ok bytes =>
      rw [hr] at h
      simp only [bind_done] at h
      simp only [bind_done]
      cases hm : (codec cfg).findIn key ((codec cfg).entries bytes) with
      | none => rw [hm] at h; simp [runFault] at h
      | some m =>
        rw [hm] at h
        refine ⟨m, bytes, rfl, hm, by simp [run], ?_⟩
        exact (C01.readHash_sound cfg cache m.sri).resultFault env plan fs (i + 1) b h

end G2

/-! ## G3 (C06): a destroyed newline fuses two records into garbage -/

section G3
variable (H : Algo → Bytes → Bytes)

/-- The number of pieces is the number of separators plus one. -/
theorem splitOn_length (sep : UInt8 → Bool) (b : Bytes) :
    (Bytes.splitOn sep b).length = b.countP sep + 1 := by
  induction b with
  | nil => rfl
  | cons c t ih =>
    have hu : Bytes.splitOn sep (c :: t) =
        if sep c then [] :: Bytes.splitOn sep t
        else match Bytes.splitOn sep t with
          | [] => [[c]]
          | l :: ls => (c :: l) :: ls := rfl
    rw [hu]
    by_cases hc : sep c = true
    · simp [hc, ih]
    · simp only [hc, Bool.false_eq_true, if_false, List.countP_cons, Nat.add_zero]
      split
      · rename_i he; exact absurd he (Rec.splitOn_ne_nil sep t)
      · rename_i l ls he
        rw [he] at ih
        simpa using ih

/-- A line with two or more TAB bytes does not decode: `decLine` demands exactly one. -/
theorem decLine_two_tabs (line : Bytes) (h : 2 ≤ line.countP (fun c => c == TAB)) :
    Rec.decLine H line = none := by
  unfold Rec.decLine Rec.splitTab
  have hl := splitOn_length (fun c => c == TAB) line
  split
  · rename_i hh j hs
    rw [hs] at hl
    simp at hl
    omega
  · rfl

/-- Every framed record holds (at least) one TAB. -/
theorem encLine_countP_tab (r : Rec) : 1 ≤ (Rec.encLine H r).countP (fun c => c == TAB) := by
  rw [Rec.encLine_eq, List.countP_append, List.countP_cons]
  simp only [beq_self_eq_true, if_true]
  omega

/-- **The fused line does not decode** — for ANY two records (well-formed or not), any hash
function and ANY bytes `x` in the place of the destroyed newline (the empty string: the newline
was deleted; one byte: it was overwritten): the text holds at least two TABs. -/
theorem fused_line_undecodable (r1 r2 : Rec) (x : Bytes) :
    Rec.decLine H (Rec.encLine H r1 ++ x ++ Rec.encLine H r2) = none := by
  apply decLine_two_tabs
  rw [List.countP_append, List.countP_append]
  have h1 := encLine_countP_tab H r1
  have h2 := encLine_countP_tab H r2
  omega

/-- … also as the reader sees it (after the UTF-8 check and the removal of one trailing CR). -/
theorem fused_line_skipped (r1 r2 : Rec) (x : Bytes) :
    (Rec.codec H).decLine (lineT (Rec.codec H).valid (Rec.encLine H r1 ++ x ++ Rec.encLine H r2)) =
      none := by
  unfold lineT
  split
  · have hl : (Rec.encLine H r1 ++ x ++ Rec.encLine H r2).getLast? ≠ some CR := by
      rw [List.getLast?_append]
      rw [Rec.encLine_getLast]
      simp [CR]
    rw [stripCR_of_no_cr _ hl]
    exact fused_line_undecodable H r1 r2 x
  · rfl

/-- **A destroyed newline loses exactly the two records it stood between.**  In a bucket
`a ++ frame r1 ++ frame r2 ++ NL :: z` replace the newline that starts `frame r2` by any newline-free
bytes `x`: the reader reports the records of `a` and of `z` exactly as before and neither `r1` nor
`r2` (`C06.damage_contained` instantiated to the fused line). -/
theorem destroyed_newline_loses_both (a z x : Bytes) (r1 r2 : Rec) (hx : NL ∉ x) :
    (Rec.codec H).entries (a ++ NL :: ((Rec.encLine H r1 ++ x ++ Rec.encLine H r2) ++ NL :: z)) =
      (Rec.codec H).entriesT a ++ (Rec.codec H).entries z := by
  apply C06.damage_dropped
  · intro h
    rcases List.mem_append.mp h with h | h
    · rcases List.mem_append.mp h with h | h
      · exact Rec.enc_no_nl H r1 h
      · exact hx h
    · exact Rec.enc_no_nl H r2 h
  · exact fused_line_skipped H r1 r2 x

/-- For contrast, the undamaged bucket: both (well-formed) records are reported. -/
theorem intact_newline_keeps_both (a z : Bytes) (r1 r2 : Rec) (h1 : r1.WF) (h2 : r2.WF) :
    (Rec.codec H).entries (a ++ (Rec.codec H).frame r1 ++ (Rec.codec H).frame r2 ++ NL :: z) =
      (Rec.codec H).entriesT a ++ [r1, r2] ++ (Rec.codec H).entries z := by
  have L := Rec.codec_laws H
  have e : a ++ (Rec.codec H).frame r1 ++ (Rec.codec H).frame r2 ++ NL :: z =
      (a ++ (Rec.codec H).frame r1 ++ (Rec.codec H).frame r2) ++ NL :: z := by simp
  rw [e, Codec.entries_append_nl, L.entriesT_append_frame _ r2 h2, L.entriesT_append_frame _ r1 h1]
  simp

/-- The same bucket with that newline replaced by `x` (newline-free): what is lost is `[r1, r2]`
and nothing else. -/
theorem destroyed_newline_exact (a z x : Bytes) (r1 r2 : Rec) (hx : NL ∉ x) (h1 : r1.WF) (h2 : r2.WF) :
    (Rec.codec H).entries (a ++ (Rec.codec H).frame r1 ++ (Rec.codec H).frame r2 ++ NL :: z) =
      (Rec.codec H).entriesT a ++ [r1, r2] ++ (Rec.codec H).entries z ∧
    (Rec.codec H).entries (a ++ (Rec.codec H).frame r1 ++ x ++ (Rec.codec H).enc r2 ++ NL :: z) =
      (Rec.codec H).entriesT a ++ (Rec.codec H).entries z := by
  refine ⟨intact_newline_keeps_both H a z r1 r2 h1 h2, ?_⟩
  have e : a ++ (Rec.codec H).frame r1 ++ x ++ (Rec.codec H).enc r2 ++ NL :: z =
      a ++ NL :: ((Rec.encLine H r1 ++ x ++ Rec.encLine H r2) ++ NL :: z) := by
    simp [Codec.frame, Rec.codec]
  rw [e]
  exact destroyed_newline_loses_both H a z x r1 r2 hx

/-! non-vacuity: two well-formed records, the newline between them deleted (`x = []`) or
overwritten by a blank (`x = [32]`) -/
def rA : Rec := mkRec [107] {} 0
def rB : Rec := mkRec [108] {} 1
theorem rA_wf : rA.WF := mkRec_wf [107] {} 0 (optsWF_default (by decide)) (by rw [timeMax_eq]; omega)
theorem rB_wf : rB.WF := mkRec_wf [108] {} 1 (optsWF_default (by decide)) (by rw [timeMax_eq]; omega)
example (H : Algo → Bytes → Bytes) (a z : Bytes) :=
  destroyed_newline_exact H a z [32] rA rB (by decide) rA_wf rB_wf
example (H : Algo → Bytes → Bytes) (a z : Bytes) :=
  destroyed_newline_exact H a z [] rA rB (by decide) rA_wf rB_wf

end G3

/-! ## G4 (C07): `exists` next to a writer -/

section G4
open Linearize LinearizeRead

/-- Calls that do not create symbolic links. -/
def NotLinking : Call → Prop
  | .symlink _ _ | .mkTempLink _ _ | .renameLink _ _ => False
  | _ => True

theorem put_file_nl {s : FS} {q : Path} (h : ∀ t, s.get q ≠ some (.link t)) (p : Path) (b : Bytes) :
    ∀ t, (s.put p (.file b)).get q ≠ some (.link t) := by
  intro t; rw [FS.get_put]; split
  · simp
  · exact h t

theorem del_nl {s : FS} {q : Path} (h : ∀ t, s.get q ≠ some (.link t)) (p : Path) :
    ∀ t, (s.del p).get q ≠ some (.link t) := by
  intro t; rw [FS.get_del]; split
  · simp
  · exact h t

theorem exec_no_new_link (env : Env) (s : FS) (c : Call) (q : Path) (hc : NotLinking c)
    (h : ∀ t, s.get q ≠ some (.link t)) : ∀ t, (exec env s c).1.get q ≠ some (.link t) := by
  intro t
  cases c
  case mkdirP p =>
    simp only [exec]
    split
    · rename_i fs' he
      rcases FS.mkdirLevels_get _ _ _ _ he q with h1 | ⟨_, h1⟩
      · rw [h1]; exact h t
      · rw [h1]; simp
    · exact h t
  case removeTree p =>
    simp only [exec]
    split
    · rcases FS.delAll_get s (p :: s.below p) q with h1 | h1
      · rw [h1]; simp
      · rw [h1]; exact h t
    · exact del_nl h p t
    · exact h t
    · exact h t
  case copyFile a b =>
    simp only [exec, copyTo]
    repeat' split
    all_goals first | exact h t | exact put_file_nl h _ _ t
  case symlink => exact hc.elim
  case mkTempLink => exact hc.elim
  case renameLink => exact hc.elim
  all_goals (
    simp only [exec]
    repeat' split
    all_goals first
      | exact h t
      | exact put_file_nl h _ _ t
      | exact del_nl h _ t
      | exact put_file_nl (del_nl h _) _ _ t)

variable {α β : Type}

theorem along_noLink {Ok : α → Prop} {p : Prog α} (hp : AllCallsR NotLinking Ok p) (env : Env)
    (s : FS) (q : Path) (h : ∀ t, s.get q ≠ some (.link t)) :
    Along env (fun x => ∀ t, x.get q ≠ some (.link t)) p s := by
  induction p generalizing s with
  | done a => exact h
  | sys c k ih =>
    exact ⟨h, ih _ (hp.2 _ (answer_exec env s c)) _ (exec_no_new_link env s c q hp.1 h)⟩

/-- What changes with the last call only is, at every state, as initially or as finally. -/
theorem along_of_untilDone_final {γ : Type} (env : Env) (v : FS → γ) (x0 : γ) {p : Prog α} {s : FS}
    (h : UntilDone env (fun x => v x = x0) p s) :
    Along env (fun x => v x = x0 ∨ v x = v (run env p s).2.1) p s := by
  induction p generalizing s with
  | done a => exact Or.inr rfl
  | sys c k ih => exact ⟨Or.inl h.1, ih _ h.2⟩

theorem along_final_bind {γ : Type} (env : Env) (v : FS → γ) (x0 : γ) {p : Prog α}
    {f : α → Prog β} {s : FS}
    (h : Along env (fun x => v x = x0 ∨ v x = v (run env p s).2.1) p s)
    (hf : Along env (fun x => v x = v (run env p s).2.1) (f (run env p s).1) (run env p s).2.1) :
    Along env (fun x => v x = x0 ∨ v x = v (run env (Prog.bind p f) s).2.1) (Prog.bind p f) s := by
  have hfin : v (run env (Prog.bind p f) s).2.1 = v (run env p s).2.1 := by
    rw [LinearizeRead.run_bind_fs]; exact hf.final
  refine Along.bind (Along.mono (fun x hx => ?_) h) (Along.mono (fun x hx => ?_) hf)
  · rw [hfin]; exact hx
  · rw [hfin]; exact Or.inr hx

variable (cfg : Cfg) (env : Env) (cache : Path)

theorem wclose_notLinking (w : Writer) : AllCalls NotLinking (wclose cfg w) := by
  unfold wclose dropTmp
  repeat' ac_step

theorem wcommitCheck_notLinking (w : Writer) : AllCalls NotLinking (wcommitCheck cfg w) := by
  unfold wcommitCheck
  simp only [bind_eq, pure_eq]
  apply AllCallsR.bind (wclose_notLinking cfg w)
  intro r _
  split
  · trivial
  · split <;> trivial

/-- **A whole writer (keyed or by address) and ONE content path**: at every state of its solo run
the node at the content path is the initial one or the final one, and it never is a symbolic link
(when it was none initially): the content is published by one `rename`, and nothing after it
touches the content area. -/
theorem writeStream_content_oldOrNew (fl : Flavour) (key : Option Bytes) (o : WriteOpts)
    (chunks : List Bytes) (fs : FS) {sri : Integrity} {cp : Path}
    (hcp : contentPath cache sri = some cp) (hpl : ∀ t, fs.get cp ≠ some (.link t)) :
    Along env (fun s => s.get cp = fs.get cp ∨
        s.get cp = (run env (writeStream cfg cache fl key o chunks) fs).2.1.get cp)
      (writeStream cfg cache fl key o chunks) fs ∧
    ∀ t, (run env (writeStream cfg cache fl key o chunks) fs).2.1.get cp ≠ some (.link t) := by
  let X : Prog (Res Integrity) → FS → Prop := fun p s =>
    Along env (fun x => x.get cp = fs.get cp ∨ x.get cp = (run env p s).2.1.get cp) p s ∧
    ∀ t, (run env p s).2.1.get cp ≠ some (.link t)
  have hX : Walk env (fun s => s.get cp = fs.get cp) X := by
    constructor
    · intro β p f s ha hx
      refine ⟨Along.bind (Along.mono (fun x hx => Or.inl hx) ha) ?_, ?_⟩
      · rw [LinearizeRead.run_bind_fs]; exact hx.1
      · rw [LinearizeRead.run_bind_fs]; exact hx.2
    · intro a s hs
      exact ⟨Or.inl hs, fun t => by show s.get cp ≠ _; rw [hs]; exact hpl t⟩
  have hdep : ∀ s s' : FS, s'.get cp = s.get cp → s.get cp = fs.get cp → s'.get cp = fs.get cp :=
    fun s s' he h => he.trans h
  refine writeStream_walk cfg env cache hX hdep (inArea_contentPath hcp)
    dTmp_ne_dContent.symm fl key o chunks fs rfl ?_
  intro w s hc hok hk _ _ hs
  have hU : UntilDone env (fun x => x.get cp = fs.get cp) (wcommitCheck cfg w) s := by
    unfold wcommitCheck
    simp only [bind_eq, pure_eq]
    refine (wclose_untilDone cfg env cache w hok hc hcp _ s hs).bind ?_
    intro a
    split
    · exact ⟨_, rfl⟩
    · split <;> exact ⟨_, rfl⟩
  have hA := along_of_untilDone_final env (fun x => x.get cp) (fs.get cp) hU
  have hN := (along_noLink (wcommitCheck_notLinking cfg w) env s cp
    (fun t => by rw [hs]; exact hpl t)).final
  let g : Res (Integrity × Integrity) → Prog (Res Integrity) := fun r => match r with
        | .error e => (.done (.error e) : Prog (Res Integrity))
        | .ok (wsri, recorded) => wcommitIndex cfg w wsri recorded
  have hG : Along env (fun x => x.get cp = (run env (wcommitCheck cfg w) s).2.1.get cp)
      (g (run env (wcommitCheck cfg w) s).1) (run env (wcommitCheck cfg w) s).2.1 := by
    cases (run env (wcommitCheck cfg w) s).1 with
    | error e => exact rfl
    | ok x =>
      obtain ⟨a, b⟩ := x
      show Along env _ (wcommitIndex cfg w a b) _
      unfold wcommitIndex
      split
      · rw [hc]
        exact along_frame (insert_avoids_content cfg cache _ _ hcp) env _ _ rfl
      · exact rfl
  have hB := along_final_bind env (fun x => x.get cp) (fs.get cp) (f := g) hA hG
  have hw : wcommit cfg w = Prog.bind (wcommitCheck cfg w) g := by
    unfold wcommit; rfl
  refine ⟨by rw [hw]; exact hB, ?_⟩
  intro t
  rw [hw, LinearizeRead.run_bind_fs, hG.final]
  exact hN t

/-- **Any one-call observer of ONE content path next to a whole writer, keyed or by address**
(every schedule): if the observer's answer depends on the node at the content path of `sri` only
(as long as that node is no symbolic link), it answers as alone before or alone after the whole
write — although a keyed writer publishes the content BEFORE its last call (the index append). -/
theorem oneShot_anyWriter_linearizable {γ ε : Type} (R : Prog ε) (hR : OneShot env R)
    (sri : Integrity) (fs : FS)
    (hdep : ∀ cp, contentPath cache sri = some cp → ∀ s s' : FS, s'.get cp = s.get cp →
      (∀ t, s.get cp ≠ some (.link t)) → (run env R s').1 = (run env R s).1)
    (hnone : contentPath cache sri = none → ∀ s : FS, (run env R s).1 = (run env R fs).1)
    (hpl : PlainAt cache fs sri)
    (f : Res Integrity → γ) (g : ε → γ) (fl : Flavour) (key : Option Bytes) (o : WriteOpts)
    (chunks : List Bytes) (sched : List Nat) :
    (∀ c, FinishedWith env [(writeStream cfg cache fl key o chunks).mapRes f, R.mapRes g] fs sched 1 c →
      c = g (run env R fs).1 ∨
      c = g (run env R (run env (writeStream cfg cache fl key o chunks) fs).2.1).1) ∧
    (∀ c, FinishedWith env [(writeStream cfg cache fl key o chunks).mapRes f, R.mapRes g] fs sched 0 c →
      c = f (run env (writeStream cfg cache fl key o chunks) fs).1 ∧
      (interleave env [(writeStream cfg cache fl key o chunks).mapRes f, R.mapRes g] fs sched).2 =
        (run env (writeStream cfg cache fl key o chunks) fs).2.1) := by
  refine reader_before_or_after env _ R f g fs (OneShot.twoShot hR) ?_ sched
  have hstep : ∀ a b : FS, (run env (step env R a).1 b).1 = (run env R a).1 := by
    intro a b; rw [hR a]; rfl
  have hA : Along env (fun a => (run env R a).1 = (run env R fs).1 ∨
      (run env R a).1 = (run env R (run env (writeStream cfg cache fl key o chunks) fs).2.1).1)
      (writeStream cfg cache fl key o chunks) fs := by
    cases hcp : contentPath cache sri with
    | none => exact Along.of_all (fun s => Or.inl (hnone hcp s)) _ _
    | some cp =>
      obtain ⟨h1, h2⟩ := writeStream_content_oldOrNew cfg env cache fl key o chunks fs hcp
        (fun t => hpl cp t hcp)
      refine Along.mono (fun a ha => ?_) h1
      rcases ha with ha | ha
      · exact Or.inl (hdep cp hcp fs a ha (fun t => hpl cp t hcp))
      · exact Or.inr (hdep cp hcp _ a ha h2)
  exact Pairs.of_along (P2 := fun _ => True) (fun a b ha _ => by rw [hstep]; exact ha) hA
    (Along.of_all (fun _ => trivial) _ _)

/-- **(C07) `existsHash sri ∥ writeStream key o chunks`** — a whole writer, KEYED or by address, of
any bytes (in particular the bytes `sri` addresses), any flavour / options / chunking; every
schedule: `exists` answers as alone before or alone after the whole write. -/
theorem existsHash_anyWriter_linearizable {γ : Type} (f : Res Integrity → γ) (g : Res Bool → γ)
    (fl : Flavour) (key : Option Bytes) (o : WriteOpts) (chunks : List Bytes) (sri : Integrity)
    (fs : FS) (hpl : PlainAt cache fs sri) (sched : List Nat) :
    (∀ c, FinishedWith env [(writeStream cfg cache fl key o chunks).mapRes f,
        (existsHash cache sri).mapRes g] fs sched 1 c →
      c = g (run env (existsHash cache sri) fs).1 ∨
      c = g (run env (existsHash cache sri)
        (run env (writeStream cfg cache fl key o chunks) fs).2.1).1) ∧
    (∀ c, FinishedWith env [(writeStream cfg cache fl key o chunks).mapRes f,
        (existsHash cache sri).mapRes g] fs sched 0 c →
      c = f (run env (writeStream cfg cache fl key o chunks) fs).1 ∧
      (interleave env [(writeStream cfg cache fl key o chunks).mapRes f,
        (existsHash cache sri).mapRes g] fs sched).2 =
        (run env (writeStream cfg cache fl key o chunks) fs).2.1) := by
  refine oneShot_anyWriter_linearizable cfg env cache _ (existsHash_oneShot env cache sri) sri fs
    (fun cp hcp s s' hs hl => existsHash_congr env cache sri cp hcp hs hl)
    (fun hcp s => ?_) hpl f g fl key o chunks sched
  unfold existsHash
  rw [hcp]
  rfl

/-- **(C07) `existsHash ∥ write`** (`cacache::write` / `write_sync`, the keyed one-shot writer). -/
theorem existsHash_write_linearizable {γ : Type} (f : Res Integrity → γ) (g : Res Bool → γ)
    (fl : Flavour) (algo : Algo) (key data : Bytes) (sri : Integrity) (fs : FS)
    (hpl : PlainAt cache fs sri) (sched : List Nat) :
    (∀ c, FinishedWith env [(write cfg fl cache algo key data).mapRes f,
        (existsHash cache sri).mapRes g] fs sched 1 c →
      c = g (run env (existsHash cache sri) fs).1 ∨
      c = g (run env (existsHash cache sri) (run env (write cfg fl cache algo key data) fs).2.1).1) ∧
    (∀ c, FinishedWith env [(write cfg fl cache algo key data).mapRes f,
        (existsHash cache sri).mapRes g] fs sched 0 c →
      c = f (run env (write cfg fl cache algo key data) fs).1 ∧
      (interleave env [(write cfg fl cache algo key data).mapRes f,
        (existsHash cache sri).mapRes g] fs sched).2 =
        (run env (write cfg fl cache algo key data) fs).2.1) := by
  rw [write_eq_stream]
  exact existsHash_anyWriter_linearizable cfg env cache f g fl _ _ [data] sri fs hpl sched

/-- **(C07) `existsHash ∥ write_hash`** (`cacache::write_hash` / `write_hash_sync`). -/
theorem existsHash_writeHash_linearizable {γ : Type} (f : Res Integrity → γ) (g : Res Bool → γ)
    (fl : Flavour) (algo : Algo) (data : Bytes) (sri : Integrity) (fs : FS)
    (hpl : PlainAt cache fs sri) (sched : List Nat) :
    (∀ c, FinishedWith env [(writeHash cfg fl cache algo data).mapRes f,
        (existsHash cache sri).mapRes g] fs sched 1 c →
      c = g (run env (existsHash cache sri) fs).1 ∨
      c = g (run env (existsHash cache sri) (run env (writeHash cfg fl cache algo data) fs).2.1).1) ∧
    (∀ c, FinishedWith env [(writeHash cfg fl cache algo data).mapRes f,
        (existsHash cache sri).mapRes g] fs sched 0 c →
      c = f (run env (writeHash cfg fl cache algo data) fs).1 ∧
      (interleave env [(writeHash cfg fl cache algo data).mapRes f,
        (existsHash cache sri).mapRes g] fs sched).2 =
        (run env (writeHash cfg fl cache algo data) fs).2.1) := by
  rw [writeHash_eq_stream]
  exact existsHash_anyWriter_linearizable cfg env cache f g fl none _ [data] sri fs hpl sched

/-- By-product: **`readHash sri ∥ a whole KEYED writer`** (the by-address writer is
`LinearizeRead.readHash_writeStream_linearizable`). -/
theorem readHash_anyWriter_linearizable {γ : Type} (f : Res Integrity → γ) (g : Res Bytes → γ)
    (fl : Flavour) (key : Option Bytes) (o : WriteOpts) (chunks : List Bytes) (sri : Integrity)
    (fs : FS) (hpl : PlainAt cache fs sri) (sched : List Nat) :
    (∀ c, FinishedWith env [(writeStream cfg cache fl key o chunks).mapRes f,
        (readHash cfg cache sri).mapRes g] fs sched 1 c →
      c = g (run env (readHash cfg cache sri) fs).1 ∨
      c = g (run env (readHash cfg cache sri)
        (run env (writeStream cfg cache fl key o chunks) fs).2.1).1) ∧
    (∀ c, FinishedWith env [(writeStream cfg cache fl key o chunks).mapRes f,
        (readHash cfg cache sri).mapRes g] fs sched 0 c →
      c = f (run env (writeStream cfg cache fl key o chunks) fs).1 ∧
      (interleave env [(writeStream cfg cache fl key o chunks).mapRes f,
        (readHash cfg cache sri).mapRes g] fs sched).2 =
        (run env (writeStream cfg cache fl key o chunks) fs).2.1) := by
  refine oneShot_anyWriter_linearizable cfg env cache _ (readHash_oneShot cfg env cache sri) sri fs
    (fun cp hcp s s' hs hl => readHash_congr cfg env cache sri cp hcp hs hl)
    (fun hcp s => ?_) hpl f g fl key o chunks sched
  unfold readHash
  rw [hcp]
  rfl

/-! non-vacuity -/

/-- `existsHash` finishes with its one call (schedule `[1]`), next to any process. -/
theorem existsHash_finishes {γ δ : Type} (W : Prog δ) (f : δ → γ) (g : Res Bool → γ)
    (sri : Integrity) (fs : FS) :
    FinishedWith env [W.mapRes f, (existsHash cache sri).mapRes g] fs [1] 1
      (g (run env (existsHash cache sri) fs).1) := by
  unfold FinishedWith
  simp only [interleave, List.getElem?_cons_succ, List.getElem?_cons_zero,
    (existsHash_oneShot env cache sri).mapRes g fs, (run_mapRes env g _ fs).1]
  rfl

-- the hypotheses are met by `exFS` (any bucket bytes, any regular file anywhere, no links), for a
-- KEYED writer of any data, and `FinishedWith` by the schedule `[1]`
example (fl : Flavour) (algo : Algo) (key wdata : Bytes) (sri : Integrity) (key' : Bytes) (b data : Bytes)
    (cp : Path) :
    let fs := exFS cfg cache key' b cp data
    ∃ sched r, FinishedWith env [(write cfg fl cache algo key wdata).mapRes Sum.inl,
        (existsHash cache sri).mapRes (Sum.inr : _ → Res Integrity ⊕ Res Bool)] fs sched 1 (.inr r) ∧
      (Sum.inr r = (Sum.inr (run env (existsHash cache sri) fs).1 : Res Integrity ⊕ Res Bool) ∨
       Sum.inr r = (Sum.inr (run env (existsHash cache sri)
        (run env (write cfg fl cache algo key wdata) fs).2.1).1 : Res Integrity ⊕ Res Bool)) := by
  intro fs
  have h := existsHash_finishes env cache (write cfg fl cache algo key wdata) Sum.inl
    (Sum.inr : _ → Res Integrity ⊕ Res Bool) sri fs
  exact ⟨[1], _, h, (existsHash_write_linearizable cfg env cache Sum.inl Sum.inr fl algo key wdata sri fs
    (fun cp' t _ => exFS_noLinks cfg cache key' b cp data cp' t) [1]).1 _ h⟩

-- concretely: the keyed writer `write("k", [1,2,3])` on the empty filesystem makes 5 calls up to and
-- including its `rename`, then 4 more (the index append).  `exists` scheduled after 4 of them sees
-- nothing (the answer "alone before"), after 5 it sees the content although the writer has NOT
-- finished (the answer "alone after") — never anything else.
example : (interleave {} [(write FaultMore.cfg1 .sync [[99]] .sha256 [107] [1, 2, 3]).mapRes Sum.inl,
    (existsHash [[99]] FaultMore.sri3).mapRes (Sum.inr : _ → Res Integrity ⊕ Res Bool)] FS.empty
    [0, 0, 0, 0, 1]).1[1]? = some (.done (.inr (.ok false))) := by rfl
example : (interleave {} [(write FaultMore.cfg1 .sync [[99]] .sha256 [107] [1, 2, 3]).mapRes Sum.inl,
    (existsHash [[99]] FaultMore.sri3).mapRes (Sum.inr : _ → Res Integrity ⊕ Res Bool)] FS.empty
    [0, 0, 0, 0, 0, 1]).1[1]? = some (.done (.inr (.ok true))) := by rfl
example : (Prog.isDone <$> (interleave {} [(write FaultMore.cfg1 .sync [[99]] .sha256 [107] [1, 2, 3]).mapRes Sum.inl,
    (existsHash [[99]] FaultMore.sri3).mapRes (Sum.inr : _ → Res Integrity ⊕ Res Bool)] FS.empty
    [0, 0, 0, 0, 0, 1]).1[0]?) = some false := by rfl
example : (run {} (existsHash [[99]] FaultMore.sri3) FS.empty).1 = .ok false := by rfl
example : (run {} (existsHash [[99]] FaultMore.sri3)
    (run {} (write FaultMore.cfg1 .sync [[99]] .sha256 [107] [1, 2, 3]) FS.empty).2.1).1 = .ok true := by rfl

end G4

/-! ## G5 (C07): two by-address writers -/

section G5
open TwoWriters CacheRefine
variable (cfg : Cfg) (env : Env) (cache : Path)

/-- **(C07) `write_hash` ∥ `write_hash`**: two whole by-address writers of ANY data — the same
bytes (one address; the second `rename` replaces the file by an identical one) or different bytes,
colliding digests included — any flavours and algorithms; from a healthy cache, after EVERY
schedule that finishes both: the cache is healthy, no temp file is left, and both answers and the
final abstract cache are those of one of the two serial orders.  No hypothesis on the digest
function but `HexLen`: the collision hypothesis of `writeStream_writeStream_serializable` is only
about writers of the SAME KEY, and by-address writers have none. -/
theorem writeHash_writeHash_serializable (hl : HexLen cfg) (fl0 fl1 : Flavour) (a0 a1 : Algo)
    (d0 d1 : Bytes) (fs : FS) (hH : Healthy cfg cache fs) (sched : List Nat)
    (c0 c1 : Res Integrity ⊕ Res Integrity)
    (f0 : Linearize.FinishedWith env [(writeHash cfg fl0 cache a0 d0).mapRes Sum.inl,
      (writeHash cfg fl1 cache a1 d1).mapRes Sum.inr] fs sched 0 c0)
    (f1 : Linearize.FinishedWith env [(writeHash cfg fl0 cache a0 d0).mapRes Sum.inl,
      (writeHash cfg fl1 cache a1 d1).mapRes Sum.inr] fs sched 1 c1) :
    Serializable cfg env cache (writeHash cfg fl0 cache a0 d0) (writeHash cfg fl1 cache a1 d1)
      fs sched c0 c1 := by
  rw [writeHash_eq_stream, writeHash_eq_stream] at f0 f1 ⊢
  exact writeStream_writeStream_serializable cfg env cache hl fl0 fl1 none none _ _ [d0] [d1]
    (fun k e => by cases e) (fun k e => by cases e) (Or.inl (fun k e => by cases e))
    fs hH sched c0 c1 f0 f1

/-- The same bytes twice. -/
theorem writeHash_writeHash_same_serializable (hl : HexLen cfg) (fl0 fl1 : Flavour) (a : Algo)
    (d : Bytes) (fs : FS) (hH : Healthy cfg cache fs) (sched : List Nat)
    (c0 c1 : Res Integrity ⊕ Res Integrity)
    (f0 : Linearize.FinishedWith env [(writeHash cfg fl0 cache a d).mapRes Sum.inl,
      (writeHash cfg fl1 cache a d).mapRes Sum.inr] fs sched 0 c0)
    (f1 : Linearize.FinishedWith env [(writeHash cfg fl0 cache a d).mapRes Sum.inl,
      (writeHash cfg fl1 cache a d).mapRes Sum.inr] fs sched 1 c1) :
    Serializable cfg env cache (writeHash cfg fl0 cache a d) (writeHash cfg fl1 cache a d)
      fs sched c0 c1 :=
  writeHash_writeHash_serializable cfg env cache hl fl0 fl1 a a d d fs hH sched c0 c1 f0 f1

/-- `write_hash` simulates the abstract by-address writer. -/
theorem writeHash_sim {γ : Type} (inj : Res Integrity → γ) (hl : HexLen cfg) (fl : Flavour)
    (algo : Algo) (data : Bytes) :
    Sim cfg env cache ((writeHash cfg fl cache algo data).mapRes inj) {}
      (aWriter cfg env inj none { algo := some algo, size := some data.length } data) := by
  have h := writeStream_sim cfg env cache inj fl none { algo := some algo, size := some data.length }
    [data] hl (fun k e => by cases e)
  have hf : [data].flatten = data := by simp
  rw [hf] at h
  rw [writeHash_eq_stream]
  exact h

/-- **Not vacuous**: on the empty filesystem, two `write_hash`es of ANY data (equal or different)
under the genuinely interleaved schedule "writer 0 up to and including its rename, writer 1 from
start to end, the rest of writer 0": both finish and the theorem applies. -/
example (hl : HexLen cfg) (fl0 fl1 : Flavour) (a0 a1 : Algo) (d0 d1 : Bytes) :
    ∃ sched c0 c1,
      Linearize.FinishedWith env [(writeHash cfg fl0 cache a0 d0).mapRes Sum.inl,
        (writeHash cfg fl1 cache a1 d1).mapRes Sum.inr] FS.empty sched 0 c0 ∧
      Linearize.FinishedWith env [(writeHash cfg fl0 cache a0 d0).mapRes Sum.inl,
        (writeHash cfg fl1 cache a1 d1).mapRes Sum.inr] FS.empty sched 1 c1 ∧
      Serializable cfg env cache (writeHash cfg fl0 cache a0 d0) (writeHash cfg fl1 cache a1 d1)
        FS.empty sched c0 c1 := by
  have h0 := writeHash_sim cfg env cache (Sum.inl : _ → Res Integrity ⊕ Res Integrity) hl fl0 a0 d0
  have h1 := writeHash_sim cfg env cache (Sum.inr : _ → Res Integrity ⊕ Res Integrity) hl fl1 a1 d1
  obtain ⟨sched, c0, c1, f0, f1, -⟩ := nested_schedule cfg env cache h0 h1 FS.empty (healthy_empty cfg cache)
  exact ⟨sched, c0, c1, f0, f1, writeHash_writeHash_serializable cfg env cache hl fl0 fl1 a0 a1 d0 d1
    FS.empty (healthy_empty cfg cache) sched c0 c1 f0 f1⟩

/-- … in particular with a digest function that collides on everything (`cfg0`): different bytes,
one address. -/
example (env : Env) (cache : Path) := fun sched c0 c1 =>
  writeHash_writeHash_serializable cfg0 env cache hexLen_cfg0 .sync .async .sha256 .sha256 [1] [2, 2]
    FS.empty (healthy_empty cfg0 cache) sched c0 c1

end G5

/-! ## G6 (C08): by-address write with a wrong declared size -/

section G6
open Refine CacheRefine DeclRefine
variable (cfg : Cfg) (cache : Path)

/-- **(C08) By-address write with a wrong declared size, totally.**  From a `Healthy` cache, a
whole by-address writer (`open_hash*` + any `write`s + `commit`; any flavour, algorithm, chunking)
that declared the size `n` but was fed another number of bytes, and declared no integrity:
* the run answers exactly `.error (.size n <bytes fed>)`;
* the abstract INDEX is unchanged: every lookup of every key answers as before;
* what IS published is stated exactly: the content store maps the address of the bytes fed to
  those bytes (and nothing else changed) — they can be read back by their computed integrity;
* the cache is `Healthy` and nothing of the writer is left in `cache/tmp` (`TmpClean`). -/
theorem putHash_wrong_size_total (env : Env) (fl : Flavour) (o : WriteOpts) (chunks : List Bytes)
    (fs : FS) (h : Healthy cfg cache fs) (hl : HexLen cfg) (n : Nat) (hs : o.sri = none)
    (hz : o.size = some n) (hne : n ≠ chunks.flatten.length) :
    (run env (writeStream cfg cache fl none o chunks) fs).1 = .error (.size n chunks.flatten.length) ∧
    absIndex cfg cache (run env (writeStream cfg cache fl none o chunks) fs).2.1 = absIndex cfg cache fs ∧
    (∀ env' key, (run env' (find cfg cache key) (run env (writeStream cfg cache fl none o chunks) fs).2.1).1 =
      (run env' (find cfg cache key) fs).1) ∧
    absStore cache (run env (writeStream cfg cache fl none o chunks) fs).2.1 =
      (absStore cache fs).set (o.algo.getD .sha256)
        (Bytes.hex (cfg.H (o.algo.getD .sha256) chunks.flatten)) (some chunks.flatten) ∧
    (∀ env', (run env' (readHash cfg cache (Sri.compute cfg.H (o.algo.getD .sha256) chunks.flatten))
        (run env (writeStream cfg cache fl none o chunks) fs).2.1).1 = .ok chunks.flatten) ∧
    Healthy cfg cache (run env (writeStream cfg cache fl none o chunks) fs).2.1 ∧
    TmpClean cache fs (run env (writeStream cfg cache fl none o chunks) fs).2.1 := by
  obtain ⟨r1, hp⟩ := run_putStream cfg cache env fl o chunks fs h.store hl
  obtain ⟨hS, hA⟩ := putFrame_store cfg cache h.store hp
  obtain ⟨hI, hB⟩ := putFrame_index cfg cache h.index hp
  have hset : absStore cache (run env (writeStream cfg cache fl none o chunks) fs).2.1
      (o.algo.getD .sha256) (Bytes.hex (cfg.H (o.algo.getD .sha256) chunks.flatten)) = some chunks.flatten := by
    rw [hA]; exact AbsStore.set_same _ _ _ _
  refine ⟨?_, hB, ?_, hA, ?_, ⟨hI, hS⟩, putFrame_tmp cfg cache hp⟩
  · rw [r1]
    unfold putAnswer
    rw [declCheck_none hs, hz]
    simp only [ne_eq, hne, not_false_eq_true, if_true]
  · intro env' key
    rw [(run_find cfg cache env' key _ hI).1, (run_find cfg cache env' key fs h.index).1, hB]
  · intro env'
    rw [(run_readHash cfg cache env' _ _ hS).1]
    exact getSpec_cons_computed cfg hl _ _ _ [] hset

/-- `write_hash` never declares a wrong size (it declares the length of its data); the streaming
entry point can: the statement for the writer `open_hash` + `size(n)` + one chunk. -/
example (env : Env) (fs : FS) (h : Healthy cfg cache fs) (hl : HexLen cfg) (fl : Flavour) :=
  putHash_wrong_size_total cfg cache env fl { size := some 5 } [[1, 2, 3]] fs h hl 5 rfl rfl (by decide)

-- concretely, on the cache `/c` holding `[1,2,3]` under "k": the answer, and the bytes are published
example : (run {} (writeStream FaultMore.cfg1 [[99]] .sync none { size := some 5 } [[7, 7]]) FaultMore.fsW).1 =
    .error (.size 5 2) := by rfl
example := putHash_wrong_size_total FaultMore.cfg1 [[99]] {} .sync { size := some 5 } [[7, 7]] FaultMore.fsW
  FaultMore.fsW_xhealthy.healthy FaultMore.hexLen1 5 rfl rfl (by decide)

end G6

/-! ## G7 (C13): retry of `remove_fully` after a fault -/

section G7
open Refine CacheRefine ListRefine FaultMore CrashMore
variable (cfg : Cfg) (cache : Path)

/-- What a failing plain call leaves behind is what some (shorter) plain call leaves behind. -/
theorem execFail_plain (env : Env) (fs : FS) (short : Nat) (c : Call) (hc : Call.plain c = true) :
    execFail env fs short c = fs ∨
    ∃ c', Call.plain c' = true ∧ (∀ dir, c' ≠ .mkTemp dir) ∧ execFail env fs short c = (exec env fs c').1 := by
  cases c
  case writeAt p off d => exact Or.inr ⟨.writeAt p off (d.take short), rfl, (fun _ h => by cases h), rfl⟩
  case appendWrite p d => exact Or.inr ⟨.appendWrite p (d.take short), rfl, (fun _ h => by cases h), rfl⟩
  all_goals first
    | exact Or.inl rfl
    | (simp [Call.plain] at hc; done)

theorem runFault_suppAt {α : Type} {Ok : α → Prop} {p : Prog α}
    (hp : AllCallsR (SafeCall cache) Ok p) (env : Env) (plan : Nat → Option Fault) (fs : FS) (i : Nat)
    (q : Path) (h : SuppAt fs q) : SuppAt (runFault env plan p fs i).2.1 q := by
  induction p generalizing fs i with
  | done a => exact h
  | sys c k ih =>
    simp only [runFault]
    split
    · rename_i f _
      apply ih _ (hp.2 _ (answer_err _ _))
      rcases execFail_plain env fs f.short c hp.1.1 with e | ⟨c', _, _, e⟩
      · rw [e]; exact h
      · rw [e]; exact exec_suppAt env fs c' q h
    · exact ih _ (hp.2 _ (answer_exec env fs c)) _ _ (exec_suppAt env fs c q h)

theorem runFault_rootedAt {α : Type} {Ok : α → Prop} {p : Prog α}
    (hp : AllCallsR (SafeCall cache) Ok p) (env : Env) (plan : Nat → Option Fault) (d : Path)
    (hd : ∀ dir n, cache <+: dir → dir ++ [tmpName n] ≠ d) (fs : FS) (i : Nat) (h : RootedAt d fs) :
    RootedAt d (runFault env plan p fs i).2.1 := by
  induction p generalizing fs i with
  | done a => exact h
  | sys c k ih =>
    simp only [runFault]
    split
    · rename_i f _
      apply ih _ (hp.2 _ (answer_err _ _))
      rcases execFail_plain env fs f.short c hp.1.1 with e | ⟨c', h1, h2, e⟩
      · rw [e]; exact h
      · rw [e]; exact exec_rootedAt env fs c' d h1 (fun dir e' => absurd e' (h2 dir)) h
    · exact ih _ (hp.2 _ (answer_exec env fs c)) _ _
        (exec_rootedAt env fs c d hp.1.1 (fun dir e => hd dir _ (hp.1.2 dir e)) h)

/-- **A faulty run that only removes keeps a tidy cache tidy** (the fault-plan counterpart of
`CrashMore.tidy_of_run_sub`). -/
theorem tidy_of_fault_sub {α : Type} (env : Env) (plan : Nat → Option Fault) (p : Prog α)
    (hp : AllCalls (SafeCall cache) p) (fs : FS) (i : Nat) (hT : Tidy cfg cache fs)
    (hs : SubFS fs (runFault env plan p fs i).2.1) : Tidy cfg cache (runFault env plan p fs i).2.1 :=
  ⟨fun q hq hne => runFault_suppAt cache hp env plan fs i q (hT.supp q hq hne),
   runFault_rootedAt cache hp env plan cache (tmp_clear_cache cache) fs i hT.rootC,
   fun top ht => runFault_rootedAt cache hp env plan _ (tmp_clear_top cache ht) fs i (hT.rootT top ht),
   shape_moves cfg cache hT.shape (fun q => (hs q).elim Or.inl (fun g => Or.inr (Or.inl g))),
   recsOK_of_buckets cfg cache hT.recs (fun _ => hs _)⟩

theorem absX_congr {fs fs' : FS} (h : ∀ q, fs'.get q = fs.get q) :
    absX cfg cache fs' = absX cfg cache fs := by
  have hi : absIndex cfg cache fs' = absIndex cfg cache fs := by
    funext k; unfold absIndex; rw [h]
  have hs : absStore cache fs' = absStore cache fs := by
    funext a hx; unfold absStore; rw [h]
  unfold absX absCache
  simp only [hi, hs, isDir_congr (h cache), isDir_congr (h (cache ++ [dIndex])), h]

/-- **G7a. `remove_fully` under every fault plan, on a healthy and tidy cache: healthy and tidy
again**, whatever the answer. -/
theorem removeFully_fault_xhealthy (key : Bytes) (env : Env) (plan : Nat → Option Fault) (fs : FS)
    (i : Nat) (hH : Healthy cfg cache fs) (hT : Tidy cfg cache fs) :
    XHealthy cfg cache (runFault env plan (removeFully cfg cache key) fs i).2.1 :=
  ⟨(removeFully_fault_healthy cfg cache key env plan fs i hH).1,
   tidy_of_fault_sub cfg cache env plan _ (removeFully_safe cfg cache key) fs i hT
     (removeFully_fault_removes cfg cache key env plan fs i).1⟩

/-- **G7b. The state an ERROR answer leaves**: node for node the initial filesystem, or the
filesystem in which (only) the content file of the key's entry has been unlinked — the state
`contentProg` (the first half of `remove_fully`) reaches.  In particular the bucket file is there
as before: a faulty run that removed the bucket answered ok. -/
theorem removeFully_fault_error_state (key : Bytes) (env : Env) (plan : Nat → Option Fault) (fs : FS)
    (i : Nat) (hH : Healthy cfg cache fs) (e : Err)
    (he : (runFault env plan (removeFully cfg cache key) fs i).1 = .error e) :
    (∀ q, (runFault env plan (removeFully cfg cache key) fs i).2.1.get q = fs.get q) ∨
    (∀ q, (runFault env plan (removeFully cfg cache key) fs i).2.1.get q =
      (run env (contentProg cache (absIndex cfg cache fs key)) fs).2.1.get q) := by
  obtain ⟨cps, hc, hx⟩ := removeFully_fault_shape cfg cache key env plan fs i
  rcases hx with ⟨ho, _, _⟩ | ⟨e', _, hr⟩
  · rw [he] at ho; cases ho
  · rcases hc with rfl | ⟨m, cpath, hf, hcp, rfl⟩
    · left; intro q
      rcases hr q with g | ⟨hm, _⟩
      · exact g
      · cases hm
    · by_cases hg : (runFault env plan (removeFully cfg cache key) fs i).2.1.get cpath = fs.get cpath
      · left; intro q
        rcases hr q with g | ⟨hm, _⟩
        · exact g
        · rw [List.mem_singleton] at hm; rw [hm]; exact hg
      · right
        have hnone : (runFault env plan (removeFully cfg cache key) fs i).2.1.get cpath = none := by
          rcases hr cpath with g | ⟨_, g⟩
          · exact absurd g hg
          · exact g
        have hm : absIndex cfg cache fs key = some m := by
          have := (run_find cfg cache env key fs hH.index).1
          rw [hf] at this
          exact (Except.ok.inj this).symm
        rw [hm]
        have h2 := (run_removeHash cfg cache env m.sri fs hH.store).2
        rw [contentPath_addrOf] at hcp
        cases ha : addrOf m.sri with
        | none => rw [ha] at hcp; cases hcp
        | some x =>
          obtain ⟨a, hx⟩ := x
          rw [ha] at hcp h2
          simp only [Option.map_some, Option.some.injEq] at hcp
          simp only at h2
          intro q
          show _ = (run env (removeHash cache m.sri) fs).2.1.get q
          rw [h2 q, hcp]
          split
          · rename_i hq; rw [hq]; exact hnone
          · rename_i hq
            rcases hr q with g | ⟨hm', _⟩
            · exact g
            · rw [List.mem_singleton] at hm'; exact absurd hm' hq

/-- **G7c (C13). Retrying `remove_fully` after a fault.**  From a healthy, tidy cache run
`remove_fully key` under ANY fault plan, then run it again without faults (any environment):
* the state between the two runs is healthy and tidy, so the retry answers what the specification
  `removeFullySpec` answers there, and ends healthy and tidy;
* if the faulty run answered an ERROR, the abstract state it left is the old one or the dangling
  one (content dropped, entry still indexed), and the retry ends in EXACTLY the abstract state an
  uninterrupted `remove_fully key` would have reached;
* if the faulty run answered OK (the bucket file is gone), the retry answers exactly
  `.error (.io .notFound)` (the `unlink` of the bucket finds nothing) and changes no node. -/
theorem removeFully_fault_retry (env env' : Env) (plan : Nat → Option Fault) (key : Bytes) (fs : FS)
    (i : Nat) (hH : Healthy cfg cache fs) (hl : HexLen cfg) (hT : Tidy cfg cache fs) :
    XHealthy cfg cache (runFault env plan (removeFully cfg cache key) fs i).2.1 ∧
    (run env' (removeFully cfg cache key) (runFault env plan (removeFully cfg cache key) fs i).2.1).1 =
      (removeFullySpec cfg (absX cfg cache (runFault env plan (removeFully cfg cache key) fs i).2.1) key).2 ∧
    XHealthy cfg cache
      (run env' (removeFully cfg cache key) (runFault env plan (removeFully cfg cache key) fs i).2.1).2.1 ∧
    (∀ e, (runFault env plan (removeFully cfg cache key) fs i).1 = .error e →
      (absX cfg cache (runFault env plan (removeFully cfg cache key) fs i).2.1 = absX cfg cache fs ∨
       absX cfg cache (runFault env plan (removeFully cfg cache key) fs i).2.1 =
        danglingX (absX cfg cache fs) key) ∧
      absX cfg cache
        (run env' (removeFully cfg cache key) (runFault env plan (removeFully cfg cache key) fs i).2.1).2.1 =
        (removeFullySpec cfg (absX cfg cache fs) key).1) ∧
    ((runFault env plan (removeFully cfg cache key) fs i).1 = .ok () →
      (run env' (removeFully cfg cache key) (runFault env plan (removeFully cfg cache key) fs i).2.1).1 =
        .error (.io .notFound) ∧
      ∀ q, (run env' (removeFully cfg cache key)
          (runFault env plan (removeFully cfg cache key) fs i).2.1).2.1.get q =
        (runFault env plan (removeFully cfg cache key) fs i).2.1.get q) := by
  have hx := removeFully_fault_xhealthy cfg cache key env plan fs i hH hT
  obtain ⟨r1, r2, r3, r4⟩ := removeFully_refines cfg cache env' key _ hx.healthy hl hx.tidy
  refine ⟨hx, r1, ⟨r3, r4⟩, ?_, ?_⟩
  · intro e he
    have hadm : absX cfg cache (runFault env plan (removeFully cfg cache key) fs i).2.1 = absX cfg cache fs ∨
        absX cfg cache (runFault env plan (removeFully cfg cache key) fs i).2.1 =
          danglingX (absX cfg cache fs) key := by
      rcases removeFully_fault_error_state cfg cache key env plan fs i hH e he with g | g
      · exact Or.inl (absX_congr cfg cache g)
      · right
        rw [absX_congr cfg cache g]
        obtain ⟨_, c2, c3, c4, c5, c6, c7, c8⟩ :=
          contentProg_step cfg cache env fs hH hl (absIndex cfg cache fs key)
        rw [absX_kept cfg cache c5 c6 c7]
        simp only [XAbs.kept, XAbs.withStore, danglingX, absCache, c4, c2, absX]
    refine ⟨hadm, ?_⟩
    rw [r2]
    apply removeFullySpec_retry
    rcases hadm with g | g
    · exact Or.inl g
    · exact Or.inr (Or.inl g)
  · intro ho
    have hn := (removeFully_ok_absent cfg cache key env plan fs i ho).1
    generalize (runFault env plan (removeFully cfg cache key) fs i).2.1 = fs' at hn hx
    have f1 := (find_absent cfg cache key fs' hn).1 env'
    have f2 := (run_find cfg cache env' key fs' hx.healthy.index).2
    obtain ⟨d1, d2⟩ := dropBucket_step cfg cache env' key fs' hx.healthy.index
    rw [removeFully_eq]
    constructor
    · rw [CacheRefine.run_bind_res, f1, f2]
      simp only [contentProg, bind_done]
      rw [d1, hn]; rfl
    · intro q
      rw [CacheRefine.run_bind_fs, f1, f2]
      simp only [contentProg, bind_done]
      rw [d2 q]
      split
      · rename_i hq; rw [hq, hn]
      · rfl

/-! non-vacuity: `/c` holds `[1,2,3]` under "k"; lookup = call 0, content `unlink` = call 1, bucket
`unlink` = call 2 -/
open FaultStrict in
example := removeFully_fault_retry cfg1 [[99]] {} {} (failAt 2) [107] fsW 0 fsW_xhealthy.healthy hexLen1
  fsW_xhealthy.tidy
-- the bucket unlink fails: error, the content is gone (dangling entry); the retry completes: ok
open FaultStrict in
example : (runFault {} (failAt 2) (removeFully cfg1 [[99]] [107]) fsW 0).1 = .error (.io .other) := by rfl
open FaultStrict in
example : (run {} (removeFully cfg1 [[99]] [107])
    (runFault {} (failAt 2) (removeFully cfg1 [[99]] [107]) fsW 0).2.1).1 = .ok () := by rfl
open FaultStrict in
example : (run {} (find cfg1 [[99]] [107]) (run {} (removeFully cfg1 [[99]] [107])
    (runFault {} (failAt 2) (removeFully cfg1 [[99]] [107]) fsW 0).2.1).2.1).1 = .ok none := by rfl
-- the content unlink fails: error, nothing changed; the retry is the whole removal
open FaultStrict in
example : (run {} (removeFully cfg1 [[99]] [107])
    (runFault {} (failAt 1) (removeFully cfg1 [[99]] [107]) fsW 0).2.1).1 = .ok () := by rfl
-- an injected NotFound on the content unlink: the faulty run answers ok (bucket removed); the retry
-- answers the NotFound I/O error
example : (runFault {} (nfAt 1) (removeFully cfg1 [[99]] [107]) fsW 0).1 = .ok () := by rfl
example : (run {} (removeFully cfg1 [[99]] [107])
    (runFault {} (nfAt 1) (removeFully cfg1 [[99]] [107]) fsW 0).2.1).1 = .error (.io .notFound) := by rfl

end G7

/-! ## G8 (C14): the abandon program leaves no temp file -/

section G8
open Refine CacheRefine
variable (cfg : Cfg) (cache : Path)

/-- **Opening a writer, from ANY filesystem**: it fails, or it hands out a writer over the fresh
temp file `cache/tmp/#<next>` whose invariant holds, and apart from that temp file every path keeps
its node or turns from absent into a directory on the way to `cache/tmp`. -/
theorem wopen_any (env : Env) (fl : Flavour) (key : Option Bytes) (o : WriteOpts) (fs : FS) :
    (∃ e, (run env (wopen cfg fl cache key o) fs).1 = .error e) ∨
    ∃ w, (run env (wopen cfg fl cache key o) fs).1 = .ok w ∧
      w.cache = cache ∧ w.tmp = (cache ++ [dTmp]) ++ [tmpName fs.next] ∧
      WInv w (run env (wopen cfg fl cache key o) fs).2.1 ∧
      ∀ q, q ≠ w.tmp → Grow fs (run env (wopen cfg fl cache key o) fs).2.1 q (cache ++ [dTmp]) := by
  unfold wopen
  simp only [bind_eq, pure_eq, call, bind_sys, bind_done, run_sys_res, run_sys_fs, exec]
  cases hm : fs.mkdirP (cache ++ [dTmp]) with
  | error e => exact Or.inl ⟨_, rfl⟩
  | ok fs1 =>
    simp only
    have hm' : FS.mkdirLevels fs (FS.prefixes (cache ++ [dTmp])) (cache ++ [dTmp]).length = .ok fs1 := hm
    have hnext : fs1.next = fs.next := mkdirLevels_next _ _ _ _ hm'
    have hfr : ∀ q, Grow fs fs1 q (cache ++ [dTmp]) := by
      intro q
      rcases FS.mkdirLevels_get _ _ _ _ hm' q with h1 | ⟨h1, h2⟩
      · exact Or.inl h1
      · refine Or.inr ⟨h1, h2, ?_⟩
        apply Classical.byContradiction
        intro hn
        have : q ∉ FS.prefixes (cache ++ [dTmp]) := fun hmem => hn (FS.mem_prefixes hmem)
        rw [FS.mkdirLevels_frame _ _ _ _ hm' q this, h1] at h2
        cases h2
    by_cases hisd : fs1.isDir (cache ++ [dTmp]) = true
    · simp only [run_sys_res, run_sys_fs, exec, hisd, if_true, hnext]
      generalize hfs2 : ({ get := (fs1.put (cache ++ [dTmp] ++ [tmpName fs.next]) (Node.file [])).get, dom := (fs1.put (cache ++ [dTmp] ++ [tmpName fs.next]) (Node.file [])).dom, next := fs.next + 1 } : FS) = fs2
      have h2 : ∀ q, fs2.get q = if q = cache ++ [dTmp] ++ [tmpName fs.next] then some (.file []) else fs1.get q := by
        intro q; rw [← hfs2]; simp [FS.put]
      have h2t : fs2.get (cache ++ [dTmp] ++ [tmpName fs.next]) = some (.file []) := by rw [h2]; simp
      have hfr2 : ∀ q, q ≠ cache ++ [dTmp] ++ [tmpName fs.next] → Grow fs fs2 q (cache ++ [dTmp]) := by
        intro q hq; unfold Grow; rw [h2, if_neg hq]; exact hfr q
      have base : ∀ w : Writer, w.cache = cache → w.tmp = cache ++ [dTmp] ++ [tmpName fs.next] → w.hashed = [] →
          w.pos = 0 → w.mmap = none → WInv w fs2 := by
        intro w hc ht hh hp hmm
        refine ⟨⟨_, by rw [ht, hc]⟩, by rw [hp, hh]; rfl, [], by rw [ht]; exact h2t, ?_, ?_, ?_⟩
        · rw [hh]; simp
        · intro _; rw [hp]; rfl
        · intro n hn; rw [hmm] at hn; cases hn
      right
      cases hms : (if fl = Flavour.async ∧ key.isSome = true then none else o.size) with
      | none =>
        simp only [run_done_res, run_done_fs]
        exact ⟨_, rfl, rfl, rfl, base _ rfl rfl rfl rfl rfl, hfr2⟩
      | some n =>
        simp only
        by_cases hb : 0 < n ∧ n ≤ cfg.maxMmap
        · have hn0 : n ≠ 0 := by omega
          have hlt : ([] : Bytes).length < n := by simpa using hb.1
          simp only [hb, and_self, if_true, run_sys_res, run_sys_fs, exec, h2t, hn0, if_false, hlt,
            run_done_res, run_done_fs]
          refine ⟨_, rfl, rfl, rfl, ⟨⟨_, rfl⟩, rfl, _, FS.get_put_same _ _ _, ?_, ?_, ?_⟩, ?_⟩
          · simp
          · intro h; cases h
          · intro m hm'; cases hm'; simp [zeros]
          · intro q hq
            unfold Grow
            rw [FS.get_put_ne _ _ hq]
            exact hfr2 q hq
        · simp only [hb, if_false, run_done_res, run_done_fs]
          exact ⟨_, rfl, rfl, rfl, base _ rfl rfl rfl rfl rfl, hfr2⟩
    · left
      simp only [run_sys_res, exec, hisd]
      exact ⟨_, rfl⟩

/-- **(C14) The abandon program leaves no temp file.**  Open a writer (any flavour, keyed or not,
any options), feed it ANY chunks, drop it — in the healthy semantics, from ANY filesystem in which
the `wopen` succeeds (nothing else is assumed: no healthy cache, no free content area).  Afterwards
* the writer's temp path `cache/tmp/#<next>` holds nothing, and every OTHER entry of `cache/tmp` is
  as before (`TmpClean`);
* every path other than the temp path keeps its node, or turned from absent into a directory on
  the way to `cache/tmp` (`Grow`) — in particular nothing in the index or content area changed. -/
theorem abandon_leaves_no_tmp (env : Env) (fl : Flavour) (key : Option Bytes) (o : WriteOpts)
    (fed : List Bytes) (fs : FS) (w : Writer)
    (hopen : (run env (wopen cfg fl cache key o) fs).1 = .ok w) :
    w.tmp = (cache ++ [dTmp]) ++ [tmpName fs.next] ∧
    (run env (C14.abandon cfg fl cache key o fed) fs).2.1.get w.tmp = none ∧
    TmpClean cache fs (run env (C14.abandon cfg fl cache key o fed) fs).2.1 ∧
    ∀ q, q ≠ w.tmp → Grow fs (run env (C14.abandon cfg fl cache key o fed) fs).2.1 q (cache ++ [dTmp]) := by
  rcases wopen_any cfg cache env fl key o fs with ⟨e, he⟩ | ⟨w0, h0, hc, ht, hi, hg⟩
  · rw [he] at hopen; cases hopen
  · rw [h0] at hopen
    have hw : w0 = w := Except.ok.inj hopen
    subst hw
    obtain ⟨w', h1, hs, hi', _, _, _, _, hfr⟩ := run_wwriteAll env w0 fed _ hi
    obtain ⟨f, hf, _⟩ := hi'.file
    have hfin : ∀ q, (run env (C14.abandon cfg fl cache key o fed) fs).2.1.get q =
        if q = w0.tmp then none
        else (run env (wwriteAll w0 fed) (run env (wopen cfg fl cache key o) fs).2.1).2.1.get q := by
      intro q
      unfold C14.abandon
      simp only [bind_eq, pure_eq]
      rw [run_bind_fs, h0]
      simp only
      rw [run_bind_fs, h1]
      simp only [dropTmp, bind_eq, pure_eq, call, bind_sys, bind_done, run_sys_fs, exec, hf, run_done_fs]
      rw [hs.2.1]
      exact FS.get_del _ _ _
    have hno : (run env (C14.abandon cfg fl cache key o fed) fs).2.1.get w0.tmp = none := by
      rw [hfin, if_pos rfl]
    have hgrow : ∀ q, q ≠ w0.tmp →
        Grow fs (run env (C14.abandon cfg fl cache key o fed) fs).2.1 q (cache ++ [dTmp]) := by
      intro q hq
      unfold Grow
      rw [hfin, if_neg hq, hfr q hq]
      exact hg q hq
    refine ⟨ht, hno, ⟨by rw [← ht]; exact hno, ?_⟩, hgrow⟩
    intro n hn
    have hne : (cache ++ [dTmp]) ++ [n] ≠ w0.tmp := by
      rw [ht]; intro e
      have := List.append_cancel_left e
      simp at this
      exact hn this
    rcases hgrow _ hne with g | ⟨_, _, g⟩
    · exact g
    · exact absurd g (tmp_not_prefix_tmpDir cache n)

/-! non-vacuity: a keyed async writer with a declared size (pre-allocated, mapped) on the cache `/c`
that also holds a stranger's file `tmp/x`; chunks that overflow the mapping -/
def fsX : FS := FaultMore.fsW.put [[99], dTmp, [120]] (.file [9])
def wX : Writer :=
  { cache := [[99]], key := none, algo := .sha256, tmp := [[99], dTmp, tmpName fsX.next], mmap := some 4,
    pos := 0, hashed := [], written := 0, opts := { size := some 4 } }
example : (run {} (wopen FaultMore.cfg1 .async [[99]] none { size := some 4 }) fsX).1 = .ok wX := by rfl
example := abandon_leaves_no_tmp FaultMore.cfg1 [[99]] {} .async none { size := some 4 } [[1, 2], [3, 4, 5]]
  fsX wX (by rfl)
example : (run {} (C14.abandon FaultMore.cfg1 .async [[99]] none { size := some 4 } [[1, 2], [3, 4, 5]]) fsX).2.1.get
    wX.tmp = none := by rfl
example : (run {} (C14.abandon FaultMore.cfg1 .async [[99]] none { size := some 4 } [[1, 2], [3, 4, 5]]) fsX).2.1.get
    [[99], dTmp, [120]] = some (.file [9]) := by rfl
-- before the drop the temp file was there, holding what was fed
example : (run {} (wwriteAll wX [[1, 2], [3, 4, 5]])
    (run {} (wopen FaultMore.cfg1 .async [[99]] none { size := some 4 }) fsX).2.1).2.1.get wX.tmp =
    some (.file [1, 2, 3, 4, 5]) := by rfl

end G8

/-! ## G9 (C18): error kinds of extraction -/

section G9
open Refine CacheRefine
variable (cfg : Cfg)

theorem contentPath_ne_nil {cache : Path} {sri : Integrity} {cpath : Path}
    (hc : contentPath cache sri = some cpath) : cpath ≠ [] := by
  obtain ⟨a, hx, rfl⟩ := contentPath_shape hc; simp

/-- The verification pass on a missing content file: exactly the NotFound I/O error. -/
theorem verify_missing_content (env : Env) (fs : FS) (cache : Path) (sri : Integrity) (cpath : Path)
    (hc : contentPath cache sri = some cpath) (hmiss : fs.get cpath = none) :
    (run env (verify cfg cache sri) fs).1 = .error (.io .notFound) ∧
    (run env (verify cfg cache sri) fs).2.1 = fs := by
  have hr := readFile_absent (contentPath_ne_nil hc) hmiss
  unfold verify ropenHash
  rw [hc]
  simp [run, call, exec, hr]

/-- **(C18) Checked extraction by address, content file missing**: every kind (`copy`, `hard_link`,
`reflink`) answers exactly `.error (.io .notFound)` and touches nothing. -/
theorem extractHash_missing_content (env : Env) (fs : FS) (how : Extract) (cache : Path)
    (sri : Integrity) (dest cpath : Path) (hc : contentPath cache sri = some cpath)
    (hmiss : fs.get cpath = none) :
    (run env (extractHash cfg how cache sri dest) fs).1 = .error (.io .notFound) ∧
    (run env (extractHash cfg how cache sri dest) fs).2.1 = fs := by
  obtain ⟨v1, v2⟩ := verify_missing_content cfg env fs cache sri cpath hc hmiss
  unfold extractHash
  simp only [bind_eq, pure_eq]
  rw [run_bind_res, run_bind_fs, v1, v2]
  exact ⟨rfl, rfl⟩

/-- **(C18) Unchecked extraction by address, content file missing**: `copy` and `hard_link` answer
exactly `.error (.io .notFound)`; `reflink` answers `.error (.io .other)` (reflink-copy reports
`InvalidInput` for a source that is not a regular file, a missing one included); nothing is touched,
in particular no destination is created. -/
theorem extractUnchecked_missing_content (env : Env) (fs : FS) (how : Extract) (cache : Path)
    (sri : Integrity) (dest cpath : Path) (hc : contentPath cache sri = some cpath)
    (hmiss : fs.get cpath = none) :
    (run env (extractUnchecked how cache sri dest) fs).1 =
      .error (.io (match how with | .reflink => .other | _ => .notFound)) ∧
    (run env (extractUnchecked how cache sri dest) fs).2.1 = fs := by
  have hr := readFile_absent (contentPath_ne_nil hc) hmiss
  unfold extractUnchecked
  rw [hc]
  cases how <;> simp [run, call, exec, hr]

/-- **(C18) Extraction by key, the entry is there but its content file is missing**: checked
extraction of every kind answers exactly `.error (.io .notFound)`; unchecked `copy` / `hard_link`
too (`reflink`: `.io .other`); nothing is touched. -/
theorem extract_missing_content (env : Env) (fs : FS) (checked : Bool) (how : Extract) (cache : Path)
    (key : Bytes) (dest cpath : Path) (m : Meta)
    (hf : (run env (find cfg cache key) fs).1 = .ok (some m))
    (hc : contentPath cache m.sri = some cpath) (hmiss : fs.get cpath = none) :
    (run env (extract cfg checked how cache key dest) fs).1 =
      .error (.io (if checked then .notFound else match how with | .reflink => .other | _ => .notFound)) ∧
    (run env (extract cfg checked how cache key dest) fs).2.1 = fs := by
  unfold extract
  simp only [bind_eq, pure_eq]
  rw [run_bind_res, run_bind_fs, hf, find_run_fs]
  cases checked
  · simpa using extractUnchecked_missing_content env fs how cache m.sri dest cpath hc hmiss
  · simpa using extractHash_missing_content cfg env fs how cache m.sri dest cpath hc hmiss

/-- **(C18) A missing KEY**: extraction by key, checked or not, of every kind answers exactly the
entry-not-found error `.error .notFound` — never an I/O error — and touches nothing.  (The answer is
`C18.extract_missing_key`.) -/
theorem extract_missing_key_total (env : Env) (fs : FS) (checked : Bool) (how : Extract) (cache : Path)
    (key : Bytes) (dest : Path) (h : (run env (find cfg cache key) fs).1 = .ok none) :
    (run env (extract cfg checked how cache key dest) fs).1 = .error .notFound ∧
    (∀ e, (run env (extract cfg checked how cache key dest) fs).1 ≠ .error (.io e)) ∧
    (run env (extract cfg checked how cache key dest) fs).2.1 = fs := by
  have h1 := C18.extract_missing_key cfg env fs checked how cache key dest h
  refine ⟨h1, (fun e he => by rw [h1] at he; cases he), ?_⟩
  unfold extract
  simp only [bind_eq, pure_eq]
  rw [run_bind_fs, h, find_run_fs]
  rfl

/-- … in particular when the key's bucket file does not exist. -/
theorem extract_no_bucket (env : Env) (fs : FS) (checked : Bool) (how : Extract) (cache : Path)
    (key : Bytes) (dest : Path) (h : fs.get (bucketPath cfg cache key) = none) :
    (run env (extract cfg checked how cache key dest) fs).1 = .error .notFound :=
  (extract_missing_key_total cfg env fs checked how cache key dest
    ((FaultMore.find_absent cfg cache key fs h).1 env)).1

/-- **(C18) Unchecked `copy` by address onto an EXISTING regular destination delivers the bytes**:
`fs::copy` truncates and overwrites; the answer is the byte count, the destination holds exactly the
content bytes, no other path changes. -/
theorem extractUnchecked_copy_overwrites (env : Env) (fs : FS) (cache : Path) (sri : Integrity)
    (dest cpath : Path) (b old : Bytes) (hc : contentPath cache sri = some cpath)
    (hfile : fs.get cpath = some (.file b)) (hdest : fs.get dest = some (.file old))
    (hparent : fs.isDir (FS.parent dest) = true) :
    (run env (extractUnchecked .copy cache sri dest) fs).1 = .ok b.length ∧
    (run env (extractUnchecked .copy cache sri dest) fs).2.1.get dest = some (.file b) ∧
    ∀ q, q ≠ dest → (run env (extractUnchecked .copy cache sri dest) fs).2.1.get q = fs.get q := by
  have hr := readFile_of_file (contentPath_ne_nil hc) hfile
  unfold extractUnchecked
  rw [hc]
  simp only [bind_eq, pure_eq, call, bind_sys, bind_done, run_sys_res, run_sys_fs, exec, hr, copyTo,
    hparent, hdest, Bool.not_true, Bool.false_eq_true, if_false, run_done_res, run_done_fs]
  exact ⟨trivial, FS.get_put_same _ _ _, fun q hq => FS.get_put_ne _ _ hq⟩

/-- **(C18) Unchecked `hard_link` by address onto an EXISTING destination**: exactly the
already-exists I/O error; the destination (and everything else) is as it was. -/
theorem extractUnchecked_hardLink_exists (env : Env) (fs : FS) (cache : Path) (sri : Integrity)
    (dest cpath : Path) (b : Bytes) (hc : contentPath cache sri = some cpath)
    (hfile : fs.get cpath = some (.file b)) (hdest : (fs.get dest).isSome = true) :
    (run env (extractUnchecked .hardLink cache sri dest) fs).1 = .error (.io .exists) ∧
    (run env (extractUnchecked .hardLink cache sri dest) fs).2.1 = fs := by
  have hr := readFile_of_file (contentPath_ne_nil hc) hfile
  unfold extractUnchecked
  rw [hc]
  simp only [bind_eq, pure_eq, call, bind_sys, bind_done, run_sys_res, run_sys_fs, exec, hr, hfile,
    hdest, if_true, run_done_res, run_done_fs]
  exact ⟨trivial, trivial⟩

/-- **(C18) The same BY KEY**: unchecked extraction of the entry found for `key` onto an existing
regular destination — `copy` overwrites and delivers the content bytes; `hard_link` answers the
already-exists I/O error and leaves the destination as it was. -/
theorem extract_unchecked_existing_dest (env : Env) (fs : FS) (cache : Path) (key : Bytes)
    (dest cpath : Path) (m : Meta) (b old : Bytes)
    (hf : (run env (find cfg cache key) fs).1 = .ok (some m))
    (hc : contentPath cache m.sri = some cpath) (hfile : fs.get cpath = some (.file b))
    (hdest : fs.get dest = some (.file old)) (hparent : fs.isDir (FS.parent dest) = true) :
    ((run env (extract cfg false .copy cache key dest) fs).1 = .ok b.length ∧
      (run env (extract cfg false .copy cache key dest) fs).2.1.get dest = some (.file b) ∧
      ∀ q, q ≠ dest → (run env (extract cfg false .copy cache key dest) fs).2.1.get q = fs.get q) ∧
    ((run env (extract cfg false .hardLink cache key dest) fs).1 = .error (.io .exists) ∧
      (run env (extract cfg false .hardLink cache key dest) fs).2.1 = fs) := by
  constructor
  · unfold extract
    simp only [bind_eq, pure_eq]
    rw [run_bind_res, run_bind_fs, hf, find_run_fs]
    simpa using extractUnchecked_copy_overwrites env fs cache m.sri dest cpath b old hc hfile hdest hparent
  · unfold extract
    simp only [bind_eq, pure_eq]
    rw [run_bind_res, run_bind_fs, hf, find_run_fs]
    simpa using extractUnchecked_hardLink_exists env fs cache m.sri dest cpath b hc hfile
      (by rw [hdest]; rfl)

/-! non-vacuity on the cache `/c` holding `[1,2,3]` under "k" -/
section ExG9
open FaultMore
-- content file removed behind the index's back
example : (run {} (extract cfg1 true .copy [[99]] [107] [[100]]) (fsW.del cp3)).1 = .error (.io .notFound) := by rfl
example : (run {} (extract cfg1 true .reflink [[99]] [107] [[100]]) (fsW.del cp3)).1 = .error (.io .notFound) := by rfl
example : (run {} (extract cfg1 false .hardLink [[99]] [107] [[100]]) (fsW.del cp3)).1 = .error (.io .notFound) := by rfl
example : (run {} (extract cfg1 false .reflink [[99]] [107] [[100]]) (fsW.del cp3)).1 = .error (.io .other) := by rfl
example := extract_missing_content cfg1 {} (fsW.del cp3) true .hardLink [[99]] [107] [[100]] cp3 m107
  (by rfl) (by decide) (by rfl)
-- a key that was never written
example : (run {} (extract cfg1 true .copy [[99]] [120] [[100]]) fsW).1 = .error .notFound := by rfl
example := extract_missing_key_total cfg1 {} fsW false .hardLink [[99]] [120] [[100]] (by rfl)
-- an existing regular destination `/d`
def fsD : FS := fsW.put [[100]] (.file [9, 9])
example : (run {} (extract cfg1 false .copy [[99]] [107] [[100]]) fsD).1 = .ok 3 := by rfl
example : (run {} (extract cfg1 false .copy [[99]] [107] [[100]]) fsD).2.1.get [[100]] = some (.file [1, 2, 3]) := by rfl
example : (run {} (extract cfg1 false .hardLink [[99]] [107] [[100]]) fsD).1 = .error (.io .exists) := by rfl
example : (run {} (extract cfg1 false .hardLink [[99]] [107] [[100]]) fsD).2.1.get [[100]] = some (.file [9, 9]) := by rfl
example := extract_unchecked_existing_dest cfg1 {} fsD [[99]] [107] [[100]] cp3 m107 [1, 2, 3] [9, 9]
  (by rfl) (by decide) (by rfl) (by rfl) (by rfl)
end ExG9

end G9

/-! ### non-vacuity for G1, G2 -/

section ExG12
open FaultMore FaultStrict

def rd3 : Reader := { sri := sri3, data := [1, 2, 3], pos := 0 }

example : (run {} (ropenHash [[99]] sri3) fsW).1 = .ok rd3 := by rfl
example : (run {} (ropen cfg1 [[99]] [107]) fsW).1 = .ok rd3 := by rfl
-- chunking 1, 0, 5: everything is handed out, the check succeeds
example : (C01.readMany rd3 [1, 0, 5]).2 = [1, 2, 3] := by rfl
example : (C01.readMany rd3 [1, 0, 5]).1.check cfg1 = .ok .sha256 := by rfl
example : C01.Passes cfg1 sri3 [1, 2, 3] := by
  obtain ⟨m, _, _, hf, _, _, _, _, h⟩ :=
    read_stream_sound_from_open cfg1 {} fsW [[99]] [107] rd3 [1, 0, 5] (by rfl)
  have hm : m = m107 := by
    have : (run {} (find cfg1 [[99]] [107]) fsW).1 = .ok (some m107) := by rfl
    rw [this] at hf; cases hf; rfl
  subst hm
  exact h .sha256 (by rfl)
-- stopping early: the check refuses (digest of a proper prefix)
example : (C01.readMany rd3 [2]).1.check cfg1 = .error .integrity := by rfl
-- damaged content file: the reader opens, the final check refuses
example : ((C01.readMany { rd3 with data := [1, 2, 3, 4] } [9]).1.check cfg1) = .error .integrity := by rfl
example : (run {} (ropenHash [[99]] sri3) (fsW.put cp3 (.file [1, 2, 3, 4]))).1 =
    .ok { rd3 with data := [1, 2, 3, 4] } := by rfl

-- G2: a plan whose faults lie after the lookup (the content read is call 1 … which then fails), and
-- one that never fires during the read
example : (runFault {} (failAt 5) (read cfg1 [[99]] [107]) fsW 0).1 = .ok [1, 2, 3] := by rfl
example : (runFault {} (failAt 1) (read cfg1 [[99]] [107]) fsW 0).1 = .error (.io .other) := by rfl
example : (runFault {} (failAt 0) (read cfg1 [[99]] [107]) fsW 0).1 = .error (.io .other) := by rfl
example : (runFault {} (nfAt 0) (read cfg1 [[99]] [107]) fsW 0).1 = .error .notFound := by rfl
example := read_fault_sound cfg1 {} (failAt 5) fsW 0 [[99]] [107] [1, 2, 3] (by rfl)

end ExG12

end Cacache.Gaps

namespace AxiomCheckGaps
open Cacache.Gaps
#print axioms ropenHash_run_ok
#print axioms ropen_run_ok
#print axioms read_stream_sound_from_openHash
#print axioms read_stream_sound_from_open
#print axioms read_fault_sound
#print axioms splitOn_length
#print axioms decLine_two_tabs
#print axioms fused_line_undecodable
#print axioms fused_line_skipped
#print axioms destroyed_newline_loses_both
#print axioms destroyed_newline_exact
#print axioms exec_no_new_link
#print axioms writeStream_content_oldOrNew
#print axioms oneShot_anyWriter_linearizable
#print axioms existsHash_anyWriter_linearizable
#print axioms existsHash_write_linearizable
#print axioms existsHash_writeHash_linearizable
#print axioms readHash_anyWriter_linearizable
#print axioms writeHash_writeHash_serializable
#print axioms writeHash_writeHash_same_serializable
#print axioms putHash_wrong_size_total
#print axioms tidy_of_fault_sub
#print axioms removeFully_fault_xhealthy
#print axioms removeFully_fault_error_state
#print axioms removeFully_fault_retry
#print axioms wopen_any
#print axioms abandon_leaves_no_tmp
#print axioms extractHash_missing_content
#print axioms extractUnchecked_missing_content
#print axioms extract_missing_content
#print axioms extract_missing_key_total
#print axioms extractUnchecked_copy_overwrites
#print axioms extractUnchecked_hardLink_exists
#print axioms extract_unchecked_existing_dest
end AxiomCheckGaps
