/-
Round trip `parse (render v) = some v` for the serde_json model of `Cacache.Json`.
-/
import Cacache.Json

namespace Cacache.Json

open Cacache

/-! ## Byte tables -/

theorem byte_forall {P : UInt8 → Prop} (h : ∀ n, n < 256 → P (UInt8.ofNat n)) (c : UInt8) : P c := by
  have := h c.toNat (UInt8.toNat_lt c)
  simpa using this

/-! ## Item 1: natural numbers -/

theorem digitsToNat_append_single (ds : Bytes) (d : UInt8) :
    digitsToNat (ds ++ [d]) = digitsToNat ds * 10 + (d.toNat - 48) := by
  simp [digitsToNat, List.foldl_append]

theorem natDigits_acc : ∀ fuel n acc, natDigits fuel n acc = natDigits fuel n [] ++ acc
  | 0, n, acc => by simp [natDigits]
  | fuel + 1, n, acc => by
    simp only [natDigits]
    split
    · simp
    · rw [natDigits_acc fuel (n / 10) (_ :: acc), natDigits_acc fuel (n / 10) [_]]; simp

theorem digit_tab : ∀ k, k < 10 →
    isDigit (48 + k.toUInt8) = true ∧ (48 + k.toUInt8).toNat - 48 = k ∧
      ((48 + k.toUInt8 = 48) → k = 0) := by decide

/-- What the digit string of `n` looks like. -/
structure IsDigitsOf (n : Nat) (ds : Bytes) : Prop where
  allDigit : ∀ d ∈ ds, isDigit d = true
  value : digitsToNat ds = n
  ne : ds ≠ []
  head0 : ds.head? = some 48 → n = 0
  zero : n = 0 → ds = [48]

theorem natDigits_spec : ∀ fuel n, n < fuel → IsDigitsOf n (natDigits fuel n [])
  | 0, n, h => by omega
  | fuel + 1, n, h => by
    have ht := digit_tab (n % 10) (Nat.mod_lt _ (by omega))
    simp only [natDigits]
    split
    · rename_i hlt
      have hmod : n % 10 = n := Nat.mod_eq_of_lt hlt
      refine ⟨?_, ?_, by simp, ?_, ?_⟩
      · intro d hd
        simp only [List.mem_singleton] at hd
        rw [hd]; exact ht.1
      · simp only [digitsToNat, List.foldl_cons, List.foldl_nil, Nat.zero_mul, Nat.zero_add]
        rw [ht.2.1, hmod]
      · intro h0
        simp only [List.head?_cons, Option.some.injEq] at h0
        have := ht.2.2 h0
        omega
      · intro h0; subst h0; rfl
    · rename_i hge
      have ih := natDigits_spec fuel (n / 10) (by omega)
      rw [natDigits_acc]
      refine ⟨?_, ?_, by simp, ?_, ?_⟩
      · intro d hd
        simp only [List.mem_append, List.mem_singleton] at hd
        cases hd with
        | inl h => exact ih.allDigit d h
        | inr h => rw [h]; exact ht.1
      · rw [digitsToNat_append_single, ih.value, ht.2.1]; omega
      · intro h0
        have : (natDigits fuel (n / 10) []).head? = some 48 := by
          cases hnd : natDigits fuel (n / 10) [] with
          | nil => exact absurd hnd ih.ne
          | cons a as => rw [hnd] at h0; simpa using h0
        have := ih.head0 this
        omega
      · intro h0; omega

theorem renderNat_spec (n : Nat) : IsDigitsOf n (renderNat n) :=
  natDigits_spec (n + 1) n (by omega)

/-- The continuation does not extend a number token. -/
def numEnd : Bytes → Prop
  | [] => True
  | c :: _ => isDigit c = false ∧ c ≠ 46 ∧ c ≠ 101 ∧ c ≠ 69

theorem spanDigits_append (ds tl : Bytes) (hd : ∀ d ∈ ds, isDigit d = true)
    (htl : ∀ c ∈ tl.head?, isDigit c = false) : spanDigits (ds ++ tl) = (ds, tl) := by
  induction ds with
  | nil =>
    cases tl with
    | nil => rfl
    | cons c t =>
      have := htl c (by simp)
      simp [spanDigits, this]
  | cons d ds ih =>
    have h1 := hd d (by simp)
    have := ih (fun x hx => hd x (by simp [hx]))
    simp [spanDigits, h1, this]

theorem numEnd_head {tl : Bytes} (h : numEnd tl) : ∀ c ∈ tl.head?, isDigit c = false := by
  cases tl with
  | nil => simp
  | cons c t => intro x hx; simp at hx; subst hx; exact h.1

theorem parseFrac_numEnd {tl : Bytes} (h : numEnd tl) : parseFrac tl = some ([], tl) := by
  cases tl with
  | nil => rfl
  | cons c t => simp [parseFrac, h.2.1]

theorem parseExp_numEnd {tl : Bytes} (h : numEnd tl) : parseExp tl = some (none, tl) := by
  cases tl with
  | nil => rfl
  | cons c t => simp [parseExp, h.2.2.1, h.2.2.2]

theorem isDigit_ne_minus {c : UInt8} (h : isDigit c = true) : c ≠ 45 :=
  byte_forall (P := fun c => isDigit c = true → c ≠ 45) (by decide +kernel) c h

/-- Number scanner on an unsigned digit string in canonical form. -/
theorem parseNumber_digits (n : Nat) (ds tl : Bytes) (hs : IsDigitsOf n ds) (htl : numEnd tl) :
    parseNumber (ds ++ tl) = some (mkInt false ds, tl) := by
  cases ds with
  | nil => exact absurd rfl hs.ne
  | cons c r =>
    have hc : c ≠ 45 := isDigit_ne_minus (hs.allDigit c (by simp))
    have hsp := spanDigits_append (c :: r) tl hs.allDigit (numEnd_head htl)
    have hhead : ¬ ((c :: r).head? = some 48 ∧ (c :: r).length ≠ 1) := by
      intro ⟨h1, h2⟩
      have := hs.zero (hs.head0 h1)
      rw [this] at h2; simp at h2
    simp only [List.cons_append] at hsp
    simp only [parseNumber, List.cons_append, hc, if_false, hsp]
    rw [if_neg (by intro h; cases h with | inl h => cases h | inr h => exact hhead h)]
    simp [parseFrac_numEnd htl, parseExp_numEnd htl]

theorem parseNumber_neg_digits (n : Nat) (ds tl : Bytes) (hs : IsDigitsOf n ds) (htl : numEnd tl) :
    parseNumber (45 :: (ds ++ tl)) = some (mkInt true ds, tl) := by
  have hsp := spanDigits_append ds tl hs.allDigit (numEnd_head htl)
  have hhead : ¬ (ds.head? = some 48 ∧ ds.length ≠ 1) := by
    intro ⟨h1, h2⟩
    have := hs.zero (hs.head0 h1)
    rw [this] at h2; simp at h2
  simp only [parseNumber, if_true, hsp]
  rw [if_neg (by intro h; cases h with | inl h => exact hs.ne h | inr h => exact hhead h)]
  simp [parseFrac_numEnd htl, parseExp_numEnd htl]

/-- Item 1. -/
theorem parseNat_renderNat (n : Nat) (tl : Bytes) (hn : n < 18446744073709551616)
    (htl : numEnd tl) : parseNumber (renderNat n ++ tl) = some (.int n, tl) := by
  have hs := renderNat_spec n
  rw [parseNumber_digits n _ tl hs htl]
  simp [mkInt, hs.value, hn]

theorem parseNumber_renderInt (i : Int) (tl : Bytes) (h1 : -9223372036854775808 ≤ i)
    (h2 : i < 18446744073709551616) (htl : numEnd tl) :
    parseNumber (renderInt i ++ tl) = some (.int i, tl) := by
  have hs := renderNat_spec i.natAbs
  unfold renderInt
  split
  · rename_i hneg
    rw [List.cons_append, parseNumber_neg_digits _ _ tl hs htl]
    have h0 : i.natAbs ≠ 0 := by omega
    have h3 : i.natAbs ≤ 9223372036854775808 := by omega
    have h4 : -(i.natAbs : Int) = i := by omega
    simp [mkInt, hs.value, h0, h3, h4]
  · rename_i hpos
    rw [parseNumber_digits _ _ tl hs htl]
    have h3 : i.natAbs < 18446744073709551616 := by omega
    have h4 : (i.natAbs : Int) = i := by omega
    simp [mkInt, hs.value, h3, h4]

end Cacache.Json
