/-
Round trip `parse (render v) = some v` for the serde_json model of `Cacache.Json`.
`Cacache/Json.lean` is used as is (no definition changed).  Main results, all without `sorry`:

  * `parseNat_renderNat`, `parseNumber_renderInt`  number scanner after `renderNat` / `renderInt`
  * `decOK`                                        number scanner after `renderDec` (all 4 layouts)
  * `parseStrLit_renderStr`                        string literal round trip (any bytes)
  * `renderStr_no_raw_control`, `utf8Valid_renderStr`
  * `parseValue_render_tl`                         generalised round trip with a continuation
  * `parse_render`                                 `v.wf → v.depth ≤ 127 → parse (render v) = some v`
  * `render_injective_on_wf`
  * `render_ge32`, `render_no_nl_tab`              no byte below 0x20 in rendered JSON
  * `render_utf8Valid`                             rendered JSON of a wf value is valid UTF-8
-/
import Cacache.Json

namespace Cacache.Json

open Cacache

/-! ## Byte tables -/

theorem byte_forall {P : UInt8 → Prop} (h : ∀ n, n < 256 → P (UInt8.ofNat n)) (c : UInt8) : P c := by
  have := h c.toNat (UInt8.toNat_lt c)
  simpa using this

/-! ## Item 1: natural numbers -/

theorem digitsToNat_append_single (ds : Bytes) (d : UInt8) :
    digitsToNat (ds ++ [d]) = digitsToNat ds * 10 + (d.toNat - 48) := by
  simp [digitsToNat, List.foldl_append]

theorem natDigits_acc : ∀ fuel n acc, natDigits fuel n acc = natDigits fuel n [] ++ acc
  | 0, n, acc => by simp [natDigits]
  | fuel + 1, n, acc => by
    simp only [natDigits]
    split
    · simp
    · rw [natDigits_acc fuel (n / 10) (_ :: acc), natDigits_acc fuel (n / 10) [_]]; simp

theorem digit_tab : ∀ k, k < 10 →
    isDigit (48 + k.toUInt8) = true ∧ (48 + k.toUInt8).toNat - 48 = k ∧
      ((48 + k.toUInt8 = 48) → k = 0) := by decide

/-- What the digit string of `n` looks like. -/
structure IsDigitsOf (n : Nat) (ds : Bytes) : Prop where
  allDigit : ∀ d ∈ ds, isDigit d = true
  value : digitsToNat ds = n
  ne : ds ≠ []
  head0 : ds.head? = some 48 → n = 0
  zero : n = 0 → ds = [48]

theorem natDigits_spec : ∀ fuel n, n < fuel → IsDigitsOf n (natDigits fuel n [])
  | 0, n, h => by omega
  | fuel + 1, n, h => by
    have ht := digit_tab (n % 10) (Nat.mod_lt _ (by omega))
    simp only [natDigits]
    split
    · rename_i hlt
      have hmod : n % 10 = n := Nat.mod_eq_of_lt hlt
      refine ⟨?_, ?_, by simp, ?_, ?_⟩
      · intro d hd
        simp only [List.mem_singleton] at hd
        rw [hd]; exact ht.1
      · simp only [digitsToNat, List.foldl_cons, List.foldl_nil, Nat.zero_mul, Nat.zero_add]
        rw [ht.2.1, hmod]
      · intro h0
        simp only [List.head?_cons, Option.some.injEq] at h0
        have := ht.2.2 h0
        omega
      · intro h0; subst h0; rfl
    · rename_i hge
      have ih := natDigits_spec fuel (n / 10) (by omega)
      rw [natDigits_acc]
      refine ⟨?_, ?_, by simp, ?_, ?_⟩
      · intro d hd
        simp only [List.mem_append, List.mem_singleton] at hd
        cases hd with
        | inl h => exact ih.allDigit d h
        | inr h => rw [h]; exact ht.1
      · rw [digitsToNat_append_single, ih.value, ht.2.1]; omega
      · intro h0
        have : (natDigits fuel (n / 10) []).head? = some 48 := by
          cases hnd : natDigits fuel (n / 10) [] with
          | nil => exact absurd hnd ih.ne
          | cons a as => rw [hnd] at h0; simpa using h0
        have := ih.head0 this
        omega
      · intro h0; omega

theorem renderNat_spec (n : Nat) : IsDigitsOf n (renderNat n) :=
  natDigits_spec (n + 1) n (by omega)

/-- The continuation does not extend a number token. -/
def numEnd : Bytes → Prop
  | [] => True
  | c :: _ => isDigit c = false ∧ c ≠ 46 ∧ c ≠ 101 ∧ c ≠ 69

theorem spanDigits_append (ds tl : Bytes) (hd : ∀ d ∈ ds, isDigit d = true)
    (htl : ∀ c ∈ tl.head?, isDigit c = false) : spanDigits (ds ++ tl) = (ds, tl) := by
  induction ds with
  | nil =>
    cases tl with
    | nil => rfl
    | cons c t =>
      have := htl c (by simp)
      simp [spanDigits, this]
  | cons d ds ih =>
    have h1 := hd d (by simp)
    have := ih (fun x hx => hd x (by simp [hx]))
    simp [spanDigits, h1, this]

theorem numEnd_head {tl : Bytes} (h : numEnd tl) : ∀ c ∈ tl.head?, isDigit c = false := by
  cases tl with
  | nil => simp
  | cons c t => intro x hx; simp at hx; subst hx; exact h.1

theorem parseFrac_numEnd {tl : Bytes} (h : numEnd tl) : parseFrac tl = some ([], tl) := by
  cases tl with
  | nil => rfl
  | cons c t => simp [parseFrac, h.2.1]

theorem parseExp_numEnd {tl : Bytes} (h : numEnd tl) : parseExp tl = some (none, tl) := by
  cases tl with
  | nil => rfl
  | cons c t => simp [parseExp, h.2.2.1, h.2.2.2]

theorem isDigit_ne_minus {c : UInt8} (h : isDigit c = true) : c ≠ 45 :=
  byte_forall (P := fun c => isDigit c = true → c ≠ 45) (by decide +kernel) c h

/-- Number scanner on an unsigned digit string in canonical form. -/
theorem parseNumber_digits (n : Nat) (ds tl : Bytes) (hs : IsDigitsOf n ds) (htl : numEnd tl) :
    parseNumber (ds ++ tl) = some (mkInt false ds, tl) := by
  cases ds with
  | nil => exact absurd rfl hs.ne
  | cons c r =>
    have hc : c ≠ 45 := isDigit_ne_minus (hs.allDigit c (by simp))
    have hsp := spanDigits_append (c :: r) tl hs.allDigit (numEnd_head htl)
    have hhead : ¬ ((c :: r).head? = some 48 ∧ (c :: r).length ≠ 1) := by
      intro ⟨h1, h2⟩
      have := hs.zero (hs.head0 h1)
      rw [this] at h2; simp at h2
    simp only [List.cons_append] at hsp
    simp only [parseNumber, List.cons_append, hc, if_false, hsp]
    rw [if_neg (by intro h; cases h with | inl h => cases h | inr h => exact hhead h)]
    simp [parseFrac_numEnd htl, parseExp_numEnd htl]

theorem parseNumber_neg_digits (n : Nat) (ds tl : Bytes) (hs : IsDigitsOf n ds) (htl : numEnd tl) :
    parseNumber (45 :: (ds ++ tl)) = some (mkInt true ds, tl) := by
  have hsp := spanDigits_append ds tl hs.allDigit (numEnd_head htl)
  have hhead : ¬ (ds.head? = some 48 ∧ ds.length ≠ 1) := by
    intro ⟨h1, h2⟩
    have := hs.zero (hs.head0 h1)
    rw [this] at h2; simp at h2
  simp only [parseNumber, if_true, hsp]
  rw [if_neg (by intro h; cases h with | inl h => exact hs.ne h | inr h => exact hhead h)]
  simp [parseFrac_numEnd htl, parseExp_numEnd htl]

/-- Item 1. -/
theorem parseNat_renderNat (n : Nat) (tl : Bytes) (hn : n < 18446744073709551616)
    (htl : numEnd tl) : parseNumber (renderNat n ++ tl) = some (.int n, tl) := by
  have hs := renderNat_spec n
  rw [parseNumber_digits n _ tl hs htl]
  simp [mkInt, hs.value, hn]

theorem parseNumber_renderInt (i : Int) (tl : Bytes) (h1 : -9223372036854775808 ≤ i)
    (h2 : i < 18446744073709551616) (htl : numEnd tl) :
    parseNumber (renderInt i ++ tl) = some (.int i, tl) := by
  have hs := renderNat_spec i.natAbs
  unfold renderInt
  split
  · rename_i hneg
    rw [List.cons_append, parseNumber_neg_digits _ _ tl hs htl]
    have h0 : i.natAbs ≠ 0 := by omega
    have h3 : i.natAbs ≤ 9223372036854775808 := by omega
    have h4 : -(i.natAbs : Int) = i := by omega
    simp [mkInt, hs.value, h0, h3, h4]
  · rename_i hpos
    rw [parseNumber_digits _ _ tl hs htl]
    have h3 : i.natAbs < 18446744073709551616 := by omega
    have h4 : (i.natAbs : Int) = i := by omega
    simp [mkInt, hs.value, h3, h4]

/-! ## Item 2: strings -/

theorem hexNibble_tab : ∀ n, n < 32 →
    hexVal (Bytes.hexDigit (UInt8.ofNat n >>> 4)) = some (n / 16) ∧
    hexVal (Bytes.hexDigit (UInt8.ofNat n &&& 15)) = some (n % 16) ∧
    (32 : UInt8) ≤ Bytes.hexDigit (UInt8.ofNat n >>> 4) ∧
    (32 : UInt8) ≤ Bytes.hexDigit (UInt8.ofNat n &&& 15) ∧
    Bytes.hexDigit (UInt8.ofNat n >>> 4) < (128 : UInt8) ∧
    Bytes.hexDigit (UInt8.ofNat n &&& 15) < (128 : UInt8) := by
  decide

theorem lt32_toNat {c : UInt8} (h : c < 32) : c.toNat < 32 := by
  simpa [UInt8.lt_iff_toNat_lt] using h

theorem hex4_of {a b c d : UInt8} {x y z w : Nat} (rest : Bytes) (ha : hexVal a = some x)
    (hb : hexVal b = some y) (hc : hexVal c = some z) (hd : hexVal d = some w) :
    hex4 (a :: b :: c :: d :: rest) = some (((x * 16 + y) * 16 + z) * 16 + w, rest) := by
  simp only [hex4, ha, hb, hc, hd]

theorem parseUnicodeEscape_small {input rest : Bytes} {n : Nat} (h : hex4 input = some (n, rest))
    (hn : n < 0x80) : parseUnicodeEscape input = some ([n.toUInt8], rest) := by
  have e1 : ¬ (0xDC00 ≤ n ∧ n ≤ 0xDFFF) := by omega
  have e2 : ¬ (0xD800 ≤ n ∧ n ≤ 0xDBFF) := by omega
  simp only [parseUnicodeEscape, h, e1, e2, if_false, encodeUtf8, hn, if_true]

theorem parseStrAux_u00 (c : UInt8) (hlt : c < 32) (fuel : Nat) (acc rest : Bytes) :
    parseStrAux (fuel + 1) acc
      (92 :: 117 :: 48 :: 48 :: Bytes.hexDigit (c >>> 4) :: Bytes.hexDigit (c &&& 15) :: rest)
      = parseStrAux fuel (c :: acc) rest := by
  have hn := lt32_toNat hlt
  have ht := hexNibble_tab c.toNat hn
  have hc : UInt8.ofNat c.toNat = c := by simp
  rw [hc] at ht
  have hv48 : hexVal 48 = some 0 := by decide
  have h4 := hex4_of rest hv48 hv48 ht.1 ht.2.1
  have hval : ((0 * 16 + 0) * 16 + c.toNat / 16) * 16 + c.toNat % 16 = c.toNat := by omega
  rw [hval] at h4
  have hu := parseUnicodeEscape_small h4 (by omega)
  have e4 : c.toNat.toUInt8 = c := by simp
  rw [e4] at hu
  have hpe : parseEscape (117 :: 48 :: 48 :: Bytes.hexDigit (c >>> 4) ::
      Bytes.hexDigit (c &&& 15) :: rest) = some ([c], rest) := by
    simp only [parseEscape]
    simpa using hu
  simp only [parseStrAux, hpe]
  simp

/-- One escaped byte is read back as itself, for one unit of fuel. -/
theorem parseStrAux_escapeByte (c : UInt8) (fuel : Nat) (acc rest : Bytes) :
    parseStrAux (fuel + 1) acc (escapeByte c ++ rest) = parseStrAux fuel (c :: acc) rest := by
  unfold escapeByte
  split
  · rename_i h; subst h; simp [parseStrAux, parseEscape]
  split
  · rename_i h; subst h; simp [parseStrAux, parseEscape]
  split
  · rename_i h; subst h; simp [parseStrAux, parseEscape]
  split
  · rename_i h; subst h; simp [parseStrAux, parseEscape]
  split
  · rename_i h; subst h; simp [parseStrAux, parseEscape]
  split
  · rename_i h; subst h; simp [parseStrAux, parseEscape]
  split
  · rename_i h; subst h; simp [parseStrAux, parseEscape]
  split
  · rename_i hlt
    simp only [List.cons_append, List.nil_append]
    rw [parseStrAux_u00 c hlt]
  · rename_i h1 h2 h3 h4 h5 h6 h7 h8
    simp [parseStrAux, h1, h2, h8]

theorem parseStrAux_renderStrBody (s : Bytes) : ∀ (fuel : Nat) (acc tl : Bytes),
    s.length < fuel →
    parseStrAux fuel acc (renderStrBody s ++ 34 :: tl) = some (acc.reverse ++ s, tl) := by
  induction s with
  | nil =>
    intro fuel acc tl hf
    cases fuel with
    | zero => simp at hf
    | succ f => simp [renderStrBody, parseStrAux]
  | cons c s ih =>
    intro fuel acc tl hf
    cases fuel with
    | zero => simp at hf
    | succ f =>
      simp only [renderStrBody, List.append_assoc]
      rw [parseStrAux_escapeByte, ih f (c :: acc) tl (by simpa using hf)]
      simp

theorem escapeByte_length_pos (c : UInt8) : 1 ≤ (escapeByte c).length := by
  unfold escapeByte
  repeat' split
  all_goals simp

theorem renderStrBody_length (s : Bytes) : s.length ≤ (renderStrBody s).length := by
  induction s with
  | nil => simp [renderStrBody]
  | cons c s ih =>
    have := escapeByte_length_pos c
    simp only [renderStrBody, List.length_cons, List.length_append]
    omega

/-- Item 2: a rendered string literal is read back (any byte string, valid UTF-8 or not). -/
theorem parseStrLit_renderStr (s tl : Bytes) (fuel : Nat) (hf : s.length < fuel) :
    parseStrLit fuel ((renderStr s).tail ++ tl) = some (s, tl) := by
  unfold parseStrLit renderStr
  simp only [List.tail_cons, List.append_assoc, List.singleton_append]
  rw [parseStrAux_renderStrBody s fuel [] tl hf]
  simp

/-- The form used by `parseValue`: fuel `rest.length + 1`. -/
theorem parseStrLit_renderStr' (s tl : Bytes) :
    parseStrLit ((renderStrBody s ++ 34 :: tl).length + 1) (renderStrBody s ++ 34 :: tl)
      = some (s, tl) := by
  unfold parseStrLit
  rw [parseStrAux_renderStrBody s _ [] tl]
  · simp
  · have := renderStrBody_length s
    simp only [List.length_append, List.length_cons]
    omega

theorem escapeByte_ge32 (c : UInt8) : ∀ b ∈ escapeByte c, 32 ≤ b := by
  unfold escapeByte
  split
  · decide
  split
  · decide
  split
  · decide
  split
  · decide
  split
  · decide
  split
  · decide
  split
  · decide
  split
  · rename_i hlt
    have ht := hexNibble_tab c.toNat (lt32_toNat hlt)
    have hc : UInt8.ofNat c.toNat = c := by simp
    rw [hc] at ht
    intro b hb
    simp only [List.mem_cons, List.not_mem_nil, or_false] at hb
    rcases hb with h | h | h | h | h | h <;> subst h
    · decide
    · decide
    · decide
    · decide
    · exact ht.2.2.1
    · exact ht.2.2.2.1
  · rename_i h
    intro b hb
    simp only [List.mem_singleton] at hb
    subst hb
    exact UInt8.not_lt.mp h

theorem renderStrBody_ge32 (s : Bytes) : ∀ b ∈ renderStrBody s, 32 ≤ b := by
  induction s with
  | nil => simp [renderStrBody]
  | cons c s ih =>
    intro b hb
    simp only [renderStrBody, List.mem_append] at hb
    cases hb with
    | inl h => exact escapeByte_ge32 c b h
    | inr h => exact ih b h

theorem renderStr_no_raw_control (s : Bytes) : ∀ c ∈ renderStr s, 32 ≤ c := by
  intro c hc
  simp only [renderStr, List.mem_cons, List.mem_append, List.not_mem_nil, or_false] at hc
  rcases hc with h | h | h
  · subst h; decide
  · exact renderStrBody_ge32 s c h
  · subst h; decide


/-! ### Rendered strings are valid UTF-8 -/

theorem escapeByte_high {c : UInt8} (h : ¬ c < 128) : escapeByte c = [c] :=
  byte_forall (P := fun c => ¬ c < 128 → escapeByte c = [c]) (by decide +kernel) c h

theorem escapeByte_ascii {c : UInt8} (h : c < 128) : ∀ b ∈ escapeByte c, b < 128 :=
  byte_forall (P := fun c => c < 128 → ∀ b ∈ escapeByte c, b < 128) (by decide +kernel) c h

theorem utf8Valid_cons1 {c : UInt8} (rest : Bytes) (hc : c < 128) :
    utf8Valid (c :: rest) = utf8Valid rest := by
  rw [utf8Valid.eq_def]; simp only [hc, if_true]

theorem utf8Valid_cons2 {c : UInt8} (b1 : UInt8) (r : Bytes) (hc : ¬ c < 128)
    (h2 : 194 ≤ c ∧ c ≤ 223) :
    utf8Valid (c :: b1 :: r) = (isCont b1 && utf8Valid r) := by
  rw [utf8Valid.eq_def]; simp only [hc, h2, if_true, if_false, and_self]

theorem utf8Valid_cons3 {c : UInt8} (b1 b2 : UInt8) (r : Bytes) (hc : ¬ c < 128)
    (h2 : ¬ (194 ≤ c ∧ c ≤ 223)) (h3 : 224 ≤ c ∧ c ≤ 239) :
    utf8Valid (c :: b1 :: b2 :: r) =
      ((if c = 224 then decide (160 ≤ b1) && decide (b1 ≤ 191)
        else if c = 237 then decide (128 ≤ b1) && decide (b1 ≤ 159) else isCont b1) &&
        isCont b2 && utf8Valid r) := by
  rw [utf8Valid.eq_def]; simp only [hc, h2, h3, if_true, if_false, and_self]

theorem utf8Valid_cons4 {c : UInt8} (b1 b2 b3 : UInt8) (r : Bytes) (hc : ¬ c < 128)
    (h2 : ¬ (194 ≤ c ∧ c ≤ 223)) (h3 : ¬ (224 ≤ c ∧ c ≤ 239)) (h4 : 240 ≤ c ∧ c ≤ 244) :
    utf8Valid (c :: b1 :: b2 :: b3 :: r) =
      ((if c = 240 then decide (144 ≤ b1) && decide (b1 ≤ 191)
        else if c = 244 then decide (128 ≤ b1) && decide (b1 ≤ 143) else isCont b1) &&
        isCont b2 && isCont b3 && utf8Valid r) := by
  rw [utf8Valid.eq_def]; simp only [hc, h2, h3, h4, if_true, if_false, and_self]

theorem utf8Valid_ascii_append (p tl : Bytes) (h : ∀ b ∈ p, b < 128) :
    utf8Valid (p ++ tl) = utf8Valid tl := by
  induction p with
  | nil => rfl
  | cons a p ih =>
    have ha : a < 128 := h a (by simp)
    rw [List.cons_append, utf8Valid_cons1 _ ha]
    exact ih (fun b hb => h b (by simp [hb]))

theorem isCont_high {b : UInt8} (h : isCont b = true) : ¬ b < 128 := by
  simp only [isCont, Bool.and_eq_true, decide_eq_true_eq, UInt8.le_iff_toNat_le,
    UInt8.lt_iff_toNat_lt] at h ⊢
  have : (128 : UInt8).toNat = 128 := rfl
  omega

theorem range_high {b lo hi : UInt8} (hlo : 128 ≤ lo) (h : (decide (lo ≤ b) && decide (b ≤ hi)) = true) :
    ¬ b < 128 := by
  simp only [Bool.and_eq_true, decide_eq_true_eq, UInt8.le_iff_toNat_le,
    UInt8.lt_iff_toNat_lt] at h hlo ⊢
  have : (128 : UInt8).toNat = 128 := rfl
  omega

theorem utf8Valid_renderStrBody (tl : Bytes) (htl : utf8Valid tl = true) (s : Bytes) :
    utf8Valid s = true → utf8Valid (renderStrBody s ++ tl) = true := by
  induction s using utf8Valid.induct with
  | case1 => intro _; exact htl
  | case2 c rest hc ih =>
    intro h
    rw [utf8Valid_cons1 _ hc] at h
    simp only [renderStrBody, List.append_assoc]
    rw [utf8Valid_ascii_append _ _ (escapeByte_ascii hc)]
    exact ih h
  | case3 c hc h2 b1 r ih =>
    intro h
    rw [utf8Valid_cons2 _ _ hc h2] at h
    simp only [Bool.and_eq_true] at h
    have hb1 := isCont_high h.1
    simp only [renderStrBody, escapeByte_high hc, escapeByte_high hb1, List.cons_append,
      List.nil_append]
    rw [utf8Valid_cons2 _ _ hc h2]
    simp only [Bool.and_eq_true]
    exact ⟨h.1, ih h.2⟩
  | case4 c rest hc h2 hrest =>
    intro h
    exfalso
    cases rest with
    | nil => rw [utf8Valid.eq_def] at h; simp [hc, h2] at h
    | cons b1 r => exact hrest b1 r rfl
  | case5 c hc h2 h3 b1 b2 r ih =>
    intro h
    rw [utf8Valid_cons3 _ _ _ hc h2 h3] at h
    simp only [Bool.and_eq_true] at h
    have hb1 : ¬ b1 < 128 := by
      have := h.1.1
      split at this
      · exact range_high (by decide) this
      · split at this
        · exact range_high (by decide) this
        · exact isCont_high this
    have hb2 := isCont_high h.1.2
    simp only [renderStrBody, escapeByte_high hc, escapeByte_high hb1, escapeByte_high hb2,
      List.cons_append, List.nil_append]
    rw [utf8Valid_cons3 _ _ _ hc h2 h3]
    simp only [Bool.and_eq_true]
    exact ⟨h.1, ih h.2⟩
  | case6 c rest hc h2 h3 hrest =>
    intro h
    exfalso
    match rest, hrest with
    | [], _ => rw [utf8Valid.eq_def] at h; simp [hc, h2, h3] at h
    | [_], _ => rw [utf8Valid.eq_def] at h; simp [hc, h2, h3] at h
    | b1 :: b2 :: r, hrest => exact hrest b1 b2 r rfl
  | case7 c hc h2 h3 h4 b1 b2 b3 r ih =>
    intro h
    rw [utf8Valid_cons4 _ _ _ _ hc h2 h3 h4] at h
    simp only [Bool.and_eq_true] at h
    have hb1 : ¬ b1 < 128 := by
      have := h.1.1.1
      split at this
      · exact range_high (by decide) this
      · split at this
        · exact range_high (by decide) this
        · exact isCont_high this
    have hb2 := isCont_high h.1.1.2
    have hb3 := isCont_high h.1.2
    simp only [renderStrBody, escapeByte_high hc, escapeByte_high hb1, escapeByte_high hb2,
      escapeByte_high hb3, List.cons_append, List.nil_append]
    rw [utf8Valid_cons4 _ _ _ _ hc h2 h3 h4]
    simp only [Bool.and_eq_true]
    exact ⟨h.1, ih h.2⟩
  | case8 c rest hc h2 h3 h4 hrest =>
    intro h
    exfalso
    match rest, hrest with
    | [], _ => rw [utf8Valid.eq_def] at h; simp [hc, h2, h3, h4] at h
    | [_], _ => rw [utf8Valid.eq_def] at h; simp [hc, h2, h3, h4] at h
    | [_, _], _ => rw [utf8Valid.eq_def] at h; simp [hc, h2, h3, h4] at h
    | b1 :: b2 :: b3 :: r, hrest => exact hrest b1 b2 b3 r rfl
  | case9 c rest hc h2 h3 h4 =>
    intro h
    rw [utf8Valid.eq_def] at h; simp [hc, h2, h3, h4] at h

theorem utf8Valid_renderStr (s : Bytes) (hs : utf8Valid s = true) :
    utf8Valid (renderStr s) = true := by
  unfold renderStr
  have h34 : utf8Valid [34] = true := by decide
  have := utf8Valid_renderStrBody [34] h34 s hs
  rw [utf8Valid_cons1 _ (by decide)]
  exact this


/-! ## Non-integer numbers -/

/-- The number scanner reads back rendered non-integer numbers (`decOK` below). -/
def DecOK : Prop := ∀ (m e : Int) (tl : Bytes), (JVal.dec m e).wf = true → numEnd tl →
  parseNumber (renderDec m e ++ tl) = some (.dec m e, tl)


theorem IsDigitsOf.last_ne {n : Nat} {ds : Bytes} (hs : IsDigitsOf n ds) (hn : n % 10 ≠ 0) :
    ∃ l r, ds.reverse = l :: r ∧ l ≠ 48 := by
  cases h : ds.reverse with
  | nil => exact absurd (List.reverse_eq_nil_iff.mp h) hs.ne
  | cons l r =>
    refine ⟨l, r, rfl, ?_⟩
    have hds : ds = r.reverse ++ [l] := by
      have := congrArg List.reverse h
      simpa using this
    intro hl
    have hv := hs.value
    rw [hds, digitsToNat_append_single, hl] at hv
    have : (48 : UInt8).toNat = 48 := rfl
    omega

theorem takeWhile_zeros (k : Nat) (l : UInt8) (rest : Bytes) (hl : l ≠ 48) :
    (List.replicate k (48 : UInt8) ++ l :: rest).takeWhile (· = 48) = List.replicate k 48 := by
  induction k with
  | zero => simp [hl]
  | succ k ih => simp [List.replicate_succ, ih]

theorem drop_replicate_append (k : Nat) (a : UInt8) (rest : Bytes) :
    (List.replicate k a ++ rest).drop k = rest := by
  induction k with
  | zero => simp
  | succ k ih => simp [List.replicate_succ, ih]

theorem digitsToNat_zeros_append (j : Nat) (ds : Bytes) :
    digitsToNat (List.replicate j 48 ++ ds) = digitsToNat ds := by
  induction j with
  | zero => simp
  | succ j ih =>
    simp only [digitsToNat] at ih ⊢
    simp only [List.replicate_succ, List.cons_append, List.foldl_cons]
    exact ih

theorem mkDec_core (neg : Bool) (n : Nat) (ds : Bytes) (j k : Nat) (x : Int)
    (hs : IsDigitsOf n ds) (hn : n % 10 ≠ 0) :
    mkDec neg (List.replicate j 48 ++ ds ++ List.replicate k 48) x
      = .dec (if neg then -(n : Int) else (n : Int)) (x + (k : Int)) := by
  obtain ⟨l, r, hrev, hl⟩ := hs.last_ne hn
  have hds : ds = r.reverse ++ [l] := by
    have := congrArg List.reverse hrev
    simpa using this
  have hr : (List.replicate j 48 ++ ds ++ List.replicate k 48).reverse
      = List.replicate k 48 ++ l :: (r ++ List.replicate j 48) := by
    simp [List.reverse_append, hrev]
  have hn0 : n ≠ 0 := by omega
  unfold mkDec
  simp only [hr, takeWhile_zeros k l _ hl, List.length_replicate, drop_replicate_append]
  have hback : (l :: (r ++ List.replicate j 48)).reverse = List.replicate j 48 ++ ds := by
    simp [List.reverse_append, hds]
  rw [hback, digitsToNat_zeros_append, hs.value]
  simp only [hn0, if_false]

theorem zeros_digits (k : Nat) : ∀ d ∈ List.replicate k (48 : UInt8), isDigit d = true := by
  intro d hd
  rw [List.eq_of_mem_replicate hd]
  decide

theorem parseFrac_dot (fs tl : Bytes) (hfs : ∀ d ∈ fs, isDigit d = true) (hne : fs ≠ [])
    (htl : ∀ c ∈ tl.head?, isDigit c = false) : parseFrac (46 :: (fs ++ tl)) = some (fs, tl) := by
  simp [parseFrac, spanDigits_append fs tl hfs htl, hne]

theorem renderExp_cons (x : Int) : ∃ r, renderExp x = 101 :: r := by
  unfold renderExp; split <;> exact ⟨_, rfl⟩

theorem parseExp_renderExp (x : Int) (tl : Bytes) (htl : ∀ c ∈ tl.head?, isDigit c = false) :
    parseExp (renderExp x ++ tl) = some (some x, tl) := by
  have hs := renderNat_spec x.natAbs
  have hsp := spanDigits_append _ tl hs.allDigit htl
  unfold renderExp
  split
  · have hx : -(x.natAbs : Int) = x := by omega
    simp [parseExp, hsp, hs.ne, hs.value, hx]
  · have hx : (x.natAbs : Int) = x := by omega
    simp [parseExp, hsp, hs.ne, hs.value, hx]

theorem parseFrac_e (r : Bytes) : parseFrac (101 :: r) = some ([], 101 :: r) := by
  simp [parseFrac]

/-- The number scanner on `sign ip R`, where `ip` is a canonical integer part. -/
theorem parseNumber_general (neg : Bool) (ip R fs s2 s3 : Bytes) (ex : Option Int)
    (hip : ∀ d ∈ ip, isDigit d = true) (hne : ip ≠ [])
    (hz : ¬ (ip.head? = some 48 ∧ ip.length ≠ 1))
    (hR : ∀ c ∈ R.head?, isDigit c = false)
    (hfrac : parseFrac R = some (fs, s2)) (hexp : parseExp s2 = some (ex, s3))
    (hnot : ¬ (fs = [] ∧ ex = none)) :
    parseNumber ((if neg then [45] else []) ++ (ip ++ R))
      = some (mkDec neg (ip ++ fs) (ex.getD 0 - (fs.length : Int)), s3) := by
  have hsp := spanDigits_append ip R hip hR
  cases neg with
  | true =>
    simp only [if_true, List.cons_append, List.nil_append, parseNumber, hsp]
    rw [if_neg (by intro h; cases h with | inl h => exact hne h | inr h => exact hz h)]
    simp only [hfrac, hexp, hnot, if_false, decide_true]
  | false =>
    cases ip with
    | nil => exact absurd rfl hne
    | cons c r =>
      have hc : c ≠ 45 := isDigit_ne_minus (hip c (by simp))
      simp only [List.cons_append] at hsp
      simp only [Bool.false_eq_true, if_false, List.nil_append, List.cons_append, parseNumber, hc,
        hsp]
      rw [if_neg (by intro h; cases h with | inl h => cases h | inr h => exact hz h)]
      simp only [hfrac, hexp, hnot, if_false, decide_false]

theorem head?_append_of_ne {ds : Bytes} (tl : Bytes) (h : ds ≠ []) :
    (ds ++ tl).head? = ds.head? := by
  cases ds with
  | nil => exact absurd rfl h
  | cons a as => rfl

theorem decOK : DecOK := by
  intro m e tl hwf htl
  have htl' := numEnd_head htl
  have hexpN := parseExp_numEnd htl
  simp only [JVal.wf] at hwf
  unfold renderDec
  split
  · -- zero
    rename_i hm0
    subst hm0
    simp only [if_true, Bool.or_eq_true, decide_eq_true_eq] at hwf
    have hfr : parseFrac (46 :: ([48] ++ tl)) = some ([48], tl) :=
      parseFrac_dot [48] tl (by decide) (by simp) htl'
    split
    · have he : e = -1 := by omega
      subst he
      have := parseNumber_general true [48] (46 :: ([48] ++ tl)) [48] tl tl none (by decide)
        (by simp) (by simp) (by simp; decide) hfr hexpN (by simp)
      simp only [if_true, List.cons_append, List.nil_append] at this ⊢
      rw [this]
      simp [mkDec, digitsToNat]
    · have he : e = 0 := by omega
      subst he
      have := parseNumber_general false [48] (46 :: ([48] ++ tl)) [48] tl tl none (by decide)
        (by simp) (by simp) (by simp; decide) hfr hexpN (by simp)
      simp only [Bool.false_eq_true, if_false, List.cons_append, List.nil_append] at this ⊢
      rw [this]
      simp [mkDec, digitsToNat]
  · rename_i hm0
    simp only [hm0, if_false, ne_eq, decide_not, Bool.not_eq_true',
      decide_eq_false_iff_not] at hwf
    have hs := renderNat_spec m.natAbs
    have hn10 : m.natAbs % 10 ≠ 0 := by omega
    have hn0 : m.natAbs ≠ 0 := by omega
    have hh48 : (renderNat m.natAbs).head? ≠ some 48 := fun h => hn0 (hs.head0 h)
    have hsign : (if m < 0 then [45] else ([] : Bytes)) = if decide (m < 0) = true then [45] else [] := by
      simp
    have hres : (if decide (m < 0) = true then -(m.natAbs : Int) else (m.natAbs : Int)) = m := by
      by_cases h : m < 0
      · simp only [h, decide_true, if_true]; omega
      · simp only [h, decide_false, Bool.false_eq_true, if_false]; omega
    simp only []
    rw [hsign]
    generalize hds : renderNat m.natAbs = ds at hs hh48
    by_cases hc : 0 ≤ e ∧ (ds.length : Int) + e ≤ 16
    · -- layout 1: integer digits, zeros, ".0"
      rw [if_pos hc]
      have hfr : parseFrac (46 :: ([48] ++ tl)) = some ([48], tl) :=
        parseFrac_dot [48] tl (by decide) (by simp) htl'
      have hipd : ∀ d ∈ ds ++ List.replicate e.toNat 48, isDigit d = true := by
        intro d hd
        rcases List.mem_append.mp hd with h | h
        · exact hs.allDigit d h
        · exact zeros_digits _ d h
      have := parseNumber_general (decide (m < 0)) (ds ++ List.replicate e.toNat 48)
        (46 :: ([48] ++ tl)) [48] tl tl none hipd (by simp [hs.ne])
        (by rw [head?_append_of_ne _ hs.ne]; exact fun h => hh48 h.1) (by simp; decide) hfr hexpN
        (by simp)
      simp only [List.append_assoc, List.cons_append, List.nil_append] at this ⊢
      rw [this]
      have hcore := mkDec_core (decide (m < 0)) m.natAbs ds 0 (e.toNat + 1)
        (Option.getD none 0 - ([48] : Bytes).length) hs hn10
      simp only [List.replicate_zero, List.nil_append] at hcore
      rw [List.replicate_succ'] at hcore
      rw [hcore, hres]
      have : (Option.getD (none : Option Int) 0 - (([48] : Bytes).length : Int))
          + ((e.toNat + 1 : Nat) : Int) = e := by
        simp only [Option.getD_none, List.length_cons, List.length_nil]
        omega
      rw [this]
    · rw [if_neg hc]
      by_cases hc2 : 0 < (ds.length : Int) + e ∧ (ds.length : Int) + e ≤ 16
      · -- layout 2: point inside the digits
        rw [if_pos hc2]
        have hk : ((ds.length : Int) + e).toNat < ds.length := by omega
        have hk0 : 0 < ((ds.length : Int) + e).toNat := by omega
        generalize hkk : ((ds.length : Int) + e).toNat = k at hk hk0
        have htake_ne : ds.take k ≠ [] := by
          intro h
          have := congrArg List.length h
          simp only [List.length_take, List.length_nil] at this
          omega
        have hdrop_ne : ds.drop k ≠ [] := by
          intro h
          have := congrArg List.length h
          simp only [List.length_drop, List.length_nil] at this
          omega
        have hfr : parseFrac (46 :: (ds.drop k ++ tl)) = some (ds.drop k, tl) :=
          parseFrac_dot _ tl (fun d hd => hs.allDigit d (List.mem_of_mem_drop hd)) hdrop_ne htl'
        have hhead : (ds.take k).head? = ds.head? := by
          cases ds with
          | nil => exact absurd rfl hs.ne
          | cons a as =>
            cases k with
            | zero => omega
            | succ k => rfl
        have := parseNumber_general (decide (m < 0)) (ds.take k) (46 :: (ds.drop k ++ tl))
          (ds.drop k) tl tl none (fun d hd => hs.allDigit d (List.mem_of_mem_take hd)) htake_ne
          (by rw [hhead]; exact fun h => hh48 h.1) (by simp; decide) hfr hexpN
          (by simp [hdrop_ne])
        simp only [List.append_assoc, List.cons_append] at this ⊢
        rw [this, List.take_append_drop]
        have hcore := mkDec_core (decide (m < 0)) m.natAbs ds 0 0
          (Option.getD none 0 - ((ds.drop k).length : Int)) hs hn10
        simp only [List.replicate_zero, List.nil_append, List.append_nil] at hcore
        rw [hcore, hres]
        have : (Option.getD (none : Option Int) 0 - ((ds.drop k).length : Int)) + ((0 : Nat) : Int)
            = e := by
          simp only [Option.getD_none, List.length_drop]
          omega
        rw [this]
      · rw [if_neg hc2]
        by_cases hc3 : -5 < (ds.length : Int) + e ∧ (ds.length : Int) + e ≤ 0
        · -- layout 3: "0." zeros digits
          rw [if_pos hc3]
          generalize hj : (-((ds.length : Int) + e)).toNat = j
          have hfsd : ∀ d ∈ List.replicate j 48 ++ ds, isDigit d = true := by
            intro d hd
            rcases List.mem_append.mp hd with h | h
            · exact zeros_digits _ d h
            · exact hs.allDigit d h
          have hfr : parseFrac (46 :: ((List.replicate j 48 ++ ds) ++ tl))
              = some (List.replicate j 48 ++ ds, tl) :=
            parseFrac_dot _ tl hfsd (by simp [hs.ne]) htl'
          have := parseNumber_general (decide (m < 0)) [48]
            (46 :: ((List.replicate j 48 ++ ds) ++ tl)) (List.replicate j 48 ++ ds) tl tl none
            (by decide) (by simp) (by simp) (by simp; decide) hfr hexpN (by simp [hs.ne])
          simp only [List.append_assoc, List.cons_append, List.nil_append] at this ⊢
          rw [this]
          have hcore := mkDec_core (decide (m < 0)) m.natAbs ds (j + 1) 0
            (Option.getD none 0 - ((List.replicate j (48 : UInt8) ++ ds).length : Int)) hs hn10
          simp only [List.replicate_succ, List.cons_append, List.append_nil,
            List.replicate_zero] at hcore
          rw [hcore, hres]
          have : (Option.getD (none : Option Int) 0
              - ((List.replicate j (48 : UInt8) ++ ds).length : Int)) + ((0 : Nat) : Int) = e := by
            simp only [Option.getD_none, List.length_append, List.length_replicate]
            omega
          rw [this]
        · -- layout 4: scientific
          rw [if_neg hc3]
          obtain ⟨er, her⟩ := renderExp_cons ((ds.length : Int) + e - 1)
          have hpe := parseExp_renderExp ((ds.length : Int) + e - 1) tl htl'
          cases ds with
          | nil => exact absurd rfl hs.ne
          | cons d more =>
            have hd1 : ¬ ((([d] : Bytes)).head? = some 48 ∧ ([d] : Bytes).length ≠ 1) := by simp
            cases more with
            | nil =>
              simp only []
              have hfr : parseFrac (renderExp (((([d] : Bytes).length : Nat) : Int) + e - 1) ++ tl)
                  = some ([], renderExp (((([d] : Bytes).length : Nat) : Int) + e - 1) ++ tl) := by
                rw [her]; exact parseFrac_e _
              have := parseNumber_general (decide (m < 0)) [d] _ [] _ tl _
                (fun x hx => hs.allDigit x hx) (by simp) hd1 (by rw [her]; simp; decide) hfr hpe
                (by simp)
              simp only [List.append_assoc, List.cons_append, List.nil_append] at this ⊢
              rw [this]
              have hcore := mkDec_core (decide (m < 0)) m.natAbs [d] 0 0
                (Option.getD (some (((([d] : Bytes).length : Nat) : Int) + e - 1)) 0
                  - ((([] : Bytes)).length : Int)) hs hn10
              simp only [List.replicate_zero, List.nil_append, List.append_nil] at hcore
              rw [hcore, hres]
              have : (Option.getD (some (((([d] : Bytes).length : Nat) : Int) + e - 1)) 0
                  - ((([] : Bytes)).length : Int)) + ((0 : Nat) : Int) = e := by
                simp only [Option.getD_some, List.length_cons, List.length_nil]
                omega
              rw [this]
            | cons d2 more' =>
              simp only []
              have hmd : ∀ x ∈ d2 :: more', isDigit x = true :=
                fun x hx => hs.allDigit x (List.mem_cons_of_mem _ hx)
              have hfr : parseFrac (46 :: ((d2 :: more') ++
                  (renderExp ((((d :: d2 :: more' : Bytes).length : Nat) : Int) + e - 1) ++ tl)))
                  = some (d2 :: more',
                    renderExp ((((d :: d2 :: more' : Bytes).length : Nat) : Int) + e - 1) ++ tl) :=
                parseFrac_dot _ _ hmd (by simp) (by rw [her]; simp; decide)
              have := parseNumber_general (decide (m < 0)) [d] _ (d2 :: more') _ tl _
                (fun x hx => hs.allDigit x (by simp at hx; simp [hx])) (by simp) hd1
                (by simp; decide) hfr hpe (by simp)
              simp only [List.append_assoc, List.cons_append, List.nil_append] at this ⊢
              rw [this]
              have hcore := mkDec_core (decide (m < 0)) m.natAbs (d :: d2 :: more') 0 0
                (Option.getD (some ((((d :: d2 :: more' : Bytes).length : Nat) : Int) + e - 1)) 0
                  - (((d2 :: more' : Bytes)).length : Int)) hs hn10
              simp only [List.replicate_zero, List.nil_append, List.append_nil] at hcore
              rw [hcore, hres]
              have : (Option.getD (some ((((d :: d2 :: more' : Bytes).length : Nat) : Int) + e - 1)) 0
                  - (((d2 :: more' : Bytes)).length : Int)) + ((0 : Nat) : Int) = e := by
                simp only [Option.getD_some, List.length_cons]
                omega
              rw [this]

/-! ## Item 3: values -/

/-- First byte of a rendered value. -/
def startByte (c : UInt8) : Bool :=
  c = 110 || c = 116 || c = 102 || c = 34 || c = 91 || c = 123 || c = 45 || isDigit c

theorem startByte_props (c : UInt8) (h : startByte c = true) :
    isWs c = false ∧ c ≠ 93 ∧ c ≠ 125 ∧ c ≠ 44 :=
  byte_forall (P := fun c => startByte c = true → isWs c = false ∧ c ≠ 93 ∧ c ≠ 125 ∧ c ≠ 44)
    (by decide +kernel) c h

theorem numStart_props (c : UInt8) (h : c = 45 ∨ isDigit c = true) :
    isWs c = false ∧ c ≠ 110 ∧ c ≠ 116 ∧ c ≠ 102 ∧ c ≠ 34 ∧ c ≠ 91 ∧ c ≠ 123 :=
  byte_forall (P := fun c => (c = 45 ∨ isDigit c = true) →
      isWs c = false ∧ c ≠ 110 ∧ c ≠ 116 ∧ c ≠ 102 ∧ c ≠ 34 ∧ c ≠ 91 ∧ c ≠ 123)
    (by decide +kernel) c h

theorem renderNat_head (n : Nat) : ∃ c r, renderNat n = c :: r ∧ isDigit c = true := by
  have hs := renderNat_spec n
  cases h : renderNat n with
  | nil => exact absurd h hs.ne
  | cons c r => exact ⟨c, r, rfl, hs.allDigit c (by rw [h]; simp)⟩

theorem renderInt_head (i : Int) :
    ∃ c r, renderInt i = c :: r ∧ (c = 45 ∨ isDigit c = true) := by
  unfold renderInt
  split
  · exact ⟨45, _, rfl, Or.inl rfl⟩
  · obtain ⟨c, r, h, hd⟩ := renderNat_head i.natAbs
    exact ⟨c, r, h, Or.inr hd⟩

theorem renderDec_head (m e : Int) :
    ∃ c r, renderDec m e = c :: r ∧ (c = 45 ∨ isDigit c = true) := by
  obtain ⟨d, ds', hds, hd⟩ := renderNat_head m.natAbs
  unfold renderDec
  split
  · split
    · exact ⟨45, _, rfl, Or.inl rfl⟩
    · exact ⟨48, _, rfl, Or.inr (by decide)⟩
  · simp only []
    split
    · exact ⟨45, _, rfl, Or.inl rfl⟩
    · rw [hds]
      simp only [List.nil_append]
      split
      · exact ⟨d, _, rfl, Or.inr hd⟩
      · split
        · rename_i h
          obtain ⟨k, hk⟩ : ∃ k, (((d :: ds').length : Int) + e).toNat = k + 1 :=
            ⟨(((d :: ds').length : Int) + e).toNat - 1, by omega⟩
          rw [hk]
          exact ⟨d, _, rfl, Or.inr hd⟩
        · split
          · exact ⟨48, _, rfl, Or.inr (by decide)⟩
          · cases ds' with
            | nil => exact ⟨d, _, rfl, Or.inr hd⟩
            | cons a as => exact ⟨d, _, rfl, Or.inr hd⟩

theorem startByte_of_num {c : UInt8} (h : c = 45 ∨ isDigit c = true) : startByte c = true := by
  unfold startByte
  cases h with
  | inl h => subst h; decide
  | inr h => simp [h]

theorem render_head : ∀ v : JVal, ∃ c r, render v = c :: r ∧ startByte c = true
  | .null => ⟨_, _, by rw [render], by decide⟩
  | .bool true => ⟨_, _, by rw [render], by decide⟩
  | .bool false => ⟨_, _, by rw [render], by decide⟩
  | .int i => by
    obtain ⟨c, r, h, hc⟩ := renderInt_head i
    exact ⟨c, r, by rw [render, h], startByte_of_num hc⟩
  | .dec m e => by
    obtain ⟨c, r, h, hc⟩ := renderDec_head m e
    exact ⟨c, r, by rw [render, h], startByte_of_num hc⟩
  | .str s => ⟨_, _, by rw [render, renderStr], by decide⟩
  | .arr [] => ⟨_, _, by rw [render], by decide⟩
  | .arr (x :: xs) => ⟨_, _, by rw [render], by decide⟩
  | .obj [] => ⟨_, _, by rw [render], by decide⟩
  | .obj ((k, v) :: kvs) => ⟨_, _, by rw [render], by decide⟩

theorem skipWs_cons {c : UInt8} (rest : Bytes) (h : isWs c = false) :
    skipWs (c :: rest) = c :: rest := by
  simp [skipWs, h]

/-! ### Single steps of the parser -/

theorem parseValue_number (d f : Nat) (c : UInt8) (rest : Bytes)
    (h : c = 45 ∨ isDigit c = true) :
    parseValue d (f + 1) (c :: rest) = parseNumber (c :: rest) := by
  obtain ⟨h0, h1, h2, h3, h4, h5, h6⟩ := numStart_props c h
  have h' : c = 45 ∨ isDigit c = true := h
  rw [parseValue, skipWs_cons _ h0]
  simp only [h1, h2, h3, h4, h5, h6, if_false, h', if_true]

theorem parseValue_str (d f : Nat) (s tl : Bytes) :
    parseValue d (f + 1) (renderStr s ++ tl) = some (.str s, tl) := by
  have h := parseStrLit_renderStr' s tl
  rw [parseValue]
  simp only [renderStr, List.cons_append, List.append_assoc, List.nil_append]
  rw [skipWs_cons _ (by decide)]
  simp only [show ((34 : UInt8) = 110) = False by decide, show ((34 : UInt8) = 116) = False by decide,
    show ((34 : UInt8) = 102) = False by decide, if_false, if_true, h]

theorem parseValue_arr_cons (d f : Nat) (c : UInt8) (rest : Bytes) (h : startByte c = true) :
    parseValue (d + 1) (f + 1) (91 :: c :: rest) =
      match parseValue d f (c :: rest) with
      | none => none
      | some (v, r) => parseElems d f [v] r := by
  obtain ⟨h0, h1, _, _⟩ := startByte_props c h
  rw [parseValue, skipWs_cons _ (by decide)]
  simp only [show ((91 : UInt8) = 110) = False by decide, show ((91 : UInt8) = 116) = False by decide,
    show ((91 : UInt8) = 102) = False by decide, show ((91 : UInt8) = 34) = False by decide,
    if_false, if_true]
  rw [skipWs_cons _ h0]
  simp only [h1, if_false]
  rfl

theorem parseValue_obj_cons (d f : Nat) (c : UInt8) (rest : Bytes) (h : startByte c = true) :
    parseValue (d + 1) (f + 1) (123 :: c :: rest) = parseMembers d f [] (c :: rest) := by
  obtain ⟨h0, _, h1, _⟩ := startByte_props c h
  rw [parseValue, skipWs_cons _ (by decide)]
  simp only [show ((123 : UInt8) = 110) = False by decide,
    show ((123 : UInt8) = 116) = False by decide,
    show ((123 : UInt8) = 102) = False by decide, show ((123 : UInt8) = 34) = False by decide,
    show ((123 : UInt8) = 91) = False by decide, if_false, if_true]
  rw [skipWs_cons _ h0]
  simp only [h1, if_false]

theorem parseElems_close (d f : Nat) (acc : List JVal) (rest : Bytes) :
    parseElems d (f + 1) acc (93 :: rest) = some (.arr acc.reverse, rest) := by
  rw [parseElems, skipWs_cons _ (by decide)]
  simp only [if_true]

theorem parseElems_comma (d f : Nat) (acc : List JVal) (rest : Bytes) :
    parseElems d (f + 1) acc (44 :: rest) =
      match parseValue d f rest with
      | none => none
      | some (v, r) => parseElems d f (v :: acc) r := by
  rw [parseElems, skipWs_cons _ (by decide)]
  simp only [show ((44 : UInt8) = 93) = False by decide, if_false, if_true]
  rfl

theorem parseMembers_step (d f : Nat) (acc : List (Bytes × JVal)) (k : Bytes) (v : JVal)
    (r2 r4 : Bytes) (c' : UInt8) (hws : isWs c' = false)
    (hv : parseValue d f r2 = some (v, c' :: r4)) :
    parseMembers d (f + 1) acc (renderStr k ++ 58 :: r2) =
      if c' = 125 then some (.obj (insertKV k v acc), r4)
      else if c' = 44 then parseMembers d f (insertKV k v acc) r4
      else none := by
  have h := parseStrLit_renderStr' k (58 :: r2)
  rw [parseMembers]
  simp only [renderStr, List.cons_append, List.append_assoc, List.nil_append]
  rw [skipWs_cons _ (by decide)]
  simp only [if_true, h]
  rw [skipWs_cons _ (by decide)]
  simp only [if_true, hv]
  rw [skipWs_cons _ hws]


/-! ### Key order and `insertKV` -/

theorem bytesLt_irrefl : ∀ a : Bytes, bytesLt a a = false
  | [] => rfl
  | x :: xs => by
    have : ¬ x < x := UInt8.lt_irrefl x
    simp [bytesLt, this, bytesLt_irrefl xs]

theorem bytesLt_trans : ∀ a b c : Bytes, bytesLt a b = true → bytesLt b c = true →
    bytesLt a c = true
  | [], [], _ => by simp [bytesLt]
  | [], _ :: _, [] => by simp [bytesLt]
  | [], _ :: _, _ :: _ => by simp [bytesLt]
  | _ :: _, [], _ => by simp [bytesLt]
  | _ :: _, _ :: _, [] => by simp [bytesLt]
  | x :: xs, y :: ys, z :: zs => by
    intro h1 h2
    have ih := bytesLt_trans xs ys zs
    simp only [bytesLt] at h1 h2 ⊢
    simp only [UInt8.lt_iff_toNat_lt, ← UInt8.toNat_inj] at h1 h2 ⊢
    by_cases hxy : x.toNat < y.toNat
    · by_cases hyz : y.toNat < z.toNat
      · have : x.toNat < z.toNat := by omega
        simp [this]
      · simp only [hyz, if_false] at h2
        by_cases hyz' : y.toNat = z.toNat
        · have : x.toNat < z.toNat := by omega
          simp [this]
        · simp [hyz'] at h2
    · simp only [hxy, if_false] at h1
      by_cases hxy' : x.toNat = y.toNat
      · simp only [hxy', if_true] at h1
        by_cases hyz : y.toNat < z.toNat
        · have : x.toNat < z.toNat := by omega
          simp [this]
        · simp only [hyz, if_false] at h2
          by_cases hyz' : y.toNat = z.toNat
          · simp only [hyz', if_true] at h2
            have h3 : ¬ x.toNat < z.toNat := by omega
            have h4 : x.toNat = z.toNat := by omega
            rw [if_neg h3, if_pos h4]
            exact ih h1 h2
          · simp [hyz'] at h2
      · simp [hxy'] at h1

theorem bytesLt_asymm (a b : Bytes) (h : bytesLt a b = true) : bytesLt b a = false := by
  cases hba : bytesLt b a with
  | false => rfl
  | true =>
    have := bytesLt_trans a b a h hba
    rw [bytesLt_irrefl] at this
    cases this

theorem bytesLt_ne (a b : Bytes) (h : bytesLt a b = true) : b ≠ a := by
  intro e; subst e; rw [bytesLt_irrefl] at h; cases h

theorem keysSorted_tail {m : Bytes × JVal} {l : List (Bytes × JVal)}
    (h : keysSorted (m :: l) = true) : keysSorted l = true := by
  cases l with
  | nil => rfl
  | cons m' l' =>
    obtain ⟨k, v⟩ := m; obtain ⟨k', v'⟩ := m'
    simp only [keysSorted, Bool.and_eq_true] at h
    exact h.2

theorem keysSorted_head_lt : ∀ (l : List (Bytes × JVal)) (k : Bytes) (v : JVal),
    keysSorted ((k, v) :: l) = true → ∀ m ∈ l, bytesLt k m.1 = true
  | [], _, _, _ => by simp
  | (k', v') :: l, k, v, h => by
    simp only [keysSorted, Bool.and_eq_true] at h
    intro m hm
    simp only [List.mem_cons] at hm
    cases hm with
    | inl e => subst e; exact h.1
    | inr hm => exact bytesLt_trans _ _ _ h.1 (keysSorted_head_lt l k' v' h.2 m hm)

theorem insertKV_sorted : ∀ (acc : List (Bytes × JVal)) (k : Bytes) (v : JVal)
    (rest : List (Bytes × JVal)), keysSorted (acc ++ (k, v) :: rest) = true →
    insertKV k v acc = acc ++ [(k, v)]
  | [], _, _, _, _ => rfl
  | (k0, v0) :: acc, k, v, rest, h => by
    have hlt : bytesLt k0 k = true :=
      keysSorted_head_lt (acc ++ (k, v) :: rest) k0 v0 h (k, v) (by simp)
    have h1 := bytesLt_asymm _ _ hlt
    have h2 := bytesLt_ne _ _ hlt
    have ih := insertKV_sorted acc k v rest (keysSorted_tail h)
    simp [insertKV, h1, h2, ih]

/-! ### The generalised round trip -/

theorem numEnd_elems (xs : List JVal) (tl : Bytes) : numEnd (renderElems xs ++ tl) := by
  cases xs with
  | nil => rw [renderElems]; exact ⟨by decide, by decide, by decide, by decide⟩
  | cons x xs => rw [renderElems]; exact ⟨by decide, by decide, by decide, by decide⟩

theorem numEnd_members (kvs : List (Bytes × JVal)) (tl : Bytes) :
    numEnd (renderMembers kvs ++ tl) := by
  cases kvs with
  | nil => rw [renderMembers]; exact ⟨by decide, by decide, by decide, by decide⟩
  | cons m kvs =>
    obtain ⟨k, v⟩ := m
    rw [renderMembers]; exact ⟨by decide, by decide, by decide, by decide⟩



theorem numEnd_125 (tl : Bytes) : numEnd (125 :: tl) :=
  ⟨by decide, by decide, by decide, by decide⟩

mutual
  theorem parseValue_render (hdec : DecOK) : ∀ (v : JVal) (d fuel : Nat) (tl : Bytes),
      v.wf = true → v.depth ≤ d → (render v).length ≤ fuel → numEnd tl →
      parseValue d fuel (render v ++ tl) = some (v, tl)
    | .null, d, fuel, tl, _, _, hf, _ => by
      rw [render] at hf ⊢
      cases fuel with
      | zero => simp at hf
      | succ f => simp [parseValue, skipWs, isWs, stripPrefix]
    | .bool true, d, fuel, tl, _, _, hf, _ => by
      rw [render] at hf ⊢
      cases fuel with
      | zero => simp at hf
      | succ f => simp [parseValue, skipWs, isWs, stripPrefix]
    | .bool false, d, fuel, tl, _, _, hf, _ => by
      rw [render] at hf ⊢
      cases fuel with
      | zero => simp at hf
      | succ f => simp [parseValue, skipWs, isWs, stripPrefix]
    | .int i, d, fuel, tl, hwf, _, hf, htl => by
      rw [render] at hf ⊢
      simp only [JVal.wf, Bool.and_eq_true, decide_eq_true_eq] at hwf
      have hnum := parseNumber_renderInt i tl hwf.1 hwf.2 htl
      obtain ⟨c, r, h, hc⟩ := renderInt_head i
      rw [h] at hf hnum ⊢
      cases fuel with
      | zero => simp at hf
      | succ f => rw [List.cons_append, parseValue_number _ _ _ _ hc]; exact hnum
    | .dec m e, d, fuel, tl, hwf, _, hf, htl => by
      have hnum := hdec m e tl hwf htl
      rw [render] at hf ⊢
      obtain ⟨c, r, h, hc⟩ := renderDec_head m e
      rw [h] at hf hnum ⊢
      cases fuel with
      | zero => simp at hf
      | succ f => rw [List.cons_append, parseValue_number _ _ _ _ hc]; exact hnum
    | .str s, d, fuel, tl, _, _, hf, _ => by
      rw [render] at hf ⊢
      cases fuel with
      | zero => simp [renderStr] at hf
      | succ f => exact parseValue_str d f s tl
    | .arr [], d, fuel, tl, _, hd, hf, _ => by
      rw [render] at hf ⊢
      simp only [JVal.depth] at hd
      cases fuel with
      | zero => simp at hf
      | succ f =>
        cases d with
        | zero => omega
        | succ d' => simp [parseValue, skipWs, isWs]
    | .arr (x :: xs), d, fuel, tl, hwf, hd, hf, _ => by
      obtain ⟨c, r, hx, hc⟩ := render_head x
      simp only [JVal.wf, wfList, Bool.and_eq_true] at hwf
      simp only [JVal.depth, depthList] at hd
      rw [render] at hf ⊢
      simp only [List.length_cons, List.length_append] at hf
      cases d with
      | zero => omega
      | succ d' =>
        cases fuel with
        | zero => omega
        | succ f =>
          have ihx := parseValue_render hdec x d' f (renderElems xs ++ tl) hwf.1 (by omega)
            (by omega) (numEnd_elems xs tl)
          have ihxs := parseElems_render hdec xs d' f [x] tl hwf.2 (by omega) (by omega)
          simp only [List.cons_append, List.append_assoc]
          rw [hx] at ihx ⊢
          simp only [List.cons_append] at ihx ⊢
          rw [parseValue_arr_cons _ _ _ _ hc, ihx]
          simpa using ihxs
    | .obj [], d, fuel, tl, _, hd, hf, _ => by
      rw [render] at hf ⊢
      simp only [JVal.depth] at hd
      cases fuel with
      | zero => simp at hf
      | succ f =>
        cases d with
        | zero => omega
        | succ d' => simp [parseValue, skipWs, isWs]
    | .obj ((k, v) :: kvs), d, fuel, tl, hwf, hd, hf, _ => by
      simp only [JVal.wf, wfMembers, Bool.and_eq_true] at hwf
      simp only [JVal.depth, depthMembers] at hd
      rw [render] at hf ⊢
      simp only [List.length_cons, List.length_append] at hf
      cases d with
      | zero => omega
      | succ d' =>
        cases fuel with
        | zero => omega
        | succ f =>
          have ihv : ∀ (f' : Nat) (tl' : Bytes), (render v).length ≤ f' → numEnd tl' →
              parseValue d' f' (render v ++ tl') = some (v, tl') :=
            fun f' tl' hf' htl' => parseValue_render hdec v d' f' tl' hwf.2.1.2 (by omega) hf' htl'
          have ihm := parseMembers_render hdec kvs k v d' f [] tl ihv hwf.2.2 (by omega)
            (by simpa using hwf.1) (by omega)
          have h34 : startByte 34 = true := by decide
          simp only [List.cons_append, List.append_assoc]
          simp only [renderStr, List.cons_append, List.append_assoc] at ihm ⊢
          rw [parseValue_obj_cons _ _ _ _ h34]
          simpa using ihm
  theorem parseElems_render (hdec : DecOK) : ∀ (xs : List JVal) (d fuel : Nat) (acc : List JVal)
      (tl : Bytes), wfList xs = true → depthList xs ≤ d → (renderElems xs).length ≤ fuel →
      parseElems d fuel acc (renderElems xs ++ tl) = some (.arr (acc.reverse ++ xs), tl)
    | [], d, fuel, acc, tl, _, _, hf => by
      rw [renderElems] at hf ⊢
      cases fuel with
      | zero => simp at hf
      | succ f => rw [List.cons_append, parseElems_close]; simp
    | x :: xs, d, fuel, acc, tl, hwf, hd, hf => by
      simp only [wfList, Bool.and_eq_true] at hwf
      simp only [depthList] at hd
      rw [renderElems] at hf ⊢
      simp only [List.length_cons, List.length_append] at hf
      cases fuel with
      | zero => omega
      | succ f =>
        have ihx := parseValue_render hdec x d f (renderElems xs ++ tl) hwf.1 (by omega)
          (by omega) (numEnd_elems xs tl)
        have ihxs := parseElems_render hdec xs d f (x :: acc) tl hwf.2 (by omega) (by omega)
        rw [List.cons_append, parseElems_comma, List.append_assoc, ihx]
        simp only []
        rw [ihxs]
        simp
  theorem parseMembers_render (hdec : DecOK) : ∀ (kvs : List (Bytes × JVal)) (k : Bytes)
      (v : JVal) (d fuel : Nat) (acc : List (Bytes × JVal)) (tl : Bytes),
      (∀ (f' : Nat) (tl' : Bytes), (render v).length ≤ f' → numEnd tl' →
        parseValue d f' (render v ++ tl') = some (v, tl')) →
      wfMembers kvs = true → depthMembers kvs ≤ d →
      keysSorted (acc ++ (k, v) :: kvs) = true →
      (render v).length + (renderMembers kvs).length + 1 ≤ fuel →
      parseMembers d fuel acc (renderStr k ++ 58 :: (render v ++ renderMembers kvs) ++ tl)
        = some (.obj (acc ++ (k, v) :: kvs), tl)
    | [], k, v, d, fuel, acc, tl, hv, _, _, hs, hf => by
      rw [renderMembers] at hf ⊢
      cases fuel with
      | zero => omega
      | succ f =>
        have h1 := hv f (125 :: tl) (by simp at hf; omega) (numEnd_125 tl)
        have h2 := parseMembers_step d f acc k v (render v ++ 125 :: tl) tl 125 (by decide) h1
        simp only [List.append_assoc, List.cons_append, List.nil_append] at h2 ⊢
        rw [h2]
        simp only [if_true]
        rw [insertKV_sorted acc k v [] hs]
    | (k', v') :: kvs, k, v, d, fuel, acc, tl, hv, hwf, hd, hs, hf => by
      simp only [wfMembers, Bool.and_eq_true] at hwf
      simp only [depthMembers] at hd
      rw [renderMembers] at hf ⊢
      simp only [List.length_cons, List.length_append] at hf
      cases fuel with
      | zero => omega
      | succ f =>
        have hne : numEnd (44 :: (renderStr k' ++ 58 :: (render v' ++ renderMembers kvs) ++ tl)) :=
          ⟨by decide, by decide, by decide, by decide⟩
        have h1 := hv f _ (by omega) hne
        have h2 := parseMembers_step d f acc k v _ _ 44 (by decide) h1
        have hins := insertKV_sorted acc k v _ hs
        have ihv : ∀ (f' : Nat) (tl' : Bytes), (render v').length ≤ f' → numEnd tl' →
            parseValue d f' (render v' ++ tl') = some (v', tl') :=
          fun f' tl' hf' htl' => parseValue_render hdec v' d f' tl' hwf.1.2 (by omega) hf' htl'
        have ihm := parseMembers_render hdec kvs k' v' d f (acc ++ [(k, v)]) tl ihv hwf.2
          (by omega) (by simpa using hs) (by omega)
        simp only [List.append_assoc, List.cons_append, List.nil_append] at h2 ihm ⊢
        rw [h2, if_neg (by decide)]
        simp only [if_true]
        rw [hins, ihm]
end

/-- Depth bound of the real parser. -/
theorem parse_render_of (hdec : DecOK) (v : JVal) (hwf : v.wf = true)
    (hd : v.depth ≤ maxNesting) : parse (render v) = some v := by
  have h := parseValue_render hdec v maxNesting ((render v).length + 1) [] hwf hd (by omega)
    trivial
  rw [List.append_nil] at h
  simp [parse, h, skipWs]


/-- The generalised round trip, with `DecOK` discharged. -/
theorem parseValue_render_tl (v : JVal) (d fuel : Nat) (tl : Bytes) (hwf : v.wf = true)
    (hd : v.depth ≤ d) (hf : (render v).length ≤ fuel) (htl : numEnd tl) :
    parseValue d fuel (render v ++ tl) = some (v, tl) :=
  parseValue_render decOK v d fuel tl hwf hd hf htl

/-- Item 3, the main theorem: every well-formed value of nesting depth at most 127 (the bound of
    the real parser) is read back from its compact rendering.  All of `JVal` is covered, `dec`
    included. -/
theorem parse_render (v : JVal) (hwf : v.wf = true) (hd : v.depth ≤ maxNesting) :
    parse (render v) = some v :=
  parse_render_of decOK v hwf hd

theorem render_injective_on_wf {a b : JVal} (ha : a.wf = true) (hb : b.wf = true)
    (hda : a.depth ≤ maxNesting) (hdb : b.depth ≤ maxNesting) (h : render a = render b) :
    a = b := by
  have h1 := parse_render a ha hda
  rw [h, parse_render b hb hdb] at h1
  exact (Option.some.inj h1).symm

/-! ## Item 4: no control bytes in rendered JSON -/

abbrev All32 (l : Bytes) : Prop := ∀ c ∈ l, (32 : UInt8) ≤ c

theorem All32.append {a b : Bytes} (ha : All32 a) (hb : All32 b) : All32 (a ++ b) := by
  intro c hc
  rcases List.mem_append.mp hc with h | h
  · exact ha c h
  · exact hb c h

theorem All32.cons {c : UInt8} {l : Bytes} (hc : 32 ≤ c) (hl : All32 l) : All32 (c :: l) := by
  intro x hx
  rcases List.mem_cons.mp hx with h | h
  · rw [h]; exact hc
  · exact hl x h

/-- The bytes a rendered number is made of: `0-9 - . e +`. -/
def numByte (c : UInt8) : Bool := isDigit c || c = 45 || c = 46 || c = 101 || c = 43

abbrev AllNum (l : Bytes) : Prop := ∀ c ∈ l, numByte c = true

theorem AllNum.append {a b : Bytes} (ha : AllNum a) (hb : AllNum b) : AllNum (a ++ b) := by
  intro c hc
  rcases List.mem_append.mp hc with h | h
  · exact ha c h
  · exact hb c h

theorem AllNum.cons {c : UInt8} {l : Bytes} (hc : numByte c = true) (hl : AllNum l) :
    AllNum (c :: l) := by
  intro x hx
  rcases List.mem_cons.mp hx with h | h
  · rw [h]; exact hc
  · exact hl x h

theorem numByte_range {c : UInt8} (h : numByte c = true) : 32 ≤ c ∧ c < 128 :=
  byte_forall (P := fun c => numByte c = true → 32 ≤ c ∧ c < 128) (by decide +kernel) c h

theorem digits_allNum {ds : Bytes} (h : ∀ d ∈ ds, isDigit d = true) : AllNum ds :=
  fun c hc => by simp [numByte, h c hc]

theorem renderNat_allNum (n : Nat) : AllNum (renderNat n) :=
  digits_allNum (renderNat_spec n).allDigit

theorem renderInt_allNum (i : Int) : AllNum (renderInt i) := by
  unfold renderInt
  split
  · exact .cons (by decide) (renderNat_allNum _)
  · exact renderNat_allNum _

theorem renderExp_allNum (x : Int) : AllNum (renderExp x) := by
  unfold renderExp
  split
  · exact .cons (by decide) (.cons (by decide) (renderNat_allNum _))
  · exact .cons (by decide) (.cons (by decide) (renderNat_allNum _))

/-- A rendered float consists of the bytes `0-9 - . e +` only. -/
theorem renderDec_allNum (m e : Int) : AllNum (renderDec m e) := by
  have hds := renderNat_allNum m.natAbs
  have hz : ∀ k, AllNum (List.replicate k 48) := fun k => digits_allNum (zeros_digits k)
  unfold renderDec
  split
  · split <;> decide
  · simp only []
    apply AllNum.append
    · split <;> decide
    · split
      · exact .append (.append hds (hz _)) (by decide)
      · split
        · exact .append (fun c hc => hds c (List.mem_of_mem_take hc))
            (.cons (by decide) (fun c hc => hds c (List.mem_of_mem_drop hc)))
        · split
          · exact .cons (by decide) (.cons (by decide) (.append (hz _) hds))
          · generalize renderNat m.natAbs = ds at hds
            cases ds with
            | nil => intro c hc; simp at hc
            | cons d more =>
              have hd : numByte d = true := hds d (by simp)
              have hmore : AllNum more := fun c hc => hds c (by simp [hc])
              cases more with
              | nil => exact .cons hd (renderExp_allNum _)
              | cons d2 more' =>
                exact .cons hd (.cons (by decide) (.append hmore (renderExp_allNum _)))

theorem renderInt_all32 (i : Int) : All32 (renderInt i) :=
  fun c hc => (numByte_range (renderInt_allNum i c hc)).1

theorem renderDec_all32 (m e : Int) : All32 (renderDec m e) :=
  fun c hc => (numByte_range (renderDec_allNum m e c hc)).1

theorem renderStr_all32 (s : Bytes) : All32 (renderStr s) := renderStr_no_raw_control s

mutual
  theorem render_all32 : ∀ v : JVal, All32 (render v)
    | .null => by rw [render]; decide
    | .bool true => by rw [render]; decide
    | .bool false => by rw [render]; decide
    | .int i => by rw [render]; exact renderInt_all32 i
    | .dec m e => by rw [render]; exact renderDec_all32 m e
    | .str s => by rw [render]; exact renderStr_all32 s
    | .arr [] => by rw [render]; decide
    | .arr (x :: xs) => by
      rw [render]; exact .cons (by decide) (.append (render_all32 x) (renderElems_all32 xs))
    | .obj [] => by rw [render]; decide
    | .obj ((k, v) :: kvs) => by
      rw [render]
      exact .cons (by decide) (.append (renderStr_all32 k)
        (.cons (by decide) (.append (render_all32 v) (renderMembers_all32 kvs))))
  theorem renderElems_all32 : ∀ xs : List JVal, All32 (renderElems xs)
    | [] => by rw [renderElems]; decide
    | x :: xs => by
      rw [renderElems]; exact .cons (by decide) (.append (render_all32 x) (renderElems_all32 xs))
  theorem renderMembers_all32 : ∀ kvs : List (Bytes × JVal), All32 (renderMembers kvs)
    | [] => by rw [renderMembers]; decide
    | (k, v) :: kvs => by
      rw [renderMembers]
      exact .cons (by decide) (.append (renderStr_all32 k)
        (.cons (by decide) (.append (render_all32 v) (renderMembers_all32 kvs))))
end

/-- Every byte of a rendered value is `≥ 0x20` (holds for every value, well-formed or not). -/
theorem render_ge32 (v : JVal) : ∀ c ∈ render v, 32 ≤ c := render_all32 v

/-- Item 4: no raw newline, tab or carriage return in rendered JSON. -/
theorem render_no_nl_tab (v : JVal) : ∀ c ∈ render v, c ≠ 10 ∧ c ≠ 9 ∧ c ≠ 13 := by
  intro c hc
  have h := render_all32 v c hc
  refine ⟨?_, ?_, ?_⟩ <;> (intro e; subst e; exact absurd h (by decide))


/-! ## Rendered JSON is valid UTF-8 (the precondition of `serde_json::from_str`) -/

theorem utf8Valid_append (b : Bytes) (hb : utf8Valid b = true) (a : Bytes) :
    utf8Valid a = true → utf8Valid (a ++ b) = true := by
  induction a using utf8Valid.induct with
  | case1 => intro _; exact hb
  | case2 c rest hc ih =>
    intro h
    rw [utf8Valid_cons1 _ hc] at h
    rw [List.cons_append, utf8Valid_cons1 _ hc]
    exact ih h
  | case3 c hc h2 b1 r ih =>
    intro h
    rw [utf8Valid_cons2 _ _ hc h2] at h
    simp only [Bool.and_eq_true] at h
    simp only [List.cons_append]
    rw [utf8Valid_cons2 _ _ hc h2]
    simp only [Bool.and_eq_true]
    exact ⟨h.1, ih h.2⟩
  | case4 c rest hc h2 hrest =>
    intro h
    exfalso
    cases rest with
    | nil => rw [utf8Valid.eq_def] at h; simp [hc, h2] at h
    | cons b1 r => exact hrest b1 r rfl
  | case5 c hc h2 h3 b1 b2 r ih =>
    intro h
    rw [utf8Valid_cons3 _ _ _ hc h2 h3] at h
    simp only [Bool.and_eq_true] at h
    simp only [List.cons_append]
    rw [utf8Valid_cons3 _ _ _ hc h2 h3]
    simp only [Bool.and_eq_true]
    exact ⟨h.1, ih h.2⟩
  | case6 c rest hc h2 h3 hrest =>
    intro h
    exfalso
    match rest, hrest with
    | [], _ => rw [utf8Valid.eq_def] at h; simp [hc, h2, h3] at h
    | [_], _ => rw [utf8Valid.eq_def] at h; simp [hc, h2, h3] at h
    | b1 :: b2 :: r, hrest => exact hrest b1 b2 r rfl
  | case7 c hc h2 h3 h4 b1 b2 b3 r ih =>
    intro h
    rw [utf8Valid_cons4 _ _ _ _ hc h2 h3 h4] at h
    simp only [Bool.and_eq_true] at h
    simp only [List.cons_append]
    rw [utf8Valid_cons4 _ _ _ _ hc h2 h3 h4]
    simp only [Bool.and_eq_true]
    exact ⟨h.1, ih h.2⟩
  | case8 c rest hc h2 h3 h4 hrest =>
    intro h
    exfalso
    match rest, hrest with
    | [], _ => rw [utf8Valid.eq_def] at h; simp [hc, h2, h3, h4] at h
    | [_], _ => rw [utf8Valid.eq_def] at h; simp [hc, h2, h3, h4] at h
    | [_, _], _ => rw [utf8Valid.eq_def] at h; simp [hc, h2, h3, h4] at h
    | b1 :: b2 :: b3 :: r, hrest => exact hrest b1 b2 b3 r rfl
  | case9 c rest hc h2 h3 h4 =>
    intro h
    rw [utf8Valid.eq_def] at h; simp [hc, h2, h3, h4] at h

theorem utf8Valid_of_allNum {l : Bytes} (h : AllNum l) : utf8Valid l = true := by
  have := utf8Valid_ascii_append l [] (fun b hb => (numByte_range (h b hb)).2)
  rw [List.append_nil] at this
  rw [this]; rfl

mutual
  theorem render_utf8Valid : ∀ v : JVal, v.wf = true → utf8Valid (render v) = true
    | .null, _ => by rw [render]; decide
    | .bool true, _ => by rw [render]; decide
    | .bool false, _ => by rw [render]; decide
    | .int i, _ => by rw [render]; exact utf8Valid_of_allNum (renderInt_allNum i)
    | .dec m e, _ => by rw [render]; exact utf8Valid_of_allNum (renderDec_allNum m e)
    | .str s, h => by
      rw [render]; simp only [JVal.wf] at h; exact utf8Valid_renderStr s h
    | .arr [], _ => by rw [render]; decide
    | .arr (x :: xs), h => by
      simp only [JVal.wf, wfList, Bool.and_eq_true] at h
      rw [render, utf8Valid_cons1 _ (by decide)]
      exact utf8Valid_append _ (renderElems_utf8Valid xs h.2) _ (render_utf8Valid x h.1)
    | .obj [], _ => by rw [render]; decide
    | .obj ((k, v) :: kvs), h => by
      simp only [JVal.wf, wfMembers, Bool.and_eq_true] at h
      rw [render, utf8Valid_cons1 _ (by decide)]
      refine utf8Valid_append _ ?_ _ (utf8Valid_renderStr k h.2.1.1)
      rw [utf8Valid_cons1 _ (by decide)]
      exact utf8Valid_append _ (renderMembers_utf8Valid kvs h.2.2) _ (render_utf8Valid v h.2.1.2)
  theorem renderElems_utf8Valid : ∀ xs : List JVal, wfList xs = true →
      utf8Valid (renderElems xs) = true
    | [], _ => by rw [renderElems]; decide
    | x :: xs, h => by
      simp only [wfList, Bool.and_eq_true] at h
      rw [renderElems, utf8Valid_cons1 _ (by decide)]
      exact utf8Valid_append _ (renderElems_utf8Valid xs h.2) _ (render_utf8Valid x h.1)
  theorem renderMembers_utf8Valid : ∀ kvs : List (Bytes × JVal), wfMembers kvs = true →
      utf8Valid (renderMembers kvs) = true
    | [], _ => by rw [renderMembers]; decide
    | (k, v) :: kvs, h => by
      simp only [wfMembers, Bool.and_eq_true] at h
      rw [renderMembers, utf8Valid_cons1 _ (by decide)]
      refine utf8Valid_append _ ?_ _ (utf8Valid_renderStr k h.1.1)
      rw [utf8Valid_cons1 _ (by decide)]
      exact utf8Valid_append _ (renderMembers_utf8Valid kvs h.2) _ (render_utf8Valid v h.1.2)
end


end Cacache.Json
