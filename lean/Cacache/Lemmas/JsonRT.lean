/-
Round trip `parse (render v) = some v` for the serde_json model of `Cacache.Json`.
-/
import Cacache.Json

namespace Cacache.Json

open Cacache

/-! ## Byte tables -/

theorem byte_forall {P : UInt8 → Prop} (h : ∀ n, n < 256 → P (UInt8.ofNat n)) (c : UInt8) : P c := by
  have := h c.toNat (UInt8.toNat_lt c)
  simpa using this

/-! ## Item 1: natural numbers -/

theorem digitsToNat_append_single (ds : Bytes) (d : UInt8) :
    digitsToNat (ds ++ [d]) = digitsToNat ds * 10 + (d.toNat - 48) := by
  simp [digitsToNat, List.foldl_append]

theorem natDigits_acc : ∀ fuel n acc, natDigits fuel n acc = natDigits fuel n [] ++ acc
  | 0, n, acc => by simp [natDigits]
  | fuel + 1, n, acc => by
    simp only [natDigits]
    split
    · simp
    · rw [natDigits_acc fuel (n / 10) (_ :: acc), natDigits_acc fuel (n / 10) [_]]; simp

theorem digit_tab : ∀ k, k < 10 →
    isDigit (48 + k.toUInt8) = true ∧ (48 + k.toUInt8).toNat - 48 = k ∧
      ((48 + k.toUInt8 = 48) → k = 0) := by decide

/-- What the digit string of `n` looks like. -/
structure IsDigitsOf (n : Nat) (ds : Bytes) : Prop where
  allDigit : ∀ d ∈ ds, isDigit d = true
  value : digitsToNat ds = n
  ne : ds ≠ []
  head0 : ds.head? = some 48 → n = 0
  zero : n = 0 → ds = [48]

theorem natDigits_spec : ∀ fuel n, n < fuel → IsDigitsOf n (natDigits fuel n [])
  | 0, n, h => by omega
  | fuel + 1, n, h => by
    have ht := digit_tab (n % 10) (Nat.mod_lt _ (by omega))
    simp only [natDigits]
    split
    · rename_i hlt
      have hmod : n % 10 = n := Nat.mod_eq_of_lt hlt
      refine ⟨?_, ?_, by simp, ?_, ?_⟩
      · intro d hd
        simp only [List.mem_singleton] at hd
        rw [hd]; exact ht.1
      · simp only [digitsToNat, List.foldl_cons, List.foldl_nil, Nat.zero_mul, Nat.zero_add]
        rw [ht.2.1, hmod]
      · intro h0
        simp only [List.head?_cons, Option.some.injEq] at h0
        have := ht.2.2 h0
        omega
      · intro h0; subst h0; rfl
    · rename_i hge
      have ih := natDigits_spec fuel (n / 10) (by omega)
      rw [natDigits_acc]
      refine ⟨?_, ?_, by simp, ?_, ?_⟩
      · intro d hd
        simp only [List.mem_append, List.mem_singleton] at hd
        cases hd with
        | inl h => exact ih.allDigit d h
        | inr h => rw [h]; exact ht.1
      · rw [digitsToNat_append_single, ih.value, ht.2.1]; omega
      · intro h0
        have : (natDigits fuel (n / 10) []).head? = some 48 := by
          cases hnd : natDigits fuel (n / 10) [] with
          | nil => exact absurd hnd ih.ne
          | cons a as => rw [hnd] at h0; simpa using h0
        have := ih.head0 this
        omega
      · intro h0; omega

theorem renderNat_spec (n : Nat) : IsDigitsOf n (renderNat n) :=
  natDigits_spec (n + 1) n (by omega)

/-- The continuation does not extend a number token. -/
def numEnd : Bytes → Prop
  | [] => True
  | c :: _ => isDigit c = false ∧ c ≠ 46 ∧ c ≠ 101 ∧ c ≠ 69

theorem spanDigits_append (ds tl : Bytes) (hd : ∀ d ∈ ds, isDigit d = true)
    (htl : ∀ c ∈ tl.head?, isDigit c = false) : spanDigits (ds ++ tl) = (ds, tl) := by
  induction ds with
  | nil =>
    cases tl with
    | nil => rfl
    | cons c t =>
      have := htl c (by simp)
      simp [spanDigits, this]
  | cons d ds ih =>
    have h1 := hd d (by simp)
    have := ih (fun x hx => hd x (by simp [hx]))
    simp [spanDigits, h1, this]

theorem numEnd_head {tl : Bytes} (h : numEnd tl) : ∀ c ∈ tl.head?, isDigit c = false := by
  cases tl with
  | nil => simp
  | cons c t => intro x hx; simp at hx; subst hx; exact h.1

theorem parseFrac_numEnd {tl : Bytes} (h : numEnd tl) : parseFrac tl = some ([], tl) := by
  cases tl with
  | nil => rfl
  | cons c t => simp [parseFrac, h.2.1]

theorem parseExp_numEnd {tl : Bytes} (h : numEnd tl) : parseExp tl = some (none, tl) := by
  cases tl with
  | nil => rfl
  | cons c t => simp [parseExp, h.2.2.1, h.2.2.2]

theorem isDigit_ne_minus {c : UInt8} (h : isDigit c = true) : c ≠ 45 :=
  byte_forall (P := fun c => isDigit c = true → c ≠ 45) (by decide +kernel) c h

/-- Number scanner on an unsigned digit string in canonical form. -/
theorem parseNumber_digits (n : Nat) (ds tl : Bytes) (hs : IsDigitsOf n ds) (htl : numEnd tl) :
    parseNumber (ds ++ tl) = some (mkInt false ds, tl) := by
  cases ds with
  | nil => exact absurd rfl hs.ne
  | cons c r =>
    have hc : c ≠ 45 := isDigit_ne_minus (hs.allDigit c (by simp))
    have hsp := spanDigits_append (c :: r) tl hs.allDigit (numEnd_head htl)
    have hhead : ¬ ((c :: r).head? = some 48 ∧ (c :: r).length ≠ 1) := by
      intro ⟨h1, h2⟩
      have := hs.zero (hs.head0 h1)
      rw [this] at h2; simp at h2
    simp only [List.cons_append] at hsp
    simp only [parseNumber, List.cons_append, hc, if_false, hsp]
    rw [if_neg (by intro h; cases h with | inl h => cases h | inr h => exact hhead h)]
    simp [parseFrac_numEnd htl, parseExp_numEnd htl]

theorem parseNumber_neg_digits (n : Nat) (ds tl : Bytes) (hs : IsDigitsOf n ds) (htl : numEnd tl) :
    parseNumber (45 :: (ds ++ tl)) = some (mkInt true ds, tl) := by
  have hsp := spanDigits_append ds tl hs.allDigit (numEnd_head htl)
  have hhead : ¬ (ds.head? = some 48 ∧ ds.length ≠ 1) := by
    intro ⟨h1, h2⟩
    have := hs.zero (hs.head0 h1)
    rw [this] at h2; simp at h2
  simp only [parseNumber, if_true, hsp]
  rw [if_neg (by intro h; cases h with | inl h => exact hs.ne h | inr h => exact hhead h)]
  simp [parseFrac_numEnd htl, parseExp_numEnd htl]

/-- Item 1. -/
theorem parseNat_renderNat (n : Nat) (tl : Bytes) (hn : n < 18446744073709551616)
    (htl : numEnd tl) : parseNumber (renderNat n ++ tl) = some (.int n, tl) := by
  have hs := renderNat_spec n
  rw [parseNumber_digits n _ tl hs htl]
  simp [mkInt, hs.value, hn]

theorem parseNumber_renderInt (i : Int) (tl : Bytes) (h1 : -9223372036854775808 ≤ i)
    (h2 : i < 18446744073709551616) (htl : numEnd tl) :
    parseNumber (renderInt i ++ tl) = some (.int i, tl) := by
  have hs := renderNat_spec i.natAbs
  unfold renderInt
  split
  · rename_i hneg
    rw [List.cons_append, parseNumber_neg_digits _ _ tl hs htl]
    have h0 : i.natAbs ≠ 0 := by omega
    have h3 : i.natAbs ≤ 9223372036854775808 := by omega
    have h4 : -(i.natAbs : Int) = i := by omega
    simp [mkInt, hs.value, h0, h3, h4]
  · rename_i hpos
    rw [parseNumber_digits _ _ tl hs htl]
    have h3 : i.natAbs < 18446744073709551616 := by omega
    have h4 : (i.natAbs : Int) = i := by omega
    simp [mkInt, hs.value, h3, h4]

/-! ## Item 2: strings -/

theorem hexNibble_tab : ∀ n, n < 32 →
    hexVal (Bytes.hexDigit (UInt8.ofNat n >>> 4)) = some (n / 16) ∧
    hexVal (Bytes.hexDigit (UInt8.ofNat n &&& 15)) = some (n % 16) ∧
    (32 : UInt8) ≤ Bytes.hexDigit (UInt8.ofNat n >>> 4) ∧
    (32 : UInt8) ≤ Bytes.hexDigit (UInt8.ofNat n &&& 15) ∧
    Bytes.hexDigit (UInt8.ofNat n >>> 4) < (128 : UInt8) ∧
    Bytes.hexDigit (UInt8.ofNat n &&& 15) < (128 : UInt8) := by
  decide

theorem lt32_toNat {c : UInt8} (h : c < 32) : c.toNat < 32 := by
  simpa [UInt8.lt_iff_toNat_lt] using h

theorem hex4_of {a b c d : UInt8} {x y z w : Nat} (rest : Bytes) (ha : hexVal a = some x)
    (hb : hexVal b = some y) (hc : hexVal c = some z) (hd : hexVal d = some w) :
    hex4 (a :: b :: c :: d :: rest) = some (((x * 16 + y) * 16 + z) * 16 + w, rest) := by
  simp only [hex4, ha, hb, hc, hd]

theorem parseUnicodeEscape_small {input rest : Bytes} {n : Nat} (h : hex4 input = some (n, rest))
    (hn : n < 0x80) : parseUnicodeEscape input = some ([n.toUInt8], rest) := by
  have e1 : ¬ (0xDC00 ≤ n ∧ n ≤ 0xDFFF) := by omega
  have e2 : ¬ (0xD800 ≤ n ∧ n ≤ 0xDBFF) := by omega
  simp only [parseUnicodeEscape, h, e1, e2, if_false, encodeUtf8, hn, if_true]

theorem parseStrAux_u00 (c : UInt8) (hlt : c < 32) (fuel : Nat) (acc rest : Bytes) :
    parseStrAux (fuel + 1) acc
      (92 :: 117 :: 48 :: 48 :: Bytes.hexDigit (c >>> 4) :: Bytes.hexDigit (c &&& 15) :: rest)
      = parseStrAux fuel (c :: acc) rest := by
  have hn := lt32_toNat hlt
  have ht := hexNibble_tab c.toNat hn
  have hc : UInt8.ofNat c.toNat = c := by simp
  rw [hc] at ht
  have hv48 : hexVal 48 = some 0 := by decide
  have h4 := hex4_of rest hv48 hv48 ht.1 ht.2.1
  have hval : ((0 * 16 + 0) * 16 + c.toNat / 16) * 16 + c.toNat % 16 = c.toNat := by omega
  rw [hval] at h4
  have hu := parseUnicodeEscape_small h4 (by omega)
  have e4 : c.toNat.toUInt8 = c := by simp
  rw [e4] at hu
  have hpe : parseEscape (117 :: 48 :: 48 :: Bytes.hexDigit (c >>> 4) ::
      Bytes.hexDigit (c &&& 15) :: rest) = some ([c], rest) := by
    simp only [parseEscape]
    simpa using hu
  simp only [parseStrAux, hpe]
  simp

/-- One escaped byte is read back as itself, for one unit of fuel. -/
theorem parseStrAux_escapeByte (c : UInt8) (fuel : Nat) (acc rest : Bytes) :
    parseStrAux (fuel + 1) acc (escapeByte c ++ rest) = parseStrAux fuel (c :: acc) rest := by
  unfold escapeByte
  split
  · rename_i h; subst h; simp [parseStrAux, parseEscape]
  split
  · rename_i h; subst h; simp [parseStrAux, parseEscape]
  split
  · rename_i h; subst h; simp [parseStrAux, parseEscape]
  split
  · rename_i h; subst h; simp [parseStrAux, parseEscape]
  split
  · rename_i h; subst h; simp [parseStrAux, parseEscape]
  split
  · rename_i h; subst h; simp [parseStrAux, parseEscape]
  split
  · rename_i h; subst h; simp [parseStrAux, parseEscape]
  split
  · rename_i hlt
    simp only [List.cons_append, List.nil_append]
    rw [parseStrAux_u00 c hlt]
  · rename_i h1 h2 h3 h4 h5 h6 h7 h8
    simp [parseStrAux, h1, h2, h8]

theorem parseStrAux_renderStrBody (s : Bytes) : ∀ (fuel : Nat) (acc tl : Bytes),
    s.length < fuel →
    parseStrAux fuel acc (renderStrBody s ++ 34 :: tl) = some (acc.reverse ++ s, tl) := by
  induction s with
  | nil =>
    intro fuel acc tl hf
    cases fuel with
    | zero => simp at hf
    | succ f => simp [renderStrBody, parseStrAux]
  | cons c s ih =>
    intro fuel acc tl hf
    cases fuel with
    | zero => simp at hf
    | succ f =>
      simp only [renderStrBody, List.append_assoc]
      rw [parseStrAux_escapeByte, ih f (c :: acc) tl (by simpa using hf)]
      simp

theorem escapeByte_length_pos (c : UInt8) : 1 ≤ (escapeByte c).length := by
  unfold escapeByte
  repeat' split
  all_goals simp

theorem renderStrBody_length (s : Bytes) : s.length ≤ (renderStrBody s).length := by
  induction s with
  | nil => simp [renderStrBody]
  | cons c s ih =>
    have := escapeByte_length_pos c
    simp only [renderStrBody, List.length_cons, List.length_append]
    omega

/-- Item 2: a rendered string literal is read back (any byte string, valid UTF-8 or not). -/
theorem parseStrLit_renderStr (s tl : Bytes) (fuel : Nat) (hf : s.length < fuel) :
    parseStrLit fuel ((renderStr s).tail ++ tl) = some (s, tl) := by
  unfold parseStrLit renderStr
  simp only [List.tail_cons, List.append_assoc, List.singleton_append]
  rw [parseStrAux_renderStrBody s fuel [] tl hf]
  simp

/-- The form used by `parseValue`: fuel `rest.length + 1`. -/
theorem parseStrLit_renderStr' (s tl : Bytes) :
    parseStrLit ((renderStrBody s ++ 34 :: tl).length + 1) (renderStrBody s ++ 34 :: tl)
      = some (s, tl) := by
  unfold parseStrLit
  rw [parseStrAux_renderStrBody s _ [] tl]
  · simp
  · have := renderStrBody_length s
    simp only [List.length_append, List.length_cons]
    omega

theorem escapeByte_ge32 (c : UInt8) : ∀ b ∈ escapeByte c, 32 ≤ b := by
  unfold escapeByte
  split
  · decide
  split
  · decide
  split
  · decide
  split
  · decide
  split
  · decide
  split
  · decide
  split
  · decide
  split
  · rename_i hlt
    have ht := hexNibble_tab c.toNat (lt32_toNat hlt)
    have hc : UInt8.ofNat c.toNat = c := by simp
    rw [hc] at ht
    intro b hb
    simp only [List.mem_cons, List.not_mem_nil, or_false] at hb
    rcases hb with h | h | h | h | h | h <;> subst h
    · decide
    · decide
    · decide
    · decide
    · exact ht.2.2.1
    · exact ht.2.2.2.1
  · rename_i h
    intro b hb
    simp only [List.mem_singleton] at hb
    subst hb
    exact UInt8.not_lt.mp h

theorem renderStrBody_ge32 (s : Bytes) : ∀ b ∈ renderStrBody s, 32 ≤ b := by
  induction s with
  | nil => simp [renderStrBody]
  | cons c s ih =>
    intro b hb
    simp only [renderStrBody, List.mem_append] at hb
    cases hb with
    | inl h => exact escapeByte_ge32 c b h
    | inr h => exact ih b h

theorem renderStr_no_raw_control (s : Bytes) : ∀ c ∈ renderStr s, 32 ≤ c := by
  intro c hc
  simp only [renderStr, List.mem_cons, List.mem_append, List.not_mem_nil, or_false] at hc
  rcases hc with h | h | h
  · subst h; decide
  · exact renderStrBody_ge32 s c h
  · subst h; decide


/-! ### Rendered strings are valid UTF-8 -/

theorem escapeByte_high {c : UInt8} (h : ¬ c < 128) : escapeByte c = [c] :=
  byte_forall (P := fun c => ¬ c < 128 → escapeByte c = [c]) (by decide +kernel) c h

theorem escapeByte_ascii {c : UInt8} (h : c < 128) : ∀ b ∈ escapeByte c, b < 128 :=
  byte_forall (P := fun c => c < 128 → ∀ b ∈ escapeByte c, b < 128) (by decide +kernel) c h

theorem utf8Valid_cons1 {c : UInt8} (rest : Bytes) (hc : c < 128) :
    utf8Valid (c :: rest) = utf8Valid rest := by
  rw [utf8Valid.eq_def]; simp only [hc, if_true]

theorem utf8Valid_cons2 {c : UInt8} (b1 : UInt8) (r : Bytes) (hc : ¬ c < 128)
    (h2 : 194 ≤ c ∧ c ≤ 223) :
    utf8Valid (c :: b1 :: r) = (isCont b1 && utf8Valid r) := by
  rw [utf8Valid.eq_def]; simp only [hc, h2, if_true, if_false, and_self]

theorem utf8Valid_cons3 {c : UInt8} (b1 b2 : UInt8) (r : Bytes) (hc : ¬ c < 128)
    (h2 : ¬ (194 ≤ c ∧ c ≤ 223)) (h3 : 224 ≤ c ∧ c ≤ 239) :
    utf8Valid (c :: b1 :: b2 :: r) =
      ((if c = 224 then decide (160 ≤ b1) && decide (b1 ≤ 191)
        else if c = 237 then decide (128 ≤ b1) && decide (b1 ≤ 159) else isCont b1) &&
        isCont b2 && utf8Valid r) := by
  rw [utf8Valid.eq_def]; simp only [hc, h2, h3, if_true, if_false, and_self]

theorem utf8Valid_cons4 {c : UInt8} (b1 b2 b3 : UInt8) (r : Bytes) (hc : ¬ c < 128)
    (h2 : ¬ (194 ≤ c ∧ c ≤ 223)) (h3 : ¬ (224 ≤ c ∧ c ≤ 239)) (h4 : 240 ≤ c ∧ c ≤ 244) :
    utf8Valid (c :: b1 :: b2 :: b3 :: r) =
      ((if c = 240 then decide (144 ≤ b1) && decide (b1 ≤ 191)
        else if c = 244 then decide (128 ≤ b1) && decide (b1 ≤ 143) else isCont b1) &&
        isCont b2 && isCont b3 && utf8Valid r) := by
  rw [utf8Valid.eq_def]; simp only [hc, h2, h3, h4, if_true, if_false, and_self]

theorem utf8Valid_ascii_append (p tl : Bytes) (h : ∀ b ∈ p, b < 128) :
    utf8Valid (p ++ tl) = utf8Valid tl := by
  induction p with
  | nil => rfl
  | cons a p ih =>
    have ha : a < 128 := h a (by simp)
    rw [List.cons_append, utf8Valid_cons1 _ ha]
    exact ih (fun b hb => h b (by simp [hb]))

theorem isCont_high {b : UInt8} (h : isCont b = true) : ¬ b < 128 := by
  simp only [isCont, Bool.and_eq_true, decide_eq_true_eq, UInt8.le_iff_toNat_le,
    UInt8.lt_iff_toNat_lt] at h ⊢
  have : (128 : UInt8).toNat = 128 := rfl
  omega

theorem range_high {b lo hi : UInt8} (hlo : 128 ≤ lo) (h : (decide (lo ≤ b) && decide (b ≤ hi)) = true) :
    ¬ b < 128 := by
  simp only [Bool.and_eq_true, decide_eq_true_eq, UInt8.le_iff_toNat_le,
    UInt8.lt_iff_toNat_lt] at h hlo ⊢
  have : (128 : UInt8).toNat = 128 := rfl
  omega

theorem utf8Valid_renderStrBody (tl : Bytes) (htl : utf8Valid tl = true) (s : Bytes) :
    utf8Valid s = true → utf8Valid (renderStrBody s ++ tl) = true := by
  induction s using utf8Valid.induct with
  | case1 => intro _; exact htl
  | case2 c rest hc ih =>
    intro h
    rw [utf8Valid_cons1 _ hc] at h
    simp only [renderStrBody, List.append_assoc]
    rw [utf8Valid_ascii_append _ _ (escapeByte_ascii hc)]
    exact ih h
  | case3 c hc h2 b1 r ih =>
    intro h
    rw [utf8Valid_cons2 _ _ hc h2] at h
    simp only [Bool.and_eq_true] at h
    have hb1 := isCont_high h.1
    simp only [renderStrBody, escapeByte_high hc, escapeByte_high hb1, List.cons_append,
      List.nil_append]
    rw [utf8Valid_cons2 _ _ hc h2]
    simp only [Bool.and_eq_true]
    exact ⟨h.1, ih h.2⟩
  | case4 c rest hc h2 hrest =>
    intro h
    exfalso
    cases rest with
    | nil => rw [utf8Valid.eq_def] at h; simp [hc, h2] at h
    | cons b1 r => exact hrest b1 r rfl
  | case5 c hc h2 h3 b1 b2 r ih =>
    intro h
    rw [utf8Valid_cons3 _ _ _ hc h2 h3] at h
    simp only [Bool.and_eq_true] at h
    have hb1 : ¬ b1 < 128 := by
      have := h.1.1
      split at this
      · exact range_high (by decide) this
      · split at this
        · exact range_high (by decide) this
        · exact isCont_high this
    have hb2 := isCont_high h.1.2
    simp only [renderStrBody, escapeByte_high hc, escapeByte_high hb1, escapeByte_high hb2,
      List.cons_append, List.nil_append]
    rw [utf8Valid_cons3 _ _ _ hc h2 h3]
    simp only [Bool.and_eq_true]
    exact ⟨h.1, ih h.2⟩
  | case6 c rest hc h2 h3 hrest =>
    intro h
    exfalso
    match rest, hrest with
    | [], _ => rw [utf8Valid.eq_def] at h; simp [hc, h2, h3] at h
    | [_], _ => rw [utf8Valid.eq_def] at h; simp [hc, h2, h3] at h
    | b1 :: b2 :: r, hrest => exact hrest b1 b2 r rfl
  | case7 c hc h2 h3 h4 b1 b2 b3 r ih =>
    intro h
    rw [utf8Valid_cons4 _ _ _ _ hc h2 h3 h4] at h
    simp only [Bool.and_eq_true] at h
    have hb1 : ¬ b1 < 128 := by
      have := h.1.1.1
      split at this
      · exact range_high (by decide) this
      · split at this
        · exact range_high (by decide) this
        · exact isCont_high this
    have hb2 := isCont_high h.1.1.2
    have hb3 := isCont_high h.1.2
    simp only [renderStrBody, escapeByte_high hc, escapeByte_high hb1, escapeByte_high hb2,
      escapeByte_high hb3, List.cons_append, List.nil_append]
    rw [utf8Valid_cons4 _ _ _ _ hc h2 h3 h4]
    simp only [Bool.and_eq_true]
    exact ⟨h.1, ih h.2⟩
  | case8 c rest hc h2 h3 h4 hrest =>
    intro h
    exfalso
    match rest, hrest with
    | [], _ => rw [utf8Valid.eq_def] at h; simp [hc, h2, h3, h4] at h
    | [_], _ => rw [utf8Valid.eq_def] at h; simp [hc, h2, h3, h4] at h
    | [_, _], _ => rw [utf8Valid.eq_def] at h; simp [hc, h2, h3, h4] at h
    | b1 :: b2 :: b3 :: r, hrest => exact hrest b1 b2 b3 r rfl
  | case9 c rest hc h2 h3 h4 =>
    intro h
    rw [utf8Valid.eq_def] at h; simp [hc, h2, h3, h4] at h

theorem utf8Valid_renderStr (s : Bytes) (hs : utf8Valid s = true) :
    utf8Valid (renderStr s) = true := by
  unfold renderStr
  have h34 : utf8Valid [34] = true := by decide
  have := utf8Valid_renderStrBody [34] h34 s hs
  rw [utf8Valid_cons1 _ (by decide)]
  exact this


end Cacache.Json
