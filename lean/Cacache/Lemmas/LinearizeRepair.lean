/-
(T4) of `Lemmas/LinearizeRead` WITHOUT the hypothesis `hother`: a keyed `read key'` next to a whole
keyed writer (`writeStream … (some key) o chunks` / the one-shot `write`) that publishes at the VERY
address of the entry the reader finds, whatever the node there is — absent, a regular file with
other (corrupt) bytes, a directory, or already the bytes.  This is the sub-case listed there under
"NOT covered": the writer's `rename` REPAIRS the file the old entry names, and a reader that did its
lookup before and reads the content after the `rename` sees the repaired bytes.

Result: the claim is TRUE in the model.  Under EVERY schedule the finished reader answers as `read`
alone before or alone after the whole write, the finished writer answers and leaves the filesystem
as alone:
* `read_writeStream_linearizable_repair`, `read_write_linearizable_repair` — same conclusion as
  `LinearizeRead.read_writeStream_linearizable` / `read_write_linearizable`; hypotheses `BucketIs`,
  `PlainFor` as there, NO `hother`, NO `ContentValid`, nothing about the node at the address; two
  further hypotheses are asked only in the same-address case (`SameAddress`):
  `hwf` (only if the two keys share the bucket: the writer's record is well-formed — `OptsWF` of
  `recordedOpts` — and the old bucket bytes are settled) and `hdecl` (only if `key' = key` and the
  options DECLARE an integrity: it has the content path of the computed one and survives its text
  form; `write` declares none).  See the doc comment of the first theorem for why.
* `read_write_linearizable_total` (+ `read_write_total_sum`) — the combined statement for `write`
  with the simplest unconditional hypotheses: settled bucket, no symlinked content for the entry,
  UTF-8 key, `u64` length.  It subsumes `read_write_linearizable` and
  `read_write_linearizable'` for UTF-8 keys and settled buckets, and needs no valid store.

How.  (1) `Phase`: an observation that switches ONCE along a solo run; `wclose_phase`,
`writeStream_phase`: the node at the address of the writer's bytes is what it was until the
`rename` and a regular file with exactly the bytes fed from then on (`rename` failing: no change —
so a directory there needs no exclusion: the `rename` fails, the reader sees the old state).
This needs the writer's private invariant `WInv` (its temp file holds what it hashed), re-proved
here without `ContentValid` (`wopen_wpT`, `wwriteAll_wpT`; `ContentValid` excludes corrupt content).
(2) `writeStream_final_bucket`: after the whole write the reader's bucket decodes to the old records
or the old records plus the writer's ONE record.  (3) `read_after_repair`: hence `read key'` after
the write reads the SAME content path under an integrity that accepts the same bytes: the old
entry (no record appended — failed insertion, failed size/integrity check — or a record of another
key), or the writer's entry.  For the latter: `check_of_same_address` — two integrities with one
content path have the same first hash (`B64.encode_of_decode`: strict base64 decoding is canonical),
so the old entry's integrity — even one listing several hashes — accepts the data.
(4) `Pairs.of_untilDone` with "first view changes with the writer's last call only" (as in (T4)) and
"second view is the initial one or the final one".

Non-vacuity: an `example` in the repair case proper (entry at the address, corrupt file there; any
hash function with digests ≥ 2 bytes), `read_straddles_writer` (the schedule lookup – whole writer
– content read exists for every writer), `declared_first_hash_addresses` (why `hdecl`).

No existing file is changed.
-/
import Cacache.Lemmas.LinearizeRead
import Cacache.Lemmas.ReadBack
import Cacache.Props.C04

namespace Cacache
open Prog

/-! ### base64: strict decoding is canonical -/

namespace B64

theorem dec6_tab : ∀ n : Nat, n < 256 →
    (dec6 n.toUInt8).all (fun m => decide (m < 64) && (enc6 m == n.toUInt8)) = true := by
  decide +kernel

theorem dec6_inv {c : UInt8} {m : Nat} (h : dec6 c = some m) : m < 64 ∧ enc6 m = c := by
  have := dec6_tab c.toNat (byte_lt c)
  rw [toUInt8_toNat, h] at this
  simpa using this

theorem toNat_toUInt8_of_lt {n : Nat} (h : n < 256) : n.toUInt8.toNat = n := by
  simp [Nat.toUInt8]; omega

/-- Strict base64 decoding is canonical: a text that decodes is the encoding of what it decodes to. -/
theorem encode_of_decode (x d : Bytes) (h : decode x = some d) : encode d = x := by
  fun_induction decode x generalizing d
  case case1 => cases h; rfl
  case case2 a b x y hb ha hy =>
    cases h
    obtain ⟨hx, rfl⟩ := dec6_inv ha
    obtain ⟨hy', rfl⟩ := dec6_inv hb
    have e : (x * 4 + y / 16).toUInt8.toNat = x * 4 + y / 16 := toNat_toUInt8_of_lt (by omega)
    simp only [encode, e]
    have h1 : (x * 4 + y / 16) * 65536 / 262144 = x := by omega
    have h2 : (x * 4 + y / 16) * 65536 / 4096 % 64 = y := by omega
    rw [h1, h2]
  case case5 a b c hc x y z hc' hb ha hz =>
    cases h
    obtain ⟨hx, rfl⟩ := dec6_inv ha
    obtain ⟨hy', rfl⟩ := dec6_inv hb
    obtain ⟨hz', rfl⟩ := dec6_inv hc'
    have e1 : (x * 4 + y / 16).toUInt8.toNat = x * 4 + y / 16 := toNat_toUInt8_of_lt (by omega)
    have e2 : (y % 16 * 16 + z / 4).toUInt8.toNat = y % 16 * 16 + z / 4 := toNat_toUInt8_of_lt (by omega)
    simp only [encode, e1, e2]
    have h1 : ((x * 4 + y / 16) * 65536 + (y % 16 * 16 + z / 4) * 256) / 262144 = x := by omega
    have h2 : ((x * 4 + y / 16) * 65536 + (y % 16 * 16 + z / 4) * 256) / 4096 % 64 = y := by omega
    have h3 : ((x * 4 + y / 16) * 65536 + (y % 16 * 16 + z / 4) * 256) / 64 % 64 = z := by omega
    rw [h1, h2, h3]
  case case8 a b c d' rest _ _ x y z w r hr hd hc hb ha ih =>
    cases h
    obtain ⟨hx, rfl⟩ := dec6_inv ha
    obtain ⟨hy', rfl⟩ := dec6_inv hb
    obtain ⟨hz', rfl⟩ := dec6_inv hc
    obtain ⟨hw', rfl⟩ := dec6_inv hd
    have e1 : (x * 4 + y / 16).toUInt8.toNat = x * 4 + y / 16 := toNat_toUInt8_of_lt (by omega)
    have e2 : (y % 16 * 16 + z / 4).toUInt8.toNat = y % 16 * 16 + z / 4 := toNat_toUInt8_of_lt (by omega)
    have e3 : (z % 4 * 64 + w).toUInt8.toNat = z % 4 * 64 + w := toNat_toUInt8_of_lt (by omega)
    simp only [encode, e1, e2, e3, ih r hr]
    have h1 : ((x * 4 + y / 16) * 65536 + (y % 16 * 16 + z / 4) * 256 + (z % 4 * 64 + w)) / 262144 = x := by omega
    have h2 : ((x * 4 + y / 16) * 65536 + (y % 16 * 16 + z / 4) * 256 + (z % 4 * 64 + w)) / 4096 % 64 = y := by omega
    have h3 : ((x * 4 + y / 16) * 65536 + (y % 16 * 16 + z / 4) * 256 + (z % 4 * 64 + w)) / 64 % 64 = z := by omega
    have h4 : ((x * 4 + y / 16) * 65536 + (y % 16 * 16 + z / 4) * 256 + (z % 4 * 64 + w)) % 64 = w := by omega
    rw [h1, h2, h3, h4]
  all_goals cases h
end B64
/-- What a defined content path says about the integrity: a first hash whose digest text decodes. -/
theorem contentPath_some {cache : Path} {sri : Integrity} {cp : Path}
    (h : contentPath cache sri = some cp) :
    ∃ hd rest d, sri = hd :: rest ∧ B64.decode hd.digest = some d ∧ 4 ≤ (Bytes.hex d).length ∧
      cp = addrPath cache hd.algo (Bytes.hex d) := by
  unfold contentPath Sri.toHex at h
  cases sri with
  | nil => simp at h
  | cons hd rest =>
    cases hdec : B64.decode hd.digest with
    | none => simp [hdec] at h
    | some d =>
      simp only [hdec, Option.map_some] at h
      split at h
      · cases h
      · cases h
        exact ⟨hd, rest, d, rfl, hdec, by omega, rfl⟩

/-- **Two integrities with the same content path check the same data**: if `sri` is addressed where
the digest of `data` is, its first hash IS that digest (base64 decoding is canonical, hex and the
path layout are injective), so `data` passes the check of `sri`. -/
theorem check_of_same_address (cfg : Cfg) {cache : Path} {sri : Integrity} {cp : Path} {a : Algo}
    {data : Bytes} (h1 : contentPath cache sri = some cp)
    (h2 : contentPath cache (Sri.compute cfg.H a data) = some cp) :
    (Sri.check cfg.H sri data).isSome = true := by
  obtain ⟨hd, rest, d, rfl, hdec, _, rfl⟩ := contentPath_some h1
  rw [contentPath_compute] at h2
  split at h2
  · cases h2
  · obtain ⟨ha, hh⟩ := addrPath_injective (Option.some.inj h2)
    have hd' : d = cfg.H hd.algo data := by rw [← ha]; exact (Bytes.hex_injective hh).symm
    have henc := B64.encode_of_decode _ _ hdec
    rw [hd'] at henc
    have : ({ algo := hd.algo, digest := B64.encode (cfg.H hd.algo data) } : Hash) = hd := by
      cases hd; simp_all
    simp [Sri.check, List.takeWhile, this]

namespace LinearizeRepair
open Prog Linearize LinearizeRead

variable (cfg : Cfg) (env : Env) (cache : Path)

/-! ### the writer's private invariant without any assumption on the content store

`Lemmas/Writer` proves `WInv` (the temp file holds what was hashed) together with the crash
invariant `ContentValid` — which EXCLUDES the situation of interest here (a corrupt file at a
content address).  The same proofs with the trivial crash condition: -/

/-- The trivial crash condition. -/
abbrev Tr : FS → Prop := fun _ => True

theorem wpT_sys {α : Type} {Post : α → FS → Prop} {c : Call} {k : Ret → Prog α} {fs : FS}
    (hk : ∀ fs' r, Step env fs c fs' r → wpD env Tr Post (k r) fs') :
    wpD env Tr Post (.sys c k) fs := ⟨trivial, fun _ => trivial, hk⟩

theorem wpT_done {α : Type} {Post : α → FS → Prop} {a : α} {fs : FS} (hp : Post a fs) :
    wpD env Tr Post (.done a) fs := ⟨trivial, hp⟩

theorem wpT_triv {α : Type} (p : Prog α) (fs : FS) : wpD env Tr (fun _ _ => True) p fs := by
  induction p generalizing fs with
  | done a => exact ⟨trivial, trivial⟩
  | sys c k ih => exact ⟨trivial, fun _ => trivial, fun fs' r _ => ih r fs'⟩

theorem wopen_wpT (fl : Flavour) (key : Option Bytes) (o : WriteOpts) (fs : FS) :
    wpD env Tr (OpenPost cache key o) (wopen cfg fl cache key o) fs := by
  unfold wopen
  simp only [bind_eq, pure_eq, call, bind_sys, bind_done]
  apply wpT_sys env
  intro fs1 r1 _
  split
  · exact wpT_done env (fun w hw => by cases hw)
  · apply wpT_sys env
    intro fs2 r2 hs2
    rcases step_mkTemp hs2 with ⟨e, rfl⟩ | ⟨rfl, hget⟩
    · exact wpT_done env (fun w hw => by cases hw)
    · have hok : ∃ n, (cache ++ [dTmp]) ++ [tmpName fs1.next] = (cache ++ [dTmp]) ++ [n] := ⟨_, rfl⟩
      have base : ∀ (w : Writer) (fsx : FS),
          w.tmp = (cache ++ [dTmp]) ++ [tmpName fs1.next] → w.cache = cache → w.key = key →
          w.opts = o → w.written = 0 → w.hashed = [] → w.algo = o.algo.getD .sha256 → w.pos = 0 →
          w.mmap = none → fsx.get w.tmp = some (.file []) →
          wpD env Tr (OpenPost cache key o) (.done (Except.ok w)) fsx := by
        intro w fsx ht hc hk ho hw hh ha hp hm hgx
        refine wpT_done env ?_
        intro w' hw'; cases hw'
        refine ⟨hc, hk, ho, hw, hh, ha, ⟨?_, ?_, [], hgx, ?_, ?_, ?_⟩⟩
        · exact ⟨_, by rw [ht, hc]⟩
        · rw [hp, hh]; rfl
        · rw [hh]; simp
        · intro _; rw [hp]; rfl
        · intro n hn; rw [hm] at hn; cases hn
      dsimp only
      split
      · rename_i n hn
        split
        · rename_i hbound
          apply wpT_sys env
          intro fs3 r3 hs3
          rcases step_fallocate hget hbound.1 hs3 with ⟨e, rfl⟩ | ⟨rfl, hg3⟩
          · dsimp only
            apply wpD_bind
            refine wpD_mono ?_ (wpT_triv env _ _)
            intro _ fs4 _
            exact wpT_done env (fun w hw => by cases hw)
          · refine wpT_done env ?_
            intro w' hw'; cases hw'
            refine ⟨rfl, rfl, rfl, rfl, rfl, rfl, ⟨hok, rfl, _, hg3, ?_, ?_, ?_⟩⟩
            · simp
            · intro h; cases h
            · intro m hm; cases hm
              have : (0 : Nat) < n := hbound.1
              simp [zeros, this]
        · exact base _ fs2 rfl rfl rfl rfl rfl rfl rfl rfl rfl hget
      · exact base _ fs2 rfl rfl rfl rfl rfl rfl rfl rfl rfl hget

theorem plainWrite_wpT (w : Writer) (d : Bytes) {fs : FS} (hm : w.mmap = none) (hi : WInv w fs)
    (Post : Except EK (Writer × Nat) → FS → Prop)
    (hpost : ∀ fs', fs'.get w.tmp = some (.file (w.hashed ++ d)) →
      Post (Except.ok ({ w with pos := w.pos + d.length, hashed := w.hashed ++ d.take d.length, written := w.written + d.length }, d.length)) fs')
    (herr : ∀ e fs', Post (Except.error e) fs') :
    wpD env Tr Post (plainWrite w d) fs := by
  unfold plainWrite
  simp only [bind_eq, pure_eq, call, bind_sys, bind_done]
  obtain ⟨f, hf, htake, hlen, _⟩ := hi.file
  have hfl : f.length = w.pos := hlen hm
  have hfeq : f = w.hashed := by rw [← htake, ← hfl, List.take_length]
  apply wpT_sys env
  intro fs1 r1 hs1
  rcases step_writeAt hf hs1 with ⟨e, rfl⟩ | ⟨rfl, hg1⟩
  · exact wpT_done env (herr _ _)
  · refine wpT_done env (hpost fs1 ?_)
    rw [hg1, ← hfl, spliceAt_plain, hfeq]

theorem wwrite_wpT (w : Writer) (d : Bytes) {fs : FS} (hi : WInv w fs) :
    wpD env Tr (WritePost w d) (wwrite w d) fs := by
  obtain ⟨f, hf, htake, hlen0, hlenS⟩ := hi.file
  unfold wwrite
  split
  · rename_i n hm
    obtain ⟨hfl, hpn⟩ := hlenS n hm
    split
    · rename_i hfit
      simp only [bind_eq, pure_eq, call, bind_sys, bind_done]
      apply wpT_sys env
      intro fs1 r1 hs1
      rcases step_writeAt hf hs1 with ⟨e, rfl⟩ | ⟨rfl, hg1⟩
      · exact wpT_done env (fun w' n' h => by cases h)
      · refine wpT_done env ?_
        intro w' n' h; cases h
        refine ⟨rfl, ⟨rfl, rfl, rfl⟩, ⟨hi.ok, ?_, _, hg1, ?_, ?_, ?_⟩, rfl, rfl, rfl, rfl⟩
        · simp [hi.pos]
        · show List.take (w.pos + d.length) _ = _
          rw [spliceAt_take f d w.pos (by omega), htake]
        · intro h; rw [hm] at h; cases h
        · intro m hm'
          rw [hm] at hm'; cases hm'
          exact ⟨by rw [spliceAt_length f d w.pos (by omega)]; exact hfl, hfit⟩
    · simp only [bind_eq, pure_eq, call, bind_sys, bind_done]
      apply wpT_sys env
      intro fs1 r1 hs1
      rcases step_truncate hf hs1 with ⟨e, rfl⟩ | ⟨rfl, hg1⟩
      · exact wpT_done env (fun w' n' h => by cases h)
      · have hi1 : WInv { w with mmap := none } fs1 := by
          refine ⟨hi.ok, hi.pos, _, hg1, ?_, ?_, ?_⟩
          · show List.take w.pos (List.take w.pos f) = w.hashed
            rw [List.take_take, Nat.min_self, htake]
          · intro _; simp; omega
          · intro m hm'; cases hm'
        apply plainWrite_wpT env { w with mmap := none } d rfl hi1
        · intro fs2 hg2 w' n' h; cases h
          refine ⟨rfl, ⟨rfl, rfl, rfl⟩, ⟨hi.ok, ?_, _, hg2, ?_, ?_, ?_⟩, by simp, rfl, rfl, rfl⟩
          · simp [hi.pos]
          · simp only [hi.pos, List.take_length]
            rw [← List.length_append, List.take_length]
          · intro _; simp [hi.pos]
          · intro m hm'; cases hm'
        · intro e fs' w' n' h; cases h
  · rename_i hm
    apply plainWrite_wpT env w d hm hi
    · intro fs2 hg2 w' n' h; cases h
      refine ⟨rfl, ⟨rfl, rfl, rfl⟩, ⟨hi.ok, ?_, _, hg2, ?_, ?_, ?_⟩, by simp, rfl, rfl, rfl⟩
      · simp [hi.pos]
      · simp only [hi.pos, List.take_length]
        rw [← List.length_append, List.take_length]
      · intro _; simp [hi.pos]
      · intro m hm'; rw [hm] at hm'; cases hm'
    · intro e fs' w' n' h; cases h

theorem wwriteAll_wpT (w : Writer) (ds : List Bytes) {fs : FS} (hi : WInv w fs) :
    wpD env Tr (WriteAllPost w ds) (wwriteAll w ds) fs := by
  induction ds generalizing w fs with
  | nil =>
    unfold wwriteAll
    refine wpT_done env ?_
    intro w' h; cases h
    exact ⟨⟨rfl, rfl, rfl⟩, hi, by simp, by simp, rfl, rfl⟩
  | cons d ds ih =>
    unfold wwriteAll
    split
    · rename_i hemp
      have hd : d = [] := by simpa using hemp
      refine wpD_mono ?_ (ih w hi)
      intro r fs' hp w' hw'
      obtain ⟨h1, h2, h3, h4, h5, h6⟩ := hp w' hw'
      exact ⟨h1, h2, by simp [h3, hd], by simp [h4, hd], h5, h6⟩
    · simp only [bind_eq, pure_eq]
      apply wpD_bind
      refine wpD_mono ?_ (wwrite_wpT env w d hi)
      intro r fs1 hp
      split
      · exact wpT_done env (fun w' h => by cases h)
      · rename_i w1 n
        obtain ⟨hn, hs, hi1, hh, hw, ho, ha⟩ := hp w1 n rfl
        refine wpD_mono ?_ (ih w1 hi1)
        intro r2 fs2 hp2 w' hw'
        obtain ⟨h1, h2, h3, h4, h5, h6⟩ := hp2 w' hw'
        refine ⟨⟨h1.1.trans hs.1, h1.2.1.trans hs.2.1, h1.2.2.trans hs.2.2⟩, h2, ?_, ?_, h5.trans ho, h6.trans ha⟩
        · rw [h3, hh]; simp
        · rw [h4, hw, hn]; simp; omega

/-! ### generic: an observation that switches ONCE

`Phase env A B p s`: along the solo run of `p` from `s`, `A` holds at every state up to some point
and `B` at every state from that point on (either part may be empty). -/

section phase
variable {α β : Type}

def Phase (env : Env) (A B : FS → Prop) : Prog α → FS → Prop
  | .done _, s => A s ∨ B s
  | .sys c k, s =>
    Along env B (.sys c k) s ∨ (A s ∧ Phase env A B (k (exec env s c).2) (exec env s c).1)

variable {env}
variable {A B : FS → Prop}

theorem Phase.of_A {p : Prog α} {s : FS} (h : Along env A p s) : Phase env A B p s := by
  induction p generalizing s with
  | done a => exact Or.inl h
  | sys c k ih => exact Or.inr ⟨h.1, ih _ h.2⟩

theorem Phase.of_B {p : Prog α} {s : FS} (h : Along env B p s) : Phase env A B p s := by
  cases p with
  | done a => exact Or.inr h
  | sys c k => exact Or.inl h

/-- Sequential composition when the first part stays in `A`. -/
theorem Phase.bind_left {p : Prog α} {f : α → Prog β} {s : FS} (h : Along env A p s)
    (hf : Phase env A B (f (run env p s).1) (run env p s).2.1) :
    Phase env A B (Prog.bind p f) s := by
  induction p generalizing s with
  | done a => exact hf
  | sys c k ih => exact Or.inr ⟨h.1, ih _ h.2 hf⟩

/-- Sequential composition in general: what the second part owes depends on where the first part
ended. -/
theorem Phase.bind {p : Prog α} {f : α → Prog β} {s : FS} (h : Phase env A B p s)
    (hA : A (run env p s).2.1 → Phase env A B (f (run env p s).1) (run env p s).2.1)
    (hB : B (run env p s).2.1 → Along env B (f (run env p s).1) (run env p s).2.1) :
    Phase env A B (Prog.bind p f) s := by
  induction p generalizing s with
  | done a =>
    rcases h with h | h
    · exact hA h
    · exact Phase.of_B (hB h)
  | sys c k ih =>
    rcases h with h | ⟨h1, h2⟩
    · exact Or.inl (Along.bind (p := .sys c k) h (hB h.final))
    · exact Or.inr ⟨h1, ih _ h2 hA hB⟩

theorem Phase.bind_pure {p : Prog α} {f : α → Prog β} {s : FS} (h : Phase env A B p s)
    (hf : ∀ a, ∃ b, f a = .done b) : Phase env A B (Prog.bind p f) s :=
  h.bind
    (fun hA => by obtain ⟨b, hb⟩ := hf (run env p s).1; rw [hb]; exact Or.inl hA)
    (fun hB => by obtain ⟨b, hb⟩ := hf (run env p s).1; rw [hb]; exact hB)

/-- At every state `A` holds, or `B` holds there AND at the end of the run. -/
theorem Phase.along {p : Prog α} {s : FS} (h : Phase env A B p s) :
    Along env (fun x => A x ∨ (B x ∧ B (run env p s).2.1)) p s := by
  induction p generalizing s with
  | done a =>
    rcases h with h | h
    · exact Or.inl h
    · exact Or.inr ⟨h, h⟩
  | sys c k ih =>
    rcases h with h | ⟨h1, h2⟩
    · exact (Along.and h (Along.of_all (obs := fun _ => B (run env (.sys c k) s).2.1)
        (fun _ => h.final) _ _)).mono (fun x hx => Or.inr hx)
    · exact ⟨Or.inl h1, ih _ h2⟩

theorem walk_phase (A B : FS → Prop) : Walk env A (Phase env A B) :=
  ⟨fun _ _ _ h hf => Phase.bind_left h hf, fun _ _ h => Or.inl h⟩

/-- A final-state property that follows from the observation is a `Walk` target. -/
theorem walk_final (obs G : FS → Prop) (hG : ∀ s, obs s → G s) :
    Walk env obs (fun p s => G (run env p s).2.1) :=
  ⟨fun p f s _ hf => by rw [run_bind_fs]; exact hf, fun _ _ h => hG _ h⟩

end phase

/-! ### the walk through a whole writer, with the writer's private invariant -/

/-- `LinearizeRead.writeStream_walk'` WITHOUT `ContentValid`, and handing the commit also the
options and the byte count of the writer. -/
theorem writeStream_walk2 {obs : FS → Prop} {X : Prog (Res Integrity) → FS → Prop}
    (hX : Walk env obs X) {q : Path} {top : Bytes}
    (hdep : ∀ s s' : FS, s'.get q = s.get q → obs s → obs s') (hq : InArea cache top q)
    (hne : top ≠ dTmp) (fl : Flavour) (key : Option Bytes) (o : WriteOpts) (chunks : List Bytes)
    (fs : FS) (h0 : obs fs)
    (hcommit : ∀ w s, w.cache = cache → WInv w s → w.key = key → w.hashed = chunks.flatten →
      w.algo = o.algo.getD .sha256 → w.opts = o → w.written = chunks.flatten.length → obs s →
      X (wcommit cfg w) s) :
    X (writeStream cfg cache fl key o chunks) fs := by
  have hnot : top ∉ [dTmp] := by simpa using hne
  have ho := wopen_props cfg cache fl key o
  have ha1 := along_of_areas env cache hdep hq hnot ho fs h0
  have hw1 := wpD_run (wopen_wpT cfg env cache fl key o fs)
  unfold writeStream
  simp only [bind_eq, pure_eq]
  apply hX.bind _ _ _ ha1
  have hs1 := ha1.final
  cases hres : (run env (wopen cfg fl cache key o) fs).1 with
  | error e => exact hX.done _ _ hs1
  | ok w =>
    obtain ⟨hc, hk, hop, hwr, hh, ha, hi⟩ := hw1.2 w hres
    have hok := hi.ok
    simp only
    have hwa := wwriteAll_areas w chunks hok
    rw [hc] at hwa
    have ha2 := along_of_areas env cache hdep hq hnot hwa _ hs1
    have hw2 := wpD_run (wwriteAll_wpT env w chunks hi)
    apply hX.bind _ _ _ ha2
    have hs2 := ha2.final
    cases hres2 : (run env (wwriteAll w chunks) (run env (wopen cfg fl cache key o) fs).2.1).1 with
    | error e =>
      simp only
      have hda := dropTmp_areas w.cache w.tmp hok.inArea
      rw [hc] at hda
      have ha3 := along_of_areas env cache hdep hq hnot hda _ hs2
      apply hX.bind _ _ _ ha3
      exact hX.done _ _ ha3.final
    | ok w' =>
      simp only
      obtain ⟨hsame, hi', hh', hwr', hop', ha'⟩ := hw2.2 w' hres2
      exact hcommit w' _ (hsame.1.trans hc) hi' (hsame.2.2.trans hk)
        (by rw [hh', hh]; rfl) (ha'.trans ha) (hop'.trans hop) (by rw [hwr', hwr]; simp) hs2

/-! ### closing a writer: the address holds what it held, then what was hashed -/

/-- **Closing a writer switches the node at its address at most once**, from whatever was there
(`x`: nothing, other bytes, a directory, …) to a regular file with exactly the bytes hashed; when
the `rename` fails nothing changes.  Needs only the writer's private invariant. -/
theorem wclose_phase (w : Writer) (s : FS) (hi : WInv w s) (hc : w.cache = cache) {cp : Path}
    (hcp : contentPath cache (Sri.compute cfg.H w.algo w.hashed) = some cp) (x : Option Node)
    (hs : s.get cp = x) :
    Phase env (fun s => s.get cp = x) (fun s => s.get cp = some (.file w.hashed)) (wclose cfg w) s := by
  obtain ⟨f, hf, htake, hlen0, hlenS⟩ := hi.file
  have ht := tmp_ne_contentPath cache hi.ok hc hcp
  have hl := contentPath_length cache hcp
  have hunlink : ∀ s' : FS, s'.get cp = x → (exec env s' (.unlink w.tmp)).1.get cp = x := fun s' h =>
    (step_frame env s' _ (.unlink w.tmp) _ .ok cp (by simpa [Call.touches] using ht)).trans h
  have publish : ∀ sx : FS, sx.get cp = x → sx.get w.tmp = some (.file w.hashed) →
      Phase env (fun s => s.get cp = x) (fun s => s.get cp = some (.file w.hashed))
        (.sys (.mkdirP (FS.parent cp)) (fun r => match r with
          | .err e => Prog.bind (.sys (.unlink w.tmp) (fun _ => .done ()))
              (fun _ => (.done (Except.error (Err.io e)) : Prog (Res Integrity)))
          | _ => .sys (.rename w.tmp cp) (fun r => match r with
            | .err e => Prog.bind (.sys (.unlink w.tmp) (fun _ => .done ()))
                (fun _ => .sys (.existsF cp) (fun r => match r with
                  | .bool true => .done (Except.ok (Sri.compute cfg.H w.algo w.hashed))
                  | _ => .done (Except.error (Err.io e))))
            | _ => .done (Except.ok (Sri.compute cfg.H w.algo w.hashed))))) sx := by
    intro sx hx htmp
    refine Or.inr ⟨hx, ?_⟩
    have hx2 : (exec env sx (.mkdirP (FS.parent cp))).1.get cp = x :=
      (step_frame env sx _ (.mkdirP (FS.parent cp)) _ .ok cp (by
        simp only [Call.touches]
        intro h
        have h1 := h.length_le
        simp only [FS.parent, List.length_dropLast] at h1
        omega)).trans hx
    have htmp2 := step_mkdirP_keeps (p := FS.parent cp) htmp (Prog.Step.ok (env := env))
    generalize (exec env sx (.mkdirP (FS.parent cp))).1 = s2 at hx2 htmp2 ⊢
    generalize (exec env sx (.mkdirP (FS.parent cp))).2 = r2
    dsimp only
    split
    · simp only [bind_sys, bind_done]
      exact Or.inr ⟨hx2, Or.inl (hunlink s2 hx2)⟩
    · refine Or.inr ⟨hx2, ?_⟩
      rcases step_rename htmp2 (Prog.Step.ok (env := env) (c := .rename w.tmp cp)) with
        ⟨⟨e, he⟩, hfs⟩ | ⟨hr, hfs⟩
      · rw [he, hfs]
        simp only [bind_sys, bind_done]
        refine Or.inr ⟨hx2, Or.inr ⟨hunlink s2 hx2, ?_⟩⟩
        dsimp only
        split <;> exact Or.inl (hunlink s2 hx2)
      · rw [hr, hfs]
        exact Or.inr (FS.get_put_same _ _ _)
  unfold wclose dropTmp
  dsimp only
  rw [show contentPath w.cache (Sri.compute cfg.H w.algo w.hashed) = some cp from by rw [hc]; exact hcp]
  simp only [bind_eq, pure_eq, call, bind_sys, bind_done]
  split
  · rename_i n hm
    obtain ⟨hfl, hpn⟩ := hlenS n hm
    split
    · simp only [bind_sys]
      refine Or.inr ⟨hs, ?_⟩
      have he : exec env s (.truncate w.tmp w.pos) = (s.put w.tmp (.file (f.take w.pos)), .unit) := by
        simp [exec, hf]
      rw [he, htake]
      simp only [bind_done]
      exact publish _ ((FS.get_put_ne _ _ ht).trans hs) (FS.get_put_same _ _ _)
    · simp only [bind_done]
      have : f = w.hashed := by
        have hp : w.pos = n := by omega
        rw [← htake, hp, ← hfl, List.take_length]
      rw [this] at hf
      exact publish s hs hf
  · rename_i hm
    simp only [bind_done]
    have : f = w.hashed := by rw [← htake, ← hlen0 hm, List.take_length]
    rw [this] at hf
    exact publish s hs hf

/-- A program that never touches `cp` keeps both halves of a `Phase` about the node at `cp`. -/
theorem phase_of_avoids {α : Type} {Ok : α → Prop} {p : Prog α} {cp : Path}
    (hp : AllCallsR (Call.avoids cp) Ok p) (x y : Option Node) (s : FS) :
    (s.get cp = x → Phase env (fun s => s.get cp = x) (fun s => s.get cp = y) p s) ∧
    (s.get cp = y → Along env (fun s => s.get cp = y) p s) :=
  ⟨fun h => Phase.of_A (along_frame hp env s x h), fun h => along_frame hp env s y h⟩

/-- **A whole writer switches the node at the address of its bytes at most once**: from what was
there initially to a regular file with exactly the bytes fed; no hypothesis on the store. -/
theorem writeStream_phase (fl : Flavour) (key : Option Bytes) (o : WriteOpts) (chunks : List Bytes)
    (fs : FS) {cp : Path}
    (hcp : contentPath cache (Sri.compute cfg.H (o.algo.getD .sha256) chunks.flatten) = some cp) :
    Phase env (fun s => s.get cp = fs.get cp) (fun s => s.get cp = some (.file chunks.flatten))
      (writeStream cfg cache fl key o chunks) fs := by
  have hdep : ∀ s s' : FS, s'.get cp = s.get cp → s.get cp = fs.get cp → s'.get cp = fs.get cp :=
    fun s s' he h => he.trans h
  refine writeStream_walk2 cfg env cache (walk_phase _ _) hdep (inArea_contentPath hcp)
    dTmp_ne_dContent.symm fl key o chunks fs rfl ?_
  intro w s hc hi _ hh ha _ _ hs
  have hcp' : contentPath cache (Sri.compute cfg.H w.algo w.hashed) = some cp := by
    rw [hh, ha]; exact hcp
  have h1 := wclose_phase cfg env cache w s hi hc hcp' _ hs
  rw [hh] at h1
  unfold wcommit wcommitCheck
  simp only [bind_eq, pure_eq]
  refine Phase.bind (Phase.bind_pure h1 ?_) ?_ ?_
  · intro a
    split
    · exact ⟨_, rfl⟩
    · split <;> exact ⟨_, rfl⟩
  · intro hA
    split
    · exact Or.inl hA
    · unfold wcommitIndex
      split
      · rw [hc]
        exact (phase_of_avoids env (insert_avoids_content cfg cache _ _ hcp) _ _ _).1 hA
      · exact Or.inl hA
  · intro hB
    split
    · exact hB
    · unfold wcommitIndex
      split
      · rw [hc]
        exact (phase_of_avoids env (insert_avoids_content cfg cache _ _ hcp)
          (fs.get cp) _ _).2 hB
      · exact hB

/-! ### where a whole keyed writer leaves the reader's bucket -/

/-- A successful `wclose` answers the computed integrity. -/
theorem wclose_result (w : Writer) :
    AllCallsR (fun _ => True) (fun r => ∀ x, r = .ok x → x = Sri.compute cfg.H w.algo w.hashed)
      (wclose cfg w) := by
  unfold wclose dropTmp
  repeat' ac_step
  all_goals first
    | exact trivial
    | (intro x hx; cases hx; rfl)
    | (intro x hx; cases hx)

/-- What the check phase of a commit hands to the index phase. -/
theorem wcommitCheck_result (w : Writer) (s : FS) (wsri recorded : Integrity)
    (h : (run env (wcommitCheck cfg w) s).1 = .ok (wsri, recorded)) :
    wsri = Sri.compute cfg.H w.algo w.hashed ∧ commitChecks w wsri = .ok recorded := by
  unfold wcommitCheck at h
  simp only [bind_eq, pure_eq, run_bind_res] at h
  have hr := (wclose_result cfg w).result env s
  cases hcl : (run env (wclose cfg w) s).1 with
  | error e => rw [hcl] at h; simp only [run] at h; cases h
  | ok x =>
    rw [hcl] at h hr
    have hx := hr x rfl
    simp only at h
    cases hck : commitChecks w x with
    | error e => rw [hck] at h; simp only [run] at h; cases h
    | ok rec' =>
      rw [hck] at h
      simp only [run] at h
      cases h
      exact ⟨hx, hck⟩

/-- **The reader's bucket after a whole keyed write**: a reader decodes exactly the old records, or
(same bucket only) the old records followed by the ONE record of the write,
`mkRec key (recordedOpts cfg o data) tm`.  In the same-bucket case this needs the recorded options
to be well-formed and the old bytes to be settled (`hwf`); for another bucket nothing. -/
theorem writeStream_final_bucket (fl : Flavour) (key key' : Bytes) (o : WriteOpts)
    (chunks : List Bytes) (b : Bytes) (fs : FS) (hb : BucketIs fs (bucketPath cfg cache key') b)
    (hwf : bucketPath cfg cache key' = bucketPath cfg cache key →
      OptsWF key (recordedOpts cfg o chunks.flatten) ∧ (codec cfg).Settled b) :
    ∃ b', BucketIs (run env (writeStream cfg cache fl (some key) o chunks) fs).2.1
        (bucketPath cfg cache key') b' ∧
      ((codec cfg).entries b' = (codec cfg).entries b ∨
       ∃ tm, (codec cfg).entries b' =
        (codec cfg).entries b ++ [mkRec key (recordedOpts cfg o chunks.flatten) tm]) := by
  have hdep : ∀ s s' : FS, s'.get (bucketPath cfg cache key') = s.get (bucketPath cfg cache key') →
      BucketIs s (bucketPath cfg cache key') b → BucketIs s' (bucketPath cfg cache key') b :=
    fun s s' he h => h.frame he
  refine writeStream_walk2 cfg env cache
    (walk_final (fun s => BucketIs s (bucketPath cfg cache key') b)
      (fun s => ∃ b', BucketIs s (bucketPath cfg cache key') b' ∧
        ((codec cfg).entries b' = (codec cfg).entries b ∨
         ∃ tm, (codec cfg).entries b' =
          (codec cfg).entries b ++ [mkRec key (recordedOpts cfg o chunks.flatten) tm]))
      (fun s h => ⟨b, h, Or.inl rfl⟩))
    hdep (bucket_inIndex cfg cache key') dIndex_ne_dTmp fl (some key) o chunks fs hb ?_
  intro w s hc hi hk hh ha hop hwr hs
  have hca := wcommitCheck_areas cfg w hi.ok
  rw [hc] at hca
  have hs1 : BucketIs (run env (wcommitCheck cfg w) s).2.1 (bucketPath cfg cache key') b :=
    (along_of_areas env cache hdep (bucket_inIndex cfg cache key') (by decide) hca s hs).final
  unfold wcommit
  simp only [bind_eq, pure_eq]
  rw [run_bind_fs]
  cases hres : (run env (wcommitCheck cfg w) s).1 with
  | error e => exact ⟨b, hs1, Or.inl rfl⟩
  | ok pr =>
    obtain ⟨wsri, recorded⟩ := pr
    obtain ⟨hws, hchk⟩ := wcommitCheck_result cfg env w s wsri recorded hres
    have hck := commitChecks_ok hchk
    have hrec : ({ w.opts with sri := some recorded, size := some (w.opts.size.getD w.written) } : WriteOpts) =
        recordedOpts cfg o chunks.flatten := by
      rw [hck.1, hws, hh, ha, hwr, hop]; rfl
    simp only
    unfold wcommitIndex
    rw [hk, hc]
    dsimp only
    rw [hrec]
    by_cases hsame : bucketPath cfg cache key' = bucketPath cfg cache key
    · obtain ⟨ho, hst⟩ := hwf hsame
      rw [hsame] at hs1 ⊢
      obtain ⟨b', hb', tm, _, _, hen⟩ := C04.growing_oldOrNew cfg cache key _ ho b hst _
        (wpD_run (insert_bucket_wp cfg env cache key (recordedOpts cfg o chunks.flatten) b hs1)).1
      exact ⟨b', hb', hen.imp id (fun h => ⟨tm, h⟩)⟩
    · have hget := AllCalls.frame_run (insert_avoids cfg cache key key'
        (recordedOpts cfg o chunks.flatten) hsame) env (run env (wcommitCheck cfg w) s).2.1
      exact ⟨b, hs1.frame hget, Or.inl rfl⟩

/-! ### the state after the writer: the lookup names the repaired file -/

/-- A verified read by address of a regular file. -/
theorem readHash_of_file (sri : Integrity) (cp : Path) (hcp : contentPath cache sri = some cp)
    (s : FS) (d : Bytes) (hf : s.get cp = some (.file d)) :
    (run env (readHash cfg cache sri) s).1 =
      if (Sri.check cfg.H sri d).isSome then .ok d else .error .integrity := by
  have hne : cp ≠ [] := by
    obtain ⟨a, hx, rfl⟩ := contentPath_shape hcp; simp
  unfold readHash
  rw [hcp]
  simp only [bind_eq, pure_eq, call, bind_sys, bind_done, run, exec, readFile_of_file hne hf]
  split <;> rfl

/-- **After the write, `read key'` reads the repaired file under the old entry's integrity.**
`S` is any state in which the address of `data` holds `data`, and whose bucket for `key'` decodes
to the old records or to the old records plus the writer's one record: the lookup finds the old
entry `m` (no new record, or a record of another key), or the writer's entry — whose integrity has
the same content path and, like `m.sri` (`check_of_same_address`), accepts `data`. -/
theorem read_after_repair (key key' : Bytes) (o : WriteOpts) (data : Bytes) (b : Bytes) (S : FS)
    (m : Meta) (cp : Path)
    (hm : (codec cfg).findIn key' ((codec cfg).entries b) = some m)
    (hcp : contentPath cache m.sri = some cp)
    (hw : contentPath cache (Sri.compute cfg.H (o.algo.getD .sha256) data) = some cp)
    (hfile : S.get cp = some (.file data))
    (hbk : ∃ b', BucketIs S (bucketPath cfg cache key') b' ∧
      ((codec cfg).entries b' = (codec cfg).entries b ∨
       ∃ tm, (codec cfg).entries b' = (codec cfg).entries b ++ [mkRec key (recordedOpts cfg o data) tm]))
    (hdecl : key' = key → ∀ s, o.sri = some s →
      contentPath cache s = contentPath cache (Sri.compute cfg.H (o.algo.getD .sha256) data) ∧
      Sri.parse (Sri.print s) = some s) :
    (run env (read cfg cache key') S).1 = (run env (readHash cfg cache m.sri) S).1 := by
  obtain ⟨b', hb', hen⟩ := hbk
  rw [read_run_eq, find_of_bucketIs cfg env cache key' S b' hb']
  rcases hen with e | ⟨tm, e⟩
  · rw [e, hm]; rfl
  · rw [e, Codec.findIn_append, hm]
    simp only [List.foldl_cons, List.foldl_nil]
    unfold Codec.findStep
    have hkey : (codec cfg).key (mkRec key (recordedOpts cfg o data) tm) = key := rfl
    rw [hkey]
    by_cases hk : key = key'
    · rw [if_pos hk]
      have hrec : contentPath cache (o.sri.getD (Sri.compute cfg.H (o.algo.getD .sha256) data)) =
            some cp ∧
          Sri.parse (Sri.print (o.sri.getD (Sri.compute cfg.H (o.algo.getD .sha256) data))) =
            some (o.sri.getD (Sri.compute cfg.H (o.algo.getD .sha256) data)) := by
        cases ho : o.sri with
        | none => exact ⟨hw, Sri.parse_print_compute _ _ _⟩
        | some s =>
          obtain ⟨h1, h2⟩ := hdecl hk.symm s ho
          exact ⟨h1.trans hw, h2⟩
      have hcls : ∃ m', (codec cfg).cls (mkRec key (recordedOpts cfg o data) tm) = .live m' ∧
          m'.sri = o.sri.getD (Sri.compute cfg.H (o.algo.getD .sha256) data) := by
        simp only [codec, Rec.codec, Rec.cls, mkRec, recordedOpts, Option.map_some, hrec.2]
        exact ⟨_, rfl, rfl⟩
      obtain ⟨m', hcl, hsri⟩ := hcls
      rw [hcl]
      show (run env (readHash cfg cache m'.sri) S).1 = _
      rw [hsri, readHash_of_file cfg env cache _ cp hrec.1 S data hfile,
        readHash_of_file cfg env cache _ cp hcp S data hfile,
        check_of_same_address cfg hrec.1 hw, check_of_same_address cfg hcp hw]
    · rw [if_neg hk]; rfl

/-- Why `hdecl` below: the commit-time check `Sri.declaredOk` accepts a declaration
`[a-x, a-<digest of data>]` for ANY text `x` (the first algorithm is the writer's, the computed hash
occurs); the commit records the DECLARATION, and its content path is that of `x`, not of the data. -/
theorem declared_first_hash_addresses (a : Algo) (data x : Bytes) :
    (Sri.declaredOk ({ algo := a, digest := x } :: Sri.compute cfg.H a data)
      (Sri.compute cfg.H a data)).isSome = true ∧
    contentPath cache ({ algo := a, digest := x } :: Sri.compute cfg.H a data) =
      contentPath cache [{ algo := a, digest := x }] := by
  simp [Sri.declaredOk, Sri.matchesSri, Sri.compute, contentPath, Sri.toHex]

/-! ### (T4) without `hother` -/

/-- The entry the reader's key has initially (bucket bytes `b`) names, as its content path, the very
address `sri` is published at — the case `hother` of `LinearizeRead` (T4) excludes. -/
def SameAddress (key' : Bytes) (b : Bytes) (sri : Integrity) : Prop :=
  ∃ m cp, (codec cfg).findIn key' ((codec cfg).entries b) = some m ∧
    contentPath cache m.sri = some cp ∧ contentPath cache sri = some cp

/-- **(T4), every case: `read key' ∥ writeStream (some key) o chunks` with NO hypothesis on the
address written** — another address, the same address already holding the bytes, or the same
address holding anything else (nothing, corrupt bytes, a directory): the open sub-case, in which the
writer's `rename` REPAIRS the file the old entry names and a reader that looked the key up before
may read the repaired bytes.  Under every schedule the finished reader answers as `read` alone
before or alone after the WHOLE write; the finished writer answers, and leaves the filesystem, as
alone.  No `ContentValid`, nothing about the node at the address.

Hypotheses `hb`, `hpl` as in `LinearizeRead.read_writeStream_linearizable`.  The two further ones
are asked ONLY in the same-address case (`SameAddress`), where the answer "repaired bytes" has to be
the AFTER answer, i.e. the lookup after the write must lead to the same file:
* `hwf` (only if moreover the writer's record goes to the reader's bucket): the record the write
  appends is well-formed (`OptsWF` of the recorded options: UTF-8 key, `u128` time, `u64` size,
  `String` digests, JSON nesting — what Rust's types give) and the old bucket bytes are settled
  (end in a whole line).  Otherwise the appended line may not decode, or make a torn last line of
  `b` visible, and the lookup after the write need not find an entry at this address.
* `hdecl` (only if moreover `key' = key`, and only for options that DECLARE an integrity): the
  declaration has the content path of the computed integrity and survives its text form
  (`parse (print s) = some s`; both hold when the declaration IS the computed integrity).  The
  commit accepts any declaration whose first algorithm is the writer's and which contains the
  computed hash, and records the DECLARATION; `[sha256-X, sha256-<computed>]` is recorded with the
  content path of `X`, so the lookup after the write leads elsewhere (not formalised).
If the insertion fails, or the size/integrity checks fail after the `rename`, the bucket is
unchanged, the lookup after the write finds the old entry, and the statement holds as well. -/
theorem read_writeStream_linearizable_repair {γ : Type} (f : Res Integrity → γ) (g : Res Bytes → γ)
    (fl : Flavour) (key key' : Bytes) (o : WriteOpts) (chunks : List Bytes) (b : Bytes) (fs : FS)
    (hb : BucketIs fs (bucketPath cfg cache key') b)
    (hpl : PlainFor cache fs (.ok ((codec cfg).findIn key' ((codec cfg).entries b))))
    (hwf : SameAddress cfg cache key' b (Sri.compute cfg.H (o.algo.getD .sha256) chunks.flatten) →
      bucketPath cfg cache key' = bucketPath cfg cache key →
      OptsWF key (recordedOpts cfg o chunks.flatten) ∧ (codec cfg).Settled b)
    (hdecl : SameAddress cfg cache key' b (Sri.compute cfg.H (o.algo.getD .sha256) chunks.flatten) →
      key' = key → ∀ s, o.sri = some s →
      contentPath cache s =
        contentPath cache (Sri.compute cfg.H (o.algo.getD .sha256) chunks.flatten) ∧
      Sri.parse (Sri.print s) = some s)
    (sched : List Nat) :
    (∀ c, FinishedWith env [(writeStream cfg cache fl (some key) o chunks).mapRes f,
        (read cfg cache key').mapRes g] fs sched 1 c →
      c = g (run env (read cfg cache key') fs).1 ∨
      c = g (run env (read cfg cache key')
        (run env (writeStream cfg cache fl (some key) o chunks) fs).2.1).1) ∧
    (∀ c, FinishedWith env [(writeStream cfg cache fl (some key) o chunks).mapRes f,
        (read cfg cache key').mapRes g] fs sched 0 c →
      c = f (run env (writeStream cfg cache fl (some key) o chunks) fs).1 ∧
      (interleave env [(writeStream cfg cache fl (some key) o chunks).mapRes f,
        (read cfg cache key').mapRes g] fs sched).2 =
        (run env (writeStream cfg cache fl (some key) o chunks) fs).2.1) := by
  have hR := read_twoShot cfg env cache key'
  refine reader_before_or_after env _ _ f g fs hR ?_ sched
  have hfirst : UntilDone env
      (fun a => (step env (read cfg cache key') a).1 = (step env (read cfg cache key') fs).1)
      (writeStream cfg cache fl (some key) o chunks) fs :=
    (writeStream_bucket_untilDone cfg env cache fl key key' o chunks b fs hb).mono
      (fun a ha => by
        rw [read_step_of_bucketIs cfg env cache key' a b ha,
          read_step_of_bucketIs cfg env cache key' fs b hb])
  refine Pairs.of_untilDone
    (P2 := fun s => (run env (step env (read cfg cache key') fs).1 s).1 =
        (run env (step env (read cfg cache key') fs).1 fs).1 ∨
      (run env (step env (read cfg cache key') fs).1 s).1 =
        (run env (read cfg cache key')
          (run env (writeStream cfg cache fl (some key) o chunks) fs).2.1).1)
    (fun a b' ha hb' => ?_) ?_ hfirst ?_
  · rw [ha]
    rcases hb' with h | h
    · left; rw [h, hR.run_eq]
    · right; exact h
  · right; rw [hR.run_eq]
  · rw [read_step_of_bucketIs cfg env cache key' fs b hb]
    rcases hx : (codec cfg).findIn key' ((codec cfg).entries b) with _ | m
    · exact Along.of_all (fun _ => Or.inl rfl) _ _
    · show Along env (fun s => (run env (readHash cfg cache m.sri) s).1 =
          (run env (readHash cfg cache m.sri) fs).1 ∨
        (run env (readHash cfg cache m.sri) s).1 = _) _ _
      cases hcp : contentPath cache m.sri with
      | none =>
        refine Along.of_all (fun s => Or.inl ?_) _ _
        unfold readHash
        rw [hcp]
        rfl
      | some cp =>
        have hnl : ∀ t, fs.get cp ≠ some (.link t) := fun t => hpl m (by rw [hx]) cp t hcp
        by_cases hsame : contentPath cache
            (Sri.compute cfg.H (o.algo.getD .sha256) chunks.flatten) = some cp
        · have hS : SameAddress cfg cache key' b
              (Sri.compute cfg.H (o.algo.getD .sha256) chunks.flatten) := ⟨m, cp, hx, hcp, hsame⟩
          have hbk := writeStream_final_bucket cfg env cache fl key key' o chunks b fs hb (hwf hS)
          refine (writeStream_phase cfg env cache fl (some key) o chunks fs hsame).along.mono
            (fun s hs => ?_)
          rcases hs with hA | ⟨hB, hF⟩
          · exact Or.inl (readHash_congr cfg env cache m.sri cp hcp hA hnl)
          · right
            rw [readHash_congr cfg env cache m.sri cp hcp (hB.trans hF.symm)
              (fun t h => by rw [hF] at h; cases h)]
            exact (read_after_repair cfg env cache key key' o chunks.flatten b _ m cp hx hcp hsame
              hF hbk (hdecl hS)).symm
        · exact (writeStream_content_along cfg env cache fl (some key) o chunks fs hcp hsame).mono
            (fun s hs => Or.inl (readHash_congr cfg env cache m.sri cp hcp hs hnl))

/-- **(T4), every case, for the one-shot `write`** (`cacache::write` / `write_sync`, any algorithm;
no integrity is declared, so `hdecl` disappears).  `hwf` — asked only when the old entry is at the
address written AND the writer's key shares the reader's bucket — says the key is UTF-8 (a Rust
`&str`), the length a `u64` (a Rust `usize`) and the old bucket bytes are settled. -/
theorem read_write_linearizable_repair {γ : Type} (f : Res Integrity → γ) (g : Res Bytes → γ)
    (fl : Flavour) (algo : Algo) (key key' data : Bytes) (b : Bytes) (fs : FS)
    (hb : BucketIs fs (bucketPath cfg cache key') b)
    (hpl : PlainFor cache fs (.ok ((codec cfg).findIn key' ((codec cfg).entries b))))
    (hwf : SameAddress cfg cache key' b (Sri.compute cfg.H algo data) →
      bucketPath cfg cache key' = bucketPath cfg cache key →
      Json.utf8Valid key = true ∧ data.length ≤ Rec.u64Max ∧ (codec cfg).Settled b)
    (sched : List Nat) :
    (∀ c, FinishedWith env [(write cfg fl cache algo key data).mapRes f,
        (read cfg cache key').mapRes g] fs sched 1 c →
      c = g (run env (read cfg cache key') fs).1 ∨
      c = g (run env (read cfg cache key') (run env (write cfg fl cache algo key data) fs).2.1).1) ∧
    (∀ c, FinishedWith env [(write cfg fl cache algo key data).mapRes f,
        (read cfg cache key').mapRes g] fs sched 0 c →
      c = f (run env (write cfg fl cache algo key data) fs).1 ∧
      (interleave env [(write cfg fl cache algo key data).mapRes f,
        (read cfg cache key').mapRes g] fs sched).2 =
        (run env (write cfg fl cache algo key data) fs).2.1) := by
  rw [write_eq_stream]
  apply read_writeStream_linearizable_repair cfg env cache f g fl key key' _ [data] b fs hb hpl ?_ ?_ sched
  · intro hS hbk
    have hS' : SameAddress cfg cache key' b (Sri.compute cfg.H algo data) := by
      cases fl <;> simpa using hS
    obtain ⟨h1, h2, h3⟩ := hwf hS' hbk
    refine ⟨?_, h3⟩
    cases fl
    · exact ⟨h1, by simp [recordedOpts], by simp [recordedOpts]; exact h2,
        by simp [recordedOpts]; exact Sri.compute_wf _ _ _, by simp [recordedOpts]⟩
    · exact ⟨h1, by simp [recordedOpts], by simp [recordedOpts]; exact h2,
        by simp [recordedOpts]; exact Sri.compute_wf _ _ _, by simp [recordedOpts]⟩
  · intro _ _ s hs
    cases fl <;> simp at hs

/-- **`read key' ∥ write key data`, no `hother` at all, the simplest hypotheses**: the reader's
bucket is a regular file (or absent) whose bytes are settled, the content file of the entry it
holds for `key'` is not a symbolic link, the writer's key is UTF-8 and the data length a `u64`.
Case split inside: the old entry is at another address / at the address written, which holds the
bytes already / which holds anything else (the repair). -/
theorem read_write_linearizable_total {γ : Type} (f : Res Integrity → γ) (g : Res Bytes → γ)
    (fl : Flavour) (algo : Algo) (key key' data : Bytes) (b : Bytes) (fs : FS)
    (hb : BucketIs fs (bucketPath cfg cache key') b)
    (hpl : PlainFor cache fs (.ok ((codec cfg).findIn key' ((codec cfg).entries b))))
    (hs : (codec cfg).Settled b) (hkey : Json.utf8Valid key = true)
    (hlen : data.length ≤ Rec.u64Max) (sched : List Nat) :
    (∀ c, FinishedWith env [(write cfg fl cache algo key data).mapRes f,
        (read cfg cache key').mapRes g] fs sched 1 c →
      c = g (run env (read cfg cache key') fs).1 ∨
      c = g (run env (read cfg cache key') (run env (write cfg fl cache algo key data) fs).2.1).1) ∧
    (∀ c, FinishedWith env [(write cfg fl cache algo key data).mapRes f,
        (read cfg cache key').mapRes g] fs sched 0 c →
      c = f (run env (write cfg fl cache algo key data) fs).1 ∧
      (interleave env [(write cfg fl cache algo key data).mapRes f,
        (read cfg cache key').mapRes g] fs sched).2 =
        (run env (write cfg fl cache algo key data) fs).2.1) :=
  read_write_linearizable_repair cfg env cache f g fl algo key key' data b fs hb hpl
    (fun _ _ => ⟨hkey, hlen, hs⟩) sched

/-- The sum-type reading: `r` is the reader's own result. -/
theorem read_write_total_sum (fl : Flavour) (algo : Algo) (key key' data : Bytes) (b : Bytes)
    (fs : FS) (hb : BucketIs fs (bucketPath cfg cache key') b)
    (hpl : PlainFor cache fs (.ok ((codec cfg).findIn key' ((codec cfg).entries b))))
    (hs : (codec cfg).Settled b) (hkey : Json.utf8Valid key = true)
    (hlen : data.length ≤ Rec.u64Max) (sched : List Nat) (r : Res Bytes)
    (hfin : FinishedWith env [(write cfg fl cache algo key data).mapRes Sum.inl,
      (read cfg cache key').mapRes (Sum.inr : _ → Res Integrity ⊕ Res Bytes)] fs sched 1 (.inr r)) :
    r = (run env (read cfg cache key') fs).1 ∨
    r = (run env (read cfg cache key') (run env (write cfg fl cache algo key data) fs).2.1).1 := by
  rcases (read_write_linearizable_total cfg env cache Sum.inl Sum.inr fl algo key key' data b fs hb
    hpl hs hkey hlen sched).1 _ hfin with h | h
  · exact Or.inl (Sum.inr.inj h)
  · exact Or.inr (Sum.inr.inj h)

/-! ### non-vacuity: the repair case proper -/

/-- A filesystem in the open sub-case, for ANY hash function with digests of at least two bytes
(`hl`): the bucket of the key `"k"` holds exactly one record, mapping it to the integrity of
`data`; the content file at that address is a regular file with OTHER bytes `bad` (corrupt).  The
writer re-writes `data` under the same key: all hypotheses of `read_write_linearizable_total` hold,
`SameAddress` holds, the node at the address is not the bytes being written — and the theorem
applies to the reader finished by the schedule `[1, 1]`. -/
example (fl : Flavour) (algo : Algo) (data bad : Bytes) (hbad : bad ≠ data)
    (hlen : data.length ≤ Rec.u64Max) (hl : 4 ≤ (Bytes.hex (cfg.H algo data)).length) :
    let key : Bytes := [107]
    let b := (codec cfg).frame (mkRec key { sri := some (Sri.compute cfg.H algo data) } 0)
    let cp := addrPath cache algo (Bytes.hex (cfg.H algo data))
    let fs := exFS cfg cache key b cp bad
    SameAddress cfg cache key b (Sri.compute cfg.H algo data) ∧
    contentPath cache (Sri.compute cfg.H algo data) = some cp ∧
    fs.get cp = some (.file bad) ∧ fs.get cp ≠ some (.file data) ∧
    ∃ sched r, FinishedWith env [(write cfg fl cache algo key data).mapRes Sum.inl,
        (read cfg cache key).mapRes (Sum.inr : _ → Res Integrity ⊕ Res Bytes)] fs sched 1 (.inr r) ∧
      (r = (run env (read cfg cache key) fs).1 ∨
       r = (run env (read cfg cache key) (run env (write cfg fl cache algo key data) fs).2.1).1) := by
  intro key b cp fs
  have hkey : Json.utf8Valid key = true := by decide
  have hwfr : (mkRec key { sri := some (Sri.compute cfg.H algo data) } 0).WF :=
    mkRec_wf key _ 0 ⟨hkey, by simp, by simp,
      fun s hs => by cases hs; exact Sri.compute_wf _ _ _, by simp⟩ (Nat.zero_le _)
  have hb0 : b = [] ++ (codec cfg).frame (mkRec key { sri := some (Sri.compute cfg.H algo data) } 0) :=
    rfl
  have hsettled : (codec cfg).Settled b := by
    rw [hb0]; exact (codec_laws cfg).settled_frame [] _ hwfr
  have hentries : (codec cfg).entries b =
      [mkRec key { sri := some (Sri.compute cfg.H algo data) } 0] := by
    rw [hb0, (codec_laws cfg).entries_append_frame [] _ hwfr, ← (codec_laws cfg).settled_nil]
    rfl
  have hcpw : contentPath cache (Sri.compute cfg.H algo data) = some cp := by
    rw [contentPath_compute]
    have : ¬ (Bytes.hex (cfg.H algo data)).length < 4 := by omega
    simp [this, cp]
  have hfind : ∃ m, (codec cfg).findIn key ((codec cfg).entries b) = some m ∧
      m.sri = Sri.compute cfg.H algo data := by
    rw [hentries]
    simp only [Codec.findIn, List.foldl_cons, List.foldl_nil, Codec.findStep, codec, Rec.codec,
      Rec.cls, mkRec, Option.map_some, Sri.parse_print_compute, if_true]
    exact ⟨_, rfl, rfl⟩
  obtain ⟨m, hm, hsri⟩ := hfind
  have hget : fs.get cp = some (.file bad) := by
    show ((FS.empty.put cp (.file bad)).put (bucketPath cfg cache key) (.file b)).get cp = _
    rw [FS.get_put_ne _ _ (bucket_ne_contentPath cfg cache key hcpw).symm, FS.get_put_same]
  refine ⟨⟨m, cp, hm, by rw [hsri]; exact hcpw, hcpw⟩, hcpw, hget, ?_, ?_⟩
  · rw [hget]; intro h; cases h; exact hbad rfl
  · have h := read_finishes cfg env cache (write cfg fl cache algo key data) Sum.inl
      (Sum.inr : _ → Res Integrity ⊕ Res Bytes) key fs
    exact ⟨[1, 1], _, h, read_write_total_sum cfg env cache fl algo key key data b fs
      (exFS_bucketIs cfg cache key b cp bad)
      ((exFS_noLinks cfg cache key b cp bad).plainFor cache _) hsettled hkey hlen [1, 1] _ h⟩

/-- Process 0 run alone to completion: some number of `0`s in the schedule. -/
theorem interleave_run0 {γ : Type} (W R : Prog γ) (s : FS) (rest : List Nat) :
    ∃ n, interleave env [W, R] s (List.replicate n 0 ++ rest) =
      interleave env [.done (run env W s).1, R] (run env W s).2.1 rest := by
  induction W generalizing s with
  | done a => exact ⟨0, rfl⟩
  | sys c k ih =>
    obtain ⟨n, hn⟩ := ih (exec env s c).2 (exec env s c).1
    exact ⟨n + 1, hn⟩

/-- **The interleaving the repair is about exists, from every state and for every writer `W`**:
under the schedule `1, 0, …, 0, 1` the reader looks the key up in the initial state, `W` runs to
completion, then the reader reads the content — its answer is the entry found BEFORE read in the
state AFTER. -/
theorem read_straddles_writer {γ δ : Type} (W : Prog δ) (f : δ → γ) (g : Res Bytes → γ)
    (key' : Bytes) (fs : FS) :
    ∃ sched, FinishedWith env [W.mapRes f, (read cfg cache key').mapRes g] fs sched 1
      (g (run env (readK cfg cache (run env (find cfg cache key') fs).1) (run env W fs).2.1).1) := by
  obtain ⟨n, hn⟩ := interleave_run0 env (W.mapRes f)
    ((readK cfg cache (run env (find cfg cache key') fs).1).mapRes g) fs [1]
  refine ⟨1 :: (List.replicate n 0 ++ [1]), ?_⟩
  unfold FinishedWith
  have h1 : interleave env [W.mapRes f, (read cfg cache key').mapRes g] fs
      (1 :: (List.replicate n 0 ++ [1])) =
      interleave env [W.mapRes f, (readK cfg cache (run env (find cfg cache key') fs).1).mapRes g] fs
        (List.replicate n 0 ++ [1]) := by
    simp only [interleave, List.getElem?_cons_succ, List.getElem?_cons_zero, List.set_cons_succ,
      List.set_cons_zero]
    rw [step_mapRes, read_step]
  rw [h1, hn, (run_mapRes env f W fs).2]
  simp only [interleave, List.getElem?_cons_succ, List.getElem?_cons_zero, List.set_cons_succ,
    List.set_cons_zero]
  rw [(readK_oneShot cfg env cache _).mapRes g _, (run_mapRes env g _ _).1]

/-- … and by `read_write_linearizable_total` that straddling answer — in the sub-case: the
REPAIRED content read under the OLD entry — is `read` alone before or alone after the write. -/
example (fl : Flavour) (algo : Algo) (key key' data : Bytes) (b : Bytes) (fs : FS)
    (hb : BucketIs fs (bucketPath cfg cache key') b)
    (hpl : PlainFor cache fs (.ok ((codec cfg).findIn key' ((codec cfg).entries b))))
    (hs : (codec cfg).Settled b) (hkey : Json.utf8Valid key = true)
    (hlen : data.length ≤ Rec.u64Max) :
    (run env (readK cfg cache (run env (find cfg cache key') fs).1)
        (run env (write cfg fl cache algo key data) fs).2.1).1 =
      (run env (read cfg cache key') fs).1 ∨
    (run env (readK cfg cache (run env (find cfg cache key') fs).1)
        (run env (write cfg fl cache algo key data) fs).2.1).1 =
      (run env (read cfg cache key') (run env (write cfg fl cache algo key data) fs).2.1).1 := by
  obtain ⟨sched, h⟩ := read_straddles_writer cfg env cache (write cfg fl cache algo key data)
    Sum.inl (Sum.inr : _ → Res Integrity ⊕ Res Bytes) key' fs
  exact read_write_total_sum cfg env cache fl algo key key' data b fs hb hpl hs hkey hlen sched _ h

/-- … and such hash functions exist (so the example above is not vacuous in `cfg`). -/
example : ∃ cfg : Cfg, ∀ algo data, 4 ≤ (Bytes.hex (cfg.H algo data)).length :=
  ⟨{ H := fun _ _ => [0, 0] }, fun _ _ => by rw [Bytes.hex_length]; exact Nat.le_refl 4⟩

end LinearizeRepair
end Cacache

namespace AxiomCheckRepair
#print axioms Cacache.B64.encode_of_decode
#print axioms Cacache.check_of_same_address
#print axioms Cacache.LinearizeRepair.writeStream_walk2
#print axioms Cacache.LinearizeRepair.wclose_phase
#print axioms Cacache.LinearizeRepair.writeStream_phase
#print axioms Cacache.LinearizeRepair.writeStream_final_bucket
#print axioms Cacache.LinearizeRepair.read_after_repair
#print axioms Cacache.LinearizeRepair.read_writeStream_linearizable_repair
#print axioms Cacache.LinearizeRepair.read_write_linearizable_repair
#print axioms Cacache.LinearizeRepair.read_write_linearizable_total
#print axioms Cacache.LinearizeRepair.read_write_total_sum
#print axioms Cacache.LinearizeRepair.read_straddles_writer
end AxiomCheckRepair
