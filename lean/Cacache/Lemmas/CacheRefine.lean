/-
Program-level refinement, part 2: **the content store is a map from addresses to bytes**, and
**the whole cache (index + content store) is a key/value map** — total correctness in the healthy
semantics `Prog.run`, for the real model programs of `Ops.lean`.

* `run_wopen`, `run_wwrite`, `run_wwriteAll`, `run_wclose`, `run_writeStream_phase` — the writer
  phases SUCCEED on a healthy store and do exactly what they should, for every writer shape:
  any flavour, keyed or not, any `WriteOpts` (declared size right, wrong or absent; hence
  memory-mapped — `fallocate` + stores through the mapping, a chunk that overflows the mapping,
  the final cut — or plain), any chunking, empty chunks and the empty write included.
* `HealthyStore`, `absStore`, `store_refines_map` — goal 1: sequences of by-address operations
  (`SOp`: unkeyed `writeStream`, `readHash`, `existsHash`, `removeHash`, for ARBITRARY integrity
  values) answer like the abstract map `Algo → hex → Option Bytes`; no well-formedness condition
  and no collision-freeness needed.  `healthyStore_of_empty_cache`: the empty cache is healthy.
* `Healthy`, `absCache`, `cache_refines_map` — goal 2: sequences of keyed writes, reads by key,
  index operations (`Refine.IOp`) and by-address operations answer like the abstract cache
  (index map over store map).
* `get_returns_last_put` (+ `_data`), `get_ignores_unrelated`, `put_ignores_other_key`,
  `getHash_returns_last_put`, `getHash_never_written`, `read_after_write`,
  `readHash_after_writeHash` — property C02 end to end; `TmpClean`: the temp file is gone.
The only hypothesis on the digest function is `HexLen` (hex digests have ≥ 4 characters — otherwise
`content_path` panics).
-/
import Cacache.Lemmas.Refine
import Cacache.Lemmas.Commit

namespace Cacache.CacheRefine
open Prog Json Refine

/-! ### running programs: projections -/

theorem run_sys_res {α : Type} (env : Env) (c : Call) (k : Ret → Prog α) (fs : FS) :
    (run env (.sys c k) fs).1 = (run env (k (exec env fs c).2) (exec env fs c).1).1 := rfl

theorem run_sys_fs {α : Type} (env : Env) (c : Call) (k : Ret → Prog α) (fs : FS) :
    (run env (.sys c k) fs).2.1 = (run env (k (exec env fs c).2) (exec env fs c).1).2.1 := rfl

theorem run_bind_res {α β : Type} (env : Env) (p : Prog α) (f : α → Prog β) (fs : FS) :
    (run env (Prog.bind p f) fs).1 = (run env (f (run env p fs).1) (run env p fs).2.1).1 := by
  rw [run_bind]

theorem run_bind_fs {α β : Type} (env : Env) (p : Prog α) (f : α → Prog β) (fs : FS) :
    (run env (Prog.bind p f) fs).2.1 = (run env (f (run env p fs).1) (run env p fs).2.1).2.1 := by
  rw [run_bind]

theorem run_done_res {α : Type} (env : Env) (a : α) (fs : FS) : (run env (.done a) fs).1 = a := rfl
theorem run_done_fs {α : Type} (env : Env) (a : α) (fs : FS) : (run env (.done a) fs).2.1 = fs := rfl

/-! ### path shapes -/

variable (cfg : Cfg) (cache : Path)

/-- Every digest prints as at least four hex digits (true of every real digest: the shortest,
XXH3-128, has 32).  Without it `content_path` panics while slicing. -/
def HexLen (cfg : Cfg) : Prop := ∀ a d, 4 ≤ (Bytes.hex (cfg.H a d)).length

theorem area_sep {cache : Path} {top top' : Bytes} {p q : Path} (hne : top ≠ top')
    (hq : InArea cache top q) (hp : InArea cache top' p) : ¬ q <+: p :=
  fun h => hne (inArea_disjoint (inArea_ext hq h) hp)

theorem area_ne {cache : Path} {top top' : Bytes} {p q : Path} (hne : top ≠ top')
    (hq : InArea cache top q) (hp : InArea cache top' p) : q ≠ p :=
  fun h => area_sep hne hq hp (h ▸ List.prefix_refl _)

theorem tmpDir_ne_nil : cache ++ [dTmp] ≠ [] := by simp

theorem parent_addr_eq (a : Algo) (h : Bytes) :
    FS.parent (addrPath cache a h) = cache ++ [dContent, a.name, h.take 2, (h.drop 2).take 2] := by
  unfold addrPath FS.parent
  rw [List.dropLast_append_of_ne_nil (by simp)]
  rfl

theorem parent_addr_length (a : Algo) (h : Bytes) :
    (FS.parent (addrPath cache a h)).length = cache.length + 4 := by
  rw [parent_addr_eq]; simp

theorem parent_addr_ne_nil (a : Algo) (h : Bytes) : FS.parent (addrPath cache a h) ≠ [] := by
  intro e; have := parent_addr_length cache a h; rw [e] at this; simp at this

theorem addr_ne_nil (a : Algo) (h : Bytes) : addrPath cache a h ≠ [] := by
  simp [addrPath]

/-- No content address is a prefix of the parent directory of a content address. -/
theorem addr_not_prefix_parent (a a' : Algo) (h h' : Bytes) :
    ¬ addrPath cache a h <+: FS.parent (addrPath cache a' h') := by
  intro hp
  have := hp.length_le
  rw [addrPath_length, parent_addr_length] at this
  omega

theorem addr_not_prefix_tmpDir (a : Algo) (h : Bytes) : ¬ addrPath cache a h <+: cache ++ [dTmp] := by
  intro hp
  have := hp.length_le
  rw [addrPath_length] at this
  simp at this

theorem cache_prefix_addr (a : Algo) (h : Bytes) : cache <+: addrPath cache a h := List.prefix_append _ _

theorem addr_ne_cache (a : Algo) (h : Bytes) : addrPath cache a h ≠ cache := by
  intro e
  have h1 := congrArg List.length e
  rw [addrPath_length] at h1
  omega

theorem tmp_ne_addr (n : Bytes) (a : Algo) (h : Bytes) : (cache ++ [dTmp]) ++ [n] ≠ addrPath cache a h :=
  area_ne dTmp_ne_dContent (inArea_tmp cache n) (inArea_addr cache a h)

theorem tmp_not_prefix_parent_addr (n : Bytes) (a : Algo) (h : Bytes) :
    ¬ (cache ++ [dTmp]) ++ [n] <+: FS.parent (addrPath cache a h) :=
  area_sep dTmp_ne_dContent (inArea_tmp cache n) (inArea_parent_addr cache a h)

theorem tmp_not_prefix_tmpDir (n : Bytes) : ¬ (cache ++ [dTmp]) ++ [n] <+: cache ++ [dTmp] := by
  intro hp
  have := hp.length_le
  simp at this

theorem mkdirLevels_next (fs fs' : FS) (ps : List Path) (n : Nat)
    (h : FS.mkdirLevels fs ps n = .ok fs') : fs'.next = fs.next := by
  induction ps generalizing fs n with
  | nil => simp [FS.mkdirLevels] at h; subst h; rfl
  | cons p ps ih =>
    cases n with
    | zero => simp [FS.mkdirLevels] at h; subst h; rfl
    | succ n =>
      simp only [FS.mkdirLevels] at h
      split at h
      · exact (ih _ _ h).trans rfl
      · exact ih _ _ h
      · exact ih _ _ h
      · cases h

/-! ### total correctness of the writer phases (healthy semantics) -/

/-- How the node at a path may change while directories are being created on the way to `d`. -/
def Grow (fs fs' : FS) (q d : Path) : Prop :=
  fs'.get q = fs.get q ∨ (fs.get q = none ∧ fs'.get q = some .dir ∧ q <+: d)

/-- **Opening a writer succeeds** when `cache/tmp` and its ancestors are absent or directories:
a writer over a fresh temp file is handed out, its invariant holds, and apart from the temp file
paths keep their node or turn from absent into a directory on the way to `cache/tmp`. -/
theorem run_wopen (env : Env) (fl : Flavour) (key : Option Bytes) (o : WriteOpts) (fs : FS)
    (h : ∀ q, q ≠ [] → q <+: cache ++ [dTmp] → NoneOrDir fs q) :
    ∃ w, (run env (wopen cfg fl cache key o) fs).1 = .ok w ∧
      w.cache = cache ∧ w.key = key ∧ w.opts = o ∧ w.written = 0 ∧ w.hashed = [] ∧
      w.algo = o.algo.getD .sha256 ∧ w.tmp = (cache ++ [dTmp]) ++ [tmpName fs.next] ∧
      WInv w (run env (wopen cfg fl cache key o) fs).2.1 ∧
      ∀ q, q ≠ w.tmp → Grow fs (run env (wopen cfg fl cache key o) fs).2.1 q (cache ++ [dTmp]) := by
  obtain ⟨fs1, hm, hdir, hframe, hget⟩ := mkdirP_ok fs (cache ++ [dTmp]) (tmpDir_ne_nil cache) h
  have hisd : fs1.isDir (cache ++ [dTmp]) = true := isDir_of_get hdir
  have hnext : fs1.next = fs.next := mkdirLevels_next _ _ _ _ hm
  have hfr : ∀ q, Grow fs fs1 q (cache ++ [dTmp]) := by
    intro q
    rcases hget q with h1 | ⟨h1, h2⟩
    · exact Or.inl h1
    · refine Or.inr ⟨h1, h2, ?_⟩
      apply Classical.byContradiction
      intro hn
      rw [hframe q hn, h1] at h2
      cases h2
  unfold wopen
  simp only [bind_eq, pure_eq, call, bind_sys, bind_done, run_sys_res, run_sys_fs, exec, hm, hisd,
    if_true, hnext]
  generalize hfs2 : ({ get := (fs1.put (cache ++ [dTmp] ++ [tmpName fs.next]) (Node.file [])).get, dom := (fs1.put (cache ++ [dTmp] ++ [tmpName fs.next]) (Node.file [])).dom, next := fs.next + 1 } : FS) = fs2
  have h2 : ∀ q, fs2.get q = if q = cache ++ [dTmp] ++ [tmpName fs.next] then some (.file []) else fs1.get q := by
    intro q; rw [← hfs2]; simp [FS.put]
  have h2t : fs2.get (cache ++ [dTmp] ++ [tmpName fs.next]) = some (.file []) := by rw [h2]; simp
  have hfr2 : ∀ q, q ≠ cache ++ [dTmp] ++ [tmpName fs.next] → Grow fs fs2 q (cache ++ [dTmp]) := by
    intro q hq; unfold Grow; rw [h2, if_neg hq]; exact hfr q
  have base : ∀ w : Writer, w.cache = cache → w.tmp = cache ++ [dTmp] ++ [tmpName fs.next] → w.hashed = [] →
      w.pos = 0 → w.mmap = none → WInv w fs2 := by
    intro w hc ht hh hp hmm
    refine ⟨⟨_, by rw [ht, hc]⟩, by rw [hp, hh]; rfl, [], by rw [ht]; exact h2t, ?_, ?_, ?_⟩
    · rw [hh]; simp
    · intro _; rw [hp]; rfl
    · intro n hn; rw [hmm] at hn; cases hn
  cases hms : (if fl = Flavour.async ∧ key.isSome = true then none else o.size) with
  | none =>
    simp only [run_done_res, run_done_fs]
    exact ⟨_, rfl, rfl, rfl, rfl, rfl, rfl, rfl, rfl, base _ rfl rfl rfl rfl rfl, hfr2⟩
  | some n =>
    simp only
    by_cases hb : 0 < n ∧ n ≤ cfg.maxMmap
    · have hn0 : n ≠ 0 := by omega
      have hlt : ([] : Bytes).length < n := by simpa using hb.1
      simp only [hb, and_self, if_true, run_sys_res, run_sys_fs, exec, h2t, hn0, if_false, hlt,
        run_done_res, run_done_fs]
      refine ⟨_, rfl, rfl, rfl, rfl, rfl, rfl, rfl, rfl, ⟨⟨_, rfl⟩, rfl, _, FS.get_put_same _ _ _, ?_, ?_, ?_⟩, ?_⟩
      · simp
      · intro h; cases h
      · intro m hm'; cases hm'; simp [zeros]
      · intro q hq
        unfold Grow
        rw [FS.get_put_ne _ _ hq]
        exact hfr2 q hq
    · simp only [hb, if_false, run_done_res, run_done_fs]
      exact ⟨_, rfl, rfl, rfl, rfl, rfl, rfl, rfl, rfl, base _ rfl rfl rfl rfl rfl, hfr2⟩

/-- What one successful `write` call leaves behind. -/
def WroteOne (w : Writer) (d : Bytes) (fs : FS) (r : Except EK (Writer × Nat)) (fs' : FS) : Prop :=
  ∃ w', r = .ok (w', d.length) ∧ w.Same w' ∧ WInv w' fs' ∧ w'.hashed = w.hashed ++ d ∧
    w'.written = w.written + d.length ∧ w'.opts = w.opts ∧ w'.algo = w.algo ∧
    ∀ q, q ≠ w.tmp → fs'.get q = fs.get q

theorem run_plainWrite (env : Env) (w : Writer) (d : Bytes) (fs : FS) (hi : WInv w fs)
    (hm : w.mmap = none) :
    WroteOne w d fs (run env (plainWrite w d) fs).1 (run env (plainWrite w d) fs).2.1 := by
  obtain ⟨f, hf, htake, hlen, _⟩ := hi.file
  have hfl : f.length = w.pos := hlen hm
  have hfeq : f = w.hashed := by rw [← htake, ← hfl, List.take_length]
  unfold plainWrite WroteOne
  simp only [bind_eq, pure_eq, call, bind_sys, bind_done, run_sys_res, run_sys_fs, exec, hf,
    run_done_res, run_done_fs]
  refine ⟨_, rfl, ⟨rfl, rfl, rfl⟩, ⟨hi.ok, ?_, _, FS.get_put_same _ _ _, ?_, ?_, ?_⟩, by simp, rfl, rfl, rfl, ?_⟩
  · simp [hi.pos]
  · show List.take (w.pos + d.length) (spliceAt f w.pos d) = w.hashed ++ List.take d.length d
    rw [← hfl, spliceAt_plain, hfeq, List.take_length, ← List.length_append, List.take_length]
  · intro _
    show (spliceAt f w.pos d).length = w.pos + d.length
    rw [← hfl, spliceAt_plain, List.length_append]
  · intro m hm'; rw [hm] at hm'; cases hm'
  · intro q hq; exact FS.get_put_ne _ _ hq

/-- **One `write` call succeeds** on a writer whose invariant holds: all of the data is taken,
the invariant holds again, only the temp file changes. -/
theorem run_wwrite (env : Env) (w : Writer) (d : Bytes) (fs : FS) (hi : WInv w fs) :
    WroteOne w d fs (run env (wwrite w d) fs).1 (run env (wwrite w d) fs).2.1 := by
  obtain ⟨f, hf, htake, hlen0, hlenS⟩ := hi.file
  unfold wwrite
  split
  · rename_i n hm
    obtain ⟨hfl, hpn⟩ := hlenS n hm
    split
    · rename_i hfit
      unfold WroteOne
      simp only [bind_eq, pure_eq, call, bind_sys, bind_done, run_sys_res, run_sys_fs, exec, hf,
        run_done_res, run_done_fs]
      refine ⟨_, rfl, ⟨rfl, rfl, rfl⟩, ⟨hi.ok, ?_, _, FS.get_put_same _ _ _, ?_, ?_, ?_⟩, rfl, rfl, rfl, rfl, ?_⟩
      · simp [hi.pos]
      · show List.take (w.pos + d.length) _ = _
        rw [spliceAt_take f d w.pos (by omega), htake]
      · intro h; rw [hm] at h; cases h
      · intro m hm'
        rw [hm] at hm'; cases hm'
        exact ⟨by rw [spliceAt_length f d w.pos (by omega)]; exact hfl, hfit⟩
      · intro q hq; exact FS.get_put_ne _ _ hq
    · simp only [bind_eq, pure_eq, call, bind_sys, bind_done, run_sys_res, run_sys_fs, exec, hf]
      have hi1 : WInv { w with mmap := none } (fs.put w.tmp (.file (f.take w.pos))) := by
        refine ⟨hi.ok, hi.pos, _, FS.get_put_same _ _ _, ?_, ?_, ?_⟩
        · show List.take w.pos (List.take w.pos f) = w.hashed
          rw [List.take_take, Nat.min_self, htake]
        · intro _; simp; omega
        · intro m hm'; cases hm'
      obtain ⟨w', h1, h2, h3, h4, h5, h6, h7, h8⟩ := run_plainWrite env { w with mmap := none } d _ hi1 rfl
      refine ⟨w', h1, h2, h3, h4, h5, h6, h7, ?_⟩
      intro q hq
      rw [h8 q hq, FS.get_put_ne _ _ hq]
  · rename_i hm
    exact run_plainWrite env w d fs hi hm

/-- What feeding a list of chunks leaves behind. -/
def WroteAll (w : Writer) (ds : List Bytes) (fs : FS) (r : Except EK Writer) (fs' : FS) : Prop :=
  ∃ w', r = .ok w' ∧ w.Same w' ∧ WInv w' fs' ∧ w'.hashed = w.hashed ++ ds.flatten ∧
    w'.written = w.written + ds.flatten.length ∧ w'.opts = w.opts ∧ w'.algo = w.algo ∧
    ∀ q, q ≠ w.tmp → fs'.get q = fs.get q

/-- **Feeding any list of chunks succeeds**: everything is hashed and stored in the temp file,
nothing else changes. -/
theorem run_wwriteAll (env : Env) (w : Writer) (ds : List Bytes) (fs : FS) (hi : WInv w fs) :
    WroteAll w ds fs (run env (wwriteAll w ds) fs).1 (run env (wwriteAll w ds) fs).2.1 := by
  induction ds generalizing w fs with
  | nil =>
    unfold wwriteAll
    exact ⟨w, rfl, ⟨rfl, rfl, rfl⟩, hi, by simp, by simp, rfl, rfl, fun _ _ => rfl⟩
  | cons d ds ih =>
    unfold wwriteAll
    split
    · rename_i hemp
      have hd : d = [] := by simpa using hemp
      obtain ⟨w', h1, h2, h3, h4, h5, h6, h7, h8⟩ := ih w fs hi
      exact ⟨w', h1, h2, h3, by simp [h4, hd], by simp [h5, hd], h6, h7, h8⟩
    · simp only [bind_eq, pure_eq, run_bind_res, run_bind_fs]
      obtain ⟨w1, g1, g2, g3, g4, g5, g6, g7, g8⟩ := run_wwrite env w d fs hi
      rw [g1]
      simp only
      obtain ⟨w', h1, h2, h3, h4, h5, h6, h7, h8⟩ := ih w1 _ g3
      refine ⟨w', h1, ⟨h2.1.trans g2.1, h2.2.1.trans g2.2.1, h2.2.2.trans g2.2.2⟩, h3, ?_, ?_,
        h6.trans g6, h7.trans g7, ?_⟩
      · rw [h4, g4]; simp
      · rw [h5, g5]; simp; omega
      · intro q hq
        rw [h8 q (by rw [g2.2.1]; exact hq), g8 q hq]

theorem exec_rename_ok (env : Env) (fs : FS) (src dst : Path) (b : Bytes)
    (hs : fs.get src = some (.file b)) (hp : fs.isDir (FS.parent dst) = true)
    (hd : fs.get dst ≠ some .dir) :
    exec env fs (.rename src dst) = ((fs.del src).put dst (.file b), .unit) := by
  have : (fs.get dst == some Node.dir) = false := by
    cases hx : fs.get dst with
    | none => rfl
    | some n =>
      cases n with
      | dir => rw [hx] at hd; exact absurd rfl hd
      | file _ => rfl
      | link _ => rfl
  simp [exec, hs, hp, this]

/-- What a successful publication leaves behind: the address holds the bytes, the temp file is
gone, every other path keeps its node or turns from absent into a directory on the way to the
address. -/
def Published (w : Writer) (addr : Path) (fs : FS) (r : Res Integrity) (fs' : FS) : Prop :=
  r = .ok (Sri.compute cfg.H w.algo w.hashed) ∧ fs'.get addr = some (.file w.hashed) ∧
    fs'.get w.tmp = none ∧ ∀ q, q ≠ w.tmp → q ≠ addr → Grow fs fs' q (FS.parent addr)

theorem Grow.of_eq {fs0 fs fs' : FS} {q d : Path} (h : Grow fs fs' q d) (he : fs.get q = fs0.get q) :
    Grow fs0 fs' q d := by
  unfold Grow at *; rw [← he]; exact h

/-- **Closing a writer succeeds** when the directories on the way to the address are absent or
directories and the address itself is not a directory: the temp file is renamed to the address of
what was hashed (replacing whatever file or link was there). -/
theorem run_wclose (env : Env) (w : Writer) (fs : FS) (hc : w.cache = cache) (hi : WInv w fs)
    (hl : 4 ≤ (Bytes.hex (cfg.H w.algo w.hashed)).length)
    (hd : ∀ q, q ≠ [] → q <+: FS.parent (addrPath cache w.algo (Bytes.hex (cfg.H w.algo w.hashed))) →
      NoneOrDir fs q)
    (hf : fs.get (addrPath cache w.algo (Bytes.hex (cfg.H w.algo w.hashed))) ≠ some .dir) :
    Published cfg w (addrPath cache w.algo (Bytes.hex (cfg.H w.algo w.hashed))) fs
      (run env (wclose cfg w) fs).1 (run env (wclose cfg w) fs).2.1 := by
  obtain ⟨f, hf0, htake, hlen0, hlenS⟩ := hi.file
  obtain ⟨tn, htn⟩ := hi.ok
  rw [hc] at htn
  have hlt : ¬ (Bytes.hex (cfg.H w.algo w.hashed)).length < 4 := by omega
  have publish : ∀ fsx, fsx.get w.tmp = some (.file w.hashed) → (∀ q, q ≠ w.tmp → fsx.get q = fs.get q) →
      Published cfg w (addrPath cache w.algo (Bytes.hex (cfg.H w.algo w.hashed))) fs
        (run env (.sys (.mkdirP (FS.parent (addrPath cache w.algo (Bytes.hex (cfg.H w.algo w.hashed)))))
            (fun r => match r with
              | .err e => Prog.bind (dropTmp w.tmp) (fun _ => .done (Except.error (Err.io e)))
              | _ => .sys (.rename w.tmp (addrPath cache w.algo (Bytes.hex (cfg.H w.algo w.hashed))))
                  (fun r => match r with
                    | .err e => Prog.bind (dropTmp w.tmp) (fun _ => .sys (.existsF (addrPath cache w.algo (Bytes.hex (cfg.H w.algo w.hashed)))) (fun r =>
                        match r with
                        | .bool true => .done (Except.ok (Sri.compute cfg.H w.algo w.hashed))
                        | _ => .done (Except.error (Err.io e))))
                    | _ => .done (Except.ok (Sri.compute cfg.H w.algo w.hashed))))) fsx).1
        (run env (.sys (.mkdirP (FS.parent (addrPath cache w.algo (Bytes.hex (cfg.H w.algo w.hashed)))))
            (fun r => match r with
              | .err e => Prog.bind (dropTmp w.tmp) (fun _ => .done (Except.error (Err.io e)))
              | _ => .sys (.rename w.tmp (addrPath cache w.algo (Bytes.hex (cfg.H w.algo w.hashed))))
                  (fun r => match r with
                    | .err e => Prog.bind (dropTmp w.tmp) (fun _ => .sys (.existsF (addrPath cache w.algo (Bytes.hex (cfg.H w.algo w.hashed)))) (fun r =>
                        match r with
                        | .bool true => .done (Except.ok (Sri.compute cfg.H w.algo w.hashed))
                        | _ => .done (Except.error (Err.io e))))
                    | _ => .done (Except.ok (Sri.compute cfg.H w.algo w.hashed))))) fsx).2.1 := by
    intro fsx hgx hsame
    have hta : w.tmp ≠ addrPath cache w.algo (Bytes.hex (cfg.H w.algo w.hashed)) := by
      rw [htn]; exact tmp_ne_addr cache tn _ _
    have hdx : ∀ q, q ≠ [] → q <+: FS.parent (addrPath cache w.algo (Bytes.hex (cfg.H w.algo w.hashed))) →
        NoneOrDir fsx q := by
      intro q hq hp
      have : q ≠ w.tmp := by
        intro e; rw [e, htn] at hp; exact tmp_not_prefix_parent_addr cache tn _ _ hp
      unfold NoneOrDir; rw [hsame q this]; exact hd q hq hp
    obtain ⟨fs1, hm, hdir, hframe, hget⟩ := mkdirP_ok fsx _ (parent_addr_ne_nil cache _ _) hdx
    have h1t : fs1.get w.tmp = some (.file w.hashed) := by
      rcases hget w.tmp with h1 | ⟨h1, _⟩
      · rw [h1]; exact hgx
      · rw [hgx] at h1; cases h1
    have h1a : fs1.get (addrPath cache w.algo (Bytes.hex (cfg.H w.algo w.hashed))) ≠ some .dir := by
      rw [hframe _ (addr_not_prefix_parent cache _ _ _ _), hsame _ hta.symm]; exact hf
    have hren := exec_rename_ok env fs1 w.tmp _ w.hashed h1t (isDir_of_get hdir) h1a
    have hmk : exec env fsx (.mkdirP (FS.parent (addrPath cache w.algo (Bytes.hex (cfg.H w.algo w.hashed))))) =
        (fs1, .unit) := by simp [exec, hm]
    simp only [run_sys_res, run_sys_fs, hmk, hren, run_done_res, run_done_fs]
    refine ⟨rfl, FS.get_put_same _ _ _, ?_, ?_⟩
    · rw [FS.get_put_ne _ _ hta, FS.get_del_same]
    · intro q hq1 hq2
      unfold Grow
      rw [← hsame q hq1, FS.get_put_ne _ _ hq2, FS.get_del_ne _ hq1]
      rcases hget q with h1 | ⟨h1, h2⟩
      · exact Or.inl h1
      · refine Or.inr ⟨h1, h2, ?_⟩
        apply Classical.byContradiction
        intro hn
        rw [hframe q hn, h1] at h2
        cases h2
  unfold wclose
  dsimp only
  rw [contentPath_compute, hc]
  simp only [hlt, if_false]
  simp only [bind_eq, pure_eq, call, bind_sys, bind_done]
  split
  · rename_i n hm
    obtain ⟨hfl, hpn⟩ := hlenS n hm
    split
    · simp only [bind_sys, run_sys_res, run_sys_fs]
      simp only [exec, hf0]
      apply publish
      · rw [FS.get_put_same, htake]
      · intro q hq; exact FS.get_put_ne _ _ hq
    · rename_i hnl
      simp only [bind_done]
      have : f = w.hashed := by
        have hp : w.pos = n := by omega
        rw [← htake, hp, ← hfl, List.take_length]
      rw [this] at hf0
      exact publish fs hf0 (fun _ _ => rfl)
  · rename_i hm
    simp only [bind_done]
    have : f = w.hashed := by rw [← htake, ← hlen0 hm, List.take_length]
    rw [this] at hf0
    exact publish fs hf0 (fun _ _ => rfl)

/-! ### the content-store invariant -/

/-- A **healthy content store**: what total correctness of the by-address operations needs in the
healthy semantics `exec`, and what they preserve:
* `valid` — every regular file at a content address holds bytes whose digest is the address
  (`ContentValid`, the crash-safe invariant of C01/C07);
* `tmpDirs` — `cache/tmp` and all its ancestors (`cache` and above) are absent or directories, so
  `create_dir_all(cache/tmp)` succeeds and a temp file can be created in it;
* `dirs` — every ancestor of every content address is absent or a directory, so
  `create_dir_all` of the address's parent succeeds and `rename` finds its directory;
* `files` — every content address is absent or a regular file (no directory, which would make
  `rename` fail, and no symlink, which `link_to` creates and is outside this theorem).
Nothing is demanded of the index area, of the files inside `cache/tmp` (left-over temp files are
harmless: `mkTemp` picks its own name) or of foreign paths. -/
structure HealthyStore (fs : FS) : Prop where
  valid : ContentValid cfg cache fs
  tmpDirs : ∀ q, q ≠ [] → q <+: cache ++ [dTmp] → NoneOrDir fs q
  dirs : ∀ a hexd q, 4 ≤ hexd.length → q ≠ [] → q <+: FS.parent (addrPath cache a hexd) → NoneOrDir fs q
  files : ∀ a hexd, 4 ≤ hexd.length →
    fs.get (addrPath cache a hexd) = none ∨ ∃ b, fs.get (addrPath cache a hexd) = some (.file b)

/-- The abstract content store: what each address (algorithm, hex digest) holds. -/
abbrev AbsStore := Algo → Bytes → Option Bytes

/-- Concrete → abstract: the bytes of the regular file at the address, if there is one. -/
def absStore (fs : FS) : AbsStore := fun a hexd =>
  match fs.get (addrPath cache a hexd) with
  | some (.file b) => some b
  | _ => none

/-- **Non-vacuity / initial state**: an empty cache is a healthy store — the cache directory and
its ancestors are absent or directories and nothing exists below it. -/
theorem healthyStore_of_empty_cache (fs : FS)
    (hanc : ∀ q, q ≠ [] → q <+: cache → NoneOrDir fs q)
    (hbelow : ∀ q, cache <+: q → q ≠ cache → fs.get q = none) :
    HealthyStore cfg cache fs := by
  have key : ∀ q l, q ≠ [] → q <+: cache ++ l → NoneOrDir fs q := by
    intro q l hq hpre
    rcases List.prefix_or_prefix_of_prefix hpre (List.prefix_append cache l) with h1 | h1
    · exact hanc q hq h1
    · by_cases e : q = cache
      · subst e; exact hanc q hq (List.prefix_refl _)
      · exact Or.inl (hbelow q h1 e)
  have habs : ∀ a hexd, fs.get (addrPath cache a hexd) = none := by
    intro a hexd
    exact hbelow _ (cache_prefix_addr cache a hexd) (addr_ne_cache cache a hexd)
  refine ⟨?_, ?_, ?_, ?_⟩
  · intro a hexd b _ hg; rw [habs] at hg; cases hg
  · intro q hq hp; exact key q _ hq hp
  · intro a hexd q _ hq hp
    rw [parent_addr_eq] at hp
    exact key q _ hq hp
  · intro a hexd _; exact Or.inl (habs a hexd)

example : HealthyStore cfg cache FS.empty :=
  healthyStore_of_empty_cache cfg cache FS.empty (fun _ _ _ => Or.inl rfl) (fun _ _ _ => rfl)

theorem absStore_of_empty_cache (fs : FS) (hbelow : ∀ q, cache <+: q → q ≠ cache → fs.get q = none) :
    absStore cache fs = fun _ _ => none := by
  funext a hexd
  unfold absStore
  have : fs.get (addrPath cache a hexd) = none :=
    hbelow _ (cache_prefix_addr cache a hexd) (addr_ne_cache cache a hexd)
  rw [this]

/-- **Preservation, in general**: a state change that (A) leaves every content address alone,
empties it, or puts a regular file there whose digest is the address, and (B) leaves every
ancestor of `cache/tmp` and of the content addresses alone or turns it from absent into a
directory, keeps the store healthy. -/
theorem HealthyStore.step {cfg : Cfg} {cache : Path} {fs fs' : FS} (h : HealthyStore cfg cache fs)
    (haddr : ∀ a hexd, 4 ≤ hexd.length →
      fs'.get (addrPath cache a hexd) = fs.get (addrPath cache a hexd) ∨
      fs'.get (addrPath cache a hexd) = none ∨
      ∃ b, fs'.get (addrPath cache a hexd) = some (.file b) ∧ hexd = Bytes.hex (cfg.H a b))
    (hdir : ∀ q, (q <+: cache ++ [dTmp] ∨ ∃ a hexd, q <+: FS.parent (addrPath cache a hexd)) →
      fs'.get q = fs.get q ∨ (fs.get q = none ∧ fs'.get q = some .dir)) :
    HealthyStore cfg cache fs' := by
  have nd : ∀ q, (q <+: cache ++ [dTmp] ∨ ∃ a hexd, q <+: FS.parent (addrPath cache a hexd)) →
      NoneOrDir fs q → NoneOrDir fs' q := by
    intro q hq hn
    rcases hdir q hq with h1 | ⟨_, h2⟩
    · unfold NoneOrDir; rw [h1]; exact hn
    · exact Or.inr h2
  refine ⟨?_, ?_, ?_, ?_⟩
  · intro a hexd b hl hg
    rcases haddr a hexd hl with h1 | h1 | ⟨b', h1, h2⟩
    · rw [h1] at hg; exact h.valid a hexd b hl hg
    · rw [h1] at hg; cases hg
    · rw [h1] at hg; cases hg; exact h2
  · intro q hq hp; exact nd q (Or.inl hp) (h.tmpDirs q hq hp)
  · intro a hexd q hl hq hp; exact nd q (Or.inr ⟨a, hexd, hp⟩) (h.dirs a hexd q hl hq hp)
  · intro a hexd hl
    rcases haddr a hexd hl with h1 | h1 | ⟨b', h1, _⟩
    · rw [h1]; exact h.files a hexd hl
    · exact Or.inl h1
    · exact Or.inr ⟨b', h1⟩

/-! ### a whole streamed write, up to the index step -/

/-- What the content phase of a write (open, feed, publish) does to the filesystem: the address
of the data holds the data, the temp file `cache/tmp/#<next>` is gone, and every other path keeps
its node or turns from absent into a directory on the way to `cache/tmp` or to the address. -/
def PutFrame (fs fs' : FS) (a : Algo) (data : Bytes) : Prop :=
  fs'.get (addrPath cache a (Bytes.hex (cfg.H a data))) = some (.file data) ∧
  fs'.get ((cache ++ [dTmp]) ++ [tmpName fs.next]) = none ∧
  ∀ q, q ≠ (cache ++ [dTmp]) ++ [tmpName fs.next] → q ≠ addrPath cache a (Bytes.hex (cfg.H a data)) →
    fs'.get q = fs.get q ∨ (fs.get q = none ∧ fs'.get q = some .dir ∧
      (q <+: cache ++ [dTmp] ∨ q <+: FS.parent (addrPath cache a (Bytes.hex (cfg.H a data)))))

/-- What a write leaves in `cache/tmp`: its own temp file `#<next>` is gone (renamed to the
address), every other entry of `cache/tmp` is as it was. -/
def TmpClean (fs fs' : FS) : Prop :=
  fs'.get ((cache ++ [dTmp]) ++ [tmpName fs.next]) = none ∧
  ∀ n, n ≠ tmpName fs.next → fs'.get ((cache ++ [dTmp]) ++ [n]) = fs.get ((cache ++ [dTmp]) ++ [n])

theorem putFrame_tmp {fs fs' : FS} {a : Algo} {data : Bytes} (hp : PutFrame cfg cache fs fs' a data) :
    TmpClean cache fs fs' := by
  obtain ⟨_, ht, hfr⟩ := hp
  refine ⟨ht, ?_⟩
  intro n hn
  have h1 : (cache ++ [dTmp]) ++ [n] ≠ (cache ++ [dTmp]) ++ [tmpName fs.next] := by
    intro e
    have := List.append_cancel_left e
    simp at this
    exact hn this
  rcases hfr _ h1 (tmp_ne_addr cache n _ _) with g | ⟨_, _, g | g⟩
  · exact g
  · exact absurd g (tmp_not_prefix_tmpDir cache n)
  · exact absurd g (tmp_not_prefix_parent_addr cache n _ _)

/-- The rest of `commit` after the publication: the declaration checks, then the index step. -/
def commitTail (w : Writer) (wsri : Integrity) : Prog (Res Integrity) :=
  match commitChecks w wsri with
  | .error e => pure (.error e)
  | .ok recorded => wcommitIndex cfg w wsri recorded

theorem run_wcommit (env : Env) (w : Writer) (fs : FS) (wsri : Integrity)
    (h : (run env (wclose cfg w) fs).1 = .ok wsri) :
    (run env (wcommit cfg w) fs).1 = (run env (commitTail cfg w wsri) (run env (wclose cfg w) fs).2.1).1 ∧
    (run env (wcommit cfg w) fs).2.1 = (run env (commitTail cfg w wsri) (run env (wclose cfg w) fs).2.1).2.1 := by
  unfold wcommit wcommitCheck commitTail
  simp only [bind_eq, pure_eq, run_bind_res, run_bind_fs, h]
  cases commitChecks w wsri with
  | error e => exact ⟨rfl, rfl⟩
  | ok r => exact ⟨rfl, rfl⟩

/-- **The content phase of a streamed write succeeds on a healthy store**, for every flavour,
keyed or not, every option record and every chunking: the run of `writeStream` is the run of the
commit tail (declaration checks + index step) from a state in which the data is published. -/
theorem run_writeStream_phase (env : Env) (fl : Flavour) (key : Option Bytes) (o : WriteOpts)
    (chunks : List Bytes) (fs : FS) (h : HealthyStore cfg cache fs) (hl : HexLen cfg) :
    ∃ w fs3,
      (run env (writeStream cfg cache fl key o chunks) fs).1 =
        (run env (commitTail cfg w (Sri.compute cfg.H (o.algo.getD .sha256) chunks.flatten)) fs3).1 ∧
      (run env (writeStream cfg cache fl key o chunks) fs).2.1 =
        (run env (commitTail cfg w (Sri.compute cfg.H (o.algo.getD .sha256) chunks.flatten)) fs3).2.1 ∧
      w.cache = cache ∧ w.key = key ∧ w.opts = o ∧ w.written = chunks.flatten.length ∧
      PutFrame cfg cache fs fs3 (o.algo.getD .sha256) chunks.flatten := by
  obtain ⟨w, r1, c1, k1, o1, wr1, hh1, al1, t1, inv1, fr1⟩ := run_wopen cfg cache env fl key o fs h.tmpDirs
  obtain ⟨w', r2, same2, inv2, hh2, wr2, o2, al2, fr2⟩ := run_wwriteAll env w chunks _ inv1
  have hc' : w'.cache = cache := same2.1.trans c1
  have ht' : w'.tmp = (cache ++ [dTmp]) ++ [tmpName fs.next] := same2.2.1.trans t1
  have hhash : w'.hashed = chunks.flatten := by rw [hh2, hh1]; rfl
  have halg : w'.algo = o.algo.getD .sha256 := al2.trans al1
  have hwr : w'.written = chunks.flatten.length := by rw [wr2, wr1]; simp
  -- the state after feeding agrees with the state after opening except at the temp file
  have fr12 : ∀ q, q ≠ (cache ++ [dTmp]) ++ [tmpName fs.next] →
      Grow fs (run env (wwriteAll w chunks) (run env (wopen cfg fl cache key o) fs).2.1).2.1 q (cache ++ [dTmp]) := by
    intro q hq
    have hq' : q ≠ w.tmp := by rw [t1]; exact hq
    have := fr1 q hq'
    unfold Grow at *
    rw [fr2 q hq']
    exact this
  have hlen := hl w'.algo w'.hashed
  have hd2 : ∀ q, q ≠ [] → q <+: FS.parent (addrPath cache w'.algo (Bytes.hex (cfg.H w'.algo w'.hashed))) →
      NoneOrDir (run env (wwriteAll w chunks) (run env (wopen cfg fl cache key o) fs).2.1).2.1 q := by
    intro q hq hp
    have hne : q ≠ (cache ++ [dTmp]) ++ [tmpName fs.next] := by
      intro e; rw [e] at hp; exact tmp_not_prefix_parent_addr cache _ _ _ hp
    rcases fr12 q hne with h1 | ⟨_, h2, _⟩
    · unfold NoneOrDir; rw [h1]; exact h.dirs _ _ q hlen hq hp
    · exact Or.inr h2
  have hf2 : (run env (wwriteAll w chunks) (run env (wopen cfg fl cache key o) fs).2.1).2.1.get
      (addrPath cache w'.algo (Bytes.hex (cfg.H w'.algo w'.hashed))) ≠ some .dir := by
    have hne : addrPath cache w'.algo (Bytes.hex (cfg.H w'.algo w'.hashed)) ≠ (cache ++ [dTmp]) ++ [tmpName fs.next] :=
      (tmp_ne_addr cache _ _ _).symm
    rcases fr12 _ hne with h1 | ⟨_, _, h3⟩
    · rw [h1]
      rcases h.files _ _ hlen with h0 | ⟨b, h0⟩
      · rw [h0]; intro e; cases e
      · rw [h0]; intro e; cases e
    · exact absurd h3 (addr_not_prefix_tmpDir cache _ _)
  obtain ⟨r3, a3, t3, fr3⟩ := run_wclose cfg cache env w' _ hc' inv2 hlen hd2 hf2
  obtain ⟨c1', c2'⟩ := run_wcommit cfg env w' _ _ r3
  rw [halg, hhash] at c1' c2' a3 fr3
  rw [ht'] at t3 fr3
  refine ⟨w', _, ?_, ?_, hc', same2.2.2.trans k1, o2.trans o1, hwr, a3, t3, ?_⟩
  · unfold writeStream
    simp only [bind_eq, pure_eq, run_bind_res, r1, r2]
    exact c1'
  · unfold writeStream
    simp only [bind_eq, pure_eq, run_bind_fs, r1, r2]
    exact c2'
  · intro q hq1 hq2
    rcases fr3 q hq1 hq2 with g1 | ⟨g1, g2, g3⟩
    · rcases fr12 q hq1 with f1 | ⟨f1, f2, f3⟩
      · left; rw [g1, f1]
      · right; exact ⟨f1, by rw [g1, f2], Or.inl f3⟩
    · rcases fr12 q hq1 with f1 | ⟨f1, f2, f3⟩
      · right; exact ⟨by rw [← f1]; exact g1, g2, Or.inr g3⟩
      · rw [f2] at g1; cases g1

/-! ### addresses of general integrity values, declaration checks -/

/-- The address an integrity value resolves to (`content_path`): algorithm and hex digest of its
first hash; `none` = the call panics (no hash, digest text not base64, hex shorter than 4). -/
def addrOf (sri : Integrity) : Option (Algo × Bytes) :=
  match Sri.toHex sri with
  | none => none
  | some (a, hex) => if hex.length < 4 then none else some (a, hex)

theorem contentPath_addrOf (sri : Integrity) :
    contentPath cache sri = (addrOf sri).map (fun x => addrPath cache x.1 x.2) := by
  unfold contentPath addrOf
  cases Sri.toHex sri with
  | none => rfl
  | some x =>
    obtain ⟨a, hex⟩ := x
    simp only
    split <;> rfl

theorem addrOf_len {sri : Integrity} {a : Algo} {h : Bytes} (e : addrOf sri = some (a, h)) :
    4 ≤ h.length := by
  unfold addrOf at e
  split at e
  · cases e
  · split at e
    · cases e
    · cases e; omega

theorem addrOf_compute (hl : HexLen cfg) (a : Algo) (d : Bytes) :
    addrOf (Sri.compute cfg.H a d) = some (a, Bytes.hex (cfg.H a d)) := by
  have : ¬ (Bytes.hex (cfg.H a d)).length < 4 := by have := hl a d; omega
  unfold addrOf Sri.compute Sri.toHex
  simp [B64.decode_encode, this]

/-- The checks of `commit` as a function of the options, the byte count and the computed
integrity: declared integrity first, then declared size. -/
def declCheck (o : WriteOpts) (written : Nat) (wsri : Integrity) : Res Integrity :=
  match o.sri with
  | some s =>
    if (Sri.declaredOk s wsri).isNone then .error .integrity
    else (match o.size with
      | some n => if n ≠ written then .error (.size n written) else .ok s
      | none => .ok s)
  | none =>
    (match o.size with
      | some n => if n ≠ written then .error (.size n written) else .ok wsri
      | none => .ok wsri)

theorem commitChecks_eq (w : Writer) (wsri : Integrity) :
    commitChecks w wsri = declCheck w.opts w.written wsri := by
  unfold commitChecks commitChecks.sizeCheck declCheck
  rfl

/-- With no declared integrity the check is the size check. -/
theorem declCheck_none {o : WriteOpts} (h : o.sri = none) (written : Nat) (wsri : Integrity) :
    declCheck o written wsri =
      match o.size with
      | some n => if n ≠ written then .error (.size n written) else .ok wsri
      | none => .ok wsri := by
  unfold declCheck; rw [h]

/-! ### goal 1: the content store refines a map from addresses to bytes -/

/-- Update of the abstract store at one address. -/
def AbsStore.set (m : AbsStore) (a : Algo) (h : Bytes) (v : Option Bytes) : AbsStore :=
  fun a' h' => if a' = a ∧ h' = h then v else m a' h'

/-- The content phase of a write keeps the store healthy and maps the address to the data. -/
theorem putFrame_store {fs fs' : FS} {a : Algo} {data : Bytes} (h : HealthyStore cfg cache fs)
    (hp : PutFrame cfg cache fs fs' a data) :
    HealthyStore cfg cache fs' ∧
      absStore cache fs' = (absStore cache fs).set a (Bytes.hex (cfg.H a data)) (some data) := by
  obtain ⟨hput, _, hfr⟩ := hp
  constructor
  · apply h.step
    · intro a' hexd' hl'
      by_cases e : addrPath cache a' hexd' = addrPath cache a (Bytes.hex (cfg.H a data))
      · obtain ⟨rfl, rfl⟩ := addrPath_injective e
        exact Or.inr (Or.inr ⟨data, hput, rfl⟩)
      · left
        rcases hfr _ (tmp_ne_addr cache _ _ _).symm e with g | ⟨_, _, g3 | g3⟩
        · exact g
        · exact absurd g3 (addr_not_prefix_tmpDir cache _ _)
        · exact absurd g3 (addr_not_prefix_parent cache _ _ _ _)
    · intro q hq
      have h1 : q ≠ (cache ++ [dTmp]) ++ [tmpName fs.next] := by
        intro e; subst e
        rcases hq with hq | ⟨a', h', hq⟩
        · exact tmp_not_prefix_tmpDir cache _ hq
        · exact tmp_not_prefix_parent_addr cache _ _ _ hq
      have h2 : q ≠ addrPath cache a (Bytes.hex (cfg.H a data)) := by
        intro e; subst e
        rcases hq with hq | ⟨a', h', hq⟩
        · exact addr_not_prefix_tmpDir cache _ _ hq
        · exact addr_not_prefix_parent cache _ _ _ _ hq
      rcases hfr q h1 h2 with g | ⟨g1, g2, _⟩
      · exact Or.inl g
      · exact Or.inr ⟨g1, g2⟩
  · funext a' h'
    unfold absStore AbsStore.set
    by_cases e : a' = a ∧ h' = Bytes.hex (cfg.H a data)
    · obtain ⟨rfl, rfl⟩ := e
      rw [hput]; simp
    · rw [if_neg e]
      dsimp only
      have hne : addrPath cache a' h' ≠ addrPath cache a (Bytes.hex (cfg.H a data)) :=
        fun x => e (addrPath_injective x)
      rcases hfr _ (tmp_ne_addr cache _ _ _).symm hne with g | ⟨g1, g2, _⟩
      · rw [g]
      · rw [g1, g2]

/-- What an unkeyed write answers: the computed integrity if the declarations hold, else their
error (the content is published either way — the checks come after the rename). -/
def putAnswer (o : WriteOpts) (data : Bytes) : Res Integrity :=
  match declCheck o data.length (Sri.compute cfg.H (o.algo.getD .sha256) data) with
  | .error e => .error e
  | .ok _ => .ok (Sri.compute cfg.H (o.algo.getD .sha256) data)

/-- **Total correctness of an unkeyed streamed write on a healthy store** (`write_hash*`,
`WriteOpts::open_hash*` + any `write`s + `commit`): the data is published under its address,
whatever was there before; the answer is the computed integrity (or the declaration error). -/
theorem run_putStream (env : Env) (fl : Flavour) (o : WriteOpts) (chunks : List Bytes) (fs : FS)
    (h : HealthyStore cfg cache fs) (hl : HexLen cfg) :
    (run env (writeStream cfg cache fl none o chunks) fs).1 = putAnswer cfg o chunks.flatten ∧
    PutFrame cfg cache fs (run env (writeStream cfg cache fl none o chunks) fs).2.1
      (o.algo.getD .sha256) chunks.flatten := by
  obtain ⟨w, fs3, e1, e2, _, hk, ho, hw, hp⟩ := run_writeStream_phase cfg cache env fl none o chunks fs h hl
  rw [e1, e2]
  unfold commitTail putAnswer
  rw [commitChecks_eq, ho, hw]
  cases declCheck o chunks.flatten.length (Sri.compute cfg.H (o.algo.getD .sha256) chunks.flatten) with
  | error e => exact ⟨rfl, hp⟩
  | ok r =>
    simp only [wcommitIndex, hk]
    exact ⟨rfl, hp⟩

/-- What a read by address answers, given what the store holds. -/
def getSpec (m : AbsStore) (sri : Integrity) : Res Bytes :=
  match addrOf sri with
  | none => .error .panic
  | some (a, h) =>
    match m a h with
    | some b => if (Sri.check cfg.H sri b).isSome then .ok b else .error .integrity
    | none => .error (.io .notFound)

def hasSpec (m : AbsStore) (sri : Integrity) : Res Bool :=
  match addrOf sri with
  | none => .error .panic
  | some (a, h) => .ok (m a h).isSome

def dropSpec (m : AbsStore) (sri : Integrity) : AbsStore × Res Unit :=
  match addrOf sri with
  | none => (m, .error .panic)
  | some (a, h) =>
    match m a h with
    | some _ => (m.set a h none, .ok ())
    | none => (m, .error (.io .notFound))

/-- **Total correctness of `read` by address on a healthy store**: any integrity value. -/
theorem run_readHash (env : Env) (sri : Integrity) (fs : FS) (h : HealthyStore cfg cache fs) :
    (run env (readHash cfg cache sri) fs).1 = getSpec cfg (absStore cache fs) sri ∧
    (run env (readHash cfg cache sri) fs).2.1 = fs := by
  unfold readHash getSpec
  rw [contentPath_addrOf]
  cases e : addrOf sri with
  | none => exact ⟨rfl, rfl⟩
  | some x =>
    obtain ⟨a, hx⟩ := x
    have hlen := addrOf_len e
    simp only [Option.map_some, bind_eq, pure_eq, call, bind_sys, bind_done, run_sys_res, run_sys_fs, exec]
    unfold absStore
    rcases h.files a hx hlen with h0 | ⟨b, h0⟩
    · rw [readFile_absent (addr_ne_nil cache a hx) h0, h0]
      exact ⟨rfl, rfl⟩
    · rw [readFile_of_file (addr_ne_nil cache a hx) h0, h0]
      simp only
      split <;> exact ⟨rfl, rfl⟩

theorem existsFollow_plain {fs : FS} {p : Path} (hp : p ≠ [])
    (h : fs.get p = none ∨ ∃ b, fs.get p = some (.file b)) :
    fs.existsFollow p = (fs.get p).isSome := by
  unfold FS.existsFollow FS.resolveFuel
  rcases h with h0 | ⟨b, h0⟩
  · simp [FS.resolve, h0, hp]
  · simp [FS.resolve, h0]

theorem run_existsHash (env : Env) (sri : Integrity) (fs : FS) (h : HealthyStore cfg cache fs) :
    (run env (existsHash cache sri) fs).1 = hasSpec (absStore cache fs) sri ∧
    (run env (existsHash cache sri) fs).2.1 = fs := by
  unfold existsHash hasSpec
  rw [contentPath_addrOf]
  cases e : addrOf sri with
  | none => exact ⟨rfl, rfl⟩
  | some x =>
    obtain ⟨a, hx⟩ := x
    have hlen := addrOf_len e
    simp only [Option.map_some, bind_eq, pure_eq, call, bind_sys, bind_done, run_sys_res, run_sys_fs, exec]
    rw [existsFollow_plain (addr_ne_nil cache a hx) (h.files a hx hlen)]
    unfold absStore
    rcases h.files a hx hlen with h0 | ⟨b, h0⟩
    · rw [h0]; exact ⟨rfl, rfl⟩
    · rw [h0]; exact ⟨rfl, rfl⟩

/-- What a removal by address does to the filesystem. -/
theorem run_removeHash (env : Env) (sri : Integrity) (fs : FS) (h : HealthyStore cfg cache fs) :
    (run env (removeHash cache sri) fs).1 = (dropSpec (absStore cache fs) sri).2 ∧
    (match addrOf sri with
      | none => (run env (removeHash cache sri) fs).2.1 = fs
      | some (a, hx) => ∀ q, (run env (removeHash cache sri) fs).2.1.get q =
          if q = addrPath cache a hx then none else fs.get q) := by
  unfold removeHash dropSpec
  rw [contentPath_addrOf]
  cases e : addrOf sri with
  | none => exact ⟨rfl, rfl⟩
  | some x =>
    obtain ⟨a, hx⟩ := x
    have hlen := addrOf_len e
    simp only [Option.map_some, bind_eq, pure_eq, call, bind_sys, bind_done, run_sys_res, run_sys_fs, exec]
    unfold absStore
    rcases h.files a hx hlen with h0 | ⟨b, h0⟩
    · rw [h0]
      refine ⟨rfl, ?_⟩
      intro q
      show fs.get q = _
      split
      · rename_i hq; rw [hq, h0]
      · rfl
    · rw [h0]
      refine ⟨rfl, ?_⟩
      intro q
      exact FS.get_del _ _ _

/-- One by-address operation.  `put fl o chunks` is the unkeyed streamed write
`writeStream cfg cache fl none o chunks` (open with options `o`, one `write` per chunk, commit);
`write_hash*` is the instance `o = {algo := some a, size := some data.length}`, `chunks = [data]`. -/
inductive SOp where
  | put (fl : Flavour) (o : WriteOpts) (chunks : List Bytes)
  | get (sri : Integrity)
  | has (sri : Integrity)
  | drop (sri : Integrity)

/-- What a by-address operation answers. -/
inductive SOut where
  | wrote (r : Res Integrity)
  | got (r : Res Bytes)
  | had (r : Res Bool)
  | dropped (r : Res Unit)

/-- One step of the abstract store. -/
def sSpecStep (m : AbsStore) : SOp → AbsStore × SOut
  | .put _ o chunks =>
    (m.set (o.algo.getD .sha256) (Bytes.hex (cfg.H (o.algo.getD .sha256) chunks.flatten)) (some chunks.flatten),
     .wrote (putAnswer cfg o chunks.flatten))
  | .get sri => (m, .got (getSpec cfg m sri))
  | .has sri => (m, .had (hasSpec m sri))
  | .drop sri => ((dropSpec m sri).1, .dropped (dropSpec m sri).2)

def sSpecRun : List (Env × SOp) → AbsStore → List SOut × AbsStore
  | [], m => ([], m)
  | (_, op) :: ops, m =>
    ((sSpecStep cfg m op).2 :: (sSpecRun ops (sSpecStep cfg m op).1).1,
     (sSpecRun ops (sSpecStep cfg m op).1).2)

/-- One operation as the real model program, run to completion. -/
def sRunOp (env : Env) : SOp → FS → SOut × FS
  | .put fl o chunks, fs =>
    (.wrote (run env (writeStream cfg cache fl none o chunks) fs).1,
     (run env (writeStream cfg cache fl none o chunks) fs).2.1)
  | .get sri, fs => (.got (run env (readHash cfg cache sri) fs).1, (run env (readHash cfg cache sri) fs).2.1)
  | .has sri, fs => (.had (run env (existsHash cache sri) fs).1, (run env (existsHash cache sri) fs).2.1)
  | .drop sri, fs => (.dropped (run env (removeHash cache sri) fs).1, (run env (removeHash cache sri) fs).2.1)

def sRunOps : List (Env × SOp) → FS → List SOut × FS
  | [], fs => ([], fs)
  | (env, op) :: ops, fs =>
    ((sRunOp cfg cache env op fs).1 :: (sRunOps ops (sRunOp cfg cache env op fs).2).1,
     (sRunOps ops (sRunOp cfg cache env op fs).2).2)

/-- Removing the file at one address keeps the store healthy. -/
theorem drop_store {fs fs' : FS} {a : Algo} {hx : Bytes} (h : HealthyStore cfg cache fs)
    (hg : ∀ q, fs'.get q = if q = addrPath cache a hx then none else fs.get q) :
    HealthyStore cfg cache fs' ∧ absStore cache fs' = (absStore cache fs).set a hx none := by
  constructor
  · apply h.step
    · intro a' h' _
      rw [hg]
      split
      · exact Or.inr (Or.inl rfl)
      · exact Or.inl rfl
    · intro q hq
      left
      rw [hg, if_neg]
      intro e; subst e
      rcases hq with hq | ⟨a', h', hq⟩
      · exact addr_not_prefix_tmpDir cache _ _ hq
      · exact addr_not_prefix_parent cache _ _ _ _ hq
  · funext a' h'
    unfold absStore AbsStore.set
    rw [hg]
    by_cases e : a' = a ∧ h' = hx
    · obtain ⟨rfl, rfl⟩ := e
      simp
    · rw [if_neg e, if_neg (fun x => e (addrPath_injective x))]

/-- **One by-address operation refines one abstract step.** -/
theorem sRunOp_refines (env : Env) (op : SOp) (fs : FS) (h : HealthyStore cfg cache fs)
    (hl : HexLen cfg) :
    (sRunOp cfg cache env op fs).1 = (sSpecStep cfg (absStore cache fs) op).2 ∧
    absStore cache (sRunOp cfg cache env op fs).2 = (sSpecStep cfg (absStore cache fs) op).1 ∧
    HealthyStore cfg cache (sRunOp cfg cache env op fs).2 := by
  cases op with
  | put fl o chunks =>
    obtain ⟨h1, h2⟩ := run_putStream cfg cache env fl o chunks fs h hl
    obtain ⟨h3, h4⟩ := putFrame_store cfg cache h h2
    simp only [sRunOp, sSpecStep, h1]
    exact ⟨trivial, h4, h3⟩
  | get sri =>
    obtain ⟨h1, h2⟩ := run_readHash cfg cache env sri fs h
    simp only [sRunOp, sSpecStep, h1, h2]
    exact ⟨trivial, trivial, h⟩
  | has sri =>
    obtain ⟨h1, h2⟩ := run_existsHash cfg cache env sri fs h
    simp only [sRunOp, sSpecStep, h1, h2]
    exact ⟨trivial, trivial, h⟩
  | drop sri =>
    obtain ⟨h1, h2⟩ := run_removeHash cfg cache env sri fs h
    simp only [sRunOp, sSpecStep, h1]
    refine ⟨trivial, ?_⟩
    unfold dropSpec
    cases e : addrOf sri with
    | none =>
      rw [e] at h2
      simp only at h2 ⊢
      rw [h2]
      exact ⟨rfl, h⟩
    | some x =>
      obtain ⟨a, hx⟩ := x
      rw [e] at h2
      simp only at h2 ⊢
      obtain ⟨h3, h4⟩ := drop_store cfg cache h h2
      refine ⟨?_, h3⟩
      rw [h4]
      cases em : absStore cache fs a hx with
      | some b => rfl
      | none =>
        simp only
        funext a' h'
        unfold AbsStore.set
        split
        · rename_i hh; obtain ⟨rfl, rfl⟩ := hh; exact em.symm
        · rfl

/-- **The content store is a map from addresses to bytes.**  Any sequence of by-address
operations — unkeyed streamed writes of every shape (any flavour, any options, any chunking,
memory-mapped or not), reads, existence checks, removals, for arbitrary integrity values — run as
the real model programs from a healthy store: the answers are those of the abstract map started
from the abstraction of the initial state, the final state abstracts to the final map, and the
store is healthy again.  No well-formedness condition on the operations is needed, and no
collision-freeness of the digest: the map simply holds what was last renamed to each address. -/
theorem store_refines_map (ops : List (Env × SOp)) (fs : FS) (h : HealthyStore cfg cache fs)
    (hl : HexLen cfg) :
    (sRunOps cfg cache ops fs).1 = (sSpecRun cfg ops (absStore cache fs)).1 ∧
    absStore cache (sRunOps cfg cache ops fs).2 = (sSpecRun cfg ops (absStore cache fs)).2 ∧
    HealthyStore cfg cache (sRunOps cfg cache ops fs).2 := by
  induction ops generalizing fs with
  | nil => exact ⟨rfl, rfl, h⟩
  | cons x ops ih =>
    obtain ⟨env, op⟩ := x
    obtain ⟨h1, h2, h3⟩ := sRunOp_refines cfg cache env op fs h hl
    obtain ⟨i1, i2, i3⟩ := ih _ h3
    simp only [sRunOps, sSpecRun]
    rw [← h2]
    exact ⟨by rw [h1, i1], i2, i3⟩

/-! ### goal 2: index + content store -/

theorem bucket_ne_tmp (key n : Bytes) : bucketPath cfg cache key ≠ (cache ++ [dTmp]) ++ [n] :=
  area_ne dIndex_ne_dTmp (bucket_inIndex cfg cache key) (inArea_tmp cache n)

theorem bucket_ne_addr (key : Bytes) (a : Algo) (h : Bytes) : bucketPath cfg cache key ≠ addrPath cache a h :=
  area_ne dIndex_ne_dContent (bucket_inIndex cfg cache key) (inArea_addr cache a h)

theorem bucket_not_prefix_tmpDir (key : Bytes) : ¬ bucketPath cfg cache key <+: cache ++ [dTmp] := by
  intro hp
  have := hp.length_le
  rw [bucket_length] at this
  simp at this

theorem bucket_not_prefix_parent_addr (key : Bytes) (a : Algo) (h : Bytes) :
    ¬ bucketPath cfg cache key <+: FS.parent (addrPath cache a h) :=
  area_sep dIndex_ne_dContent (bucket_inIndex cfg cache key) (inArea_parent_addr cache a h)

theorem tmp_not_prefix_parent_bucket (n key : Bytes) :
    ¬ (cache ++ [dTmp]) ++ [n] <+: FS.parent (bucketPath cfg cache key) :=
  area_sep dTmp_ne_dIndex (inArea_tmp cache n) (inArea_parent_bucket cfg cache key)

theorem addr_not_prefix_parent_bucket (a : Algo) (h key : Bytes) :
    ¬ addrPath cache a h <+: FS.parent (bucketPath cfg cache key) :=
  area_sep dContent_ne_dIndex (inArea_addr cache a h) (inArea_parent_bucket cfg cache key)

/-- `Refine.healthy_congr`, tolerating ancestors that turn from absent into directories (the
`cache` directory itself is shared between the index, `tmp` and the content area). -/
theorem healthyIndex_grow {fs fs' : FS} (h : HealthyIndex cfg cache fs)
    (hb : ∀ key, fs'.get (bucketPath cfg cache key) = fs.get (bucketPath cfg cache key))
    (hd : ∀ key q, q ≠ [] → q <+: FS.parent (bucketPath cfg cache key) →
      fs'.get q = fs.get q ∨ (fs.get q = none ∧ fs'.get q = some .dir)) :
    HealthyIndex cfg cache fs' ∧ absIndex cfg cache fs' = absIndex cfg cache fs := by
  refine ⟨⟨?_, ?_⟩, ?_⟩
  · intro key q hq hp
    rcases hd key q hq hp with h1 | ⟨_, h2⟩
    · unfold NoneOrDir; rw [h1]; exact h.dirs key q hq hp
    · exact Or.inr h2
  · intro key; rw [hb key]; exact h.buckets key
  · funext key; unfold absIndex; rw [hb key]

/-- The content phase of a write leaves the index alone. -/
theorem putFrame_index {fs fs' : FS} {a : Algo} {data : Bytes} (h : HealthyIndex cfg cache fs)
    (hp : PutFrame cfg cache fs fs' a data) :
    HealthyIndex cfg cache fs' ∧ absIndex cfg cache fs' = absIndex cfg cache fs := by
  obtain ⟨_, _, hfr⟩ := hp
  apply healthyIndex_grow cfg cache h
  · intro key
    rcases hfr _ (bucket_ne_tmp cfg cache key _) (bucket_ne_addr cfg cache key _ _) with g | ⟨_, _, g | g⟩
    · exact g
    · exact absurd g (bucket_not_prefix_tmpDir cfg cache key)
    · exact absurd g (bucket_not_prefix_parent_addr cfg cache key _ _)
  · intro key q _ hq
    have h1 : q ≠ (cache ++ [dTmp]) ++ [tmpName fs.next] := by
      intro e; subst e; exact tmp_not_prefix_parent_bucket cfg cache _ _ hq
    have h2 : q ≠ addrPath cache a (Bytes.hex (cfg.H a data)) := by
      intro e; subst e; exact addr_not_prefix_parent_bucket cfg cache _ _ _ hq
    rcases hfr q h1 h2 with g | ⟨g1, g2, _⟩
    · exact Or.inl g
    · exact Or.inr ⟨g1, g2⟩

/-- Removing a content file leaves the index alone. -/
theorem drop_index {fs fs' : FS} {a : Algo} {hx : Bytes} (h : HealthyIndex cfg cache fs)
    (hg : ∀ q, fs'.get q = if q = addrPath cache a hx then none else fs.get q) :
    HealthyIndex cfg cache fs' ∧ absIndex cfg cache fs' = absIndex cfg cache fs := by
  apply healthyIndex_grow cfg cache h
  · intro key; rw [hg, if_neg (bucket_ne_addr cfg cache key a hx)]
  · intro key q _ hq
    left
    rw [hg, if_neg]
    intro e; subst e; exact addr_not_prefix_parent_bucket cfg cache _ _ _ hq

/-- An index insertion leaves the content store alone. -/
theorem insert_store (env : Env) (key : Bytes) (o : WriteOpts) (fs : FS)
    (hI : HealthyIndex cfg cache fs) (hS : HealthyStore cfg cache fs) :
    HealthyStore cfg cache (run env (insert cfg cache key o) fs).2.1 ∧
    absStore cache (run env (insert cfg cache key o) fs).2.1 = absStore cache fs := by
  obtain ⟨_, _, hoth⟩ := run_insert cfg cache env key o fs hI
  have haddr : ∀ a hexd, (run env (insert cfg cache key o) fs).2.1.get (addrPath cache a hexd) =
      fs.get (addrPath cache a hexd) := by
    intro a hexd
    rcases hoth _ (bucket_ne_addr cfg cache key a hexd).symm with g | ⟨_, _, g⟩
    · exact g
    · exact absurd g (addr_not_prefix_parent_bucket cfg cache _ _ _)
  constructor
  · apply hS.step
    · intro a hexd _; exact Or.inl (haddr a hexd)
    · intro q hq
      have hne : q ≠ bucketPath cfg cache key := by
        intro e; subst e
        rcases hq with hq | ⟨a', h', hq⟩
        · exact bucket_not_prefix_tmpDir cfg cache key hq
        · exact bucket_not_prefix_parent_addr cfg cache key _ _ hq
      rcases hoth q hne with g | ⟨g1, g2, _⟩
      · exact Or.inl g
      · exact Or.inr ⟨g1, g2⟩
  · funext a hexd
    unfold absStore
    rw [haddr]

/-- Every index operation leaves the content store alone. -/
theorem indexOp_store (env : Env) (op : IOp) (fs : FS)
    (hI : HealthyIndex cfg cache fs) (hS : HealthyStore cfg cache fs) :
    HealthyStore cfg cache (runOp cfg cache env op fs).2 ∧
    absStore cache (runOp cfg cache env op fs).2 = absStore cache fs := by
  cases op with
  | ins key o => exact insert_store cfg cache env key o fs hI hS
  | del key =>
    simp only [runOp, (run_delete cfg cache env key fs).1]
    exact insert_store cfg cache env key {} fs hI hS
  | look key =>
    simp only [runOp, (run_find cfg cache env key fs hI).2]
    exact ⟨hS, trivial⟩

/-- Both invariants.  They talk about disjoint areas of the cache directory (`index-v5` on one
side, `content-v2` and `tmp` on the other) and share only the ancestors (`cache` and above),
which both allow to be absent or directories. -/
structure Healthy (fs : FS) : Prop where
  index : HealthyIndex cfg cache fs
  store : HealthyStore cfg cache fs

/-- The abstract cache: a key/value index over an address/bytes store. -/
structure AbsCache where
  index : AbsIndex
  store : AbsStore

def absCache (fs : FS) : AbsCache := { index := absIndex cfg cache fs, store := absStore cache fs }

/-- **The empty cache is healthy** and abstracts to the empty maps. -/
theorem healthy_of_empty_cache (fs : FS)
    (hanc : ∀ q, q ≠ [] → q <+: cache → NoneOrDir fs q)
    (hbelow : ∀ q, cache <+: q → q ≠ cache → fs.get q = none) :
    Healthy cfg cache fs :=
  ⟨Refine.healthy_of_empty_cache cfg cache fs hanc hbelow, healthyStore_of_empty_cache cfg cache fs hanc hbelow⟩

example : Healthy cfg cache FS.empty :=
  healthy_of_empty_cache cfg cache FS.empty (fun _ _ _ => Or.inl rfl) (fun _ _ _ => rfl)

theorem declCheck_ok_none {o : WriteOpts} {n : Nat} {wsri r : Integrity} (hs : o.sri = none)
    (h : declCheck o n wsri = .ok r) : r = wsri := by
  rw [declCheck_none hs] at h
  split at h
  · split at h
    · cases h
    · cases h; rfl
  · cases h; rfl

/-- One step of the abstract cache for a keyed write: the store maps the address of the data to
the data; if the declarations hold, the index maps the key to the new entry (integrity = the
recorded one, size = the declared one or the byte count, time = the caller's or the clock's). -/
def putSpec (env : Env) (m : AbsCache) (key : Bytes) (o : WriteOpts) (chunks : List Bytes) :
    AbsCache × Res Integrity :=
  match declCheck o chunks.flatten.length (Sri.compute cfg.H (o.algo.getD .sha256) chunks.flatten) with
  | .error e =>
    ({ index := m.index, store := m.store.set (o.algo.getD .sha256) (Bytes.hex (cfg.H (o.algo.getD .sha256) chunks.flatten)) (some chunks.flatten) }, .error e)
  | .ok recorded =>
    ({ index := fun k => if k = key then insEntry env key { o with sri := some recorded, size := some (o.size.getD chunks.flatten.length) } else m.index k, store := m.store.set (o.algo.getD .sha256) (Bytes.hex (cfg.H (o.algo.getD .sha256) chunks.flatten)) (some chunks.flatten) }, .ok recorded)

/-- What the caller of a keyed write has to respect: options as Rust's types allow them, no
declared integrity, and a byte count that fits `usize`. -/
structure PutWF (key : Bytes) (o : WriteOpts) (chunks : List Bytes) : Prop where
  opts : OptsWF key o
  nosri : o.sri = none
  len : chunks.flatten.length ≤ Rec.u64Max

/-- **Total correctness of a keyed streamed write on a healthy cache** (`write*`,
`WriteOpts::open*` + any `write`s + `commit`). -/
theorem run_putKeyed (env : Env) (fl : Flavour) (key : Bytes) (o : WriteOpts) (chunks : List Bytes)
    (fs : FS) (h : Healthy cfg cache fs) (hl : HexLen cfg) (hw : PutWF key o chunks) :
    (run env (writeStream cfg cache fl (some key) o chunks) fs).1 =
      (putSpec cfg env (absCache cfg cache fs) key o chunks).2 ∧
    absCache cfg cache (run env (writeStream cfg cache fl (some key) o chunks) fs).2.1 =
      (putSpec cfg env (absCache cfg cache fs) key o chunks).1 ∧
    Healthy cfg cache (run env (writeStream cfg cache fl (some key) o chunks) fs).2.1 ∧
    TmpClean cache fs (run env (writeStream cfg cache fl (some key) o chunks) fs).2.1 := by
  obtain ⟨w, fs3, e1, e2, hc, hk, ho, hwr, hp⟩ :=
    run_writeStream_phase cfg cache env fl (some key) o chunks fs h.store hl
  obtain ⟨hS3, hA3⟩ := putFrame_store cfg cache h.store hp
  obtain ⟨hI3, hB3⟩ := putFrame_index cfg cache h.index hp
  have hT3 := putFrame_tmp cfg cache hp
  rw [e1, e2]
  unfold commitTail putSpec
  rw [commitChecks_eq, ho, hwr]
  cases hck : declCheck o chunks.flatten.length (Sri.compute cfg.H (o.algo.getD .sha256) chunks.flatten) with
  | error e =>
    refine ⟨rfl, ?_, ⟨hI3, hS3⟩, hT3⟩
    simp only [pure_eq, run_done_fs, absCache, hA3, hB3]
  | ok recorded =>
    have hrec : recorded = Sri.compute cfg.H (o.algo.getD .sha256) chunks.flatten :=
      declCheck_ok_none hw.nosri hck
    simp only [wcommitIndex, hk, hc, ho, hwr]
    have hsz : o.size.getD chunks.flatten.length ≤ Rec.u64Max := by
      cases hs : o.size with
      | none => exact hw.len
      | some n => exact hw.opts.size n hs
    have hwf : OptsWF key { o with sri := some recorded, size := some (o.size.getD chunks.flatten.length) } := by
      rw [hrec]
      exact (hw.opts.with_computed cfg.H _ _).with_size _ hsz
    have hsri : SriOK cfg { o with sri := some recorded, size := some (o.size.getD chunks.flatten.length) } :=
      Or.inr ⟨_, _, by rw [hrec]⟩
    obtain ⟨hI4, hA4⟩ := insert_refines cfg cache env key _ fs3 hI3 hwf hsri
    obtain ⟨hS4, hB4⟩ := insert_store cfg cache env key { o with sri := some recorded, size := some (o.size.getD chunks.flatten.length) } fs3 hI3 hS3
    refine ⟨?_, ?_, ⟨hI4, hS4⟩, ?_⟩
    rotate_left 2
    · have hfr := (run_insert cfg cache env key { o with sri := some recorded, size := some (o.size.getD chunks.flatten.length) } fs3 hI3).2.2
      have keep : ∀ n, (run env (insert cfg cache key { o with sri := some recorded, size := some (o.size.getD chunks.flatten.length) }) fs3).2.1.get ((cache ++ [dTmp]) ++ [n]) =
          fs3.get ((cache ++ [dTmp]) ++ [n]) := by
        intro n
        rcases hfr _ (bucket_ne_tmp cfg cache key n).symm with g | ⟨_, _, g⟩
        · exact g
        · exact absurd g (tmp_not_prefix_parent_bucket cfg cache n key)
      exact ⟨by rw [keep]; exact hT3.1, fun n hn => by rw [keep]; exact hT3.2 n hn⟩
    · rw [(run_insert cfg cache env key _ fs3 hI3).1]; rfl
    · simp only [absCache, hB4, hA3]
      congr 1
      funext k
      rw [hA4 k, hB3]

/-- What `get key` answers: the entry's content, read by its recorded integrity. -/
def readSpec (m : AbsCache) (key : Bytes) : Res Bytes :=
  match m.index key with
  | none => .error .notFound
  | some e => getSpec cfg m.store e.sri

/-- **Total correctness of `read` by key on a healthy cache.** -/
theorem run_read (env : Env) (key : Bytes) (fs : FS) (h : Healthy cfg cache fs) :
    (run env (read cfg cache key) fs).1 = readSpec cfg (absCache cfg cache fs) key ∧
    (run env (read cfg cache key) fs).2.1 = fs := by
  obtain ⟨f1, f2⟩ := run_find cfg cache env key fs h.index
  unfold read readSpec
  simp only [bind_eq, pure_eq, run_bind_res, run_bind_fs, f1, f2, absCache]
  cases absIndex cfg cache fs key with
  | none => exact ⟨rfl, rfl⟩
  | some m => exact run_readHash cfg cache env m.sri fs h.store

/-- Every by-address operation leaves the index alone. -/
theorem addrOp_index (env : Env) (op : SOp) (fs : FS) (h : Healthy cfg cache fs) (hl : HexLen cfg) :
    HealthyIndex cfg cache (sRunOp cfg cache env op fs).2 ∧
    absIndex cfg cache (sRunOp cfg cache env op fs).2 = absIndex cfg cache fs := by
  cases op with
  | put fl o chunks =>
    exact putFrame_index cfg cache h.index (run_putStream cfg cache env fl o chunks fs h.store hl).2
  | get sri =>
    simp only [sRunOp, (run_readHash cfg cache env sri fs h.store).2]
    exact ⟨h.index, trivial⟩
  | has sri =>
    simp only [sRunOp, (run_existsHash cfg cache env sri fs h.store).2]
    exact ⟨h.index, trivial⟩
  | drop sri =>
    have h2 := (run_removeHash cfg cache env sri fs h.store).2
    simp only [sRunOp]
    cases e : addrOf sri with
    | none =>
      rw [e] at h2
      simp only at h2
      rw [h2]
      exact ⟨h.index, rfl⟩
    | some x =>
      obtain ⟨a, hx⟩ := x
      rw [e] at h2
      exact drop_index cfg cache h.index h2

/-- One operation on the cache.
* `put fl key o chunks` — the keyed streamed write `writeStream cfg cache fl (some key) o chunks`
  (`cacache::write*` is the instance `COp.write`);
* `get key` — `cacache::read*` (`Ops.read`);
* `index op` — an index operation of `Refine.IOp`: `insert`, `delete` (= `remove`), `find`
  (= `metadata`);
* `addr op` — a by-address operation of `SOp`: `write_hash*`, `read_hash*`, `exists`, `remove_hash`. -/
inductive COp where
  | put (fl : Flavour) (key : Bytes) (o : WriteOpts) (chunks : List Bytes)
  | get (key : Bytes)
  | index (op : IOp)
  | addr (op : SOp)

/-- What an operation answers. -/
inductive COut where
  | put (r : Res Integrity)
  | get (r : Res Bytes)
  | index (o : Out)
  | addr (o : SOut)

/-- What the caller has to respect: for a keyed write `PutWF`, for an index operation
`Refine.OpWF`; nothing for reads and by-address operations. -/
def COp.WF : COp → Prop
  | .put _ key o chunks => PutWF key o chunks
  | .get _ => True
  | .index op => OpWF cfg op
  | .addr _ => True

/-- One step of the abstract cache. -/
def cSpecStep (env : Env) (m : AbsCache) : COp → AbsCache × COut
  | .put _ key o chunks => ((putSpec cfg env m key o chunks).1, .put (putSpec cfg env m key o chunks).2)
  | .get key => (m, .get (readSpec cfg m key))
  | .index op => ({ index := (specStep env m.index op).1, store := m.store }, .index (specStep env m.index op).2)
  | .addr op => ({ index := m.index, store := (sSpecStep cfg m.store op).1 }, .addr (sSpecStep cfg m.store op).2)

def cSpecRun : List (Env × COp) → AbsCache → List COut × AbsCache
  | [], m => ([], m)
  | (env, op) :: ops, m =>
    ((cSpecStep cfg env m op).2 :: (cSpecRun ops (cSpecStep cfg env m op).1).1,
     (cSpecRun ops (cSpecStep cfg env m op).1).2)

/-- One operation as the real model program, run to completion. -/
def cRunOp (env : Env) : COp → FS → COut × FS
  | .put fl key o chunks, fs =>
    (.put (run env (writeStream cfg cache fl (some key) o chunks) fs).1,
     (run env (writeStream cfg cache fl (some key) o chunks) fs).2.1)
  | .get key, fs => (.get (run env (read cfg cache key) fs).1, (run env (read cfg cache key) fs).2.1)
  | .index op, fs => (.index (runOp cfg cache env op fs).1, (runOp cfg cache env op fs).2)
  | .addr op, fs => (.addr (sRunOp cfg cache env op fs).1, (sRunOp cfg cache env op fs).2)

def cRunOps : List (Env × COp) → FS → List COut × FS
  | [], fs => ([], fs)
  | (env, op) :: ops, fs =>
    ((cRunOp cfg cache env op fs).1 :: (cRunOps ops (cRunOp cfg cache env op fs).2).1,
     (cRunOps ops (cRunOp cfg cache env op fs).2).2)

/-- **One cache operation refines one abstract step.** -/
theorem cRunOp_refines (env : Env) (op : COp) (fs : FS) (h : Healthy cfg cache fs) (hl : HexLen cfg)
    (hop : op.WF cfg) :
    (cRunOp cfg cache env op fs).1 = (cSpecStep cfg env (absCache cfg cache fs) op).2 ∧
    absCache cfg cache (cRunOp cfg cache env op fs).2 = (cSpecStep cfg env (absCache cfg cache fs) op).1 ∧
    Healthy cfg cache (cRunOp cfg cache env op fs).2 := by
  cases op with
  | put fl key o chunks =>
    obtain ⟨h1, h2, h3, _⟩ := run_putKeyed cfg cache env fl key o chunks fs h hl hop
    simp only [cRunOp, cSpecStep, h1]
    exact ⟨trivial, h2, h3⟩
  | get key =>
    obtain ⟨h1, h2⟩ := run_read cfg cache env key fs h
    simp only [cRunOp, cSpecStep, h1, h2]
    exact ⟨trivial, trivial, h⟩
  | index iop =>
    obtain ⟨h1, h2, h3⟩ := runOp_refines cfg cache env iop fs h.index hop
    obtain ⟨h4, h5⟩ := indexOp_store cfg cache env iop fs h.index h.store
    simp only [cRunOp, cSpecStep, h1]
    refine ⟨rfl, ?_, ⟨h3, h4⟩⟩
    simp only [absCache, h2, h5]
  | addr sop =>
    obtain ⟨h1, h2, h3⟩ := sRunOp_refines cfg cache env sop fs h.store hl
    obtain ⟨h4, h5⟩ := addrOp_index cfg cache env sop fs h hl
    simp only [cRunOp, cSpecStep, h1]
    refine ⟨rfl, ?_, ⟨h4, h3⟩⟩
    simp only [absCache, h2, h5]

/-- **The cache is a key/value map over an address/bytes map.**  Any sequence of keyed writes,
reads by key, index operations (`insert` / `delete` / `find`) and by-address operations, each run
as the real model program in its own environment, started from a healthy cache: the answers are
those of the abstract cache started from the abstraction of the initial state, the final state
abstracts to the final abstract cache, and the cache is healthy again. -/
theorem cache_refines_map (ops : List (Env × COp)) (fs : FS) (h : Healthy cfg cache fs)
    (hl : HexLen cfg) (hops : ∀ x ∈ ops, x.2.WF cfg) :
    (cRunOps cfg cache ops fs).1 = (cSpecRun cfg ops (absCache cfg cache fs)).1 ∧
    absCache cfg cache (cRunOps cfg cache ops fs).2 = (cSpecRun cfg ops (absCache cfg cache fs)).2 ∧
    Healthy cfg cache (cRunOps cfg cache ops fs).2 := by
  induction ops generalizing fs with
  | nil => exact ⟨rfl, rfl, h⟩
  | cons x ops ih =>
    obtain ⟨env, op⟩ := x
    obtain ⟨h1, h2, h3⟩ := cRunOp_refines cfg cache env op fs h hl (hops (env, op) (by simp))
    obtain ⟨i1, i2, i3⟩ := ih _ h3 (fun y hy => hops y (List.mem_cons_of_mem _ hy))
    simp only [cRunOps, cSpecRun]
    rw [← h2]
    exact ⟨by rw [h1, i1], i2, i3⟩

/-! ### the library's entry points are instances -/

/-- `cacache::write*` (`Ops.write`): the one-shot keyed write. -/
def COp.write (fl : Flavour) (key : Bytes) (a : Algo) (data : Bytes) : COp :=
  .put fl key (match fl with | .async => { algo := some a, size := some data.length } | .sync => { algo := some a }) [data]

/-- `cacache::remove*` (`Ops.delete`). -/
def COp.remove (key : Bytes) : COp := .index (.del key)

/-- `cacache::metadata*` (`Ops.find`). -/
def COp.meta (key : Bytes) : COp := .index (.look key)

/-- `cacache::write_hash*` (`Ops.writeHash`): the one-shot unkeyed write, memory-mapped when
`0 < data.length ≤ maxMmap`. -/
def SOp.writeHash (fl : Flavour) (a : Algo) (data : Bytes) : SOp :=
  .put fl { algo := some a, size := some data.length } [data]

theorem cRunOp_write (env : Env) (fl : Flavour) (key : Bytes) (a : Algo) (data : Bytes) (fs : FS) :
    cRunOp cfg cache env (COp.write fl key a data) fs =
      (.put (run env (write cfg fl cache a key data) fs).1, (run env (write cfg fl cache a key data) fs).2.1) := by
  rw [write_eq_stream]; rfl

theorem sRunOp_writeHash (env : Env) (fl : Flavour) (a : Algo) (data : Bytes) (fs : FS) :
    sRunOp cfg cache env (SOp.writeHash fl a data) fs =
      (.wrote (run env (writeHash cfg fl cache a data) fs).1, (run env (writeHash cfg fl cache a data) fs).2.1) := by
  rw [writeHash_eq_stream]; rfl

theorem cRunOp_remove (env : Env) (key : Bytes) (fs : FS) :
    cRunOp cfg cache env (COp.remove key) fs = (.index (runOp cfg cache env (.del key) fs).1, (run env (delete cfg cache key) fs).2.1) := rfl

theorem cRunOp_meta (env : Env) (key : Bytes) (fs : FS) :
    cRunOp cfg cache env (COp.meta key) fs = (.index (runOp cfg cache env (.look key) fs).1, (run env (find cfg cache key) fs).2.1) := rfl

theorem write_wf (fl : Flavour) (key : Bytes) (a : Algo) (data : Bytes) (hk : utf8Valid key = true)
    (hd : data.length ≤ Rec.u64Max) : (COp.write fl key a data).WF cfg := by
  have hfl : [data].flatten = data := by simp
  cases fl with
  | sync =>
    exact ⟨⟨hk, by simp, by simp, by simp, by simp⟩, rfl, by rw [hfl]; exact hd⟩
  | async =>
    refine ⟨⟨hk, by simp, ?_, by simp, by simp⟩, rfl, by rw [hfl]; exact hd⟩
    intro n hn
    simp at hn
    omega

/-! ### reading the abstract steps -/

theorem AbsStore.set_same (m : AbsStore) (a : Algo) (h : Bytes) (v : Option Bytes) : (m.set a h v) a h = v := by
  simp [AbsStore.set]

theorem AbsStore.set_other (m : AbsStore) {a a' : Algo} {h h' : Bytes} (v : Option Bytes)
    (hne : ¬ (a' = a ∧ h' = h)) : (m.set a h v) a' h' = m a' h' := by
  simp only [AbsStore.set, if_neg hne]

/-- Declarations that hold: no declared integrity, declared size (if any) = the byte count. -/
theorem declCheck_ok {o : WriteOpts} {n : Nat} (wsri : Integrity) (hs : o.sri = none)
    (hz : o.size = none ∨ o.size = some n) : declCheck o n wsri = .ok wsri := by
  rw [declCheck_none hs]
  rcases hz with hz | hz <;> rw [hz] <;> simp

theorem putAnswer_ok {o : WriteOpts} {data : Bytes} (hs : o.sri = none)
    (hz : o.size = none ∨ o.size = some data.length) :
    putAnswer cfg o data = .ok (Sri.compute cfg.H (o.algo.getD .sha256) data) := by
  unfold putAnswer; rw [declCheck_ok _ hs hz]

theorem putSpec_store (env : Env) (m : AbsCache) (key : Bytes) (o : WriteOpts) (chunks : List Bytes) :
    (putSpec cfg env m key o chunks).1.store =
      m.store.set (o.algo.getD .sha256) (Bytes.hex (cfg.H (o.algo.getD .sha256) chunks.flatten)) (some chunks.flatten) := by
  unfold putSpec; split <;> rfl

theorem putSpec_index_other (env : Env) (m : AbsCache) (key : Bytes) (o : WriteOpts) (chunks : List Bytes)
    {k : Bytes} (hk : k ≠ key) : (putSpec cfg env m key o chunks).1.index k = m.index k := by
  unfold putSpec; split
  · rfl
  · simp only [if_neg hk]

/-- The entry a successful keyed write records. -/
def putEntry (env : Env) (key : Bytes) (o : WriteOpts) (data : Bytes) : Meta :=
  { key := key, sri := Sri.compute cfg.H (o.algo.getD .sha256) data, time := stamp env o, size := o.size.getD data.length, metadata := o.metadata.getD .null, raw := o.raw }

theorem putSpec_ok (env : Env) (m : AbsCache) (key : Bytes) (o : WriteOpts) (chunks : List Bytes)
    (hs : o.sri = none) (hz : o.size = none ∨ o.size = some chunks.flatten.length) :
    (putSpec cfg env m key o chunks).2 = .ok (Sri.compute cfg.H (o.algo.getD .sha256) chunks.flatten) ∧
    (putSpec cfg env m key o chunks).1.index key = some (putEntry cfg env key o chunks.flatten) := by
  unfold putSpec
  rw [declCheck_ok _ hs hz]
  refine ⟨rfl, ?_⟩
  simp only [if_true]
  rfl

/-- In a valid store, reading by a computed integrity returns whatever the address holds: the
check passes because the address IS the digest of what it holds.  No collision-freeness. -/
theorem getSpec_compute (hl : HexLen cfg) (m : AbsStore) (a : Algo) (d b : Bytes)
    (hm : m a (Bytes.hex (cfg.H a d)) = some b) (hv : cfg.H a b = cfg.H a d) :
    getSpec cfg m (Sri.compute cfg.H a d) = .ok b := by
  unfold getSpec
  rw [addrOf_compute cfg hl]
  simp only [hm]
  have : Sri.compute cfg.H a d = Sri.compute cfg.H a b := by unfold Sri.compute; rw [hv]
  rw [this, check_compute]
  rfl

theorem getSpec_compute_absent (hl : HexLen cfg) (m : AbsStore) (a : Algo) (d : Bytes)
    (hm : m a (Bytes.hex (cfg.H a d)) = none) :
    getSpec cfg m (Sri.compute cfg.H a d) = .error (.io .notFound) := by
  unfold getSpec
  rw [addrOf_compute cfg hl]
  simp only [hm]

/-- What a healthy store holds at an address hashes to the address. -/
theorem absStore_valid {fs : FS} (h : HealthyStore cfg cache fs) {a : Algo} {d b : Bytes} (hl : HexLen cfg)
    (hm : absStore cache fs a (Bytes.hex (cfg.H a d)) = some b) : cfg.H a b = cfg.H a d := by
  unfold absStore at hm
  split at hm
  · rename_i b' hg
    cases hm
    exact (Bytes.hex_injective (h.valid a _ b (hl a d) hg)).symm
  · cases hm

/-- `getSpec` looks at the store only at the address of the integrity. -/
theorem getSpec_congr {m m' : AbsStore} {sri : Integrity}
    (h : ∀ a hx, addrOf sri = some (a, hx) → m a hx = m' a hx) : getSpec cfg m sri = getSpec cfg m' sri := by
  unfold getSpec
  cases e : addrOf sri with
  | none => rfl
  | some x => obtain ⟨a, hx⟩ := x; simp only [h a hx e]

/-! ### corollaries: property C02 end to end, with total correctness -/

/-- The operation writes (inserts or removes) the index entry of `key`. -/
def COp.writesKey : COp → Bytes → Prop
  | .put _ k _ _, key => k = key
  | .index op, key => op.writes key
  | .get _, _ => False
  | .addr _, _ => False

/-- The by-address operation may change what the address `(a, h)` holds: a write that lands
there, or a removal of it. -/
def SOp.touches : SOp → Algo → Bytes → Prop
  | .put _ o chunks, a, h =>
    o.algo.getD .sha256 = a ∧ Bytes.hex (cfg.H (o.algo.getD .sha256) chunks.flatten) = h
  | .drop sri, a, h => addrOf sri = some (a, h)
  | .get _, _, _ => False
  | .has _, _, _ => False

/-- The by-address operation removes what the address `(a, h)` holds. -/
def SOp.drops : SOp → Algo → Bytes → Prop
  | .drop sri, a, h => addrOf sri = some (a, h)
  | .put _ _ _, _, _ => False
  | .get _, _, _ => False
  | .has _, _, _ => False

/-- The operation may change what the address `(a, h)` holds. -/
def COp.touchesAddr : COp → Algo → Bytes → Prop
  | .put _ _ o chunks, a, h =>
    o.algo.getD .sha256 = a ∧ Bytes.hex (cfg.H (o.algo.getD .sha256) chunks.flatten) = h
  | .addr op, a, h => op.touches cfg a h
  | .get _, _, _ => False
  | .index _, _, _ => False

/-- The operation removes what the address `(a, h)` holds (only `remove_hash` does). -/
def COp.dropsAddr : COp → Algo → Bytes → Prop
  | .addr op, a, h => op.drops a h
  | .put _ _ _ _, _, _ => False
  | .get _, _, _ => False
  | .index _, _, _ => False

theorem cSpecRun_append (a b : List (Env × COp)) (m : AbsCache) :
    (cSpecRun cfg (a ++ b) m).2 = (cSpecRun cfg b (cSpecRun cfg a m).2).2 := by
  induction a generalizing m with
  | nil => rfl
  | cons x a ih => obtain ⟨env, op⟩ := x; simp only [List.cons_append, cSpecRun, ih]

theorem cSpecStep_index_untouched (env : Env) (m : AbsCache) (op : COp) (key : Bytes)
    (h : ¬ op.writesKey key) : (cSpecStep cfg env m op).1.index key = m.index key := by
  cases op with
  | put fl k o chunks => exact putSpec_index_other cfg env m k o chunks (fun e => h e.symm)
  | get k => rfl
  | index iop => exact specStep_untouched env m.index iop key h
  | addr sop => rfl

theorem cSpecRun_index_untouched (ops : List (Env × COp)) (m : AbsCache) (key : Bytes)
    (h : ∀ x ∈ ops, ¬ x.2.writesKey key) : (cSpecRun cfg ops m).2.index key = m.index key := by
  induction ops generalizing m with
  | nil => rfl
  | cons x ops ih =>
    obtain ⟨env, op⟩ := x
    simp only [cSpecRun]
    rw [ih _ (fun y hy => h y (List.mem_cons_of_mem _ hy))]
    exact cSpecStep_index_untouched cfg env m op key (h (env, op) (by simp))

theorem dropSpec_other (m : AbsStore) (sri : Integrity) (a : Algo) (h : Bytes)
    (hd : addrOf sri ≠ some (a, h)) : (dropSpec m sri).1 a h = m a h := by
  unfold dropSpec
  cases e : addrOf sri with
  | none => rfl
  | some x =>
    obtain ⟨a', h'⟩ := x
    simp only
    cases m a' h' with
    | none => rfl
    | some b =>
      simp only
      apply AbsStore.set_other
      rintro ⟨rfl, rfl⟩
      exact hd e

theorem sSpecStep_untouched (m : AbsStore) (op : SOp) (a : Algo) (h : Bytes)
    (ht : ¬ op.touches cfg a h) : (sSpecStep cfg m op).1 a h = m a h := by
  cases op with
  | put fl o chunks => exact AbsStore.set_other _ _ (fun e => ht ⟨e.1.symm, e.2.symm⟩)
  | get sri => rfl
  | has sri => rfl
  | drop sri => exact dropSpec_other m sri a h ht

theorem sSpecStep_kept (m : AbsStore) (op : SOp) (a : Algo) (h : Bytes)
    (hd : ¬ op.drops a h) (hs : (m a h).isSome) : ((sSpecStep cfg m op).1 a h).isSome := by
  cases op with
  | put fl o chunks =>
    simp only [sSpecStep]
    by_cases e : a = o.algo.getD .sha256 ∧ h = Bytes.hex (cfg.H (o.algo.getD .sha256) chunks.flatten)
    · obtain ⟨rfl, rfl⟩ := e; rw [AbsStore.set_same]; rfl
    · rw [AbsStore.set_other _ _ e]; exact hs
  | get sri => exact hs
  | has sri => exact hs
  | drop sri =>
    simp only [sSpecStep]
    rw [dropSpec_other m sri a h hd]; exact hs

theorem cSpecStep_store_untouched (env : Env) (m : AbsCache) (op : COp) (a : Algo) (h : Bytes)
    (ht : ¬ op.touchesAddr cfg a h) : (cSpecStep cfg env m op).1.store a h = m.store a h := by
  cases op with
  | put fl k o chunks =>
    simp only [cSpecStep]
    rw [putSpec_store]
    exact AbsStore.set_other _ _ (fun e => ht ⟨e.1.symm, e.2.symm⟩)
  | get k => rfl
  | index iop => rfl
  | addr sop => exact sSpecStep_untouched cfg m.store sop a h ht

theorem cSpecStep_store_kept (env : Env) (m : AbsCache) (op : COp) (a : Algo) (h : Bytes)
    (hd : ¬ op.dropsAddr a h) (hs : (m.store a h).isSome) :
    ((cSpecStep cfg env m op).1.store a h).isSome := by
  cases op with
  | put fl k o chunks =>
    simp only [cSpecStep]
    rw [putSpec_store]
    by_cases e : a = o.algo.getD .sha256 ∧ h = Bytes.hex (cfg.H (o.algo.getD .sha256) chunks.flatten)
    · obtain ⟨rfl, rfl⟩ := e; rw [AbsStore.set_same]; rfl
    · rw [AbsStore.set_other _ _ e]; exact hs
  | get k => exact hs
  | index iop => exact hs
  | addr sop => exact sSpecStep_kept cfg m.store sop a h hd hs

theorem cSpecRun_store_untouched (ops : List (Env × COp)) (m : AbsCache) (a : Algo) (h : Bytes)
    (ht : ∀ x ∈ ops, ¬ x.2.touchesAddr cfg a h) : (cSpecRun cfg ops m).2.store a h = m.store a h := by
  induction ops generalizing m with
  | nil => rfl
  | cons x ops ih =>
    obtain ⟨env, op⟩ := x
    simp only [cSpecRun]
    rw [ih _ (fun y hy => ht y (List.mem_cons_of_mem _ hy))]
    exact cSpecStep_store_untouched cfg env m op a h (ht (env, op) (by simp))

theorem cSpecRun_store_kept (ops : List (Env × COp)) (m : AbsCache) (a : Algo) (h : Bytes)
    (hd : ∀ x ∈ ops, ¬ x.2.dropsAddr a h) (hs : (m.store a h).isSome) :
    ((cSpecRun cfg ops m).2.store a h).isSome := by
  induction ops generalizing m with
  | nil => exact hs
  | cons x ops ih =>
    obtain ⟨env, op⟩ := x
    simp only [cSpecRun]
    exact ih _ (fun y hy => hd y (List.mem_cons_of_mem _ hy))
      (cSpecStep_store_kept cfg env m op a h (hd (env, op) (by simp)) hs)

/-- A read by key after any sequence of operations answers what the abstract cache says. -/
theorem get_after_ops (ops : List (Env × COp)) (fs : FS) (h : Healthy cfg cache fs) (hl : HexLen cfg)
    (hops : ∀ x ∈ ops, x.2.WF cfg) (env' : Env) (key : Bytes) :
    (run env' (read cfg cache key) (cRunOps cfg cache ops fs).2).1 =
      readSpec cfg (cSpecRun cfg ops (absCache cfg cache fs)).2 key := by
  obtain ⟨_, h2, h3⟩ := cache_refines_map cfg cache ops fs h hl hops
  rw [(run_read cfg cache env' key _ h3).1, h2]

/-- **Read your write (C02 end to end, total correctness, no collision assumption).**
From a healthy cache, after ANY sequence of operations in which a keyed write of `chunks` (under
the algorithm of its options, with declarations that hold) is the last operation that writes
`key`, and no later operation removes the content at the address of the data: `read key`
succeeds and returns the bytes `b` the store currently holds at that address — bytes whose digest
is the digest of the data (later writes of colliding data may have replaced the file; nothing
else can). -/
theorem get_returns_last_put (pre post : List (Env × COp)) (env : Env) (fl : Flavour) (key : Bytes)
    (o : WriteOpts) (chunks : List Bytes) (fs : FS) (h : Healthy cfg cache fs) (hl : HexLen cfg)
    (hops : ∀ x ∈ pre ++ (env, COp.put fl key o chunks) :: post, x.2.WF cfg)
    (hz : o.size = none ∨ o.size = some chunks.flatten.length)
    (hkey : ∀ x ∈ post, ¬ x.2.writesKey key)
    (hdrop : ∀ x ∈ post, ¬ x.2.dropsAddr (o.algo.getD .sha256)
      (Bytes.hex (cfg.H (o.algo.getD .sha256) chunks.flatten)))
    (env' : Env) :
    ∃ b, absStore cache (cRunOps cfg cache (pre ++ (env, COp.put fl key o chunks) :: post) fs).2
        (o.algo.getD .sha256) (Bytes.hex (cfg.H (o.algo.getD .sha256) chunks.flatten)) = some b ∧
      cfg.H (o.algo.getD .sha256) b = cfg.H (o.algo.getD .sha256) chunks.flatten ∧
      (run env' (read cfg cache key)
        (cRunOps cfg cache (pre ++ (env, COp.put fl key o chunks) :: post) fs).2).1 = .ok b := by
  have hwf : PutWF key o chunks := hops (env, COp.put fl key o chunks) (by simp)
  obtain ⟨_, hA, hH⟩ := cache_refines_map cfg cache _ fs h hl hops
  have hidx : (cSpecRun cfg (pre ++ (env, COp.put fl key o chunks) :: post) (absCache cfg cache fs)).2.index key =
      some (putEntry cfg env key o chunks.flatten) := by
    rw [cSpecRun_append]
    simp only [cSpecRun]
    rw [cSpecRun_index_untouched cfg post _ key hkey]
    exact (putSpec_ok cfg env _ key o chunks hwf.nosri hz).2
  have hsto : ((cSpecRun cfg (pre ++ (env, COp.put fl key o chunks) :: post) (absCache cfg cache fs)).2.store
      (o.algo.getD .sha256) (Bytes.hex (cfg.H (o.algo.getD .sha256) chunks.flatten))).isSome := by
    rw [cSpecRun_append]
    simp only [cSpecRun]
    apply cSpecRun_store_kept cfg post _ _ _ hdrop
    simp only [cSpecStep]
    rw [putSpec_store, AbsStore.set_same]
    rfl
  obtain ⟨b, hb⟩ := Option.isSome_iff_exists.mp hsto
  have hb' : absStore cache (cRunOps cfg cache (pre ++ (env, COp.put fl key o chunks) :: post) fs).2
      (o.algo.getD .sha256) (Bytes.hex (cfg.H (o.algo.getD .sha256) chunks.flatten)) = some b := by
    have := congrArg AbsCache.store hA
    simp only [absCache] at this
    rw [this]; exact hb
  have hv := absStore_valid cfg cache hH.store hl hb'
  refine ⟨b, hb', hv, ?_⟩
  rw [get_after_ops cfg cache _ fs h hl hops]
  unfold readSpec
  rw [hidx]
  exact getSpec_compute cfg hl _ _ _ b hb hv

/-- … and if the digest does not collide on the data, `read key` returns exactly the data. -/
theorem get_returns_last_put_data (pre post : List (Env × COp)) (env : Env) (fl : Flavour) (key : Bytes)
    (o : WriteOpts) (chunks : List Bytes) (fs : FS) (h : Healthy cfg cache fs) (hl : HexLen cfg)
    (hops : ∀ x ∈ pre ++ (env, COp.put fl key o chunks) :: post, x.2.WF cfg)
    (hz : o.size = none ∨ o.size = some chunks.flatten.length)
    (hkey : ∀ x ∈ post, ¬ x.2.writesKey key)
    (hdrop : ∀ x ∈ post, ¬ x.2.dropsAddr (o.algo.getD .sha256)
      (Bytes.hex (cfg.H (o.algo.getD .sha256) chunks.flatten)))
    (hinj : ∀ b, cfg.H (o.algo.getD .sha256) b = cfg.H (o.algo.getD .sha256) chunks.flatten → b = chunks.flatten)
    (env' : Env) :
    (run env' (read cfg cache key)
      (cRunOps cfg cache (pre ++ (env, COp.put fl key o chunks) :: post) fs).2).1 = .ok chunks.flatten := by
  obtain ⟨b, _, hv, hr⟩ := get_returns_last_put cfg cache pre post env fl key o chunks fs h hl hops hz hkey hdrop env'
  rw [hr, hinj b hv]

/-- **Operations on other keys and other addresses never change what a key returns**: if no
operation writes `key` and none touches the address its entry (if any) points to, `read key`
answers the same before and after. -/
theorem get_ignores_unrelated (ops : List (Env × COp)) (fs : FS) (h : Healthy cfg cache fs)
    (hl : HexLen cfg) (hops : ∀ x ∈ ops, x.2.WF cfg) (key : Bytes)
    (hkey : ∀ x ∈ ops, ¬ x.2.writesKey key)
    (haddr : ∀ e a hx, absIndex cfg cache fs key = some e → addrOf e.sri = some (a, hx) →
      ∀ x ∈ ops, ¬ x.2.touchesAddr cfg a hx)
    (env' : Env) :
    (run env' (read cfg cache key) (cRunOps cfg cache ops fs).2).1 =
      (run env' (read cfg cache key) fs).1 := by
  rw [get_after_ops cfg cache ops fs h hl hops, (run_read cfg cache env' key fs h).1]
  unfold readSpec
  rw [cSpecRun_index_untouched cfg ops _ key hkey]
  simp only [absCache]
  cases e : absIndex cfg cache fs key with
  | none => rfl
  | some m =>
    simp only
    apply getSpec_congr
    intro a hx hax
    exact cSpecRun_store_untouched cfg ops _ a hx (haddr m a hx e hax)

/-- **A keyed write of one key never changes what `read` of another key returns, unless they
share the address.** -/
theorem put_ignores_other_key (env env' : Env) (fl : Flavour) (key : Bytes) (o : WriteOpts)
    (chunks : List Bytes) (fs : FS) (h : Healthy cfg cache fs) (hl : HexLen cfg)
    (hw : PutWF key o chunks) (key' : Bytes) (hne : key' ≠ key)
    (haddr : ∀ e, absIndex cfg cache fs key' = some e →
      addrOf e.sri ≠ some (o.algo.getD .sha256, Bytes.hex (cfg.H (o.algo.getD .sha256) chunks.flatten))) :
    (run env' (read cfg cache key') (run env (writeStream cfg cache fl (some key) o chunks) fs).2.1).1 =
      (run env' (read cfg cache key') fs).1 := by
  have := get_ignores_unrelated cfg cache [(env, COp.put fl key o chunks)] fs h hl
    (by intro x hx; simp at hx; subst hx; exact hw) key'
    (by intro x hx; simp at hx; subst hx; exact fun e => hne e.symm)
    (by
      intro e a hx he hax x hx'
      simp at hx'; subst hx'
      rintro ⟨rfl, rfl⟩
      exact haddr e he hax) env'
  exact this

/-! ### the same at the level of the store alone, and the one-shot entry points -/

theorem sSpecRun_append (a b : List (Env × SOp)) (m : AbsStore) :
    (sSpecRun cfg (a ++ b) m).2 = (sSpecRun cfg b (sSpecRun cfg a m).2).2 := by
  induction a generalizing m with
  | nil => rfl
  | cons x a ih => obtain ⟨env, op⟩ := x; simp only [List.cons_append, sSpecRun, ih]

theorem sSpecRun_kept (ops : List (Env × SOp)) (m : AbsStore) (a : Algo) (h : Bytes)
    (hd : ∀ x ∈ ops, ¬ x.2.drops a h) (hs : (m a h).isSome) : ((sSpecRun cfg ops m).2 a h).isSome := by
  induction ops generalizing m with
  | nil => exact hs
  | cons x ops ih =>
    obtain ⟨env, op⟩ := x
    simp only [sSpecRun]
    exact ih _ (fun y hy => hd y (List.mem_cons_of_mem _ hy))
      (sSpecStep_kept cfg m op a h (hd (env, op) (by simp)) hs)

theorem sSpecRun_untouched (ops : List (Env × SOp)) (m : AbsStore) (a : Algo) (h : Bytes)
    (ht : ∀ x ∈ ops, ¬ x.2.touches cfg a h) : (sSpecRun cfg ops m).2 a h = m a h := by
  induction ops generalizing m with
  | nil => rfl
  | cons x ops ih =>
    obtain ⟨env, op⟩ := x
    simp only [sSpecRun]
    rw [ih _ (fun y hy => ht y (List.mem_cons_of_mem _ hy))]
    exact sSpecStep_untouched cfg m op a h (ht (env, op) (by simp))

/-- **Read by address what was written by address**: after any sequence of by-address operations
in which an unkeyed write of `chunks` is not followed by a removal of its address, reading by the
integrity of the data succeeds and returns the bytes currently at the address, whose digest is
that of the data.  (The answer of the write itself may even have been a declaration error — the
content is published before the checks.) -/
theorem getHash_returns_last_put (pre post : List (Env × SOp)) (env : Env) (fl : Flavour)
    (o : WriteOpts) (chunks : List Bytes) (fs : FS) (h : HealthyStore cfg cache fs) (hl : HexLen cfg)
    (hdrop : ∀ x ∈ post, ¬ x.2.drops (o.algo.getD .sha256)
      (Bytes.hex (cfg.H (o.algo.getD .sha256) chunks.flatten)))
    (env' : Env) :
    ∃ b, absStore cache (sRunOps cfg cache (pre ++ (env, SOp.put fl o chunks) :: post) fs).2
        (o.algo.getD .sha256) (Bytes.hex (cfg.H (o.algo.getD .sha256) chunks.flatten)) = some b ∧
      cfg.H (o.algo.getD .sha256) b = cfg.H (o.algo.getD .sha256) chunks.flatten ∧
      (run env' (readHash cfg cache (Sri.compute cfg.H (o.algo.getD .sha256) chunks.flatten))
        (sRunOps cfg cache (pre ++ (env, SOp.put fl o chunks) :: post) fs).2).1 = .ok b := by
  obtain ⟨_, hA, hH⟩ := store_refines_map cfg cache (pre ++ (env, SOp.put fl o chunks) :: post) fs h hl
  have hsto : ((sSpecRun cfg (pre ++ (env, SOp.put fl o chunks) :: post) (absStore cache fs)).2
      (o.algo.getD .sha256) (Bytes.hex (cfg.H (o.algo.getD .sha256) chunks.flatten))).isSome := by
    rw [sSpecRun_append]
    simp only [sSpecRun]
    apply sSpecRun_kept cfg post _ _ _ hdrop
    simp only [sSpecStep]
    rw [AbsStore.set_same]
    rfl
  obtain ⟨b, hb⟩ := Option.isSome_iff_exists.mp hsto
  rw [← hA] at hb
  have hv := absStore_valid cfg cache hH hl hb
  refine ⟨b, hb, hv, ?_⟩
  rw [(run_readHash cfg cache env' _ _ hH).1]
  exact getSpec_compute cfg hl _ _ _ b hb hv

/-- Reading an address nobody wrote, in a cache that started empty: the I/O error `NotFound`. -/
theorem getHash_never_written (ops : List (Env × SOp)) (fs : FS)
    (hanc : ∀ q, q ≠ [] → q <+: cache → NoneOrDir fs q)
    (hbelow : ∀ q, cache <+: q → q ≠ cache → fs.get q = none) (hl : HexLen cfg)
    (a : Algo) (d : Bytes) (ht : ∀ x ∈ ops, ¬ x.2.touches cfg a (Bytes.hex (cfg.H a d))) (env' : Env) :
    (run env' (readHash cfg cache (Sri.compute cfg.H a d)) (sRunOps cfg cache ops fs).2).1 =
      .error (.io .notFound) := by
  have h := healthyStore_of_empty_cache cfg cache fs hanc hbelow
  obtain ⟨_, hA, hH⟩ := store_refines_map cfg cache ops fs h hl
  rw [(run_readHash cfg cache env' _ _ hH).1, hA]
  apply getSpec_compute_absent cfg hl
  rw [sSpecRun_untouched cfg ops _ _ _ ht, absStore_of_empty_cache cache fs hbelow]

/-- **`write_hash` then `read_hash`** on a healthy store: the write answers the integrity of the
data, the read returns exactly the data (the file at the address was just replaced by it), and the
writer's temp file is gone.  Covers the memory-mapped writer (`0 < data.length ≤ maxMmap`), the
plain one (larger data) and the empty write. -/
theorem readHash_after_writeHash (env env' : Env) (fl : Flavour) (a : Algo) (data : Bytes) (fs : FS)
    (h : HealthyStore cfg cache fs) (hl : HexLen cfg) :
    (run env (writeHash cfg fl cache a data) fs).1 = .ok (Sri.compute cfg.H a data) ∧
    (run env' (readHash cfg cache (Sri.compute cfg.H a data))
      (run env (writeHash cfg fl cache a data) fs).2.1).1 = .ok data ∧
    HealthyStore cfg cache (run env (writeHash cfg fl cache a data) fs).2.1 ∧
    TmpClean cache fs (run env (writeHash cfg fl cache a data) fs).2.1 := by
  rw [writeHash_eq_stream]
  obtain ⟨h1, h2⟩ := run_putStream cfg cache env fl { algo := some a, size := some data.length } [data] fs h hl
  have hfl : [data].flatten = data := by simp
  rw [hfl] at h1 h2
  obtain ⟨h3, h4⟩ := putFrame_store cfg cache h h2
  refine ⟨?_, ?_, h3, putFrame_tmp cfg cache h2⟩
  · rw [h1]; exact putAnswer_ok cfg rfl (Or.inr rfl)
  · rw [(run_readHash cfg cache env' _ _ h3).1, h4]
    apply getSpec_compute cfg hl _ a data data _ rfl
    exact AbsStore.set_same _ _ _ _

/-- **`write` then `read`** on a healthy cache (either flavour): the write answers the integrity
of the data, the read by key returns exactly the data, the cache is healthy again and the temp file
is gone. -/
theorem read_after_write (env env' : Env) (fl : Flavour) (a : Algo) (key data : Bytes) (fs : FS)
    (h : Healthy cfg cache fs) (hl : HexLen cfg) (hk : utf8Valid key = true)
    (hd : data.length ≤ Rec.u64Max) :
    (run env (write cfg fl cache a key data) fs).1 = .ok (Sri.compute cfg.H a data) ∧
    (run env' (read cfg cache key) (run env (write cfg fl cache a key data) fs).2.1).1 = .ok data ∧
    Healthy cfg cache (run env (write cfg fl cache a key data) fs).2.1 ∧
    TmpClean cache fs (run env (write cfg fl cache a key data) fs).2.1 := by
  have hwf := write_wf cfg fl key a data hk hd
  rw [write_eq_stream]
  have hfl : [data].flatten = data := by simp
  have key_fact : ∀ o : WriteOpts, PutWF key o [data] → o.algo = some a →
      (o.size = none ∨ o.size = some data.length) →
      (run env (writeStream cfg cache fl (some key) o [data]) fs).1 = .ok (Sri.compute cfg.H a data) ∧
      (run env' (read cfg cache key) (run env (writeStream cfg cache fl (some key) o [data]) fs).2.1).1 = .ok data ∧
      Healthy cfg cache (run env (writeStream cfg cache fl (some key) o [data]) fs).2.1 ∧
      TmpClean cache fs (run env (writeStream cfg cache fl (some key) o [data]) fs).2.1 := by
    intro o hw ha hz
    obtain ⟨h1, h2, h3, h4⟩ := run_putKeyed cfg cache env fl key o [data] fs h hl hw
    have hz' : o.size = none ∨ o.size = some [data].flatten.length := by rw [hfl]; exact hz
    obtain ⟨p1, p2⟩ := putSpec_ok cfg env (absCache cfg cache fs) key o [data] hw.nosri hz'
    have hal : o.algo.getD .sha256 = a := by rw [ha]; rfl
    refine ⟨?_, ?_, h3, h4⟩
    · rw [h1, p1, hfl, hal]
    · rw [(run_read cfg cache env' key _ h3).1, h2]
      unfold readSpec
      rw [p2]
      simp only [putEntry, hfl, hal]
      apply getSpec_compute cfg hl _ a data data _ rfl
      rw [putSpec_store, hfl, hal]
      exact AbsStore.set_same _ _ _ _
  cases fl with
  | sync => exact key_fact _ hwf rfl (Or.inl rfl)
  | async => exact key_fact _ hwf rfl (Or.inr rfl)

/-! ### non-vacuity: concrete runs from the empty filesystem -/

/-- The hypotheses are satisfiable by real sequences: on the empty filesystem (for any cache
path, any digest function with hex length ≥ 4), write `data` under key "k", write something else
under key "l", write other bytes by address — `read "k"` returns bytes with the digest of `data`;
after `remove "k"` it answers `NotFound`. -/
example (env : Env) (hl : HexLen cfg) (data other : Bytes) (hd : data.length ≤ Rec.u64Max)
    (ho : other.length ≤ Rec.u64Max) :
    (∃ b, cfg.H .sha256 b = cfg.H .sha256 data ∧
      (run env (read cfg cache [107])
        (cRunOps cfg cache [(env, COp.write .sync [107] .sha256 data), (env, COp.write .async [108] .sha1 other),
          (env, COp.addr (SOp.writeHash .sync .sha512 other))] FS.empty).2).1 = .ok b) ∧
    (run env (read cfg cache [107])
      (cRunOps cfg cache [(env, COp.write .sync [107] .sha256 data), (env, COp.remove [107])] FS.empty).2).1 =
      .error .notFound := by
  have h0 : Healthy cfg cache FS.empty :=
    healthy_of_empty_cache cfg cache FS.empty (fun _ _ _ => Or.inl rfl) (fun _ _ _ => rfl)
  have k1 : utf8Valid [107] = true := by decide
  have k2 : utf8Valid [108] = true := by decide
  have w1 := write_wf cfg .sync [107] .sha256 data k1 hd
  have w2 := write_wf cfg .async [108] .sha1 other k2 ho
  have hfl : [data].flatten = data := by simp
  constructor
  · obtain ⟨b, _, hv, hr⟩ := get_returns_last_put cfg cache [] [(env, COp.write .async [108] .sha1 other),
        (env, COp.addr (SOp.writeHash .sync .sha512 other))] env .sync [107] { algo := some .sha256 } [data]
      FS.empty h0 hl
      (by
        intro x hx
        simp at hx
        rcases hx with rfl | rfl | rfl
        · exact w1
        · exact w2
        · trivial)
      (Or.inl rfl)
      (by
        intro x hx
        simp at hx
        rcases hx with rfl | rfl
        · simp [COp.write, COp.writesKey]
        · simp [COp.writesKey])
      (by
        intro x hx
        simp at hx
        rcases hx with rfl | rfl
        · simp [COp.write, COp.dropsAddr]
        · simp [COp.dropsAddr, SOp.writeHash, SOp.drops])
      env
    rw [hfl] at hv
    exact ⟨b, hv, hr⟩
  · rw [get_after_ops cfg cache _ FS.empty h0 hl (by
      intro x hx
      simp at hx
      rcases hx with rfl | rfl
      · exact w1
      · exact k1)]
    simp [cSpecRun, cSpecStep, COp.remove, specStep, readSpec]

end Cacache.CacheRefine

section AxiomCheck
open Cacache.CacheRefine
#print axioms run_wopen
#print axioms run_wwriteAll
#print axioms run_wclose
#print axioms run_writeStream_phase
#print axioms healthyStore_of_empty_cache
#print axioms healthy_of_empty_cache
#print axioms run_putStream
#print axioms run_readHash
#print axioms run_existsHash
#print axioms run_removeHash
#print axioms sRunOp_refines
#print axioms store_refines_map
#print axioms run_putKeyed
#print axioms run_read
#print axioms cRunOp_refines
#print axioms cache_refines_map
#print axioms get_returns_last_put
#print axioms get_returns_last_put_data
#print axioms get_ignores_unrelated
#print axioms put_ignores_other_key
#print axioms getHash_returns_last_put
#print axioms getHash_never_written
#print axioms readHash_after_writeHash
#print axioms read_after_write
end AxiomCheck
