/-
A writer that is HELD OPEN, continued (`Lemmas/HeldWriter.lean` is part one).

* `held_commit_after_clear` — open and feed a writer (keyed OR by address, any options, any chunking)
  from a healthy, tidy cache, then run the model's `clear`, then commit the writer.  `clear` answers
  ok; the commit answers `Err(Io(NotFound))` — the model's `.error (.io .notFound)` — and NOTHING
  comes back: the cache is healthy and tidy, its abstraction is the EMPTY cache
  (`AbsCache.empty`, extended state `XAbs.cleared`), and nothing exists at or below `cache/tmp`.
  What the failed commit does to the filesystem is stated exactly (`run_wclose_missing`): when the
  writer still holds a mapping with a tail to cut (`mmap = some n`, `pos < n`) the `truncate` of the
  missing temp file fails and nothing changes at all; otherwise `create_dir_all` of the address's
  parent directory SUCCEEDS — the directories `content-v2/<algo>/<xx>/<yy>` are re-created — and
  then the `rename` of the missing temp file fails with NotFound, the clean-up `unlink` of the temp
  file fails (ignored), and the look at the address finds nothing.  So every path keeps its node or
  turns from absent into a directory on the way to the address's parent: empty directories only.
  `nothing_comes_back` reads the conclusion through the model's own `find` / `read` / `exists` /
  `read_hash` programs, `ops_after_held_commit_after_clear` through the extended refinement.
* `held_commit_refines_unkeyed` — `held_commit_refines` for a BY-ADDRESS writer (`key = none`): from
  any healthy state that kept the temp file, the commit answers `putAnswer` (the computed integrity,
  or the integrity / size error of the declarations), the abstract store gains exactly
  address ↦ bytes, the abstract index is unchanged, the cache is healthy, the temp file is gone,
  every other entry of `cache/tmp` is as found.  `held_commit_unkeyed_step` restates it as the
  abstract step `cSpecStep … (.addr (.put fl o chunks))`; `held_commit_unkeyed_wrong_size` and
  `held_commit_unkeyed_ok` spell the answer out.
* `heldOpen_keeps_tmp`, `held_two_writers` — two keyed writers of the SAME key, opened one after the
  other, committed in either order: the key maps to the entry of the writer that committed LAST,
  both contents are in the store, the cache is healthy, neither temp file is left.

No existing file is edited.
-/
import Cacache.Lemmas.HeldWriter

namespace Cacache.HeldWriter2
open Prog Json Refine CacheRefine ListRefine HeldWriter

variable (cfg : Cfg) (cache : Path)

/-! ### part 2: the commit of a by-address writer, from any healthy state that kept the temp file -/

/-- **The commit of a held by-address writer refines the abstract by-address `put` on the state it
finds.**

From a healthy cache `fs0` run the open phase (`heldOpen … none o chunks`: `wopen`, then one `wwrite`
per non-empty chunk) of a by-address write — ANY options: any algorithm, declared size, declared
integrity — obtaining the writer `w` and the state `fs1`.  Let `fs2` be ANY state with
* `h2` — the cache is healthy in `fs2`, and
* `hkeep` — the node at the writer's temp path is what it was in `fs1`.
Then `wcommit cfg w` run from `fs2` (any environment) answers `putAnswer cfg o chunks.flatten` — the
computed integrity if the declarations hold, else `.error .integrity` (declared integrity not
matched) or `.error (.size n fed)` (declared size `n` ≠ bytes fed): `declCheck` —; the abstract
store of the final state is that of `fs2` with the address of the bytes mapped to the bytes (the
content is published BEFORE the declarations are checked, as in a back-to-back write:
`run_putStream`); the abstract index is that of `fs2`; the cache is healthy; the temp file is gone;
every other entry of `cache/tmp` is as in `fs2`.

Hypotheses: `h0` is only used through `cache/tmp` and its ancestors being absent or directories (the
open phase succeeds); `hl` (`HexLen`: hex digests have ≥ 4 characters, or `content_path` panics);
`hopen` / `hfs1` name the outcome of the open phase (`run_heldOpen`: it always answers a writer). -/
theorem held_commit_refines_unkeyed (env env' : Env) (fl : Flavour) (o : WriteOpts)
    (chunks : List Bytes) (fs0 fs1 fs2 : FS) (w : Writer)
    (h0 : Healthy cfg cache fs0) (hl : HexLen cfg)
    (hopen : (run env (heldOpen cfg cache fl none o chunks) fs0).1 = .ok w)
    (hfs1 : (run env (heldOpen cfg cache fl none o chunks) fs0).2.1 = fs1)
    (h2 : Healthy cfg cache fs2)
    (hkeep : fs2.get w.tmp = fs1.get w.tmp) :
    (run env' (wcommit cfg w) fs2).1 = putAnswer cfg o chunks.flatten ∧
    absStore cache (run env' (wcommit cfg w) fs2).2.1 =
      (absStore cache fs2).set (o.algo.getD .sha256)
        (Bytes.hex (cfg.H (o.algo.getD .sha256) chunks.flatten)) (some chunks.flatten) ∧
    absIndex cfg cache (run env' (wcommit cfg w) fs2).2.1 = absIndex cfg cache fs2 ∧
    Healthy cfg cache (run env' (wcommit cfg w) fs2).2.1 ∧
    (run env' (wcommit cfg w) fs2).2.1.get w.tmp = none ∧
    ∀ n, (cache ++ [dTmp]) ++ [n] ≠ w.tmp →
      (run env' (wcommit cfg w) fs2).2.1.get ((cache ++ [dTmp]) ++ [n]) = fs2.get ((cache ++ [dTmp]) ++ [n]) := by
  obtain ⟨w0, r0, hc, hk, ho, hwr, hhash, halg, ht, inv1, -, -⟩ :=
    run_heldOpen cfg cache env fl none o chunks fs0 h0.store.tmpDirs
  rw [hopen] at r0
  have hw0 : w = w0 := Except.ok.inj r0
  subst hw0
  rw [hfs1] at inv1
  have inv2 : WInv w fs2 := winv_of_get inv1 hkeep
  obtain ⟨fs3, e1, e2, hp⟩ := run_wcommit_phase cfg cache env' w fs2 fs0.next h2.store hl hc ht inv2
  rw [halg, hhash] at e1 e2 hp
  obtain ⟨hS3, hA3⟩ := putFrame_store cfg cache (healthyStore_withNext cfg cache h2.store fs0.next) hp
  obtain ⟨hI3, hB3⟩ := putFrame_index cfg cache (healthyIndex_withNext cfg cache h2.index fs0.next) hp
  have hT3 := putFrame_tmp cfg cache hp
  have hA3' : absStore cache fs3 = (absStore cache fs2).set (o.algo.getD .sha256)
      (Bytes.hex (cfg.H (o.algo.getD .sha256) chunks.flatten)) (some chunks.flatten) := hA3
  have hB3' : absIndex cfg cache fs3 = absIndex cfg cache fs2 := hB3
  have hT3a : fs3.get w.tmp = none := by rw [ht]; exact hT3.1
  have hT3b : ∀ n, (cache ++ [dTmp]) ++ [n] ≠ w.tmp →
      fs3.get ((cache ++ [dTmp]) ++ [n]) = fs2.get ((cache ++ [dTmp]) ++ [n]) := by
    intro n hn
    apply hT3.2 n
    intro e
    apply hn
    rw [ht, e]; rfl
  rw [e1, e2]
  unfold commitTail putAnswer
  rw [commitChecks_eq, ho, hwr]
  cases hck : declCheck o chunks.flatten.length (Sri.compute cfg.H (o.algo.getD .sha256) chunks.flatten) with
  | error e => exact ⟨rfl, hA3', hB3', ⟨hI3, hS3⟩, hT3a, hT3b⟩
  | ok recorded =>
    simp only [wcommitIndex, hk]
    exact ⟨rfl, hA3', hB3', ⟨hI3, hS3⟩, hT3a, hT3b⟩

/-- … as one step of the abstract cache: the answer and the final abstract cache are
`cSpecStep … (.addr (.put fl o chunks))` — the by-address `put` of `cache_refines_map` — applied to
the abstraction of the state the commit found. -/
theorem held_commit_unkeyed_step (env env' : Env) (fl : Flavour) (o : WriteOpts)
    (chunks : List Bytes) (fs0 fs1 fs2 : FS) (w : Writer)
    (h0 : Healthy cfg cache fs0) (hl : HexLen cfg)
    (hopen : (run env (heldOpen cfg cache fl none o chunks) fs0).1 = .ok w)
    (hfs1 : (run env (heldOpen cfg cache fl none o chunks) fs0).2.1 = fs1)
    (h2 : Healthy cfg cache fs2)
    (hkeep : fs2.get w.tmp = fs1.get w.tmp) :
    COut.addr (.wrote (run env' (wcommit cfg w) fs2).1) =
      (cSpecStep cfg env' (absCache cfg cache fs2) (.addr (.put fl o chunks))).2 ∧
    absCache cfg cache (run env' (wcommit cfg w) fs2).2.1 =
      (cSpecStep cfg env' (absCache cfg cache fs2) (.addr (.put fl o chunks))).1 := by
  obtain ⟨a1, a2, a3, _⟩ :=
    held_commit_refines_unkeyed cfg cache env env' fl o chunks fs0 fs1 fs2 w h0 hl hopen hfs1 h2 hkeep
  refine ⟨by rw [a1]; rfl, ?_⟩
  simp only [absCache, a2, a3, cSpecStep, sSpecStep]

/-- The size error, spelled out: a by-address writer that declared the size `n`, declared no
integrity, and was fed another number of bytes answers `.error (.size n <bytes fed>)` at its (late)
commit — and the bytes fed ARE in the store (the publication comes before the check). -/
theorem held_commit_unkeyed_wrong_size (env env' : Env) (fl : Flavour) (o : WriteOpts)
    (chunks : List Bytes) (fs0 fs1 fs2 : FS) (w : Writer)
    (h0 : Healthy cfg cache fs0) (hl : HexLen cfg)
    (hopen : (run env (heldOpen cfg cache fl none o chunks) fs0).1 = .ok w)
    (hfs1 : (run env (heldOpen cfg cache fl none o chunks) fs0).2.1 = fs1)
    (h2 : Healthy cfg cache fs2)
    (hkeep : fs2.get w.tmp = fs1.get w.tmp)
    (n : Nat) (hs : o.sri = none) (hz : o.size = some n) (hne : n ≠ chunks.flatten.length) :
    (run env' (wcommit cfg w) fs2).1 = .error (.size n chunks.flatten.length) ∧
    absStore cache (run env' (wcommit cfg w) fs2).2.1 (o.algo.getD .sha256)
      (Bytes.hex (cfg.H (o.algo.getD .sha256) chunks.flatten)) = some chunks.flatten := by
  obtain ⟨a1, a2, _⟩ :=
    held_commit_refines_unkeyed cfg cache env env' fl o chunks fs0 fs1 fs2 w h0 hl hopen hfs1 h2 hkeep
  refine ⟨?_, by rw [a2]; exact AbsStore.set_same _ _ _ _⟩
  rw [a1]
  unfold putAnswer
  rw [declCheck_none hs, hz]
  simp only [ne_eq, hne, not_false_eq_true, if_true]

/-- The good case, spelled out: no declared integrity, no declared size or the right one — the
commit answers the integrity of the bytes fed. -/
theorem held_commit_unkeyed_ok (env env' : Env) (fl : Flavour) (o : WriteOpts)
    (chunks : List Bytes) (fs0 fs1 fs2 : FS) (w : Writer)
    (h0 : Healthy cfg cache fs0) (hl : HexLen cfg)
    (hopen : (run env (heldOpen cfg cache fl none o chunks) fs0).1 = .ok w)
    (hfs1 : (run env (heldOpen cfg cache fl none o chunks) fs0).2.1 = fs1)
    (h2 : Healthy cfg cache fs2)
    (hkeep : fs2.get w.tmp = fs1.get w.tmp)
    (hs : o.sri = none) (hz : o.size = none ∨ o.size = some chunks.flatten.length) :
    (run env' (wcommit cfg w) fs2).1 = .ok (Sri.compute cfg.H (o.algo.getD .sha256) chunks.flatten) := by
  obtain ⟨a1, _⟩ :=
    held_commit_refines_unkeyed cfg cache env env' fl o chunks fs0 fs1 fs2 w h0 hl hopen hfs1 h2 hkeep
  rw [a1]
  unfold putAnswer
  rw [declCheck_none hs]
  rcases hz with hz | hz <;> rw [hz] <;> simp

/-! ### part 1: the commit of a writer whose temp file is gone -/

/-- A failed publication makes `commit` fail with the same error, without any further call. -/
theorem run_wcommit_err (env : Env) (w : Writer) (fs : FS) (e : Err)
    (h : (run env (wclose cfg w) fs).1 = .error e) :
    (run env (wcommit cfg w) fs).1 = .error e ∧
    (run env (wcommit cfg w) fs).2.1 = (run env (wclose cfg w) fs).2.1 := by
  unfold wcommit wcommitCheck
  simp only [bind_eq, pure_eq, run_bind_res, run_bind_fs, h]
  exact ⟨rfl, rfl⟩

/-- **Closing a writer whose temp file is GONE**, in a filesystem where the address of what it
hashed is absent and the directories on the way to it are absent or directories: the answer is
`Err(Io(NotFound))`, and
* when the writer holds a mapping with a tail to cut (`mmap = some n`, `pos < n`), `truncate` of the
  missing temp file fails and the filesystem is unchanged;
* otherwise `create_dir_all` of the address's parent succeeds (that directory exists afterwards),
  `rename` fails with NotFound, the clean-up `unlink` fails (ignored), the address does not exist.
Either way every path keeps its node or turns from absent into a directory on the way to the
address's parent. -/
theorem run_wclose_missing (env : Env) (w : Writer) (fs : FS) (tn : Bytes) (hc : w.cache = cache)
    (htn : w.tmp = (cache ++ [dTmp]) ++ [tn])
    (hl : 4 ≤ (Bytes.hex (cfg.H w.algo w.hashed)).length)
    (ht : fs.get w.tmp = none)
    (hd : ∀ q, q ≠ [] → q <+: FS.parent (addrPath cache w.algo (Bytes.hex (cfg.H w.algo w.hashed))) →
      NoneOrDir fs q)
    (ha : fs.get (addrPath cache w.algo (Bytes.hex (cfg.H w.algo w.hashed))) = none) :
    (run env (wclose cfg w) fs).1 = .error (.io .notFound) ∧
    (∀ q, Grow fs (run env (wclose cfg w) fs).2.1 q
      (FS.parent (addrPath cache w.algo (Bytes.hex (cfg.H w.algo w.hashed))))) ∧
    ((∃ n, w.mmap = some n ∧ w.pos < n) → (run env (wclose cfg w) fs).2.1 = fs) ∧
    ((¬ ∃ n, w.mmap = some n ∧ w.pos < n) → (run env (wclose cfg w) fs).2.1.get
      (FS.parent (addrPath cache w.algo (Bytes.hex (cfg.H w.algo w.hashed)))) = some .dir) := by
  have hlt : ¬ (Bytes.hex (cfg.H w.algo w.hashed)).length < 4 := by omega
  obtain ⟨fs1, hm, hdir, hframe, hget⟩ := mkdirP_ok fs _ (parent_addr_ne_nil cache _ _) hd
  have h1t : fs1.get w.tmp = none := by
    rw [hframe w.tmp (by rw [htn]; exact tmp_not_prefix_parent_addr cache tn _ _)]; exact ht
  have h1a : fs1.get (addrPath cache w.algo (Bytes.hex (cfg.H w.algo w.hashed))) = none := by
    rw [hframe _ (addr_not_prefix_parent cache _ _ _ _)]; exact ha
  have hex : fs1.existsFollow (addrPath cache w.algo (Bytes.hex (cfg.H w.algo w.hashed))) = false := by
    rw [existsFollow_plain (addr_ne_nil cache _ _) (Or.inl h1a), h1a]; rfl
  have hgrow : ∀ q, Grow fs fs1 q (FS.parent (addrPath cache w.algo (Bytes.hex (cfg.H w.algo w.hashed)))) := by
    intro q
    rcases hget q with h1 | ⟨h1, h2⟩
    · exact Or.inl h1
    · refine Or.inr ⟨h1, h2, ?_⟩
      apply Classical.byContradiction
      intro hn
      rw [hframe q hn, h1] at h2
      cases h2
  unfold wclose dropTmp
  dsimp only
  rw [contentPath_compute, hc]
  simp only [hlt, if_false]
  simp only [bind_eq, pure_eq, call, bind_sys, bind_done]
  split
  · rename_i n hmm
    split
    · rename_i hpn
      simp only [bind_sys, bind_done, run_sys_res, run_sys_fs, exec, ht, run_done_res, run_done_fs]
      refine ⟨trivial, fun q => Or.inl rfl, fun _ => trivial, ?_⟩
      intro hno
      exact absurd ⟨n, hmm, hpn⟩ hno
    · rename_i hpn
      simp only [bind_done, run_sys_res, run_sys_fs, exec, hm, h1t, hex, run_done_res, run_done_fs]
      refine ⟨trivial, hgrow, ?_, fun _ => hdir⟩
      rintro ⟨n', hn', hlt'⟩
      rw [hmm] at hn'; cases hn'
      exact absurd hlt' hpn
  · rename_i hmm
    simp only [bind_done, run_sys_res, run_sys_fs, exec, hm, h1t, hex, run_done_res, run_done_fs]
    refine ⟨trivial, hgrow, ?_, fun _ => hdir⟩
    rintro ⟨n', hn', _⟩
    rw [hmm] at hn'; cases hn'

/-- A state change that leaves every path alone, or turns it from absent into a directory on the way
to the parent directory of a content address, keeps the cache healthy and tidy-shaped and does not
change what it abstracts to. -/
theorem healthy_of_grow_addr {fs fs' : FS} (h : Healthy cfg cache fs) (a : Algo) (hx : Bytes)
    (hg : ∀ q, Grow fs fs' q (FS.parent (addrPath cache a hx))) :
    Healthy cfg cache fs' ∧ absCache cfg cache fs' = absCache cfg cache fs ∧
    (∀ k, fs'.get (bucketPath cfg cache k) = fs.get (bucketPath cfg cache k)) ∧
    Moves cfg cache fs fs' := by
  have haddr : ∀ a' hexd, fs'.get (addrPath cache a' hexd) = fs.get (addrPath cache a' hexd) := by
    intro a' hexd
    rcases hg (addrPath cache a' hexd) with g | ⟨_, _, g⟩
    · exact g
    · exact absurd g (addr_not_prefix_parent cache _ _ _ _)
  have hbk : ∀ k, fs'.get (bucketPath cfg cache k) = fs.get (bucketPath cfg cache k) := by
    intro key
    rcases hg (bucketPath cfg cache key) with g | ⟨_, _, g⟩
    · exact g
    · exact absurd g (bucket_not_prefix_parent_addr cfg cache key _ _)
  have hS : HealthyStore cfg cache fs' := by
    apply h.store.step
    · intro a' hexd _; exact Or.inl (haddr a' hexd)
    · intro q _
      rcases hg q with g | ⟨g1, g2, _⟩
      · exact Or.inl g
      · exact Or.inr ⟨g1, g2⟩
  have hI := healthyIndex_grow cfg cache h.index (fs' := fs') hbk
    (by
      intro key q _ _
      rcases hg q with g | ⟨g1, g2, _⟩
      · exact Or.inl g
      · exact Or.inr ⟨g1, g2⟩)
  refine ⟨⟨hI.1, hS⟩, ?_, hbk, ?_⟩
  · unfold absCache
    rw [hI.2]
    congr 1
    funext a' hexd
    unfold absStore
    rw [haddr]
  · intro q
    rcases hg q with g | ⟨_, g2, g3⟩
    · exact Or.inl g
    · right; right; left
      exact ⟨g2, _, dContent, top3_content, inArea_parent_addr cache a hx, g3⟩

/-- **A writer that was open when the cache was cleared cannot bring anything back.**

From a healthy, tidy cache `fs0` (`h0`; tidiness is what `clear` needs: everything below the cache
directory is enumerable and lies in the three areas) open and feed a writer — keyed (`key = some k`)
or by address (`key = none`), any flavour, options and chunking — obtaining the writer `w` and the
state `fs1` (`hopen`, `hfs1`: the outcome of the open phase, which `run_heldOpen` shows to exist).
Run the model's `clear` from `fs1`, obtaining `fs2` (`hfs2`), then `wcommit cfg w` from `fs2`:
* `clear` answers ok (the cache directory exists: the open phase created `cache/tmp`);
* the commit answers **`.error (.io .notFound)`** — `Err(Io(NotFound))`: the failed `rename` of the
  missing temp file, or, for a writer with a mapped tail to cut, the failed `truncate`;
* afterwards the cache is healthy and tidy, it abstracts to the EMPTY cache — `AbsCache.empty`: every
  key unmapped, every address empty — and to `XAbs.cleared` (directory there, no index directory, no
  bucket file), and NOTHING exists at or below `cache/tmp`;
* what the failed commit does change, exactly: every path keeps the node it has in `fs2` or turns
  from absent into a directory on the way to the parent directory of the address of the bytes fed
  (`create_dir_all` runs before the `rename`): if the writer has a mapped tail to cut nothing changes
  at all, otherwise `content-v2/<algo>/<xx>/<yy>` exists (empty) afterwards.

`hl` (`HexLen`): hex digests have ≥ 4 characters (else `content_path` panics instead). -/
theorem held_commit_after_clear (env envc env' : Env) (fl : Flavour) (key : Option Bytes) (o : WriteOpts)
    (chunks : List Bytes) (fs0 fs1 fs2 : FS) (w : Writer)
    (h0 : XHealthy cfg cache fs0) (hl : HexLen cfg)
    (hopen : (run env (heldOpen cfg cache fl key o chunks) fs0).1 = .ok w)
    (hfs1 : (run env (heldOpen cfg cache fl key o chunks) fs0).2.1 = fs1)
    (hfs2 : (run envc (clear cache) fs1).2.1 = fs2) :
    (run envc (clear cache) fs1).1 = .ok () ∧
    (run env' (wcommit cfg w) fs2).1 = .error (.io .notFound) ∧
    XHealthy cfg cache (run env' (wcommit cfg w) fs2).2.1 ∧
    absCache cfg cache (run env' (wcommit cfg w) fs2).2.1 = AbsCache.empty ∧
    absX cfg cache (run env' (wcommit cfg w) fs2).2.1 = XAbs.cleared ∧
    (∀ q, cache ++ [dTmp] <+: q → (run env' (wcommit cfg w) fs2).2.1.get q = none) ∧
    (∀ q, Grow fs2 (run env' (wcommit cfg w) fs2).2.1 q
      (FS.parent (addrPath cache (o.algo.getD .sha256)
        (Bytes.hex (cfg.H (o.algo.getD .sha256) chunks.flatten))))) ∧
    ((∃ n, w.mmap = some n ∧ w.pos < n) → (run env' (wcommit cfg w) fs2).2.1 = fs2) ∧
    ((¬ ∃ n, w.mmap = some n ∧ w.pos < n) → (run env' (wcommit cfg w) fs2).2.1.get
      (FS.parent (addrPath cache (o.algo.getD .sha256)
        (Bytes.hex (cfg.H (o.algo.getD .sha256) chunks.flatten)))) = some .dir) := by
  obtain ⟨w0, r0, hc, _, _, _, hhash, halg, ht, _, _, _⟩ :=
    run_heldOpen cfg cache env fl key o chunks fs0 h0.healthy.store.tmpDirs
  rw [hopen] at r0
  have hw0 : w = w0 := Except.ok.inj r0
  subst hw0
  obtain ⟨h1, _⟩ := heldOpen_healthy cfg cache env fl key o chunks fs0 h0.healthy
  obtain ⟨t1, x1⟩ := heldOpen_tidy cfg cache env fl key o chunks fs0 h0.healthy h0.tidy
  rw [hfs1] at h1 t1 x1
  have hd1 : fs1.isDir cache = true := congrArg XAbs.cacheDir x1
  obtain ⟨c1, _, gone, cdir, hH2, hT2, hA2⟩ := clear_empties cfg cache envc fs1 h1 t1 hd1
  rw [hfs2] at gone cdir hH2 hT2 hA2
  have hX2 : absX cfg cache fs2 = XAbs.cleared := absX_cleared cfg cache gone cdir
  have ht' : w.tmp = (cache ++ [dTmp]) ++ [tmpName fs0.next] := ht
  have htmp2 : fs2.get w.tmp = none := by
    rw [ht']
    apply gone _ (prefix_tmp cache _)
    intro e; have := congrArg List.length e; simp at this
  have hlen := hl w.algo w.hashed
  have haddr2 : fs2.get (addrPath cache w.algo (Bytes.hex (cfg.H w.algo w.hashed))) = none :=
    gone _ (cache_prefix_addr cache _ _) (addr_ne_cache cache _ _)
  obtain ⟨r3, g3, same3, dir3⟩ := run_wclose_missing cfg cache env' w fs2 _ hc ht' hlen htmp2
    (fun q hq hp => hH2.store.dirs _ _ q hlen hq hp) haddr2
  obtain ⟨e1, e2⟩ := run_wcommit_err cfg env' w fs2 _ r3
  rw [← e2] at g3 same3 dir3
  rw [halg, hhash] at g3 dir3
  obtain ⟨hH3, hA3, hb3, hM3⟩ := healthy_of_grow_addr cfg cache hH2 _ _ g3
  have hT3 : Tidy cfg cache (run env' (wcommit cfg w) fs2).2.1 :=
    tidy_run cfg cache env' _ (ListRefine.wcommit_safe cfg cache w) fs2 hT2
      (shape_moves cfg cache hT2.shape hM3)
      (recsOK_of_buckets cfg cache hT2.recs (fun k => Or.inl (hb3 k)))
  have hbelow3 : ∀ q, cache ++ [dTmp] <+: q → (run env' (wcommit cfg w) fs2).2.1.get q = none := by
    intro q hq
    rcases g3 q with g | ⟨_, _, g⟩
    · rw [g]
      apply gone q ((List.prefix_append _ _).trans hq)
      intro e
      have := hq.length_le
      rw [e] at this; simp at this; omega
    · exact absurd g (area_sep dTmp_ne_dContent hq (inArea_parent_addr cache _ _))
  have hi3 : (run env' (wcommit cfg w) fs2).2.1.get (cache ++ [dIndex]) = fs2.get (cache ++ [dIndex]) := by
    rcases g3 (cache ++ [dIndex]) with g | ⟨_, _, g⟩
    · exact g
    · exact absurd g (area_sep dIndex_ne_dContent (List.prefix_refl _) (inArea_parent_addr cache _ _))
  have hc3 : (run env' (wcommit cfg w) fs2).2.1.isDir cache = fs2.isDir cache := by
    rcases g3 cache with g | ⟨g1, _, _⟩
    · exact isDir_congr g
    · by_cases e : cache = []
      · rw [e]; rfl
      · rw [isDir_iff e, g1] at cdir; cases cdir
  refine ⟨c1, e1, ⟨hH3, hT3⟩, by rw [hA3, hA2], ?_, hbelow3, g3, same3, dir3⟩
  rw [absX_kept cfg cache hb3 hi3 hc3, hX2, hA3, hA2]
  rfl


/-- **… read through the model's own programs**: after the commit of a writer that was open across
a `clear` (hypotheses of `held_commit_after_clear`), in every environment `find` / `metadata` of
every key answers `Ok(None)`, `read` of every key answers `Err(NotFound)`, and `exists` /
`read_hash` by the integrity of ANY bytes — in particular the bytes the writer was fed — answer
`Ok(false)` / `Err(Io(NotFound))`. -/
theorem nothing_comes_back (env envc env' : Env) (fl : Flavour) (key : Option Bytes) (o : WriteOpts)
    (chunks : List Bytes) (fs0 fs1 fs2 : FS) (w : Writer)
    (h0 : XHealthy cfg cache fs0) (hl : HexLen cfg)
    (hopen : (run env (heldOpen cfg cache fl key o chunks) fs0).1 = .ok w)
    (hfs1 : (run env (heldOpen cfg cache fl key o chunks) fs0).2.1 = fs1)
    (hfs2 : (run envc (clear cache) fs1).2.1 = fs2) :
    (∀ e k, (run e (find cfg cache k) (run env' (wcommit cfg w) fs2).2.1).1 = .ok none) ∧
    (∀ e k, (run e (read cfg cache k) (run env' (wcommit cfg w) fs2).2.1).1 = .error .notFound) ∧
    (∀ e a d, (run e (existsHash cache (Sri.compute cfg.H a d)) (run env' (wcommit cfg w) fs2).2.1).1 =
      .ok false) ∧
    (∀ e a d, (run e (readHash cfg cache (Sri.compute cfg.H a d)) (run env' (wcommit cfg w) fs2).2.1).1 =
      .error (.io .notFound)) := by
  obtain ⟨_, _, hX, hA, _⟩ := held_commit_after_clear cfg cache env envc env' fl key o chunks fs0 fs1 fs2 w
    h0 hl hopen hfs1 hfs2
  have hi : ∀ k, absIndex cfg cache (run env' (wcommit cfg w) fs2).2.1 k = none :=
    fun k => congrArg (fun c => c.index k) hA
  have hs : absStore cache (run env' (wcommit cfg w) fs2).2.1 = fun _ _ => none :=
    congrArg AbsCache.store hA
  refine ⟨?_, ?_, ?_, ?_⟩
  · intro e k
    rw [(run_find cfg cache e k _ hX.healthy.index).1, hi]
  · intro e k
    rw [(run_read cfg cache e k _ hX.healthy).1, hA]
    rfl
  · intro e a d
    rw [(run_existsHash cfg cache e _ _ hX.healthy.store).1, hs]
    unfold hasSpec
    rw [addrOf_compute cfg hl a d]
    rfl
  · intro e a d
    rw [(run_readHash cfg cache e _ _ hX.healthy.store).1, hs]
    unfold getSpec
    rw [addrOf_compute cfg hl a d]

/-- … and through the extended refinement: any sequence of operations (keyed and by-address writes,
reads, removals, listings, clears) run after that commit behaves exactly as from a freshly cleared
cache — the abstract machine started from `XAbs.cleared`. -/
theorem ops_after_held_commit_after_clear (env envc env' : Env) (fl : Flavour) (key : Option Bytes)
    (o : WriteOpts) (chunks : List Bytes) (fs0 fs1 fs2 : FS) (w : Writer)
    (h0 : XHealthy cfg cache fs0) (hl : HexLen cfg)
    (hopen : (run env (heldOpen cfg cache fl key o chunks) fs0).1 = .ok w)
    (hfs1 : (run env (heldOpen cfg cache fl key o chunks) fs0).2.1 = fs1)
    (hfs2 : (run envc (clear cache) fs1).2.1 = fs2)
    (ops : List (Env × XOp)) (hops : ∀ x ∈ ops, x.2.WF cfg) :
    Answers (xRunOps cfg cache ops (run env' (wcommit cfg w) fs2).2.1).1 (xSpecRun cfg ops XAbs.cleared).1 ∧
    absX cfg cache (xRunOps cfg cache ops (run env' (wcommit cfg w) fs2).2.1).2 =
      (xSpecRun cfg ops XAbs.cleared).2 ∧
    XHealthy cfg cache (xRunOps cfg cache ops (run env' (wcommit cfg w) fs2).2.1).2 := by
  obtain ⟨_, _, hX, _, hC, _⟩ := held_commit_after_clear cfg cache env envc env' fl key o chunks fs0 fs1 fs2 w
    h0 hl hopen hfs1 hfs2
  have := cache_refines_map_ext cfg cache ops _ hX hl hops
  rw [hC] at this
  exact this

/-! ### part 3: two keyed writers of the same key, committed in either order -/

/-- **The open phase of ANOTHER writer leaves a held temp file alone**: temp file number `m` below
the counter (handed out before this open phase started) keeps its node.  `h`: `cache/tmp` and its
ancestors are absent or directories (part of `HealthyStore`), so that the open phase succeeds. -/
theorem heldOpen_keeps_tmp (env : Env) (fl : Flavour) (key : Option Bytes) (o : WriteOpts)
    (chunks : List Bytes) (fs : FS) (h : ∀ q, q ≠ [] → q <+: cache ++ [dTmp] → NoneOrDir fs q)
    (m : Nat) (hm : m < fs.next) :
    (run env (heldOpen cfg cache fl key o chunks) fs).2.1.get (tmpPath cache m) = fs.get (tmpPath cache m) := by
  obtain ⟨w, _, _, _, _, _, _, _, ht, _, _, hg⟩ := run_heldOpen cfg cache env fl key o chunks fs h
  have hne : tmpPath cache m ≠ w.tmp := by
    rw [ht]
    intro e
    have e' : (cache ++ [dTmp]) ++ [tmpName m] = (cache ++ [dTmp]) ++ [tmpName fs.next] := e
    have := List.append_cancel_left e'
    simp at this
    exact tmpName_ne_of_lt hm this
  rcases hg _ hne with g | ⟨_, _, g⟩
  · exact g
  · exact absurd g (tmp_not_prefix_tmpDir cache _)

/-- What two commits of keyed writers of the same key `k` leave behind, relative to the state `fs0`
before either writer was opened: `F` is the writer that committed FIRST (options `oF`, bytes `dF`,
answer `rF`), `L` the one that committed LAST (options `oL`, bytes `dL`, answer `rL`, commit run in
environment `envL`).  Both commits answer the integrity of their bytes; the key maps to the entry of
`L`; every other key is as in `fs0`; the store is that of `fs0` updated at the address of `dF`, then
at the address of `dL`; the cache is healthy; neither temp file is left. -/
def TwoCommitted (fs0 fs4 : FS) (k : Bytes) (envL : Env) (oF oL : WriteOpts) (dF dL : Bytes)
    (rF rL : Res Integrity) (tmp1 tmp2 : Path) : Prop :=
  rF = .ok (Sri.compute cfg.H (oF.algo.getD .sha256) dF) ∧
  rL = .ok (Sri.compute cfg.H (oL.algo.getD .sha256) dL) ∧
  absIndex cfg cache fs4 k = some (putEntry cfg envL k oL dL) ∧
  (∀ k', k' ≠ k → absIndex cfg cache fs4 k' = absIndex cfg cache fs0 k') ∧
  absStore cache fs4 =
    (((absStore cache fs0).set (oF.algo.getD .sha256) (Bytes.hex (cfg.H (oF.algo.getD .sha256) dF)) (some dF)).set
      (oL.algo.getD .sha256) (Bytes.hex (cfg.H (oL.algo.getD .sha256) dL)) (some dL)) ∧
  Healthy cfg cache fs4 ∧ fs4.get tmp1 = none ∧ fs4.get tmp2 = none

/-- Both contents are in the store: the last committer's always; the first committer's unless the
two addresses coincide for different bytes (`hcol` excludes exactly that — a digest collision under
the same algorithm; with equal bytes or different addresses it holds). -/
theorem TwoCommitted.store_both {fs0 fs4 : FS} {k : Bytes} {envL : Env} {oF oL : WriteOpts} {dF dL : Bytes}
    {rF rL : Res Integrity} {tmp1 tmp2 : Path}
    (h : TwoCommitted cfg cache fs0 fs4 k envL oF oL dF dL rF rL tmp1 tmp2)
    (hcol : (oF.algo.getD .sha256 = oL.algo.getD .sha256 ∧
      Bytes.hex (cfg.H (oF.algo.getD .sha256) dF) = Bytes.hex (cfg.H (oL.algo.getD .sha256) dL)) → dF = dL) :
    absStore cache fs4 (oL.algo.getD .sha256) (Bytes.hex (cfg.H (oL.algo.getD .sha256) dL)) = some dL ∧
    absStore cache fs4 (oF.algo.getD .sha256) (Bytes.hex (cfg.H (oF.algo.getD .sha256) dF)) = some dF := by
  obtain ⟨_, _, _, _, hs, _⟩ := h
  rw [hs]
  refine ⟨AbsStore.set_same _ _ _ _, ?_⟩
  by_cases e : oF.algo.getD .sha256 = oL.algo.getD .sha256 ∧
      Bytes.hex (cfg.H (oF.algo.getD .sha256) dF) = Bytes.hex (cfg.H (oL.algo.getD .sha256) dL)
  · rw [hcol e, e.1]
    exact AbsStore.set_same _ _ _ _
  · rw [AbsStore.set_other _ _ e]
    exact AbsStore.set_same _ _ _ _

/-- **Two keyed writers of the SAME key, opened one after the other, committed in either order.**

From a healthy cache `fs0` open and feed writer W1 (`hopen1`, `hfs1`: writer `w1`, state `fs1`), then
— W1 still open — open and feed writer W2 of the same key from `fs1` (`hopen2`, `hfs2`: writer `w2`,
state `fs2`).  Then
* commit W2, then W1 (environments `eA`, `eB`): `TwoCommitted` with W2 first and W1 LAST — the key
  maps to W1's entry;
* commit W1, then W2: `TwoCommitted` with W1 first and W2 LAST — the key maps to W2's entry.
In both orders both commits succeed, the store holds both contents (`TwoCommitted.store_both`), every
other key is as in `fs0`, the cache is healthy and neither temp file is left: the LAST COMMIT wins,
not the last open.

Hypotheses: `h0` healthy start; `hl` (`HexLen`); `hw1`, `hw2` (`PutWF`: Rust-typed options, no
declared integrity, byte count fits `usize`) as in `held_commit_refines`; `hz1`, `hz2`: the declared
sizes, if any, are the byte counts — otherwise the commit in question answers the size error and
maps nothing (`held_commit_refines` says what happens then). -/
theorem held_two_writers (e1 e2 eA eB : Env) (fl1 fl2 : Flavour) (k : Bytes) (o1 o2 : WriteOpts)
    (chunks1 chunks2 : List Bytes) (fs0 fs1 fs2 : FS) (w1 w2 : Writer)
    (h0 : Healthy cfg cache fs0) (hl : HexLen cfg)
    (hw1 : PutWF k o1 chunks1) (hw2 : PutWF k o2 chunks2)
    (hz1 : o1.size = none ∨ o1.size = some chunks1.flatten.length)
    (hz2 : o2.size = none ∨ o2.size = some chunks2.flatten.length)
    (hopen1 : (run e1 (heldOpen cfg cache fl1 (some k) o1 chunks1) fs0).1 = .ok w1)
    (hfs1 : (run e1 (heldOpen cfg cache fl1 (some k) o1 chunks1) fs0).2.1 = fs1)
    (hopen2 : (run e2 (heldOpen cfg cache fl2 (some k) o2 chunks2) fs1).1 = .ok w2)
    (hfs2 : (run e2 (heldOpen cfg cache fl2 (some k) o2 chunks2) fs1).2.1 = fs2) :
    TwoCommitted cfg cache fs0
      (run eB (wcommit cfg w1) (run eA (wcommit cfg w2) fs2).2.1).2.1 k eB o2 o1
      chunks2.flatten chunks1.flatten
      (run eA (wcommit cfg w2) fs2).1 (run eB (wcommit cfg w1) (run eA (wcommit cfg w2) fs2).2.1).1
      w1.tmp w2.tmp ∧
    TwoCommitted cfg cache fs0
      (run eB (wcommit cfg w2) (run eA (wcommit cfg w1) fs2).2.1).2.1 k eB o1 o2
      chunks1.flatten chunks2.flatten
      (run eA (wcommit cfg w1) fs2).1 (run eB (wcommit cfg w2) (run eA (wcommit cfg w1) fs2).2.1).1
      w1.tmp w2.tmp := by
  obtain ⟨w1', r1, _, _, _, _, _, _, ht1, _, hnx1, _⟩ :=
    run_heldOpen cfg cache e1 fl1 (some k) o1 chunks1 fs0 h0.store.tmpDirs
  rw [hopen1] at r1
  have hw1' : w1 = w1' := Except.ok.inj r1
  subst hw1'
  obtain ⟨hH1, a1⟩ := heldOpen_healthy cfg cache e1 fl1 (some k) o1 chunks1 fs0 h0
  rw [hfs1] at hH1 a1 hnx1
  obtain ⟨w2', r2, _, _, _, _, _, _, ht2, _, _, _⟩ :=
    run_heldOpen cfg cache e2 fl2 (some k) o2 chunks2 fs1 hH1.store.tmpDirs
  rw [hopen2] at r2
  have hw2' : w2 = w2' := Except.ok.inj r2
  subst hw2'
  obtain ⟨hH2, a2⟩ := heldOpen_healthy cfg cache e2 fl2 (some k) o2 chunks2 fs1 hH1
  rw [hfs2] at hH2 a2
  have ht1' : w1.tmp = (cache ++ [dTmp]) ++ [tmpName fs0.next] := ht1
  have ht2' : w2.tmp = (cache ++ [dTmp]) ++ [tmpName fs1.next] := ht2
  have hne : w1.tmp ≠ w2.tmp := by
    rw [ht1', ht2']
    intro e
    have := List.append_cancel_left e
    simp at this
    exact tmpName_ne_of_lt hnx1 this
  have keep1 : fs2.get w1.tmp = fs1.get w1.tmp := by
    have := heldOpen_keeps_tmp cfg cache e2 fl2 (some k) o2 chunks2 fs1 hH1.store.tmpDirs fs0.next hnx1
    rw [hfs2, ← ht1] at this
    exact this
  have hst0 : absStore cache fs2 = absStore cache fs0 := by
    have := congrArg AbsCache.store (a2.trans a1)
    exact this
  have hix0 : ∀ k', absIndex cfg cache fs2 k' = absIndex cfg cache fs0 k' := by
    intro k'
    exact congrArg (fun c => c.index k') (a2.trans a1)
  constructor
  · -- W2 commits first, W1 last
    obtain ⟨_, _, H3, t3, other3⟩ := held_commit_refines cfg cache e2 eA fl2 k o2 chunks2 fs1 fs2 fs2 w2
      hH1 hl hw2 hopen2 hfs2 hH2 rfl
    obtain ⟨ansA, _, othA, stA, _, _⟩ := held_commit_explicit cfg cache e2 eA fl2 k o2 chunks2 fs1 fs2 fs2 w2
      hH1 hl hw2 hz2 hopen2 hfs2 hH2 rfl
    have keep3 : (run eA (wcommit cfg w2) fs2).2.1.get w1.tmp = fs1.get w1.tmp := by
      rw [← keep1, ht1']
      exact other3 _ (by rw [← ht1']; exact hne)
    obtain ⟨_, _, H4, t4, other4⟩ := held_commit_refines cfg cache e1 eB fl1 k o1 chunks1 fs0 fs1 _ w1
      h0 hl hw1 hopen1 hfs1 H3 keep3
    obtain ⟨ansB, ixB, othB, stB, _, _⟩ := held_commit_explicit cfg cache e1 eB fl1 k o1 chunks1 fs0 fs1 _ w1
      h0 hl hw1 hz1 hopen1 hfs1 H3 keep3
    refine ⟨ansA, ansB, ixB, ?_, ?_, H4, t4, ?_⟩
    · intro k' hk'
      rw [othB k' hk', othA k' hk', hix0]
    · rw [stB, stA, hst0]
    · rw [ht2', other4 _ (by rw [← ht2']; exact hne.symm), ← ht2']
      exact t3
  · -- W1 commits first, W2 last
    obtain ⟨_, _, H3, t3, other3⟩ := held_commit_refines cfg cache e1 eA fl1 k o1 chunks1 fs0 fs1 fs2 w1
      h0 hl hw1 hopen1 hfs1 hH2 keep1
    obtain ⟨ansA, _, othA, stA, _, _⟩ := held_commit_explicit cfg cache e1 eA fl1 k o1 chunks1 fs0 fs1 fs2 w1
      h0 hl hw1 hz1 hopen1 hfs1 hH2 keep1
    have keep3 : (run eA (wcommit cfg w1) fs2).2.1.get w2.tmp = fs2.get w2.tmp := by
      rw [ht2']
      exact other3 _ (by rw [← ht2']; exact hne.symm)
    obtain ⟨_, _, H4, t4, other4⟩ := held_commit_refines cfg cache e2 eB fl2 k o2 chunks2 fs1 fs2 _ w2
      hH1 hl hw2 hopen2 hfs2 H3 keep3
    obtain ⟨ansB, ixB, othB, stB, _, _⟩ := held_commit_explicit cfg cache e2 eB fl2 k o2 chunks2 fs1 fs2 _ w2
      hH1 hl hw2 hz2 hopen2 hfs2 H3 keep3
    refine ⟨ansA, ansB, ixB, ?_, ?_, H4, ?_, t4⟩
    · intro k' hk'
      rw [othB k' hk', othA k' hk', hix0]
    · rw [stB, stA, hst0]
    · rw [ht1', other4 _ (by rw [← ht1']; exact hne), ← ht1']
      exact t3

/-! ### non-vacuity -/

/-- `held_commit_after_clear` from the EMPTY filesystem with the driver's real digests: open any
writer (keyed or not, any options and chunks), clear, commit — the open phase answers a writer,
`clear` answers ok, the commit answers `Err(Io(NotFound))`, the cache abstracts to the empty cache and
`find` of every key answers `None`. -/
example (cache : Path) (env : Env) (fl : Flavour) (key : Option Bytes) (o : WriteOpts) (chunks : List Bytes) :
    ∃ w, (run env (heldOpen (mkCfg []) cache fl key o chunks) FS.empty).1 = .ok w ∧
      (run env (clear cache) (run env (heldOpen (mkCfg []) cache fl key o chunks) FS.empty).2.1).1 = .ok () ∧
      (run env (wcommit (mkCfg []) w)
        (run env (clear cache) (run env (heldOpen (mkCfg []) cache fl key o chunks) FS.empty).2.1).2.1).1 =
        .error (.io .notFound) ∧
      absCache (mkCfg []) cache (run env (wcommit (mkCfg []) w)
        (run env (clear cache) (run env (heldOpen (mkCfg []) cache fl key o chunks) FS.empty).2.1).2.1).2.1 =
        AbsCache.empty ∧
      ∀ k, (run env (find (mkCfg []) cache k) (run env (wcommit (mkCfg []) w)
        (run env (clear cache) (run env (heldOpen (mkCfg []) cache fl key o chunks) FS.empty).2.1).2.1).2.1).1 =
        .ok none := by
  have hl : HexLen (mkCfg []) := hexLen_mkCfg [] (fun e he => by cases he)
  have h0 : XHealthy (mkCfg []) cache FS.empty :=
    xhealthy_of_empty_cache (mkCfg []) cache FS.empty (fun _ _ _ => Or.inl rfl) (fun _ _ _ => rfl)
  obtain ⟨w, r0, _⟩ := run_heldOpen (mkCfg []) cache env fl key o chunks FS.empty h0.healthy.store.tmpDirs
  obtain ⟨c1, c2, _, c4, _⟩ := held_commit_after_clear (mkCfg []) cache env env env fl key o chunks
    FS.empty _ _ w h0 hl r0 rfl rfl
  obtain ⟨n1, _⟩ := nothing_comes_back (mkCfg []) cache env env env fl key o chunks
    FS.empty _ _ w h0 hl r0 rfl rfl
  exact ⟨w, r0, c1, c2, c4, fun k => n1 env k⟩

/-- … and the two shapes of the failed commit both occur (cache directory `c`, real digests, empty
filesystem): a by-address writer that declared no size has no mapping — after `clear` its commit
re-creates the (empty) content directories on the way to the address of its bytes —, whereas one that
declared 3 bytes and was fed nothing still has a mapped tail to cut: its `truncate` fails and the
commit leaves the cleared filesystem exactly as it found it. -/
example (env : Env) :
    (∃ w, (run env (heldOpen (mkCfg []) [[99]] .sync none {} [[1, 2]]) FS.empty).1 = .ok w ∧
      (run env (wcommit (mkCfg []) w)
        (run env (clear [[99]]) (run env (heldOpen (mkCfg []) [[99]] .sync none {} [[1, 2]]) FS.empty).2.1).2.1).2.1.get
        (FS.parent (addrPath [[99]] .sha256 (Bytes.hex ((mkCfg []).H .sha256 [1, 2])))) = some .dir) ∧
    (∃ w, (run env (heldOpen (mkCfg []) [[99]] .sync none { size := some 3 } []) FS.empty).1 = .ok w ∧
      (run env (wcommit (mkCfg []) w)
        (run env (clear [[99]]) (run env (heldOpen (mkCfg []) [[99]] .sync none { size := some 3 } []) FS.empty).2.1).2.1).2.1 =
      (run env (clear [[99]]) (run env (heldOpen (mkCfg []) [[99]] .sync none { size := some 3 } []) FS.empty).2.1).2.1) := by
  have hl : HexLen (mkCfg []) := hexLen_mkCfg [] (fun e he => by cases he)
  have h0 : XHealthy (mkCfg []) [[99]] FS.empty :=
    xhealthy_of_empty_cache (mkCfg []) [[99]] FS.empty (fun _ _ _ => Or.inl rfl) (fun _ _ _ => rfl)
  constructor
  · obtain ⟨w, hw, hm⟩ : ∃ w, (run env (heldOpen (mkCfg []) [[99]] .sync none {} [[1, 2]]) FS.empty).1 = .ok w ∧
        w.mmap = none := ⟨_, rfl, rfl⟩
    refine ⟨w, hw, ?_⟩
    have := (held_commit_after_clear (mkCfg []) [[99]] env env env .sync none {} [[1, 2]]
      FS.empty _ _ w h0 hl hw rfl rfl).2.2.2.2.2.2.2.2
    apply this
    rintro ⟨n, hn, _⟩
    rw [hm] at hn; cases hn
  · obtain ⟨w, hw, hm, hp⟩ : ∃ w, (run env (heldOpen (mkCfg []) [[99]] .sync none { size := some 3 } []) FS.empty).1 = .ok w ∧
        w.mmap = some 3 ∧ w.pos = 0 := ⟨_, rfl, rfl, rfl⟩
    refine ⟨w, hw, ?_⟩
    have := (held_commit_after_clear (mkCfg []) [[99]] env env env .sync none { size := some 3 } []
      FS.empty _ _ w h0 hl hw rfl rfl).2.2.2.2.2.2.2.1
    exact this ⟨3, hm, by rw [hp]; decide⟩

/-- `held_commit_refines_unkeyed` from the EMPTY filesystem with the real digests: open a by-address
sync writer, feed it `data`; while it is held open, `remove_hash` the very address of `data` and read
some key; then commit.  The commit answers the integrity of `data`, the address holds `data`, the
index is still empty at every key. -/
example (cache : Path) (env : Env) (k data : Bytes) :
    ∃ w, (run env (heldOpen (mkCfg []) cache .sync none {} [data]) FS.empty).1 = .ok w ∧
      (run env (wcommit (mkCfg []) w)
        (cRunOps (mkCfg []) cache
          [(env, .addr (.drop (Sri.compute (mkCfg []).H .sha256 data))), (env, .get k)]
          (run env (heldOpen (mkCfg []) cache .sync none {} [data]) FS.empty).2.1).2).1 =
        .ok (Sri.compute (mkCfg []).H .sha256 data) ∧
      absStore cache (run env (wcommit (mkCfg []) w)
        (cRunOps (mkCfg []) cache
          [(env, .addr (.drop (Sri.compute (mkCfg []).H .sha256 data))), (env, .get k)]
          (run env (heldOpen (mkCfg []) cache .sync none {} [data]) FS.empty).2.1).2).2.1
        .sha256 (Bytes.hex ((mkCfg []).H .sha256 data)) = some data := by
  have hl : HexLen (mkCfg []) := hexLen_mkCfg [] (fun e he => by cases he)
  have h0 : Healthy (mkCfg []) cache FS.empty :=
    healthy_of_empty_cache (mkCfg []) cache FS.empty (fun _ _ _ => Or.inl rfl) (fun _ _ _ => rfl)
  have hfl : [data].flatten = data := by simp
  obtain ⟨w, r0, _, _, _, _, _, _, ht, _, hnx, _⟩ :=
    run_heldOpen (mkCfg []) cache env .sync none {} [data] FS.empty h0.store.tmpDirs
  obtain ⟨h1, _⟩ := heldOpen_healthy (mkCfg []) cache env .sync none {} [data] FS.empty h0
  have hops : ∀ x ∈ [(env, COp.addr (.drop (Sri.compute (mkCfg []).H .sha256 data))), (env, COp.get k)],
      x.2.WF (mkCfg []) := by
    intro x hx; simp at hx; rcases hx with rfl | rfl <;> trivial
  obtain ⟨_, _, r3⟩ := cache_refines_map (mkCfg []) cache _ _ h1 hl hops
  obtain ⟨k1, _⟩ := cops_preserve_tmp (mkCfg []) cache _ _ h1 hl hops FS.empty.next hnx
  rw [← ht] at k1
  obtain ⟨a1, a2, _⟩ := held_commit_refines_unkeyed (mkCfg []) cache env env .sync {} [data] FS.empty _ _ w
    h0 hl r0 rfl r3 k1
  have a0 := held_commit_unkeyed_ok (mkCfg []) cache env env .sync {} [data] FS.empty _ _ w
    h0 hl r0 rfl r3 k1 rfl (Or.inl rfl)
  rw [hfl] at a0 a2
  exact ⟨w, r0, a0, by rw [a2]; exact AbsStore.set_same _ _ _ _⟩

/-- `held_two_writers` from the EMPTY filesystem with the real digests: W1 (SHA-1, `data1`) and W2
(SHA-256, `data2`) of the same key; whichever commits LAST owns the key, and both contents are in the
store in both orders. -/
example (cache : Path) (env : Env) (k data1 data2 : Bytes) (hk : utf8Valid k = true)
    (hd1 : data1.length ≤ Rec.u64Max) (hd2 : data2.length ≤ Rec.u64Max) :
    ∃ w1 w2,
      (run env (heldOpen (mkCfg []) cache .sync (some k) { algo := some .sha1 } [data1]) FS.empty).1 = .ok w1 ∧
      (run env (heldOpen (mkCfg []) cache .async (some k) {} [data2])
        (run env (heldOpen (mkCfg []) cache .sync (some k) { algo := some .sha1 } [data1]) FS.empty).2.1).1 = .ok w2 ∧
      (∀ fs2, fs2 = (run env (heldOpen (mkCfg []) cache .async (some k) {} [data2])
        (run env (heldOpen (mkCfg []) cache .sync (some k) { algo := some .sha1 } [data1]) FS.empty).2.1).2.1 →
        -- W2 then W1: W1's entry
        absIndex (mkCfg []) cache
          (run env (wcommit (mkCfg []) w1) (run env (wcommit (mkCfg []) w2) fs2).2.1).2.1 k =
          some (putEntry (mkCfg []) env k { algo := some .sha1 } data1) ∧
        absStore cache (run env (wcommit (mkCfg []) w1) (run env (wcommit (mkCfg []) w2) fs2).2.1).2.1
          .sha1 (Bytes.hex ((mkCfg []).H .sha1 data1)) = some data1 ∧
        absStore cache (run env (wcommit (mkCfg []) w1) (run env (wcommit (mkCfg []) w2) fs2).2.1).2.1
          .sha256 (Bytes.hex ((mkCfg []).H .sha256 data2)) = some data2 ∧
        -- W1 then W2: W2's entry
        absIndex (mkCfg []) cache
          (run env (wcommit (mkCfg []) w2) (run env (wcommit (mkCfg []) w1) fs2).2.1).2.1 k =
          some (putEntry (mkCfg []) env k {} data2) ∧
        absStore cache (run env (wcommit (mkCfg []) w2) (run env (wcommit (mkCfg []) w1) fs2).2.1).2.1
          .sha1 (Bytes.hex ((mkCfg []).H .sha1 data1)) = some data1 ∧
        absStore cache (run env (wcommit (mkCfg []) w2) (run env (wcommit (mkCfg []) w1) fs2).2.1).2.1
          .sha256 (Bytes.hex ((mkCfg []).H .sha256 data2)) = some data2) := by
  have hl : HexLen (mkCfg []) := hexLen_mkCfg [] (fun e he => by cases he)
  have h0 : Healthy (mkCfg []) cache FS.empty :=
    healthy_of_empty_cache (mkCfg []) cache FS.empty (fun _ _ _ => Or.inl rfl) (fun _ _ _ => rfl)
  have hf1 : [data1].flatten = data1 := by simp
  have hf2 : [data2].flatten = data2 := by simp
  have hw1 : PutWF k { algo := some .sha1 } [data1] :=
    ⟨⟨hk, by simp, by simp, by simp, by simp⟩, rfl, by rw [hf1]; exact hd1⟩
  have hw2 : PutWF k {} [data2] :=
    ⟨⟨hk, by simp, by simp, by simp, by simp⟩, rfl, by rw [hf2]; exact hd2⟩
  obtain ⟨w1, r1, _⟩ := run_heldOpen (mkCfg []) cache env .sync (some k) { algo := some .sha1 } [data1]
    FS.empty h0.store.tmpDirs
  obtain ⟨hH1, _⟩ := heldOpen_healthy (mkCfg []) cache env .sync (some k) { algo := some .sha1 } [data1]
    FS.empty h0
  obtain ⟨w2, r2, _⟩ := run_heldOpen (mkCfg []) cache env .async (some k) {} [data2] _ hH1.store.tmpDirs
  refine ⟨w1, w2, r1, r2, ?_⟩
  intro fs2 hfs2
  obtain ⟨A, B⟩ := held_two_writers (mkCfg []) cache env env env env .sync .async k
    { algo := some .sha1 } {} [data1] [data2] FS.empty _ fs2 w1 w2 h0 hl hw1 hw2 (Or.inl rfl) (Or.inl rfl)
    r1 rfl r2 hfs2.symm
  rw [hf1, hf2] at A B
  have sA := A.store_both (mkCfg []) cache (fun e => by cases e.1)
  have sB := B.store_both (mkCfg []) cache (fun e => by cases e.1)
  exact ⟨A.2.2.1, sA.1, sA.2, B.2.2.1, sB.2, sB.1⟩

end Cacache.HeldWriter2

namespace AxiomCheckHeld2
open Cacache.HeldWriter2
#print axioms held_commit_refines_unkeyed
#print axioms held_commit_unkeyed_step
#print axioms held_commit_unkeyed_wrong_size
#print axioms held_commit_unkeyed_ok
#print axioms run_wclose_missing
#print axioms held_commit_after_clear
#print axioms nothing_comes_back
#print axioms ops_after_held_commit_after_clear
#print axioms heldOpen_keeps_tmp
#print axioms TwoCommitted.store_both
#print axioms held_two_writers
end AxiomCheckHeld2
