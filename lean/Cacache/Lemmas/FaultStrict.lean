/-
**Strict operations: a success reported under faults is the fault-free run.**

`Prog.runFault env plan p fs i` runs `p` with the calls selected by `plan` failing: the call at
index `j` with `plan j = some f` answers `.err f.e` and leaves `execFail env fs f.short c` behind.
The demonic calculus (`wpD_fault`, C13) bounds what such a run can do.  This file proves the
converse direction for the operations that propagate every error:

* `Strict ok p` — wherever `p` is, a call answered by an error (`Ret.err e`, ANY `e`) makes it
  impossible for `p` to end in a result satisfying `ok`, whatever the later calls answer
  (`Never ok (k (.err e))`).  Purely syntactic: no filesystem semantics involved.
  `StrictT tol ok p` is the same with a set `tol` of calls whose errors the program is allowed to
  swallow; `Strict ok = StrictT (fun _ => false) ok`.
* `fault_ok_is_healthy` — for a strict `p`, every environment, plan, filesystem and start index:
  `ok (runFault env plan p fs i).1 → runFault env plan p fs i = run env p fs` (result, final
  filesystem AND trace).  `fault_ok_plan_silent` says the same on the plan: it is `none` at every
  index the run reached.  `fault_ok_tolerated` is the general form: for `StrictT tol`, an ok run is
  the run in which only the tolerated calls are faulted (`runFaultT`).
* strict: `clear` / `removeEach` (`= .ok ()`), `removeHash` (`= .ok ()`), `readHash` (`IsOk`),
  `appendRec` (`IsOk`), `insert` with a caller-supplied time (`IsOk`), `existsHash` for the answer
  `.ok true`.
* NOT strict, and why:
  - `insert` without `o.time`, hence `delete` (`insert … {}`): `getTime` swallows a failing clock
    read and stamps the record with 0 (`insert_not_strict`).  They are `StrictT isNow`, and
    `insert_ok_clock` / `delete_ok_clock` pin the consequence down: an ok answer under faults is the
    healthy run of `env` or the healthy run of `{ env with clock := 0 }` — the only fault that can
    have fired is the clock read, and it is indistinguishable from a clock that reads 0.
  - `existsHash` for `IsOk`: a failing `stat` is answered `Ok(false)` (`Path::exists`); it is strict
    for the answer `.ok true` only.
  - `bucketEntries` / `find` (and everything that looks a key up first: `read`, `extract`,
    `removeFully`): an injected `NotFound` on the bucket read is taken for "no bucket", the lookup
    answers `Ok(None)` (`bucketEntries_not_strict`).
  - the writers (`wclose`, hence `wcommit`, `write`, `writeHash`, `writeStream`; also `lcommit`):
    a failed `rename` / `symlink` is tolerated when the content path exists afterwards
    (`wclose_not_strict`).  What an ok means for them is C13 `fault_success_is_truthful`.
* `clear_ok_truthful` — on a `Healthy`, `Tidy` cache (the hypotheses of
  `ListRefine.clear_empties`; that the directory exists follows from the ok answer), `clear`
  answering `.ok ()` under ANY fault plan leaves exactly the healthy run's filesystem: nothing below
  the cache directory, `Healthy`, `Tidy`, abstraction = the empty cache.
-/
import Cacache.Lemmas.ListRefine

namespace Cacache
namespace FaultStrict
open Prog

variable {α β : Type}

/-- No answers whatsoever make `p` end in an `ok` result. -/
def Never (ok : α → Prop) : Prog α → Prop
  | .done a => ¬ ok a
  | .sys _ k => ∀ r, Never ok (k r)

/-- Strict up to the calls in `tol`: at every call site reachable under any answers, an error answer
of a call outside `tol` rules out an `ok` result. -/
def StrictT (tol : Call → Bool) (ok : α → Prop) : Prog α → Prop
  | .done _ => True
  | .sys c k => (tol c = false → ∀ e, Never ok (k (.err e))) ∧ ∀ r, StrictT tol ok (k r)

/-- **Strict**: every error answer, of any call, rules out an `ok` result. -/
abbrev Strict (ok : α → Prop) (p : Prog α) : Prop := StrictT (fun _ => false) ok p

/-- `runFault`, except that a planned fault fires only at a call in `tol`. -/
def runFaultT (env : Env) (tol : Call → Bool) (plan : Nat → Option Fault) :
    Prog α → FS → Nat → α × FS × List Call
  | .done a, fs, _ => (a, fs, [])
  | .sys c k, fs, i =>
    match (if tol c then plan i else none) with
    | some f =>
      let fs' := execFail env fs f.short c
      let (a, fs'', tr) := runFaultT env tol plan (k (.err f.e)) fs' (i + 1)
      (a, fs'', c :: tr)
    | none =>
      let (fs', r) := exec env fs c
      let (a, fs'', tr) := runFaultT env tol plan (k r) fs' (i + 1)
      (a, fs'', c :: tr)

/-- A program that can never answer ok does not answer ok under any fault plan. -/
theorem never_runFault {ok : α → Prop} {p : Prog α} (h : Never ok p) (env : Env)
    (plan : Nat → Option Fault) (fs : FS) (i : Nat) : ¬ ok (runFault env plan p fs i).1 := by
  induction p generalizing fs i with
  | done a => exact h
  | sys c k ih =>
    simp only [runFault]
    split
    · exact ih _ (h _) _ _
    · exact ih _ (h _) _ _

theorem runFaultT_false (env : Env) (plan : Nat → Option Fault) (p : Prog α) (fs : FS) (i : Nat) :
    runFaultT env (fun _ => false) plan p fs i = run env p fs := by
  induction p generalizing fs i with
  | done a => rfl
  | sys c k ih => simp [runFaultT, run, ih]

/-- General form: if a `StrictT tol` program answers ok under a fault plan, every fault that fired
was at a tolerated call — the run is the one in which the plan is applied to tolerated calls only. -/
theorem fault_ok_tolerated {tol : Call → Bool} {ok : α → Prop} {p : Prog α} (hs : StrictT tol ok p)
    (env : Env) (plan : Nat → Option Fault) (fs : FS) (i : Nat)
    (h : ok (runFault env plan p fs i).1) :
    runFault env plan p fs i = runFaultT env tol plan p fs i := by
  induction p generalizing fs i with
  | done a => rfl
  | sys c k ih =>
    simp only [runFault, runFaultT] at h ⊢
    cases hp : plan i with
    | none =>
      simp only [hp, ite_self] at h ⊢
      rw [ih _ (hs.2 _) _ _ h]
    | some f =>
      simp only [hp] at h ⊢
      cases ht : tol c with
      | true =>
        simp only [if_true]
        rw [ih _ (hs.2 _) _ _ h]
      | false => exact absurd h (never_runFault (hs.1 ht f.e) env plan _ _)

/-- **A strict operation that reports success under faults did exactly what the fault-free run
does**: same result, same final filesystem, same trace. -/
theorem fault_ok_is_healthy {ok : α → Prop} {p : Prog α} (hs : Strict ok p)
    (env : Env) (plan : Nat → Option Fault) (fs : FS) (i : Nat)
    (h : ok (runFault env plan p fs i).1) :
    runFault env plan p fs i = run env p fs := by
  rw [fault_ok_tolerated hs env plan fs i h, runFaultT_false]

/-- … and, on the plan: it is silent at every call index the run reached. -/
theorem fault_ok_plan_silent {ok : α → Prop} {p : Prog α} (hs : Strict ok p)
    (env : Env) (plan : Nat → Option Fault) (fs : FS) (i : Nat)
    (h : ok (runFault env plan p fs i).1) :
    ∀ j, j < (runFault env plan p fs i).2.2.length → plan (i + j) = none := by
  induction p generalizing fs i with
  | done a => intro j hj; cases hj
  | sys c k ih =>
    cases hp : plan i with
    | some f =>
      simp only [runFault, hp] at h
      exact absurd h (never_runFault (hs.1 rfl f.e) env plan _ _)
    | none =>
      simp only [runFault, hp] at h ⊢
      intro j hj
      cases j with
      | zero => exact hp
      | succ j =>
        have := ih _ (hs.2 _) _ _ h j (by simpa using hj)
        rw [← this]; congr 1; omega

/-! ### combinators -/

theorem Never.bind {okA : α → Prop} {ok : β → Prop} {p : Prog α} {f : α → Prog β}
    (hp : Never okA p) (hf : ∀ a, ¬ okA a → Never ok (f a)) : Never ok (Prog.bind p f) := by
  induction p with
  | done a => exact hf a hp
  | sys c k ih => exact fun r => ih r (hp r)

theorem StrictT.bind {tol : Call → Bool} {okA : α → Prop} {ok : β → Prop} {p : Prog α}
    {f : α → Prog β} (hp : StrictT tol okA p) (hf : ∀ a, StrictT tol ok (f a))
    (hn : ∀ a, ¬ okA a → Never ok (f a)) : StrictT tol ok (Prog.bind p f) := by
  induction p with
  | done a => exact hf a
  | sys c k ih => exact ⟨fun ht e => Never.bind (hp.1 ht e) hn, fun r => ih r (hp.2 r)⟩

theorem StrictT.mono {tol tol' : Call → Bool} {ok : α → Prop} {p : Prog α}
    (h : ∀ c, tol c = true → tol' c = true) (hp : StrictT tol ok p) : StrictT tol' ok p := by
  induction p with
  | done a => trivial
  | sys c k ih =>
    refine ⟨fun ht e => hp.1 ?_ e, fun r => ih r (hp.2 r)⟩
    cases hc : tol c with
    | false => rfl
    | true => rw [h c hc] at ht; cases ht

theorem Strict.toT {tol : Call → Bool} {ok : α → Prop} {p : Prog α} (hp : Strict ok p) :
    StrictT tol ok p := StrictT.mono (fun _ h => by cases h) hp

/-! ### clear -/

theorem removeEach_strict (es : List (Path × Bool)) :
    Strict (fun r => r = .ok ()) (removeEach es) := by
  induction es with
  | nil => trivial
  | cons e es ih =>
    obtain ⟨p, f⟩ := e
    unfold removeEach
    simp only [bind_eq, pure_eq, call, bind_sys, bind_done]
    refine ⟨fun _ e => nofun, fun r => ?_⟩
    cases r <;> first | exact ih | trivial

theorem clear_strict (cache : Path) : Strict (fun r => r = .ok ()) (clear cache) := by
  unfold clear
  simp only [bind_eq, pure_eq, call, bind_sys, bind_done]
  refine ⟨fun _ e => nofun, fun r => ?_⟩
  cases r <;> first | exact removeEach_strict _ | trivial

/-- `clear` answering ok under any fault plan is the healthy run. -/
theorem clear_ok_is_healthy (cache : Path) (env : Env) (plan : Nat → Option Fault) (fs : FS) (i : Nat)
    (h : (runFault env plan (clear cache) fs i).1 = .ok ()) :
    runFault env plan (clear cache) fs i = run env (clear cache) fs :=
  fault_ok_is_healthy (clear_strict cache) env plan fs i h

section
open ListRefine CacheRefine Refine
variable (cfg : Cfg) (cache : Path)

/-- With `Tidy` alone (`ListRefine.run_clear`): an ok answer under any fault plan means the cache
directory existed, everything below it is gone and nothing else changed. -/
theorem clear_ok_removes_all (env : Env) (plan : Nat → Option Fault) (fs : FS) (i : Nat)
    (hT : Tidy cfg cache fs) (h : (runFault env plan (clear cache) fs i).1 = .ok ()) :
    fs.isDir cache = true ∧
    (∀ q, cache <+: q → q ≠ cache → (runFault env plan (clear cache) fs i).2.1.get q = none) ∧
    (∀ q, (¬ cache <+: q ∨ q = cache) → (runFault env plan (clear cache) fs i).2.1.get q = fs.get q) := by
  have e := clear_ok_is_healthy cache env plan fs i h
  rw [e] at h ⊢
  cases hd : fs.isDir cache with
  | false => rw [(run_clear_absent cache env fs hd).1] at h; cases h
  | true => exact ⟨rfl, (run_clear cfg cache env fs hT hd).2⟩

/-- **`clear` never reports a success it did not achieve**: on a healthy, tidy cache, an ok answer
under ANY fault plan leaves the healthy run's filesystem, i.e. the conclusion of
`ListRefine.clear_empties`. -/
theorem clear_ok_truthful (env : Env) (plan : Nat → Option Fault) (fs : FS) (i : Nat)
    (hH : Healthy cfg cache fs) (hT : Tidy cfg cache fs)
    (h : (runFault env plan (clear cache) fs i).1 = .ok ()) :
    (runFault env plan (clear cache) fs i).2.1 = (run env (clear cache) fs).2.1 ∧
    (∀ q, q ≠ [] → q <+: cache → NoneOrDir (runFault env plan (clear cache) fs i).2.1 q) ∧
    (∀ q, cache <+: q → q ≠ cache → (runFault env plan (clear cache) fs i).2.1.get q = none) ∧
    (runFault env plan (clear cache) fs i).2.1.isDir cache = true ∧
    Healthy cfg cache (runFault env plan (clear cache) fs i).2.1 ∧
    Tidy cfg cache (runFault env plan (clear cache) fs i).2.1 ∧
    absCache cfg cache (runFault env plan (clear cache) fs i).2.1 = AbsCache.empty := by
  have hd := (clear_ok_removes_all cfg cache env plan fs i hT h).1
  rw [clear_ok_is_healthy cache env plan fs i h]
  exact ⟨rfl, (clear_empties cfg cache env fs hH hT hd).2⟩

end

/-! ### removeHash, existsHash -/

theorem removeHash_strict (cache : Path) (sri : Integrity) :
    Strict (fun r => r = .ok ()) (removeHash cache sri) := by
  unfold removeHash
  split
  · trivial
  · simp only [bind_eq, pure_eq, call, bind_sys, bind_done]
    exact ⟨fun _ e => nofun, fun r => by cases r <;> trivial⟩

theorem removeHash_ok_is_healthy (cache : Path) (sri : Integrity) (env : Env)
    (plan : Nat → Option Fault) (fs : FS) (i : Nat)
    (h : (runFault env plan (removeHash cache sri) fs i).1 = .ok ()) :
    runFault env plan (removeHash cache sri) fs i = run env (removeHash cache sri) fs :=
  fault_ok_is_healthy (removeHash_strict cache sri) env plan fs i h

/-- `existsHash` is strict for the answer `Ok(true)` only: a failing `stat` is answered `Ok(false)`. -/
theorem existsHash_strict (cache : Path) (sri : Integrity) :
    Strict (fun r => r = .ok true) (existsHash cache sri) := by
  unfold existsHash
  split
  · trivial
  · simp only [bind_eq, pure_eq, call, bind_sys, bind_done]
    exact ⟨fun _ e => nofun, fun r => by cases r <;> trivial⟩

theorem existsHash_true_is_healthy (cache : Path) (sri : Integrity) (env : Env)
    (plan : Nat → Option Fault) (fs : FS) (i : Nat)
    (h : (runFault env plan (existsHash cache sri) fs i).1 = .ok true) :
    runFault env plan (existsHash cache sri) fs i = run env (existsHash cache sri) fs :=
  fault_ok_is_healthy (existsHash_strict cache sri) env plan fs i h

/-! ### insert, delete -/

/-- The result is an `Ok(_)`. -/
def IsOk {γ : Type} : Res γ → Prop
  | .ok _ => True
  | .error _ => False

def isNow : Call → Bool
  | .now => true
  | _ => false

variable (cfg : Cfg)

theorem appendRec_strict (bucket : Path) (r : Rec) : Strict IsOk (appendRec cfg bucket r) := by
  unfold appendRec
  simp only [bind_eq, pure_eq, call, bind_sys, bind_done]
  refine ⟨fun _ e => fun h => h, fun r => ?_⟩
  cases r <;> first
    | trivial
    | exact ⟨fun _ e => fun h => h, fun r => by cases r <;> trivial⟩

/-- `getTime` swallows the error of the clock read (and issues no other call). -/
theorem getTime_strictT (o : WriteOpts) : StrictT isNow (fun _ => True) (getTime o) := by
  unfold getTime
  split
  · trivial
  · simp only [bind_eq, pure_eq, call, bind_sys, bind_done]
    exact ⟨fun h => (by cases h), fun r => by cases r <;> trivial⟩

theorem getTime_strict (o : WriteOpts) {t : Nat} (ht : o.time = some t) :
    Strict (fun _ => True) (getTime o) := by
  unfold getTime
  rw [ht]
  trivial

theorem insert_strict_of (tol : Call → Bool) (cache : Path) (key : Bytes) (o : WriteOpts)
    (hg : StrictT tol (fun _ => True) (getTime o)) : StrictT tol IsOk (insert cfg cache key o) := by
  unfold insert
  simp only [bind_eq, pure_eq, call, bind_sys, bind_done]
  refine ⟨fun _ e => fun h => h, fun r => ?_⟩
  have tail : StrictT tol IsOk (Prog.bind (getTime o) fun time =>
      Prog.bind (appendRec cfg (bucketPath cfg cache key) (mkRec key o time)) fun x =>
        match x with
        | .error e => Prog.done (.error e)
        | .ok () => Prog.done (.ok (o.sri.getD defaultSri))) := by
    refine StrictT.bind hg (fun t => ?_) (fun _ h => absurd trivial h)
    refine StrictT.bind (appendRec_strict cfg _ _).toT (fun a => ?_) (fun a ha => ?_)
    · cases a <;> trivial
    · cases a with
      | error e => exact fun h => h
      | ok u => exact absurd trivial ha
  cases r <;> first | trivial | exact tail

theorem insert_strictT (cache : Path) (key : Bytes) (o : WriteOpts) :
    StrictT isNow IsOk (insert cfg cache key o) :=
  insert_strict_of cfg isNow cache key o (getTime_strictT o)

theorem insert_strict (cache : Path) (key : Bytes) (o : WriteOpts) {t : Nat} (ht : o.time = some t) :
    Strict IsOk (insert cfg cache key o) :=
  insert_strict_of cfg _ cache key o (getTime_strict o ht)

/-- `insert` with a caller-supplied time issues no clock read and is strict. -/
theorem insert_ok_is_healthy (cache : Path) (key : Bytes) (o : WriteOpts) {t : Nat}
    (ht : o.time = some t) (env : Env) (plan : Nat → Option Fault) (fs : FS) (i : Nat)
    (h : IsOk (runFault env plan (insert cfg cache key o) fs i).1) :
    runFault env plan (insert cfg cache key o) fs i = run env (insert cfg cache key o) fs :=
  fault_ok_is_healthy (insert_strict cfg cache key o ht) env plan fs i h

theorem delete_strictT (cache : Path) (key : Bytes) :
    StrictT isNow (fun r => r = .ok ()) (delete cfg cache key) := by
  unfold delete
  simp only [bind_eq, pure_eq]
  refine StrictT.bind (insert_strictT cfg cache key {}) (fun a => ?_) (fun a ha => ?_)
  · cases a <;> trivial
  · cases a with
    | error e => exact nofun
    | ok s => exact absurd trivial ha

/-! ### the clock -/

/-- The call's semantics does not depend on the environment (everything but `now` and `reflink`). -/
def EnvFree (c : Call) : Prop := ∀ env env' fs, exec env fs c = exec env' fs c

theorem run_env_free {Ok : α → Prop} {p : Prog α} (hp : AllCallsR EnvFree Ok p) (env env' : Env)
    (fs : FS) : run env p fs = run env' p fs := by
  induction p generalizing fs with
  | done a => rfl
  | sys c k ih =>
    simp only [run]
    rw [hp.1 env env' fs, ih _ (hp.2 _ (answer_exec env' fs c))]

def insertTail (cache : Path) (key : Bytes) (o : WriteOpts) (time : Nat) : Prog (Res Integrity) :=
  Prog.bind (appendRec cfg (bucketPath cfg cache key) (mkRec key o time)) fun x =>
    match x with
    | .error e => .done (.error e)
    | .ok () => .done (.ok (o.sri.getD defaultSri))

theorem insert_shape_none (cache : Path) (key : Bytes) (o : WriteOpts) (ht : o.time = none) :
    insert cfg cache key o =
      .sys (.mkdirP (FS.parent (bucketPath cfg cache key))) (fun r => match r with
        | .err e => .done (.error (.io e))
        | _ => .sys .now (fun r' => Prog.bind (match r' with | .nat t => .done t | _ => .done 0)
            (insertTail cfg cache key o))) := by
  unfold insert getTime insertTail
  simp only [ht, bind_eq, pure_eq, call, bind_sys, bind_done]
  rfl

theorem insertTail_strict (cache : Path) (key : Bytes) (o : WriteOpts) (t : Nat) :
    Strict IsOk (insertTail cfg cache key o t) := by
  unfold insertTail
  refine StrictT.bind (appendRec_strict cfg _ _) (fun a => ?_) (fun a ha => ?_)
  · cases a <;> trivial
  · cases a with
    | error e => exact fun h => h
    | ok u => exact absurd trivial ha

theorem insertTail_envFree (cache : Path) (key : Bytes) (o : WriteOpts) (t : Nat) :
    AllCalls EnvFree (insertTail cfg cache key o t) := by
  unfold insertTail appendRec
  repeat' ac_step
  all_goals exact fun _ _ _ => rfl

theorem now_stage (cache : Path) (key : Bytes) (o : WriteOpts) (env : Env)
    (plan : Nat → Option Fault) (fs : FS) (j : Nat)
    (h : IsOk (runFault env plan (.sys .now (fun r' => Prog.bind
      (match r' with | .nat t => .done t | _ => .done 0) (insertTail cfg cache key o))) fs j).1) :
    runFault env plan (.sys .now (fun r' => Prog.bind
        (match r' with | .nat t => .done t | _ => .done 0) (insertTail cfg cache key o))) fs j =
      run env (.sys .now (fun r' => Prog.bind
        (match r' with | .nat t => .done t | _ => .done 0) (insertTail cfg cache key o))) fs ∨
    runFault env plan (.sys .now (fun r' => Prog.bind
        (match r' with | .nat t => .done t | _ => .done 0) (insertTail cfg cache key o))) fs j =
      run { env with clock := 0 } (.sys .now (fun r' => Prog.bind
        (match r' with | .nat t => .done t | _ => .done 0) (insertTail cfg cache key o))) fs := by
  simp only [runFault, run] at h ⊢
  cases hp : plan j with
  | none =>
    simp only [hp, exec, bind_done] at h ⊢
    left
    rw [fault_ok_is_healthy (insertTail_strict cfg cache key o _) env plan fs (j + 1) h]
  | some f =>
    simp only [hp, exec, execFail, bind_done, Nat.zero_mod] at h ⊢
    right
    rw [fault_ok_is_healthy (insertTail_strict cfg cache key o _) env plan fs (j + 1) h,
      run_env_free (insertTail_envFree cfg cache key o 0) { env with clock := 0 } env]

/-- **`insert` answering ok under faults**: it is the healthy run, or — only when the record's time
comes from the clock — the healthy run with a clock that reads 0 (the one tolerated fault). -/
theorem insert_ok_clock (cache : Path) (key : Bytes) (o : WriteOpts) (env : Env)
    (plan : Nat → Option Fault) (fs : FS) (i : Nat)
    (h : IsOk (runFault env plan (insert cfg cache key o) fs i).1) :
    runFault env plan (insert cfg cache key o) fs i = run env (insert cfg cache key o) fs ∨
    (o.time = none ∧
      runFault env plan (insert cfg cache key o) fs i =
        run { env with clock := 0 } (insert cfg cache key o) fs) := by
  cases ht : o.time with
  | some t => exact Or.inl (insert_ok_is_healthy cfg cache key o ht env plan fs i h)
  | none =>
    rw [insert_shape_none cfg cache key o ht] at h ⊢
    simp only [runFault, run] at h ⊢
    cases hp : plan i with
    | some f => simp only [hp] at h; exact h.elim
    | none =>
      simp only [hp] at h ⊢
      have e0 : exec { env with clock := 0 } fs (.mkdirP (FS.parent (bucketPath cfg cache key))) =
          exec env fs (.mkdirP (FS.parent (bucketPath cfg cache key))) := rfl
      rw [e0]
      generalize exec env fs (.mkdirP (FS.parent (bucketPath cfg cache key))) = x at h ⊢
      obtain ⟨fs1, r⟩ := x
      cases r <;> dsimp only at h ⊢ <;> first
        | exact h.elim
        | (rcases now_stage cfg cache key o env plan fs1 (i + 1) h with e | e
           · exact Or.inl (by rw [e])
           · exact Or.inr ⟨trivial, by rw [e]⟩)

/-- … and the tolerance is real: with no caller-supplied time `insert` is NOT strict — the run in
which the clock read fails (answer `.err`), and everything else succeeds, answers ok. -/
theorem insert_not_strict (cache : Path) (key : Bytes) (o : WriteOpts) (ht : o.time = none) :
    ¬ Strict IsOk (insert cfg cache key o) := by
  rw [insert_shape_none cfg cache key o ht]
  exact fun h => (h.2 .unit).1 rfl .other .unit .unit trivial

/-! ### delete = insert of a tombstone, result mapped -/

theorem runFault_map (g : α → β) (env : Env) (plan : Nat → Option Fault) (p : Prog α) (fs : FS)
    (i : Nat) :
    runFault env plan (Prog.bind p (fun a => .done (g a))) fs i =
      (g (runFault env plan p fs i).1, (runFault env plan p fs i).2.1,
        (runFault env plan p fs i).2.2) := by
  induction p generalizing fs i with
  | done a => rfl
  | sys c k ih =>
    simp only [bind_sys, runFault]
    split <;> rw [ih]

theorem run_map (g : α → β) (env : Env) (p : Prog α) (fs : FS) :
    run env (Prog.bind p (fun a => .done (g a))) fs =
      (g (run env p fs).1, (run env p fs).2.1, (run env p fs).2.2) := by
  rw [← runFault_none env _ fs 0, runFault_map, runFault_none]

def delRes : Res Integrity → Res Unit
  | .ok _ => .ok ()
  | .error e => .error e

theorem delete_eq (cache : Path) (key : Bytes) :
    delete cfg cache key = Prog.bind (insert cfg cache key {}) (fun a => .done (delRes a)) := by
  unfold delete
  simp only [bind_eq, pure_eq]
  congr
  funext x
  cases x <;> rfl

/-- **`delete` (a tombstone append) answering ok under faults** is the healthy run up to the clock. -/
theorem delete_ok_clock (cache : Path) (key : Bytes) (env : Env)
    (plan : Nat → Option Fault) (fs : FS) (i : Nat)
    (h : (runFault env plan (delete cfg cache key) fs i).1 = .ok ()) :
    runFault env plan (delete cfg cache key) fs i = run env (delete cfg cache key) fs ∨
    runFault env plan (delete cfg cache key) fs i =
      run { env with clock := 0 } (delete cfg cache key) fs := by
  rw [delete_eq, runFault_map] at h
  rw [delete_eq, runFault_map, run_map, run_map]
  have h' : IsOk (runFault env plan (insert cfg cache key {}) fs i).1 := by
    revert h
    cases (runFault env plan (insert cfg cache key {}) fs i).1 with
    | ok s => exact fun _ => trivial
    | error e => exact nofun
  rcases insert_ok_clock cfg cache key {} env plan fs i h' with e | ⟨_, e⟩
  · exact Or.inl (by rw [e])
  · exact Or.inr (by rw [e])

/-! ### readHash is strict too; lookups are not -/

theorem readHash_strict (cache : Path) (sri : Integrity) : Strict IsOk (readHash cfg cache sri) := by
  unfold readHash
  split
  · trivial
  · simp only [bind_eq, pure_eq, call, bind_sys, bind_done]
    refine ⟨fun _ e => fun h => h, fun r => ?_⟩
    cases r <;> first | trivial | (dsimp only; split <;> trivial)

/-- Lookups are not strict: `NotFound` on the bucket read means "no entries". -/
theorem bucketEntries_not_strict (bucket : Path) : ¬ Strict IsOk (bucketEntries cfg bucket) := by
  unfold bucketEntries
  simp only [bind_eq, pure_eq, call, bind_sys, bind_done]
  exact fun h => h.1 rfl .notFound trivial

/-- The writers are not strict: `wclose` tolerates a failed rename when the content path exists. -/
theorem wclose_not_strict (w : Writer) {cpath : Path}
    (hc : contentPath w.cache (Sri.compute cfg.H w.algo w.hashed) = some cpath)
    (hm : w.mmap = none) : ¬ Strict IsOk (wclose cfg w) := by
  unfold wclose dropTmp
  simp only [hc, hm, bind_eq, pure_eq, call, bind_sys, bind_done]
  exact fun h => (h.2 .unit).1 rfl .other .unit (.bool true) trivial

/-! ### non-vacuity -/

section NonVacuity

def c0 : Path := [[99]]
def fs0 : FS := (FS.empty.put [[99]] .dir).put [[99], [1]] .dir
def failAt (n : Nat) : Nat → Option Fault := fun i => if i = n then some { e := .other } else none

example : (runFault {} (failAt 0) (clear c0) fs0 0).1 = .error (.io .other) := by rfl
example : (runFault {} (failAt 1) (clear c0) fs0 0).1 = .error (.io .other) := by rfl
example : (runFault {} (failAt 1) (clear c0) fs0 0).2.1.get [[99], [1]] = some .dir := by rfl
example : (runFault {} (fun _ => none) (clear c0) fs0 0).1 = .ok () := by rfl
example : (runFault {} (failAt 2) (clear c0) fs0 0).1 = .ok () := by rfl
example : (runFault {} (failAt 2) (clear c0) fs0 0).2.1.get [[99], [1]] = none := by rfl
example : (runFault {} (failAt 2) (clear c0) fs0 0).2.2 = [.readDir c0, .removeTree [[99], [1]]] := by rfl

end NonVacuity

end FaultStrict
end Cacache

namespace AxiomCheckFaultStrict
open Cacache.FaultStrict
#print axioms fault_ok_tolerated
#print axioms fault_ok_is_healthy
#print axioms fault_ok_plan_silent
#print axioms clear_strict
#print axioms clear_ok_is_healthy
#print axioms clear_ok_removes_all
#print axioms clear_ok_truthful
#print axioms removeHash_strict
#print axioms removeHash_ok_is_healthy
#print axioms existsHash_strict
#print axioms existsHash_true_is_healthy
#print axioms readHash_strict
#print axioms insert_strict
#print axioms insert_strictT
#print axioms insert_ok_is_healthy
#print axioms insert_ok_clock
#print axioms insert_not_strict
#print axioms delete_strictT
#print axioms delete_ok_clock
#print axioms bucketEntries_not_strict
#print axioms wclose_not_strict
end AxiomCheckFaultStrict
