/-
What an index insertion does to its bucket file at every kill point and under every fault: the
file is the old bytes followed by a prefix of the one record being appended.
-/
import Cacache.Lemmas.Writer

namespace Cacache
open Prog

/-- "The bucket's bytes are `b`" (an absent bucket is the empty one). -/
def BucketIs (fs : FS) (bucket : Path) (b : Bytes) : Prop :=
  fs.get bucket = some (.file b) ∨ (b = [] ∧ fs.get bucket = none)

variable (cfg : Cfg) (env : Env) (cache : Path)

/-- The bucket is the old bytes plus a prefix of the frame of the record under construction —
a record whose time is the caller's (if one was given) and is a `u128` whenever the caller's is
(the clock's always is): what is needed for the record to be well-formed (`mkRec_wf`). -/
def Growing (key : Bytes) (o : WriteOpts) (b0 : Bytes) (fs : FS) : Prop :=
  ∃ tm k, BucketIs fs (bucketPath cfg cache key) (b0 ++ ((codec cfg).frame (mkRec key o tm)).take k) ∧
    (∀ t, o.time = some t → tm = t) ∧ ((∀ t, o.time = some t → t ≤ timeMax) → tm ≤ timeMax)

/-- Forgetting what is known about the time. -/
theorem Growing.bucket {key : Bytes} {o : WriteOpts} {b0 : Bytes} {fs : FS}
    (h : Growing cfg cache key o b0 fs) :
    ∃ tm k, BucketIs fs (bucketPath cfg cache key) (b0 ++ ((codec cfg).frame (mkRec key o tm)).take k) := by
  obtain ⟨tm, k, hb, _⟩ := h
  exact ⟨tm, k, hb⟩

/-- Nothing appended yet. -/
theorem growing_zero {key : Bytes} {o : WriteOpts} {b0 : Bytes} {fs : FS}
    (h : BucketIs fs (bucketPath cfg cache key) b0) : Growing cfg cache key o b0 fs := by
  refine ⟨o.time.getD 0, 0, by simpa using h, ?_, ?_⟩
  · intro t ht; simp [ht]
  · intro hle
    cases ht : o.time with
    | none => exact Nat.zero_le _
    | some t => exact hle t ht

theorem bucket_not_prefix_parent (key : Bytes) :
    ¬ bucketPath cfg cache key <+: FS.parent (bucketPath cfg cache key) := by
  intro h
  have := h.length_le
  simp [bucketPath, FS.parent] at this

theorem BucketIs.frame {fs fs' : FS} {bucket : Path} {b : Bytes} (h : BucketIs fs bucket b)
    (he : fs'.get bucket = fs.get bucket) : BucketIs fs' bucket b := by
  unfold BucketIs at *; rw [he]; exact h

/-- **Index insertion, every kill point, every fault**: the bucket only ever is the old bytes plus
a prefix of the new frame; on success it is the old bytes plus the whole frame. -/
theorem insert_bucket_wp (key : Bytes) (o : WriteOpts) (b0 : Bytes) {fs : FS}
    (hb : BucketIs fs (bucketPath cfg cache key) b0) :
    wpD env (Growing cfg cache key o b0)
      (fun r fs' => ∀ s, r = Except.ok s → ∃ tm, (∀ t, o.time = some t → tm = t) ∧
        fs'.get (bucketPath cfg cache key) = some (.file (b0 ++ (codec cfg).frame (mkRec key o tm))) ∧
        ((∀ t, o.time = some t → t ≤ timeMax) → tm ≤ timeMax))
      (insert cfg cache key o) fs := by
  have G0 : ∀ fsx, BucketIs fsx (bucketPath cfg cache key) b0 → Growing cfg cache key o b0 fsx :=
    fun fsx h => growing_zero cfg cache h
  -- the tail: open for append, write the frame
  have tail : ∀ fsx tm, (∀ t, o.time = some t → tm = t) →
      ((∀ t, o.time = some t → t ≤ timeMax) → tm ≤ timeMax) → BucketIs fsx (bucketPath cfg cache key) b0 →
      wpD env (Growing cfg cache key o b0)
        (fun r fs' => ∀ s, r = Except.ok s → ∃ tm, (∀ t, o.time = some t → tm = t) ∧
          fs'.get (bucketPath cfg cache key) = some (.file (b0 ++ (codec cfg).frame (mkRec key o tm))) ∧
          ((∀ t, o.time = some t → t ≤ timeMax) → tm ≤ timeMax))
        (Prog.bind (appendRec cfg (bucketPath cfg cache key) (mkRec key o tm)) (fun a =>
          match a with
          | Except.error e => .done (Except.error e)
          | Except.ok () => .done (Except.ok (o.sri.getD defaultSri)))) fsx := by
    intro fsx tm htm hbound hbx
    unfold appendRec
    simp only [bind_eq, pure_eq, call, bind_sys, bind_done]
    refine wpD_call (G0 _ hbx) ?_ ?_
    · intro t; simp only [execTorn]; exact G0 _ hbx
    intro fs1 r1 hs1
    -- after openAppend the bucket is a regular file holding b0, or the call failed and nothing changed
    have hopen : (∃ e, r1 = .err e) ∧ BucketIs fs1 (bucketPath cfg cache key) b0 ∨
        fs1.get (bucketPath cfg cache key) = some (.file b0) := by
      cases hs1 with
      | fail e short => exact Or.inl ⟨⟨e, rfl⟩, by simpa [execFail] using hbx⟩
      | ok =>
        simp only [exec]
        rcases hbx with hf | ⟨rfl, hn⟩
        · simp [hf]
        · simp only [hn]
          split
          · right; simp
          · left; exact ⟨⟨_, rfl⟩, Or.inr ⟨rfl, hn⟩⟩
    rcases hopen with ⟨⟨e, rfl⟩, hb1⟩ | hf1
    · exact ⟨G0 _ hb1, fun s h => by cases h⟩
    · split
      · exact ⟨G0 _ (Or.inl hf1), fun s h => by cases h⟩
      · simp only [bind_sys]
        refine wpD_call (G0 _ (Or.inl hf1)) ?_ ?_
        · intro t
          refine ⟨tm, t, Or.inl ?_, htm, hbound⟩
          simp [execTorn, exec, hf1]
        intro fs2 r2 hs2
        cases hs2 with
        | fail e short =>
          simp only [bind_done]
          refine ⟨⟨tm, short, Or.inl ?_, htm, hbound⟩, fun s h => by cases h⟩
          simp [execFail, exec, hf1]
        | ok =>
          simp only [exec, hf1, bind_done]
          refine ⟨⟨tm, ((codec cfg).frame (mkRec key o tm)).length, Or.inl ?_, htm, hbound⟩, ?_⟩
          · simp
          · intro s _; exact ⟨tm, htm, by simp, hbound⟩
  unfold insert getTime
  simp only [bind_eq, pure_eq, call, bind_sys, bind_done]
  have hnt : ¬ (Call.mkdirP (FS.parent (bucketPath cfg cache key))).touches fs (bucketPath cfg cache key) :=
    bucket_not_prefix_parent cfg cache key
  refine wpD_call (G0 _ hb) ?_ ?_
  · intro t; exact G0 _ (hb.frame (torn_frame env fs t _ _ hnt))
  intro fs1 r1 hs1
  have hb1 : BucketIs fs1 (bucketPath cfg cache key) b0 := hb.frame (step_frame env fs fs1 _ r1 hs1 _ hnt)
  split
  · exact ⟨G0 _ hb1, fun s h => by cases h⟩
  · split
    · rename_i t0 ht0
      simp only [bind_done]
      exact tail fs1 _ (fun t ht => by rw [ht0] at ht; cases ht; rfl) (fun hle => hle _ ht0) hb1
    · simp only [bind_sys]
      refine wpD_call (G0 _ hb1) (fun t => by simpa [execTorn] using G0 _ hb1) ?_
      intro fs2 r2 hs2
      have hb2 : BucketIs fs2 (bucketPath cfg cache key) b0 :=
        hb1.frame (step_frame env fs1 fs2 _ r2 hs2 _ (by simp [Call.touches]))
      rename_i hnone
      split
      · rename_i tnow
        have hle : tnow ≤ timeMax := by
          cases hs2 with
          | ok => exact now_answer (answer_exec env fs1 .now)
        simp only [bind_done]; exact tail fs2 _ (fun t ht => by rw [hnone] at ht; cases ht) (fun _ => hle) hb2
      · simp only [bind_done]
        exact tail fs2 _ (fun t ht => by rw [hnone] at ht; cases ht) (fun _ => Nat.zero_le _) hb2

end Cacache
