/-
Helper lemmas about bucket decoding, lookup and listing, generic in the codec.
-/
import Cacache.Index
import Cacache.Lemmas.Lines

namespace Cacache

variable {R M : Type}

/-- The laws the record codec has to satisfy **for the records in `W`** — for the concrete
serde/SHA-256 codec they are *proved* in `Lemmas/Record.lean` with `W = Rec.WF` (what Rust's types
guarantee about a record the library builds, plus JSON nesting below serde_json's limit: the excluded
point is known finding F9).  All index theorems depend on the codec only through these. -/
structure Codec.Laws (c : Codec R M) (W : R → Prop) : Prop where
  dec_enc : ∀ r, W r → c.dec (c.enc r) = some r
  enc_no_nl : ∀ r, W r → NL ∉ c.enc r
  enc_valid : ∀ r, W r → c.valid (c.enc r) = true
  enc_ne_nil : ∀ r, W r → c.enc r ≠ []
  enc_no_cr_end : ∀ r, W r → (c.enc r).getLast? ≠ some CR
  dec_nil : c.dec [] = none

/-- Laws about partial records, on top of `Codec.Laws`: a strict prefix of an encoded record does
not decode (for the concrete codec: no tab yet, or a cut JSON object — proved in
`Lemmas/Record.lean` for every hash function), and an encoded record holds no carriage return. -/
structure Codec.TornLaws (c : Codec R M) (W : R → Prop) : Prop extends c.Laws W where
  prefix_none : ∀ r, W r → ∀ p, p <+: c.enc r → p ≠ c.enc r → c.dec p = none
  enc_no_cr : ∀ r, W r → CR ∉ c.enc r

/-- Records of a byte string all of whose segments are (or have become) newline-terminated. -/
def Codec.entriesT (c : Codec R M) (b : Bytes) : List R :=
  (linesT c.valid (splitNL b)).filterMap c.decLine

theorem Codec.entries_append_nl (c : Codec R M) (a x : Bytes) :
    c.entries (a ++ NL :: x) = c.entriesT a ++ c.entries x := by
  unfold Codec.entries Codec.entriesT
  rw [lines_append_nl, List.filterMap_append]

theorem Codec.entriesT_append_nl (c : Codec R M) (a x : Bytes) :
    c.entriesT (a ++ NL :: x) = c.entriesT a ++ c.entriesT x := by
  unfold Codec.entriesT
  rw [splitNL_append_nl]
  simp [linesT, List.filterMap_append]

theorem stripCR_of_no_cr (s : Bytes) (h : s.getLast? ≠ some CR) : stripCR s = s := by
  unfold stripCR
  cases hs : s.getLast? with
  | none => rfl
  | some c =>
    have : c ≠ CR := fun e => h (by rw [hs, e])
    simp [this]

variable {W : R → Prop}

theorem Codec.Laws.entries_enc {c : Codec R M} (L : c.Laws W) (r : R) (hr : W r) :
    c.entries (c.enc r) = [r] := by
  unfold Codec.entries
  rw [lines_no_nl _ _ (L.enc_no_nl r hr)]
  simp [lineU, L.enc_ne_nil r hr, L.enc_valid r hr, Codec.decLine, L.dec_enc r hr]

theorem Codec.Laws.entriesT_enc {c : Codec R M} (L : c.Laws W) (r : R) (hr : W r) :
    c.entriesT (c.enc r) = [r] := by
  unfold Codec.entriesT
  rw [splitNL_no_nl _ (L.enc_no_nl r hr)]
  simp [linesT, lineT, L.enc_valid r hr, Codec.decLine, stripCR_of_no_cr _ (L.enc_no_cr_end r hr),
    L.dec_enc r hr]

/-- Appending one framed record adds exactly that record, whatever the file held before. -/
theorem Codec.Laws.entries_append_frame {c : Codec R M} (L : c.Laws W) (b : Bytes) (r : R) (hr : W r) :
    c.entries (b ++ c.frame r) = c.entriesT b ++ [r] := by
  unfold Codec.frame
  rw [c.entries_append_nl, L.entries_enc r hr]

theorem Codec.Laws.entriesT_append_frame {c : Codec R M} (L : c.Laws W) (b : Bytes) (r : R) (hr : W r) :
    c.entriesT (b ++ c.frame r) = c.entriesT b ++ [r] := by
  unfold Codec.frame
  rw [c.entriesT_append_nl, L.entriesT_enc r hr]

/-- The file after a history of appends. -/
def Codec.appendAll (c : Codec R M) (b : Bytes) : List R → Bytes
  | [] => b
  | r :: rs => c.appendAll (b ++ c.frame r) rs

theorem Codec.appendAll_append (c : Codec R M) (b : Bytes) (rs ss : List R) :
    c.appendAll b (rs ++ ss) = c.appendAll (c.appendAll b rs) ss := by
  induction rs generalizing b with
  | nil => rfl
  | cons r rs ih => simp [Codec.appendAll, ih]

theorem Codec.Laws.entriesT_appendAll {c : Codec R M} (L : c.Laws W) (b : Bytes) (rs : List R)
    (hW : ∀ r ∈ rs, W r) : c.entriesT (c.appendAll b rs) = c.entriesT b ++ rs := by
  induction rs generalizing b with
  | nil => simp [Codec.appendAll]
  | cons r rs ih =>
    simp [Codec.appendAll, ih _ (fun x hx => hW x (List.mem_cons_of_mem _ hx)),
      L.entriesT_append_frame _ r (hW r (by simp))]

/-- After at least one append, what a reader sees is the old records (with the old tail now
terminated) followed by exactly the appended records, in order. -/
theorem Codec.Laws.entries_appendAll {c : Codec R M} (L : c.Laws W) (b : Bytes) (rs : List R)
    (r : R) (hW : ∀ x ∈ rs, W x) (hr : W r) :
    c.entries (c.appendAll b (rs ++ [r])) = c.entriesT b ++ rs ++ [r] := by
  rw [c.appendAll_append]
  simp only [Codec.appendAll]
  rw [L.entries_append_frame _ r hr, L.entriesT_appendAll _ _ hW]

theorem Codec.Laws.entries_appendAll_ne_nil {c : Codec R M} (L : c.Laws W) (b : Bytes) (rs : List R)
    (hW : ∀ x ∈ rs, W x) (h : rs ≠ []) : c.entries (c.appendAll b rs) = c.entriesT b ++ rs := by
  have hl := (List.dropLast_concat_getLast h).symm
  have h1 : ∀ x ∈ rs.dropLast, W x := fun x hx => hW x (by rw [hl]; simp [hx])
  rw [hl, L.entries_appendAll _ _ _ h1 (hW _ (List.getLast_mem h)), List.append_assoc]

/-- A file is *settled* when reading it as it is equals reading it once more bytes follow a
newline: true of the empty file and of every file that ends in a framed record. -/
def Codec.Settled (c : Codec R M) (b : Bytes) : Prop := c.entries b = c.entriesT b

theorem Codec.Laws.settled_nil {c : Codec R M} (L : c.Laws W) : c.Settled [] := by
  unfold Codec.Settled Codec.entries Codec.entriesT
  simp [lines, splitNL, linesOfSegs, lineU, linesT, lineT, stripCR, Codec.decLine]
  cases c.valid [] <;> simp [L.dec_nil]

theorem Codec.Laws.settled_frame {c : Codec R M} (L : c.Laws W) (b : Bytes) (r : R) (hr : W r) :
    c.Settled (b ++ c.frame r) := by
  unfold Codec.Settled
  rw [L.entries_append_frame _ r hr, L.entriesT_append_frame _ r hr]

theorem Codec.Laws.settled_appendAll {c : Codec R M} (L : c.Laws W) (b : Bytes) (rs : List R)
    (hW : ∀ x ∈ rs, W x) (hb : c.Settled b) : c.Settled (c.appendAll b rs) := by
  induction rs generalizing b with
  | nil => exact hb
  | cons r rs ih =>
    exact ih _ (fun x hx => hW x (List.mem_cons_of_mem _ hx)) (L.settled_frame b r (hW r (by simp)))

/-! ### lookup -/

theorem Codec.findIn_append (c : Codec R M) (k : Bytes) (rs ss : List R) :
    c.findIn k (rs ++ ss) = ss.foldl (c.findStep k) (c.findIn k rs) := by
  simp [Codec.findIn, List.foldl_append]

theorem Codec.foldl_findStep_other (c : Codec R M) (k : Bytes) (ss : List R) (acc : Option M)
    (h : ∀ s ∈ ss, c.key s ≠ k) : ss.foldl (c.findStep k) acc = acc := by
  induction ss generalizing acc with
  | nil => rfl
  | cons s ss ih =>
    have hs : c.key s ≠ k := h s (by simp)
    simp only [List.foldl_cons, Codec.findStep, hs, if_false]
    exact ih acc (fun s' hs' => h s' (by simp [hs']))

/-- Records for other keys do not influence a lookup. -/
theorem Codec.findIn_filter (c : Codec R M) (k : Bytes) (rs : List R) :
    c.findIn k rs = c.findIn k (rs.filter (fun r => c.key r = k)) := by
  unfold Codec.findIn
  generalize (none : Option M) = acc
  induction rs generalizing acc with
  | nil => rfl
  | cons r rs ih =>
    by_cases h : c.key r = k
    · simp [List.filter, h, ih]
    · simp [List.filter, h, Codec.findStep, ih]

/-- What a record contributes to the lookup of its own key. -/
def Cls.apply (acc : Option M) : Cls M → Option M
  | .live m => some m
  | .tomb => none
  | .bad => acc

theorem Codec.findStep_self (c : Codec R M) (acc : Option M) (r : R) :
    c.findStep (c.key r) acc r = (c.cls r).apply acc := by
  unfold Codec.findStep Cls.apply
  simp
  cases c.cls r <;> rfl

/-- **Last record wins**: if `r` is followed only by records of other keys, the lookup of
`r`'s key is decided by `r` (and, for an unparsable integrity, by what came before). -/
theorem Codec.findIn_last (c : Codec R M) (pre post : List R) (r : R)
    (h : ∀ s ∈ post, c.key s ≠ c.key r) :
    c.findIn (c.key r) (pre ++ r :: post) = (c.cls r).apply (c.findIn (c.key r) pre) := by
  rw [c.findIn_append]
  simp only [List.foldl_cons]
  rw [c.foldl_findStep_other _ _ _ h, c.findStep_self]

/-- A key with no record at all is not found. -/
theorem Codec.findIn_none (c : Codec R M) (k : Bytes) (rs : List R)
    (h : ∀ s ∈ rs, c.key s ≠ k) : c.findIn k rs = none :=
  c.foldl_findStep_other k rs none h

/-! ### listing -/

theorem dedupAux_key_notin (key : R → Bytes) (seen : List Bytes) (rs : List R) :
    ∀ r ∈ dedupAux key seen rs, key r ∉ seen := by
  induction rs generalizing seen with
  | nil => simp [dedupAux]
  | cons x xs ih =>
    intro r hr
    unfold dedupAux at hr
    split at hr
    · exact ih seen r hr
    · rename_i hx
      rcases List.mem_cons.mp hr with rfl | hr'
      · exact hx
      · exact fun hm => ih (key x :: seen) r hr' (List.mem_cons_of_mem _ hm)

theorem dedupAux_sub (key : R → Bytes) (seen : List Bytes) (rs : List R) :
    ∀ r ∈ dedupAux key seen rs, r ∈ rs := by
  induction rs generalizing seen with
  | nil => simp [dedupAux]
  | cons x xs ih =>
    intro r hr
    unfold dedupAux at hr
    split at hr
    · exact List.mem_cons_of_mem _ (ih seen r hr)
    · rcases List.mem_cons.mp hr with rfl | hr'
      · simp
      · exact List.mem_cons_of_mem _ (ih _ r hr')

/-- The de-duplicated list has pairwise distinct keys. -/
theorem dedupAux_nodup (key : R → Bytes) (seen : List Bytes) (rs : List R) :
    ((dedupAux key seen rs).map key).Nodup := by
  induction rs generalizing seen with
  | nil => simp [dedupAux]
  | cons x xs ih =>
    unfold dedupAux
    split
    · exact ih seen
    · simp only [List.map_cons, List.nodup_cons]
      refine ⟨?_, ih _⟩
      intro hm
      obtain ⟨r, hr, hk⟩ := List.mem_map.mp hm
      exact dedupAux_key_notin key (key x :: seen) xs r hr (by simp [hk])

/-- Characterisation: `r` survives de-duplication of `x :: xs`-style lists iff it is the first
record with its key (and the key was not already seen). -/
theorem mem_dedupAux (key : R → Bytes) (seen : List Bytes) (rs : List R) (r : R) :
    r ∈ dedupAux key seen rs ↔
      key r ∉ seen ∧ ∃ pre post, rs = pre ++ r :: post ∧ ∀ s ∈ pre, key s ≠ key r := by
  induction rs generalizing seen with
  | nil => simp [dedupAux]
  | cons x xs ih =>
    unfold dedupAux
    split
    · rename_i hx
      rw [ih]
      constructor
      · rintro ⟨hns, pre, post, rfl, hpre⟩
        refine ⟨hns, x :: pre, post, by simp, ?_⟩
        intro s hs
        rcases List.mem_cons.mp hs with rfl | hs'
        · exact fun e => hns (e ▸ hx)
        · exact hpre s hs'
      · rintro ⟨hns, pre, post, heq, hpre⟩
        refine ⟨hns, ?_⟩
        cases pre with
        | nil =>
          simp only [List.nil_append, List.cons.injEq] at heq
          exact absurd (heq.1 ▸ hx) hns
        | cons p ps =>
          simp only [List.cons_append, List.cons.injEq] at heq
          exact ⟨ps, post, heq.2, fun s hs => hpre s (List.mem_cons_of_mem _ hs)⟩
    · rename_i hx
      rw [List.mem_cons, ih]
      constructor
      · rintro (rfl | ⟨hns, pre, post, rfl, hpre⟩)
        · exact ⟨hx, [], xs, rfl, by simp⟩
        · have hne : key r ≠ key x := fun e => hns (by simp [e])
          refine ⟨fun hm => hns (List.mem_cons_of_mem _ hm), x :: pre, post, by simp, ?_⟩
          intro s hs
          rcases List.mem_cons.mp hs with rfl | hs'
          · exact fun e => hne e.symm
          · exact hpre s hs'
      · rintro ⟨hns, pre, post, heq, hpre⟩
        cases pre with
        | nil =>
          simp only [List.nil_append, List.cons.injEq] at heq
          exact Or.inl heq.1.symm
        | cons p ps =>
          simp only [List.cons_append, List.cons.injEq] at heq
          right
          have hp : key p ≠ key r := hpre p (by simp)
          refine ⟨?_, ps, post, heq.2, fun s hs => hpre s (List.mem_cons_of_mem _ hs)⟩
          intro hm
          rcases List.mem_cons.mp hm with e | hm'
          · exact hp (heq.1 ▸ e.symm)
          · exact hns hm'

/-- `r` is kept by the listing of `rs` iff it is the LAST record of `rs` with its key. -/
theorem mem_dedupKey_reverse (key : R → Bytes) (rs : List R) (r : R) :
    r ∈ dedupKey key rs.reverse ↔
      ∃ pre post, rs = pre ++ r :: post ∧ ∀ s ∈ post, key s ≠ key r := by
  unfold dedupKey
  rw [mem_dedupAux]
  simp only [List.not_mem_nil, not_false_eq_true, true_and]
  constructor
  · rintro ⟨pre, post, h, hp⟩
    refine ⟨post.reverse, pre.reverse, ?_, fun s hs => hp s (List.mem_reverse.mp hs)⟩
    have := congrArg List.reverse h
    simpa using this
  · rintro ⟨pre, post, h, hp⟩
    refine ⟨post.reverse, pre.reverse, ?_, fun s hs => hp s (List.mem_reverse.mp hs)⟩
    subst h; simp

end Cacache
