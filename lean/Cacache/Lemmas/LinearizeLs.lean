/-
Linearizability of a LISTING (`ls`) that runs concurrently with index writers — the part of C07
("writers, removers, readers, LISTERS: every operation's result and the final cache state are those
of some sequential ordering") that `Lemmas/Linearize` leaves open.

The model: `ls cfg cache` makes ONE `.walk (cache ++ [dIndex])` call (an atomic snapshot of the
PATHS below the index directory), then ONE `.readFile` per non-directory path of the snapshot, in
walk order.  So a listing is not a snapshot of the index; but every bucket is read exactly once, a
bucket created after the walk is not read, and every index operation (`insert`, `delete`, `find`)
touches exactly one bucket file — its linearization point is its one `.appendWrite` / `.readFile`.
The serial order: the operations whose linearization point on bucket `B` precedes the lister's read
of `B` (`B` in the snapshot) come BEFORE the lister, all others AFTER it, each group in real-time
order.  Moving an operation in front of the later-linearized "after" group is only ever needed
across DIFFERENT bucket files, and such operations commute on the abstract map (`legal_shift`).
Bucket collisions (two keys, one bucket file) are modelled, not excluded: everything is ordered by
bucket FILE (`cell k = bucketPath cfg cache k`), never by key.

Main theorems (every schedule, granularity = one filesystem call):
* `scan_linearizable` — generic: any number of processes pending (`Linearize.Pending`) for
  single-key abstract operations (`LocalAt`) next to one scanner (`ScanOK`) have a duplicate-free
  serial history `LegalLs`: every writer answers what its abstract operation answers at its
  position, the scanner's items list (`ListRefine.ListsIndex`) the abstract state at ITS position.
* `ls_among_writers_linearizable` — the instance: `procs` = one process per `IOp` of any list `ops`
  (inserts, deletes, finds; any keys, any number) plus ONE lister; hypotheses `HealthyIndex` and the
  call-level side invariant `Side` (from `ListRefine.Tidy` + warm index by `side_of_tidy`).
* `ls_among_writers_serializable` (T3) — the same against the REAL PROGRAMS run one after the other
  (`runHist`): same answers (`SameAnswers`: a listing's up to the order of its items), same abstract
  index at the end, every lookup answers the same in both final states.
* `lister_answer` — the lister's items are, up to order, what `ls` answers ALONE after the serial
  execution of some of the finished writers.
* `ls_linearizable_insert`, `ls_linearizable_delete` (T1) — one writer, one lister: the items are a
  permutation of the listing alone BEFORE or alone AFTER the operation.
* `ls_insert_serial`, `ls_delete_serial` (T2) — both results and the final filesystem are those of `Linearize.serialRW`
  or `Linearize.serialWR` (filesystem and writer's result literally, items up to order).
* `ls_two_writers_serializable` (T4) — two writers (any `IOp`s, any keys) and one lister.
* `run_ls_side` — by-product: sequential total correctness of `ls` from the call-level invariants.
Non-vacuity at the end: `warm_after_first_insert` (the hypotheses on the filesystem hold after one
insertion into the empty filesystem), `ls_finishes` / `both_finish` (from every such state there
are schedules after which the lister / both processes have finished), and `example`s applying the
theorems.

Up to order, not literally (the counter-example is not formalised): the model's walk enumerates `FS.below` (insertion order of `FS.dom`); a
sequential insertion into an EXISTING bucket moves that bucket to the front of the walk order, while
the concurrent lister may have walked before and read the bucket after the append — its items are
then those of the "after" listing in the "before" order.  `ListRefine` specifies listings up to
permutation for the same reason.

The WARM hypothesis (`hwarm : fs.get (cache ++ [dIndex]) = some .dir`, field `Side.warm`) is what
excludes the documented cold-cache exception: with `index-v5` absent the walk answers
`Err(NotFound)`, and a lister racing with the first insertion's `create_dir_all` can observe that —
an answer neither serial order gives.  Partly created bucket DIRECTORIES are harmless (directories
are skipped, a missing bucket is not listed) and are covered: nothing is assumed about them.
One insertion into the empty filesystem makes any cache warm (`warm_after_first_insert`).

Not claimed (false in the model, see the header of `Lemmas/Linearize`): two or more concurrent
listers.
-/
import Cacache.Lemmas.Linearize
import Cacache.Lemmas.ListRefine

namespace Cacache.LinearizeLs
open Prog Refine Linearize ListRefine

/-! ### generic: single-key operations next to one scanner -/

section Generic

variable {γ : Type}

/-- The abstract operation reads and writes the one key `k` only. -/
structure LocalAt (k : Bytes) (spec : AbsIndex → AbsIndex × γ) : Prop where
  out : ∀ m m' : AbsIndex, m k = m' k → (spec m).2 = (spec m').2
  val : ∀ m m' : AbsIndex, m k = m' k → (spec m).1 k = (spec m').1 k
  frame : ∀ (m : AbsIndex) x, x ≠ k → (spec m).1 x = m x

/-- **Operations on other keys commute with a change at `k`**: a legal history none of whose
operations works on `k` stays legal when the value at `k` is changed in its start state — and ends
in the old final state with the same change. -/
theorem legal_shift {specs : Nat → AbsIndex → AbsIndex × γ} {keyAt : Nat → Bytes}
    (hloc : ∀ j, LocalAt (keyAt j) (specs j)) (k : Bytes) (h : List (Nat × γ)) (a b a' : AbsIndex)
    (hl : Legal specs h a b) (hk : ∀ x ∈ h, keyAt x.1 ≠ k) (ha : ∀ x, x ≠ k → a' x = a x) :
    Legal specs h a' (fun x => if x = k then a' k else b x) := by
  induction h generalizing a a' with
  | nil =>
    have hb : b = a := hl
    subst hb
    show (fun x => if x = k then a' k else b x) = a'
    funext x
    by_cases e : x = k
    · subst e; simp
    · simp [e, ha x e]
  | cons y h ih =>
    obtain ⟨j, out⟩ := y
    obtain ⟨h1, h2⟩ := hl
    have hjk : keyAt j ≠ k := hk (j, out) List.mem_cons_self
    have e0 : a' (keyAt j) = a (keyAt j) := ha _ hjk
    have hstep : ∀ x, x ≠ k → (specs j a').1 x = (specs j a).1 x := by
      intro x hx
      by_cases e : x = keyAt j
      · subst e; exact (hloc j).val a' a e0
      · rw [(hloc j).frame a' x e, (hloc j).frame a x e]; exact ha x hx
    have hkk : (specs j a').1 k = a' k := (hloc j).frame a' k (fun e => hjk e.symm)
    have := ih (specs j a).1 (specs j a').1 h2 (fun x hx => hk x (List.mem_cons_of_mem _ hx)) hstep
    rw [hkk] at this
    exact ⟨((hloc j).out a' a e0).trans h1, this⟩

/-- A serial history with one listing in it: process `L` is the lister, its answer is any list of
items that lists the abstract index at its position exactly (`ListRefine.ListsIndex`: the entries,
once each, in some order); every other process `j` is the deterministic abstract operation
`specs j`. -/
def LegalLs (specs : Nat → AbsIndex → AbsIndex × γ) (L : Nat) (g : List LsItem → γ) :
    List (Nat × γ) → AbsIndex → AbsIndex → Prop
  | [], a0, a => a = a0
  | (j, out) :: rest, a0, a =>
    if j = L then (∃ items, out = g items ∧ ListsIndex a0 items) ∧ LegalLs specs L g rest a0 a
    else (specs j a0).2 = out ∧ LegalLs specs L g rest (specs j a0).1 a

theorem legalLs_of_legal {specs : Nat → AbsIndex → AbsIndex × γ} {L : Nat} {g : List LsItem → γ}
    {h : List (Nat × γ)} {a b : AbsIndex} (hL : L ∉ h.map Prod.fst) (hl : Legal specs h a b) :
    LegalLs specs L g h a b := by
  induction h generalizing a with
  | nil => exact hl
  | cons y h ih =>
    obtain ⟨j, out⟩ := y
    have hj : j ≠ L := fun e => hL (by simp [e])
    unfold LegalLs
    rw [if_neg hj]
    exact ⟨hl.1, ih (fun hm => hL (List.mem_cons_of_mem _ hm)) hl.2⟩

theorem legalLs_append {specs : Nat → AbsIndex → AbsIndex × γ} {L : Nat} {g : List LsItem → γ}
    {h1 h2 : List (Nat × γ)} {a a1 b : AbsIndex} (l1 : LegalLs specs L g h1 a a1)
    (l2 : LegalLs specs L g h2 a1 b) : LegalLs specs L g (h1 ++ h2) a b := by
  induction h1 generalizing a with
  | nil => have : a1 = a := l1; subst this; exact l2
  | cons y h ih =>
    obtain ⟨j, out⟩ := y
    simp only [List.cons_append]
    unfold LegalLs at l1 ⊢
    by_cases hj : j = L
    · rw [if_pos hj] at l1 ⊢
      exact ⟨l1.1, ih l1.2⟩
    · rw [if_neg hj] at l1 ⊢
      exact ⟨l1.1, ih l1.2⟩

theorem legalLs_split {specs : Nat → AbsIndex → AbsIndex × γ} {L : Nat} {g : List LsItem → γ}
    {h1 h2 : List (Nat × γ)} {a b : AbsIndex} (l : LegalLs specs L g (h1 ++ h2) a b) :
    ∃ a1, LegalLs specs L g h1 a a1 ∧ LegalLs specs L g h2 a1 b := by
  induction h1 generalizing a with
  | nil => exact ⟨a, rfl, l⟩
  | cons y h ih =>
    obtain ⟨j, out⟩ := y
    simp only [List.cons_append] at l
    unfold LegalLs at l
    by_cases hj : j = L
    · rw [if_pos hj] at l
      obtain ⟨a1, i1, i2⟩ := ih l.2
      refine ⟨a1, ?_, i2⟩
      unfold LegalLs; rw [if_pos hj]; exact ⟨l.1, i1⟩
    · rw [if_neg hj] at l
      obtain ⟨a1, i1, i2⟩ := ih l.2
      refine ⟨a1, ?_, i2⟩
      unfold LegalLs; rw [if_neg hj]; exact ⟨l.1, i1⟩

/-- A legal history without the lister is a legal history of the writers' machine. -/
theorem legal_of_legalLs {specs : Nat → AbsIndex → AbsIndex × γ} {L : Nat} {g : List LsItem → γ}
    {h : List (Nat × γ)} {a b : AbsIndex} (hL : L ∉ h.map Prod.fst) (hl : LegalLs specs L g h a b) :
    Legal specs h a b := by
  induction h generalizing a with
  | nil => exact hl
  | cons y h ih =>
    obtain ⟨j, out⟩ := y
    have hj : j ≠ L := fun e => hL (by simp [e])
    unfold LegalLs at hl
    rw [if_neg hj] at hl
    exact ⟨hl.1, ih (fun hm => hL (List.mem_cons_of_mem _ hm)) hl.2⟩

variable (S : LinSys AbsIndex) (env : Env) (cell : Bytes → Path)

/-- A **scanner**: a process that first takes a snapshot of the list of cells (`init`, one call),
then reads the cells one by one (`scan acc rest`: items collected so far, cells still to read; one
call per cell), changes nothing, and answers the collected items.  `Q c` is what is known of a
cell from the snapshot on (stable under everybody's guarantee).  A cell missing from the snapshot
holds no key; reading a cell yields exactly the entries of the keys that live in it. -/
structure ScanOK (g : List LsItem → γ) (init : Prog γ) (scan : List LsItem → List Path → Prog γ)
    (Q : Path → FS → Prop) : Prop where
  fin : ∀ acc, scan acc [] = .done (g acc)
  initBusy : ∀ a, init ≠ .done a
  scanBusy : ∀ acc c rest a, scan acc (c :: rest) ≠ .done a
  stableQ : ∀ c, Stable S (Q c)
  walk : ∀ s, S.Inv s → ∃ cells, step env init s = (scan [] cells, s) ∧ cells.Nodup ∧
    (∀ c ∈ cells, Q c s) ∧ ∀ k, cell k ∉ cells → S.abs s k = none
  read : ∀ s acc c rest, S.Inv s → Q c s → ∃ ms : List Meta,
    step env (scan acc (c :: rest)) s = (scan (acc ++ ms.map LsItem.entry) rest, s) ∧
    (ms.map (fun m => m.key)).Nodup ∧ ∀ m, m ∈ ms ↔ (cell m.key = c ∧ S.abs s m.key = some m)

/-- The bookkeeping of the proof: writers linearized before / after the lister, the abstract state
at the lister's position, and how far the lister got. -/
structure Ghost (γ : Type) where
  pre : List (Nat × γ)
  post : List (Nat × γ)
  aL : AbsIndex
  walked : Bool
  acc : List LsItem
  done : List Path
  rest : List Path

/-- The cell is still to be read by the lister (before the snapshot: every cell is). -/
def Ghost.inRest (G : Ghost γ) (c : Path) : Prop := G.walked = false ∨ c ∈ G.rest

variable (keyAt : Nat → Bytes) (specs : Nat → AbsIndex → AbsIndex × γ) (L : Nat)
  (g : List LsItem → γ) (init : Prog γ) (scan : List LsItem → List Path → Prog γ)
  (Q : Path → FS → Prop) (a0 : AbsIndex)

structure Good (G : Ghost γ) (qs : List (Prog γ)) (s : FS) : Prop where
  inv : S.Inv s
  nodup : ((G.pre ++ G.post).map Prod.fst).Nodup
  noL : L ∉ (G.pre ++ G.post).map Prod.fst
  legPre : Legal specs G.pre a0 G.aL
  legPost : Legal specs G.post G.aL (S.abs s)
  fin : ∀ j out, (j, out) ∈ G.pre ++ G.post → qs[j]? = some (.done out)
  pend : ∀ j p, j ≠ L → qs[j]? = some p → j ∉ (G.pre ++ G.post).map Prod.fst →
    ∃ π, Stable S π ∧ π s ∧ Pending S env (specs j) p π
  lister : qs[L]? = some (if G.walked = true then scan G.acc G.rest else init)
  fresh : G.walked = false → G.acc = [] ∧ G.done = [] ∧ G.rest = []
  b1 : (G.done ++ G.rest).Nodup
  b2 : ∀ c ∈ G.rest, Q c s
  b3 : ∀ k, G.inRest (cell k) → G.aL k = S.abs s k
  b4 : ∀ x ∈ G.post, ¬ G.inRest (cell (keyAt x.1))
  b5 : ∃ ms : List Meta, G.acc = ms.map LsItem.entry ∧ (ms.map (fun m => m.key)).Nodup ∧
    ∀ m, m ∈ ms ↔ (cell m.key ∈ G.done ∧ G.aL m.key = some m)
  b6 : G.walked = true → ∀ k, cell k ∉ G.done ++ G.rest → G.aL k = none

theorem lt_of_getElem? {α : Type} {l : List α} {j : Nat} {a : α} (h : l[j]? = some a) :
    j < l.length := by
  rcases Nat.lt_or_ge j l.length with h' | h'
  · exact h'
  · rw [List.getElem?_eq_none h'] at h; cases h


theorem set_same {α : Type} {l : List α} {j : Nat} {a : α} (h : l[j]? = some a) : l.set j a = l := by
  apply List.ext_getElem?
  intro i
  rw [getElem?_set_same h]

theorem nodup_insert_mid {l1 l2 : List Nat} {j : Nat} (h : (l1 ++ l2).Nodup) (hj : j ∉ l1 ++ l2) :
    (l1 ++ [j] ++ l2).Nodup := by
  simp only [List.nodup_append, List.mem_append, List.nodup_cons, List.mem_cons] at *
  grind

/-- A writer's call that is not its linearization point. -/
theorem good_silent {G : Ghost γ} {qs : List (Prog γ)} {s s' : FS} {j : Nat} {p' : Prog γ}
    (hscan : ScanOK S env cell g init scan Q)
    (hG : Good S env cell keyAt specs L init scan Q a0 G qs s) (hjL : j ≠ L) (hjlt : j < qs.length)
    (hj : j ∉ (G.pre ++ G.post).map Prod.fst)
    (hinv' : S.Inv s') (hgu : S.G s s') (habs : S.abs s' = S.abs s)
    (hpend' : ∃ π', Stable S π' ∧ π' s' ∧ Pending S env (specs j) p' π') :
    Good S env cell keyAt specs L init scan Q a0 G (qs.set j p') s' := by
  refine { hG with inv := hinv', legPost := ?_, fin := ?_, pend := ?_, lister := ?_, b2 := ?_, b3 := ?_ }
  · rw [habs]; exact hG.legPost
  · intro j2 out2 hm
    by_cases e : j = j2
    · subst e
      rw [List.getElem?_set_self hjlt]
      exact absurd (List.mem_map.mpr ⟨_, hm, rfl⟩) hj
    · rw [List.getElem?_set_ne e]; exact hG.fin j2 out2 hm
  · intro j2 p2 hne hg hn
    by_cases e : j = j2
    · subst e
      rw [List.getElem?_set_self hjlt] at hg
      cases hg
      exact hpend'
    · rw [List.getElem?_set_ne e] at hg
      obtain ⟨π2, hst2, hπ2, hP2⟩ := hG.pend j2 p2 hne hg hn
      exact ⟨π2, hst2, hst2 _ _ hπ2 hgu, hP2⟩
  · rw [List.getElem?_set_ne hjL]; exact hG.lister
  · intro c hc; exact hscan.stableQ c _ _ (hG.b2 c hc) hgu
  · intro k hk; rw [habs]; exact hG.b3 k hk


theorem not_done_of_inRest {G : Ghost γ} {qs : List (Prog γ)} {s : FS}
    (hG : Good S env cell keyAt specs L init scan Q a0 G qs s) {c : Path} (hr : G.inRest c) :
    c ∉ G.done := by
  intro hd
  rcases hr with hw | hr
  · rw [(hG.fresh hw).2.1] at hd; cases hd
  · have := hG.b1
    rw [List.nodup_append] at this
    exact this.2.2 c hd c hr rfl

/-- A writer's linearization point: the operation takes its place before the lister if the lister
has still to read its cell, after it otherwise. -/
theorem good_lin {G : Ghost γ} {qs : List (Prog γ)} {s s' : FS} {j : Nat}
    (hloc : ∀ j, LocalAt (keyAt j) (specs j)) (hscan : ScanOK S env cell g init scan Q)
    (hG : Good S env cell keyAt specs L init scan Q a0 G qs s) (hjL : j ≠ L) (hjlt : j < qs.length)
    (hj : j ∉ (G.pre ++ G.post).map Prod.fst)
    (hinv' : S.Inv s') (hgu : S.G s s') (habs : S.abs s' = (specs j (S.abs s)).1) :
    ∃ G', Good S env cell keyAt specs L init scan Q a0 G' (qs.set j (.done (specs j (S.abs s)).2)) s' := by
  have hfin : ∀ (l : List (Nat × γ)), (∀ x, x ∈ l ↔ (x ∈ G.pre ++ G.post ∨ x = (j, (specs j (S.abs s)).2))) →
      ∀ j2 out2, (j2, out2) ∈ l → (qs.set j (.done (specs j (S.abs s)).2))[j2]? = some (.done out2) := by
    intro l hl j2 out2 hm
    rcases (hl _).mp hm with hm | hm
    · have hne : j ≠ j2 := fun e => hj (by subst e; exact List.mem_map.mpr ⟨_, hm, rfl⟩)
      rw [List.getElem?_set_ne hne]
      exact hG.fin j2 out2 hm
    · cases hm
      rw [List.getElem?_set_self hjlt]
  have hpend : ∀ (l : List (Nat × γ)), (∀ x, x ∈ l ↔ (x ∈ G.pre ++ G.post ∨ x = (j, (specs j (S.abs s)).2))) →
      ∀ j2 p2, j2 ≠ L → (qs.set j (.done (specs j (S.abs s)).2))[j2]? = some p2 → j2 ∉ l.map Prod.fst →
      ∃ π, Stable S π ∧ π s' ∧ Pending S env (specs j2) p2 π := by
    intro l hl j2 p2 hne hg hn
    have hne2 : j ≠ j2 := fun e => hn (List.mem_map.mpr ⟨_, (hl _).mpr (Or.inr rfl), e⟩)
    rw [List.getElem?_set_ne hne2] at hg
    have hn' : j2 ∉ (G.pre ++ G.post).map Prod.fst := by
      intro hm
      obtain ⟨x, hx, e⟩ := List.mem_map.mp hm
      exact hn (List.mem_map.mpr ⟨x, (hl _).mpr (Or.inl hx), e⟩)
    obtain ⟨π2, hst2, hπ2, hP2⟩ := hG.pend j2 p2 hne hg hn'
    exact ⟨π2, hst2, hst2 _ _ hπ2 hgu, hP2⟩
  have hnd0 : (G.pre.map Prod.fst ++ G.post.map Prod.fst).Nodup := by
    have := hG.nodup; rwa [List.map_append] at this
  have hj0 : j ∉ G.pre.map Prod.fst ++ G.post.map Prod.fst := by rwa [List.map_append] at hj
  have hL0 : L ∉ G.pre.map Prod.fst ++ G.post.map Prod.fst := by
    have := hG.noL; rwa [List.map_append] at this
  by_cases hr : G.inRest (cell (keyAt j))
  · -- the lister has still to read the cell: before the lister
    have hk : G.aL (keyAt j) = S.abs s (keyAt j) := hG.b3 _ hr
    have hout : (specs j G.aL).2 = (specs j (S.abs s)).2 := (hloc j).out _ _ hk
    have hmem : ∀ x, x ∈ (G.pre ++ [(j, (specs j (S.abs s)).2)]) ++ G.post ↔
        (x ∈ G.pre ++ G.post ∨ x = (j, (specs j (S.abs s)).2)) := by
      intro x; simp only [List.mem_append, List.mem_singleton]; grind
    refine ⟨{ G with pre := G.pre ++ [(j, (specs j (S.abs s)).2)], aL := (specs j G.aL).1 }, ?_⟩
    refine { inv := hinv', nodup := ?_, noL := ?_, legPre := ?_, legPost := ?_, fin := hfin _ hmem,
             pend := hpend _ hmem, lister := ?_, fresh := hG.fresh, b1 := hG.b1, b2 := ?_, b3 := ?_,
             b4 := hG.b4, b5 := ?_, b6 := ?_ }
    · show (((G.pre ++ [(j, (specs j (S.abs s)).2)]) ++ G.post).map Prod.fst).Nodup
      simp only [List.map_append, List.map_cons, List.map_nil]
      exact nodup_insert_mid hnd0 hj0
    · show L ∉ ((G.pre ++ [(j, (specs j (S.abs s)).2)]) ++ G.post).map Prod.fst
      simp only [List.map_append, List.map_cons, List.map_nil, List.mem_append, List.mem_singleton] at hL0 ⊢
      grind
    · show Legal specs (G.pre ++ [(j, (specs j (S.abs s)).2)]) a0 (specs j G.aL).1
      rw [← hout]; exact hG.legPre.snoc j
    · show Legal specs G.post (specs j G.aL).1 (S.abs s')
      have hkeys : ∀ x ∈ G.post, keyAt x.1 ≠ keyAt j := by
        intro x hx e
        exact hG.b4 x hx (e ▸ hr)
      have := legal_shift hloc (keyAt j) G.post G.aL (S.abs s) (specs j G.aL).1 hG.legPost hkeys
        (fun x hx => (hloc j).frame _ x hx)
      have e : (fun x => if x = keyAt j then (specs j G.aL).1 (keyAt j) else S.abs s x) = S.abs s' := by
        rw [habs]
        funext x
        by_cases e : x = keyAt j
        · subst e; simp only [if_true]; exact (hloc j).val _ _ hk
        · simp only [e, if_false]; exact ((hloc j).frame _ x e).symm
      rw [e] at this
      exact this
    · rw [List.getElem?_set_ne hjL]; exact hG.lister
    · intro c hc; exact hscan.stableQ c _ _ (hG.b2 c hc) hgu
    · intro k hkr
      show (specs j G.aL).1 k = S.abs s' k
      rw [habs]
      by_cases e : k = keyAt j
      · subst e; exact (hloc j).val _ _ hk
      · rw [(hloc j).frame _ k e, (hloc j).frame _ k e]; exact hG.b3 k hkr
    · obtain ⟨ms, h1, h2, h3⟩ := hG.b5
      refine ⟨ms, h1, h2, fun m => ?_⟩
      show m ∈ ms ↔ (cell m.key ∈ G.done ∧ (specs j G.aL).1 m.key = some m)
      rw [h3 m]
      have hfr : cell m.key ∈ G.done → (specs j G.aL).1 m.key = G.aL m.key := by
        intro hd
        apply (hloc j).frame
        intro e
        exact not_done_of_inRest S env cell keyAt specs L init scan Q a0 hG hr (e ▸ hd)
      constructor
      · rintro ⟨hd, ha⟩; exact ⟨hd, by rw [hfr hd]; exact ha⟩
      · rintro ⟨hd, ha⟩; exact ⟨hd, by rw [← hfr hd]; exact ha⟩
    · intro hw k hk'
      show (specs j G.aL).1 k = none
      have hne : k ≠ keyAt j := by
        intro e
        rcases hr with hr | hr
        · rw [hw] at hr; cases hr
        · exact hk' (List.mem_append.mpr (Or.inr (e ▸ hr)))
      rw [(hloc j).frame _ k hne]
      exact hG.b6 hw k hk'
  · -- the lister has read the cell already, or will never read it: after the lister
    have hmem : ∀ x, x ∈ G.pre ++ (G.post ++ [(j, (specs j (S.abs s)).2)]) ↔
        (x ∈ G.pre ++ G.post ∨ x = (j, (specs j (S.abs s)).2)) := by
      intro x; simp only [List.mem_append, List.mem_singleton]; grind
    refine ⟨{ G with post := G.post ++ [(j, (specs j (S.abs s)).2)] }, ?_⟩
    refine { inv := hinv', nodup := ?_, noL := ?_, legPre := hG.legPre, legPost := ?_, fin := hfin _ hmem,
             pend := hpend _ hmem, lister := ?_, fresh := hG.fresh, b1 := hG.b1, b2 := ?_, b3 := ?_,
             b4 := ?_, b5 := hG.b5, b6 := hG.b6 }
    · show ((G.pre ++ (G.post ++ [(j, (specs j (S.abs s)).2)])).map Prod.fst).Nodup
      simp only [List.map_append, List.map_cons, List.map_nil]
      have := nodup_insert_mid (l1 := G.pre.map Prod.fst ++ G.post.map Prod.fst) (l2 := []) (j := j)
        (by simpa using hnd0) (by simpa using hj0)
      simpa using this
    · show L ∉ (G.pre ++ (G.post ++ [(j, (specs j (S.abs s)).2)])).map Prod.fst
      simp only [List.map_append, List.map_cons, List.map_nil, List.mem_append, List.mem_singleton] at hL0 ⊢
      grind
    · show Legal specs (G.post ++ [(j, (specs j (S.abs s)).2)]) G.aL (S.abs s')
      rw [habs]; exact hG.legPost.snoc j
    · rw [List.getElem?_set_ne hjL]; exact hG.lister
    · intro c hc; exact hscan.stableQ c _ _ (hG.b2 c hc) hgu
    · intro k hkr
      show G.aL k = S.abs s' k
      have hne : k ≠ keyAt j := fun e => hr (e ▸ hkr)
      rw [habs, (hloc j).frame _ k hne]
      exact hG.b3 k hkr
    · intro x hx
      rcases List.mem_append.mp hx with hx | hx
      · exact hG.b4 x hx
      · rw [List.mem_singleton.mp hx]; exact hr


/-- A step of the lister: the snapshot, reading one cell, or (finished) nothing. -/
theorem good_lister {G : Ghost γ} {qs : List (Prog γ)} {s : FS}
    (hscan : ScanOK S env cell g init scan Q)
    (hG : Good S env cell keyAt specs L init scan Q a0 G qs s) (p : Prog γ) (hget : qs[L]? = some p) :
    ∃ G', Good S env cell keyAt specs L init scan Q a0 G' (qs.set L (step env p s).1) (step env p s).2 := by
  have hLlt := lt_of_getElem? hget
  have hl := hG.lister
  rw [hget] at hl
  have hp : p = if G.walked = true then scan G.acc G.rest else init := Option.some.inj hl
  have hfinL : ∀ (p' : Prog γ) j out, (j, out) ∈ G.pre ++ G.post → (qs.set L p')[j]? = some (.done out) := by
    intro p' j out hm
    have hne : L ≠ j := fun e => hG.noL (by subst e; exact List.mem_map.mpr ⟨_, hm, rfl⟩)
    rw [List.getElem?_set_ne hne]
    exact hG.fin j out hm
  have hpendL : ∀ (p' : Prog γ) j p2, j ≠ L → (qs.set L p')[j]? = some p2 →
      j ∉ (G.pre ++ G.post).map Prod.fst → ∃ π, Stable S π ∧ π s ∧ Pending S env (specs j) p2 π := by
    intro p' j p2 hne hg hn
    rw [List.getElem?_set_ne (Ne.symm hne)] at hg
    exact hG.pend j p2 hne hg hn
  obtain ⟨pre, post, aL, walked, acc, done, rest⟩ := G
  cases walked with
  | false =>
    -- the snapshot
    obtain ⟨hacc, hdone, hrest⟩ := hG.fresh rfl
    simp only at hacc hdone hrest hp hfinL hpendL
    subst hacc hdone hrest
    simp only [Bool.false_eq_true, if_false] at hp
    subst hp
    obtain ⟨cells, hstep, hnd, hQ, hnone⟩ := hscan.walk s hG.inv
    rw [hstep]
    refine ⟨⟨pre, post, aL, true, [], [], cells⟩, ?_⟩
    refine { inv := hG.inv, nodup := hG.nodup, noL := hG.noL, legPre := hG.legPre, legPost := hG.legPost,
             fin := hfinL _, pend := hpendL _, lister := ?_, fresh := ?_, b1 := ?_, b2 := hQ, b3 := ?_,
             b4 := ?_, b5 := ?_, b6 := ?_ }
    · rw [List.getElem?_set_self hLlt]; rfl
    · intro h; cases h
    · simpa using hnd
    · intro k _; exact hG.b3 k (Or.inl rfl)
    · intro x hx; exact absurd (Or.inl rfl) (hG.b4 x hx)
    · exact ⟨[], rfl, by simp, by simp⟩
    · intro _ k hk
      have : aL k = S.abs s k := hG.b3 k (Or.inl rfl)
      show aL k = none
      rw [this]
      exact hnone k (by simpa using hk)
  | true =>
    simp only [if_true] at hp
    cases rest with
    | nil =>
      -- finished already
      rw [hscan.fin] at hp
      subst hp
      show ∃ G', Good S env cell keyAt specs L init scan Q a0 G' (qs.set L (.done (g acc))) s
      rw [set_same hget]
      exact ⟨_, hG⟩
    | cons c rest' =>
      -- reading one cell
      subst hp
      have hQc : Q c s := hG.b2 c List.mem_cons_self
      obtain ⟨ms', hstep, hnd', hmem'⟩ := hscan.read s acc c rest' hG.inv hQc
      rw [hstep]
      have hb1 : (done ++ c :: rest').Nodup := hG.b1
      have hcnd : c ∉ done := by
        rw [List.nodup_append] at hb1
        exact fun hd => hb1.2.2 c hd c List.mem_cons_self rfl
      have hin : ∀ q, q = c ∨ q ∈ rest' → (Ghost.inRest ⟨pre, post, aL, true, acc, done, c :: rest'⟩ q) :=
        fun q hq => Or.inr (List.mem_cons.mpr hq)
      refine ⟨⟨pre, post, aL, true, acc ++ ms'.map LsItem.entry, done ++ [c], rest'⟩, ?_⟩
      refine { inv := hG.inv, nodup := hG.nodup, noL := hG.noL, legPre := hG.legPre, legPost := hG.legPost,
               fin := hfinL _, pend := hpendL _, lister := ?_, fresh := ?_, b1 := ?_, b2 := ?_, b3 := ?_,
               b4 := ?_, b5 := ?_, b6 := ?_ }
      · rw [List.getElem?_set_self hLlt]; rfl
      · intro h; cases h
      · show ((done ++ [c]) ++ rest').Nodup
        simpa using hb1
      · intro q hq; exact hG.b2 q (List.mem_cons_of_mem _ hq)
      · intro k hk
        rcases hk with hk | hk
        · cases hk
        · exact hG.b3 k (hin _ (Or.inr hk))
      · intro x hx hk
        rcases hk with hk | hk
        · cases hk
        · exact hG.b4 x hx (hin _ (Or.inr hk))
      · obtain ⟨ms, e1, n1, m1⟩ := hG.b5
        simp only at e1 m1
        refine ⟨ms ++ ms', by simp [e1], ?_, ?_⟩
        · rw [List.map_append, List.nodup_append]
          refine ⟨n1, hnd', ?_⟩
          intro a ha b hb e
          obtain ⟨m, hm, rfl⟩ := List.mem_map.mp ha
          obtain ⟨m', hm', rfl⟩ := List.mem_map.mp hb
          have h1 := ((m1 m).mp hm).1
          have h2 := ((hmem' m').mp hm').1
          rw [e, h2] at h1
          exact hcnd h1
        · intro m
          show m ∈ ms ++ ms' ↔ (cell m.key ∈ done ++ [c] ∧ aL m.key = some m)
          rw [List.mem_append, m1 m, hmem' m, List.mem_append, List.mem_singleton]
          constructor
          · rintro (⟨hd, ha⟩ | ⟨hc, ha⟩)
            · exact ⟨Or.inl hd, ha⟩
            · refine ⟨Or.inr hc, ?_⟩
              have e3 : aL m.key = S.abs s m.key := hG.b3 m.key (hin _ (Or.inl hc))
              rw [e3]; exact ha
          · rintro ⟨hd | hc, ha⟩
            · exact Or.inl ⟨hd, ha⟩
            · refine Or.inr ⟨hc, ?_⟩
              have e3 : aL m.key = S.abs s m.key := hG.b3 m.key (hin _ (Or.inl hc))
              rw [← e3]; exact ha
      · intro _ k hk
        apply hG.b6 rfl k
        intro hm
        apply hk
        show cell k ∈ (done ++ [c]) ++ rest'
        simpa using hm


/-- **Single-key operations next to one scanner linearize** (generic).  Process `L` is a scanner
(`ScanOK`), every other process `j` is pending for the abstract operation `specs j`, which works on
the one key `keyAt j` (`LocalAt`).  After EVERY schedule there is a duplicate-free serial history
in which exactly the finished processes occur, each with exactly the answer it returned, legal
(`LegalLs`) from the abstraction of the initial state to the abstraction of the current state:
every writer answers what its abstract operation answers at its position, and the scanner's items
list exactly the abstract state at ITS position. -/
theorem scan_linearizable (hloc : ∀ j, LocalAt (keyAt j) (specs j))
    (hscan : ScanOK S env cell g init scan Q) (ps : List (Prog γ)) (hL : ps[L]? = some init)
    (fs : FS) (h0 : S.Inv fs)
    (hp : ∀ j p, j ≠ L → ps[j]? = some p → ∃ π, Stable S π ∧ π fs ∧ Pending S env (specs j) p π)
    (sched : List Nat) :
    S.Inv (interleave env ps fs sched).2 ∧
    ∃ hist : List (Nat × γ), (hist.map Prod.fst).Nodup ∧
      LegalLs specs L g hist (S.abs fs) (S.abs (interleave env ps fs sched).2) ∧
      ∀ j out, (j, out) ∈ hist ↔ (interleave env ps fs sched).1[j]? = some (.done out) := by
  let I : List (Prog γ) → FS → Prop := fun qs s =>
    ∃ G, Good S env cell keyAt specs L init scan Q (S.abs fs) G qs s
  have hI : I (interleave env ps fs sched).1 (interleave env ps fs sched).2 := by
    apply interleave_config_invariant env I
    · rintro qs s j p hget ⟨G, hG⟩
      have hjlt := lt_of_getElem? hget
      by_cases hjL : j = L
      · subst hjL
        exact good_lister S env cell keyAt specs j g init scan Q (S.abs fs) hscan hG p hget
      by_cases hj : j ∈ (G.pre ++ G.post).map Prod.fst
      · obtain ⟨⟨j', out⟩, hm, rfl⟩ := List.mem_map.mp hj
        have hd := hG.fin _ _ hm
        rw [hget] at hd
        cases hd
        show ∃ G', Good S env cell keyAt specs L init scan Q (S.abs fs) G' (qs.set j' (.done out)) s
        rw [set_same hget]
        exact ⟨G, hG⟩
      · obtain ⟨π, hst, hπ, hP⟩ := hG.pend j p hjL hget hj
        cases p with
        | done a => exact absurd hP (by simp [Pending])
        | sys c k =>
          obtain ⟨hinv', hgu, hcase⟩ := hP s hG.inv hπ
          rcases hcase with ⟨habs, hpend'⟩ | ⟨habs, hk⟩
          · exact ⟨G, good_silent S env cell keyAt specs L g init scan Q (S.abs fs) hscan hG hjL hjlt hj
              hinv' hgu habs hpend'⟩
          · show ∃ G', Good S env cell keyAt specs L init scan Q (S.abs fs) G'
              (qs.set j (k (exec env s c).2)) (exec env s c).1
            rw [hk]
            exact good_lin S env cell keyAt specs L g init scan Q (S.abs fs) hloc hscan hG hjL hjlt hj
              hinv' hgu habs
    · refine ⟨⟨[], [], S.abs fs, false, [], [], []⟩, ?_⟩
      exact { inv := h0, nodup := (by simp), noL := (by simp), legPre := rfl, legPost := rfl,
              fin := (by intro j out hm; cases hm),
              pend := fun j p hne hg _ => hp j p hne hg,
              lister := hL, fresh := fun _ => ⟨rfl, rfl, rfl⟩, b1 := (by simp),
              b2 := (by intro c hc; cases hc), b3 := fun _ _ => rfl,
              b4 := (by intro x hx; cases hx), b5 := ⟨[], rfl, by simp, by simp⟩,
              b6 := (by intro h; cases h) }
  obtain ⟨G, hG⟩ := hI
  refine ⟨hG.inv, ?_⟩
  generalize (interleave env ps fs sched).1 = qs at hG
  generalize (interleave env ps fs sched).2 = s at hG
  obtain ⟨pre, post, aL, walked, acc, done, rest⟩ := G
  have hnd0 : (pre.map Prod.fst ++ post.map Prod.fst).Nodup := by
    have := hG.nodup; rwa [List.map_append] at this
  have hL0 : L ∉ pre.map Prod.fst ++ post.map Prod.fst := by
    have := hG.noL; rwa [List.map_append] at this
  have hLpre : L ∉ pre.map Prod.fst := fun h => hL0 (List.mem_append.mpr (Or.inl h))
  have hLpost : L ∉ post.map Prod.fst := fun h => hL0 (List.mem_append.mpr (Or.inr h))
  have hlegPre : LegalLs specs L g pre (S.abs fs) aL := legalLs_of_legal hLpre hG.legPre
  have hlegPost : LegalLs specs L g post aL (S.abs s) := legalLs_of_legal hLpost hG.legPost
  have hwriters : ∀ j out, j ≠ L → qs[j]? = some (.done out) → (j, out) ∈ pre ++ post := by
    intro j out hne hfin
    by_cases hj : j ∈ (pre ++ post).map Prod.fst
    · obtain ⟨⟨j', out'⟩, hm, rfl⟩ := List.mem_map.mp hj
      have := hG.fin _ _ hm
      rw [hfin] at this
      cases this
      exact hm
    · obtain ⟨π, -, -, hP⟩ := hG.pend j _ hne hfin hj
      exact absurd hP (by simp [Pending])
  have hlis : qs[L]? = some (if walked = true then scan acc rest else init) := hG.lister
  by_cases hfinished : walked = true ∧ rest = []
  · -- the lister has finished
    obtain ⟨hw, hr⟩ := hfinished
    subst hw hr
    simp only [if_true, hscan.fin] at hlis
    have hlists : ListsIndex aL acc := by
      obtain ⟨ms, e1, n1, m1⟩ := hG.b5
      refine ⟨ms, e1, n1, fun m => ?_⟩
      rw [m1 m]
      constructor
      · exact fun h => h.2
      · intro ha
        refine ⟨?_, ha⟩
        apply Classical.byContradiction
        intro hnd
        have hb6 : aL m.key = none := hG.b6 rfl m.key (by simpa using hnd)
        have ha' : aL m.key = some m := ha
        rw [hb6] at ha'
        cases ha'
    refine ⟨pre ++ [(L, g acc)] ++ post, ?_, ?_, ?_⟩
    · simp only [List.map_append, List.map_cons, List.map_nil]
      exact nodup_insert_mid hnd0 hL0
    · rw [List.append_assoc]
      refine legalLs_append hlegPre ?_
      show LegalLs specs L g ((L, g acc) :: post) aL (S.abs s)
      unfold LegalLs
      rw [if_pos rfl]
      exact ⟨⟨acc, rfl, hlists⟩, hlegPost⟩
    · intro j out
      constructor
      · intro hm
        have hm' : (j, out) ∈ pre ++ post ∨ (j, out) = (L, g acc) := by
          simp only [List.mem_append, List.mem_singleton] at hm ⊢; grind
        rcases hm' with hm' | hm'
        · exact hG.fin j out hm'
        · cases hm'; exact hlis
      · intro hfin
        by_cases hjL : j = L
        · subst hjL
          rw [hlis] at hfin
          cases hfin
          simp
        · have := hwriters j out hjL hfin
          simp only [List.mem_append, List.mem_singleton] at this ⊢; grind
  · -- the lister has not finished
    refine ⟨pre ++ post, by rw [List.map_append]; exact hnd0, legalLs_append hlegPre hlegPost, ?_⟩
    intro j out
    refine ⟨hG.fin j out, fun hfin => ?_⟩
    by_cases hjL : j = L
    · subst hjL
      rw [hlis] at hfin
      exfalso
      cases walked with
      | false => exact hscan.initBusy out (by simpa using hfin)
      | true =>
        cases rest with
        | nil => exact hfinished ⟨rfl, rfl⟩
        | cons c rest' => exact hscan.scanBusy acc c rest' out (by simpa using hfin)
    · exact hwriters j out hjL hfin


/-! ### generic: processes do finish (for the non-vacuity examples) -/

theorem interleave_append {α : Type} (env : Env) (ps : List (Prog α)) (fs : FS) (s1 s2 : List Nat) :
    interleave env ps fs (s1 ++ s2) =
      interleave env (interleave env ps fs s1).1 (interleave env ps fs s1).2 s2 := by
  induction s1 generalizing ps fs with
  | nil => rfl
  | cons i s1 ih =>
    simp only [List.cons_append, interleave]
    split
    · exact ih ps fs
    · exact ih _ _

/-- Scheduled alone, a scanner that has taken its snapshot finishes. -/
theorem scan_finishes (hscan : ScanOK S env cell g init scan Q) (s : FS) (hinv : S.Inv s)
    (rest : List Path) (acc : List LsItem) (qs : List (Prog γ)) (hq : qs[L]? = some (scan acc rest))
    (hQ : ∀ c ∈ rest, Q c s) :
    ∃ items, (interleave env qs s (List.replicate rest.length L)).1[L]? = some (.done (g items)) := by
  induction rest generalizing acc qs with
  | nil => exact ⟨acc, by rw [← hscan.fin]; exact hq⟩
  | cons c rest ih =>
    obtain ⟨ms, hstep, -, -⟩ := hscan.read s acc c rest hinv (hQ c List.mem_cons_self)
    simp only [List.length_cons, List.replicate_succ, interleave, hq, hstep]
    exact ih _ _ (List.getElem?_set_self (lt_of_getElem? hq)) (fun c' hc' => hQ c' (List.mem_cons_of_mem _ hc'))

/-- … and so does one that has not: there is a schedule after which the scanner has finished. -/
theorem lister_finishes (hscan : ScanOK S env cell g init scan Q) (ps : List (Prog γ))
    (hL : ps[L]? = some init) (fs : FS) (h0 : S.Inv fs) :
    ∃ sched items, (interleave env ps fs sched).1[L]? = some (.done (g items)) := by
  obtain ⟨cells, hstep, -, hQ, -⟩ := hscan.walk fs h0
  obtain ⟨items, hi⟩ := scan_finishes S env cell L g init scan Q hscan fs h0 cells [] (ps.set L (scan [] cells))
    (List.getElem?_set_self (lt_of_getElem? hL)) hQ
  refine ⟨L :: List.replicate cells.length L, items, ?_⟩
  simp only [interleave, hL, hstep]
  exact hi

/-- Scheduled alone, any process finishes, with the result of its run; the others stay put. -/
theorem proc_finishes {α : Type} (env : Env) (p : Prog α) (qs : List (Prog α)) (i : Nat)
    (hq : qs[i]? = some p) (s : FS) :
    ∃ n, (interleave env qs s (List.replicate n i)).1[i]? = some (.done (run env p s).1) ∧
      ∀ j, j ≠ i → (interleave env qs s (List.replicate n i)).1[j]? = qs[j]? := by
  induction p generalizing qs s with
  | done a => exact ⟨0, hq, fun _ _ => rfl⟩
  | sys c k ih =>
    obtain ⟨n, h1, h2⟩ := ih (exec env s c).2 (qs.set i (k (exec env s c).2)) 
      (List.getElem?_set_self (lt_of_getElem? hq)) (exec env s c).1
    refine ⟨n + 1, ?_, ?_⟩
    · simp only [List.replicate_succ, interleave, hq, step]
      exact h1
    · intro j hj
      simp only [List.replicate_succ, interleave, hq, step]
      rw [h2 j hj, List.getElem?_set_ne (Ne.symm hj)]

end Generic


/-- A stronger invariant `J`, kept by every call the program can make (`P`), can be added to the
invariant of a pending program. -/
theorem pending_strengthen {σ γ : Type} {S : LinSys σ} {env : Env} {spec : σ → σ × γ}
    (J : FS → Prop) (P : Call → Prop)
    (hJ : ∀ c s, P c → S.Inv s → J s → S.G s (exec env s c).1 → J (exec env s c).1)
    {p : Prog γ} {π : FS → Prop} (hp : Pending S env spec p π) (hc : AllCalls P p) :
    Pending { abs := S.abs, Inv := fun s => S.Inv s ∧ J s, G := S.G } env spec p π := by
  induction p generalizing π with
  | done a => exact absurd hp (by simp [Pending])
  | sys c k ih =>
    rw [pending_sys] at hp ⊢
    intro s hI hπ
    obtain ⟨h1, h2, h3⟩ := hp s hI.1 hπ
    refine ⟨⟨h1, hJ c s hc.1 hI.1 hI.2 h2⟩, h2, ?_⟩
    rcases h3 with ⟨ha, π', hst, hπ', hP⟩ | ⟨ha, hk⟩
    · exact Or.inl ⟨ha, π', hst, hπ', ih _ hP (hc.2 _ (answer_exec env s c))⟩
    · exact Or.inr ⟨ha, hk⟩

/-! ### the index side: what a listing needs of the filesystem, and that the writers keep it -/

section Index

variable (cfg : Cfg) (env : Env) (cache : Path)

/-- What a listing needs beyond `HealthyIndex`, as an invariant of single CALLS (`ListRefine.Tidy`
is proved for whole operations only):
* `warm` — the index directory exists (THE hypothesis that excludes the cold cache: with
  `index-v5` absent the walk answers `Err(NotFound)` and a lister racing with the first insertion's
  `create_dir_all` can see that);
* `keys` — every record of every bucket file lies in the bucket of its key;
* `supp` — bucket files are enumerable (`FS.dom`), so the walk sees them;
* `shape` — below the index directory there are only directories and bucket paths. -/
structure Side (s : FS) : Prop where
  warm : s.get (cache ++ [dIndex]) = some .dir
  keys : ∀ key b, s.get (bucketPath cfg cache key) = some (.file b) → ∀ r ∈ (codec cfg).entries b,
    bucketPath cfg cache ((codec cfg).key r) = bucketPath cfg cache key
  supp : ∀ key, SuppAt s (bucketPath cfg cache key)
  shape : ∀ q, InArea cache dIndex q → q ≠ cache ++ [dIndex] → s.get q ≠ none →
    s.get q = some .dir ∨ ∃ key, q = bucketPath cfg cache key

/-- A healthy, tidy cache whose index directory exists has the side invariant. -/
theorem side_of_tidy {s : FS} (hT : Tidy cfg cache s) (hw : s.get (cache ++ [dIndex]) = some .dir) :
    Side cfg cache s := by
  refine ⟨hw, fun key b hb r hr => (hT.recs key b hb r hr).1, ?_, ?_⟩
  · intro key
    apply hT.supp _ (prefix_bucketPath cfg cache key)
    intro e; have := congrArg List.length e; rw [bucket_length] at this; omega
  · intro q hq hne hs
    have hc : cache <+: q := (List.prefix_append _ _).trans hq
    have hne' : q ≠ cache := by
      intro e; have := hq.length_le; rw [e] at this; simp at this; omega
    exact (hT.shape q hc hne' hs).2.2 hq

/-- The calls of the index writers. -/
def IdxCall (c : Call) : Prop :=
  ReadOnly c ∨ (∃ key, c = .mkdirP (FS.parent (bucketPath cfg cache key))) ∨
  (∃ key, c = .openAppend (bucketPath cfg cache key)) ∨
  (∃ key o tm, OptsWF key o ∧ tm ≤ timeMax ∧
    c = .appendWrite (bucketPath cfg cache key) ((codec cfg).frame (mkRec key o tm)))

theorem side_of_moves {s s' : FS} (hS : Side cfg cache s) (hG : Grow s s')
    (hsupp : ∀ key, SuppAt s' (bucketPath cfg cache key))
    (hm : ∀ q, s'.get q = s.get q ∨ s'.get q = some .dir ∨
      ∃ key b, q = bucketPath cfg cache key ∧ s'.get q = some (.file b) ∧
        ∀ r ∈ (codec cfg).entries b, bucketPath cfg cache ((codec cfg).key r) = bucketPath cfg cache key) :
    Side cfg cache s' := by
  refine ⟨(hG _).1 hS.warm, ?_, hsupp, ?_⟩
  · intro key b hb r hr
    rcases hm (bucketPath cfg cache key) with h | h | ⟨key', b', e, hb', hk⟩
    · rw [h] at hb; exact hS.keys key b hb r hr
    · rw [h] at hb; cases hb
    · rw [hb'] at hb
      cases hb
      rw [e]; exact hk r hr
  · intro q hq hne hs
    rcases hm q with h | h | ⟨key', b', e, _, _⟩
    · rw [h] at hs ⊢; exact hS.shape q hq hne hs
    · exact Or.inl h
    · exact Or.inr ⟨key', e⟩

/-- **Every call of an index writer keeps the side invariant.** -/
theorem side_step (c : Call) (s : FS) (hc : IdxCall cfg cache c) (hI : HealthyIndex cfg cache s)
    (hS : Side cfg cache s) (hG : Grow s (exec env s c).1) : Side cfg cache (exec env s c).1 := by
  apply side_of_moves cfg cache hS hG (fun key => exec_suppAt env s c _ (hS.supp key))
  rcases hc with hc | ⟨key, rfl⟩ | ⟨key, rfl⟩ | ⟨key, o, tm, hw, htm, rfl⟩
  · intro q; rw [exec_readOnly env c hc s]; exact Or.inl rfl
  · intro q
    simp only [exec]
    split
    · rename_i s' hm
      rcases FS.mkdirLevels_get _ _ _ _ hm q with h | ⟨_, h⟩
      · exact Or.inl h
      · exact Or.inr (Or.inl h)
    · exact Or.inl rfl
  · intro q
    simp only [exec]
    split
    · exact Or.inl rfl
    · exact Or.inl rfl
    · exact Or.inl rfl
    · split
      · by_cases e : q = bucketPath cfg cache key
        · subst e
          refine Or.inr (Or.inr ⟨key, [], rfl, FS.get_put_same _ _ _, ?_⟩)
          intro r hr; rw [entries_nil] at hr; cases hr
        · exact Or.inl (FS.get_put_ne _ _ e)
      · exact Or.inl rfl
  · intro q
    simp only [exec]
    split
    · rename_i b hb
      by_cases e : q = bucketPath cfg cache key
      · subst e
        refine Or.inr (Or.inr ⟨key, _, rfl, FS.get_put_same _ _ _, ?_⟩)
        have hwf : (mkRec key o tm).WF := mkRec_wf key o tm hw htm
        have hset : (codec cfg).Settled b := by
          rcases hI.buckets key with hn | ⟨b', hb', hs'⟩
          · rw [hn] at hb; cases hb
          · rw [hb'] at hb; cases hb; exact hs'
        have hset' : (codec cfg).entries b = (codec cfg).entriesT b := hset
        intro r hr
        rw [(codec_laws cfg).entries_append_frame _ _ hwf, ← hset'] at hr
        rcases List.mem_append.mp hr with hr | hr
        · exact hS.keys key b hb r hr
        · simp at hr; subst hr; rfl
      · exact Or.inl (FS.get_put_ne _ _ e)
    · exact Or.inl rfl


theorem insert_idxCall (key : Bytes) (o : WriteOpts) (hw : OptsWF key o) :
    AllCalls (IdxCall cfg cache) (insert cfg cache key o) := by
  unfold insert getTime appendRec
  repeat' ac_step
  all_goals first
    | exact Or.inl rfl
    | exact Or.inr (Or.inl ⟨key, rfl⟩)
    | exact Or.inr (Or.inr (Or.inl ⟨key, rfl⟩))
    | (refine Or.inr (Or.inr (Or.inr ⟨key, o, _, hw, ?_, rfl⟩))
       first
         | exact Nat.zero_le _
         | exact hw.time _ (by assumption)
         | exact now_answer (by assumption))

theorem opProg_idxCall (op : IOp) (hop : OpWF cfg op) :
    AllCalls (IdxCall cfg cache) (opProg cfg cache op) := by
  cases op with
  | ins key o => exact allCalls_mapRes _ (insert_idxCall cfg cache key o hop.1)
  | del key =>
    apply allCalls_mapRes
    unfold delete
    simp only [bind_eq, pure_eq]
    refine AllCalls.bind (insert_idxCall cfg cache key {} (optsWF_default hop)) (fun a => ?_)
    cases a <;> trivial
  | look key =>
    exact allCalls_mapRes _ ((find_ro cfg cache key).mono (fun c hc => Or.inl hc) (fun _ h => h))


/-! ### the lister as a scanner -/

/-- What `bucket_entries` makes of the answer to its one `readFile`. -/
def readRes (r : Ret) : Res (List Rec) :=
  match r with
  | .bytes b => .ok ((codec cfg).entries b)
  | .err .notFound => .ok []
  | .err e => .error (.io e)
  | _ => .error (.io .other)

/-- The items `ls` makes of one bucket's records. -/
def itemsOf (here : Res (List Rec)) : List LsItem :=
  match here with
  | .ok rs => ((codec cfg).lsOf rs).filterMap (fun | .live m => some (.entry m) | _ => none)
  | .error e => [.err e]

theorem bucketEntries_eq (p : Path) :
    bucketEntries cfg p = .sys (.readFile p) (fun r => .done (readRes cfg r)) := by
  unfold bucketEntries
  simp only [bind_eq, pure_eq, call, bind_sys, bind_done]
  congr 1
  funext r
  cases r with
  | err e => cases e <;> rfl
  | _ => rfl

def lsRest (acc : List LsItem) : List Path → Prog (List LsItem)
  | [] => .done acc
  | p :: rest => .sys (.readFile p) (fun r => lsRest (acc ++ itemsOf cfg (readRes cfg r)) rest)

def filesOf (es : List (Path × Bool)) : List Path := (es.filter (fun e => !e.2)).map Prod.fst

theorem lsBuckets_mapRes (es : List (Path × Bool)) (acc : List LsItem) :
    (lsBuckets cfg es).mapRes (fun more => acc ++ more) = lsRest cfg acc (filesOf es) := by
  induction es generalizing acc with
  | nil => simp [lsBuckets, filesOf, lsRest, Prog.mapRes]
  | cons e es ih =>
    obtain ⟨p, f⟩ := e
    cases f with
    | true =>
      unfold lsBuckets
      exact ih acc
    | false =>
      unfold lsBuckets
      simp only [bind_eq, pure_eq, bucketEntries_eq, bind_sys, bind_done, mapRes_sys]
      show _ = lsRest cfg acc (p :: filesOf es)
      unfold lsRest
      congr 1
      funext r
      rw [← ih]
      show ((lsBuckets cfg es).mapRes (fun more => itemsOf cfg (readRes cfg r) ++ more)).mapRes
        (fun more => acc ++ more) = _
      rw [mapRes_mapRes]
      congr 1
      funext more
      rw [List.append_assoc]

theorem mapRes_id {α : Type} (p : Prog α) : p.mapRes (fun a => a) = p := by
  induction p with
  | done a => rfl
  | sys c k ih => simp only [mapRes_sys, ih]

theorem lsBuckets_eq (es : List (Path × Bool)) : lsBuckets cfg es = lsRest cfg [] (filesOf es) := by
  rw [← lsBuckets_mapRes]
  exact (mapRes_id _).symm


/-- What is known of a path in the lister's snapshot: it is the bucket file of some key. -/
def IdxQ (c : Path) (s : FS) : Prop := ∃ key b, c = bucketPath cfg cache key ∧ s.get c = some (.file b)

/-- The system: abstract index, healthy + side invariant, guarantee `Grow`. -/
def lsSys : LinSys AbsIndex :=
  { abs := absIndex cfg cache, Inv := fun s => HealthyIndex cfg cache s ∧ Side cfg cache s, G := Grow }

theorem itemsOf_bytes (b : Bytes) :
    itemsOf cfg (readRes cfg (.bytes b)) =
      (C10.listed (codec cfg) ((codec cfg).entries b)).map LsItem.entry := by
  show ((codec cfg).lsOf ((codec cfg).entries b)).filterMap _ = _
  unfold C10.listed
  rw [List.map_filterMap]
  congr 1
  funext x
  cases x <;> rfl

theorem filesOf_walk (s : FS) :
    filesOf ((cache ++ [dIndex], true) ::
      (s.below (cache ++ [dIndex])).map (fun q => (q, s.get q == some .dir))) = bucketFiles cache s := by
  unfold filesOf bucketFiles
  simp only [List.filter_cons, Bool.not_true, Bool.false_eq_true, if_false, List.filter_map,
    List.map_map]
  induction s.below (cache ++ [dIndex]) with
  | nil => rfl
  | cons q l ih =>
    simp only [List.filter_cons, Function.comp]
    split <;> simp [ih]

theorem listed_mem_iff {s : FS} (hS : Side cfg cache s) (key : Bytes) (b : Bytes)
    (hb : s.get (bucketPath cfg cache key) = some (.file b)) (m : Meta) :
    m ∈ C10.listed (codec cfg) ((codec cfg).entries b) ↔
      (bucketPath cfg cache m.key = bucketPath cfg cache key ∧ absIndex cfg cache s m.key = some m) := by
  constructor
  · intro hm
    obtain ⟨r, hr, hcls, hf⟩ := C10.listed_sound (codec cfg) _ m hm
    have hk := cls_live_key cfg hcls
    have hbp := hS.keys key b hb r hr
    refine ⟨by rw [hk]; exact hbp, ?_⟩
    unfold absIndex
    rw [hk, hbp, hb]
    exact hf
  · rintro ⟨hc, hf⟩
    unfold absIndex at hf
    rw [hc, hb] at hf
    exact C10.listed_complete (codec cfg) _ m.key m hf

theorem ls_scanOK {γ : Type} (g : List LsItem → γ) :
    ScanOK (lsSys cfg cache) env (bucketPath cfg cache) g ((ls cfg cache).mapRes g)
      (fun acc rest => (lsRest cfg acc rest).mapRes g) (IdxQ cfg cache) := by
  refine ⟨fun acc => rfl, ?_, ?_, ?_, ?_, ?_⟩
  · intro a h
    unfold ls at h
    simp [Prog.mapRes, call] at h
  · intro acc c rest a h
    unfold lsRest at h
    simp [Prog.mapRes] at h
  · rintro c a b ⟨key, bb, rfl, hb⟩ hg
    obtain ⟨b', hb'⟩ := (hg _).2 bb hb
    exact ⟨key, b', rfl, hb'⟩
  · rintro s ⟨hI, hS⟩
    refine ⟨bucketFiles cache s, ?_, bucketFiles_nodup cache s, ?_, ?_⟩
    · unfold ls
      simp only [bind_eq, pure_eq, call, bind_sys, bind_done, mapRes_sys, step, exec, hS.warm]
      rw [lsBuckets_eq, filesOf_walk]
    · intro q hq
      unfold bucketFiles at hq
      obtain ⟨h1, h2⟩ := List.mem_filter.mp hq
      obtain ⟨hp, hne, hs⟩ := mem_below_elim h1
      have hnd : s.get q ≠ some .dir := by
        intro e; rw [e] at h2; simp at h2
      have hs' : s.get q ≠ none := by intro e; rw [e] at hs; cases hs
      rcases hS.shape q hp hne hs' with h | ⟨key, rfl⟩
      · exact absurd h hnd
      · rcases hI.buckets key with h | ⟨b, h, _⟩
        · exact absurd h hs'
        · exact ⟨key, b, rfl, h⟩
    · intro k hk
      show absIndex cfg cache s k = none
      unfold absIndex
      split
      · rename_i b hb
        exfalso
        apply hk
        unfold bucketFiles
        apply List.mem_filter.mpr
        have hne2 : bucketPath cfg cache k ≠ cache ++ [dIndex] := by
          intro e; have := congrArg List.length e; rw [bucket_length] at this; simp at this
        exact ⟨mem_below (bucket_inIndex cfg cache k) hne2 (by rw [hb]; rfl)
          (hS.supp k (by rw [hb]; rfl)), by rw [hb]; rfl⟩
      · rfl
  · rintro s acc c rest ⟨hI, hS⟩ ⟨key, b, rfl, hb⟩
    refine ⟨C10.listed (codec cfg) ((codec cfg).entries b), ?_, listed_keys_nodup cfg _, ?_⟩
    · show step env ((lsRest cfg acc (bucketPath cfg cache key :: rest)).mapRes g) s = _
      rw [lsRest]
      simp only [mapRes_sys, step, exec, readFile_of_file (bucket_ne_nil cfg cache key) hb,
        itemsOf_bytes]
    · intro m
      exact listed_mem_iff cfg cache hS key b hb m


/-! ### any number of index writers and one lister -/

/-- The key an index operation works on. -/
def opKey : IOp → Bytes
  | .ins k _ => k
  | .del k => k
  | .look k => k

theorem localAt_spec {γ : Type} (f : Out → γ) (op : IOp) :
    LocalAt (opKey op) (fun m => ((specStep env m op).1, f (specStep env m op).2)) := by
  cases op with
  | ins key o =>
    refine ⟨fun m m' h => rfl, fun m m' h => by simp [specStep, opKey], fun m x hx => ?_⟩
    simp only [opKey] at hx
    simp [specStep, hx]
  | del key =>
    refine ⟨fun m m' h => rfl, fun m m' h => by simp [specStep, opKey], fun m x hx => ?_⟩
    simp only [opKey] at hx
    simp [specStep, hx]
  | look key =>
    refine ⟨fun m m' h => ?_, fun m m' h => h, fun m x hx => rfl⟩
    simp only [opKey] at h
    simp [specStep, h]

/-- The processes: one per index operation, and ONE lister (the last process). -/
def procs {γ : Type} (f : Out → γ) (g : List LsItem → γ) (ops : List IOp) : List (Prog γ) :=
  ops.map (fun op => (opProg cfg cache op).mapRes f) ++ [(ls cfg cache).mapRes g]

/-- The abstract operation of process `j` (`Linearize.specAt`), its answer embedded by `f`. -/
def specF {γ : Type} (f : Out → γ) (ops : List IOp) (j : Nat) (m : AbsIndex) : AbsIndex × γ :=
  ((specAt env ops j m).1, f (specAt env ops j m).2)

/-- **Any number of index writers, removers, readers and ONE lister linearize to the abstract map**
— every schedule.

Process `j < ops.length` runs the library's program of `ops[j]` (`insert` / `delete` / `find`, any
keys, well-formed arguments `OpWF`), its answer embedded by `f`; process `ops.length` runs
`ls cfg cache`, its items embedded by `g` (`procs`).  From a healthy index with the call-level side
invariant (`Side`, in particular WARM: `index-v5` exists), after EVERY schedule:
* the index is healthy and has the side invariant again (the statement composes);
* there is a duplicate-free serial history `hist` of the abstract map `key ↦ Option Meta`, from the
  abstraction of the initial state to the abstraction of the current state (`LegalLs`): every writer
  answers what `Refine.specStep` answers at its position, and the lister's items list
  (`ListRefine.ListsIndex`: the entries of the live keys, once each, in some order) the abstract
  index AT ITS POSITION in the history;
* exactly the finished processes occur in `hist`, each with exactly the answer it returned. -/
theorem ls_among_writers_linearizable {γ : Type} (f : Out → γ) (g : List LsItem → γ) (ops : List IOp)
    (hops : ∀ op ∈ ops, OpWF cfg op) (fs : FS) (h : HealthyIndex cfg cache fs)
    (hS : Side cfg cache fs) (sched : List Nat) :
    (HealthyIndex cfg cache (interleave env (procs cfg cache f g ops) fs sched).2 ∧
      Side cfg cache (interleave env (procs cfg cache f g ops) fs sched).2) ∧
    ∃ hist : List (Nat × γ), (hist.map Prod.fst).Nodup ∧
      LegalLs (specF env f ops) ops.length g hist (absIndex cfg cache fs)
        (absIndex cfg cache (interleave env (procs cfg cache f g ops) fs sched).2) ∧
      ∀ j out, (j, out) ∈ hist ↔ FinishedWith env (procs cfg cache f g ops) fs sched j out := by
  refine scan_linearizable (lsSys cfg cache) env (bucketPath cfg cache)
    (fun j => opKey (ops.getD j (.look []))) (specF env f ops) ops.length g _ _ (IdxQ cfg cache)
    ?_ (ls_scanOK cfg env cache g) (procs cfg cache f g ops) ?_ fs ⟨h, hS⟩ ?_ sched
  · intro j
    exact localAt_spec env f _
  · simp [procs]
  · intro j p hne hget
    rcases Nat.lt_or_ge j ops.length with hlt | hge
    · unfold procs at hget
      rw [List.getElem?_append_left (by simpa using hlt), List.getElem?_map] at hget
      cases hj : ops[j]? with
      | none => rw [hj] at hget; cases hget
      | some op =>
        rw [hj] at hget
        cases hget
        refine ⟨fun _ => True, fun _ _ _ _ => trivial, trivial, ?_⟩
        have hm : op ∈ ops := List.mem_of_getElem? hj
        have hsp : ∀ a, specF env f ops j a = ((specStep env a op).1, f (specStep env a op).2) := by
          intro a
          unfold specF specAt
          rw [List.getD_eq_getElem?_getD, hj]
          rfl
        exact pending_strengthen (Side cfg cache) (IdxCall cfg cache)
          (fun c s hc hI hS hG => side_step cfg env cache c s hc hI hS hG)
          (Pending.mapRes f hsp (op_pending cfg env cache op (hops op hm)))
          (allCalls_mapRes f (opProg_idxCall cfg cache op (hops op hm)))
    · have hgt : ops.length < j := by omega
      rw [List.getElem?_eq_none (by simp [procs]; omega)] at hget
      cases hget

/-! ### helpers: permutations, result conversion, a writer next to a read-only process -/

/-- Two listings of the same abstract index are permutations of each other. -/
theorem listsIndex_perm2 {idx : AbsIndex} {l1 l2 : List LsItem} (h1 : ListsIndex idx l1)
    (h2 : ListsIndex idx l2) : l1.Perm l2 := by
  obtain ⟨m1, rfl, n1, e1⟩ := h1
  obtain ⟨m2, rfl, n2, e2⟩ := h2
  apply List.Perm.map
  apply (List.perm_ext_iff_of_nodup ?_ ?_).mpr
  · intro m; rw [e1 m, e2 m]
  · rw [List.Nodup, List.pairwise_map] at n1
    exact n1.imp (fun hab e => hab (by rw [e]))
  · rw [List.Nodup, List.pairwise_map] at n2
    exact n2.imp (fun hab e => hab (by rw [e]))

theorem interleave_length {α : Type} (env : Env) (ps : List (Prog α)) (fs : FS) (sched : List Nat) :
    (interleave env ps fs sched).1.length = ps.length := by
  induction sched generalizing ps fs with
  | nil => rfl
  | cons i sched ih =>
    simp only [interleave]
    split
    · exact ih ps fs
    · rw [ih]; simp

/-- Results can be converted before or after the interleaving. -/
theorem interleave_mapRes {α β : Type} (env : Env) (h : α → β) (ps : List (Prog α)) (fs : FS)
    (sched : List Nat) :
    interleave env (ps.map (fun p => p.mapRes h)) fs sched =
      ((interleave env ps fs sched).1.map (fun p => p.mapRes h), (interleave env ps fs sched).2) := by
  induction sched generalizing ps fs with
  | nil => rfl
  | cons i sched ih =>
    simp only [interleave, List.getElem?_map]
    cases hi : ps[i]? with
    | none => simp only [Option.map_none]; exact ih ps fs
    | some p =>
      simp only [Option.map_some, step_mapRes]
      rw [← List.map_set]
      exact ih _ _

theorem finishedWith_mapRes {α β : Type} (env : Env) (h : α → β) (ps : List (Prog α)) (fs : FS)
    (sched : List Nat) (j : Nat) (a : α) (hf : FinishedWith env ps fs sched j a) :
    FinishedWith env (ps.map (fun p => p.mapRes h)) fs sched j (h a) := by
  unfold FinishedWith at hf ⊢
  rw [interleave_mapRes, List.getElem?_map, hf]
  rfl

/-- A process next to a process that changes nothing: when it has finished, its result and the
filesystem are those of its run alone. -/
theorem writer_alone {α : Type} (env : Env) (W R : Prog α) (fs : FS)
    (hR : AllCalls (fun c => ∀ s, (exec env s c).1 = s) R) (sched : List Nat) (a : α)
    (hf : (interleave env [W, R] fs sched).1[0]? = some (.done a)) :
    a = (run env W fs).1 ∧ (interleave env [W, R] fs sched).2 = (run env W fs).2.1 := by
  let I : List (Prog α) → FS → Prop := fun ps s =>
    ∃ p x, ps = [p, x] ∧ (run env p s).1 = (run env W fs).1 ∧
      (run env p s).2.1 = (run env W fs).2.1 ∧ AllCalls (fun c => ∀ s, (exec env s c).1 = s) x
  have hI : I (interleave env [W, R] fs sched).1 (interleave env [W, R] fs sched).2 := by
    apply interleave_config_invariant env I
    · rintro ps s i q hget ⟨p, x, rfl, h1, h2, h3⟩
      match i, hget with
      | 0, hget =>
        simp only [List.getElem?_cons_zero, Option.some.injEq] at hget
        subst hget
        exact ⟨_, x, rfl, (run_step env p s).1.trans h1, (run_step env p s).2.trans h2, h3⟩
      | 1, hget =>
        simp only [List.getElem?_cons_succ, List.getElem?_cons_zero, Option.some.injEq] at hget
        subst hget
        cases x with
        | done b => exact ⟨p, _, rfl, h1, h2, h3⟩
        | sys c k =>
          refine ⟨p, _, rfl, ?_, ?_, h3.2 _ (answer_exec env s c)⟩
          · show (run env p (exec env s c).1).1 = _
            rw [h3.1 s]; exact h1
          · show (run env p (exec env s c).1).2.1 = _
            rw [h3.1 s]; exact h2
      | i + 2, hget => simp at hget
    · exact ⟨W, R, rfl, rfl, rfl, hR⟩
  obtain ⟨p, x, hps, h1, h2, -⟩ := hI
  rw [hps] at hf
  simp only [List.getElem?_cons_zero, Option.some.injEq] at hf
  subst hf
  exact ⟨h1, h2⟩


/-- **Sequential total correctness of `ls` from the call-level invariants** (a corollary of the
concurrent theorem with no writer at all, scheduled until the lister has finished): on a healthy
index with the side invariant the listing lists the abstract index.  (`ListRefine.run_ls` needs
`Healthy` and `Tidy` of the whole cache.) -/
theorem run_ls_side (s : FS) (h : HealthyIndex cfg cache s) (hS : Side cfg cache s) :
    ListsIndex (absIndex cfg cache s) (run env (ls cfg cache) s).1 := by
  obtain ⟨n, f1, -⟩ := proc_finishes env ((ls cfg cache).mapRes id) (procs cfg cache (fun _ => []) id []) 0 rfl s
  obtain ⟨-, hist, hnd, hleg, hiff⟩ := ls_among_writers_linearizable cfg env cache (fun _ => []) id [] (by simp)
    s h hS (List.replicate n 0)
  rw [(run_mapRes env id _ s).1] at f1
  obtain ⟨h1, h2, e⟩ := List.append_of_mem ((hiff 0 _).mpr f1)
  subst e
  match h1, hnd, hleg, hiff with
  | [], _, hleg, _ =>
    rw [List.nil_append] at hleg
    unfold LegalLs at hleg
    rw [if_pos (show 0 = ([] : List IOp).length from rfl)] at hleg
    obtain ⟨⟨items, e, hli⟩, -⟩ := hleg
    have : items = (run env (ls cfg cache) s).1 := e.symm
    rw [← this]; exact hli
  | x :: h1, hnd, _, hiff =>
    exfalso
    have hf := (hiff x.1 x.2).mp List.mem_cons_self
    have hlt := lt_of_getElem? hf
    rw [interleave_length] at hlt
    have h0 : x.1 = 0 := by simp [procs] at hlt; exact hlt
    simp [h0] at hnd

/-! ### the serial executions -/

/-- An insertion into a healthy, tidy cache leaves a WARM, healthy, tidy cache. -/
theorem xhealthy_insert (key : Bytes) (o : WriteOpts) (hw : OptsWF key o) (hs : SriOK cfg o) (fs : FS)
    (hX : XHealthy cfg cache fs) :
    XHealthy cfg cache (run env (insert cfg cache key o) fs).2.1 ∧
    (run env (insert cfg cache key o) fs).2.1.get (cache ++ [dIndex]) = some .dir := by
  have hT := (insert_ext cfg cache env key o fs hX.healthy.index hX.tidy hw hs).1
  refine ⟨⟨⟨(insert_refines cfg cache env key o fs hX.healthy.index hw hs).1,
    (CacheRefine.insert_store cfg cache env key o fs hX.healthy.index hX.healthy.store).1⟩, hT⟩, ?_⟩
  exact (isDir_iff (by simp)).mp (insert_dirs cfg cache env key o fs hX.healthy.index hT).1

/-- Every index operation keeps a warm, healthy, tidy cache warm, healthy and tidy. -/
theorem xhealthy_runOp (op : IOp) (hop : OpWF cfg op) (fs : FS) (hX : XHealthy cfg cache fs)
    (hwarm : fs.get (cache ++ [dIndex]) = some .dir) :
    XHealthy cfg cache (runOp cfg cache env op fs).2 ∧
    (runOp cfg cache env op fs).2.get (cache ++ [dIndex]) = some .dir := by
  cases op with
  | ins key o => exact xhealthy_insert cfg env cache key o hop.1 hop.2 fs hX
  | del key =>
    simp only [runOp, (run_delete cfg cache env key fs).1]
    exact xhealthy_insert cfg env cache key {} (optsWF_default hop) (sriOK_default cfg) fs hX
  | look key =>
    simp only [runOp, (run_find cfg cache env key fs hX.healthy.index).2]
    exact ⟨hX, hwarm⟩

/-- The sequential listing of a warm, healthy, tidy cache lists its abstract index. -/
theorem run_ls_warm (fs : FS) (hX : XHealthy cfg cache fs)
    (hwarm : fs.get (cache ++ [dIndex]) = some .dir) :
    (run env (ls cfg cache) fs).2.1 = fs ∧
    ListsIndex (absIndex cfg cache fs) (run env (ls cfg cache) fs).1 := by
  obtain ⟨l1, l2⟩ := run_ls cfg cache env fs hX.healthy hX.tidy
  rw [if_pos ((isDir_iff (by simp)).mpr hwarm)] at l2
  exact ⟨l1, l2⟩

/-- The serial execution of a history: the library's programs run ONE AFTER THE OTHER in the order
`js` (process `ops.length` is the listing, process `j < ops.length` the index operation `ops[j]`),
each from the filesystem its predecessor left; the answers and the final filesystem. -/
def runHist (ops : List IOp) : List Nat → FS → List (Out ⊕ List LsItem) × FS
  | [], fs => ([], fs)
  | j :: js, fs =>
    if j = ops.length then
      (.inr (run env (ls cfg cache) fs).1 :: (runHist ops js (run env (ls cfg cache) fs).2.1).1,
       (runHist ops js (run env (ls cfg cache) fs).2.1).2)
    else
      (.inl (runOp cfg cache env (ops.getD j (.look [])) fs).1 ::
        (runHist ops js (runOp cfg cache env (ops.getD j (.look [])) fs).2).1,
       (runHist ops js (runOp cfg cache env (ops.getD j (.look [])) fs).2).2)

/-- Equal answers — a listing's answer up to the order of its items (the walk order of the model
means nothing, see `Lemmas/ListRefine`). -/
def OutEq : Out ⊕ List LsItem → Out ⊕ List LsItem → Prop
  | .inl a, .inl b => a = b
  | .inr l, .inr l' => l.Perm l'
  | _, _ => False

/-- The two lists of answers agree, answer by answer (`OutEq`). -/
def SameAnswers : List (Out ⊕ List LsItem) → List (Out ⊕ List LsItem) → Prop
  | [], [] => True
  | a :: as, b :: bs => OutEq a b ∧ SameAnswers as bs
  | _, _ => False

theorem getD_wf (ops : List IOp) (hops : ∀ op ∈ ops, OpWF cfg op) (j : Nat) :
    OpWF cfg (ops.getD j (.look [])) := by
  rw [List.getD_eq_getElem?_getD]
  cases hj : ops[j]? with
  | none => trivial
  | some op => exact hops op (List.mem_of_getElem? hj)

/-- A legal abstract history IS the serial execution of the real programs in that order. -/
theorem legalLs_runHist (ops : List IOp) (hops : ∀ op ∈ ops, OpWF cfg op)
    (hist : List (Nat × (Out ⊕ List LsItem))) (fs : FS) (a : AbsIndex) (hX : XHealthy cfg cache fs)
    (hwarm : fs.get (cache ++ [dIndex]) = some .dir)
    (hl : LegalLs (specF env Sum.inl ops) ops.length Sum.inr hist (absIndex cfg cache fs) a) :
    SameAnswers (hist.map Prod.snd) (runHist cfg env cache ops (hist.map Prod.fst) fs).1 ∧
    absIndex cfg cache (runHist cfg env cache ops (hist.map Prod.fst) fs).2 = a ∧
    XHealthy cfg cache (runHist cfg env cache ops (hist.map Prod.fst) fs).2 ∧
    (runHist cfg env cache ops (hist.map Prod.fst) fs).2.get (cache ++ [dIndex]) = some .dir := by
  induction hist generalizing fs with
  | nil => exact ⟨trivial, Eq.symm hl, hX, hwarm⟩
  | cons y hist ih =>
    obtain ⟨j, out⟩ := y
    unfold LegalLs at hl
    simp only [List.map_cons, runHist]
    by_cases hj : j = ops.length
    · rw [if_pos hj] at hl ⊢
      obtain ⟨⟨items, rfl, hli⟩, hl2⟩ := hl
      obtain ⟨l1, l2⟩ := run_ls_warm cfg env cache fs hX hwarm
      rw [l1]
      obtain ⟨i1, i2⟩ := ih fs hX hwarm hl2
      exact ⟨⟨listsIndex_perm2 hli l2, i1⟩, i2⟩
    · rw [if_neg hj] at hl ⊢
      obtain ⟨h1, hl2⟩ := hl
      have hop := getD_wf cfg ops hops j
      obtain ⟨r1, r2, -⟩ := runOp_refines cfg cache env (ops.getD j (.look [])) fs hX.healthy.index hop
      obtain ⟨x1, x2⟩ := xhealthy_runOp cfg env cache _ hop fs hX hwarm
      have e1 : (specF env (Sum.inl : Out → Out ⊕ List LsItem) ops j (absIndex cfg cache fs)).1 =
          absIndex cfg cache (runOp cfg cache env (ops.getD j (.look [])) fs).2 := r2.symm
      rw [e1] at hl2
      obtain ⟨i1, i2⟩ := ih _ x1 x2 hl2
      refine ⟨⟨?_, i1⟩, i2⟩
      rw [← h1]
      show OutEq (Sum.inl (specStep env (absIndex cfg cache fs) (ops.getD j (.look []))).2) (Sum.inl _)
      rw [r1]
      exact rfl

/-- **T3: any number of index writers, removers, readers and ONE lister — every schedule is
serializable.**

Process `j < ops.length` runs the library's program of `ops[j]` — `insert`, `delete` or `find`, of
any keys (same bucket or not), any mix and number; process `ops.length` runs `ls cfg cache`
(`procs`; answers in the sum type `Out ⊕ List LsItem`).  The cache is healthy and tidy
(`ListRefine.XHealthy`: every state reached from an empty cache by the cache operations) and WARM:
`index-v5` exists (`hwarm` — this, and only this, excludes the documented cold-cache exception).
After EVERY schedule there is an order `hist` of exactly the finished processes (each once, with the
answer it returned) such that RUNNING THE LIBRARY'S PROGRAMS SERIALLY in that order from the initial
filesystem (`runHist`) returns exactly those answers — the listing's up to the order of its items
(`OutEq`) — and ends in a filesystem with the same abstract index as the one the concurrent
execution left: every lookup of every key answers the same in both, and so does — up to order — a
later listing. -/
theorem ls_among_writers_serializable (ops : List IOp) (hops : ∀ op ∈ ops, OpWF cfg op) (fs : FS)
    (hX : XHealthy cfg cache fs) (hwarm : fs.get (cache ++ [dIndex]) = some .dir) (sched : List Nat) :
    ∃ hist : List (Nat × (Out ⊕ List LsItem)), (hist.map Prod.fst).Nodup ∧
      (∀ j out, (j, out) ∈ hist ↔
        FinishedWith env (procs cfg cache Sum.inl Sum.inr ops) fs sched j out) ∧
      SameAnswers (hist.map Prod.snd) (runHist cfg env cache ops (hist.map Prod.fst) fs).1 ∧
      absIndex cfg cache (runHist cfg env cache ops (hist.map Prod.fst) fs).2 =
        absIndex cfg cache (interleave env (procs cfg cache Sum.inl Sum.inr ops) fs sched).2 ∧
      (∀ key env', (run env' (find cfg cache key) (runHist cfg env cache ops (hist.map Prod.fst) fs).2).1 =
        (run env' (find cfg cache key) (interleave env (procs cfg cache Sum.inl Sum.inr ops) fs sched).2).1) ∧
      ∀ env', (run env' (ls cfg cache) (runHist cfg env cache ops (hist.map Prod.fst) fs).2).1.Perm
        (run env' (ls cfg cache) (interleave env (procs cfg cache Sum.inl Sum.inr ops) fs sched).2).1 := by
  obtain ⟨⟨hH, hSd⟩, hist, hnd, hleg, hfin⟩ := ls_among_writers_linearizable cfg env cache Sum.inl Sum.inr
    ops hops fs hX.healthy.index (side_of_tidy cfg cache hX.tidy hwarm) sched
  obtain ⟨r1, r2, r3, r4⟩ := legalLs_runHist cfg env cache ops hops hist fs _ hX hwarm hleg
  refine ⟨hist, hnd, hfin, r1, r2, fun key env' => ?_, fun env' => ?_⟩
  · rw [(run_find cfg cache env' key _ r3.healthy.index).1, (run_find cfg cache env' key _ hH).1, r2]
  · have l1 := (run_ls_warm cfg env' cache _ r3 r4).2
    rw [r2] at l1
    exact listsIndex_perm2 l1 (run_ls_side cfg env' cache _ hH hSd)


/-! ### the listing's answer; one writer and a lister (T1, T2); two writers and a lister (T4) -/

/-- **The listing among the writers**: when the lister has finished, its answer is a list of items
`r`, and `r` is — up to the order of the items — what `ls` answers ALONE after the serial
execution (`runHist`) of some of the finished writers `js` (each at most once, in some order). -/
theorem lister_answer (ops : List IOp) (hops : ∀ op ∈ ops, OpWF cfg op) (fs : FS)
    (hX : XHealthy cfg cache fs) (hwarm : fs.get (cache ++ [dIndex]) = some .dir) (sched : List Nat)
    (c : Out ⊕ List LsItem)
    (hfin : FinishedWith env (procs cfg cache Sum.inl Sum.inr ops) fs sched ops.length c) :
    ∃ (js : List Nat) (r : List LsItem), c = .inr r ∧ js.Nodup ∧
      (∀ j ∈ js, j < ops.length ∧
        ∃ out, FinishedWith env (procs cfg cache Sum.inl Sum.inr ops) fs sched j out) ∧
      r.Perm (run env (ls cfg cache) (runHist cfg env cache ops js fs).2).1 := by
  obtain ⟨-, hist, hnd, hleg, hiff⟩ := ls_among_writers_linearizable cfg env cache Sum.inl Sum.inr
    ops hops fs hX.healthy.index (side_of_tidy cfg cache hX.tidy hwarm) sched
  obtain ⟨h1, h2, e⟩ := List.append_of_mem ((hiff _ _).mpr hfin)
  subst e
  obtain ⟨a1, l1, l2⟩ := legalLs_split hleg
  unfold LegalLs at l2
  rw [if_pos rfl] at l2
  obtain ⟨⟨items, rfl, hli⟩, -⟩ := l2
  obtain ⟨-, r2, r3, r4⟩ := legalLs_runHist cfg env cache ops hops h1 fs a1 hX hwarm l1
  obtain ⟨-, hl⟩ := run_ls_warm cfg env cache _ r3 r4
  rw [r2] at hl
  rw [List.map_append, List.map_cons, List.nodup_append] at hnd
  refine ⟨h1.map Prod.fst, items, rfl, hnd.1, ?_, listsIndex_perm2 hli hl⟩
  intro j hj
  obtain ⟨x, hx, rfl⟩ := List.mem_map.mp hj
  have hf : FinishedWith env (procs cfg cache Sum.inl Sum.inr ops) fs sched x.1 x.2 :=
    (hiff _ _).mp (List.mem_append.mpr (Or.inl hx))
  refine ⟨?_, x.2, hf⟩
  have hlt := lt_of_getElem? hf
  rw [interleave_length] at hlt
  have hne : x.1 ≠ ops.length := fun e => hnd.2.2 x.1 hj ops.length List.mem_cons_self e
  simp [procs] at hlt
  omega

/-- One writer and the lister, in the common answer type: the lister's answer is — up to order —
the sequential listing before the operation or after it. -/
theorem ls_linearizable_op (op : IOp) (hop : OpWF cfg op) (fs : FS) (hX : XHealthy cfg cache fs)
    (hwarm : fs.get (cache ++ [dIndex]) = some .dir) (sched : List Nat) (c : Out ⊕ List LsItem)
    (hfin : FinishedWith env (procs cfg cache Sum.inl Sum.inr [op]) fs sched 1 c) :
    ∃ r, c = .inr r ∧ (r.Perm (run env (ls cfg cache) fs).1 ∨
      r.Perm (run env (ls cfg cache) (runOp cfg cache env op fs).2).1) := by
  obtain ⟨js, r, rfl, hnd, hjs, hperm⟩ := lister_answer cfg env cache [op]
    (by intro x hx; rw [List.mem_singleton.mp hx]; exact hop) fs hX hwarm sched c hfin
  refine ⟨r, rfl, ?_⟩
  match js, hnd, hjs, hperm with
  | [], _, _, hperm => exact Or.inl hperm
  | [j], _, hjs, hperm =>
    have hj : j = 0 := by have := (hjs j List.mem_cons_self).1; simp at this; exact this
    subst hj
    exact Or.inr hperm
  | j :: j' :: rest, hnd, hjs, _ =>
    have h1 : j = 0 := by have := (hjs j List.mem_cons_self).1; simp at this; exact this
    have h2 : j' = 0 := by
      have := (hjs j' (List.mem_cons_of_mem _ List.mem_cons_self)).1; simp at this; exact this
    subst h1 h2
    simp at hnd

theorem procs_insert (key : Bytes) (o : WriteOpts) :
    [(insert cfg cache key o).mapRes Sum.inl,
      (ls cfg cache).mapRes (Sum.inr : _ → Res Integrity ⊕ List LsItem)].map
        (fun p => p.mapRes (Sum.map outIns id)) =
      procs cfg cache Sum.inl Sum.inr [.ins key o] := by
  simp only [List.map, procs, opProg, mapRes_mapRes, List.cons_append, List.nil_append]
  rfl

theorem procs_delete (key : Bytes) :
    [(delete cfg cache key).mapRes Sum.inl,
      (ls cfg cache).mapRes (Sum.inr : _ → Res Unit ⊕ List LsItem)].map
        (fun p => p.mapRes (Sum.map outDel id)) =
      procs cfg cache Sum.inl Sum.inr [.del key] := by
  simp only [List.map, procs, opProg, mapRes_mapRes, List.cons_append, List.nil_append]
  rfl

/-- **T1: a listing concurrent with an index insertion is linearizable** (every schedule).

Process 0 runs `insert cfg cache key o` (well-formed options, integrity absent or computed by the
library), process 1 runs `ls cfg cache`, from a healthy, tidy, WARM cache (`hwarm`: `index-v5`
exists).  If the lister has finished with the items `r`, then `r` is — up to the order of the items —
what `ls` answers ALONE BEFORE the insertion or ALONE AFTER the completed insertion.  (Literal
equality does not hold in the model: the sequential insertion moves its bucket to the front of the
walk order, the concurrent lister may have walked before.) -/
theorem ls_linearizable_insert (key : Bytes) (o : WriteOpts) (hw : OptsWF key o) (hs : SriOK cfg o)
    (fs : FS) (hX : XHealthy cfg cache fs) (hwarm : fs.get (cache ++ [dIndex]) = some .dir)
    (sched : List Nat) (r : List LsItem)
    (hfin : FinishedWith env [(insert cfg cache key o).mapRes Sum.inl,
      (ls cfg cache).mapRes (Sum.inr : _ → Res Integrity ⊕ List LsItem)] fs sched 1 (.inr r)) :
    r.Perm (run env (ls cfg cache) fs).1 ∨
    r.Perm (run env (ls cfg cache) (run env (insert cfg cache key o) fs).2.1).1 := by
  have h := finishedWith_mapRes env (Sum.map outIns id) _ fs sched 1 _ hfin
  rw [procs_insert] at h
  obtain ⟨r', e, hp⟩ := ls_linearizable_op cfg env cache (.ins key o) ⟨hw, hs⟩ fs hX hwarm sched _ h
  cases (Sum.inr.inj e : r = r')
  exact hp

/-- **T1 for a removal.** -/
theorem ls_linearizable_delete (key : Bytes) (hk : Json.utf8Valid key = true)
    (fs : FS) (hX : XHealthy cfg cache fs) (hwarm : fs.get (cache ++ [dIndex]) = some .dir)
    (sched : List Nat) (r : List LsItem)
    (hfin : FinishedWith env [(delete cfg cache key).mapRes Sum.inl,
      (ls cfg cache).mapRes (Sum.inr : _ → Res Unit ⊕ List LsItem)] fs sched 1 (.inr r)) :
    r.Perm (run env (ls cfg cache) fs).1 ∨
    r.Perm (run env (ls cfg cache) (run env (delete cfg cache key) fs).2.1).1 := by
  have h := finishedWith_mapRes env (Sum.map outDel id) _ fs sched 1 _ hfin
  rw [procs_delete] at h
  obtain ⟨r', e, hp⟩ := ls_linearizable_op cfg env cache (.del key) hk fs hX hwarm sched _ h
  cases (Sum.inr.inj e : r = r')
  exact hp

theorem ls_fixes (g : List LsItem → γ) :
    AllCalls (fun c => ∀ s, (exec env s c).1 = s) ((ls cfg cache).mapRes g) :=
  allCalls_mapRes g ((ls_ro cfg cache).mono (fun c hc s => exec_readOnly env c hc s) (fun _ h => h))

/-- **T2: results of both processes and the final filesystem are those of a serial execution.**
When the insertion (process 0) and the lister (process 1) have both finished: the insertion's
result and the final filesystem are LITERALLY those of `Linearize.serialRW` (listing, then
insertion) and of `Linearize.serialWR` (insertion, then listing) — the two agree there, a listing
changes nothing — and the lister's items are, up to order, the listing of one of the two. -/
theorem ls_insert_serial (key : Bytes) (o : WriteOpts) (hw : OptsWF key o) (hs : SriOK cfg o)
    (fs : FS) (hX : XHealthy cfg cache fs) (hwarm : fs.get (cache ++ [dIndex]) = some .dir)
    (sched : List Nat) (c0 c1 : Res Integrity ⊕ List LsItem)
    (h0 : FinishedWith env [(insert cfg cache key o).mapRes Sum.inl,
      (ls cfg cache).mapRes Sum.inr] fs sched 0 c0)
    (h1 : FinishedWith env [(insert cfg cache key o).mapRes Sum.inl,
      (ls cfg cache).mapRes Sum.inr] fs sched 1 c1) :
    ∃ x r, c0 = .inl x ∧ c1 = .inr r ∧
      ((x = (serialRW env (insert cfg cache key o) (ls cfg cache) fs).1 ∧
        r.Perm (serialRW env (insert cfg cache key o) (ls cfg cache) fs).2.1 ∧
        (interleave env [(insert cfg cache key o).mapRes Sum.inl, (ls cfg cache).mapRes Sum.inr] fs sched).2 =
          (serialRW env (insert cfg cache key o) (ls cfg cache) fs).2.2) ∨
       (x = (serialWR env (insert cfg cache key o) (ls cfg cache) fs).1 ∧
        r.Perm (serialWR env (insert cfg cache key o) (ls cfg cache) fs).2.1 ∧
        (interleave env [(insert cfg cache key o).mapRes Sum.inl, (ls cfg cache).mapRes Sum.inr] fs sched).2 =
          (serialWR env (insert cfg cache key o) (ls cfg cache) fs).2.2)) := by
  obtain ⟨e0, efs⟩ := writer_alone env _ _ fs (ls_fixes cfg env cache Sum.inr) sched c0 h0
  rw [(run_mapRes env Sum.inl _ fs).1] at e0
  rw [(run_mapRes env Sum.inl _ fs).2] at efs
  have h := finishedWith_mapRes env (Sum.map outIns id) _ fs sched 1 _ h1
  rw [procs_insert] at h
  obtain ⟨r, e, hp⟩ := ls_linearizable_op cfg env cache (.ins key o) ⟨hw, hs⟩ fs hX hwarm sched _ h
  have e1 : c1 = .inr r := by
    cases c1 with
    | inl x => cases e
    | inr r' => cases e; rfl
  obtain ⟨l1, -⟩ := run_ls_warm cfg env cache fs hX hwarm
  obtain ⟨x1, x2⟩ := xhealthy_insert cfg env cache key o hw hs fs hX
  obtain ⟨l2, -⟩ := run_ls_warm cfg env cache _ x1 x2
  refine ⟨_, r, e0, e1, ?_⟩
  rcases hp with hp | hp
  · left
    unfold serialRW
    simp only [l1]
    exact ⟨trivial, hp, efs⟩
  · right
    unfold serialWR
    simp only [l2]
    exact ⟨trivial, hp, efs⟩

/-- **T2 for a removal.** -/
theorem ls_delete_serial (key : Bytes) (hk : Json.utf8Valid key = true)
    (fs : FS) (hX : XHealthy cfg cache fs) (hwarm : fs.get (cache ++ [dIndex]) = some .dir)
    (sched : List Nat) (c0 c1 : Res Unit ⊕ List LsItem)
    (h0 : FinishedWith env [(delete cfg cache key).mapRes Sum.inl,
      (ls cfg cache).mapRes Sum.inr] fs sched 0 c0)
    (h1 : FinishedWith env [(delete cfg cache key).mapRes Sum.inl,
      (ls cfg cache).mapRes Sum.inr] fs sched 1 c1) :
    ∃ x r, c0 = .inl x ∧ c1 = .inr r ∧
      ((x = (serialRW env (delete cfg cache key) (ls cfg cache) fs).1 ∧
        r.Perm (serialRW env (delete cfg cache key) (ls cfg cache) fs).2.1 ∧
        (interleave env [(delete cfg cache key).mapRes Sum.inl, (ls cfg cache).mapRes Sum.inr] fs sched).2 =
          (serialRW env (delete cfg cache key) (ls cfg cache) fs).2.2) ∨
       (x = (serialWR env (delete cfg cache key) (ls cfg cache) fs).1 ∧
        r.Perm (serialWR env (delete cfg cache key) (ls cfg cache) fs).2.1 ∧
        (interleave env [(delete cfg cache key).mapRes Sum.inl, (ls cfg cache).mapRes Sum.inr] fs sched).2 =
          (serialWR env (delete cfg cache key) (ls cfg cache) fs).2.2)) := by
  obtain ⟨e0, efs⟩ := writer_alone env _ _ fs (ls_fixes cfg env cache Sum.inr) sched c0 h0
  rw [(run_mapRes env Sum.inl _ fs).1] at e0
  rw [(run_mapRes env Sum.inl _ fs).2] at efs
  have h := finishedWith_mapRes env (Sum.map outDel id) _ fs sched 1 _ h1
  rw [procs_delete] at h
  obtain ⟨r, e, hp⟩ := ls_linearizable_op cfg env cache (.del key) hk fs hX hwarm sched _ h
  have e1 : c1 = .inr r := by
    cases c1 with
    | inl x => cases e
    | inr r' => cases e; rfl
  obtain ⟨l1, -⟩ := run_ls_warm cfg env cache fs hX hwarm
  obtain ⟨x1, x2⟩ := xhealthy_runOp cfg env cache (.del key) hk fs hX hwarm
  obtain ⟨l2, -⟩ := run_ls_warm cfg env cache _ x1 x2
  refine ⟨_, r, e0, e1, ?_⟩
  rcases hp with hp | hp
  · left
    unfold serialRW
    simp only [l1]
    exact ⟨trivial, hp, efs⟩
  · right
    unfold serialWR
    have l2' : (run env (ls cfg cache) (run env (delete cfg cache key) fs).2.1).2.1 =
        (run env (delete cfg cache key) fs).2.1 := l2
    simp only [l2']
    exact ⟨trivial, hp, efs⟩


theorem nodup_lt_two (js : List Nat) (hn : js.Nodup) (hl : ∀ j ∈ js, j < 2) :
    js = [] ∨ js = [0] ∨ js = [1] ∨ js = [0, 1] ∨ js = [1, 0] := by
  match js, hn, hl with
  | [], _, _ => exact Or.inl rfl
  | [a], _, hl =>
    have := hl a List.mem_cons_self
    rcases (by omega : a = 0 ∨ a = 1) with rfl | rfl <;> simp
  | [a, b], hn, hl =>
    have ha := hl a List.mem_cons_self
    have hb := hl b (List.mem_cons_of_mem _ List.mem_cons_self)
    simp at hn
    rcases (by omega : a = 0 ∨ a = 1) with rfl | rfl <;>
      rcases (by omega : b = 0 ∨ b = 1) with rfl | rfl <;> simp at hn ⊢
  | a :: b :: c :: rest, hn, hl =>
    have ha := hl a List.mem_cons_self
    have hb := hl b (List.mem_cons_of_mem _ List.mem_cons_self)
    have hc := hl c (List.mem_cons_of_mem _ (List.mem_cons_of_mem _ List.mem_cons_self))
    simp at hn
    omega

/-- **T4: two writers and one lister** — the concrete shape of the property's quantifier.  `w1`,
`w2` are any two index operations (insertions, removals, lookups; any keys — equal, colliding in
one bucket, or unrelated), each its own process, next to one lister.  After EVERY schedule: there
is a serial order of the finished processes in which the library's programs, run one after the
other, return the same answers (the listing's up to order) and leave the same abstract index; and
a finished lister's items are, up to order, the sequential listing in one of the five states a
serial execution of some of the writers can produce. -/
theorem ls_two_writers_serializable (w1 w2 : IOp) (h1 : OpWF cfg w1) (h2 : OpWF cfg w2) (fs : FS)
    (hX : XHealthy cfg cache fs) (hwarm : fs.get (cache ++ [dIndex]) = some .dir) (sched : List Nat) :
    (∃ hist : List (Nat × (Out ⊕ List LsItem)), (hist.map Prod.fst).Nodup ∧
      (∀ j out, (j, out) ∈ hist ↔
        FinishedWith env [(opProg cfg cache w1).mapRes Sum.inl, (opProg cfg cache w2).mapRes Sum.inl,
          (ls cfg cache).mapRes Sum.inr] fs sched j out) ∧
      SameAnswers (hist.map Prod.snd) (runHist cfg env cache [w1, w2] (hist.map Prod.fst) fs).1 ∧
      absIndex cfg cache (runHist cfg env cache [w1, w2] (hist.map Prod.fst) fs).2 =
        absIndex cfg cache (interleave env [(opProg cfg cache w1).mapRes Sum.inl,
          (opProg cfg cache w2).mapRes Sum.inl, (ls cfg cache).mapRes Sum.inr] fs sched).2) ∧
    ∀ c, FinishedWith env [(opProg cfg cache w1).mapRes Sum.inl, (opProg cfg cache w2).mapRes Sum.inl,
        (ls cfg cache).mapRes Sum.inr] fs sched 2 c →
      ∃ r, c = .inr r ∧
        (r.Perm (run env (ls cfg cache) fs).1 ∨
         r.Perm (run env (ls cfg cache) (runOp cfg cache env w1 fs).2).1 ∨
         r.Perm (run env (ls cfg cache) (runOp cfg cache env w2 fs).2).1 ∨
         r.Perm (run env (ls cfg cache) (runOp cfg cache env w2 (runOp cfg cache env w1 fs).2).2).1 ∨
         r.Perm (run env (ls cfg cache) (runOp cfg cache env w1 (runOp cfg cache env w2 fs).2).2).1) := by
  have hops : ∀ op ∈ [w1, w2], OpWF cfg op := by
    intro op hop
    simp only [List.mem_cons, List.not_mem_nil, or_false] at hop
    rcases hop with rfl | rfl <;> assumption
  constructor
  · obtain ⟨hist, a, b, c, d, -, -⟩ := ls_among_writers_serializable cfg env cache [w1, w2] hops fs hX hwarm sched
    exact ⟨hist, a, b, c, d⟩
  · intro c hfin
    obtain ⟨js, r, rfl, hnd, hjs, hperm⟩ := lister_answer cfg env cache [w1, w2] hops fs hX hwarm sched c hfin
    refine ⟨r, rfl, ?_⟩
    rcases nodup_lt_two js hnd (fun j hj => (hjs j hj).1) with rfl | rfl | rfl | rfl | rfl
    · exact Or.inl hperm
    · exact Or.inr (Or.inl hperm)
    · exact Or.inr (Or.inr (Or.inl hperm))
    · exact Or.inr (Or.inr (Or.inr (Or.inl hperm)))
    · exact Or.inr (Or.inr (Or.inr (Or.inr hperm)))


/-! ### non-vacuity -/

/-- The hypotheses on the filesystem are satisfiable, for every cache path: ONE insertion into the
empty filesystem leaves a healthy, tidy cache whose index directory exists (a WARM cache). -/
theorem warm_after_first_insert (key : Bytes) (o : WriteOpts) (hw : OptsWF key o) (hs : SriOK cfg o) :
    XHealthy cfg cache (run env (insert cfg cache key o) FS.empty).2.1 ∧
    (run env (insert cfg cache key o) FS.empty).2.1.get (cache ++ [dIndex]) = some .dir :=
  xhealthy_insert cfg env cache key o hw hs FS.empty
    (xhealthy_of_empty_cache cfg cache FS.empty (fun _ _ _ => Or.inl rfl) (fun _ _ _ => rfl))

/-- `FinishedWith … (lister)` is satisfiable from EVERY state that meets the hypotheses: there is
a schedule after which the lister has finished (whatever the other processes are). -/
theorem ls_finishes {γ : Type} (g : List LsItem → γ) (ps : List (Prog γ)) (L : Nat)
    (hL : ps[L]? = some ((ls cfg cache).mapRes g)) (fs : FS) (hX : XHealthy cfg cache fs)
    (hwarm : fs.get (cache ++ [dIndex]) = some .dir) :
    ∃ sched r, FinishedWith env ps fs sched L (g r) :=
  lister_finishes (lsSys cfg cache) env (bucketPath cfg cache) L g _ _ (IdxQ cfg cache)
    (ls_scanOK cfg env cache g) ps hL fs ⟨hX.healthy.index, side_of_tidy cfg cache hX.tidy hwarm⟩

/-- … and there is a schedule after which BOTH processes have finished (the hypotheses of
`ls_insert_serial`). -/
theorem both_finish {γ : Type} (W : Prog γ) (g : List LsItem → γ) (fs : FS)
    (hX : XHealthy cfg cache fs) (hwarm : fs.get (cache ++ [dIndex]) = some .dir) :
    ∃ sched c0 r, FinishedWith env [W, (ls cfg cache).mapRes g] fs sched 0 c0 ∧
      FinishedWith env [W, (ls cfg cache).mapRes g] fs sched 1 (g r) := by
  obtain ⟨s1, r, h1⟩ := ls_finishes cfg env cache g [W, (ls cfg cache).mapRes g] 1 rfl fs hX hwarm
  have hlen := interleave_length env [W, (ls cfg cache).mapRes g] fs s1
  have hp : ∃ p, (interleave env [W, (ls cfg cache).mapRes g] fs s1).1[0]? = some p := by
    cases hq : (interleave env [W, (ls cfg cache).mapRes g] fs s1).1 with
    | nil => rw [hq] at hlen; cases hlen
    | cons p _ => exact ⟨p, rfl⟩
  obtain ⟨p, hp⟩ := hp
  obtain ⟨n, f1, f2⟩ := proc_finishes env p _ 0 hp (interleave env [W, (ls cfg cache).mapRes g] fs s1).2
  refine ⟨s1 ++ List.replicate n 0,
    (run env p (interleave env [W, (ls cfg cache).mapRes g] fs s1).2).1, r, ?_, ?_⟩
  · unfold FinishedWith
    rw [interleave_append]
    exact f1
  · unfold FinishedWith
    rw [interleave_append, f2 1 (by omega)]
    exact h1

/-- `ls_linearizable_insert` / `ls_linearizable_delete`: from the cache one insertion of the key
`"k"` into the empty filesystem leaves, for every key and all well-formed options there is a
schedule meeting the hypothesis — and then the conclusion holds. -/
example (key : Bytes) (o : WriteOpts) (hw : OptsWF key o) (hs : SriOK cfg o) :
    let fs := (run env (insert cfg cache [107] {}) FS.empty).2.1
    ∃ sched r, FinishedWith env [(insert cfg cache key o).mapRes Sum.inl,
        (ls cfg cache).mapRes (Sum.inr : _ → Res Integrity ⊕ List LsItem)] fs sched 1 (.inr r) ∧
      (r.Perm (run env (ls cfg cache) fs).1 ∨
       r.Perm (run env (ls cfg cache) (run env (insert cfg cache key o) fs).2.1).1) := by
  intro fs
  obtain ⟨hX, hwarm⟩ := warm_after_first_insert cfg env cache [107] {} (optsWF_default (by decide))
    (sriOK_default cfg)
  obtain ⟨sched, r, h⟩ := ls_finishes cfg env cache Sum.inr [(insert cfg cache key o).mapRes Sum.inl,
    (ls cfg cache).mapRes (Sum.inr : _ → Res Integrity ⊕ List LsItem)] 1 rfl fs hX hwarm
  exact ⟨sched, r, h, ls_linearizable_insert cfg env cache key o hw hs fs hX hwarm sched r h⟩

example (key : Bytes) (hk : Json.utf8Valid key = true) :
    let fs := (run env (insert cfg cache [107] {}) FS.empty).2.1
    ∃ sched r, FinishedWith env [(delete cfg cache key).mapRes Sum.inl,
        (ls cfg cache).mapRes (Sum.inr : _ → Res Unit ⊕ List LsItem)] fs sched 1 (.inr r) ∧
      (r.Perm (run env (ls cfg cache) fs).1 ∨
       r.Perm (run env (ls cfg cache) (run env (delete cfg cache key) fs).2.1).1) := by
  intro fs
  obtain ⟨hX, hwarm⟩ := warm_after_first_insert cfg env cache [107] {} (optsWF_default (by decide))
    (sriOK_default cfg)
  obtain ⟨sched, r, h⟩ := ls_finishes cfg env cache Sum.inr [(delete cfg cache key).mapRes Sum.inl,
    (ls cfg cache).mapRes (Sum.inr : _ → Res Unit ⊕ List LsItem)] 1 rfl fs hX hwarm
  exact ⟨sched, r, h, ls_linearizable_delete cfg env cache key hk fs hX hwarm sched r h⟩

/-- `ls_insert_serial`: a schedule after which both have finished exists. -/
example (key : Bytes) (o : WriteOpts) :
    let fs := (run env (insert cfg cache [107] {}) FS.empty).2.1
    ∃ sched c0 c1, FinishedWith env [(insert cfg cache key o).mapRes Sum.inl,
        (ls cfg cache).mapRes (Sum.inr : _ → Res Integrity ⊕ List LsItem)] fs sched 0 c0 ∧
      FinishedWith env [(insert cfg cache key o).mapRes Sum.inl,
        (ls cfg cache).mapRes (Sum.inr : _ → Res Integrity ⊕ List LsItem)] fs sched 1 c1 := by
  intro fs
  obtain ⟨hX, hwarm⟩ := warm_after_first_insert cfg env cache [107] {} (optsWF_default (by decide))
    (sriOK_default cfg)
  obtain ⟨sched, c0, r, h0, h1⟩ := both_finish cfg env cache ((insert cfg cache key o).mapRes Sum.inl)
    (Sum.inr : _ → Res Integrity ⊕ List LsItem) fs hX hwarm
  exact ⟨sched, c0, _, h0, h1⟩

/-- `ls_among_writers_serializable` / `lister_answer`: an insertion with a computed integrity, a
removal, two lookups and the lister — five processes — on the warm cache; the lister finishes
under some schedule, and its answer is the sequential listing after some of the writers. -/
example (k1 k2 k3 : Bytes) (h1 : Json.utf8Valid k1 = true) (h2 : Json.utf8Valid k2 = true)
    (a : Algo) (data : Bytes) :
    let fs := (run env (insert cfg cache [107] {}) FS.empty).2.1
    let ops : List IOp := [.ins k1 { sri := some (Sri.compute cfg.H a data) }, .del k2, .look k3, .look k1]
    (∀ op ∈ ops, OpWF cfg op) ∧
    ∃ sched r, FinishedWith env (procs cfg cache Sum.inl Sum.inr ops) fs sched 4 (.inr r) := by
  intro fs ops
  obtain ⟨hX, hwarm⟩ := warm_after_first_insert cfg env cache [107] {} (optsWF_default (by decide))
    (sriOK_default cfg)
  refine ⟨?_, ls_finishes cfg env cache Sum.inr _ 4 rfl fs hX hwarm⟩
  intro op hop
  simp only [ops, List.mem_cons, List.not_mem_nil, or_false] at hop
  rcases hop with rfl | rfl | rfl | rfl
  · exact ⟨(optsWF_default h1).with_computed cfg.H a data, Or.inr ⟨a, data, rfl⟩⟩
  · exact h2
  · trivial
  · trivial

/-- `ls_two_writers_serializable`: two inserters of any keys and the lister, warm cache. -/
example (k1 k2 : Bytes) (h1 : Json.utf8Valid k1 = true) (h2 : Json.utf8Valid k2 = true) :
    let fs := (run env (insert cfg cache [107] {}) FS.empty).2.1
    ∃ sched r, FinishedWith env [(opProg cfg cache (.ins k1 {})).mapRes Sum.inl,
      (opProg cfg cache (.ins k2 {})).mapRes Sum.inl,
      (ls cfg cache).mapRes (Sum.inr : _ → Out ⊕ List LsItem)] fs sched 2 (.inr r) ∧
      (r.Perm (run env (ls cfg cache) fs).1 ∨
       r.Perm (run env (ls cfg cache) (runOp cfg cache env (.ins k1 {}) fs).2).1 ∨
       r.Perm (run env (ls cfg cache) (runOp cfg cache env (.ins k2 {}) fs).2).1 ∨
       r.Perm (run env (ls cfg cache)
         (runOp cfg cache env (.ins k2 {}) (runOp cfg cache env (.ins k1 {}) fs).2).2).1 ∨
       r.Perm (run env (ls cfg cache)
         (runOp cfg cache env (.ins k1 {}) (runOp cfg cache env (.ins k2 {}) fs).2).2).1) := by
  intro fs
  obtain ⟨hX, hwarm⟩ := warm_after_first_insert cfg env cache [107] {} (optsWF_default (by decide))
    (sriOK_default cfg)
  obtain ⟨sched, r, h⟩ := ls_finishes cfg env cache Sum.inr [(opProg cfg cache (.ins k1 {})).mapRes Sum.inl,
    (opProg cfg cache (.ins k2 {})).mapRes Sum.inl,
    (ls cfg cache).mapRes (Sum.inr : _ → Out ⊕ List LsItem)] 2 rfl fs hX hwarm
  obtain ⟨r', e, hp⟩ := (ls_two_writers_serializable cfg env cache (.ins k1 {}) (.ins k2 {})
    ⟨optsWF_default h1, sriOK_default cfg⟩ ⟨optsWF_default h2, sriOK_default cfg⟩ fs hX hwarm sched).2 _ h
  cases (Sum.inr.inj e : r = r')
  exact ⟨sched, r, h, hp⟩

end Index

end Cacache.LinearizeLs

#print axioms Cacache.LinearizeLs.legal_shift
#print axioms Cacache.LinearizeLs.scan_linearizable
#print axioms Cacache.LinearizeLs.side_step
#print axioms Cacache.LinearizeLs.ls_scanOK
#print axioms Cacache.LinearizeLs.ls_among_writers_linearizable
#print axioms Cacache.LinearizeLs.legalLs_runHist
#print axioms Cacache.LinearizeLs.ls_among_writers_serializable
#print axioms Cacache.LinearizeLs.lister_answer
#print axioms Cacache.LinearizeLs.ls_linearizable_op
#print axioms Cacache.LinearizeLs.ls_linearizable_insert
#print axioms Cacache.LinearizeLs.ls_linearizable_delete
#print axioms Cacache.LinearizeLs.ls_insert_serial
#print axioms Cacache.LinearizeLs.ls_delete_serial
#print axioms Cacache.LinearizeLs.run_ls_side
#print axioms Cacache.LinearizeLs.ls_two_writers_serializable
#print axioms Cacache.LinearizeLs.warm_after_first_insert
#print axioms Cacache.LinearizeLs.ls_finishes
#print axioms Cacache.LinearizeLs.both_finish
