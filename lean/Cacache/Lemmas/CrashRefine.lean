/-
Recoverability: **a crash in the middle of any operation leaves a healthy cache whose abstract
state is "old" or "new", and everything keeps working afterwards.**

Connects the per-operation crash theorems (C03: `ContentValid` at every kill point; C04: the key's
bucket is the old bytes plus a prefix of the one new frame) with the refinement theorems of
`Lemmas/Refine.lean` and `Lemmas/CacheRefine.lean` (healthy runs answer like an abstract map).

* `Quiet P D fs fs'`, `Mild P D c`, `mild_crash` / `mild_run` / `mild_fault` — a generic frame
  calculus: a program all of whose calls are *mild* (directory creation towards `D`-paths, file
  operations on `P`-paths only, reads) changes the filesystem *quietly*: every path outside `P`
  keeps its node or turns from absent into a directory on a `D`-path.  Torn `create_dir_all`s and
  left-over temp files are instances.
* `quiet_healthy` — a quiet change whose `P`-paths are not directory paths of the cache and hold
  valid content / settled buckets keeps the cache `Healthy`.
* `settled_torn` — a settled bucket followed by ANY prefix of a well-formed frame is settled.
* `tmpOnly_healthy` — left-over temp files and torn directories: a change confined to the children
  of `cache/tmp` and to new directories keeps the cache healthy and its abstract state unchanged
  (neither invariant constrains the children of `cache/tmp`; a later `mkTemp` takes the name
  `#next`, which a completed `mkTemp` advanced and a torn one — which created nothing — did not,
  and `exec … (.mkTemp dir)` overwrites in any case; `write_after_crash` proves the later writer
  succeeds).
* `settled_torn` — a settled bucket followed by ANY prefix of a well-formed frame is settled.
* `insert_crash_sem`, `delete_crash_sem`, `put_crash_sem`, `addrPut_crash_sem` — statements 1 + 2
  per operation (kill on entry to any call `n`, that call torn at any `t`); `Admissible`,
  `crashOp_admissible`, `crashOp_untouched` — all operations of `COp` at once.
* `crash_then_post` — statement 3: `pre`, the crashed operation, `post`; corollaries
  `get_after_crashed_put(_old_or_new)`, `get_after_crashed_remove`, `get_other_after_crash`,
  `write_after_crash`.
* Statement 4 (a fault plan instead of a kill): `insert_fault_sem`, `delete_fault_sem`,
  `addrPut_fault_sem`, `put_fault_sem` (`AdmissibleF`: the three states of a kill plus one only a
  fault can produce — `rename` fails, the address is already occupied, the entry is recorded),
  `fault_then_post`; all from one proof in the demonic calculus (`put_sem_wp`, `addrPut_sem_wp`,
  `insert_sem_wp`), which also yields the kill points again.
-/
import Cacache.Lemmas.CacheRefine
import Cacache.Props.C04

namespace Cacache.CrashRefine
open Prog Json Refine CacheRefine

/-! ### crash of a program: unfolding -/

theorem crash_sys_zero {α : Type} (env : Env) (c : Call) (k : Ret → Prog α) (fs : FS) (t : Nat) :
    crash env (.sys c k) fs 0 t = execTorn env fs t c := rfl

theorem crash_sys_succ {α : Type} (env : Env) (c : Call) (k : Ret → Prog α) (fs : FS) (n t : Nat) :
    crash env (.sys c k) fs (n + 1) t = crash env (k (exec env fs c).2) (exec env fs c).1 n t := rfl

theorem crash_done {α : Type} (env : Env) (a : α) (fs : FS) (n t : Nat) :
    crash env (.done a : Prog α) fs n t = fs := rfl

/-! ### quiet state changes -/

/-- `fs'` differs from `fs` *quietly*: every path is a `P`-path (about which nothing is said), or
keeps its node, or turns from absent into a directory and is a `D`-path. -/
def Quiet (P D : Path → Prop) (fs fs' : FS) : Prop :=
  ∀ q, P q ∨ fs'.get q = fs.get q ∨ (fs.get q = none ∧ fs'.get q = some .dir ∧ D q)

theorem Quiet.refl {P D : Path → Prop} (fs : FS) : Quiet P D fs fs := fun _ => Or.inr (Or.inl rfl)

theorem Quiet.trans {P D : Path → Prop} {a b c : FS} (h1 : Quiet P D a b) (h2 : Quiet P D b c) :
    Quiet P D a c := by
  intro q
  rcases h1 q with p | e | ⟨n, d, hd⟩
  · exact Or.inl p
  · rcases h2 q with p | e2 | ⟨n2, d2, hd2⟩
    · exact Or.inl p
    · exact Or.inr (Or.inl (e2.trans e))
    · exact Or.inr (Or.inr ⟨by rw [← e]; exact n2, d2, hd2⟩)
  · rcases h2 q with p | e2 | ⟨n2, _, _⟩
    · exact Or.inl p
    · exact Or.inr (Or.inr ⟨n, by rw [e2]; exact d, hd⟩)
    · rw [d] at n2; cases n2

theorem Quiet.mono {P D P' D' : Path → Prop} {a b : FS} (hP : ∀ q, P q → P' q) (hD : ∀ q, D q → D' q)
    (h : Quiet P D a b) : Quiet P' D' a b := by
  intro q
  rcases h q with p | e | ⟨n, d, hd⟩
  · exact Or.inl (hP q p)
  · exact Or.inr (Or.inl e)
  · exact Or.inr (Or.inr ⟨n, d, hD q hd⟩)

/-- A quiet change leaves every path alone that is neither a `P`-path nor a `D`-path. -/
theorem Quiet.keep {P D : Path → Prop} {a b : FS} (h : Quiet P D a b) {q : Path} (hp : ¬ P q)
    (hd : ¬ D q) : b.get q = a.get q := by
  rcases h q with p | e | ⟨_, _, d⟩
  · exact absurd p hp
  · exact e
  · exact absurd d hd

/-- A *mild* call: `create_dir_all` of a directory all of whose prefixes are `D`-paths; creation,
modification, deletion and renaming of `P`-paths; reads.  (Links, copies and recursive removal are
not mild — no cache operation of `COp` issues them.) -/
def Mild (P D : Path → Prop) : Call → Prop
  | .mkdirP d => ∀ q, q <+: d → D q
  | .mkTemp dir => ∀ n, P (dir ++ [n])
  | .fallocate p _ => P p
  | .writeAt p _ _ => P p
  | .truncate p _ => P p
  | .openAppend p => P p
  | .appendWrite p _ => P p
  | .unlink p => P p
  | .rename s d => P s ∧ P d
  | .readFile _ => True
  | .existsF _ => True
  | .sizeOf _ => True
  | .walk _ => True
  | .readDir _ => True
  | .now => True
  | .hardLink _ _ => False
  | .symlink _ _ => False
  | .copyFile _ _ => False
  | .reflink _ _ => False
  | .removeTree _ => False
  | .isLink _ => True
  | .sameFile _ _ => True
  | .mkTempLink _ _ => False
  | .renameLink _ _ => False

theorem quiet_mkdirLevels {P D : Path → Prop} {fs fs' : FS} {d : Path} {n : Nat}
    (hm : ∀ q, q <+: d → D q) (h : FS.mkdirLevels fs (FS.prefixes d) n = .ok fs') : Quiet P D fs fs' := by
  intro q
  right
  rcases FS.mkdirLevels_get _ _ _ _ h q with h1 | ⟨h1, h2⟩
  · exact Or.inl h1
  · refine Or.inr ⟨h1, h2, hm q ?_⟩
    apply Classical.byContradiction
    intro hn
    rw [FS.mkdirLevels_frame _ _ _ _ h q (fun m => hn (FS.mem_prefixes m)), h1] at h2
    cases h2

/-- **One mild call changes the filesystem quietly** — whether it succeeds or fails with any error
after any partial effect. -/
theorem mild_step {P D : Path → Prop} {env : Env} {fs fs' : FS} {c : Call} {r : Ret}
    (hm : Mild P D c) (hs : Step env fs c fs' r) : Quiet P D fs fs' := by
  cases c with
  | mkdirP d =>
    cases hs with
    | fail e short => exact Quiet.refl _
    | ok =>
      simp only [exec]
      split
      · rename_i fs1 hm1; exact quiet_mkdirLevels hm hm1
      · exact Quiet.refl _
  | mkTemp dir =>
    intro q
    by_cases hp : P q
    · exact Or.inl hp
    · exact Or.inr (Or.inl (step_frame env fs fs' _ r hs q (fun e => hp (e ▸ hm _))))
  | fallocate p n =>
    intro q
    by_cases hp : P q
    · exact Or.inl hp
    · exact Or.inr (Or.inl (step_frame env fs fs' _ r hs q (fun e => hp (e ▸ hm))))
  | writeAt p off d =>
    intro q
    by_cases hp : P q
    · exact Or.inl hp
    · exact Or.inr (Or.inl (step_frame env fs fs' _ r hs q (fun e => hp (e ▸ hm))))
  | truncate p n =>
    intro q
    by_cases hp : P q
    · exact Or.inl hp
    · exact Or.inr (Or.inl (step_frame env fs fs' _ r hs q (fun e => hp (e ▸ hm))))
  | openAppend p =>
    intro q
    by_cases hp : P q
    · exact Or.inl hp
    · exact Or.inr (Or.inl (step_frame env fs fs' _ r hs q (fun e => hp (e ▸ hm))))
  | appendWrite p d =>
    intro q
    by_cases hp : P q
    · exact Or.inl hp
    · exact Or.inr (Or.inl (step_frame env fs fs' _ r hs q (fun e => hp (e ▸ hm))))
  | unlink p =>
    intro q
    by_cases hp : P q
    · exact Or.inl hp
    · exact Or.inr (Or.inl (step_frame env fs fs' _ r hs q (fun e => hp (e ▸ hm))))
  | rename s d =>
    intro q
    by_cases hp : P q
    · exact Or.inl hp
    · refine Or.inr (Or.inl (step_frame env fs fs' _ r hs q ?_))
      rintro (e | e)
      · exact hp (e ▸ hm.1)
      · exact hp (e ▸ hm.2)
  | readFile p => exact fun q => Or.inr (Or.inl (step_frame env fs fs' _ r hs q (fun e => e)))
  | existsF p => exact fun q => Or.inr (Or.inl (step_frame env fs fs' _ r hs q (fun e => e)))
  | sizeOf p => exact fun q => Or.inr (Or.inl (step_frame env fs fs' _ r hs q (fun e => e)))
  | walk p => exact fun q => Or.inr (Or.inl (step_frame env fs fs' _ r hs q (fun e => e)))
  | readDir p => exact fun q => Or.inr (Or.inl (step_frame env fs fs' _ r hs q (fun e => e)))
  | now => exact fun q => Or.inr (Or.inl (step_frame env fs fs' _ r hs q (fun e => e)))
  | hardLink s d => exact hm.elim
  | symlink t p => exact hm.elim
  | copyFile s d => exact hm.elim
  | reflink s d => exact hm.elim
  | removeTree p => exact hm.elim
  | isLink p => exact fun q => Or.inr (Or.inl (step_frame env fs fs' _ r hs q (fun e => e)))
  | sameFile p t => exact fun q => Or.inr (Or.inl (step_frame env fs fs' _ r hs q (fun e => e)))
  | mkTempLink dir t => exact hm.elim
  | renameLink s d => exact hm.elim

/-- **A mild call torn by a kill changes the filesystem quietly**: a torn `create_dir_all` leaves
a prefix of the directories, a torn data write a prefix of the data in a `P`-file. -/
theorem mild_torn {P D : Path → Prop} {env : Env} {fs : FS} {c : Call} (t : Nat)
    (hm : Mild P D c) : Quiet P D fs (execTorn env fs t c) := by
  cases c with
  | mkdirP d =>
    simp only [execTorn]
    split
    · rename_i fs1 hm1; exact quiet_mkdirLevels hm hm1
    · exact Quiet.refl _
  | writeAt p off d => exact mild_step (c := .writeAt p off (d.take t)) hm .ok
  | appendWrite p d => exact mild_step (c := .appendWrite p (d.take t)) hm .ok
  | copyFile s d => exact hm.elim
  | removeTree p => exact hm.elim
  | _ => exact Quiet.refl _

/-- A program all of whose possible calls are mild changes the filesystem quietly at every kill
point, … -/
theorem mild_crash {α : Type} {P D : Path → Prop} {Ok : α → Prop} {p : Prog α}
    (hp : AllCallsR (Mild P D) Ok p) (env : Env) (fs : FS) (n t : Nat) :
    Quiet P D fs (crash env p fs n t) := by
  induction p generalizing fs n with
  | done a => exact Quiet.refl _
  | sys c k ih =>
    cases n with
    | zero => exact mild_torn t hp.1
    | succ n =>
      rw [crash_sys_succ]
      exact (mild_step hp.1 .ok).trans (ih _ (hp.2 _ (answer_exec env fs c)) _ _)

/-- … in the healthy run, … -/
theorem mild_run {α : Type} {P D : Path → Prop} {Ok : α → Prop} {p : Prog α}
    (hp : AllCallsR (Mild P D) Ok p) (env : Env) (fs : FS) : Quiet P D fs (run env p fs).2.1 := by
  induction p generalizing fs with
  | done a => exact Quiet.refl _
  | sys c k ih =>
    rw [run_sys_fs]
    exact (mild_step hp.1 .ok).trans (ih _ (hp.2 _ (answer_exec env fs c)) _)

/-- … and under every fault plan. -/
theorem mild_fault {α : Type} {P D : Path → Prop} {Ok : α → Prop} {p : Prog α}
    (hp : AllCallsR (Mild P D) Ok p) (env : Env) (plan : Nat → Option Fault) (fs : FS) (i : Nat) :
    Quiet P D fs (runFault env plan p fs i).2.1 := by
  induction p generalizing fs i with
  | done a => exact Quiet.refl _
  | sys c k ih =>
    simp only [runFault]
    split
    · rename_i f _
      exact (mild_step hp.1 (.fail f.e f.short)).trans (ih _ (hp.2 _ (answer_err _ _)) _ _)
    · exact (mild_step hp.1 .ok).trans (ih _ (hp.2 _ (answer_exec env fs c)) _ _)

/-- A program all of whose possible calls are read-only leaves the filesystem as it is at every
kill point. -/
theorem readOnly_crash {α : Type} {Ok : α → Prop} {p : Prog α} (hp : AllCallsR ReadOnly Ok p)
    (env : Env) (fs : FS) (n t : Nat) : crash env p fs n t = fs := by
  induction p generalizing fs n with
  | done a => rfl
  | sys c k ih =>
    cases n with
    | zero =>
      have h := hp.1
      cases c <;> first | rfl | (simp [ReadOnly, Call.mutating] at h)
    | succ n =>
      rw [crash_sys_succ, ih _ (hp.2 _ (answer_exec env fs c)), exec_readOnly env c hp.1 fs]

/-! ### the programs are mild -/

variable (cfg : Cfg) (cache : Path)

/-- A direct child of `cache/tmp` (a writer's temp file, or one left over by a crashed writer). -/
def IsTmp (q : Path) : Prop := ∃ n, q = (cache ++ [dTmp]) ++ [n]

/-- The directories `create_dir_all(cache/tmp)` may create. -/
def ToTmp (q : Path) : Prop := q <+: cache ++ [dTmp]

syntax "mild_leaf" : tactic
macro_rules
  | `(tactic| mild_leaf) => `(tactic| first
      | exact trivial
      | exact fun _ h => h
      | exact fun n => ⟨n, rfl⟩
      | exact tmp_of_answer (by assumption)
      | assumption
      | rfl
      | exact ⟨by assumption, by assumption⟩)

/-- Opening a writer: directories towards `cache/tmp`, then file operations on the temp file. -/
theorem wopen_mild (fl : Flavour) (key : Option Bytes) (o : WriteOpts) :
    AllCalls (Mild (IsTmp cache) (ToTmp cache)) (wopen cfg fl cache key o) := by
  unfold wopen dropTmp
  repeat' ac_step
  all_goals mild_leaf

theorem dropTmp_mild (tmp : Path) (h : IsTmp cache tmp) :
    AllCalls (Mild (IsTmp cache) (ToTmp cache)) (dropTmp tmp) := by
  unfold dropTmp
  repeat' ac_step
  all_goals mild_leaf

theorem Writer.Ok.isTmp {w : Writer} (h : w.Ok) : IsTmp w.cache w.tmp := h

theorem wwriteAll_mild (w : Writer) (ds : List Bytes) (hw : w.Ok) :
    AllCallsR (Mild (IsTmp w.cache) (ToTmp w.cache)) (fun r => ∀ w', r = .ok w' → w.Same w')
      (wwriteAll w ds) := by
  induction ds generalizing w with
  | nil => unfold wwriteAll; intro w' h; cases h; exact ⟨rfl, rfl, rfl⟩
  | cons d ds ih =>
    unfold wwriteAll
    split
    · exact ih w hw
    · simp only [bind_eq, pure_eq]
      have h1 : AllCallsR (Mild (IsTmp w.cache) (ToTmp w.cache)) (fun r => ∀ w' n, r = .ok (w', n) → w.Same w')
          (wwrite w d) := by
        have ht : IsTmp w.cache w.tmp := hw
        unfold wwrite plainWrite
        repeat' ac_step
        all_goals first
          | mild_leaf
          | (intro w' n h; cases h; exact ⟨rfl, rfl, rfl⟩)
          | (intro w' n h; cases h)
      apply AllCallsR.bind h1
      intro r hr
      split
      · intro w' h; cases h
      · rename_i w1 n
        have hs := hr w1 n rfl
        have := ih w1 (hs.ok hw)
        rw [hs.1] at this
        refine this.mono (fun _ h => h) ?_
        intro a ha w' hw'
        have := ha w' hw'
        exact ⟨this.1.trans hs.1, this.2.1.trans hs.2.1, this.2.2.trans hs.2.2⟩

/-- The bucket of `key`, and the directories `create_dir_all` of its parent may create. -/
def IsBucket (key : Bytes) (q : Path) : Prop := q = bucketPath cfg cache key
def ToBucket (key : Bytes) (q : Path) : Prop := q <+: FS.parent (bucketPath cfg cache key)

/-- An index insertion: directories towards the bucket, then the bucket file. -/
theorem insert_mild (key : Bytes) (o : WriteOpts) :
    AllCalls (Mild (IsBucket cfg cache key) (ToBucket cfg cache key)) (insert cfg cache key o) := by
  unfold insert getTime appendRec
  repeat' ac_step
  all_goals mild_leaf

theorem delete_mild (key : Bytes) :
    AllCalls (Mild (IsBucket cfg cache key) (ToBucket cfg cache key)) (delete cfg cache key) := by
  unfold delete
  simp only [bind_eq, pure_eq]
  apply AllCallsR.bind (insert_mild cfg cache key {})
  intro r _
  split <;> trivial

/-! ### quiet changes keep the cache healthy -/

/-- The directory paths of the cache: the ancestors of `cache/tmp`, of the content addresses and of
the buckets (the paths both health invariants want absent or directories). -/
def DirPath (q : Path) : Prop :=
  q <+: cache ++ [dTmp] ∨ (∃ a h, q <+: FS.parent (addrPath cache a h)) ∨
    ∃ k, q <+: FS.parent (bucketPath cfg cache k)

theorem dirPath_not_tmp {q : Path} (h : DirPath cfg cache q) : ¬ IsTmp cache q := by
  rintro ⟨n, rfl⟩
  rcases h with h | ⟨a, hx, h⟩ | ⟨k, h⟩
  · exact tmp_not_prefix_tmpDir cache n h
  · exact tmp_not_prefix_parent_addr cache n a hx h
  · exact tmp_not_prefix_parent_bucket cfg cache n k h

theorem dirPath_ne_addr {q : Path} (h : DirPath cfg cache q) (a : Algo) (hx : Bytes) :
    q ≠ addrPath cache a hx := by
  rintro rfl
  rcases h with h | ⟨a', hx', h⟩ | ⟨k, h⟩
  · exact addr_not_prefix_tmpDir cache a hx h
  · exact addr_not_prefix_parent cache a a' hx hx' h
  · exact addr_not_prefix_parent_bucket cfg cache a hx k h

theorem dirPath_ne_bucket {q : Path} (h : DirPath cfg cache q) (k : Bytes) :
    q ≠ bucketPath cfg cache k := by
  rintro rfl
  rcases h with h | ⟨a', hx', h⟩ | ⟨k', h⟩
  · exact bucket_not_prefix_tmpDir cfg cache k h
  · exact bucket_not_prefix_parent_addr cfg cache k a' hx' h
  · exact Refine.bucket_not_prefix_parent cfg cache k' k h

theorem toTmp_dirPath {q : Path} (h : ToTmp cache q) : DirPath cfg cache q := Or.inl h

theorem toBucket_dirPath {key : Bytes} {q : Path} (h : ToBucket cfg cache key q) : DirPath cfg cache q :=
  Or.inr (Or.inr ⟨key, h⟩)

theorem isTmp_ne_addr {q : Path} (h : IsTmp cache q) (a : Algo) (hx : Bytes) : q ≠ addrPath cache a hx := by
  obtain ⟨n, rfl⟩ := h; exact tmp_ne_addr cache n a hx

theorem isTmp_ne_bucket {q : Path} (h : IsTmp cache q) (k : Bytes) : q ≠ bucketPath cfg cache k := by
  obtain ⟨n, rfl⟩ := h; exact (bucket_ne_tmp cfg cache k n).symm

/-- **A quiet change keeps the cache healthy** provided its `D`-paths are directory paths of the
cache, its `P`-paths are not, every content address among the `P`-paths is absent or a regular
file holding bytes of that address, and every bucket among the `P`-paths is absent or a regular
file with settled bytes.  Nothing is asked of the other `P`-paths (left-over temp files). -/
theorem quiet_healthy {P D : Path → Prop} {fs s : FS} (h : Healthy cfg cache fs) (hq : Quiet P D fs s)
    (hD : ∀ q, D q → DirPath cfg cache q) (hPd : ∀ q, P q → ¬ DirPath cfg cache q)
    (hA : ∀ a hx, 4 ≤ hx.length → P (addrPath cache a hx) →
      s.get (addrPath cache a hx) = none ∨
        ∃ b, s.get (addrPath cache a hx) = some (.file b) ∧ hx = Bytes.hex (cfg.H a b))
    (hB : ∀ k, P (bucketPath cfg cache k) →
      s.get (bucketPath cfg cache k) = none ∨
        ∃ b, s.get (bucketPath cfg cache k) = some (.file b) ∧ (codec cfg).Settled b) :
    Healthy cfg cache s := by
  have nd : ∀ q, DirPath cfg cache q → NoneOrDir fs q → NoneOrDir s q := by
    intro q hdq hn
    rcases hq q with p | e | ⟨_, d, _⟩
    · exact absurd hdq (hPd q p)
    · unfold NoneOrDir; rw [e]; exact hn
    · exact Or.inr d
  have keepA : ∀ a hx, ¬ P (addrPath cache a hx) → s.get (addrPath cache a hx) = fs.get (addrPath cache a hx) :=
    fun a hx hp => hq.keep hp (fun d => dirPath_ne_addr cfg cache (hD _ d) a hx rfl)
  have keepB : ∀ k, ¬ P (bucketPath cfg cache k) → s.get (bucketPath cfg cache k) = fs.get (bucketPath cfg cache k) :=
    fun k hp => hq.keep hp (fun d => dirPath_ne_bucket cfg cache (hD _ d) k rfl)
  refine ⟨⟨?_, ?_⟩, ⟨?_, ?_, ?_, ?_⟩⟩
  · intro key q _ hp
    exact nd q (Or.inr (Or.inr ⟨key, hp⟩)) (h.index.dirs key q ‹_› hp)
  · intro k
    by_cases hp : P (bucketPath cfg cache k)
    · exact hB k hp
    · rw [keepB k hp]; exact h.index.buckets k
  · intro a hx b hl hg
    by_cases hp : P (addrPath cache a hx)
    · rcases hA a hx hl hp with h0 | ⟨b', h0, h1⟩
      · rw [h0] at hg; cases hg
      · rw [h0] at hg; cases hg; exact h1
    · rw [keepA a hx hp] at hg; exact h.store.valid a hx b hl hg
  · intro q hne hp
    exact nd q (Or.inl hp) (h.store.tmpDirs q hne hp)
  · intro a hx q hl hne hp
    exact nd q (Or.inr (Or.inl ⟨a, hx, hp⟩)) (h.store.dirs a hx q hl hne hp)
  · intro a hx hl
    by_cases hp : P (addrPath cache a hx)
    · rcases hA a hx hl hp with h0 | ⟨b', h0, _⟩
      · exact Or.inl h0
      · exact Or.inr ⟨b', h0⟩
    · rw [keepA a hx hp]; exact h.store.files a hx hl

/-- A quiet change that leaves every content address alone keeps the abstract store. -/
theorem quiet_absStore {P D : Path → Prop} {fs s : FS} (hq : Quiet P D fs s)
    (hD : ∀ q, D q → DirPath cfg cache q) (hP : ∀ a hx, ¬ P (addrPath cache a hx)) :
    absStore cache s = absStore cache fs := by
  funext a hx
  unfold absStore
  rw [hq.keep (hP a hx) (fun d => dirPath_ne_addr cfg cache (hD _ d) a hx rfl)]

/-- A quiet change that leaves every bucket alone keeps the abstract index. -/
theorem quiet_absIndex {P D : Path → Prop} {fs s : FS} (hq : Quiet P D fs s)
    (hD : ∀ q, D q → DirPath cfg cache q) (hP : ∀ k, ¬ P (bucketPath cfg cache k)) :
    absIndex cfg cache s = absIndex cfg cache fs := by
  funext k
  unfold absIndex
  rw [hq.keep (hP k) (fun d => dirPath_ne_bucket cfg cache (hD _ d) k rfl)]

/-- **Left-over temp files and torn directories are harmless**: a change confined to the children
of `cache/tmp` and to new directories on directory paths keeps the cache healthy and its abstract
state unchanged.  (Neither invariant constrains the children of `cache/tmp`; a later `mkTemp`
picks the name `#next` from the counter — which a completed `mkTemp` has advanced, a torn one has
not, in which case it has not created a file either — and `exec … (.mkTemp dir)` overwrites
whatever might be there.) -/
theorem tmpOnly_healthy {D : Path → Prop} {fs s : FS} (h : Healthy cfg cache fs)
    (hq : Quiet (IsTmp cache) D fs s) (hD : ∀ q, D q → DirPath cfg cache q) :
    Healthy cfg cache s ∧ absCache cfg cache s = absCache cfg cache fs := by
  refine ⟨quiet_healthy cfg cache h hq hD (fun q p d => dirPath_not_tmp cfg cache d p) ?_ ?_, ?_⟩
  · intro a hx _ p; exact absurd rfl (isTmp_ne_addr cache p a hx)
  · intro k p; exact absurd rfl (isTmp_ne_bucket cfg cache p k)
  · unfold absCache
    rw [quiet_absStore cfg cache hq hD (fun a hx p => isTmp_ne_addr cache p a hx rfl),
      quiet_absIndex cfg cache hq hD (fun k p => isTmp_ne_bucket cfg cache p k rfl)]

/-! ### a torn append leaves a settled bucket -/

/-- **A settled bucket followed by any prefix of a well-formed frame is settled**: the prefix is
empty (nothing appended), the whole frame (`settled_frame`), or `"\n"` followed by a strict prefix
of the record line — which holds no newline and no carriage return and does not decode
(`TornLaws.prefix_none`), terminated or not. -/
theorem settled_torn {R M : Type} {W : R → Prop} (c : Codec R M) (L : c.TornLaws W) (b0 : Bytes)
    (hs : c.Settled b0) (r : R) (hr : W r) (k : Nat) : c.Settled (b0 ++ (c.frame r).take k) := by
  cases k with
  | zero => simpa using hs
  | succ k =>
    have hfr : (c.frame r).take (k + 1) = NL :: (c.enc r).take k := by simp [Codec.frame]
    have hp : (c.enc r).take k <+: c.enc r := List.take_prefix _ _
    by_cases hfull : (c.enc r).take k = c.enc r
    · rw [hfr, hfull]
      exact L.toLaws.settled_frame b0 r hr
    · unfold Codec.Settled
      rw [hfr, c.entries_append_nl, c.entriesT_append_nl]
      congr 1
      have hnl := C04.no_nl_prefix c L r hr _ hp
      have h1 : c.entries ((c.enc r).take k) = [] := by
        unfold Codec.entries
        rw [lines_no_nl _ _ hnl]
        unfold lineU
        split
        · simp
        · split
          · simp [Codec.decLine, L.prefix_none r hr _ hp hfull]
          · simp [Codec.decLine]
      have h2 : c.entriesT ((c.enc r).take k) = [] := by
        unfold Codec.entriesT
        rw [splitNL_no_nl _ hnl]
        simp only [linesT, List.map_cons, List.map_nil, lineT]
        split
        · simp [Codec.decLine, C04.stripCR_prefix c L r hr _ hp, L.prefix_none r hr _ hp hfull]
        · simp [Codec.decLine]
      rw [h1, h2]

/-! ### index insertion / removal interrupted -/

/-- The entry an insertion with options `o` records when its time stamp is `tm`
(`Refine.insEntry env key o` is the instance `tm = Refine.stamp env o`). -/
def entryAt (key : Bytes) (o : WriteOpts) (tm : Nat) : Option Meta :=
  o.sri.map (fun s => { key := key, sri := s, time := tm, size := o.size.getD 0, metadata := o.metadata.getD .null, raw := o.raw })

theorem insEntry_eq_entryAt (env : Env) (key : Bytes) (o : WriteOpts) :
    insEntry env key o = entryAt key o (stamp env o) := rfl

/-- An admissible time stamp is the stamp of some clock reading. -/
theorem stamp_of_tm (env : Env) (o : WriteOpts) (tm : Nat) (hle : tm ≤ timeMax)
    (htm : ∀ t, o.time = some t → tm = t) : stamp { env with clock := tm } o = tm := by
  unfold stamp
  cases ht : o.time with
  | some t => simp [htm t ht]
  | none =>
    simp only [Option.getD_none]
    exact Nat.mod_eq_of_lt (Nat.lt_succ_of_le hle)

theorem bucketIs_bytesAt {fs : FS} (h : HealthyIndex cfg cache fs) (key : Bytes) :
    BucketIs fs (bucketPath cfg cache key) (bytesAt fs (bucketPath cfg cache key)) := by
  rcases h.buckets key with hn | ⟨b, hb, _⟩
  · have e : bytesAt fs (bucketPath cfg cache key) = [] := by unfold bytesAt; rw [hn]
    rw [e]; exact Or.inr ⟨rfl, hn⟩
  · have e : bytesAt fs (bucketPath cfg cache key) = b := by unfold bytesAt; rw [hb]
    rw [e]; exact Or.inl hb

/-- The abstract index after an insertion whose time stamp was `tm`. -/
def insIndex (m : AbsIndex) (key : Bytes) (o : WriteOpts) (tm : Nat) : AbsIndex :=
  fun k => if k = key then entryAt key o tm else m k

/-- **Semantic core** (no program): from a healthy cache, a state that differs quietly — only the
key's bucket and new directories towards it — and whose bucket is the old bytes plus a prefix of
the one new frame (`Growing`, the C04 crash invariant) is healthy, holds the same content, and its
index is the old one or the new one — for ALL keys at once (keys sharing the bucket included). -/
theorem insert_sem_core {fs s : FS} (h : Healthy cfg cache fs) (key : Bytes) (o : WriteOpts)
    (hw : OptsWF key o) (hs : SriOK cfg o)
    (hq : Quiet (IsBucket cfg cache key) (ToBucket cfg cache key) fs s)
    (hg : Growing cfg cache key o (bytesAt fs (bucketPath cfg cache key)) s) :
    Healthy cfg cache s ∧ absStore cache s = absStore cache fs ∧
    (absIndex cfg cache s = absIndex cfg cache fs ∨
      ∃ tm, tm ≤ timeMax ∧ (∀ t, o.time = some t → tm = t) ∧
        absIndex cfg cache s = insIndex (absIndex cfg cache fs) key o tm) := by
  obtain ⟨tm, k, hb, htm, hle⟩ := hg
  have hle' : tm ≤ timeMax := hle hw.time
  have hwf : (mkRec key o tm).WF := mkRec_wf key o tm hw hle'
  have hs0 : (codec cfg).Settled (bytesAt fs (bucketPath cfg cache key)) := h.index.settled key
  have hset := settled_torn (codec cfg) (codec_tornLaws cfg) _ hs0 _ hwf k
  have hD : ∀ q, ToBucket cfg cache key q → DirPath cfg cache q := fun q d => toBucket_dirPath cfg cache d
  have hH : Healthy cfg cache s := by
    refine quiet_healthy cfg cache h hq hD ?_ ?_ ?_
    · intro q p d; exact dirPath_ne_bucket cfg cache d key p
    · intro a hx _ p; exact absurd p.symm (bucket_ne_addr cfg cache key a hx)
    · intro k' p
      rw [p]
      rcases hb with hf | ⟨_, hn⟩
      · exact Or.inr ⟨_, hf, hset⟩
      · exact Or.inl hn
  refine ⟨hH, ?_, ?_⟩
  · exact quiet_absStore cfg cache hq hD (fun a hx p => bucket_ne_addr cfg cache key a hx p.symm)
  · have hfind : ∀ k', bucketPath cfg cache k' = bucketPath cfg cache key →
        absIndex cfg cache s k' = (codec cfg).find
          (bytesAt fs (bucketPath cfg cache key) ++ ((codec cfg).frame (mkRec key o tm)).take k) k' := by
      intro k' e
      unfold absIndex
      rw [e]
      rcases hb with hf | ⟨he, hn⟩
      · rw [hf]
      · rw [hn, he]; rfl
    have hold : ∀ k', bucketPath cfg cache k' = bucketPath cfg cache key →
        absIndex cfg cache fs k' = (codec cfg).find (bytesAt fs (bucketPath cfg cache key)) k' := by
      intro k' e
      rw [absIndex_eq_find cfg cache h.index k', e]
    have hoth : ∀ k', bucketPath cfg cache k' ≠ bucketPath cfg cache key →
        absIndex cfg cache s k' = absIndex cfg cache fs k' := by
      intro k' e
      unfold absIndex
      rw [hq.keep e (fun d => dirPath_ne_bucket cfg cache (hD _ d) k' rfl)]
    rcases C04.torn_entries (codec cfg) (codec_tornLaws cfg) _ hs0 _ hwf k with he | he
    · left
      funext k'
      by_cases e : bucketPath cfg cache k' = bucketPath cfg cache key
      · rw [hfind k' e, hold k' e]; unfold Codec.find; rw [he]
      · exact hoth k' e
    · right
      refine ⟨tm, hle', htm, ?_⟩
      funext k'
      unfold insIndex
      by_cases e : bucketPath cfg cache k' = bucketPath cfg cache key
      · rw [hfind k' e, hold k' e]
        unfold Codec.find
        rw [he, Codec.findIn_append]
        simp only [List.foldl_cons, List.foldl_nil]
        rw [findStep_mkRec cfg key o tm hs k']
        rfl
      · have hk : k' ≠ key := fun x => e (by rw [x])
        rw [if_neg hk]
        exact hoth k' e

/-- **`insert`, killed anywhere** (statements 1 + 2): on entry to any call `n`, that call torn at
any `t` — a torn `create_dir_all` of the bucket's directory, a torn append of the record — the
cache is healthy, the content store is as before, and the index is the old one or the new one
(for the caller's time stamp, else some `u128` clock reading). -/
theorem insert_crash_sem (env : Env) (key : Bytes) (o : WriteOpts) (fs : FS) (h : Healthy cfg cache fs)
    (hw : OptsWF key o) (hs : SriOK cfg o) (n t : Nat) :
    Healthy cfg cache (crash env (insert cfg cache key o) fs n t) ∧
    absStore cache (crash env (insert cfg cache key o) fs n t) = absStore cache fs ∧
    (absIndex cfg cache (crash env (insert cfg cache key o) fs n t) = absIndex cfg cache fs ∨
      ∃ tm, tm ≤ timeMax ∧ (∀ t, o.time = some t → tm = t) ∧
        absIndex cfg cache (crash env (insert cfg cache key o) fs n t) =
          insIndex (absIndex cfg cache fs) key o tm) :=
  insert_sem_core cfg cache h key o hw hs (mild_crash (insert_mild cfg cache key o) env fs n t)
    (wpD_crash (insert_bucket_wp cfg env cache key o _ (bucketIs_bytesAt cfg cache h.index key)) n t)

/-- **`insert` under any fault plan** (statement 4 for the index): any calls failing with any
error, the append failing after any partial write — the operation may answer an error, but the
cache it leaves is healthy, the store as before, the index old or new. -/
theorem insert_fault_sem (env : Env) (key : Bytes) (o : WriteOpts) (fs : FS) (h : Healthy cfg cache fs)
    (hw : OptsWF key o) (hs : SriOK cfg o) (plan : Nat → Option Fault) :
    Healthy cfg cache (runFault env plan (insert cfg cache key o) fs 0).2.1 ∧
    absStore cache (runFault env plan (insert cfg cache key o) fs 0).2.1 = absStore cache fs ∧
    (absIndex cfg cache (runFault env plan (insert cfg cache key o) fs 0).2.1 = absIndex cfg cache fs ∨
      ∃ tm, tm ≤ timeMax ∧ (∀ t, o.time = some t → tm = t) ∧
        absIndex cfg cache (runFault env plan (insert cfg cache key o) fs 0).2.1 =
          insIndex (absIndex cfg cache fs) key o tm) :=
  insert_sem_core cfg cache h key o hw hs (mild_fault (insert_mild cfg cache key o) env plan fs 0)
    (wpD_fault (insert_bucket_wp cfg env cache key o _ (bucketIs_bytesAt cfg cache h.index key)) plan 0).1

/-- The abstract index after a removal. -/
def delIndex (m : AbsIndex) (key : Bytes) : AbsIndex := fun k => if k = key then none else m k

theorem insIndex_default (m : AbsIndex) (key : Bytes) (tm : Nat) : insIndex m key {} tm = delIndex m key := rfl

/-- **`delete` (= `remove`), killed anywhere**: healthy, store as before, index old or new. -/
theorem delete_crash_sem (env : Env) (key : Bytes) (fs : FS) (h : Healthy cfg cache fs)
    (hk : utf8Valid key = true) (n t : Nat) :
    Healthy cfg cache (crash env (delete cfg cache key) fs n t) ∧
    absStore cache (crash env (delete cfg cache key) fs n t) = absStore cache fs ∧
    (absIndex cfg cache (crash env (delete cfg cache key) fs n t) = absIndex cfg cache fs ∨
      absIndex cfg cache (crash env (delete cfg cache key) fs n t) = delIndex (absIndex cfg cache fs) key) := by
  have hcore := insert_sem_core cfg cache h key {} (optsWF_default hk) (sriOK_default cfg)
    (mild_crash (delete_mild cfg cache key) env fs n t)
    (wpD_crash (C04.delete_bucket_wp cfg env cache key _ (bucketIs_bytesAt cfg cache h.index key)) n t)
  obtain ⟨h1, h2, h3⟩ := hcore
  refine ⟨h1, h2, ?_⟩
  rcases h3 with h3 | ⟨tm, _, _, h3⟩
  · exact Or.inl h3
  · exact Or.inr h3

theorem delete_fault_sem (env : Env) (key : Bytes) (fs : FS) (h : Healthy cfg cache fs)
    (hk : utf8Valid key = true) (plan : Nat → Option Fault) :
    Healthy cfg cache (runFault env plan (delete cfg cache key) fs 0).2.1 ∧
    absStore cache (runFault env plan (delete cfg cache key) fs 0).2.1 = absStore cache fs ∧
    (absIndex cfg cache (runFault env plan (delete cfg cache key) fs 0).2.1 = absIndex cfg cache fs ∨
      absIndex cfg cache (runFault env plan (delete cfg cache key) fs 0).2.1 =
        delIndex (absIndex cfg cache fs) key) := by
  have hcore := insert_sem_core cfg cache h key {} (optsWF_default hk) (sriOK_default cfg)
    (mild_fault (delete_mild cfg cache key) env plan fs 0)
    (wpD_fault (C04.delete_bucket_wp cfg env cache key _ (bucketIs_bytesAt cfg cache h.index key)) plan 0).1
  obtain ⟨h1, h2, h3⟩ := hcore
  refine ⟨h1, h2, ?_⟩
  rcases h3 with h3 | ⟨tm, _, _, h3⟩
  · exact Or.inl h3
  · exact Or.inr h3

/-! ### the content phase of a write, interrupted -/

/-- The directories `create_dir_all` of an address's parent may create. -/
def ToAddr (a : Algo) (hx : Bytes) (q : Path) : Prop := q <+: FS.parent (addrPath cache a hx)

/-- The directories the content phase of a write of `(a, hx)` may create. -/
def ToTmpOrAddr (a : Algo) (hx : Bytes) (q : Path) : Prop := ToTmp cache q ∨ ToAddr cache a hx q

theorem toTmpOrAddr_dirPath {a : Algo} {hx : Bytes} {q : Path} (h : ToTmpOrAddr cache a hx q) :
    DirPath cfg cache q := by
  rcases h with h | h
  · exact Or.inl h
  · exact Or.inr (Or.inl ⟨a, hx, h⟩)

/-- **Closing a writer, killed anywhere**: the state is a quiet change of the start state (the cut
of the temp file, a torn or complete `create_dir_all` of the address's directory — the publishing
`rename` is atomic and has not happened), or it is the final state of the healthy run (the
`rename` has happened; nothing follows it). -/
theorem wclose_crash (env : Env) (w : Writer) (fs : FS) (hc : w.cache = cache) (hi : WInv w fs)
    (hl : 4 ≤ (Bytes.hex (cfg.H w.algo w.hashed)).length)
    (hd : ∀ q, q ≠ [] → q <+: FS.parent (addrPath cache w.algo (Bytes.hex (cfg.H w.algo w.hashed))) →
      NoneOrDir fs q)
    (hf : fs.get (addrPath cache w.algo (Bytes.hex (cfg.H w.algo w.hashed))) ≠ some .dir) (n t : Nat) :
    Quiet (IsTmp cache) (ToAddr cache w.algo (Bytes.hex (cfg.H w.algo w.hashed))) fs
        (crash env (wclose cfg w) fs n t) ∨
      crash env (wclose cfg w) fs n t = (run env (wclose cfg w) fs).2.1 := by
  obtain ⟨f, hf0, htake, hlen0, hlenS⟩ := hi.file
  obtain ⟨tn, htn⟩ := hi.ok
  rw [hc] at htn
  have htmp : IsTmp cache w.tmp := ⟨tn, htn⟩
  have hlt : ¬ (Bytes.hex (cfg.H w.algo w.hashed)).length < 4 := by omega
  have publish : ∀ fsx, fsx.get w.tmp = some (.file w.hashed) → (∀ q, q ≠ w.tmp → fsx.get q = fs.get q) →
      ∀ n, Quiet (IsTmp cache) (ToAddr cache w.algo (Bytes.hex (cfg.H w.algo w.hashed))) fs
        (crash env 
          (.sys (.mkdirP (FS.parent (addrPath cache w.algo (Bytes.hex (cfg.H w.algo w.hashed)))))
            (fun r => match r with
              | .err e => Prog.bind (dropTmp w.tmp) (fun _ => .done (Except.error (Err.io e)))
              | _ => .sys (.rename w.tmp (addrPath cache w.algo (Bytes.hex (cfg.H w.algo w.hashed))))
                  (fun r => match r with
                    | .err e => Prog.bind (dropTmp w.tmp) (fun _ => .sys (.existsF (addrPath cache w.algo (Bytes.hex (cfg.H w.algo w.hashed)))) (fun r =>
                        match r with
                        | .bool true => .done (Except.ok (Sri.compute cfg.H w.algo w.hashed))
                        | _ => .done (Except.error (Err.io e))))
                    | _ => .done (Except.ok (Sri.compute cfg.H w.algo w.hashed))))) fsx n t) ∨
        crash env 
          (.sys (.mkdirP (FS.parent (addrPath cache w.algo (Bytes.hex (cfg.H w.algo w.hashed)))))
            (fun r => match r with
              | .err e => Prog.bind (dropTmp w.tmp) (fun _ => .done (Except.error (Err.io e)))
              | _ => .sys (.rename w.tmp (addrPath cache w.algo (Bytes.hex (cfg.H w.algo w.hashed))))
                  (fun r => match r with
                    | .err e => Prog.bind (dropTmp w.tmp) (fun _ => .sys (.existsF (addrPath cache w.algo (Bytes.hex (cfg.H w.algo w.hashed)))) (fun r =>
                        match r with
                        | .bool true => .done (Except.ok (Sri.compute cfg.H w.algo w.hashed))
                        | _ => .done (Except.error (Err.io e))))
                    | _ => .done (Except.ok (Sri.compute cfg.H w.algo w.hashed))))) fsx n t =
        (run env 
          (.sys (.mkdirP (FS.parent (addrPath cache w.algo (Bytes.hex (cfg.H w.algo w.hashed)))))
            (fun r => match r with
              | .err e => Prog.bind (dropTmp w.tmp) (fun _ => .done (Except.error (Err.io e)))
              | _ => .sys (.rename w.tmp (addrPath cache w.algo (Bytes.hex (cfg.H w.algo w.hashed))))
                  (fun r => match r with
                    | .err e => Prog.bind (dropTmp w.tmp) (fun _ => .sys (.existsF (addrPath cache w.algo (Bytes.hex (cfg.H w.algo w.hashed)))) (fun r =>
                        match r with
                        | .bool true => .done (Except.ok (Sri.compute cfg.H w.algo w.hashed))
                        | _ => .done (Except.error (Err.io e))))
                    | _ => .done (Except.ok (Sri.compute cfg.H w.algo w.hashed))))) fsx).2.1 := by
    intro fsx hgx hsame n
    have hqx : Quiet (IsTmp cache) (ToAddr cache w.algo (Bytes.hex (cfg.H w.algo w.hashed))) fs fsx := by
      intro q
      by_cases e : q = w.tmp
      · left; rw [e]; exact htmp
      · right; left; exact hsame q e
    have hta : w.tmp ≠ addrPath cache w.algo (Bytes.hex (cfg.H w.algo w.hashed)) := by
      rw [htn]; exact tmp_ne_addr cache tn _ _
    have hdx : ∀ q, q ≠ [] → q <+: FS.parent (addrPath cache w.algo (Bytes.hex (cfg.H w.algo w.hashed))) →
        NoneOrDir fsx q := by
      intro q hq hp
      have : q ≠ w.tmp := by
        intro e; rw [e, htn] at hp; exact tmp_not_prefix_parent_addr cache tn _ _ hp
      unfold NoneOrDir; rw [hsame q this]; exact hd q hq hp
    obtain ⟨fs1, hm, hdir, hframe, hget⟩ := mkdirP_ok fsx _ (parent_addr_ne_nil cache _ _) hdx
    have h1t : fs1.get w.tmp = some (.file w.hashed) := by
      rcases hget w.tmp with h1 | ⟨h1, _⟩
      · rw [h1]; exact hgx
      · rw [hgx] at h1; cases h1
    have h1a : fs1.get (addrPath cache w.algo (Bytes.hex (cfg.H w.algo w.hashed))) ≠ some .dir := by
      rw [hframe _ (addr_not_prefix_parent cache _ _ _ _), hsame _ hta.symm]; exact hf
    have hren := exec_rename_ok env fs1 w.tmp _ w.hashed h1t (isDir_of_get hdir) h1a
    have hmk : exec env fsx (.mkdirP (FS.parent (addrPath cache w.algo (Bytes.hex (cfg.H w.algo w.hashed))))) =
        (fs1, .unit) := by simp [exec, hm]
    have hstep : Quiet (IsTmp cache) (ToAddr cache w.algo (Bytes.hex (cfg.H w.algo w.hashed))) fsx fs1 := by
      have := mild_step (P := IsTmp cache) (D := ToAddr cache w.algo (Bytes.hex (cfg.H w.algo w.hashed)))
        (c := .mkdirP (FS.parent (addrPath cache w.algo (Bytes.hex (cfg.H w.algo w.hashed))))) (env := env)
        (fs := fsx) (fun _ h => h) .ok
      rw [hmk] at this
      exact this
    cases n with
    | zero =>
      left
      rw [crash_sys_zero]
      exact hqx.trans (mild_torn t (c := .mkdirP _) (fun _ h => h))
    | succ n =>
      cases n with
      | zero =>
        left
        simp only [crash_sys_succ, hmk, crash_sys_zero, execTorn]
        exact hqx.trans hstep
      | succ n =>
        right
        simp only [crash_sys_succ, hmk, hren, crash_done, run_sys_fs, run_done_fs]
  unfold wclose
  dsimp only
  rw [contentPath_compute, hc]
  simp only [hlt, if_false]
  simp only [bind_eq, pure_eq, call, bind_sys, bind_done]
  split
  · rename_i n' hm
    obtain ⟨hfl, hpn⟩ := hlenS n' hm
    split
    · cases n with
      | zero =>
        left
        simp only [bind_sys, crash_sys_zero, execTorn]
        exact Quiet.refl _
      | succ n =>
        simp only [bind_sys, crash_sys_succ, run_sys_fs]
        simp only [exec, hf0]
        apply publish
        · rw [FS.get_put_same, htake]
        · intro q hq; exact FS.get_put_ne _ _ hq
    · rename_i hnl
      simp only [bind_done]
      have : f = w.hashed := by
        have hp : w.pos = n' := by omega
        rw [← htake, hp, ← hfl, List.take_length]
      rw [this] at hf0
      exact publish fs hf0 (fun _ _ => rfl) n
  · rename_i hm
    simp only [bind_done]
    have : f = w.hashed := by rw [← htake, ← hlen0 hm, List.take_length]
    rw [this] at hf0
    exact publish fs hf0 (fun _ _ => rfl) n

/-- Killing `commit`: the cut falls into the publication (`wclose`), right after it, or into the
rest (`commitTail`: declaration checks — no calls — and the index step). -/
theorem crash_wcommit (env : Env) (w : Writer) (fs : FS) (wsri : Integrity)
    (h : (run env (wclose cfg w) fs).1 = .ok wsri) (n t : Nat) :
    crash env (wcommit cfg w) fs n t = crash env (wclose cfg w) fs n t ∨
    crash env (wcommit cfg w) fs n t = (run env (wclose cfg w) fs).2.1 ∨
    ∃ n', crash env (wcommit cfg w) fs n t =
      crash env (commitTail cfg w wsri) (run env (wclose cfg w) fs).2.1 n' t := by
  unfold wcommit
  simp only [bind_eq, pure_eq]
  rw [crash_bind]
  split
  · unfold wcommitCheck
    simp only [bind_eq, pure_eq]
    rw [crash_bind]
    split
    · exact Or.inl rfl
    · right; left
      rw [h]
      simp only
      split <;> rfl
  · right; right
    generalize n - (run env (wcommitCheck cfg w) fs).2.2.length = m
    refine ⟨m, ?_⟩
    unfold wcommitCheck commitTail
    simp only [bind_eq, pure_eq, run_bind_res, run_bind_fs, h]
    cases commitChecks w wsri with
    | error e => rfl
    | ok r => rfl

/-- **The content phase of a streamed write, killed anywhere** (any flavour, keyed or not, any
options, any chunking): with `w`, `fs3` the writer and the state of `run_writeStream_phase` (the
data is published in `fs3`), the state a kill leaves behind is
* a quiet change of the start state — new directories towards `cache/tmp` and the address, the
  writer's (possibly half-written) temp file — in which nothing is published yet, or
* exactly `fs3`, or
* what a kill during the commit tail (declaration checks + index step) started from `fs3` leaves. -/
theorem crash_writeStream_phase (env : Env) (fl : Flavour) (key : Option Bytes) (o : WriteOpts)
    (chunks : List Bytes) (fs : FS) (h : HealthyStore cfg cache fs) (hl : HexLen cfg) :
    ∃ w fs3,
      w.cache = cache ∧ w.key = key ∧ w.opts = o ∧ w.written = chunks.flatten.length ∧
      PutFrame cfg cache fs fs3 (o.algo.getD .sha256) chunks.flatten ∧
      ∀ n t,
        Quiet (IsTmp cache) (ToTmpOrAddr cache (o.algo.getD .sha256)
            (Bytes.hex (cfg.H (o.algo.getD .sha256) chunks.flatten))) fs
          (crash env (writeStream cfg cache fl key o chunks) fs n t) ∨
        crash env (writeStream cfg cache fl key o chunks) fs n t = fs3 ∨
        ∃ n', crash env (writeStream cfg cache fl key o chunks) fs n t =
          crash env (commitTail cfg w (Sri.compute cfg.H (o.algo.getD .sha256) chunks.flatten)) fs3 n' t := by
  obtain ⟨w, r1, c1, k1, o1, wr1, hh1, al1, t1, inv1, fr1⟩ := run_wopen cfg cache env fl key o fs h.tmpDirs
  obtain ⟨w', r2, same2, inv2, hh2, wr2, o2, al2, fr2⟩ := run_wwriteAll env w chunks _ inv1
  have hc' : w'.cache = cache := same2.1.trans c1
  have ht' : w'.tmp = (cache ++ [dTmp]) ++ [tmpName fs.next] := same2.2.1.trans t1
  have hhash : w'.hashed = chunks.flatten := by rw [hh2, hh1]; rfl
  have halg : w'.algo = o.algo.getD .sha256 := al2.trans al1
  have hwr : w'.written = chunks.flatten.length := by rw [wr2, wr1]; simp
  have fr12 : ∀ q, q ≠ (cache ++ [dTmp]) ++ [tmpName fs.next] →
      Grow fs (run env (wwriteAll w chunks) (run env (wopen cfg fl cache key o) fs).2.1).2.1 q (cache ++ [dTmp]) := by
    intro q hq
    have hq' : q ≠ w.tmp := by rw [t1]; exact hq
    have := fr1 q hq'
    unfold Grow at *
    rw [fr2 q hq']
    exact this
  have hlen := hl w'.algo w'.hashed
  have hd2 : ∀ q, q ≠ [] → q <+: FS.parent (addrPath cache w'.algo (Bytes.hex (cfg.H w'.algo w'.hashed))) →
      NoneOrDir (run env (wwriteAll w chunks) (run env (wopen cfg fl cache key o) fs).2.1).2.1 q := by
    intro q hq hp
    have hne : q ≠ (cache ++ [dTmp]) ++ [tmpName fs.next] := by
      intro e; rw [e] at hp; exact tmp_not_prefix_parent_addr cache _ _ _ hp
    rcases fr12 q hne with h1 | ⟨_, h2, _⟩
    · unfold NoneOrDir; rw [h1]; exact h.dirs _ _ q hlen hq hp
    · exact Or.inr h2
  have hf2 : (run env (wwriteAll w chunks) (run env (wopen cfg fl cache key o) fs).2.1).2.1.get
      (addrPath cache w'.algo (Bytes.hex (cfg.H w'.algo w'.hashed))) ≠ some .dir := by
    have hne : addrPath cache w'.algo (Bytes.hex (cfg.H w'.algo w'.hashed)) ≠ (cache ++ [dTmp]) ++ [tmpName fs.next] :=
      (tmp_ne_addr cache _ _ _).symm
    rcases fr12 _ hne with h1 | ⟨_, _, h3⟩
    · rw [h1]
      rcases h.files _ _ hlen with h0 | ⟨b, h0⟩
      · rw [h0]; intro e; cases e
      · rw [h0]; intro e; cases e
    · exact absurd h3 (addr_not_prefix_tmpDir cache _ _)
  obtain ⟨r3, a3, t3, fr3⟩ := run_wclose cfg cache env w' _ hc' inv2 hlen hd2 hf2
  have hcl := wclose_crash cfg cache env w' _ hc' inv2 hlen hd2 hf2
  rw [halg, hhash] at r3 a3 fr3 hcl
  rw [ht'] at t3 fr3
  -- the quiet changes of the first two phases
  have q1 : Quiet (IsTmp cache) (ToTmpOrAddr cache (o.algo.getD .sha256)
      (Bytes.hex (cfg.H (o.algo.getD .sha256) chunks.flatten))) fs (run env (wopen cfg fl cache key o) fs).2.1 :=
    (mild_run (wopen_mild cfg cache fl key o) env fs).mono (fun _ p => p) (fun _ d => Or.inl d)
  have hmw := wwriteAll_mild w chunks inv1.ok
  rw [c1] at hmw
  have q2 : Quiet (IsTmp cache) (ToTmpOrAddr cache (o.algo.getD .sha256)
      (Bytes.hex (cfg.H (o.algo.getD .sha256) chunks.flatten))) fs
      (run env (wwriteAll w chunks) (run env (wopen cfg fl cache key o) fs).2.1).2.1 :=
    q1.trans ((mild_run hmw env _).mono (fun _ p => p) (fun _ d => Or.inl d))
  refine ⟨w', _, hc', same2.2.2.trans k1, o2.trans o1, hwr, ⟨a3, t3, ?_⟩, ?_⟩
  · intro q hq1 hq2
    rcases fr3 q hq1 hq2 with g1 | ⟨g1, g2, g3⟩
    · rcases fr12 q hq1 with f1 | ⟨f1, f2, f3⟩
      · left; rw [g1, f1]
      · right; exact ⟨f1, by rw [g1, f2], Or.inl f3⟩
    · rcases fr12 q hq1 with f1 | ⟨f1, f2, f3⟩
      · right; exact ⟨by rw [← f1]; exact g1, g2, Or.inr g3⟩
      · rw [f2] at g1; cases g1
  · intro n t
    unfold writeStream
    simp only [bind_eq, pure_eq]
    rw [crash_bind]
    split
    · left
      exact (mild_crash (wopen_mild cfg cache fl key o) env fs n t).mono (fun _ p => p) (fun _ d => Or.inl d)
    · rw [r1]
      simp only
      rw [crash_bind]
      split
      · left
        exact q1.trans ((mild_crash hmw env _ _ t).mono (fun _ p => p) (fun _ d => Or.inl d))
      · rw [r2]
        simp only
        rcases crash_wcommit cfg env w' _ _ r3 (n - (run env (wopen cfg fl cache key o) fs).2.2.length -
            (run env (wwriteAll w chunks) (run env (wopen cfg fl cache key o) fs).2.1).2.2.length) t
          with e | e | ⟨n', e⟩
        · rw [e]
          rcases hcl (n - (run env (wopen cfg fl cache key o) fs).2.2.length -
              (run env (wwriteAll w chunks) (run env (wopen cfg fl cache key o) fs).2.1).2.2.length) t with hq | he
          · left
            exact q2.trans (hq.mono (fun _ p => p) (fun _ d => Or.inr d))
          · right; left; exact he
        · right; left; exact e
        · right; right; exact ⟨n', e⟩

/-! ### writes interrupted: by address and keyed -/

/-- The abstract state in which the content of a write is published and its index entry is not
(yet) written: only the store is updated. -/
def publishedOnly (m : AbsCache) (a : Algo) (data : Bytes) : AbsCache :=
  { index := m.index, store := m.store.set a (Bytes.hex (cfg.H a data)) (some data) }

theorem crash_commitTail_unkeyed (env : Env) (w : Writer) (wsri : Integrity) (hk : w.key = none)
    (fs : FS) (n t : Nat) : crash env (commitTail cfg w wsri) fs n t = fs := by
  unfold commitTail
  cases commitChecks w wsri with
  | error e => rfl
  | ok r => simp only [wcommitIndex, hk]; rfl

/-- **A by-address write (`write_hash*`, `open_hash` + writes + commit), killed anywhere**: the
cache is healthy, the index untouched, and the store is the old one or the old one with the data
published under its address. -/
theorem addrPut_crash_sem (env : Env) (fl : Flavour) (o : WriteOpts) (chunks : List Bytes) (fs : FS)
    (h : Healthy cfg cache fs) (hl : HexLen cfg) (n t : Nat) :
    Healthy cfg cache (crash env (writeStream cfg cache fl none o chunks) fs n t) ∧
    (absCache cfg cache (crash env (writeStream cfg cache fl none o chunks) fs n t) = absCache cfg cache fs ∨
     absCache cfg cache (crash env (writeStream cfg cache fl none o chunks) fs n t) =
       publishedOnly cfg (absCache cfg cache fs) (o.algo.getD .sha256) chunks.flatten) := by
  obtain ⟨w, fs3, _, hk, _, _, hp, hcr⟩ := crash_writeStream_phase cfg cache env fl none o chunks fs h.store hl
  obtain ⟨hS3, hA3⟩ := putFrame_store cfg cache h.store hp
  obtain ⟨hI3, hB3⟩ := putFrame_index cfg cache h.index hp
  have h3 : absCache cfg cache fs3 = publishedOnly cfg (absCache cfg cache fs) (o.algo.getD .sha256) chunks.flatten := by
    unfold absCache publishedOnly; rw [hA3, hB3]
  rcases hcr n t with hq | e | ⟨n', e⟩
  · obtain ⟨g1, g2⟩ := tmpOnly_healthy cfg cache h hq (fun q d => toTmpOrAddr_dirPath cfg cache d)
    exact ⟨g1, Or.inl g2⟩
  · rw [e]; exact ⟨⟨hI3, hS3⟩, Or.inr h3⟩
  · rw [e, crash_commitTail_unkeyed cfg env w _ hk]; exact ⟨⟨hI3, hS3⟩, Or.inr h3⟩

/-- **A keyed write (`write*`, `open` + writes + commit), killed anywhere** — on entry to any call
`n`, that call torn at any `t`: a torn `create_dir_all`, a half-written temp file, a torn append of
the index record.  The cache is healthy and its abstract state is
* the old one (nothing visible yet), or
* the old one with only the store updated (content published, entry not yet), or
* the new state of the abstract specification `putSpec`, for the caller's time stamp, else for
  some clock reading (`env'` differs from `env` in the clock only). -/
theorem put_crash_sem (env : Env) (fl : Flavour) (key : Bytes) (o : WriteOpts) (chunks : List Bytes)
    (fs : FS) (h : Healthy cfg cache fs) (hl : HexLen cfg) (hw : PutWF key o chunks) (n t : Nat) :
    Healthy cfg cache (crash env (writeStream cfg cache fl (some key) o chunks) fs n t) ∧
    (absCache cfg cache (crash env (writeStream cfg cache fl (some key) o chunks) fs n t) = absCache cfg cache fs ∨
     absCache cfg cache (crash env (writeStream cfg cache fl (some key) o chunks) fs n t) =
       publishedOnly cfg (absCache cfg cache fs) (o.algo.getD .sha256) chunks.flatten ∨
     ∃ tm, absCache cfg cache (crash env (writeStream cfg cache fl (some key) o chunks) fs n t) =
       (putSpec cfg { env with clock := tm } (absCache cfg cache fs) key o chunks).1) := by
  obtain ⟨w, fs3, hc, hk, ho, hwr, hp, hcr⟩ :=
    crash_writeStream_phase cfg cache env fl (some key) o chunks fs h.store hl
  obtain ⟨hS3, hA3⟩ := putFrame_store cfg cache h.store hp
  obtain ⟨hI3, hB3⟩ := putFrame_index cfg cache h.index hp
  have h3 : absCache cfg cache fs3 = publishedOnly cfg (absCache cfg cache fs) (o.algo.getD .sha256) chunks.flatten := by
    unfold absCache publishedOnly; rw [hA3, hB3]
  rcases hcr n t with hq | e | ⟨n', e⟩
  · obtain ⟨g1, g2⟩ := tmpOnly_healthy cfg cache h hq (fun q d => toTmpOrAddr_dirPath cfg cache d)
    exact ⟨g1, Or.inl g2⟩
  · rw [e]; exact ⟨⟨hI3, hS3⟩, Or.inr (Or.inl h3)⟩
  · rw [e]
    unfold commitTail
    rw [commitChecks_eq, ho, hwr]
    cases hck : declCheck o chunks.flatten.length (Sri.compute cfg.H (o.algo.getD .sha256) chunks.flatten) with
    | error e' => exact ⟨⟨hI3, hS3⟩, Or.inr (Or.inl h3)⟩
    | ok recorded =>
      have hrec : recorded = Sri.compute cfg.H (o.algo.getD .sha256) chunks.flatten :=
        declCheck_ok_none hw.nosri hck
      simp only [wcommitIndex, hk, hc, ho, hwr]
      have hsz : o.size.getD chunks.flatten.length ≤ Rec.u64Max := by
        cases hs : o.size with
        | none => exact hw.len
        | some n => exact hw.opts.size n hs
      have hwf : OptsWF key { o with sri := some recorded, size := some (o.size.getD chunks.flatten.length) } := by
        rw [hrec]
        exact (hw.opts.with_computed cfg.H _ _).with_size _ hsz
      have hsri : SriOK cfg { o with sri := some recorded, size := some (o.size.getD chunks.flatten.length) } :=
        Or.inr ⟨_, _, by rw [hrec]⟩
      obtain ⟨g1, g2, g3⟩ := insert_crash_sem cfg cache env key _ fs3 ⟨hI3, hS3⟩ hwf hsri n' t
      refine ⟨g1, ?_⟩
      rcases g3 with g3 | ⟨tm, hle, htm, g3⟩
      · right; left
        rw [← h3]
        unfold absCache
        rw [g2, g3]
      · right; right
        refine ⟨tm, ?_⟩
        unfold putSpec
        rw [hck]
        unfold absCache
        simp only
        rw [g2, g3, hA3, hB3]
        congr 1
        funext k
        unfold insIndex
        rw [insEntry_eq_entryAt, stamp_of_tm env _ tm hle htm]

/-! ### every operation of the cache, interrupted -/

/-- What a process kill on entry to the `n`-th call of the operation's program, that call torn at
`t`, leaves behind (the programs are those of `cRunOp`). -/
def crashOp (env : Env) : COp → FS → Nat → Nat → FS
  | .put fl key o chunks, fs, n, t => crash env (writeStream cfg cache fl (some key) o chunks) fs n t
  | .get key, fs, n, t => crash env (read cfg cache key) fs n t
  | .index (.ins key o), fs, n, t => crash env (insert cfg cache key o) fs n t
  | .index (.del key), fs, n, t => crash env (delete cfg cache key) fs n t
  | .index (.look key), fs, n, t => crash env (find cfg cache key) fs n t
  | .addr (.put fl o chunks), fs, n, t => crash env (writeStream cfg cache fl none o chunks) fs n t
  | .addr (.get sri), fs, n, t => crash env (readHash cfg cache sri) fs n t
  | .addr (.has sri), fs, n, t => crash env (existsHash cache sri) fs n t
  | .addr (.drop sri), fs, n, t => crash env (removeHash cache sri) fs n t

/-- **Old or new, abstractly.**  The abstract states a kill during `op`, started in the abstract
state `m`, may leave: the old state `m`; the new state of the specification `cSpecStep` (for some
reading of the clock — only the time stamp of a new index entry depends on it); and for a keyed
write also the state in which the content is published and the entry not yet written. -/
def Admissible (m : AbsCache) (op : COp) (m' : AbsCache) : Prop :=
  m' = m ∨ (∃ env', m' = (cSpecStep cfg env' m op).1) ∨
    match op with
    | .put _ _ o chunks => m' = publishedOnly cfg m (o.algo.getD .sha256) chunks.flatten
    | _ => False

/-- `remove_hash` is one atomic `unlink`: a kill leaves the start state or the final state. -/
theorem removeHash_crash (env : Env) (sri : Integrity) (fs : FS) (n t : Nat) :
    crash env (removeHash cache sri) fs n t = fs ∨
    crash env (removeHash cache sri) fs n t = (run env (removeHash cache sri) fs).2.1 := by
  unfold removeHash
  cases contentPath cache sri with
  | none => exact Or.inl rfl
  | some cpath =>
    simp only [bind_eq, pure_eq, call, bind_sys, bind_done]
    cases n with
    | zero => exact Or.inl rfl
    | succ n =>
      right
      rw [crash_sys_succ, run_sys_fs]
      cases (exec env fs (Call.unlink cpath)).2 <;> rfl

/-- **Statements 1 + 2 for every operation** (`op.WF` as in `cache_refines_map`): a kill at any
`(n, t)` leaves a healthy cache in an admissible abstract state. -/
theorem crashOp_admissible (env : Env) (op : COp) (fs : FS) (h : Healthy cfg cache fs) (hl : HexLen cfg)
    (hop : op.WF cfg) (n t : Nat) :
    Healthy cfg cache (crashOp cfg cache env op fs n t) ∧
    Admissible cfg (absCache cfg cache fs) op (absCache cfg cache (crashOp cfg cache env op fs n t)) := by
  cases op with
  | put fl key o chunks =>
    obtain ⟨g1, g2⟩ := put_crash_sem cfg cache env fl key o chunks fs h hl hop n t
    refine ⟨g1, ?_⟩
    rcases g2 with g2 | g2 | ⟨tm, g2⟩
    · exact Or.inl g2
    · exact Or.inr (Or.inr g2)
    · exact Or.inr (Or.inl ⟨_, g2⟩)
  | get key =>
    have e : crashOp cfg cache env (.get key) fs n t = fs := readOnly_crash (read_ro cfg cache key) env fs n t
    rw [e]; exact ⟨h, Or.inl rfl⟩
  | index iop =>
    cases iop with
    | ins key o =>
      obtain ⟨g1, g2, g3⟩ := insert_crash_sem cfg cache env key o fs h hop.1 hop.2 n t
      refine ⟨g1, ?_⟩
      rcases g3 with g3 | ⟨tm, hle, htm, g3⟩
      · left
        show absCache cfg cache (crash env (insert cfg cache key o) fs n t) = _
        unfold absCache; rw [g2, g3]
      · right; left
        refine ⟨{ env with clock := tm }, ?_⟩
        show absCache cfg cache (crash env (insert cfg cache key o) fs n t) = _
        unfold absCache
        simp only [cSpecStep, specStep]
        rw [g2, g3]
        congr 1
        funext k
        unfold insIndex
        rw [insEntry_eq_entryAt, stamp_of_tm env _ tm hle htm]
    | del key =>
      obtain ⟨g1, g2, g3⟩ := delete_crash_sem cfg cache env key fs h hop n t
      refine ⟨g1, ?_⟩
      rcases g3 with g3 | g3
      · left
        show absCache cfg cache (crash env (delete cfg cache key) fs n t) = _
        unfold absCache; rw [g2, g3]
      · right; left
        refine ⟨env, ?_⟩
        show absCache cfg cache (crash env (delete cfg cache key) fs n t) = _
        unfold absCache
        simp only [cSpecStep, specStep]
        rw [g2, g3]
        rfl
    | look key =>
      have e : crashOp cfg cache env (.index (.look key)) fs n t = fs :=
        readOnly_crash (find_ro cfg cache key) env fs n t
      rw [e]; exact ⟨h, Or.inl rfl⟩
  | addr sop =>
    cases sop with
    | put fl o chunks =>
      obtain ⟨g1, g2⟩ := addrPut_crash_sem cfg cache env fl o chunks fs h hl n t
      refine ⟨g1, ?_⟩
      rcases g2 with g2 | g2
      · exact Or.inl g2
      · exact Or.inr (Or.inl ⟨env, g2⟩)
    | get sri =>
      have e : crashOp cfg cache env (.addr (.get sri)) fs n t = fs :=
        readOnly_crash (readHash_ro cfg cache sri) env fs n t
      rw [e]; exact ⟨h, Or.inl rfl⟩
    | has sri =>
      have e : crashOp cfg cache env (.addr (.has sri)) fs n t = fs :=
        readOnly_crash (existsHash_ro cache sri) env fs n t
      rw [e]; exact ⟨h, Or.inl rfl⟩
    | drop sri =>
      rcases removeHash_crash cache env sri fs n t with e | e
      · have e' : crashOp cfg cache env (.addr (.drop sri)) fs n t = fs := e
        rw [e']; exact ⟨h, Or.inl rfl⟩
      · have e' : crashOp cfg cache env (.addr (.drop sri)) fs n t =
            (cRunOp cfg cache env (.addr (.drop sri)) fs).2 := e
        obtain ⟨_, g2, g3⟩ := cRunOp_refines cfg cache env (.addr (.drop sri)) fs h hl trivial
        rw [e']
        exact ⟨g3, Or.inr (Or.inl ⟨env, g2⟩)⟩

/-- **Statement 2, the consequence**: whatever the kill point, every key other than the
operation's key maps as before, and every address the operation cannot touch holds what it held. -/
theorem admissible_untouched {m m' : AbsCache} {op : COp} (h : Admissible cfg m op m') :
    (∀ key', ¬ op.writesKey key' → m'.index key' = m.index key') ∧
    (∀ a hx, ¬ op.touchesAddr cfg a hx → m'.store a hx = m.store a hx) := by
  rcases h with rfl | ⟨env', rfl⟩ | h
  · exact ⟨fun _ _ => rfl, fun _ _ _ => rfl⟩
  · exact ⟨fun key' hk => cSpecStep_index_untouched cfg env' m op key' hk,
      fun a hx ht => cSpecStep_store_untouched cfg env' m op a hx ht⟩
  · cases op with
    | put fl key o chunks =>
      simp only at h
      subst h
      refine ⟨fun _ _ => rfl, fun a hx ht => ?_⟩
      exact AbsStore.set_other _ _ (fun e => ht ⟨e.1.symm, e.2.symm⟩)
    | get key => exact h.elim
    | index iop => exact h.elim
    | addr sop => exact h.elim

/-- … on the filesystem: after a kill during `op`, every other key and every other address answer
the abstraction exactly as before. -/
theorem crashOp_untouched (env : Env) (op : COp) (fs : FS) (h : Healthy cfg cache fs) (hl : HexLen cfg)
    (hop : op.WF cfg) (n t : Nat) :
    (∀ key', ¬ op.writesKey key' →
      absIndex cfg cache (crashOp cfg cache env op fs n t) key' = absIndex cfg cache fs key') ∧
    (∀ a hx, ¬ op.touchesAddr cfg a hx →
      absStore cache (crashOp cfg cache env op fs n t) a hx = absStore cache fs a hx) :=
  admissible_untouched cfg (crashOp_admissible cfg cache env op fs h hl hop n t).2

/-- **Statement 3: everything keeps working.**  Run `pre`, then `op` killed at `(n, t)`, then
`post`, all from a healthy cache: the state after the kill is healthy and abstracts to an
admissible state `m'` of `op` applied to the abstract state after `pre`; and `post` gives exactly
the answers the abstract specification gives from `m'`, ends in the state it predicts, and leaves
the cache healthy again. -/
theorem crash_then_post (pre post : List (Env × COp)) (env : Env) (op : COp) (fs : FS)
    (h : Healthy cfg cache fs) (hl : HexLen cfg) (hpre : ∀ x ∈ pre, x.2.WF cfg) (hop : op.WF cfg)
    (hpost : ∀ x ∈ post, x.2.WF cfg) (n t : Nat) :
    ∃ m', Admissible cfg (cSpecRun cfg pre (absCache cfg cache fs)).2 op m' ∧
      Healthy cfg cache (crashOp cfg cache env op (cRunOps cfg cache pre fs).2 n t) ∧
      absCache cfg cache (crashOp cfg cache env op (cRunOps cfg cache pre fs).2 n t) = m' ∧
      (cRunOps cfg cache pre fs).1 = (cSpecRun cfg pre (absCache cfg cache fs)).1 ∧
      (cRunOps cfg cache post (crashOp cfg cache env op (cRunOps cfg cache pre fs).2 n t)).1 =
        (cSpecRun cfg post m').1 ∧
      absCache cfg cache (cRunOps cfg cache post (crashOp cfg cache env op (cRunOps cfg cache pre fs).2 n t)).2 =
        (cSpecRun cfg post m').2 ∧
      Healthy cfg cache (cRunOps cfg cache post (crashOp cfg cache env op (cRunOps cfg cache pre fs).2 n t)).2 := by
  obtain ⟨p1, p2, p3⟩ := cache_refines_map cfg cache pre fs h hl hpre
  obtain ⟨c1, c2⟩ := crashOp_admissible cfg cache env op _ p3 hl hop n t
  obtain ⟨q1, q2, q3⟩ := cache_refines_map cfg cache post _ c1 hl hpost
  rw [p2] at c2
  exact ⟨_, c2, c1, rfl, p1, q1, q2, q3⟩

/-! ### corollaries: what later operations see -/

theorem declCheck_ok_size {o : WriteOpts} {n : Nat} {wsri r : Integrity} (hs : o.sri = none)
    (h : declCheck o n wsri = .ok r) : o.size = none ∨ o.size = some n := by
  rw [declCheck_none hs] at h
  cases hz : o.size with
  | none => exact Or.inl rfl
  | some m =>
    rw [hz] at h
    simp only at h
    by_cases e : m = n
    · exact Or.inr (by rw [e])
    · rw [if_pos e] at h; cases h

/-- **A later `get` of the key of a crashed keyed write** answers what the abstract cache answers
in the old state, or in the old state with the store updated, or it returns exactly the data of
the interrupted write — never an error caused by a half-made entry: when the new entry is visible
its content is present (the record is appended only after the content was published). -/
theorem get_after_crashed_put (env env' : Env) (fl : Flavour) (key : Bytes) (o : WriteOpts)
    (chunks : List Bytes) (fs : FS) (h : Healthy cfg cache fs) (hl : HexLen cfg)
    (hw : PutWF key o chunks) (n t : Nat) :
    (run env' (read cfg cache key) (crash env (writeStream cfg cache fl (some key) o chunks) fs n t)).1 =
      readSpec cfg (absCache cfg cache fs) key ∨
    (run env' (read cfg cache key) (crash env (writeStream cfg cache fl (some key) o chunks) fs n t)).1 =
      readSpec cfg (publishedOnly cfg (absCache cfg cache fs) (o.algo.getD .sha256) chunks.flatten) key ∨
    (run env' (read cfg cache key) (crash env (writeStream cfg cache fl (some key) o chunks) fs n t)).1 =
      .ok chunks.flatten := by
  obtain ⟨g1, g2⟩ := put_crash_sem cfg cache env fl key o chunks fs h hl hw n t
  rw [(run_read cfg cache env' key _ g1).1]
  rcases g2 with g2 | g2 | ⟨tm, g2⟩
  · rw [g2]; exact Or.inl rfl
  · rw [g2]; exact Or.inr (Or.inl rfl)
  · rw [g2]
    cases hck : declCheck o chunks.flatten.length (Sri.compute cfg.H (o.algo.getD .sha256) chunks.flatten) with
    | error e =>
      right; left
      unfold putSpec
      rw [hck]
      rfl
    | ok recorded =>
      right; right
      have hz := declCheck_ok_size hw.nosri hck
      obtain ⟨_, p2⟩ := putSpec_ok cfg { env with clock := tm } (absCache cfg cache fs) key o chunks hw.nosri hz
      unfold readSpec
      rw [p2]
      simp only [putEntry]
      apply getSpec_compute cfg hl _ _ chunks.flatten chunks.flatten _ rfl
      rw [putSpec_store]
      exact AbsStore.set_same _ _ _ _

/-- Publishing content under an address the key's old entry does not point to does not change
what `get key` answers. -/
theorem readSpec_publishedOnly (m : AbsCache) (a : Algo) (data : Bytes) (key : Bytes)
    (hne : ∀ e, m.index key = some e → addrOf e.sri ≠ some (a, Bytes.hex (cfg.H a data))) :
    readSpec cfg (publishedOnly cfg m a data) key = readSpec cfg m key := by
  unfold readSpec publishedOnly
  simp only
  cases hi : m.index key with
  | none => rfl
  | some e =>
    simp only
    apply getSpec_congr
    intro a' hx' hax
    apply AbsStore.set_other
    rintro ⟨rfl, rfl⟩
    exact hne e hi hax

/-- **Old value or new value.**  If the key's old entry (if any) does not point to the address of
the new data, a `get` after a keyed write killed anywhere answers exactly what it answered before
the write — the old value, or `NotFound` for a fresh key — or returns the new data. -/
theorem get_after_crashed_put_old_or_new (env env' : Env) (fl : Flavour) (key : Bytes) (o : WriteOpts)
    (chunks : List Bytes) (fs : FS) (h : Healthy cfg cache fs) (hl : HexLen cfg)
    (hw : PutWF key o chunks) (n t : Nat)
    (hne : ∀ e, absIndex cfg cache fs key = some e →
      addrOf e.sri ≠ some (o.algo.getD .sha256, Bytes.hex (cfg.H (o.algo.getD .sha256) chunks.flatten))) :
    (run env' (read cfg cache key) (crash env (writeStream cfg cache fl (some key) o chunks) fs n t)).1 =
      (run env' (read cfg cache key) fs).1 ∨
    (run env' (read cfg cache key) (crash env (writeStream cfg cache fl (some key) o chunks) fs n t)).1 =
      .ok chunks.flatten := by
  rw [(run_read cfg cache env' key fs h).1]
  rcases get_after_crashed_put cfg cache env env' fl key o chunks fs h hl hw n t with g | g | g
  · exact Or.inl g
  · left
    rw [g]
    exact readSpec_publishedOnly cfg _ _ _ key hne
  · exact Or.inr g

/-- **A later `get` of the key of a crashed removal** answers as before the removal or `NotFound`. -/
theorem get_after_crashed_remove (env env' : Env) (key : Bytes) (fs : FS) (h : Healthy cfg cache fs)
    (hk : utf8Valid key = true) (n t : Nat) :
    (run env' (read cfg cache key) (crash env (delete cfg cache key) fs n t)).1 =
      (run env' (read cfg cache key) fs).1 ∨
    (run env' (read cfg cache key) (crash env (delete cfg cache key) fs n t)).1 = .error .notFound := by
  obtain ⟨g1, g2, g3⟩ := delete_crash_sem cfg cache env key fs h hk n t
  rw [(run_read cfg cache env' key _ g1).1, (run_read cfg cache env' key fs h).1]
  unfold readSpec absCache
  simp only
  rcases g3 with g3 | g3
  · left; rw [g2, g3]
  · right; rw [g3]; simp [delIndex]

/-- **Keys and addresses the interrupted operation does not concern answer as before**: `get key'`
after a kill during `op` answers what it answered before `op`, for every key `op` does not write
whose entry (if any) points to an address `op` cannot touch. -/
theorem get_other_after_crash (env env' : Env) (op : COp) (fs : FS) (h : Healthy cfg cache fs)
    (hl : HexLen cfg) (hop : op.WF cfg) (n t : Nat) (key' : Bytes) (hk : ¬ op.writesKey key')
    (ha : ∀ e a hx, absIndex cfg cache fs key' = some e → addrOf e.sri = some (a, hx) →
      ¬ op.touchesAddr cfg a hx) :
    (run env' (read cfg cache key') (crashOp cfg cache env op fs n t)).1 =
      (run env' (read cfg cache key') fs).1 := by
  obtain ⟨g1, _⟩ := crashOp_admissible cfg cache env op fs h hl hop n t
  obtain ⟨u1, u2⟩ := crashOp_untouched cfg cache env op fs h hl hop n t
  rw [(run_read cfg cache env' key' _ g1).1, (run_read cfg cache env' key' fs h).1]
  unfold readSpec absCache
  simp only
  rw [u1 key' hk]
  cases hi : absIndex cfg cache fs key' with
  | none => rfl
  | some e =>
    simp only
    apply getSpec_congr
    intro a hx hax
    exact u2 a hx (ha e a hx hi hax)

/-- **A later write succeeds and is read back**, whatever operation was killed wherever: `write`
(either flavour, any key — in particular the key of the crashed operation — any data) on the cache
the kill left answers the integrity of the data, `read` returns exactly the data, the cache is
healthy and the new writer's temp file is gone.  (A temp file the crashed writer left in
`cache/tmp` is not in the way: the new writer's `mkTemp` takes the name `#next`.) -/
theorem write_after_crash (env env1 env2 : Env) (op : COp) (fs : FS) (h : Healthy cfg cache fs)
    (hl : HexLen cfg) (hop : op.WF cfg) (n t : Nat) (fl : Flavour) (a : Algo) (key data : Bytes)
    (hk : utf8Valid key = true) (hd : data.length ≤ Rec.u64Max) :
    (run env1 (write cfg fl cache a key data) (crashOp cfg cache env op fs n t)).1 = .ok (Sri.compute cfg.H a data) ∧
    (run env2 (read cfg cache key)
      (run env1 (write cfg fl cache a key data) (crashOp cfg cache env op fs n t)).2.1).1 = .ok data ∧
    Healthy cfg cache (run env1 (write cfg fl cache a key data) (crashOp cfg cache env op fs n t)).2.1 ∧
    TmpClean cache (crashOp cfg cache env op fs n t)
      (run env1 (write cfg fl cache a key data) (crashOp cfg cache env op fs n t)).2.1 :=
  read_after_write cfg cache env1 env2 fl a key data _
    (crashOp_admissible cfg cache env op fs h hl hop n t).1 hl hk hd

/-! ### non-vacuity -/

/-- The hypotheses are satisfiable: on the empty filesystem (any cache path, any digest function
with hex length ≥ 4) kill `write "k" data` anywhere; a `get "k"` answers `NotFound` or the data,
and writing `"k"` again succeeds and is read back. -/
example (env : Env) (hl : HexLen cfg) (data data' : Bytes) (hd : data.length ≤ Rec.u64Max)
    (hd' : data'.length ≤ Rec.u64Max) (n t : Nat) :
    ((run env (read cfg cache [107]) (crashOp cfg cache env (COp.write .sync [107] .sha256 data) FS.empty n t)).1 =
        .error .notFound ∨
      (run env (read cfg cache [107]) (crashOp cfg cache env (COp.write .sync [107] .sha256 data) FS.empty n t)).1 =
        .ok data) ∧
    (run env (read cfg cache [107])
      (run env (write cfg .async cache .sha512 [107] data')
        (crashOp cfg cache env (COp.write .sync [107] .sha256 data) FS.empty n t)).2.1).1 = .ok data' := by
  have h0 : Healthy cfg cache FS.empty :=
    healthy_of_empty_cache cfg cache FS.empty (fun _ _ _ => Or.inl rfl) (fun _ _ _ => rfl)
  have k1 : utf8Valid [107] = true := by decide
  have w1 := write_wf cfg .sync [107] .sha256 data k1 hd
  constructor
  · have hnone : absIndex cfg cache FS.empty [107] = none := rfl
    have := get_after_crashed_put_old_or_new cfg cache env env .sync [107] { algo := some .sha256 } [data]
      FS.empty h0 hl w1 n t (by intro e he; rw [hnone] at he; cases he)
    rw [(run_read cfg cache env [107] FS.empty h0).1] at this
    simpa [readSpec, absCache, hnone, COp.write, crashOp] using this
  · exact (write_after_crash cfg cache env env env _ FS.empty h0 hl w1 n t .async .sha512 [107] data' k1 hd').2.1

/-! ### statement 4 for the writes: every fault plan (and, again, every kill point) -/

theorem Mild.mono {P D P' D' : Path → Prop} (hP : ∀ q, P q → P' q) (hD : ∀ q, D q → D' q) {c : Call}
    (h : Mild P D c) : Mild P' D' c := by
  cases c <;> first
    | exact h
    | exact fun q hq => hD q (h q hq)
    | exact fun n => hP _ (h n)
    | exact hP _ h
    | exact ⟨hP _ h.1, hP _ h.2⟩

/-- Mild programs in the demonic calculus: quiet at every kill point and for every outcome of
every call. -/
theorem mild_wpD {α : Type} {P D : Path → Prop} {Ok : α → Prop} {p : Prog α}
    (hp : AllCallsR (Mild P D) Ok p) (env : Env) (fs0 fs : FS) (hq : Quiet P D fs0 fs) :
    wpD env (Quiet P D fs0) (fun _ s => Quiet P D fs0 s) p fs := by
  induction p generalizing fs with
  | done a => exact ⟨hq, hq⟩
  | sys c k ih =>
    refine ⟨hq, fun t => hq.trans (mild_torn t hp.1), ?_⟩
    intro fs' r hs
    have ha : Answer c r := by
      cases hs with
      | ok => exact answer_exec env fs c
      | fail e short => exact answer_err c e
    exact ih r (hp.2 r ha) fs' (hq.trans (mild_step hp.1 hs))

/-- wp rule for one mild call. -/
theorem wpD_mild_call {α : Type} (env : Env) {P D : Path → Prop} {fs0 fs : FS} {c : Call}
    {k : Ret → Prog α} {Q : FS → Prop} {Post : α → FS → Prop} (hm : Mild P D c)
    (hq : Quiet P D fs0 fs) (hQ : ∀ s, Quiet P D fs0 s → Q s)
    (hk : ∀ fs' r, Step env fs c fs' r → Quiet P D fs0 fs' → wpD env Q Post (k r) fs') :
    wpD env Q Post (.sys c k) fs :=
  ⟨hQ _ hq, fun t => hQ _ (hq.trans (mild_torn t hm)),
   fun fs' r hs => hk fs' r hs (hq.trans (mild_step hm hs))⟩

theorem dropTmp_mild_wp {α : Type} (env : Env) {P D : Path → Prop} {fs0 fs : FS} {Q : FS → Prop}
    {Post : α → FS → Prop} (tmp : Path) (k : Unit → Prog α) (hP : P tmp) (hq : Quiet P D fs0 fs)
    (hQ : ∀ s, Quiet P D fs0 s → Q s)
    (hk : ∀ fs', Quiet P D fs0 fs' → wpD env Q Post (k ()) fs') :
    wpD env Q Post (Prog.bind (dropTmp tmp) k) fs := by
  unfold dropTmp
  simp only [bind_eq, pure_eq, call, bind_sys, bind_done]
  exact wpD_mild_call env (c := .unlink tmp) hP hq hQ (fun fs' _ _ h => hk fs' h)

theorem closeTail_mild_wp (env : Env) {P D : Path → Prop} {fs0 fs : FS} {Q : FS → Prop}
    {Post : Res Integrity → FS → Prop} (tmp cpath : Path) (sri : Integrity) (e : EK) (hP : P tmp)
    (hq : Quiet P D fs0 fs) (hQ : ∀ s, Quiet P D fs0 s → Q s)
    (hok : ∀ s, Quiet P D fs0 s → s.existsFollow cpath = true → Post (Except.ok sri) s)
    (herr : ∀ s, Quiet P D fs0 s → Post (Except.error (Err.io e)) s) :
    wpD env Q Post
      (Prog.bind (dropTmp tmp) (fun _ => .sys (.existsF cpath) (fun r =>
        match r with
        | .bool true => .done (Except.ok sri)
        | _ => .done (Except.error (Err.io e))))) fs := by
  apply dropTmp_mild_wp env tmp _ hP hq hQ
  intro fs1 hq1
  apply wpD_mild_call env (c := .existsF cpath) trivial hq1 hQ
  intro fs2 r2 hs2 hq2
  cases hs2 with
  | fail e' short => exact ⟨hQ _ hq2, herr _ hq2⟩
  | ok =>
    simp only [exec]
    simp only [exec] at hq2
    split
    · rename_i heq
      have : fs1.existsFollow cpath = true := by injection heq
      exact ⟨hQ _ hq2, hok _ hq2 this⟩
    · exact ⟨hQ _ hq2, herr _ hq2⟩

/-- The data is published: the address holds it, and apart from the address and the children of
`cache/tmp` the state is a quiet change of `fs0`. -/
def Pub (a : Algo) (data : Bytes) (fs0 s : FS) : Prop :=
  s.get (addrPath cache a (Bytes.hex (cfg.H a data))) = some (.file data) ∧
  Quiet (fun q => IsTmp cache q ∨ q = addrPath cache a (Bytes.hex (cfg.H a data)))
    (ToTmpOrAddr cache a (Bytes.hex (cfg.H a data))) fs0 s

/-- What `close` promises under faults: nothing is published and an `ok` answer means the address
is occupied (the `rename` failed but something is there); or the data is published and the answer
is its integrity. -/
def ClosePost (a : Algo) (data : Bytes) (fs0 : FS) (r : Res Integrity) (s : FS) : Prop :=
  (Quiet (IsTmp cache) (ToTmpOrAddr cache a (Bytes.hex (cfg.H a data))) fs0 s ∧
    ∀ sri, r = Except.ok sri → sri = Sri.compute cfg.H a data ∧
      (s.get (addrPath cache a (Bytes.hex (cfg.H a data)))).isSome = true) ∨
  (Pub cfg cache a data fs0 s ∧ r = Except.ok (Sri.compute cfg.H a data))

/-- **Closing a writer under every fault (and at every kill point)**: the state is a quiet change
of `fs0`, or the data is published. -/
theorem wclose_fault_wp (env : Env) (w : Writer) {fs0 fs : FS} (hc : w.cache = cache) (hi : WInv w fs)
    (hl : 4 ≤ (Bytes.hex (cfg.H w.algo w.hashed)).length)
    (hq : Quiet (IsTmp cache) (ToTmpOrAddr cache w.algo (Bytes.hex (cfg.H w.algo w.hashed))) fs0 fs) :
    wpD env (fun s => Quiet (IsTmp cache) (ToTmpOrAddr cache w.algo (Bytes.hex (cfg.H w.algo w.hashed))) fs0 s ∨
        Pub cfg cache w.algo w.hashed fs0 s)
      (ClosePost cfg cache w.algo w.hashed fs0) (wclose cfg w) fs := by
  obtain ⟨f, hf, htake, hlen0, hlenS⟩ := hi.file
  have htmp : IsTmp cache w.tmp := by
    obtain ⟨n, hn⟩ := hi.ok; rw [hc] at hn; exact ⟨n, hn⟩
  have hlt : ¬ (Bytes.hex (cfg.H w.algo w.hashed)).length < 4 := by omega
  have hQ : ∀ s, Quiet (IsTmp cache) (ToTmpOrAddr cache w.algo (Bytes.hex (cfg.H w.algo w.hashed))) fs0 s →
      (Quiet (IsTmp cache) (ToTmpOrAddr cache w.algo (Bytes.hex (cfg.H w.algo w.hashed))) fs0 s ∨
        Pub cfg cache w.algo w.hashed fs0 s) := fun _ h => Or.inl h
  have errPost : ∀ (e : Err) (s : FS),
      Quiet (IsTmp cache) (ToTmpOrAddr cache w.algo (Bytes.hex (cfg.H w.algo w.hashed))) fs0 s →
      ClosePost cfg cache w.algo w.hashed fs0 (Except.error e) s :=
    fun e s h => Or.inl ⟨h, fun sri hh => by cases hh⟩
  have publish : ∀ fsx, Quiet (IsTmp cache) (ToTmpOrAddr cache w.algo (Bytes.hex (cfg.H w.algo w.hashed))) fs0 fsx →
      fsx.get w.tmp = some (.file w.hashed) →
      wpD env (fun s => Quiet (IsTmp cache) (ToTmpOrAddr cache w.algo (Bytes.hex (cfg.H w.algo w.hashed))) fs0 s ∨
          Pub cfg cache w.algo w.hashed fs0 s)
        (ClosePost cfg cache w.algo w.hashed fs0)
        
          (.sys (.mkdirP (FS.parent (addrPath cache w.algo (Bytes.hex (cfg.H w.algo w.hashed)))))
            (fun r => match r with
              | .err e => Prog.bind (dropTmp w.tmp) (fun _ => .done (Except.error (Err.io e)))
              | _ => .sys (.rename w.tmp (addrPath cache w.algo (Bytes.hex (cfg.H w.algo w.hashed))))
                  (fun r => match r with
                    | .err e => Prog.bind (dropTmp w.tmp) (fun _ => .sys (.existsF (addrPath cache w.algo (Bytes.hex (cfg.H w.algo w.hashed)))) (fun r =>
                        match r with
                        | .bool true => .done (Except.ok (Sri.compute cfg.H w.algo w.hashed))
                        | _ => .done (Except.error (Err.io e))))
                    | _ => .done (Except.ok (Sri.compute cfg.H w.algo w.hashed))))) fsx := by
    intro fsx hqx hgx
    apply wpD_mild_call env (c := .mkdirP _) (fun q h => Or.inr h) hqx hQ
    intro fs1 r1 hs1 hq1
    have hg1 := step_mkdirP_keeps hgx hs1
    split
    · exact dropTmp_mild_wp env w.tmp _ htmp hq1 hQ (fun fs' h' => ⟨Or.inl h', errPost _ _ h'⟩)
    · refine wpD_call (Or.inl hq1) (fun _ => Or.inl hq1) ?_
      intro fs2 r2 hs2
      rcases step_rename hg1 hs2 with ⟨⟨e, rfl⟩, rfl⟩ | ⟨rfl, rfl⟩
      · exact closeTail_mild_wp env w.tmp _ _ e htmp hq1 hQ
          (fun s hs hex => Or.inl ⟨hs, fun sri h => by
            cases h; exact ⟨rfl, existsFollow_get (addr_ne_nil cache _ _) hex⟩⟩)
          (fun s hs => errPost _ s hs)
      · have hpub : Pub cfg cache w.algo w.hashed fs0
            ((fs1.del w.tmp).put (addrPath cache w.algo (Bytes.hex (cfg.H w.algo w.hashed))) (.file w.hashed)) := by
          refine ⟨FS.get_put_same _ _ _, ?_⟩
          intro q
          by_cases e1 : q = addrPath cache w.algo (Bytes.hex (cfg.H w.algo w.hashed))
          · exact Or.inl (Or.inr e1)
          · by_cases e2 : q = w.tmp
            · left; left; rw [e2]; exact htmp
            · rw [FS.get_put_ne _ _ e1, FS.get_del_ne _ e2]
              rcases hq1 q with p | g | g
              · exact Or.inl (Or.inl p)
              · exact Or.inr (Or.inl g)
              · exact Or.inr (Or.inr g)
        exact ⟨Or.inr hpub, Or.inr ⟨hpub, rfl⟩⟩
  unfold wclose
  dsimp only
  rw [contentPath_compute, hc]
  simp only [hlt, if_false]
  simp only [bind_eq, pure_eq, call, bind_sys, bind_done]
  split
  · rename_i n hm
    obtain ⟨hfl, hpn⟩ := hlenS n hm
    split
    · simp only [bind_sys]
      apply wpD_mild_call env (P := IsTmp cache) (c := .truncate _ _) htmp hq hQ
      intro fs1 r1 hs1 hq1
      rcases step_truncate hf hs1 with ⟨e, rfl⟩ | ⟨rfl, hg1⟩
      · simp only [bind_done]
        exact dropTmp_mild_wp env w.tmp _ htmp hq1 hQ (fun fs' h' => ⟨Or.inl h', errPost _ _ h'⟩)
      · simp only [bind_done]
        rw [htake] at hg1
        exact publish fs1 hq1 hg1
    · rename_i hnl
      simp only [bind_done]
      have : f = w.hashed := by
        have hp : w.pos = n := by omega
        rw [← htake, hp, ← hfl, List.take_length]
      rw [this] at hf
      exact publish fs hq hf
  · rename_i hm
    simp only [bind_done]
    have : f = w.hashed := by rw [← htake, ← hlen0 hm, List.take_length]
    rw [this] at hf
    exact publish fs hq hf

/-- A published state of a healthy cache is healthy and abstracts to "store updated only". -/
theorem pub_sem {fs s : FS} {a : Algo} {data : Bytes} (h : Healthy cfg cache fs)
    (hp : Pub cfg cache a data fs s) :
    Healthy cfg cache s ∧ absCache cfg cache s = publishedOnly cfg (absCache cfg cache fs) a data := by
  obtain ⟨hput, hq⟩ := hp
  have hD : ∀ q, ToTmpOrAddr cache a (Bytes.hex (cfg.H a data)) q → DirPath cfg cache q :=
    fun q d => toTmpOrAddr_dirPath cfg cache d
  refine ⟨quiet_healthy cfg cache h hq hD ?_ ?_ ?_, ?_⟩
  · rintro q (p | rfl) d
    · exact dirPath_not_tmp cfg cache d p
    · exact dirPath_ne_addr cfg cache d _ _ rfl
  · rintro a' hx' _ (p | e)
    · exact absurd rfl (isTmp_ne_addr cache p a' hx')
    · obtain ⟨rfl, rfl⟩ := addrPath_injective e
      exact Or.inr ⟨data, hput, rfl⟩
  · rintro k (p | e)
    · exact absurd rfl (isTmp_ne_bucket cfg cache p k)
    · exact absurd e (bucket_ne_addr cfg cache k _ _)
  · unfold absCache publishedOnly
    simp only
    congr 1
    · apply quiet_absIndex cfg cache hq hD
      rintro k (p | e)
      · exact isTmp_ne_bucket cfg cache p k rfl
      · exact bucket_ne_addr cfg cache k _ _ e
    · funext a' hx'
      unfold absStore AbsStore.set
      by_cases e : a' = a ∧ hx' = Bytes.hex (cfg.H a data)
      · obtain ⟨rfl, rfl⟩ := e
        rw [hput]; simp
      · rw [if_neg e]
        rw [hq.keep (fun p => p.elim (fun p => isTmp_ne_addr cache p a' hx' rfl)
            (fun x => e (addrPath_injective x)))
          (fun d => dirPath_ne_addr cfg cache (hD _ d) a' hx' rfl)]

/-- **A streamed write in the demonic calculus**, parametric in the crash condition `Q`: `Q` has
to hold of every quiet change of the start state, of every published state, and throughout the
index step started from a state in which the content is present. -/
theorem writeStream_sem_wp (env : Env) (fl : Flavour) (key : Option Bytes) (o : WriteOpts)
    (chunks : List Bytes) {fs : FS} (h : Healthy cfg cache fs) (hl : HexLen cfg) (Q : FS → Prop)
    (hEarly : ∀ s, Quiet (IsTmp cache) (ToTmpOrAddr cache (o.algo.getD .sha256)
      (Bytes.hex (cfg.H (o.algo.getD .sha256) chunks.flatten))) fs s → Q s)
    (hPub : ∀ s, Pub cfg cache (o.algo.getD .sha256) chunks.flatten fs s → Q s)
    (hTail : ∀ (w : Writer) (s : FS) (recorded : Integrity), w.cache = cache → w.key = key → w.opts = o →
      w.written = chunks.flatten.length →
      declCheck o chunks.flatten.length (Sri.compute cfg.H (o.algo.getD .sha256) chunks.flatten) = .ok recorded →
      ((Quiet (IsTmp cache) (ToTmpOrAddr cache (o.algo.getD .sha256)
          (Bytes.hex (cfg.H (o.algo.getD .sha256) chunks.flatten))) fs s ∧
        (s.get (addrPath cache (o.algo.getD .sha256)
          (Bytes.hex (cfg.H (o.algo.getD .sha256) chunks.flatten)))).isSome = true) ∨
        Pub cfg cache (o.algo.getD .sha256) chunks.flatten fs s) →
      wpD env Q (fun _ _ => True)
        (wcommitIndex cfg w (Sri.compute cfg.H (o.algo.getD .sha256) chunks.flatten) recorded) s) :
    wpD env Q (fun _ _ => True) (writeStream cfg cache fl key o chunks) fs := by
  have tmpCV : ∀ s, Quiet (IsTmp cache) (ToTmpOrAddr cache (o.algo.getD .sha256)
      (Bytes.hex (cfg.H (o.algo.getD .sha256) chunks.flatten))) fs s → ContentValid cfg cache s :=
    fun s hq => (tmpOnly_healthy cfg cache h hq (fun q d => toTmpOrAddr_dirPath cfg cache d)).1.store.valid
  have widen : ∀ c, Mild (IsTmp cache) (ToTmp cache) c → Mild (IsTmp cache) (ToTmpOrAddr cache (o.algo.getD .sha256)
      (Bytes.hex (cfg.H (o.algo.getD .sha256) chunks.flatten))) c :=
    fun c hm => hm.mono (fun _ p => p) (fun _ d => Or.inl d)
  unfold writeStream
  simp only [bind_eq, pure_eq]
  apply wpD_bind
  have w1 := wpD_and (wopen_wp cfg env cache fl key o h.store.valid)
    (mild_wpD ((wopen_mild cfg cache fl key o).mono widen (fun _ x => x)) env fs fs (Quiet.refl _))
  refine wpD_weakenQ (fun s hs => hEarly s hs.2) (wpD_mono ?_ w1)
  intro r fs1 ⟨hp, hq1⟩
  split
  · exact ⟨hEarly _ hq1, trivial⟩
  · rename_i w
    obtain ⟨hc, hk0, ho, hw0, hh0, ha, hi⟩ := hp w rfl
    have htmp : IsTmp cache w.tmp := by
      obtain ⟨n, hn⟩ := hi.ok; rw [hc] at hn; exact ⟨n, hn⟩
    apply wpD_bind
    have hmw := wwriteAll_mild w chunks hi.ok
    rw [hc] at hmw
    have w2 := wpD_and (wwriteAll_wp cfg env cache w chunks hc (tmpCV _ hq1) hi)
      (mild_wpD (hmw.mono widen (fun _ x => x)) env fs fs1 hq1)
    refine wpD_weakenQ (fun s hs => hEarly s hs.2) (wpD_mono ?_ w2)
    intro r2 fs2 ⟨hp2, hq2⟩
    split
    · exact dropTmp_mild_wp env w.tmp _ htmp hq2 hEarly (fun fs' h' => ⟨hEarly _ h', trivial⟩)
    · rename_i w'
      obtain ⟨hs, hi', hh, hwr, ho', ha'⟩ := hp2 w' rfl
      have hc' : w'.cache = cache := hs.1.trans hc
      have hdata : w'.hashed = chunks.flatten := by rw [hh, hh0]; rfl
      have halgo : w'.algo = o.algo.getD .sha256 := ha'.trans ha
      have hwritten : w'.written = chunks.flatten.length := by rw [hwr, hw0]; simp
      have hopts : w'.opts = o := ho'.trans ho
      have hkey : w'.key = key := hs.2.2.trans hk0
      unfold wcommit
      simp only [bind_eq, pure_eq]
      apply wpD_bind
      unfold wcommitCheck
      simp only [bind_eq, pure_eq]
      apply wpD_bind
      have hq2' := hq2
      rw [← halgo, ← hdata] at hq2'
      have w3 := wclose_fault_wp cfg cache env w' hc' hi' (hl _ _) hq2'
      rw [halgo, hdata] at w3
      refine wpD_weakenQ (fun s hs => hs.elim (hEarly s) (hPub s)) (wpD_mono ?_ w3)
      intro r3 fs3 hp3
      have hQ3 : Q fs3 := hp3.elim (fun x => hEarly _ x.1) (fun x => hPub _ x.1)
      split
      · exact ⟨hQ3, hQ3, trivial⟩
      · rename_i wsri
        have hws : wsri = Sri.compute cfg.H (o.algo.getD .sha256) chunks.flatten := by
          rcases hp3 with ⟨_, hx⟩ | ⟨_, hx⟩
          · exact (hx wsri rfl).1
          · cases hx; rfl
        subst hws
        split
        · exact ⟨hQ3, hQ3, trivial⟩
        · rename_i recorded hchk
          refine ⟨hQ3, ?_⟩
          rw [commitChecks_eq, hopts, hwritten] at hchk
          apply hTail w' fs3 recorded hc' hkey hopts hwritten hchk
          rcases hp3 with ⟨hx1, hx2⟩ | ⟨hx1, _⟩
          · exact Or.inl ⟨hx1, (hx2 _ rfl).2⟩
          · exact Or.inr hx1

/-- The index step in the demonic calculus, with the semantic crash condition. -/
theorem insert_sem_wp (env : Env) (key : Bytes) (o : WriteOpts) {fs : FS} (h : Healthy cfg cache fs)
    (hw : OptsWF key o) (hs : SriOK cfg o) :
    wpD env (fun s => Healthy cfg cache s ∧ absStore cache s = absStore cache fs ∧
        (absIndex cfg cache s = absIndex cfg cache fs ∨
          ∃ tm, tm ≤ timeMax ∧ (∀ t, o.time = some t → tm = t) ∧
            absIndex cfg cache s = insIndex (absIndex cfg cache fs) key o tm))
      (fun _ _ => True) (insert cfg cache key o) fs :=
  wpD_weakenQ (fun _ hs' => insert_sem_core cfg cache h key o hw hs hs'.1 hs'.2)
    (wpD_mono (fun _ _ _ => trivial)
      (wpD_and (mild_wpD (insert_mild cfg cache key o) env fs fs (Quiet.refl _))
        (insert_bucket_wp cfg env cache key o _ (bucketIs_bytesAt cfg cache h.index key))))

/-- **A by-address write in the demonic calculus**: at every kill point and under every fault plan
the cache is healthy and its abstract state is the old one or the old one with the data
published. -/
theorem addrPut_sem_wp (env : Env) (fl : Flavour) (o : WriteOpts) (chunks : List Bytes) {fs : FS}
    (h : Healthy cfg cache fs) (hl : HexLen cfg) :
    wpD env (fun s => Healthy cfg cache s ∧
        (absCache cfg cache s = absCache cfg cache fs ∨
         absCache cfg cache s = publishedOnly cfg (absCache cfg cache fs) (o.algo.getD .sha256) chunks.flatten))
      (fun _ _ => True) (writeStream cfg cache fl none o chunks) fs := by
  have hE : ∀ s, Quiet (IsTmp cache) (ToTmpOrAddr cache (o.algo.getD .sha256)
      (Bytes.hex (cfg.H (o.algo.getD .sha256) chunks.flatten))) fs s →
      Healthy cfg cache s ∧ (absCache cfg cache s = absCache cfg cache fs ∨
        absCache cfg cache s = publishedOnly cfg (absCache cfg cache fs) (o.algo.getD .sha256) chunks.flatten) := by
    intro s hq
    obtain ⟨g1, g2⟩ := tmpOnly_healthy cfg cache h hq (fun q d => toTmpOrAddr_dirPath cfg cache d)
    exact ⟨g1, Or.inl g2⟩
  have hP : ∀ s, Pub cfg cache (o.algo.getD .sha256) chunks.flatten fs s →
      Healthy cfg cache s ∧ (absCache cfg cache s = absCache cfg cache fs ∨
        absCache cfg cache s = publishedOnly cfg (absCache cfg cache fs) (o.algo.getD .sha256) chunks.flatten) := by
    intro s hp
    obtain ⟨g1, g2⟩ := pub_sem cfg cache h hp
    exact ⟨g1, Or.inr g2⟩
  apply writeStream_sem_wp cfg cache env fl none o chunks h hl _ hE hP
  intro w s recorded _ hk _ _ _ hst
  simp only [wcommitIndex, hk]
  rcases hst with ⟨hq, _⟩ | hp
  · exact ⟨hE s hq, trivial⟩
  · exact ⟨hP s hp, trivial⟩

/-- **Statement 4, by-address write**: under any fault plan (any calls failing with any error, data
writes failing after any partial write) the operation may answer an error, but the cache it leaves
is healthy and its abstract state is the old one or the one with the data published. -/
theorem addrPut_fault_sem (env : Env) (fl : Flavour) (o : WriteOpts) (chunks : List Bytes) (fs : FS)
    (h : Healthy cfg cache fs) (hl : HexLen cfg) (plan : Nat → Option Fault) :
    Healthy cfg cache (runFault env plan (writeStream cfg cache fl none o chunks) fs 0).2.1 ∧
    (absCache cfg cache (runFault env plan (writeStream cfg cache fl none o chunks) fs 0).2.1 = absCache cfg cache fs ∨
     absCache cfg cache (runFault env plan (writeStream cfg cache fl none o chunks) fs 0).2.1 =
       publishedOnly cfg (absCache cfg cache fs) (o.algo.getD .sha256) chunks.flatten) :=
  (wpD_fault (addrPut_sem_wp cfg cache env fl o chunks h hl) plan 0).1

/-- The abstract states a keyed write may leave under faults: the three of a kill (old, content
published only, new), and one more that only a fault can produce — the publishing `rename` fails,
but the address is already occupied (by content of the same digest, the store being valid), so the
commit goes on and records the entry: **index new, store as before, address present**. -/
def AdmissibleF (env : Env) (m : AbsCache) (key : Bytes) (o : WriteOpts) (chunks : List Bytes)
    (m' : AbsCache) : Prop :=
  m' = m ∨ m' = publishedOnly cfg m (o.algo.getD .sha256) chunks.flatten ∨
  (∃ tm, m' = (putSpec cfg { env with clock := tm } m key o chunks).1) ∨
  (∃ tm, (m.store (o.algo.getD .sha256) (Bytes.hex (cfg.H (o.algo.getD .sha256) chunks.flatten))).isSome = true ∧
    m' = { index := (putSpec cfg { env with clock := tm } m key o chunks).1.index, store := m.store })

/-- **A keyed write in the demonic calculus**: at every kill point and under every fault plan the
cache is healthy and its abstract state is `AdmissibleF`. -/
theorem put_sem_wp (env : Env) (fl : Flavour) (key : Bytes) (o : WriteOpts) (chunks : List Bytes)
    {fs : FS} (h : Healthy cfg cache fs) (hl : HexLen cfg) (hw : PutWF key o chunks) :
    wpD env (fun s => Healthy cfg cache s ∧
        AdmissibleF cfg env (absCache cfg cache fs) key o chunks (absCache cfg cache s))
      (fun _ _ => True) (writeStream cfg cache fl (some key) o chunks) fs := by
  have hE : ∀ s, Quiet (IsTmp cache) (ToTmpOrAddr cache (o.algo.getD .sha256)
      (Bytes.hex (cfg.H (o.algo.getD .sha256) chunks.flatten))) fs s →
      Healthy cfg cache s ∧ AdmissibleF cfg env (absCache cfg cache fs) key o chunks (absCache cfg cache s) := by
    intro s hq
    obtain ⟨g1, g2⟩ := tmpOnly_healthy cfg cache h hq (fun q d => toTmpOrAddr_dirPath cfg cache d)
    exact ⟨g1, Or.inl g2⟩
  have hP : ∀ s, Pub cfg cache (o.algo.getD .sha256) chunks.flatten fs s →
      Healthy cfg cache s ∧ AdmissibleF cfg env (absCache cfg cache fs) key o chunks (absCache cfg cache s) := by
    intro s hp
    obtain ⟨g1, g2⟩ := pub_sem cfg cache h hp
    exact ⟨g1, Or.inr (Or.inl g2)⟩
  apply writeStream_sem_wp cfg cache env fl (some key) o chunks h hl _ hE hP
  intro w s recorded hc hk ho hwr hck hst
  have hrec : recorded = Sri.compute cfg.H (o.algo.getD .sha256) chunks.flatten :=
    declCheck_ok_none hw.nosri hck
  have hsz : o.size.getD chunks.flatten.length ≤ Rec.u64Max := by
    cases hs : o.size with
    | none => exact hw.len
    | some n => exact hw.opts.size n hs
  have hwf : OptsWF key { o with sri := some recorded, size := some (o.size.getD chunks.flatten.length) } := by
    rw [hrec]
    exact (hw.opts.with_computed cfg.H _ _).with_size _ hsz
  have hsri : SriOK cfg { o with sri := some recorded, size := some (o.size.getD chunks.flatten.length) } :=
    Or.inr ⟨_, _, by rw [hrec]⟩
  -- the new index, as the specification states it
  have hnew : ∀ tm, tm ≤ timeMax → (∀ t, o.time = some t → tm = t) →
      (putSpec cfg { env with clock := tm } (absCache cfg cache fs) key o chunks).1.index =
        insIndex (absIndex cfg cache fs) key
          { o with sri := some recorded, size := some (o.size.getD chunks.flatten.length) } tm := by
    intro tm hle htm
    unfold putSpec
    rw [hck]
    funext k
    unfold insIndex
    simp only
    rw [insEntry_eq_entryAt, stamp_of_tm env { o with sri := some recorded, size := some (o.size.getD chunks.flatten.length) } tm hle htm]
    rfl
  simp only [wcommitIndex, hk, hc, ho, hwr]
  rcases hst with ⟨hq, hsome⟩ | hp
  · -- nothing published by this writer, but the address is occupied
    obtain ⟨g1, g2⟩ := tmpOnly_healthy cfg cache h hq (fun q d => toTmpOrAddr_dirPath cfg cache d)
    have hocc : ((absCache cfg cache fs).store (o.algo.getD .sha256)
        (Bytes.hex (cfg.H (o.algo.getD .sha256) chunks.flatten))).isSome = true := by
      rw [← g2]
      show (absStore cache s _ _).isSome = true
      unfold absStore
      rcases g1.store.files _ _ (hl _ _) with h0 | ⟨b, h0⟩
      · rw [h0] at hsome; cases hsome
      · rw [h0]; rfl
    refine wpD_weakenQ ?_ (insert_sem_wp cfg cache env key _ g1 hwf hsri)
    intro s' ⟨k1, k2, k3⟩
    refine ⟨k1, ?_⟩
    have hS : absStore cache s = absStore cache fs := congrArg AbsCache.store g2
    have hI : absIndex cfg cache s = absIndex cfg cache fs := congrArg AbsCache.index g2
    rcases k3 with k3 | ⟨tm, hle, htm, k3⟩
    · left
      unfold absCache
      rw [k2, k3, hS, hI]
    · right; right; right
      refine ⟨tm, hocc, ?_⟩
      rw [hnew tm hle htm]
      unfold absCache
      rw [k2, k3, hS, hI]
  · obtain ⟨g1, g2⟩ := pub_sem cfg cache h hp
    refine wpD_weakenQ ?_ (insert_sem_wp cfg cache env key _ g1 hwf hsri)
    intro s' ⟨k1, k2, k3⟩
    refine ⟨k1, ?_⟩
    have hS : absStore cache s = (absStore cache fs).set (o.algo.getD .sha256)
        (Bytes.hex (cfg.H (o.algo.getD .sha256) chunks.flatten)) (some chunks.flatten) :=
      congrArg AbsCache.store g2
    have hI : absIndex cfg cache s = absIndex cfg cache fs := congrArg AbsCache.index g2
    rcases k3 with k3 | ⟨tm, hle, htm, k3⟩
    · right; left
      unfold absCache publishedOnly
      rw [k2, k3, hS, hI]
    · right; right; left
      refine ⟨tm, ?_⟩
      have e1 := hnew tm hle htm
      have e2 := putSpec_store cfg { env with clock := tm } (absCache cfg cache fs) key o chunks
      unfold absCache at e1 e2 ⊢
      rw [k2, k3, hS, hI]
      cases hx : (putSpec cfg { env with clock := tm } { index := absIndex cfg cache fs, store := absStore cache fs } key o chunks).1 with
      | mk i st =>
        rw [hx] at e1 e2
        simp only at e1 e2
        rw [e1, e2]

/-- **Statement 4, keyed write**: under any fault plan the operation may answer an error (or even
`ok` without having published, if the address was occupied), but the cache it leaves is healthy
and its abstract state is one of `AdmissibleF`. -/
theorem put_fault_sem (env : Env) (fl : Flavour) (key : Bytes) (o : WriteOpts) (chunks : List Bytes)
    (fs : FS) (h : Healthy cfg cache fs) (hl : HexLen cfg) (hw : PutWF key o chunks)
    (plan : Nat → Option Fault) :
    Healthy cfg cache (runFault env plan (writeStream cfg cache fl (some key) o chunks) fs 0).2.1 ∧
    AdmissibleF cfg env (absCache cfg cache fs) key o chunks
      (absCache cfg cache (runFault env plan (writeStream cfg cache fl (some key) o chunks) fs 0).2.1) :=
  (wpD_fault (put_sem_wp cfg cache env fl key o chunks h hl hw) plan 0).1

/-- In every state a fault plan can leave, keys other than the written one map as before, and
addresses other than the data's hold what they held. -/
theorem admissibleF_untouched {env : Env} {m m' : AbsCache} {key : Bytes} {o : WriteOpts}
    {chunks : List Bytes} (h : AdmissibleF cfg env m key o chunks m') :
    (∀ key', key' ≠ key → m'.index key' = m.index key') ∧
    (∀ a hx, ¬ (a = o.algo.getD .sha256 ∧ hx = Bytes.hex (cfg.H (o.algo.getD .sha256) chunks.flatten)) →
      m'.store a hx = m.store a hx) := by
  rcases h with rfl | rfl | ⟨tm, rfl⟩ | ⟨tm, _, rfl⟩
  · exact ⟨fun _ _ => rfl, fun _ _ _ => rfl⟩
  · exact ⟨fun _ _ => rfl, fun a hx hne => AbsStore.set_other _ _ hne⟩
  · refine ⟨fun key' hk => putSpec_index_other cfg _ m key o chunks hk, fun a hx hne => ?_⟩
    rw [putSpec_store]
    exact AbsStore.set_other _ _ hne
  · exact ⟨fun key' hk => putSpec_index_other cfg _ m key o chunks hk, fun _ _ _ => rfl⟩

/-- **Everything keeps working after a failed operation too**: after a keyed write under any fault
plan, any further sequence of operations answers like the abstract specification from a state of
`AdmissibleF`, and a re-write of the key succeeds and is read back. -/
theorem fault_then_post (post : List (Env × COp)) (env : Env) (fl : Flavour) (key : Bytes)
    (o : WriteOpts) (chunks : List Bytes) (fs : FS) (h : Healthy cfg cache fs) (hl : HexLen cfg)
    (hw : PutWF key o chunks) (hpost : ∀ x ∈ post, x.2.WF cfg) (plan : Nat → Option Fault) :
    ∃ m', AdmissibleF cfg env (absCache cfg cache fs) key o chunks m' ∧
      (cRunOps cfg cache post (runFault env plan (writeStream cfg cache fl (some key) o chunks) fs 0).2.1).1 =
        (cSpecRun cfg post m').1 ∧
      absCache cfg cache
          (cRunOps cfg cache post (runFault env plan (writeStream cfg cache fl (some key) o chunks) fs 0).2.1).2 =
        (cSpecRun cfg post m').2 ∧
      Healthy cfg cache
        (cRunOps cfg cache post (runFault env plan (writeStream cfg cache fl (some key) o chunks) fs 0).2.1).2 := by
  obtain ⟨c1, c2⟩ := put_fault_sem cfg cache env fl key o chunks fs h hl hw plan
  obtain ⟨q1, q2, q3⟩ := cache_refines_map cfg cache post _ c1 hl hpost
  exact ⟨_, c2, q1, q2, q3⟩

end Cacache.CrashRefine

section AxiomCheck
open Cacache.CrashRefine
#print axioms mild_crash
#print axioms quiet_healthy
#print axioms tmpOnly_healthy
#print axioms settled_torn
#print axioms insert_crash_sem
#print axioms delete_crash_sem
#print axioms insert_fault_sem
#print axioms delete_fault_sem
#print axioms wclose_crash
#print axioms crash_writeStream_phase
#print axioms addrPut_crash_sem
#print axioms put_crash_sem
#print axioms crashOp_admissible
#print axioms crashOp_untouched
#print axioms crash_then_post
#print axioms get_after_crashed_put
#print axioms get_after_crashed_put_old_or_new
#print axioms get_after_crashed_remove
#print axioms get_other_after_crash
#print axioms write_after_crash
#print axioms wclose_fault_wp
#print axioms writeStream_sem_wp
#print axioms addrPut_fault_sem
#print axioms put_sem_wp
#print axioms put_fault_sem
#print axioms fault_then_post
end AxiomCheck
