/-
Lemmas added by the statement audit of `Props/`.

* `AllRets A Ok p` — like `AllCallsR`, for an arbitrary constraint `A` on what a call can answer.
  `AllCallsR (fun _ => True) Ok` is the case `A = Answer`.  `Shaped` is the constraint that also
  fixes the *constructor* of the answer of the two temp-name calls (`exec` answers `mkTemp` /
  `mkTempLink` with a path or an error, never with, say, a number); it is what makes the
  defensive `| _ => pure (.error .panic)` arm of `lcommit` unreachable in every run.
* `runFault_bind_fst` — the result of a sequential composition under a fault plan.
-/
import Cacache.Lemmas.Ops

namespace Cacache
namespace Prog

variable {α β : Type}

/-- Every result the program can return satisfies `Ok`, whatever the calls answer among the
answers `A` allows. -/
def AllRets (A : Call → Ret → Prop) (Ok : α → Prop) : Prog α → Prop
  | .done a => Ok a
  | .sys c k => ∀ r, A c r → AllRets A Ok (k r)

@[simp] theorem allRets_done (A : Call → Ret → Prop) (Ok : α → Prop) (a : α) :
    AllRets A Ok (.done a : Prog α) = Ok a := rfl
@[simp] theorem allRets_sys (A : Call → Ret → Prop) (Ok : α → Prop) (c : Call) (k : Ret → Prog α) :
    AllRets A Ok (.sys c k) = (∀ r, A c r → AllRets A Ok (k r)) := rfl

theorem AllRets.bind {A : Call → Ret → Prop} {Ok : α → Prop} {Ok' : β → Prop} {p : Prog α}
    {f : α → Prog β} (hp : AllRets A Ok p) (hf : ∀ a, Ok a → AllRets A Ok' (f a)) :
    AllRets A Ok' (Prog.bind p f) := by
  induction p with
  | done a => exact hf a hp
  | sys c k ih => exact fun r hr => ih r (hp r hr)

/-- What holds for all `Answer`s holds for every stronger constraint. -/
theorem AllCallsR.allRets {A : Call → Ret → Prop} {P : Call → Prop} {Ok : α → Prop} {p : Prog α}
    (hA : ∀ c r, A c r → Answer c r) (hp : AllCallsR P Ok p) : AllRets A Ok p := by
  induction p with
  | done a => exact hp
  | sys c k ih => exact fun r hr => ih r (hp.2 r (hA c r hr))

theorem AllRets.result {A : Call → Ret → Prop} {Ok : α → Prop} {p : Prog α} (hp : AllRets A Ok p)
    (env : Env) (hA : ∀ fs c, A c (exec env fs c).2) (fs : FS) : Ok (run env p fs).1 := by
  induction p generalizing fs with
  | done a => exact hp
  | sys c k ih =>
    simp only [run]
    exact ih _ (hp _ (hA fs c)) _

theorem AllRets.resultFault {A : Call → Ret → Prop} {Ok : α → Prop} {p : Prog α}
    (hp : AllRets A Ok p) (env : Env) (hA : ∀ fs c, A c (exec env fs c).2)
    (hE : ∀ c e, A c (.err e)) (plan : Nat → Option Fault) (fs : FS) (i : Nat) :
    Ok (runFault env plan p fs i).1 := by
  induction p generalizing fs i with
  | done a => exact hp
  | sys c k ih =>
    simp only [runFault]
    split
    · exact ih _ (hp _ (hE _ _)) _ _
    · exact ih _ (hp _ (hA fs c)) _ _

/-- Two `AllCallsR` facts about the same program combine. -/
theorem AllCallsR.and {P Q : Call → Prop} {Ok Ok' : α → Prop} {p : Prog α}
    (h1 : AllCallsR P Ok p) (h2 : AllCallsR Q Ok' p) :
    AllCallsR (fun c => P c ∧ Q c) (fun a => Ok a ∧ Ok' a) p := by
  induction p with
  | done a => exact ⟨h1, h2⟩
  | sys c k ih => exact ⟨⟨h1.1, h2.1⟩, fun r hr => ih r (h1.2 r hr) (h2.2 r hr)⟩

/-- The constructor of the answer of the temp-name calls: a path or an error. -/
def Shape : Call → Ret → Prop
  | .mkTemp _, r | .mkTempLink _ _, r => (∃ p, r = .path p) ∨ ∃ e, r = .err e
  | _, _ => True

/-- An admissible answer of the right constructor. -/
def Shaped (c : Call) (r : Ret) : Prop := Answer c r ∧ Shape c r

theorem shape_exec (env : Env) (fs : FS) (c : Call) : Shape c (exec env fs c).2 := by
  cases c with
  | mkTemp dir =>
    simp only [exec]
    split
    · exact Or.inl ⟨_, rfl⟩
    · exact Or.inr ⟨_, rfl⟩
  | mkTempLink dir t =>
    simp only [exec]
    split
    · exact Or.inl ⟨_, rfl⟩
    · exact Or.inr ⟨_, rfl⟩
  | _ => trivial

theorem shape_err (c : Call) (e : EK) : Shape c (.err e) := by
  cases c <;> first | trivial | exact Or.inr ⟨_, rfl⟩

theorem shaped_exec (env : Env) (fs : FS) (c : Call) : Shaped c (exec env fs c).2 :=
  ⟨answer_exec env fs c, shape_exec env fs c⟩

theorem shaped_err (c : Call) (e : EK) : Shaped c (.err e) := ⟨answer_err c e, shape_err c e⟩

/-- From "all answers" to "all answers of the right constructor". -/
theorem AllCallsR.shaped {P : Call → Prop} {Ok : α → Prop} {p : Prog α} (hp : AllCallsR P Ok p) :
    AllRets Shaped Ok p :=
  hp.allRets (fun _ _ h => h.1)

/-- What holds for all shaped answers holds of every healthy run and every run under a fault
plan (`exec` and the injected errors only give shaped answers). -/
theorem AllRets.shaped_run {Ok : α → Prop} {p : Prog α} (hp : AllRets Shaped Ok p) (env : Env)
    (fs : FS) : Ok (run env p fs).1 :=
  hp.result env (shaped_exec env) fs

theorem AllRets.shaped_runFault {Ok : α → Prop} {p : Prog α} (hp : AllRets Shaped Ok p) (env : Env)
    (plan : Nat → Option Fault) (fs : FS) (i : Nat) : Ok (runFault env plan p fs i).1 :=
  hp.resultFault env (shaped_exec env) shaped_err plan fs i

/-- The result of a sequential composition under a fault plan: the second part runs from the
state and the call index the first part ended at. -/
theorem runFault_bind_fst (env : Env) (plan : Nat → Option Fault) (p : Prog α) (f : α → Prog β)
    (fs : FS) (i : Nat) :
    (runFault env plan (Prog.bind p f) fs i).1 =
      (runFault env plan (f (runFault env plan p fs i).1) (runFault env plan p fs i).2.1
        (i + (runFault env plan p fs i).2.2.length)).1 := by
  induction p generalizing fs i with
  | done a => simp [runFault]
  | sys c k ih =>
    simp only [bind_sys, runFault]
    split
    · rw [ih]
      simp only [List.length_cons, Nat.add_assoc, Nat.add_comm 1]
    · rw [ih]
      simp only [List.length_cons, Nat.add_assoc, Nat.add_comm 1]

end Prog

/-! ### what a lookup can return -/

theorem Codec.foldl_findStep_some {R M : Type} (c : Codec R M) (k : Bytes) (rs : List R)
    (acc : Option M) (m : M) (h : rs.foldl (c.findStep k) acc = some m) :
    acc = some m ∨ ∃ r ∈ rs, c.key r = k ∧ c.cls r = .live m := by
  induction rs generalizing acc with
  | nil => exact Or.inl h
  | cons r rs ih =>
    rw [List.foldl_cons] at h
    rcases ih _ h with h1 | ⟨r', hr', hk, hc⟩
    · unfold Codec.findStep at h1
      split at h1
      · rename_i hk
        split at h1
        · rename_i m' hc
          cases h1
          exact Or.inr ⟨r, List.mem_cons_self, hk, hc⟩
        · cases h1
        · exact Or.inl h1
      · exact Or.inl h1
    · exact Or.inr ⟨r', List.mem_cons_of_mem _ hr', hk, hc⟩

/-- **An entry a lookup returns is the classification of a record of the key in the bucket.** -/
theorem Codec.findIn_some {R M : Type} (c : Codec R M) (k : Bytes) (rs : List R) (m : M)
    (h : c.findIn k rs = some m) : ∃ r ∈ rs, c.key r = k ∧ c.cls r = .live m := by
  rcases c.foldl_findStep_some k rs none m h with h1 | h1
  · cases h1
  · exact h1

end Cacache
