/-
Program-level refinement: **the index is a map**.

Any sequence of index operations (`insert`, `delete`, `find` — the real model programs of
`Ops.lean`), run one after the other on the model filesystem from a healthy state, answers
exactly like a simple abstract map `Bytes → Option Meta`.
-/
import Cacache.Lemmas.ReadBack
import Cacache.Lemmas.CodecLaws
import Cacache.Lemmas.Bucket
import Cacache.Lemmas.FS

namespace Cacache.Refine
open Prog Json

/-! ### `create_dir_all` succeeds when nothing but directories is in the way -/

/-- The path is absent or a directory. -/
def NoneOrDir (fs : FS) (q : Path) : Prop := fs.get q = none ∨ fs.get q = some .dir

theorem mkdirLevels_ok (fs : FS) (ps : List Path) (n : Nat) (h : ∀ q ∈ ps, NoneOrDir fs q) :
    ∃ fs', FS.mkdirLevels fs ps n = .ok fs' := by
  induction ps generalizing fs n with
  | nil => exact ⟨fs, by simp [FS.mkdirLevels]⟩
  | cons p ps ih =>
    cases n with
    | zero => exact ⟨fs, by simp [FS.mkdirLevels]⟩
    | succ n =>
      simp only [FS.mkdirLevels]
      rcases h p (by simp) with hp | hp
      · rw [hp]
        apply ih
        intro q hq
        unfold NoneOrDir
        rw [FS.get_put]
        split
        · right; rfl
        · exact h q (List.mem_cons_of_mem _ hq)
      · rw [hp]
        exact ih _ _ (fun q hq => h q (List.mem_cons_of_mem _ hq))

theorem mkdirLevels_dirs (fs fs' : FS) (ps : List Path) (n : Nat) (hn : ps.length ≤ n)
    (h : ∀ q ∈ ps, NoneOrDir fs q) (hm : FS.mkdirLevels fs ps n = .ok fs') :
    ∀ q ∈ ps, fs'.get q = some .dir := by
  induction ps generalizing fs n with
  | nil => intro q hq; cases hq
  | cons p ps ih =>
    cases n with
    | zero => simp at hn
    | succ n =>
      simp only [FS.mkdirLevels] at hm
      rcases h p (by simp) with hp | hp
      · rw [hp] at hm
        intro q hq
        rcases List.mem_cons.mp hq with rfl | hq'
        · rcases FS.mkdirLevels_get _ _ _ _ hm q with h1 | ⟨h1, _⟩
          · rw [h1]; simp
          · simp at h1
        · refine ih _ _ (by simpa using hn) ?_ hm q hq'
          intro q' hq''
          unfold NoneOrDir
          rw [FS.get_put]
          split
          · right; rfl
          · exact h q' (List.mem_cons_of_mem _ hq'')
      · rw [hp] at hm
        intro q hq
        rcases List.mem_cons.mp hq with rfl | hq'
        · rcases FS.mkdirLevels_get _ _ _ _ hm q with h1 | ⟨h1, _⟩
          · rw [h1]; exact hp
          · rw [hp] at h1; cases h1
        · exact ih _ _ (by simp at hn; omega) (fun q' hq'' => h q' (List.mem_cons_of_mem _ hq'')) hm q hq'

theorem prefixes_ne_nil {p q : Path} (h : q ∈ FS.prefixes p) : q ≠ [] := by
  unfold FS.prefixes at h
  obtain ⟨i, hi, rfl⟩ := List.mem_map.mp h
  have hi' : i < p.length := List.mem_range.mp hi
  intro e
  rw [List.take_eq_nil_iff] at e
  rcases e with e | e
  · omega
  · subst e; simp at hi'

theorem self_mem_prefixes {p : Path} (h : p ≠ []) : p ∈ FS.prefixes p := by
  unfold FS.prefixes
  have hl : 0 < p.length := List.length_pos_iff.mpr h
  refine List.mem_map.mpr ⟨p.length - 1, List.mem_range.mpr (by omega), ?_⟩
  have : p.length - 1 + 1 = p.length := by omega
  rw [this, List.take_length]

theorem length_prefixes (p : Path) : (FS.prefixes p).length = p.length := by
  simp [FS.prefixes]

/-- **Total correctness of `create_dir_all`**: if every non-root prefix of `p` is absent or a
directory, the call succeeds, `p` is a directory afterwards, paths that are not prefixes of `p`
keep their node, and every path keeps its node or turns from absent into a directory. -/
theorem mkdirP_ok (fs : FS) (p : Path) (hp : p ≠ [])
    (h : ∀ q, q ≠ [] → q <+: p → NoneOrDir fs q) :
    ∃ fs', fs.mkdirP p = .ok fs' ∧ fs'.get p = some .dir ∧
      (∀ q, ¬ q <+: p → fs'.get q = fs.get q) ∧
      (∀ q, fs'.get q = fs.get q ∨ (fs.get q = none ∧ fs'.get q = some .dir)) := by
  have hall : ∀ q ∈ FS.prefixes p, NoneOrDir fs q :=
    fun q hq => h q (prefixes_ne_nil hq) (FS.mem_prefixes hq)
  obtain ⟨fs', hm⟩ := mkdirLevels_ok fs (FS.prefixes p) p.length hall
  refine ⟨fs', hm, ?_, ?_, ?_⟩
  · exact mkdirLevels_dirs fs fs' _ _ (by rw [length_prefixes]; exact Nat.le_refl _) hall hm p
      (self_mem_prefixes hp)
  · intro q hq
    exact FS.mkdirLevels_frame _ _ _ _ hm q (fun m => hq (FS.mem_prefixes m))
  · exact FS.mkdirLevels_get _ _ _ _ hm

theorem isDir_of_get {fs : FS} {p : Path} (h : fs.get p = some .dir) : fs.isDir p = true := by
  cases p <;> simp [FS.isDir, h]

/-! ### path shapes -/

variable (cfg : Cfg) (cache : Path)

theorem bucket_length (key : Bytes) : (bucketPath cfg cache key).length = cache.length + 4 := by
  simp [bucketPath]

theorem parent_length (key : Bytes) :
    (FS.parent (bucketPath cfg cache key)).length = cache.length + 3 := by
  simp [bucketPath, FS.parent]

theorem bucket_ne_nil (key : Bytes) : bucketPath cfg cache key ≠ [] := by
  intro e; have := bucket_length cfg cache key; rw [e] at this; simp at this

theorem parent_ne_nil (key : Bytes) : FS.parent (bucketPath cfg cache key) ≠ [] := by
  intro e; have := parent_length cfg cache key; rw [e] at this; simp at this

/-- No bucket path (of any key) is a prefix of a bucket's parent directory (of any key): the
directories `insert` creates are strictly shorter than bucket paths.  This is what keeps
SHA-1-prefix sharing between keys harmless. -/
theorem bucket_not_prefix_parent (key key' : Bytes) :
    ¬ bucketPath cfg cache key' <+: FS.parent (bucketPath cfg cache key) := by
  intro h
  have := h.length_le
  rw [bucket_length, parent_length] at this
  omega

/-! ### the invariant -/

/-- A **healthy index**: what total correctness of `insert` / `delete` / `find` needs in the
healthy semantics `exec`, for every key at once:
* `dirs` — every non-root proper prefix of every bucket path (= every prefix of the bucket's parent
  directory) is absent or a directory, so `create_dir_all` of the parent succeeds and `open` of
  the bucket finds its directory;
* `buckets` — every bucket path is absent or a regular file whose bytes are `Settled` (reading the
  file as it is = reading it once more records follow).
Nothing is demanded of paths outside the bucket paths and their ancestors (content, tmp, foreign
files elsewhere). -/
structure HealthyIndex (fs : FS) : Prop where
  dirs : ∀ key q, q ≠ [] → q <+: FS.parent (bucketPath cfg cache key) → NoneOrDir fs q
  buckets : ∀ key, fs.get (bucketPath cfg cache key) = none ∨
    ∃ b, fs.get (bucketPath cfg cache key) = some (.file b) ∧ (codec cfg).Settled b

/-- The bytes of a bucket; an absent bucket is the empty one. -/
def bytesAt (fs : FS) (p : Path) : Bytes :=
  match fs.get p with
  | some (.file b) => b
  | _ => []

theorem entries_nil : (codec cfg).entries [] = [] := rfl

theorem HealthyIndex.settled {cfg : Cfg} {cache : Path} {fs : FS} (h : HealthyIndex cfg cache fs)
    (key : Bytes) : (codec cfg).Settled (bytesAt fs (bucketPath cfg cache key)) := by
  unfold bytesAt
  rcases h.buckets key with hn | ⟨b, hb, hs⟩
  · rw [hn]; exact (codec_laws cfg).settled_nil
  · rw [hb]; exact hs

/-- **Non-vacuity / initial state**: an empty cache is healthy — the cache directory itself and
its ancestors are absent or directories ("creatable") and nothing exists below it.  In particular
the empty filesystem is healthy for every cache path. -/
theorem healthy_of_empty_cache (fs : FS)
    (hanc : ∀ q, q ≠ [] → q <+: cache → NoneOrDir fs q)
    (hbelow : ∀ q, cache <+: q → q ≠ cache → fs.get q = none) :
    HealthyIndex cfg cache fs := by
  have key : ∀ q l, q ≠ [] → q <+: cache ++ l → NoneOrDir fs q := by
    intro q l hq hpre
    rcases List.prefix_or_prefix_of_prefix hpre (List.prefix_append cache l) with h1 | h1
    · exact hanc q hq h1
    · by_cases e : q = cache
      · subst e; exact hanc q hq (List.prefix_refl _)
      · exact Or.inl (hbelow q h1 e)
  constructor
  · intro k q hq hpre
    have hpar : FS.parent (bucketPath cfg cache k) =
        cache ++ [dIndex, (keyHex cfg k).take 2, ((keyHex cfg k).drop 2).take 2] := by
      simp [bucketPath, FS.parent, List.dropLast_append_of_ne_nil]
    rw [hpar] at hpre
    exact key q _ hq hpre
  · intro k
    left
    apply hbelow _ (List.prefix_append _ _)
    intro e
    have h1 := congrArg List.length e
    simp at h1

example : HealthyIndex cfg cache FS.empty :=
  healthy_of_empty_cache cfg cache FS.empty (fun _ _ _ => Or.inl rfl) (fun _ _ _ => rfl)

/-- An existing but empty cache directory below existing directories. -/
example (fs : FS)
    (hanc : ∀ q, q ≠ [] → q <+: cache → fs.get q = some .dir)
    (hbelow : ∀ q, cache <+: q → q ≠ cache → fs.get q = none) : HealthyIndex cfg cache fs :=
  healthy_of_empty_cache cfg cache fs (fun q h1 h2 => Or.inr (hanc q h1 h2)) hbelow

/-! ### the programs, run on a healthy state -/

/-- The time stamp of an insertion: the caller's, else the clock's answer. -/
def stamp (env : Env) (o : WriteOpts) : Nat := o.time.getD (env.clock % (timeMax + 1))

theorem stamp_le (env : Env) (o : WriteOpts) (h : ∀ t, o.time = some t → t ≤ timeMax) :
    stamp env o ≤ timeMax := by
  unfold stamp
  cases ht : o.time with
  | none => exact Nat.le_of_lt_succ (Nat.mod_lt _ (Nat.succ_pos _))
  | some t => exact h t ht

theorem run_getTime (env : Env) (o : WriteOpts) (fs : FS) :
    (run env (getTime o) fs).1 = stamp env o ∧ (run env (getTime o) fs).2.1 = fs := by
  unfold getTime stamp
  cases o.time with
  | none => simp [bind_eq, pure_eq, call, bind_sys, bind_done, run, exec]
  | some t => simp [pure_eq, run]

/-- Appending a record to a bucket that is a regular file, or absent in an existing directory. -/
theorem run_appendRec (env : Env) (bucket : Path) (r : Rec) (fs : FS)
    (h : (∃ b, fs.get bucket = some (.file b)) ∨
      (fs.get bucket = none ∧ fs.isDir (FS.parent bucket) = true)) :
    (run env (appendRec cfg bucket r) fs).1 = .ok () ∧
    ∀ q, (run env (appendRec cfg bucket r) fs).2.1.get q =
      if q = bucket then some (.file (bytesAt fs bucket ++ (codec cfg).frame r)) else fs.get q := by
  unfold appendRec bytesAt
  simp only [bind_eq, pure_eq, call, bind_sys, bind_done, run, exec]
  rcases h with ⟨b, hb⟩ | ⟨hn, hd⟩
  · simp [hb, run, exec, FS.get_put]
  · simp [hn, hd, run, exec, FS.get_put]
    intro q
    by_cases hq : q = bucket <;> simp [hq]

/-- **Total correctness of `insert` on a healthy index**: it succeeds, returns the recorded
integrity, the key's bucket becomes the old bytes followed by the frame of the new record — whose
time is the caller's, else the clock's answer — and every other path keeps its node or turns from
absent into a directory on the way to the bucket. -/
theorem run_insert (env : Env) (key : Bytes) (o : WriteOpts) (fs : FS)
    (h : HealthyIndex cfg cache fs) :
    (run env (insert cfg cache key o) fs).1 = .ok (o.sri.getD defaultSri) ∧
    (run env (insert cfg cache key o) fs).2.1.get (bucketPath cfg cache key) =
      some (.file (bytesAt fs (bucketPath cfg cache key) ++
        (codec cfg).frame (mkRec key o (stamp env o)))) ∧
    ∀ q, q ≠ bucketPath cfg cache key →
      (run env (insert cfg cache key o) fs).2.1.get q = fs.get q ∨
      (fs.get q = none ∧ (run env (insert cfg cache key o) fs).2.1.get q = some .dir ∧
        q <+: FS.parent (bucketPath cfg cache key)) := by
  obtain ⟨fs1, hm, hdir, hframe, hget⟩ := mkdirP_ok fs (FS.parent (bucketPath cfg cache key))
    (parent_ne_nil cfg cache key) (fun q hq hp => h.dirs key q hq hp)
  have hb1 : fs1.get (bucketPath cfg cache key) = fs.get (bucketPath cfg cache key) :=
    hframe _ (bucket_not_prefix_parent cfg cache key key)
  have hby : bytesAt fs1 (bucketPath cfg cache key) = bytesAt fs (bucketPath cfg cache key) := by
    unfold bytesAt; rw [hb1]
  have hA := run_appendRec cfg env (bucketPath cfg cache key) (mkRec key o (stamp env o)) fs1 (by
    rcases h.buckets key with hn | ⟨b, hb, _⟩
    · right; exact ⟨by rw [hb1]; exact hn, isDir_of_get hdir⟩
    · left; exact ⟨b, by rw [hb1]; exact hb⟩)
  rw [hby] at hA
  have hT := run_getTime env o fs1
  unfold insert
  simp only [bind_eq, pure_eq, call, bind_sys, bind_done, run, exec, hm, run_bind, hT.1, hT.2, hA.1]
  refine ⟨trivial, ?_, ?_⟩
  · rw [hA.2]; simp
  · intro q hq
    rw [hA.2, if_neg hq]
    rcases hget q with h1 | ⟨h1, h2⟩
    · exact Or.inl h1
    · right
      refine ⟨h1, h2, ?_⟩
      apply Classical.byContradiction
      intro hn
      rw [hframe q hn, h1] at h2
      cases h2

/-! ### the abstraction -/

/-- The abstract state: what a lookup of each key returns. -/
abbrev AbsIndex := Bytes → Option Meta

/-- Concrete → abstract: decode the key's bucket (an absent bucket has no entries) and look the
key up.  Two keys whose SHA-1 collide share the bucket; the lookup filters by key. -/
def absIndex (fs : FS) : AbsIndex := fun key =>
  match fs.get (bucketPath cfg cache key) with
  | some (.file b) => (codec cfg).find b key
  | _ => none

theorem find_nil (k : Bytes) : (codec cfg).find [] k = none := rfl

theorem absIndex_eq_find {fs : FS} (h : HealthyIndex cfg cache fs) (key : Bytes) :
    absIndex cfg cache fs key = (codec cfg).find (bytesAt fs (bucketPath cfg cache key)) key := by
  unfold absIndex bytesAt
  rcases h.buckets key with hn | ⟨b, hb, _⟩
  · rw [hn]; rfl
  · rw [hb]

/-- Decoding after one more framed record: one more step of the lookup fold. -/
theorem find_append_frame (b : Bytes) (hs : (codec cfg).Settled b) (r : Rec) (hr : r.WF) (k : Bytes) :
    (codec cfg).find (b ++ (codec cfg).frame r) k =
      (codec cfg).findStep k ((codec cfg).find b k) r := by
  have hs' : (codec cfg).entries b = (codec cfg).entriesT b := hs
  unfold Codec.find
  rw [(codec_laws cfg).entries_append_frame b r hr, ← hs', Codec.findIn_append]
  rfl

/-- What an insertion maps its key to: the entry built from the options, or nothing when no
integrity is given (a tombstone). -/
def insEntry (env : Env) (key : Bytes) (o : WriteOpts) : Option Meta :=
  o.sri.map (fun s => { key := key, sri := s, time := stamp env o, size := o.size.getD 0, metadata := o.metadata.getD .null, raw := o.raw })

/-- The integrity of an insertion is absent (removal) or one the library computed — then its
text form parses back (`Sri.parse_print_compute`) and the record classifies `live`. -/
def SriOK (o : WriteOpts) : Prop :=
  o.sri = none ∨ ∃ a data, o.sri = some (Sri.compute cfg.H a data)

theorem findStep_mkRec (key : Bytes) (o : WriteOpts) (tm : Nat) (hs : SriOK cfg o) (k : Bytes)
    (acc : Option Meta) :
    (codec cfg).findStep k acc (mkRec key o tm) =
      if k = key then
        o.sri.map (fun s => { key := key, sri := s, time := tm, size := o.size.getD 0, metadata := o.metadata.getD .null, raw := o.raw })
      else acc := by
  have hk : (codec cfg).key (mkRec key o tm) = key := rfl
  unfold Codec.findStep
  rw [hk]
  by_cases e : k = key
  · subst e
    rcases hs with hn | ⟨a, data, hc⟩
    · simp [codec, Rec.codec, Rec.cls, mkRec, hn]
    · simp [codec, Rec.codec, Rec.cls, mkRec, hc, Sri.parse_print_compute]
  · have e' : ¬ key = k := fun x => e x.symm
    simp [e, e']

/-- **One insertion refines one map update** and keeps the index healthy. -/
theorem insert_refines (env : Env) (key : Bytes) (o : WriteOpts) (fs : FS)
    (h : HealthyIndex cfg cache fs) (hw : OptsWF key o) (hs : SriOK cfg o) :
    HealthyIndex cfg cache (run env (insert cfg cache key o) fs).2.1 ∧
    ∀ k, absIndex cfg cache (run env (insert cfg cache key o) fs).2.1 k =
      if k = key then insEntry env key o else absIndex cfg cache fs k := by
  obtain ⟨-, hbk, hoth⟩ := run_insert cfg cache env key o fs h
  have hwf : (mkRec key o (stamp env o)).WF := mkRec_wf key o _ hw (stamp_le env o hw.time)
  -- a bucket path other than the key's keeps its node
  have hother : ∀ k, bucketPath cfg cache k ≠ bucketPath cfg cache key →
      (run env (insert cfg cache key o) fs).2.1.get (bucketPath cfg cache k) =
        fs.get (bucketPath cfg cache k) := by
    intro k e
    rcases hoth _ e with h1 | ⟨_, _, h3⟩
    · exact h1
    · exact absurd h3 (bucket_not_prefix_parent cfg cache key k)
  have hH : HealthyIndex cfg cache (run env (insert cfg cache key o) fs).2.1 := by
    constructor
    · intro k q hq hpre
      have hne : q ≠ bucketPath cfg cache key := by
        intro e; subst e; exact bucket_not_prefix_parent cfg cache k key hpre
      rcases hoth q hne with h1 | ⟨_, h2, _⟩
      · unfold NoneOrDir; rw [h1]; exact h.dirs k q hq hpre
      · exact Or.inr h2
    · intro k
      by_cases e : bucketPath cfg cache k = bucketPath cfg cache key
      · rw [e]
        exact Or.inr ⟨_, hbk, (codec_laws cfg).settled_frame _ _ hwf⟩
      · rw [hother k e]; exact h.buckets k
  refine ⟨hH, ?_⟩
  intro k
  by_cases e : bucketPath cfg cache k = bucketPath cfg cache key
  · have h1 : absIndex cfg cache (run env (insert cfg cache key o) fs).2.1 k =
        (codec cfg).find (bytesAt fs (bucketPath cfg cache key) ++
          (codec cfg).frame (mkRec key o (stamp env o))) k := by
      unfold absIndex; rw [e, hbk]
    have h2 : absIndex cfg cache fs k = (codec cfg).find (bytesAt fs (bucketPath cfg cache key)) k := by
      rw [absIndex_eq_find cfg cache h k, e]
    rw [h1, find_append_frame cfg _ (h.settled key) _ hwf, findStep_mkRec cfg key o _ hs, ← h2]
    rfl
  · have hk : k ≠ key := fun x => e (by rw [x])
    rw [if_neg hk]
    unfold absIndex
    rw [hother k e]

theorem readFile_absent {fs : FS} {p : Path} (hp : p ≠ []) (h : fs.get p = none) :
    fs.readFile p = .error .notFound := by
  unfold FS.readFile FS.resolveFuel
  cases p with
  | nil => exact absurd rfl hp
  | cons x xs => simp [FS.resolve, h]

/-- **Total correctness of `find` on a healthy index**: it answers the abstract lookup and
changes nothing. -/
theorem run_find (env : Env) (key : Bytes) (fs : FS) (h : HealthyIndex cfg cache fs) :
    (run env (find cfg cache key) fs).1 = .ok (absIndex cfg cache fs key) ∧
    (run env (find cfg cache key) fs).2.1 = fs := by
  constructor
  · rcases h.buckets key with hn | ⟨b, hb, _⟩
    · have ha : absIndex cfg cache fs key = none := by unfold absIndex; rw [hn]
      rw [ha]
      unfold find bucketEntries
      simp only [bind_eq, pure_eq, call, bind_sys, bind_done, run, exec]
      rw [readFile_absent (bucket_ne_nil cfg cache key) hn]
      rfl
    · have ha : absIndex cfg cache fs key = (codec cfg).find b key := by unfold absIndex; rw [hb]
      rw [ha]
      exact find_of_bucket cfg env cache fs key b hb
  · exact AllCalls.after_eq env
      ((find_ro cfg cache key).mono (fun c hc fs => exec_readOnly env c hc fs) (fun _ h => h)) fs

/-- `delete` is `insert` with default options, the integrity answer forgotten. -/
theorem run_delete (env : Env) (key : Bytes) (fs : FS) :
    (run env (delete cfg cache key) fs).2.1 = (run env (insert cfg cache key {}) fs).2.1 ∧
    ∀ s, (run env (insert cfg cache key {}) fs).1 = .ok s →
      (run env (delete cfg cache key) fs).1 = .ok () := by
  unfold delete
  simp only [bind_eq, pure_eq, run_bind]
  constructor
  · split <;> rfl
  · intro s hs
    rw [hs]
    rfl

/-! ### operation sequences -/

/-- One index operation. -/
inductive IOp where
  | ins (key : Bytes) (o : WriteOpts)
  | del (key : Bytes)
  | look (key : Bytes)

/-- What an operation answers. -/
inductive Out where
  | inserted (sri : Integrity)
  | deleted
  | found (m : Option Meta)
  | failed (e : Err)

/-- What the caller has to respect: options as Rust's types allow them (`OptsWF`, incl. the JSON
nesting limit — known finding F9), an integrity that is absent or computed by the library, and
keys that are `&str`. -/
def OpWF : IOp → Prop
  | .ins key o => OptsWF key o ∧ SriOK cfg o
  | .del key => utf8Valid key = true
  | .look _ => True

/-- One step of the abstract map.  `env` is the environment (the clock) this operation runs in. -/
def specStep (env : Env) (m : AbsIndex) : IOp → AbsIndex × Out
  | .ins key o => (fun k => if k = key then insEntry env key o else m k, .inserted (o.sri.getD defaultSri))
  | .del key => (fun k => if k = key then none else m k, .deleted)
  | .look key => (m, .found (m key))

/-- The abstract run: every operation comes with the environment it runs in (the clock may answer
differently each time). -/
def specRun : List (Env × IOp) → AbsIndex → List Out × AbsIndex
  | [], m => ([], m)
  | (env, op) :: ops, m =>
    ((specStep env m op).2 :: (specRun ops (specStep env m op).1).1,
     (specRun ops (specStep env m op).1).2)

/-- One operation as the real model program, run to completion on the filesystem. -/
def runOp (env : Env) : IOp → FS → Out × FS
  | .ins key o, fs =>
    ((match (run env (insert cfg cache key o) fs).1 with
      | .ok s => Out.inserted s
      | .error e => Out.failed e), (run env (insert cfg cache key o) fs).2.1)
  | .del key, fs =>
    ((match (run env (delete cfg cache key) fs).1 with
      | .ok () => Out.deleted
      | .error e => Out.failed e), (run env (delete cfg cache key) fs).2.1)
  | .look key, fs =>
    ((match (run env (find cfg cache key) fs).1 with
      | .ok m => Out.found m
      | .error e => Out.failed e), (run env (find cfg cache key) fs).2.1)

/-- The real programs one after the other. -/
def runOps : List (Env × IOp) → FS → List Out × FS
  | [], fs => ([], fs)
  | (env, op) :: ops, fs =>
    ((runOp cfg cache env op fs).1 :: (runOps ops (runOp cfg cache env op fs).2).1,
     (runOps ops (runOp cfg cache env op fs).2).2)

theorem insEntry_default (env : Env) (key : Bytes) : insEntry env key {} = none := rfl

theorem sriOK_default : SriOK cfg {} := Or.inl rfl

/-- **One operation refines one abstract step**: same answer, abstraction commutes, invariant kept. -/
theorem runOp_refines (env : Env) (op : IOp) (fs : FS) (h : HealthyIndex cfg cache fs)
    (hop : OpWF cfg op) :
    (runOp cfg cache env op fs).1 = (specStep env (absIndex cfg cache fs) op).2 ∧
    absIndex cfg cache (runOp cfg cache env op fs).2 = (specStep env (absIndex cfg cache fs) op).1 ∧
    HealthyIndex cfg cache (runOp cfg cache env op fs).2 := by
  cases op with
  | ins key o =>
    obtain ⟨hH, hA⟩ := insert_refines cfg cache env key o fs h hop.1 hop.2
    refine ⟨?_, funext hA, hH⟩
    simp only [runOp, specStep, (run_insert cfg cache env key o fs h).1]
  | del key =>
    obtain ⟨hH, hA⟩ := insert_refines cfg cache env key {} fs h (optsWF_default hop) (sriOK_default cfg)
    obtain ⟨hfs, hres⟩ := run_delete cfg cache env key fs
    simp only [runOp, specStep, hfs, hres _ (run_insert cfg cache env key {} fs h).1]
    exact ⟨trivial, funext hA, hH⟩
  | look key =>
    obtain ⟨h1, h2⟩ := run_find cfg cache env key fs h
    simp only [runOp, specStep, h1, h2]
    exact ⟨trivial, trivial, h⟩

/-- **The index is a map.**  Any sequence of `insert` / `delete` / `find` programs, each run in
its own environment, started from a healthy index: the answers are those of the abstract map
started from the abstraction of the initial state, the final state abstracts to the final map, and
the index is healthy again (so the statement composes). -/
theorem index_refines_map (ops : List (Env × IOp)) (fs : FS) (h : HealthyIndex cfg cache fs)
    (hops : ∀ x ∈ ops, OpWF cfg x.2) :
    (runOps cfg cache ops fs).1 = (specRun ops (absIndex cfg cache fs)).1 ∧
    absIndex cfg cache (runOps cfg cache ops fs).2 = (specRun ops (absIndex cfg cache fs)).2 ∧
    HealthyIndex cfg cache (runOps cfg cache ops fs).2 := by
  induction ops generalizing fs with
  | nil => exact ⟨rfl, rfl, h⟩
  | cons x ops ih =>
    obtain ⟨env, op⟩ := x
    obtain ⟨h1, h2, h3⟩ := runOp_refines cfg cache env op fs h (hops (env, op) (by simp))
    obtain ⟨i1, i2, i3⟩ := ih _ h3 (fun y hy => hops y (List.mem_cons_of_mem _ hy))
    simp only [runOps, specRun]
    rw [← h2]
    exact ⟨by rw [h1, i1], i2, i3⟩

/-- The suggested fixed-clock form: all operations run in the same environment. -/
theorem index_refines_map_fixed_env (env : Env) (ops : List IOp) (fs : FS)
    (h : HealthyIndex cfg cache fs) (hops : ∀ op ∈ ops, OpWF cfg op) :
    (runOps cfg cache (ops.map (fun op => (env, op))) fs).1 =
      (specRun (ops.map (fun op => (env, op))) (absIndex cfg cache fs)).1 ∧
    absIndex cfg cache (runOps cfg cache (ops.map (fun op => (env, op))) fs).2 =
      (specRun (ops.map (fun op => (env, op))) (absIndex cfg cache fs)).2 ∧
    HealthyIndex cfg cache (runOps cfg cache (ops.map (fun op => (env, op))) fs).2 := by
  apply index_refines_map cfg cache _ fs h
  intro x hx
  obtain ⟨op, hop, rfl⟩ := List.mem_map.mp hx
  exact hops op hop

/-! ### corollaries: the C05 sentence at program level -/

/-- The operation writes (inserts or removes) `key`. -/
def IOp.writes : IOp → Bytes → Prop
  | .ins k _, key => k = key
  | .del k, key => k = key
  | .look _, _ => False

theorem specRun_append (a b : List (Env × IOp)) (m : AbsIndex) :
    (specRun (a ++ b) m).2 = (specRun b (specRun a m).2).2 := by
  induction a generalizing m with
  | nil => rfl
  | cons x a ih => obtain ⟨env, op⟩ := x; simp only [List.cons_append, specRun, ih]

theorem specStep_untouched (env : Env) (m : AbsIndex) (op : IOp) (key : Bytes)
    (h : ¬ op.writes key) : (specStep env m op).1 key = m key := by
  cases op with
  | ins k o =>
    have : ¬ key = k := fun e => h e.symm
    simp [specStep, this]
  | del k =>
    have : ¬ key = k := fun e => h e.symm
    simp [specStep, this]
  | look k => rfl

/-- In the abstract map, operations that do not write `key` leave its value alone. -/
theorem specRun_untouched (ops : List (Env × IOp)) (m : AbsIndex) (key : Bytes)
    (h : ∀ x ∈ ops, ¬ x.2.writes key) : (specRun ops m).2 key = m key := by
  induction ops generalizing m with
  | nil => rfl
  | cons x ops ih =>
    obtain ⟨env, op⟩ := x
    simp only [specRun]
    rw [ih _ (fun y hy => h y (List.mem_cons_of_mem _ hy))]
    exact specStep_untouched env m op key (h (env, op) (by simp))

/-- After `pre ++ op :: post` where nothing in `post` writes `key`, the abstract value of `key` is
what `op` left. -/
theorem specRun_last (pre post : List (Env × IOp)) (env : Env) (op : IOp) (m : AbsIndex)
    (key : Bytes) (hpost : ∀ x ∈ post, ¬ x.2.writes key) :
    (specRun (pre ++ (env, op) :: post) m).2 key = (specStep env (specRun pre m).2 op).1 key := by
  rw [specRun_append]
  simp only [specRun]
  exact specRun_untouched post _ key hpost

/-- A lookup after any sequence of operations answers the abstract map's value. -/
theorem look_after_ops (ops : List (Env × IOp)) (fs : FS) (h : HealthyIndex cfg cache fs)
    (hops : ∀ x ∈ ops, OpWF cfg x.2) (env' : Env) (key : Bytes) :
    (run env' (find cfg cache key) (runOps cfg cache ops fs).2).1 =
      .ok ((specRun ops (absIndex cfg cache fs)).2 key) := by
  obtain ⟨_, h2, h3⟩ := index_refines_map cfg cache ops fs h hops
  rw [(run_find cfg cache env' key _ h3).1, h2]

/-- **Last insert wins** (program level): after any sequence of operations in which
`ins key o` — with an integrity the library computed — is the last one that writes `key`,
looking `key` up returns exactly the entry of that insert (time = the caller's, else the clock
answer of the environment that insert ran in). -/
theorem look_returns_last_insert (pre post : List (Env × IOp)) (env : Env) (key : Bytes)
    (o : WriteOpts) (a : Algo) (data : Bytes) (fs : FS) (h : HealthyIndex cfg cache fs)
    (hops : ∀ x ∈ pre ++ (env, IOp.ins key o) :: post, OpWF cfg x.2)
    (hsri : o.sri = some (Sri.compute cfg.H a data))
    (hpost : ∀ x ∈ post, ¬ x.2.writes key) (env' : Env) :
    (run env' (find cfg cache key) (runOps cfg cache (pre ++ (env, IOp.ins key o) :: post) fs).2).1 =
      .ok (some { key := key, sri := Sri.compute cfg.H a data, time := stamp env o, size := o.size.getD 0, metadata := o.metadata.getD .null, raw := o.raw }) := by
  rw [look_after_ops cfg cache _ fs h hops, specRun_last pre post env _ _ key hpost]
  simp [specStep, insEntry, hsri]

/-- **Absent after removal** (program level): if the last operation that writes `key` is a
`delete` (or an insert without integrity — a tombstone), looking `key` up finds nothing: earlier
entries never resurface. -/
theorem look_absent_after_removal (pre post : List (Env × IOp)) (env : Env) (key : Bytes)
    (op : IOp) (hop : op = IOp.del key ∨ ∃ o, op = IOp.ins key o ∧ o.sri = none)
    (fs : FS) (h : HealthyIndex cfg cache fs)
    (hops : ∀ x ∈ pre ++ (env, op) :: post, OpWF cfg x.2)
    (hpost : ∀ x ∈ post, ¬ x.2.writes key) (env' : Env) :
    (run env' (find cfg cache key) (runOps cfg cache (pre ++ (env, op) :: post) fs).2).1 = .ok none := by
  rw [look_after_ops cfg cache _ fs h hops, specRun_last pre post env _ _ key hpost]
  rcases hop with rfl | ⟨o, rfl, ho⟩
  · simp [specStep]
  · simp [specStep, insEntry, ho]

/-- **Operations on other keys never change what a key returns** (even keys that share its
bucket through a SHA-1 collision): the abstract value and the answer of the lookup program are
the same before and after. -/
theorem look_ignores_other_keys (ops : List (Env × IOp)) (fs : FS) (h : HealthyIndex cfg cache fs)
    (hops : ∀ x ∈ ops, OpWF cfg x.2) (key : Bytes) (hkey : ∀ x ∈ ops, ¬ x.2.writes key)
    (env' : Env) :
    absIndex cfg cache (runOps cfg cache ops fs).2 key = absIndex cfg cache fs key ∧
    (run env' (find cfg cache key) (runOps cfg cache ops fs).2).1 =
      (run env' (find cfg cache key) fs).1 := by
  obtain ⟨_, h2, _⟩ := index_refines_map cfg cache ops fs h hops
  constructor
  · rw [h2]; exact specRun_untouched ops _ key hkey
  · rw [look_after_ops cfg cache ops fs h hops, specRun_untouched ops _ key hkey,
      (run_find cfg cache env' key fs h).1]

/-- A key never written, looked up in a cache that started empty, is not found. -/
theorem look_never_written (ops : List (Env × IOp)) (fs : FS)
    (hanc : ∀ q, q ≠ [] → q <+: cache → NoneOrDir fs q)
    (hbelow : ∀ q, cache <+: q → q ≠ cache → fs.get q = none)
    (hops : ∀ x ∈ ops, OpWF cfg x.2) (key : Bytes) (hkey : ∀ x ∈ ops, ¬ x.2.writes key)
    (env' : Env) :
    (run env' (find cfg cache key) (runOps cfg cache ops fs).2).1 = .ok none := by
  have h := healthy_of_empty_cache cfg cache fs hanc hbelow
  rw [(look_ignores_other_keys cfg cache ops fs h hops key hkey env').2,
    (run_find cfg cache env' key fs h).1]
  have : fs.get (bucketPath cfg cache key) = none := by
    apply hbelow _ (List.prefix_append _ _)
    intro e
    have h1 := congrArg List.length e
    simp at h1
  unfold absIndex
  rw [this]

/-! ### the invariant and the abstraction only look at the index paths -/

/-- `HealthyIndex` and `absIndex` depend only on the nodes at the bucket paths and their
ancestors: anything that happens elsewhere (content files, `tmp`, foreign files, the temp-name
counter) preserves both. -/
theorem healthy_congr {fs fs' : FS} (h : HealthyIndex cfg cache fs)
    (hb : ∀ key, fs'.get (bucketPath cfg cache key) = fs.get (bucketPath cfg cache key))
    (hd : ∀ key q, q ≠ [] → q <+: FS.parent (bucketPath cfg cache key) → fs'.get q = fs.get q) :
    HealthyIndex cfg cache fs' ∧ absIndex cfg cache fs' = absIndex cfg cache fs := by
  refine ⟨⟨?_, ?_⟩, ?_⟩
  · intro key q hq hp; unfold NoneOrDir; rw [hd key q hq hp]; exact h.dirs key q hq hp
  · intro key; rw [hb key]; exact h.buckets key
  · funext key; unfold absIndex; rw [hb key]

/-! ### non-vacuity: a concrete run from the empty filesystem -/

/-- The hypotheses of the refinement theorem are satisfiable by a real sequence: on the empty
filesystem, insert a computed integrity under an ASCII key, insert under another key, look the
first key up — the lookup program returns the first insert's entry; after a `delete` it returns
nothing. -/
example (env : Env) (data : Bytes) :
    let o : WriteOpts := { sri := some (Sri.compute cfg.H .sha256 data), size := some 3 }
    (run env (find cfg cache [107])
      (runOps cfg cache [(env, IOp.ins [107] o), (env, IOp.ins [108] {})] FS.empty).2).1 =
      .ok (some { key := [107], sri := Sri.compute cfg.H .sha256 data, time := env.clock % (timeMax + 1), size := 3, metadata := .null, raw := none }) ∧
    (run env (find cfg cache [107])
      (runOps cfg cache [(env, IOp.ins [107] o), (env, IOp.del [107]), (env, IOp.ins [108] {})] FS.empty).2).1 =
      .ok none := by
  intro o
  have h0 : HealthyIndex cfg cache FS.empty :=
    healthy_of_empty_cache cfg cache FS.empty (fun _ _ _ => Or.inl rfl) (fun _ _ _ => rfl)
  have k1 : utf8Valid [107] = true := by decide
  have k2 : utf8Valid [108] = true := by decide
  have w1 : OpWF cfg (IOp.ins [107] o) :=
    ⟨⟨k1, by simp [o], by intro n hn; simp [o] at hn; subst hn; simp [Rec.u64Max],
      by intro s hs; simp [o] at hs; subst hs; exact Sri.compute_wf _ _ _, by simp [o]⟩,
     Or.inr ⟨_, _, rfl⟩⟩
  have w2 : OpWF cfg (IOp.ins [108] {}) := ⟨optsWF_default k2, Or.inl rfl⟩
  have w3 : OpWF cfg (IOp.del [107]) := k1
  constructor
  · have := look_returns_last_insert cfg cache [] [(env, IOp.ins [108] {})] env [107] o .sha256 data
      FS.empty h0 (by intro x hx; simp at hx; rcases hx with rfl | rfl <;> assumption) rfl
      (by intro x hx; simp at hx; subst hx; simp [IOp.writes]) env
    simpa [stamp, o] using this
  · exact look_absent_after_removal cfg cache [(env, IOp.ins [107] o)] [(env, IOp.ins [108] {})] env
      [107] (IOp.del [107]) (Or.inl rfl) FS.empty h0
      (by intro x hx; simp at hx; rcases hx with rfl | rfl | rfl <;> assumption)
      (by intro x hx; simp at hx; subst hx; simp [IOp.writes]) env

end Cacache.Refine

section AxiomCheck
open Cacache.Refine
#print axioms index_refines_map
#print axioms index_refines_map_fixed_env
#print axioms runOp_refines
#print axioms healthy_of_empty_cache
#print axioms look_returns_last_insert
#print axioms look_absent_after_removal
#print axioms look_ignores_other_keys
#print axioms look_never_written
end AxiomCheck
